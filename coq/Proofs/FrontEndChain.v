(* First theorems ACROSS the Go compiler-pass chain, on the plain fragment (Model/FrontEndChainSpec.v):
     src_valid_doc  ==(FrontEndAccept.v)==  ir_accepts_doc (parse_ctx s)
                    --(this file)-->        ir_valid_object (process chain_go (parse_ctx s))
                    --(GoSemC01Proofs.v)--> roundtrip_holds.
   T1 chain_go_plain_total, T2 chain_go_preserves_acceptance_fwd, T3 chain_go_preserves_acceptance_iff (+ the null
   witness), T4 src_valid_roundtrip_plain, T5 chain_plain_nonvacuous. *)
From Coq Require Import List String ZArith Bool Ascii Lia.
From Cog Require Import Model.IR Model.Json Model.GoSemBase Model.GoSemDecode Model.GoSemValidate Model.GoSemStrict
  Model.GoSem Model.GoSemSpec08 Model.GoSemSpec01 Model.GoSemSpec01F Model.Src Model.FrontEnd Model.FrontEndSpec
  Model.Passes Model.PassesChain Model.Process Gen.Chains_gen Model.FrontEndChainSpec.
From Cog Require Import Proofs.FrontEndChainPasses Proofs.FrontEndChainAccept Proofs.FrontEndAccept Proofs.GoSemC01Proofs.
Import ListNotations.
Local Open Scope string_scope.
Local Open Scope list_scope.

(* ---------- plain implies leafy ---------- *)
Lemma fc_ty_plain_leafy : forall t, ty_plain t = true -> ty_leafy t = true.
Proof.
  induction t; simpl; intro H; try discriminate; try reflexivity.
  - apply andb_true_iff in H. destruct H as [_ H]. apply IHt. exact H.
  - apply andb_true_iff in H. destruct H as [H H2]. apply andb_true_iff in H. destruct H as [_ H1].
    rewrite (IHt1 H1), (IHt2 H2). reflexivity.
Qed.
Lemma fc_obj_plain_leafy ko : obj_plain ko = true -> obj_leafy ko = true.
Proof.
  unfold obj_plain, obj_leafy. intro H. apply andb_true_iff in H. destruct H as [H1 H2]. rewrite H1. cbn [andb].
  destruct (o_type (snd ko)); try discriminate.
  apply andb_true_iff in H2. destruct H2 as [_ H2]. revert H2. apply fc_forallb_impl. intros f _. apply fc_ty_plain_leafy.
Qed.
Lemma fc_ctx_plain_leafy ctx : ctx_plain ctx = true -> ctx_leafy ctx = true.
Proof.
  unfold ctx_plain, ctx_leafy. apply fc_forallb_impl. intros s _ H. unfold schema_plain in H. unfold schema_leafy.
  apply andb_true_iff in H. destruct H as [H H3]. apply andb_true_iff in H. destruct H as [H1 H2].
  rewrite H1, (fc_ty_plain_leafy _ H3), andb_true_r. cbn [andb].
  revert H2. apply fc_forallb_impl. intros ko _. apply fc_obj_plain_leafy.
Qed.

(* ---------- the parsed IR of a plain schema is plain ---------- *)
Lemma fc_js_ty_plain pkg : forall t, sty_plain t = true -> ty_plain (js_ty pkg t) = true.
Proof.
  induction t; simpl; intro H; try discriminate; try reflexivity.
  - apply IHt. exact H.
  - apply IHt. exact H.
Qed.

Lemma fc_forallb_insert_field p f l : forallb p (insert_field f l) = (p f && forallb p l)%bool.
Proof.
  induction l as [|g r IH]; simpl; [reflexivity|].
  destruct (str_leb (f_name f) (f_name g)); simpl; [reflexivity|]. rewrite IH.
  destruct (p f), (p g); reflexivity.
Qed.
Lemma fc_forallb_sort_fields p l : forallb p (sort_fields l) = forallb p l.
Proof. induction l as [|f r IH]; simpl; [reflexivity|]. rewrite fc_forallb_insert_field, IH. reflexivity. Qed.
Lemma fc_forallb_insert_obj p o l : forallb p (insert_obj o l) = (p o && forallb p l)%bool.
Proof.
  induction l as [|g r IH]; simpl; [reflexivity|].
  destruct (str_leb (fst o) (fst g)); simpl; [reflexivity|]. rewrite IH.
  destruct (p o), (p g); reflexivity.
Qed.
Lemma fc_forallb_sort_objs p l : forallb p (sort_objs l) = forallb p l.
Proof. induction l as [|f r IH]; simpl; [reflexivity|]. rewrite fc_forallb_insert_obj, IH. reflexivity. Qed.

Lemma fc_str_in_insert_obj k o l :
  str_in k (map fst (insert_obj o l)) = (String.eqb (fst o) k || str_in k (map fst l))%bool.
Proof.
  induction l as [|g r IH]; simpl; [reflexivity|].
  destruct (str_leb (fst o) (fst g)); simpl; [reflexivity|]. rewrite IH.
  destruct (String.eqb (fst o) k), (String.eqb (fst g) k); reflexivity.
Qed.
Lemma fc_nodup_insert_obj o l :
  str_nodup (map fst (insert_obj o l)) = (negb (str_in (fst o) (map fst l)) && str_nodup (map fst l))%bool.
Proof.
  induction l as [|g r IH]; simpl; [reflexivity|].
  destruct (str_leb (fst o) (fst g)); simpl; [reflexivity|]. rewrite IH, fc_str_in_insert_obj.
  rewrite (String.eqb_sym (fst o) (fst g)).
  destruct (String.eqb (fst g) (fst o)), (str_in (fst g) (map fst r)), (str_in (fst o) (map fst r)); reflexivity.
Qed.
Lemma fc_str_in_sort_objs k l : str_in k (map fst (sort_objs l)) = str_in k (map fst l).
Proof. induction l as [|g r IH]; simpl; [reflexivity|]. rewrite fc_str_in_insert_obj, IH. reflexivity. Qed.
Lemma fc_nodup_sort_objs l : str_nodup (map fst (sort_objs l)) = str_nodup (map fst l).
Proof.
  induction l as [|g r IH]; simpl; [reflexivity|]. rewrite fc_nodup_insert_obj, fc_str_in_sort_objs, IH. reflexivity.
Qed.

Lemma fc_str_in_filter {B} (P : string * B -> bool) k l :
  str_in k (map fst (filter P l)) = true -> str_in k (map fst l) = true.
Proof.
  induction l as [|x r IH]; simpl; [auto|]. destruct (P x); simpl; intro H.
  - apply orb_true_iff in H. destruct H as [H|H]; [rewrite H; reflexivity|]. rewrite (IH H). apply orb_true_r.
  - rewrite (IH H). apply orb_true_r.
Qed.
Lemma fc_nodup_filter {B} (P : string * B -> bool) l :
  str_nodup (map fst l) = true -> str_nodup (map fst (filter P l)) = true.
Proof.
  induction l as [|x r IH]; simpl; [auto|]. intro H. apply andb_true_iff in H. destruct H as [H1 H2].
  destruct (P x); simpl; [|apply IH; exact H2]. rewrite (IH H2), andb_true_r.
  apply negb_true_iff in H1. apply negb_true_iff.
  destruct (str_in (fst x) (map fst (filter P r))) eqn:E; [|reflexivity].
  rewrite (fc_str_in_filter P _ _ E) in H1. discriminate.
Qed.

Definition fc_mkobj (pkg : string) (d : string * src_ty) : string * object :=
  (fst d, mkObject (fst d) [] (js_ty pkg (snd d)) pkg (fst d)).

Lemma fc_parse_ctx_eq s : js_schema_supported s = true ->
  parse_ctx s = [mkSchema (src_pkg s) meta0 (src_root s) (TRef attrs0 (src_pkg s) (src_root s))
                   (sort_objs (map (fc_mkobj (src_pkg s)) (filter (fun d => str_in (fst d) (reachable s)) (src_defs s))))].
Proof. intro H. unfold parse_ctx, parse_jsonschema. rewrite H. reflexivity. Qed.

Lemma fc_chain_plain_parts s : chain_plain s = true ->
  src_wf s = true /\ js_schema_supported s = true /\ str_nodup (map fst (src_defs s)) = true /\
  forall d, In d (src_defs s) -> sdef_plain (snd d) = true.
Proof.
  unfold chain_plain. intro H. apply andb_true_iff in H. destruct H as [W P].
  assert (js_schema_supported s = true) as J.
  { unfold src_wf in W. apply andb_true_iff in W. destruct W as [W _]. apply andb_true_iff in W. exact (proj1 W). }
  repeat split; try assumption.
  - unfold js_schema_supported in J. apply andb_true_iff in J. destruct J as [J _]. apply andb_true_iff in J. destruct J as [J _].
    unfold defs_closed in J. apply andb_true_iff in J. exact (proj1 J).
  - apply forallb_forall. exact P.
Qed.

Lemma fc_sdef_obj_plain pkg d : sdef_plain (snd d) = true -> obj_plain (fc_mkobj pkg d) = true.
Proof.
  destruct d as [k t]. cbn [snd]. intro H. unfold obj_plain, fc_mkobj. cbn [fst snd o_name o_type].
  unfold seqb. rewrite String.eqb_refl. cbn [andb].
  destruct t; try discriminate. destruct fs as [|f fs]; [discriminate|].
  cbn [sdef_plain] in H. cbn [js_ty]. cbn [attrs_plain attrs0 nullable dflt negb dyn_is_nil andb].
  rewrite fc_forallb_sort_fields, fc_forallb_map. revert H. apply fc_forallb_impl.
  intros g _ Hg. unfold sfield_plain in Hg. apply andb_true_iff in Hg. destruct Hg as [Hg Hp].
  apply andb_true_iff in Hg. destruct Hg as [Hn _]. apply negb_true_iff in Hn. cbn [f_type]. rewrite Hn.
  apply fc_js_ty_plain. exact Hp.
Qed.

Theorem chain_plain_ctx_plain s : chain_plain s = true -> ctx_plain (parse_ctx s) = true.
Proof.
  intro H. destruct (fc_chain_plain_parts s H) as [_ [J [N P]]].
  rewrite (fc_parse_ctx_eq s J). unfold ctx_plain. cbn [forallb]. rewrite andb_true_r.
  unfold schema_plain. cbn [s_objects s_entrytype]. apply andb_true_iff. split; [apply andb_true_iff; split|reflexivity].
  - rewrite fc_nodup_sort_objs, map_map. cbn [fc_mkobj fst]. apply fc_nodup_filter. exact N.
  - rewrite fc_forallb_sort_objs, fc_forallb_map. apply forallb_forall. intros d Hd.
    apply fc_sdef_obj_plain. apply P. apply filter_In in Hd. exact (proj1 Hd).
Qed.

(* ---------- T1: chain_go is computed on the fragment, and what it computes ---------- *)
Theorem chain_go_plain_explicit s : chain_plain s = true ->
  process chain_go (parse_ctx s) = Ok (nrfn_only (parse_ctx s)).
Proof. intro H. apply chain_go_leafy. apply fc_ctx_plain_leafy. apply chain_plain_ctx_plain. exact H. Qed.

Theorem chain_go_plain_total s : chain_plain s = true -> exists out, process chain_go (parse_ctx s) = Ok out.
Proof. intro H. exists (nrfn_only (parse_ctx s)). apply chain_go_plain_explicit. exact H. Qed.

(* ---------- T2: acceptance, forward ---------- *)
Theorem chain_go_preserves_acceptance_fwd s tname d out :
  chain_plain s = true -> process chain_go (parse_ctx s) = Ok out ->
  ir_accepts_doc (parse_ctx s) (src_pkg s) tname d = true ->
  ir_valid_object out (src_pkg s) tname d = true.
Proof.
  intros H P A. rewrite (chain_go_plain_explicit s H) in P. inversion P; subst out.
  apply fc_accepts_doc_fwd; [apply chain_plain_ctx_plain; exact H|exact A].
Qed.

(* ---------- the hypotheses of parse_preserves_acceptance_partial_weak implied by chain_plain ---------- *)
Lemma fc_nct_plain : forall t, sty_plain t = true -> no_constrained_typearray t = true.
Proof. induction t; simpl; intro H; try discriminate; try reflexivity; auto. Qed.

Lemma chain_plain_no_constrained_typearray s : chain_plain s = true -> schema_no_constrained_typearray s = true.
Proof.
  intro H. destruct (fc_chain_plain_parts s H) as [_ [_ [_ P]]].
  unfold schema_no_constrained_typearray. apply forallb_forall. intros d Hd. specialize (P d Hd).
  destruct (snd d); try discriminate. destruct fs as [|f fs]; [discriminate|].
  cbn [sdef_plain] in P. cbn [no_constrained_typearray]. revert P. apply fc_forallb_impl.
  intros g _ Hg. unfold sfield_plain in Hg. apply andb_true_iff in Hg. destruct Hg as [Hg Hp].
  apply andb_true_iff in Hg. destruct Hg as [_ Hn]. rewrite Hn, (fc_nct_plain _ Hp). reflexivity.
Qed.

Lemma fc_src_lookup_some defs k t : In (k, t) defs -> exists t', src_lookup defs k = Some t' /\ In (k, t') defs.
Proof.
  induction defs as [|[k' t'] r IH]; simpl; intro H; [contradiction|].
  destruct (seqb k' k) eqn:E.
  - exists t'. split; [reflexivity|]. apply String.eqb_eq in E. subst. left; reflexivity.
  - destruct H as [H|H]; [inversion H; subst; unfold seqb in E; rewrite String.eqb_refl in E; discriminate|].
    destruct (IH H) as [t'' [L I]]. exists t''. split; [exact L|right; exact I].
Qed.

Lemma chain_plain_aliases_resolve s : chain_plain s = true -> schema_aliases_resolve s = true.
Proof.
  intro H. destruct (fc_chain_plain_parts s H) as [_ [_ [_ P]]].
  unfold schema_aliases_resolve. apply forallb_forall. intros [k t] Hd. cbn [fst].
  destruct (fc_src_lookup_some _ _ _ Hd) as [t' [L I]]. cbn [src_resolve]. rewrite L.
  specialize (P _ I). cbn [snd] in P. destruct t'; try discriminate.
  destruct (List.length (src_defs s)); reflexivity.
Qed.

(* ---------- T4: end to end ---------- *)
Theorem src_valid_roundtrip_plain s tname d out :
  chain_plain s = true -> schema_bounds_small s = true ->
  json_wf d = true -> json_ints_int64 d = true ->
  process chain_go (parse_ctx s) = Ok out -> ctx_supported out = true ->
  str_in tname (map fst (src_defs s)) = true ->
  src_valid_doc "jsonschema" s tname d = true ->
  roundtrip_safeF out (src_pkg s) tname d = true ->
  roundtrip_holds out (src_pkg s) tname d = true.
Proof.
  intros H SM WF HI P CS IN SV RS.
  destruct (fc_chain_plain_parts s H) as [W _].
  pose proof (parse_preserves_acceptance_partial_weak s tname d W (chain_plain_no_constrained_typearray s H) SM
                (chain_plain_aliases_resolve s H) WF HI IN) as AG.
  unfold acceptance_agrees in AG. apply eqb_prop in AG. rewrite SV in AG. symmetry in AG.
  pose proof (chain_go_preserves_acceptance_fwd s tname d out H P AG) as IV.
  apply go_roundtrip_nf_partial_weak; try assumption.
  rewrite (chain_go_plain_explicit s H) in P. inversion P; subst out.
  apply (fc_struct_object_out _ (chain_plain_ctx_plain s H) _ _ d AG).
Qed.

(* T4 without the bound-size hypothesis (parse_preserves_acceptance_partial_strong: general decimal round trip) *)
Theorem src_valid_roundtrip_plain_strong s tname d out :
  chain_plain s = true -> json_wf d = true -> json_ints_int64 d = true ->
  process chain_go (parse_ctx s) = Ok out -> ctx_supported out = true ->
  str_in tname (map fst (src_defs s)) = true ->
  src_valid_doc "jsonschema" s tname d = true ->
  roundtrip_safeF out (src_pkg s) tname d = true ->
  roundtrip_holds out (src_pkg s) tname d = true.
Proof.
  intros H WF HI P CS IN SV RS.
  destruct (fc_chain_plain_parts s H) as [W _].
  pose proof (parse_preserves_acceptance_partial_strong s tname d W (chain_plain_no_constrained_typearray s H)
                WF HI IN) as AG.
  unfold acceptance_agrees in AG. apply eqb_prop in AG. rewrite SV in AG. symmetry in AG.
  pose proof (chain_go_preserves_acceptance_fwd s tname d out H P AG) as IV.
  apply go_roundtrip_nf_partial_weak; try assumption.
  rewrite (chain_go_plain_explicit s H) in P. inversion P; subst out.
  apply (fc_struct_object_out _ (chain_plain_ctx_plain s H) _ _ d AG).
Qed.


(* ---------- T3: acceptance both ways (no constraint, no date-time; null-free documents) ---------- *)
Lemma fc_js_ty_bare pkg : forall t, sty_plain t = true -> sty_unconstrained t = true -> ty_bare (js_ty pkg t) = true.
Proof.
  induction t; simpl; intros P U; try discriminate; try reflexivity; auto.
  - destruct ge, gt, le, lt; try discriminate; reflexivity.
  - destruct ge, gt, le, lt; try discriminate; reflexivity.
  - destruct minlen, maxlen; try discriminate; reflexivity.
Qed.

Theorem chain_plain_unconstrained_ctx_bare s : chain_plain_unconstrained s = true -> ctx_bare (parse_ctx s) = true.
Proof.
  unfold chain_plain_unconstrained. intro H0. apply andb_true_iff in H0. destruct H0 as [H U].
  destruct (fc_chain_plain_parts s H) as [_ [J [_ P]]].
  rewrite (fc_parse_ctx_eq s J). unfold ctx_bare. cbn [forallb s_objects]. rewrite andb_true_r.
  rewrite fc_forallb_sort_objs, fc_forallb_map. apply forallb_forall. intros d Hd.
  apply filter_In in Hd. destruct Hd as [Hd _]. specialize (P d Hd).
  pose proof (proj1 (forallb_forall _ _) U d Hd) as Ud. cbn beta in Ud.
  destruct d as [k t]. cbn [fc_mkobj fst snd o_type] in *.
  destruct t; try discriminate. destruct fs as [|f fs]; [discriminate|].
  cbn [sdef_plain] in P. cbn [sty_unconstrained] in Ud. cbn [js_ty ty_bare].
  rewrite fc_forallb_sort_fields, fc_forallb_map. apply forallb_forall. intros g Hg.
  pose proof (proj1 (forallb_forall _ _) P g Hg) as Pg. pose proof (proj1 (forallb_forall _ _) Ud g Hg) as Ug. cbn beta in Ug.
  unfold sfield_plain in Pg. apply andb_true_iff in Pg. destruct Pg as [Pg Hp].
  apply andb_true_iff in Pg. destruct Pg as [Hn _]. apply negb_true_iff in Hn. cbn [f_type]. rewrite Hn.
  apply fc_js_ty_bare; assumption.
Qed.

Theorem chain_go_preserves_acceptance_iff s tname d out :
  chain_plain_unconstrained s = true -> process chain_go (parse_ctx s) = Ok out -> json_null_free d = true ->
  ir_accepts_doc (parse_ctx s) (src_pkg s) tname d = ir_valid_object out (src_pkg s) tname d.
Proof.
  intros H0 P NF. pose proof H0 as H. unfold chain_plain_unconstrained in H. apply andb_true_iff in H. destruct H as [H _].
  rewrite (chain_go_plain_explicit s H) in P. inversion P; subst out.
  apply fc_accepts_doc_iff; [apply chain_plain_ctx_plain; exact H|apply chain_plain_unconstrained_ctx_bare; exact H0|exact NF].
Qed.

(* ---------- T5: non-vacuity, and the witnesses for the exclusions ---------- *)
Definition sPlain : src_schema :=
  mkSrc "p" "Root"
    [("Root", SStruct [mkSField "inner" (SRef "Inner") true false false;
                       mkSField "count" (SInt "int64" (Some 1%Z) None (Some 10%Z) None) true false false;
                       mkSField "label" (SString None None) false false false;
                       mkSField "items" (SArray (SString None None)) true false false;
                       mkSField "tags" (SMap SBool) true false false]);
     ("Inner", SStruct [mkSField "x" SBool true false false])].
Definition dPlain : json :=
  JObj [("inner", JObj [("x", JBool true)]); ("count", JNum 3 0); ("label", JStr "hi");
        ("items", JArr [JStr "a"; JStr "b"]); ("tags", JObj [("k", JBool false)])].
Definition outPlain : schemas := nrfn_only (parse_ctx sPlain).

Lemma chain_plain_nonvacuous :
  chain_plain sPlain = true /\ schema_bounds_small sPlain = true /\ json_wf dPlain = true /\ json_ints_int64 dPlain = true /\
  process chain_go (parse_ctx sPlain) = Ok outPlain /\ ctx_supported outPlain = true /\
  str_in "Root" (map fst (src_defs sPlain)) = true /\ src_valid_doc "jsonschema" sPlain "Root" dPlain = true /\
  roundtrip_safeF outPlain (src_pkg sPlain) "Root" dPlain = true /\
  ir_accepts_doc (parse_ctx sPlain) (src_pkg sPlain) "Root" dPlain = true /\
  ir_valid_object outPlain (src_pkg sPlain) "Root" dPlain = true /\
  roundtrip_holds outPlain (src_pkg sPlain) "Root" dPlain = true.
Proof. vm_compute. repeat split; reflexivity. Qed.

(* the optional member `label` is the only type the chain changes: it becomes nullable *)
Example chain_plain_out_label :
  ir_field outPlain "p" "Root" "label" =
  Some (mkField "label" [] (TScalar {| nullable := true ; dflt := DNil ; hints := [] |} KString DNil []) false).
Proof. vm_compute. reflexivity. Qed.

(* T3 needs null-free documents: after the chain an optional member accepts null, before it does not *)
Definition sOpt : src_schema :=
  mkSrc "p" "Root" [("Root", SStruct [mkSField "opt" (SString None None) false false false])].
Definition dOptNull : json := JObj [("opt", JNull)].
Lemma chain_go_acceptance_null_witness :
  chain_plain_unconstrained sOpt = true /\ json_wf dOptNull = true /\
  process chain_go (parse_ctx sOpt) = Ok (nrfn_only (parse_ctx sOpt)) /\
  src_valid_doc "jsonschema" sOpt "Root" dOptNull = false /\
  ir_accepts_doc (parse_ctx sOpt) (src_pkg sOpt) "Root" dOptNull = false /\
  ir_valid_object (nrfn_only (parse_ctx sOpt)) (src_pkg sOpt) "Root" dOptNull = true.
Proof. vm_compute. repeat split; reflexivity. Qed.

(* why SAny is outside the fragment: a REQUIRED `any` member given null is accepted by the source schema and by the
   pre-chain IR, and rejected by ir_valid (a required non-nullable field is not null): T2 fails with SAny members *)
Definition sAny : src_schema :=
  mkSrc "p" "Root" [("Root", SStruct [mkSField "a" SAny true false false])].
Definition dAnyNull : json := JObj [("a", JNull)].
Lemma chain_go_any_null_witness :
  src_wf sAny = true /\ exists out, process chain_go (parse_ctx sAny) = Ok out /\
  src_valid_doc "jsonschema" sAny "Root" dAnyNull = true /\
  ir_accepts_doc (parse_ctx sAny) (src_pkg sAny) "Root" dAnyNull = true /\
  ir_valid_object out (src_pkg sAny) "Root" dAnyNull = false.
Proof. split; [vm_compute; reflexivity|]. eexists. vm_compute. repeat split; reflexivity. Qed.

Print Assumptions chain_go_plain_explicit.
Print Assumptions chain_go_plain_total.
Print Assumptions chain_go_preserves_acceptance_fwd.
Print Assumptions chain_go_preserves_acceptance_iff.
Print Assumptions chain_go_acceptance_null_witness.
Print Assumptions chain_go_any_null_witness.
Print Assumptions src_valid_roundtrip_plain.
Print Assumptions chain_plain_nonvacuous.
Print Assumptions src_valid_roundtrip_plain_strong.
