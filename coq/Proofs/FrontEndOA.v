(* C01 front-end, OpenAPI: the member facts are kept (parse_openapi_keeps_constraints_partial) and acceptance is
   preserved (parse_openapi_preserves_acceptance_partial) by the OpenAPI front-end model parse_openapi. *)
From Coq Require Import List String ZArith Bool Ascii Arith Lia.
From Cog Require Import Model.IR Model.Json Model.GoSemBase Model.GoSemValidate Model.Src Model.FrontEnd Model.FrontEndSpec
  Model.FrontEndSpecOA.
From Cog Require Import Proofs.FrontEndLemmas Proofs.FrontEndOADec.
Require Cog.Proofs.FrontEndAccept.
Import FEDec.
Import ListNotations.
Local Open Scope list_scope.
Local Open Scope string_scope.

(* ---------- induction on documents ---------- *)
Section OaJsonInd.
  Variable P : json -> Prop.
  Hypothesis HNull : P JNull.
  Hypothesis HBool : forall b, P (JBool b).
  Hypothesis HNum : forall m e, P (JNum m e).
  Hypothesis HStr : forall s, P (JStr s).
  Hypothesis HArr : forall l, Forall P l -> P (JArr l).
  Hypothesis HObj : forall l, Forall (fun kv => P (snd kv)) l -> P (JObj l).
  Fixpoint oa_json_ind (j : json) : P j :=
    match j with
    | JNull => HNull | JBool b => HBool b | JNum m e => HNum m e | JStr s => HStr s
    | JArr l =>
        HArr l ((fix go (l : list json) : Forall P l :=
                   match l with [] => Forall_nil _ | x :: r => Forall_cons x (oa_json_ind x) (go r) end) l)
    | JObj l =>
        HObj l ((fix go (l : list (string * json)) : Forall (fun kv => P (snd kv)) l :=
                   match l with [] => Forall_nil _ | x :: r => Forall_cons x (oa_json_ind (snd x)) (go r) end) l)
    end.
End OaJsonInd.

(* ---------- list helpers ---------- *)
Lemma oa_forallb_map {A B} (p : B -> bool) (F : A -> B) l : forallb p (map F l) = forallb (fun x => p (F x)) l.
Proof. induction l; simpl; auto. rewrite IHl. reflexivity. Qed.
Lemma oa_existsb_map {A B} (p : B -> bool) (F : A -> B) l : existsb p (map F l) = existsb (fun x => p (F x)) l.
Proof. induction l; simpl; auto. rewrite IHl. reflexivity. Qed.
Lemma oa_existsb_flat_map {A B} (p : B -> bool) (F : A -> list B) l :
  existsb p (flat_map F l) = existsb (fun x => existsb p (F x)) l.
Proof. induction l; simpl; auto. rewrite existsb_app, IHl. reflexivity. Qed.
Lemma oa_forallb_ext_in {A} (p q : A -> bool) l : (forall x, In x l -> p x = q x) -> forallb p l = forallb q l.
Proof. induction l; simpl; intro H; auto. rewrite H, IHl; auto. Qed.
Lemma oa_existsb_ext_in {A} (p q : A -> bool) l : (forall x, In x l -> p x = q x) -> existsb p l = existsb q l.
Proof. induction l; simpl; intro H; auto. rewrite H, IHl; auto. Qed.
Lemma oa_existsb_false {A} (p : A -> bool) l : (forall x, In x l -> p x = false) -> existsb p l = false.
Proof. induction l; simpl; intro H; auto. rewrite H, IHl; auto. Qed.

(* ---------- the parsed context ---------- *)
Definition oa_mkobj (pkg : string) (d : string * src_ty) : string * object :=
  (fst d, mkObject (fst d) [] (oa_ty pkg (snd d)) pkg (fst d)).
Definition oa_obj_of (pkg n : string) (t : src_ty) : object := mkObject n [] (oa_ty pkg t) pkg n.

Lemma oa_parse_ctx_eq s : oa_schema_supported s = true ->
  parse_ctx_oa s = [mkSchema (src_pkg s) meta0 "" (TBad attrs0 "") (sort_objs (map (oa_mkobj (src_pkg s)) (src_defs s)))].
Proof. intro H. unfold parse_ctx_oa, parse_openapi. rewrite H. reflexivity. Qed.

Lemma oa_objs_get_map pkg defs k :
  objs_get (map (oa_mkobj pkg) defs) k = option_map (oa_obj_of pkg k) (src_lookup defs k).
Proof.
  induction defs as [|[k' t] r IH]; simpl; [reflexivity|].
  destruct (seqb k' k) eqn:E.
  - apply fe_seqb_eq in E. subst k'. reflexivity.
  - exact IH.
Qed.

Lemma oa_locate_parse s n : oa_schema_supported s = true ->
  locate_object (parse_ctx_oa s) (src_pkg s) n = option_map (oa_obj_of (src_pkg s) n) (src_lookup (src_defs s) n).
Proof.
  intro H. rewrite (oa_parse_ctx_eq s H). unfold locate_object, locate. simpl.
  rewrite fe_seqb_refl. simpl. rewrite objs_get_sort. apply oa_objs_get_map.
Qed.

Definition oa_isref (t : src_ty) : bool := match t with SRef _ => true | _ => false end.

(* the IR field made of a member *)
Definition oa_field (pkg : string) (f : sfield) : field :=
  mkField (sf_name f) []
          (with_nullable (oa_ty pkg (sf_type f)) (sf_null f && negb (match sf_type f with SRef _ => true | _ => false end)))
          (sf_req f).

Lemma oa_ty_struct pkg f fs :
  oa_ty pkg (SStruct (f :: fs)) = TStruct attrs0 [] (sort_fields (map (oa_field pkg) (f :: fs))).
Proof. reflexivity. Qed.

Lemma src_wf_oa_parts s : src_wf_oa s = true ->
  oa_schema_supported s = true /\ str_nodup (map fst (src_defs s)) = true /\
  (forall k t, In (k, t) (src_defs s) ->
     oa_supported t = true /\ ty_wf (src_defs s) t = true /\
     forallb (fun n => str_in n (map fst (src_defs s))) (refs_of t) = true).
Proof.
  unfold src_wf_oa. intro H. apply andb_true_iff in H. destruct H as [H1 H2]. split; auto.
  pose proof H1 as H1'. unfold oa_schema_supported in H1.
  apply andb_true_iff in H1. destruct H1 as [H1 H5].
  unfold defs_closed in H1. apply andb_true_iff in H1. destruct H1 as [H0 H1]. split; auto.
  intros k t I. rewrite forallb_forall in H1, H2, H5.
  repeat split.
  - apply (H5 _ I).
  - apply (H2 _ I).
  - apply (H1 _ I).
Qed.

Lemma oa_supported_struct fs : oa_supported (SStruct fs) = true ->
  str_nodup (map sf_name fs) = true /\
  forall f, In f fs -> oa_supported (sf_type f) = true /\ (sf_null f && oa_isref (sf_type f))%bool = false.
Proof.
  intro H. change (oa_supported (SStruct fs)) with
    (str_nodup (map sf_name fs) &&
       forallb (fun f => (oa_supported (sf_type f) &&
                          negb (sf_null f && match sf_type f with SRef _ => true | _ => false end))%bool) fs)%bool in H.
  apply andb_true_iff in H. destruct H as [H1 H2]. split; auto.
  intros f I. rewrite forallb_forall in H2. specialize (H2 f I). apply andb_true_iff in H2.
  destruct H2 as [A B]. split; auto. apply negb_true_iff in B. exact B.
Qed.

(* ==================== O1: the member facts ==================== *)
Lemma oa_ty_nullable pkg t : nullable (ty_attrs (oa_ty pkg t)) = false.
Proof. destruct t; try reflexivity. destruct fs; reflexivity. Qed.

Definition oa_knull (b : ty) : bool := match b with TScalar _ KNull _ _ => true | _ => false end.

Lemma oa_ty_not_knull pkg t : oa_knull (oa_ty pkg t) = false.
Proof.
  destruct t; try reflexivity.
  - cbn [oa_ty oa_knull]. destruct (seqb w "int32"); reflexivity.
  - cbn [oa_ty oa_knull]. destruct (seqb w "float32"); reflexivity.
  - destruct fs; reflexivity.
Qed.

Lemma oa_existsb_knull_map pkg bs : existsb oa_knull (map (oa_ty pkg) bs) = false.
Proof. induction bs as [|b r IH]; simpl; auto. rewrite IH, oa_ty_not_knull. reflexivity. Qed.
Lemma oa_filter_nonnull_map pkg bs :
  filter (fun b : ty => negb match b with TScalar _ KNull _ _ => true | _ => false end) (map (oa_ty pkg) bs) = map (oa_ty pkg) bs.
Proof. change (filter (fun b => negb (oa_knull b)) (map (oa_ty pkg) bs) = map (oa_ty pkg) bs). induction bs as [|b r IH]; simpl; auto. rewrite oa_ty_not_knull, IH. reflexivity. Qed.

Lemma oa_offers_null_ty pkg t : ir_offers_null (oa_ty pkg t) = false.
Proof.
  destruct t; try reflexivity.
  - destruct fs; reflexivity.
  - cbn [oa_ty mk_disj ir_offers_null d_branches]. apply oa_existsb_knull_map.
  - cbn [oa_ty ir_offers_null d_branches]. induction names; simpl; auto.
Qed.

Lemma oa_offers_null_set T a : ir_offers_null (set_attrs T a) = ir_offers_null T.
Proof. destruct T; reflexivity. Qed.
Lemma oa_ty_attrs_set T a : ty_attrs (set_attrs T a) = a.
Proof. destruct T; reflexivity. Qed.
Lemma oa_ir_constraints_set T a : ir_constraints (set_attrs T a) = ir_constraints T.
Proof.
  destruct T; try reflexivity. unfold ir_constraints, ir_core. cbn [set_attrs].
  destruct (filter _ (d_branches d)) as [|b [|b2 r]]; reflexivity.
Qed.

Lemma oa_dyn_same_flo m e : dyn_same (dflo m e) (dflo m e) = true.
Proof. unfold dyn_same. change (dflo m e) with (DFloat "float64" (dec_string m e)). apply (dyn_eqv_dflo m e). Qed.
Lemma oa_constraint_same_flo op m e : constraint_same (cstr op (dflo m e)) (cstr op (dflo m e)) = true.
Proof. unfold constraint_same, cstr. cbn [c_op c_args leqv]. rewrite fe_seqb_refl, oa_dyn_same_flo. reflexivity. Qed.
Lemma oa_constraint_same_int op g n : constraint_same (cstr op (DInt g (n * 10 ^ 0))) (zcstr op n) = true.
Proof.
  unfold constraint_same, zcstr, cstr. cbn [c_op c_args leqv dyn_same]. rewrite fe_seqb_refl.
  change (10 ^ 0)%Z with 1%Z. rewrite Z.mul_1_r, Z.eqb_refl. reflexivity.
Qed.
Lemma oa_constraint_same_len op g n : constraint_same (cstr op (DInt g n)) (zcstr op n) = true.
Proof.
  unfold constraint_same, zcstr, cstr. cbn [c_op c_args leqv dyn_same]. rewrite fe_seqb_refl, Z.eqb_refl. reflexivity.
Qed.

Definition oa_scalar_cs (t : ty) : list constraint := match t with TScalar _ _ _ cs => cs | _ => [] end.

Lemma oa_cs_same pkg b : oa_supported b = true ->
  constraints_same (oa_scalar_cs (oa_ty pkg b)) (oa_scalar_constraints b) = true.
Proof.
  intro H. destruct b as [|w ge gt le lt|w ge gt le lt|mn mx| | |cv|vals|et|vt|rn|cfs|bs|disc names]; try reflexivity.
  - cbn [oa_supported] in H. apply andb_true_iff in H. destruct H as [H H3]. apply andb_true_iff in H. destruct H as [_ H2].
    unfold constraints_same. cbn [oa_ty oa_scalar_cs oa_scalar_constraints].
    destruct ge as [a1|], gt as [a2|], le as [a3|], lt as [a4|]; try discriminate;
      unfold oa_lower, oa_upper, opt_list, zb; cbn [app leqv fst snd]; rewrite ?oa_constraint_same_int; reflexivity.
  - cbn [oa_supported] in H. apply andb_true_iff in H. destruct H as [H2 H3].
    unfold constraints_same. cbn [oa_ty oa_scalar_cs oa_scalar_constraints].
    destruct ge as [[a1 b1]|], gt as [[a2 b2]|], le as [[a3 b3]|], lt as [[a4 b4]|]; try discriminate;
      unfold oa_lower, oa_upper, js_bounds, opt_list; cbn [app leqv fst snd]; rewrite ?oa_constraint_same_flo; reflexivity.
  - unfold constraints_same. cbn [oa_ty oa_scalar_cs oa_scalar_constraints]. unfold oa_lengths, opt_list.
    destruct mn as [n|], mx as [x|]; try destruct (Z.ltb 0 n); cbn [app leqv]; rewrite ?oa_constraint_same_len; reflexivity.
  - destruct cfs; reflexivity.
Qed.

Lemma oa_ir_constraints_ty pkg t : oa_supported t = true ->
  constraints_same (ir_constraints (oa_ty pkg t)) (oa_src_constraints t) = true.
Proof.
  intro H.
  destruct t as [|w ge gt le lt|w ge gt le lt|mn mx| | |cv|vals|et|vt|rn|cfs|bs|disc names];
    try (apply (oa_cs_same pkg _ H)).
  - (* struct *) destruct cfs; reflexivity.
  - (* union *)
    unfold ir_constraints, ir_core. cbn [oa_ty mk_disj d_branches].
    rewrite (oa_filter_nonnull_map pkg bs).
    destruct bs as [|b [|b2 r]]; try reflexivity.
    cbn [map oa_src_constraints]. apply (oa_cs_same pkg b).
    cbn [oa_supported forallb] in H. apply andb_true_iff in H. destruct H as [_ H].
    apply andb_true_iff in H. destruct H as [H _]. exact H.
  - (* discriminated union *)
    unfold ir_constraints, ir_core. cbn [oa_ty d_branches].
    assert (E : filter (fun b : ty => negb match b with TScalar _ KNull _ _ => true | _ => false end)
                  (map (fun n : string => TRef attrs0 pkg n) names) = map (fun n : string => TRef attrs0 pkg n) names).
    { clear H. induction names; simpl; auto. f_equal. auto. }
    rewrite E. destruct names as [|n [|n2 r]]; reflexivity.
Qed.

Lemma oa_field_facts pkg f :
  oa_supported (sf_type f) = true -> (sf_null f && oa_isref (sf_type f))%bool = false ->
  let fld := oa_field pkg f in
  f_required fld = sf_req f /\ ir_nullable (f_type fld) = sf_null f /\
  constraints_same (ir_constraints (f_type fld)) (oa_src_constraints (sf_type f)) = true.
Proof.
  intros HS HR. destruct f as [nm t rq nl ta]. unfold oa_field.
  cbn [sf_name sf_type sf_req sf_null sf_nullta f_required f_type] in *.
  split; [reflexivity|].
  fold (oa_isref t). destruct nl.
  - cbn [andb] in HR. rewrite HR. cbn [andb negb with_nullable].
    split.
    + unfold ir_nullable. rewrite oa_ty_attrs_set. cbn [a_nullable nullable]. rewrite orb_true_r. reflexivity.
    + rewrite oa_ir_constraints_set. apply oa_ir_constraints_ty. exact HS.
  - cbn [andb with_nullable]. split.
    + unfold ir_nullable. rewrite oa_ty_nullable, oa_offers_null_ty. reflexivity.
    + apply oa_ir_constraints_ty. exact HS.
Qed.

Lemma parse_openapi_keeps_constraints_partial :
  forall s obj fs f, src_wf_oa s = true -> In (obj, SStruct fs) (src_defs s) -> In f fs ->
    oa_field_kept s obj f = true.
Proof.
  intros s obj fs f W I J.
  destruct (src_wf_oa_parts s W) as [SUP [ND ALL]].
  destruct (ALL _ _ I) as [OS [TW _]].
  unfold oa_field_kept, ir_field. rewrite (oa_locate_parse s obj SUP).
  rewrite (src_lookup_in _ _ _ ND I). cbn [option_map oa_obj_of o_type].
  destruct fs as [|f0 fr]; [destruct J|].
  rewrite oa_ty_struct. rewrite find_sort_fields.
  rewrite (find_map_field (oa_field (src_pkg s))) by reflexivity.
  apply oa_supported_struct in OS. destruct OS as [JN JF].
  rewrite (find_sfield_in (f0 :: fr) f JN J). cbn [option_map].
  destruct (JF f J) as [F1 F2].
  destruct (oa_field_facts (src_pkg s) f F1 F2) as [A [B C]].
  rewrite A, B, C. rewrite !eqb_reflx. reflexivity.
Qed.

(* ==================== O2: acceptance ==================== *)
(* ---------- unfolding the two recursive predicates ---------- *)
Definition oa_alt_check (ctx : schemas) (j : json) (alt : ty) : bool :=
  match alt with
  | TScalar a k v cs => scalar_accepts alt a k v cs j
  | TEnum _ vs => existsb (fun ev => const_matches (ev_value ev) j) vs
  | TArray _ et => match j with JArr l => forallb (fun x => ir_accepts_n ctx x et) l | _ => false end
  | TMap _ _ vt => match j with JObj ms => forallb (fun kv => ir_accepts_n ctx (snd kv) vt) ms | _ => false end
  | TStruct _ _ fs =>
      match j with
      | JObj ms =>
          (str_nodup (map fst ms) &&
           forallb (fun kv => match find (fun f => seqb (f_name f) (fst kv)) fs with
                              | Some f => ir_accepts_n ctx (snd kv) (f_type f)
                              | None => false
                              end) ms &&
           forallb (fun f => (negb (f_required f) || str_in (f_name f) (map fst ms))%bool) fs)%bool
      | _ => false
      end
  | _ => false
  end.
Lemma ir_accepts_n_unfold ctx j t :
  ir_accepts_n ctx j t =
  ((is_jnull j && nullable (ty_attrs t)) ||
   existsb (fun alt => ((is_jnull j && nullable (ty_attrs alt)) || oa_alt_check ctx j alt)%bool)
           (alternatives ctx (alt_fuel ctx) t))%bool.
Proof. destruct j; reflexivity. Qed.

Definition OA := "openapi".
Definition oa_sv_simple (defs : list (string * src_ty)) (j : json) (rt : src_ty) : bool :=
  match rt, j with
  | SBool, JBool _ => true
  | SInt w ge gt le lt, JNum m e =>
      (is_integral m e &&
       match width_range OA w with
       | Some (lo, hi) => (Z.leb lo (int_value m e) && Z.leb (int_value m e) hi)%bool
       | None => true end &&
       bounds_ok (zopt ge) (zopt gt) (zopt le) (zopt lt) (m, e))%bool
  | SFloat _ ge gt le lt, JNum m e => bounds_ok ge gt le lt (m, e)
  | SString mn mx, JStr s =>
      (match mn with Some n => Z.leb n (rune_count s) | None => true end &&
       match mx with Some n => Z.leb (rune_count s) n | None => true end)%bool
  | SDateTime, JStr s => match parse_time s with TBadTime => false | _ => true end
  | SAny, _ => true
  | SConst v, _ => json_eq v j
  | SEnum vals, _ => in_list j vals
  | SArray et, JArr l => forallb (fun x => src_valid OA defs x et) l
  | SMap vt, JObj ms => forallb (fun kv => src_valid OA defs (snd kv) vt) ms
  | _, _ => false
  end.
Definition oa_sv_struct (defs : list (string * src_ty)) (fs : list sfield) (ms : list (string * json)) : bool :=
  (str_nodup (map fst ms) &&
   forallb (fun kv => match find (fun f => seqb (sf_name f) (fst kv)) fs with
                      | None => false
                      | Some f =>
                          match snd kv with
                          | JNull => (sf_null f ||
                                      match src_resolve defs (S (List.length defs)) (sf_type f) with Some SAny => true | _ => false end)%bool
                          | _ => src_valid OA defs (snd kv) (sf_type f)
                          end
                      end) ms &&
   forallb (fun f => (negb (sf_req f) || str_in (sf_name f) (map fst ms))%bool) fs)%bool.
Definition oa_sv_body (defs : list (string * src_ty)) (j : json) (t : src_ty) : bool :=
  match src_resolve defs (S (List.length defs)) t with
  | None => false
  | Some rt =>
      match rt with
      | SStruct fs => match j with JObj ms => oa_sv_struct defs fs ms | _ => false end
      | SUnion bs =>
          existsb (fun b => match src_resolve defs (S (List.length defs)) b with Some rb => oa_sv_simple defs j rb | None => false end) bs
      | SDUnion disc names =>
          match j with
          | JObj ms =>
              existsb (fun n => match src_resolve defs (S (List.length defs)) (SRef n) with
                                | Some (SStruct fs) => oa_sv_struct defs fs ms
                                | _ => false end) names
          | _ => false
          end
      | _ => oa_sv_simple defs j rt
      end
  end.
Lemma oa_src_valid_unfold defs j t : src_valid OA defs j t = oa_sv_body defs j t.
Proof. destruct j; reflexivity. Qed.

Lemma oa_width_range w : width_range OA w = if seqb w "int32" then int_range KInt32 else None.
Proof. reflexivity. Qed.

(* ---------- constraints ---------- *)
Lemma oa_cstr_flo op a b m e :
  cstr_holds_json (cstr op (dflo a b)) (JNum m e) =
  (let c := dec_compare (m, e) (a, b) in
   if seqb op ">=" then match c with Lt => false | _ => true end
   else if seqb op ">" then match c with Gt => true | _ => false end
   else if seqb op "<=" then match c with Gt => false | _ => true end
   else if seqb op "<" then match c with Lt => true | _ => false end
   else false).
Proof. apply FrontEndAccept.cstr_num_val. Qed.
Lemma oa_cstr_int op g z m e :
  cstr_holds_json (cstr op (DInt g (z * 10 ^ 0))) (JNum m e) =
  (let c := dec_compare (m, e) (z, 0%Z) in
   if seqb op ">=" then match c with Lt => false | _ => true end
   else if seqb op ">" then match c with Gt => true | _ => false end
   else if seqb op "<=" then match c with Gt => false | _ => true end
   else if seqb op "<" then match c with Lt => true | _ => false end
   else false).
Proof. change (10 ^ 0)%Z with 1%Z. rewrite Z.mul_1_r. reflexivity. Qed.

Definition oa_not_both {A} (a b : option A) : bool := negb (match a, b with Some _, Some _ => true | _, _ => false end).

Lemma oa_float_bounds_agree ge gt le lt m e :
  oa_not_both ge gt = true -> oa_not_both le lt = true ->
  forallb (fun c => cstr_holds_json c (JNum m e)) (oa_lower false ge gt ++ oa_upper false le lt) = bounds_ok ge gt le lt (m, e).
Proof.
  intros N1 N2. unfold oa_lower, oa_upper, bounds_ok, opt_ok.
  destruct ge as [[a1 b1]|], gt as [[a2 b2]|], le as [[a3 b3]|], lt as [[a4 b4]|]; try discriminate;
    cbn [app forallb fst snd]; rewrite ?oa_cstr_flo;
    cbv zeta; cbn [seqb String.eqb Ascii.eqb Bool.eqb];
    repeat match goal with |- context [dec_compare ?x ?y] => destruct (dec_compare x y) end; reflexivity.
Qed.

Lemma oa_int_bounds_agree ge gt le lt m e :
  oa_not_both ge gt = true -> oa_not_both le lt = true ->
  forallb (fun c => cstr_holds_json c (JNum m e)) (oa_lower true (zb ge) (zb gt) ++ oa_upper true (zb le) (zb lt)) =
  bounds_ok (zopt ge) (zopt gt) (zopt le) (zopt lt) (m, e).
Proof.
  intros N1 N2. unfold oa_lower, oa_upper, bounds_ok, opt_ok, zb, zopt.
  destruct ge as [a1|], gt as [a2|], le as [a3|], lt as [a4|]; try discriminate;
    cbn [app forallb fst snd]; rewrite ?oa_cstr_int;
    cbv zeta; cbn [seqb String.eqb Ascii.eqb Bool.eqb];
    repeat match goal with |- context [dec_compare ?x ?y] => destruct (dec_compare x y) end; reflexivity.
Qed.

Lemma oa_dec_compare_int a b : dec_compare (a, 0%Z) (b, 0%Z) = Z.compare a b.
Proof. unfold dec_compare. simpl. rewrite !Z.mul_1_r. reflexivity. Qed.

Lemma oa_rune_count_nonneg s : (0 <= rune_count s)%Z.
Proof. induction s as [|c r IH]; simpl; [lia|]. destruct (is_cont_byte c); lia. Qed.

Lemma oa_lengths_agree mn mx s :
  forallb (fun c => cstr_holds_json c (JStr s)) (oa_lengths mn mx) =
  (match mn with Some n => Z.leb n (rune_count s) | None => true end &&
   match mx with Some n => Z.leb (rune_count s) n | None => true end)%bool.
Proof.
  assert (A : forall n, cstr_holds_json (cstr "minLength" (DInt "uint64" n)) (JStr s) = Z.leb n (rune_count s)).
  { intro n. unfold cstr_holds_json, cstr. cbn [c_args c_op dyn_num]. rewrite oa_dec_compare_int.
    cbn [seqb String.eqb Ascii.eqb Bool.eqb]. unfold Z.leb. rewrite (Z.compare_antisym (rune_count s) n).
    destruct (rune_count s ?= n)%Z; reflexivity. }
  assert (B : forall n, cstr_holds_json (cstr "maxLength" (DInt "uint64" n)) (JStr s) = Z.leb (rune_count s) n).
  { intro n. unfold cstr_holds_json, cstr. cbn [c_args c_op dyn_num]. rewrite oa_dec_compare_int.
    cbn [seqb String.eqb Ascii.eqb Bool.eqb]. unfold Z.leb.
    destruct (rune_count s ?= n)%Z; reflexivity. }
  assert (C : forall n, Z.ltb 0 n = false -> Z.leb n (rune_count s) = true).
  { intros n H. apply Z.ltb_ge in H. apply Z.leb_le. pose proof (oa_rune_count_nonneg s). lia. }
  unfold oa_lengths, opt_list. destruct mn as [n|], mx as [x|]; try destruct (Z.ltb 0 n) eqn:L;
    cbn [app forallb]; rewrite ?A, ?B, ?andb_true_r; try rewrite (C n L); reflexivity.
Qed.

(* ---------- constants ---------- *)
Lemma oa_json_eq_str s j : json_eq (JStr s) j = const_matches (DStr s) j.
Proof. destruct j; unfold json_eq; simpl; try reflexivity. destruct (num_norm m e); reflexivity. Qed.
Lemma oa_dec_string_int m e : (0 <= e)%Z -> dec_string m e = z_string (m * 10 ^ e).
Proof. intro H. unfold dec_string. apply Z.leb_le in H. rewrite H. reflexivity. Qed.
Lemma oa_json_eq_num m e j : (0 <= e)%Z -> json_eq (JNum m e) j = const_matches (dflo m e) j.
Proof.
  intro H. unfold dflo. rewrite (oa_dec_string_int m e H).
  destruct j; unfold json_eq; cbn [canon const_matches json_eqb]; try (destruct (num_norm m e); reflexivity).
  rewrite oa_roundtrip_int.
  unfold num_eqb. rewrite (num_norm_value m e H). destruct (num_norm m e), (num_norm m0 e0). reflexivity.
Qed.

Definition oa_enum_val_ok (v : json) : bool := match v with JStr _ => true | JNum _ e => Z.leb 0 e | _ => false end.
Lemma oa_enum_ok_all vals : enum_ok vals = true -> forall v, In v vals -> oa_enum_val_ok v = true.
Proof.
  unfold enum_ok. destruct vals as [|v0 r]; [discriminate|].
  intros H v I.
  assert (X : forallb json_is_string (v0 :: r) = true \/
              forallb (fun j => match j with JNum m e => Z.leb 0 e | _ => false end) (v0 :: r) = true).
  { destruct v0; auto. }
  destruct X as [X|X]; rewrite forallb_forall in X; specialize (X v I); destruct v; simpl in *; auto; discriminate.
Qed.

Lemma oa_enum_member_agree et v j : oa_enum_val_ok v = true ->
  const_matches (ev_value (oa_enum_member et v)) j = json_eq v j.
Proof.
  destruct v; cbn [oa_enum_val_ok oa_enum_member ev_value]; intros H1; try discriminate.
  - apply Z.leb_le in H1. rewrite (oa_json_eq_num m e j H1). reflexivity.
  - rewrite oa_json_eq_str. reflexivity.
Qed.

Lemma oa_enum_agree ctx vals j :
  (forall v, In v vals -> oa_enum_val_ok v = true) ->
  in_list j vals = oa_alt_check ctx j (oa_enum vals).
Proof.
  intros H1. unfold oa_enum, in_list. cbn [oa_alt_check]. rewrite oa_existsb_map.
  apply oa_existsb_ext_in. intros v I. symmetry. apply oa_enum_member_agree. apply (H1 v I).
Qed.

Lemma oa_json_eq_null v : oa_enum_val_ok v = true -> json_eq v JNull = false.
Proof.
  intros H; destruct v; simpl in H; try discriminate; unfold json_eq; simpl; try reflexivity;
    destruct (num_norm m e); reflexivity.
Qed.

(* ---------- the types inside a well-formed schema ---------- *)
Definition oa_good (s : src_schema) (t : src_ty) : Prop :=
  oa_supported t = true /\ ty_wf (src_defs s) t = true /\
  forallb (fun n => str_in n (map fst (src_defs s))) (refs_of t) = true.
Definition oa_nonref (t : src_ty) : bool := match t with SRef _ => false | _ => true end.

Lemma oa_scalar_accepts_hints t1 t2 a1 a2 k v cs j : hints a1 = hints a2 ->
  scalar_accepts t1 a1 k v cs j = scalar_accepts t2 a2 k v cs j.
Proof. intro H. unfold scalar_accepts. rewrite H. reflexivity. Qed.

Section OaCtx.
  Variable s : src_schema.
  Hypothesis W : src_wf_oa s = true.
  Local Notation defs := (src_defs s).
  Local Notation pkg := (src_pkg s).
  Local Notation ctx := (parse_ctx_oa s).
  Local Notation fuel := (S (List.length (src_defs s))).

  Lemma oa_good_def k t : In (k, t) defs -> oa_good s t.
  Proof.
    intro I. destruct (src_wf_oa_parts s W) as [_ [_ ALL]]. destruct (ALL k t I) as [A [B D]].
    repeat split; auto.
  Qed.

  Lemma oa_locate_ok m t : src_lookup defs m = Some t -> locate_object ctx pkg m = Some (oa_obj_of pkg m t).
  Proof.
    intro L. destruct (src_wf_oa_parts s W) as [SUP _]. rewrite (oa_locate_parse s m SUP), L. reflexivity.
  Qed.

  Lemma oa_alt_fuel_eq : alt_fuel ctx = (2 * List.length defs + 8)%nat.
  Proof.
    destruct (src_wf_oa_parts s W) as [SUP _]. rewrite (oa_parse_ctx_eq s SUP).
    unfold alt_fuel, count_objects. cbn [fold_right s_objects]. rewrite length_sort_objs, map_length. lia.
  Qed.

  Lemma oa_alts_disj F a bs dc mp : alternatives ctx (S F) (TDisj a (mkDisj bs dc mp)) = flat_map (alternatives ctx F) bs.
  Proof. reflexivity. Qed.
  Lemma oa_alts_ref F a p n : alternatives ctx (S F) (TRef a p n) =
    match locate_object ctx p n with Some o => alternatives ctx F (o_type o) | None => [] end.
  Proof. reflexivity. Qed.

  Lemma oa_resolve_good : forall f t rt, oa_good s t -> src_resolve defs f t = Some rt -> oa_good s rt /\ oa_nonref rt = true.
  Proof.
    induction f as [|f IH]; intros t rt G R.
    - destruct t; simpl in R; try discriminate; inversion R; subst; auto.
    - destruct t; simpl in R; try (inversion R; subst; auto; fail).
      destruct (src_lookup defs name) as [t'|] eqn:L; [|discriminate].
      apply (IH t' rt); auto. apply (oa_good_def name). apply src_lookup_some_in. exact L.
  Qed.

  Lemma oa_resolve_alts : forall f t rt, src_resolve defs f t = Some rt ->
    exists k, (k <= f)%nat /\ forall F, alternatives ctx (k + F) (oa_ty pkg t) = alternatives ctx F (oa_ty pkg rt).
  Proof.
    induction f as [|f IH]; intros t rt R.
    - destruct t; simpl in R; try discriminate; inversion R; subst; exists 0%nat; split; auto.
    - destruct t; simpl in R; try (inversion R; subst; exists 0%nat; split; [lia|auto]; fail).
      destruct (src_lookup defs name) as [t'|] eqn:L; [|discriminate].
      destruct (IH t' rt R) as [k [K1 K2]]. exists (S k). split; [lia|].
      intro F. cbn [plus oa_ty]. rewrite oa_alts_ref. rewrite (oa_locate_ok name t' L). cbn [oa_obj_of o_type]. apply K2.
  Qed.

  (* alias cycles: src_resolve fails within its fuel iff it fails with every fuel (FrontEndAccept.resolve_stable), and
     then the IR side has no alternative at all: both sides reject *)
  Lemma oa_none_alts : forall F t, src_resolve defs F t = None -> alternatives ctx F (oa_ty pkg t) = [].
  Proof.
    induction F as [|F IH]; intros t R; [reflexivity|].
    destruct t; simpl in R; try discriminate.
    cbn [oa_ty]. rewrite oa_alts_ref.
    destruct (src_lookup defs name) as [t'|] eqn:L.
    - rewrite (oa_locate_ok name t' L). cbn [oa_obj_of o_type]. apply IH. exact R.
    - destruct (src_wf_oa_parts s W) as [SUP _]. rewrite (oa_locate_parse s name SUP), L. reflexivity.
  Qed.
  Lemma oa_alts_none t F : src_resolve defs fuel t = None -> alternatives ctx F (oa_ty pkg t) = [].
  Proof.
    intro R. apply oa_none_alts. destruct (src_resolve defs F t) as [rt|] eqn:RF; auto.
    apply FrontEndAccept.resolve_stable in RF. congruence.
  Qed.

  (* the alternatives of a resolved (reference-free at the top) type *)
  Definition oa_alts_nr (rt : src_ty) : list ty :=
    match rt with
    | SUnion bs => map (oa_ty pkg) bs
    | SDUnion _ names =>
        flat_map (fun m => match src_lookup defs m with Some t' => [oa_ty pkg t'] | None => [] end) names
    | _ => [oa_ty pkg rt]
    end.

  Lemma oa_alts_simple_branch F b : is_simple_branch b = true -> alternatives ctx (S F) (oa_ty pkg b) = [oa_ty pkg b].
  Proof. destruct b; simpl; intro H; try discriminate; reflexivity. Qed.

  Lemma oa_alts_nonref F rt : oa_good s rt -> oa_nonref rt = true ->
    alternatives ctx (S (S (S F))) (oa_ty pkg rt) = oa_alts_nr rt.
  Proof.
    intros G NR. destruct rt; try discriminate; try reflexivity.
    - destruct fs; reflexivity.
    - (* union *)
      destruct G as [_ [G _]]. cbn [ty_wf] in G. cbn [oa_ty oa_alts_nr]. unfold mk_disj. rewrite oa_alts_disj.
      induction bs as [|b r IH]; [reflexivity|].
      cbn [forallb] in G. apply andb_true_iff in G. destruct G as [G1 G2].
      cbn [map flat_map]. rewrite (oa_alts_simple_branch (S F) b G1), IH; auto.
    - (* discriminated union *)
      destruct G as [_ [G _]]. cbn [ty_wf] in G. cbn [oa_ty oa_alts_nr]. rewrite oa_alts_disj.
      induction names as [|m r IH]; [reflexivity|].
      cbn [forallb] in G. apply andb_true_iff in G. destruct G as [G1 G2].
      cbn [map flat_map]. rewrite IH by auto. f_equal.
      destruct (src_lookup defs m) as [t'|] eqn:L; [|discriminate].
      rewrite oa_alts_ref. rewrite (oa_locate_ok m t' L). cbn [oa_obj_of o_type].
      destruct t'; try discriminate. destruct fs; reflexivity.
  Qed.

  Lemma oa_alts_enough t F rt : oa_good s t -> (List.length defs + 4 <= F)%nat -> src_resolve defs fuel t = Some rt ->
    oa_good s rt /\ oa_nonref rt = true /\ alternatives ctx F (oa_ty pkg t) = oa_alts_nr rt.
  Proof.
    intros G HF R.
    destruct (oa_resolve_good _ _ _ G R) as [G' NR].
    split; [exact G'|]. split; [exact NR|].
    destruct (oa_resolve_alts _ _ _ R) as [k [K1 K2]].
    replace F with (k + S (S (S (F - k - 3))))%nat by lia.
    rewrite K2. apply oa_alts_nonref; auto.
  Qed.

  (* no alternative carries the nullable attribute: nullability sits on struct members only *)
  Lemma oa_alts_nr_nonnull rt alt : In alt (oa_alts_nr rt) -> nullable (ty_attrs alt) = false.
  Proof.
    intro I.
    assert (X : forall t, alt = oa_ty pkg t -> nullable (ty_attrs alt) = false) by (intros t ->; apply oa_ty_nullable).
    destruct rt; cbn [oa_alts_nr] in I;
      try (destruct I as [I|[]]; symmetry in I; apply (X _ I)).
    - apply in_map_iff in I. destruct I as [b [E _]]. symmetry in E. apply (X _ E).
    - apply in_flat_map in I. destruct I as [m [_ I]].
      destruct (src_lookup defs m) as [t'|]; [|destruct I]. destruct I as [I|[]]. symmetry in I. apply (X _ I).
  Qed.

  Lemma oa_accepts_alts j t rt : alternatives ctx (alt_fuel ctx) (oa_ty pkg t) = oa_alts_nr rt ->
    ir_accepts_n ctx j (oa_ty pkg t) = existsb (oa_alt_check ctx j) (oa_alts_nr rt).
  Proof.
    intro A. rewrite ir_accepts_n_unfold, A, oa_ty_nullable, andb_false_r. cbn [orb].
    apply oa_existsb_ext_in. intros alt I. rewrite (oa_alts_nr_nonnull rt alt I), andb_false_r. reflexivity.
  Qed.

  Lemma oa_accepts_none j t : src_resolve defs fuel t = None -> ir_accepts_n ctx j (oa_ty pkg t) = false.
  Proof.
    intro R. rewrite ir_accepts_n_unfold, (oa_alts_none t _ R), oa_ty_nullable, andb_false_r. reflexivity.
  Qed.

  (* ---------- the main induction ---------- *)
  Definition oa_Pk (j : json) : Prop := forall t, oa_good s t -> src_valid OA defs j t = ir_accepts_n ctx j (oa_ty pkg t).
  Definition oa_kids (j : json) : Prop :=
    match j with JArr l => Forall oa_Pk l | JObj ms => Forall (fun kv => oa_Pk (snd kv)) ms | _ => True end.
  Definition oa_simple_kind (rt : src_ty) : bool :=
    match rt with SRef _ | SStruct _ | SUnion _ | SDUnion _ _ => false | _ => true end.

  Lemma oa_scalar_int32 cs m e t0 :
    scalar_accepts t0 attrs0 KInt32 DNil cs (JNum m e) =
    ((is_integral m e && Z.leb (-2147483648) (int_value m e) && Z.leb (int_value m e) 2147483647)
     && forallb (fun c => cstr_holds_json c (JNum m e)) cs)%bool.
  Proof. reflexivity. Qed.
  Lemma oa_scalar_int64 cs m e t0 :
    scalar_accepts t0 attrs0 KInt64 DNil cs (JNum m e) =
    ((is_integral m e && Z.leb (-9223372036854775808) (int_value m e) && Z.leb (int_value m e) 9223372036854775807)
     && forallb (fun c => cstr_holds_json c (JNum m e)) cs)%bool.
  Proof. reflexivity. Qed.
  Lemma oa_scalar_float32 cs m e t0 :
    scalar_accepts t0 attrs0 KFloat32 DNil cs (JNum m e) = forallb (fun c => cstr_holds_json c (JNum m e)) cs.
  Proof. reflexivity. Qed.
  Lemma oa_scalar_float64 cs m e t0 :
    scalar_accepts t0 attrs0 KFloat64 DNil cs (JNum m e) = forallb (fun c => cstr_holds_json c (JNum m e)) cs.
  Proof. reflexivity. Qed.
  Lemma oa_scalar_string cs x t0 :
    scalar_accepts t0 attrs0 KString DNil cs (JStr x) = forallb (fun c => cstr_holds_json c (JStr x)) cs.
  Proof. reflexivity. Qed.
  Lemma oa_scalar_datetime x t0 :
    scalar_accepts t0 a_datetime KString DNil [] (JStr x) = match parse_time x with TBadTime => false | _ => true end.
  Proof. unfold scalar_accepts. cbn. apply andb_true_r. Qed.

  Lemma oa_simple_agree j rt : oa_kids j -> json_ints_int64 j = true -> oa_good s rt -> oa_simple_kind rt = true ->
    oa_sv_simple defs j rt = oa_alt_check ctx j (oa_ty pkg rt).
  Proof.
    intros K HI G SK. destruct rt as [|w ge gt le lt|w ge gt le lt|mn mx| | |cv|vals|et|vt|rn|cfs|bs|disc names]; try discriminate.
    - destruct j; reflexivity.
    - (* integer *)
      destruct G as [G _]. cbn [oa_supported] in G.
      apply andb_true_iff in G. destruct G as [G N2]. apply andb_true_iff in G. destruct G as [GW N1].
      cbn [oa_ty oa_alt_check].
      destruct (seqb w "int32") eqn:W32.
      + destruct j; try reflexivity.
        cbn [oa_sv_simple]. rewrite oa_width_range, W32. rewrite oa_scalar_int32.
        rewrite (oa_int_bounds_agree ge gt le lt m e N1 N2). cbn [int_range].
        rewrite <- !andb_assoc. reflexivity.
      + destruct j; try reflexivity.
        cbn [oa_sv_simple]. rewrite oa_width_range, W32. rewrite oa_scalar_int64.
        rewrite (oa_int_bounds_agree ge gt le lt m e N1 N2).
        cbn [json_ints_int64] in HI. destruct (is_integral m e); cbn [negb orb andb] in *; [rewrite HI|]; reflexivity.
    - (* number *)
      destruct G as [G _]. cbn [oa_supported] in G. apply andb_true_iff in G. destruct G as [N1 N2].
      cbn [oa_ty oa_alt_check].
      destruct (seqb w "float32"); (destruct j; try reflexivity); cbn [oa_sv_simple];
        rewrite ?oa_scalar_float32, ?oa_scalar_float64;
        rewrite (oa_float_bounds_agree ge gt le lt m e N1 N2); reflexivity.
    - destruct j; try reflexivity.
      cbn [oa_sv_simple oa_ty oa_alt_check]. rewrite oa_scalar_string. rewrite oa_lengths_agree. reflexivity.
    - destruct j; try reflexivity.
      cbn [oa_sv_simple oa_ty oa_alt_check]. rewrite oa_scalar_datetime. reflexivity.
    - destruct j; reflexivity.
    - (* const = one-member enum *)
      destruct G as [G1 _].
      assert (E : forall j0, oa_sv_simple defs j0 (SConst cv) = in_list j0 [cv]).
      { intro j0. unfold in_list. cbn [existsb]. rewrite orb_false_r. destruct j0; reflexivity. }
      rewrite E. cbn [oa_ty]. apply oa_enum_agree.
      intros v [<-|[]]. destruct cv; try discriminate; auto.
    - destruct G as [G1 _]. cbn [oa_supported] in G1.
      assert (E : forall j0, oa_sv_simple defs j0 (SEnum vals) = in_list j0 vals) by (intro j0; destruct j0; reflexivity).
      rewrite E. cbn [oa_ty]. apply oa_enum_agree. apply oa_enum_ok_all. assumption.
    - destruct j; try reflexivity. cbn [oa_sv_simple oa_ty oa_alt_check].
      apply oa_forallb_ext_in. intros x I. cbn [oa_kids] in K. rewrite Forall_forall in K. apply (K x I). exact G.
    - destruct j; try reflexivity. cbn [oa_sv_simple oa_ty oa_alt_check].
      apply oa_forallb_ext_in. intros x I. cbn [oa_kids] in K. rewrite Forall_forall in K. apply (K x I). exact G.
  Qed.

  Lemma oa_simple_branch_kind b : is_simple_branch b = true -> oa_simple_kind b = true /\ oa_nonref b = true.
  Proof. destruct b; simpl; intro H; try discriminate; auto. Qed.
  Lemma oa_resolve_nonref f t : oa_nonref t = true -> src_resolve defs f t = Some t.
  Proof. destruct f, t; simpl; intro H; try discriminate; reflexivity. Qed.

  Lemma oa_src_valid_null t : oa_good s t ->
    src_valid OA defs JNull t = match src_resolve defs fuel t with Some SAny => true | _ => false end.
  Proof.
    intro G. rewrite oa_src_valid_unfold. unfold oa_sv_body.
    destruct (src_resolve defs fuel t) as [rt|] eqn:R; [|reflexivity].
    destruct (oa_resolve_good _ _ _ G R) as [G' NR].
    destruct rt; try reflexivity.
    - cbn [oa_sv_simple]. apply oa_json_eq_null. destruct G' as [G1 _]. destruct v; try discriminate; auto.
    - cbn [oa_sv_simple]. unfold in_list. apply oa_existsb_false. intros x I. apply oa_json_eq_null.
      destruct G' as [G1 _]. apply (oa_enum_ok_all vals G1 x I).
    - destruct G' as [_ [G2 _]]. cbn [ty_wf] in G2. rewrite forallb_forall in G2.
      apply oa_existsb_false. intros b I. destruct (oa_simple_branch_kind b (G2 b I)) as [_ NB].
      rewrite (oa_resolve_nonref _ b NB). specialize (G2 b I). destruct b; try discriminate; reflexivity.
  Qed.

  (* ---------- nullable members ---------- *)
  Lemma oa_alt_check_set T a v : hints a = hints (ty_attrs T) ->
    oa_alt_check ctx v (set_attrs T a) = oa_alt_check ctx v T.
  Proof.
    intro H. destruct T; try reflexivity. cbn [set_attrs oa_alt_check]. apply oa_scalar_accepts_hints. exact H.
  Qed.

  Lemma oa_accepts_set_nonnull T a v : is_jnull v = false -> hints a = hints (ty_attrs T) ->
    ir_accepts_n ctx v (set_attrs T a) = ir_accepts_n ctx v T.
  Proof.
    intros NV H. rewrite !ir_accepts_n_unfold, NV. cbn [andb orb].
    rewrite oa_alt_fuel_eq. replace (2 * List.length defs + 8)%nat with (S (2 * List.length defs + 7))%nat by lia.
    destruct T; try reflexivity;
      cbn [set_attrs alternatives existsb]; rewrite ?orb_false_r;
      try (apply (oa_alt_check_set _ a v H)).
  Qed.

  Lemma oa_accepts_null_nullable T a : nullable a = true -> ir_accepts_n ctx JNull (set_attrs T a) = true.
  Proof. intro H. rewrite ir_accepts_n_unfold, oa_ty_attrs_set, H. reflexivity. Qed.

  Definition oa_fld_ok (f : sfield) : Prop :=
    oa_good s (sf_type f) /\ (sf_null f && oa_isref (sf_type f))%bool = false.

  Lemma oa_field_agree f v : oa_Pk v -> oa_fld_ok f ->
    match v with
    | JNull => (sf_null f || match src_resolve defs fuel (sf_type f) with Some SAny => true | _ => false end)%bool
    | _ => src_valid OA defs v (sf_type f)
    end = ir_accepts_n ctx v (f_type (oa_field pkg f)).
  Proof.
    intros PV [G NRf]. unfold oa_field. cbn [f_type]. fold (oa_isref (sf_type f)).
    destruct (sf_null f) eqn:N.
    - cbn [andb] in NRf. rewrite NRf. cbn [andb negb with_nullable].
      destruct v; try (rewrite oa_accepts_set_nonnull by reflexivity; apply (PV _ G)).
      cbn [orb]. symmetry. apply oa_accepts_null_nullable. cbn [a_nullable nullable]. apply orb_true_r.
    - cbn [andb with_nullable]. rewrite <- (PV _ G). destruct v; try reflexivity.
      cbn [orb]. symmetry. apply oa_src_valid_null. exact G.
  Qed.

  Lemma oa_good_struct_fields fs f : oa_good s (SStruct fs) -> In f fs -> oa_fld_ok f.
  Proof.
    intros [G1 [G2 G5]] I.
    apply oa_supported_struct in G1. destruct G1 as [_ G1]. destruct (G1 f I) as [A1 A2].
    cbn [ty_wf] in G2. apply andb_true_iff in G2. destruct G2 as [_ G2]. rewrite forallb_forall in G2.
    cbn [refs_of] in G5. rewrite forallb_forall in G5.
    split; [|assumption].
    repeat split; auto.
    apply forallb_forall. intros x Ix. apply G5. apply in_flat_map. exists f. split; assumption.
  Qed.

  Lemma oa_struct_agree fs ms : fs <> [] -> oa_good s (SStruct fs) -> Forall (fun kv => oa_Pk (snd kv)) ms ->
    oa_sv_struct defs fs ms = oa_alt_check ctx (JObj ms) (oa_ty pkg (SStruct fs)).
  Proof.
    intros NE G K. destruct fs as [|f0 fr]; [congruence|]. rewrite oa_ty_struct.
    unfold oa_sv_struct. cbn [oa_alt_check]. rewrite forallb_sort_fields, oa_forallb_map.
    f_equal. f_equal.
    apply oa_forallb_ext_in. intros kv I. rewrite Forall_forall in K. specialize (K kv I).
    rewrite find_sort_fields. rewrite (find_map_field (oa_field pkg)) by reflexivity.
    destruct (find (fun f => seqb (sf_name f) (fst kv)) (f0 :: fr)) as [f|] eqn:E; [|reflexivity].
    cbn [option_map]. apply find_some in E. destruct E as [E _].
    apply oa_field_agree; auto. apply (oa_good_struct_fields (f0 :: fr)); assumption.
  Qed.

  Lemma oa_good_simple b : is_simple_branch b = true -> oa_supported b = true -> oa_good s b.
  Proof.
    intros H O. unfold oa_good. destruct b; try discriminate; try (repeat split; auto; fail).
    destruct b; try discriminate; repeat split; auto.
  Qed.

  Lemma oa_resolved_agree j rt : oa_kids j -> json_ints_int64 j = true -> oa_good s rt -> oa_nonref rt = true ->
    match rt with
    | SStruct fs => match j with JObj ms => oa_sv_struct defs fs ms | _ => false end
    | SUnion bs =>
        existsb (fun b => match src_resolve defs fuel b with Some rb => oa_sv_simple defs j rb | None => false end) bs
    | SDUnion disc names =>
        match j with
        | JObj ms =>
            existsb (fun n => match src_resolve defs fuel (SRef n) with
                              | Some (SStruct fs) => oa_sv_struct defs fs ms
                              | _ => false end) names
        | _ => false
        end
    | _ => oa_sv_simple defs j rt
    end = existsb (oa_alt_check ctx j) (oa_alts_nr rt).
  Proof.
    intros K HI G NR.
    destruct rt as [|w ge gt le lt|w ge gt le lt|mn mx| | |cv|vals|et|vt|rn|cfs|bs|disc names]; try discriminate;
      try (cbn [oa_alts_nr existsb]; rewrite orb_false_r; apply oa_simple_agree; auto; fail).
    - (* struct *)
      cbn [oa_alts_nr existsb]. rewrite orb_false_r.
      assert (NE : cfs <> []).
      { destruct G as [_ [G2 _]]. cbn [ty_wf] in G2. destruct cfs; [discriminate|congruence]. }
      destruct j; try (destruct cfs; [congruence|reflexivity]).
      apply oa_struct_agree; auto.
    - (* union *)
      cbn [oa_alts_nr]. rewrite oa_existsb_map. apply oa_existsb_ext_in. intros b I.
      pose proof G as [G1 [G2 G5]].
      cbn [ty_wf] in G2. rewrite forallb_forall in G2. destruct (oa_simple_branch_kind b (G2 b I)) as [SK NB].
      rewrite (oa_resolve_nonref _ b NB). apply oa_simple_agree; auto.
      apply oa_good_simple; auto.
      cbn [oa_supported] in G1. apply andb_true_iff in G1. destruct G1 as [_ G1]. rewrite forallb_forall in G1. auto.
    - (* discriminated union *)
      cbn [oa_alts_nr]. rewrite oa_existsb_flat_map.
      pose proof G as [_ [G2 _]]. cbn [ty_wf] in G2. rewrite forallb_forall in G2.
      assert (E : forall m, In m names ->
                 existsb (oa_alt_check ctx j) (match src_lookup defs m with Some t' => [oa_ty pkg t'] | None => [] end) =
                 match j with
                 | JObj ms => match src_resolve defs fuel (SRef m) with
                              | Some (SStruct fs) => oa_sv_struct defs fs ms
                              | _ => false end
                 | _ => false end).
      { intros m I. specialize (G2 m I). cbn [src_resolve].
        destruct (src_lookup defs m) as [t'|] eqn:L; [|discriminate].
        destruct t' as [| | | | | | | | | | |fs'| |]; try discriminate.
        rewrite (oa_resolve_nonref _ (SStruct fs')) by reflexivity.
        cbn [existsb]. rewrite orb_false_r.
        assert (G' : oa_good s (SStruct fs')) by (apply (oa_good_def m); apply src_lookup_some_in; exact L).
        assert (NE : fs' <> []).
        { destruct G' as [_ [X _]]. cbn [ty_wf] in X. destruct fs'; [discriminate|congruence]. }
        destruct j; try (destruct fs'; [congruence|reflexivity]).
        symmetry. apply oa_struct_agree; auto. }
      destruct j; try (symmetry; apply oa_existsb_false; intros nm1 I1; rewrite (E nm1 I1); reflexivity).
      apply oa_existsb_ext_in. intros nm1 I1. rewrite (E nm1 I1). reflexivity.
  Qed.

  Lemma oa_main_agree : forall j, json_ints_int64 j = true -> oa_Pk j.
  Proof.
    assert (X : forall j, oa_kids j -> json_ints_int64 j = true -> oa_Pk j).
    { intros j K HI t G. rewrite oa_src_valid_unfold. unfold oa_sv_body.
      destruct (src_resolve defs fuel t) as [rt|] eqn:R.
      - destruct (oa_alts_enough t (alt_fuel ctx) rt G) as [G' [NR A]]; [rewrite oa_alt_fuel_eq; lia|exact R|].
        rewrite (oa_accepts_alts j t rt A). apply oa_resolved_agree; auto.
      - symmetry. apply (oa_accepts_none j t R). }
    induction j using oa_json_ind; intros HI; apply X; auto; try exact I.
    - cbn [oa_kids]. cbn [json_ints_int64] in HI. rewrite forallb_forall in HI. rewrite Forall_forall in *.
      intros x Ix. apply H; auto.
    - cbn [oa_kids]. cbn [json_ints_int64] in HI. rewrite forallb_forall in HI. rewrite Forall_forall in *.
      intros x Ix. apply H; auto.
  Qed.
End OaCtx.

(* parse_openapi_preserves_acceptance_partial without any extra hypothesis.
   Bounds of a `number` are unrestricted (FEDec.dec_roundtrip through FrontEndAccept.cstr_num_val), numeric constants / enum
   values may carry an exponent >= 0 (oa_roundtrip_int + FEDec.num_norm_value), alias cycles are rejected by both sides
   (FrontEndAccept.resolve_stable / oa_alts_none). *)
Lemma parse_openapi_preserves_acceptance_partial_strong :
  forall s tname d, src_wf_oa s = true ->
    json_wf d = true -> json_ints_int64 d = true ->
    str_in tname (map fst (src_defs s)) = true -> oa_acceptance_agrees s tname d = true.
Proof.
  intros s tname d W WF HI IN.
  unfold oa_acceptance_agrees, src_valid_doc, ir_accepts_n_doc.
  assert (G : oa_good s (SRef tname)).
  { unfold oa_good. repeat split; auto. cbn [refs_of forallb]. rewrite IN. reflexivity. }
  pose proof (oa_main_agree s W d HI (SRef tname) G) as E.
  change (oa_ty (src_pkg s) (SRef tname)) with (TRef attrs0 (src_pkg s) tname) in E. unfold OA in E.
  destruct d; try reflexivity; rewrite E; apply eqb_reflx.
Qed.

(* the first proved form (schema_bounds_small s and schema_aliases_resolve s are no longer needed): kept under its name *)
Lemma parse_openapi_preserves_acceptance_partial :
  forall s tname d, src_wf_oa s = true -> schema_bounds_small s = true -> schema_aliases_resolve s = true ->
    json_wf d = true -> json_ints_int64 d = true ->
    str_in tname (map fst (src_defs s)) = true -> oa_acceptance_agrees s tname d = true.
Proof. intros s tname d W _ _. apply parse_openapi_preserves_acceptance_partial_strong; assumption. Qed.

Print Assumptions parse_openapi_keeps_constraints_partial.
Print Assumptions parse_openapi_preserves_acceptance_partial_strong.
Print Assumptions parse_openapi_preserves_acceptance_partial.
