(* G3 (a): theorems across chain_go for the fragment with nullable members (chain_plain3). *)
From Coq Require Import List String ZArith Bool Ascii Lia.
From Cog Require Import Model.IR Model.Json Model.GoSemBase Model.GoSemDecode Model.GoSemValidate Model.GoSemStrict
  Model.GoSem Model.GoSemSpec08 Model.GoSemSpec01 Model.GoSemSpec01F Model.Src Model.FrontEnd Model.FrontEndSpec
  Model.Passes Model.PassesChain Model.Process Gen.Chains_gen Model.FrontEndChainSpec Model.FrontEndChainSpec2
  Model.FrontEndChainSpec3.
From Cog Require Import Proofs.FrontEndLemmas Proofs.FrontEndChainPasses Proofs.FrontEndChainAccept Proofs.FrontEndAccept
  Proofs.GoSemC01Proofs Proofs.FrontEndChain Proofs.FrontEndChain2Const Proofs.FrontEndChain3Passes Proofs.FrontEndChain3Accept.
Import ListNotations.
Local Open Scope string_scope.
Local Open Scope list_scope.

(* ---------- plain3 implies leafy3 ---------- *)
Lemma f3s_fty_leafy t : fty_plain3 t = true -> fty_leafy3 t = true.
Proof.
  intro H. unfold fty_leafy3. destruct (f3a_fty_cases t H) as [P|[b [E P]]].
  - rewrite (fk2_ty_plainc_leafy _ P). reflexivity.
  - rewrite E, (fk2_ty_plainc_leafy _ P). apply orb_true_r.
Qed.
Lemma f3s_ctx_leafy ctx : ctx_plain3 ctx = true -> ctx_leafy3 ctx = true.
Proof.
  unfold ctx_plain3, ctx_leafy3. apply fc_forallb_impl. intros s _ H. unfold schema_plain3 in H. unfold schema_leafy3.
  apply andb_true_iff in H. destruct H as [H H3]. apply andb_true_iff in H. destruct H as [H1 H2].
  rewrite H1, (fk2_ty_plainc_leafy _ H3), andb_true_r. cbn [andb].
  revert H2. apply fc_forallb_impl. intros ko _ Hk. unfold obj_plain3 in Hk. unfold obj_leafy3.
  apply andb_true_iff in Hk. destruct Hk as [K1 K2]. rewrite K1. cbn [andb].
  destruct (o_type (snd ko)); try discriminate.
  apply andb_true_iff in K2. destruct K2 as [_ K2]. revert K2. apply fc_forallb_impl. intros f _. apply f3s_fty_leafy.
Qed.

(* ---------- the parsed IR ---------- *)
Lemma f3s_wrap pkg t : sty_plainc t = true -> fty_plain3 (mk_disj [js_ty pkg t; t_null]) = true.
Proof.
  intro H. unfold fty_plain3. apply orb_true_iff. right.
  unfold mk_disj. cbn [ty_attrs disj_opt d_branches]. change (is_null t_null) with true.
  rewrite (js_ty_not_null pkg t). cbn [negb andb attrs_plain attrs0 nullable dflt dyn_is_nil].
  apply fk2_js_ty_plainc. exact H.
Qed.

Lemma f3s_field pkg f : sfield_plain3 f = true -> fty_plain3 (f_type (js_field pkg f)) = true.
Proof.
  unfold sfield_plain3, js_field. cbn [f_type]. intro H. apply andb_true_iff in H. destruct H as [P N].
  destruct (sf_null f) eqn:En.
  - destruct (sf_nullta f) eqn:Eta.
    + cbn [andb] in N. destruct (sf_type f); try discriminate;
        repeat match goal with o : option _ |- _ => destruct o; try discriminate end; reflexivity.
    + destruct (sf_type f) eqn:Et; try discriminate; rewrite <- Et; apply f3s_wrap; rewrite Et; exact P.
  - destruct (sf_nullta f); [discriminate|]. unfold fty_plain3. rewrite (fk2_js_ty_plainc pkg _ P). reflexivity.
Qed.

Lemma f3s_parts s : chain_plain3 s = true ->
  src_wf s = true /\ js_schema_supported s = true /\ str_nodup (map fst (src_defs s)) = true /\
  forall d, In d (src_defs s) -> sdef_plain3 (snd d) = true.
Proof.
  unfold chain_plain3. intro H. apply andb_true_iff in H. destruct H as [W P].
  destruct (src_wf_parts s W) as [J [N _]]. repeat split; try assumption. apply forallb_forall. exact P.
Qed.

Lemma f3s_obj pkg d : sdef_plain3 (snd d) = true -> obj_plain3 (fc_mkobj pkg d) = true.
Proof.
  destruct d as [k t]. cbn [snd]. intro H. unfold obj_plain3, fc_mkobj. cbn [fst snd o_name o_type].
  unfold seqb. rewrite String.eqb_refl. cbn [andb].
  destruct t; try discriminate. destruct fs as [|f fs]; [discriminate|].
  cbn [sdef_plain3] in H. rewrite js_ty_struct. cbn [attrs_plain attrs0 nullable dflt negb dyn_is_nil andb].
  rewrite fc_forallb_sort_fields, fc_forallb_map. revert H. apply fc_forallb_impl.
  intros g _ Hg. apply f3s_field. exact Hg.
Qed.

Theorem chain_plain3_ctx_plain3 s : chain_plain3 s = true -> ctx_plain3 (parse_ctx s) = true.
Proof.
  intro H. destruct (f3s_parts s H) as [_ [J [N P]]].
  rewrite (fc_parse_ctx_eq s J). unfold ctx_plain3. cbn [forallb]. rewrite andb_true_r.
  unfold schema_plain3. cbn [s_objects s_entrytype]. apply andb_true_iff. split; [apply andb_true_iff; split|reflexivity].
  - rewrite fc_nodup_sort_objs, map_map. cbn [fc_mkobj fst]. apply fc_nodup_filter. exact N.
  - rewrite fc_forallb_sort_objs, fc_forallb_map. apply forallb_forall. intros d Hd.
    apply f3s_obj. apply P. apply filter_In in Hd. exact (proj1 Hd).
Qed.

(* ---------- T1 ---------- *)
Theorem chain_go_plain3_explicit s : chain_plain3 s = true ->
  process chain_go (parse_ctx s) = Ok (chain3_out (parse_ctx s)).
Proof. intro H. apply chain_go_leafy3. apply f3s_ctx_leafy. apply chain_plain3_ctx_plain3. exact H. Qed.

Theorem chain_go_plain3_total s : chain_plain3 s = true -> exists out, process chain_go (parse_ctx s) = Ok out.
Proof. intro H. eexists. apply chain_go_plain3_explicit. exact H. Qed.

(* ---------- T2 ---------- *)
Theorem chain_go_preserves_acceptance_fwd3 s tname d out :
  chain_plain3 s = true -> process chain_go (parse_ctx s) = Ok out ->
  ir_accepts_doc (parse_ctx s) (src_pkg s) tname d = true ->
  ir_valid_object out (src_pkg s) tname d = true.
Proof.
  intros H P A. rewrite (chain_go_plain3_explicit s H) in P. inversion P; subst out.
  apply f3a_accepts_doc_fwd; [apply chain_plain3_ctx_plain3; exact H|exact A].
Qed.

(* ---------- T4 ---------- *)
Lemma chain_plain3_no_constrained_typearray s : chain_plain3 s = true -> schema_no_constrained_typearray s = true.
Proof.
  intro H. destruct (f3s_parts s H) as [_ [_ [_ P]]].
  unfold schema_no_constrained_typearray. apply forallb_forall. intros d Hd. specialize (P d Hd).
  destruct (snd d); try discriminate. destruct fs as [|f fs]; [discriminate|].
  cbn [sdef_plain3] in P. cbn [no_constrained_typearray]. revert P. apply fc_forallb_impl.
  intros g _ Hg. unfold sfield_plain3 in Hg. apply andb_true_iff in Hg. destruct Hg as [Hp Hn].
  rewrite (fk2_nct_plainc _ Hp). cbn [andb]. destruct (sf_nullta g); [|reflexivity]. cbn [negb orb].
  apply andb_true_iff in Hn. destruct Hn as [_ Hn]. destruct (sf_type g); try discriminate;
    repeat match goal with o : option _ |- _ => destruct o; try discriminate end; reflexivity.
Qed.

Theorem src_valid_roundtrip_plain3 s tname d out :
  chain_plain3 s = true -> json_wf d = true -> json_ints_int64 d = true ->
  process chain_go (parse_ctx s) = Ok out -> ctx_supported out = true ->
  str_in tname (map fst (src_defs s)) = true ->
  src_valid_doc "jsonschema" s tname d = true ->
  roundtrip_safeF out (src_pkg s) tname d = true ->
  roundtrip_holds out (src_pkg s) tname d = true.
Proof.
  intros H WF HI P CS IN SV RS.
  destruct (f3s_parts s H) as [W _].
  pose proof (parse_preserves_acceptance_partial_strong s tname d W (chain_plain3_no_constrained_typearray s H)
                WF HI IN) as AG.
  unfold acceptance_agrees in AG. apply eqb_prop in AG. rewrite SV in AG. symmetry in AG.
  pose proof (chain_go_preserves_acceptance_fwd3 s tname d out H P AG) as IV.
  apply go_roundtrip_nf_partial_weak; try assumption.
  rewrite (chain_go_plain3_explicit s H) in P. inversion P; subst out.
  apply (f3a_struct_object_out _ (chain_plain3_ctx_plain3 s H) _ _ d AG).
Qed.

(* the older fragments are inside the new one *)
Lemma chain_plain2_plain3 s : chain_plain2 s = true -> chain_plain3 s = true.
Proof.
  unfold chain_plain2, chain_plain3. intro H. apply andb_true_iff in H. destruct H as [W P]. rewrite W. cbn [andb].
  revert P. apply fc_forallb_impl. intros [k t] _ P. cbn [snd] in *. destruct t; try discriminate. destruct fs as [|f fs]; [discriminate|].
  cbn [sdef_plainc] in P. cbn [sdef_plain3]. revert P. apply fc_forallb_impl. intros g _ Pg.
  unfold sfield_plainc in Pg. unfold sfield_plain3. apply andb_true_iff in Pg. destruct Pg as [Pg Pt]. rewrite Pt. cbn [andb].
  apply andb_true_iff in Pg. destruct Pg as [_ Pn]. apply negb_true_iff in Pn. rewrite Pn. reflexivity.
Qed.

(* ---------- non-vacuity ---------- *)
Definition sNull : src_schema :=
  mkSrc "p" "Root"
    [("Root", SStruct [mkSField "name" (SString None None) true true false;          (* required, nullable: given null *)
                       mkSField "age" (SInt "int64" None None None None) false true true;   (* optional, [integer, null] *)
                       mkSField "inner" (SRef "Inner") false true false;               (* nullable reference *)
                       mkSField "kind" (SConst (JStr "root")) true false false;
                       mkSField "count" (SInt "int64" (Some 1%Z) None (Some 10%Z) None) true false false;
                       mkSField "tags" (SArray (SString None None)) true true false;    (* nullable array *)
                       mkSField "label" (SString None None) false false false]);
     ("Inner", SStruct [mkSField "x" SBool true false false])].
Definition dNull : json :=
  JObj [("name", JNull); ("age", JNum 41 0); ("inner", JObj [("x", JBool true)]); ("kind", JStr "root");
        ("count", JNum 3 0); ("tags", JArr [JStr "a"]); ("label", JStr "hi")].
Definition outNull : schemas := chain3_out (parse_ctx sNull).

Lemma chain_plain3_nonvacuous :
  chain_plain3 sNull = true /\ chain_plain2 sNull = false /\ json_wf dNull = true /\ json_ints_int64 dNull = true /\
  process chain_go (parse_ctx sNull) = Ok outNull /\ ctx_supported outNull = true /\
  str_in "Root" (map fst (src_defs sNull)) = true /\ src_valid_doc "jsonschema" sNull "Root" dNull = true /\
  roundtrip_safeF outNull "p" "Root" dNull = true /\
  ir_accepts_doc (parse_ctx sNull) "p" "Root" dNull = true /\
  ir_valid_object outNull "p" "Root" dNull = true /\
  roundtrip_holds outNull "p" "Root" dNull = true.
Proof. vm_compute. repeat split; reflexivity. Qed.

(* (i) what the chain makes of the nullable members *)
Example chain3_out_name :   (* required T | null  ->  T, nullable *)
  ir_field (parse_ctx sNull) "p" "Root" "name" = Some (mkField "name" [] (mk_disj [t_string; t_null]) true) /\
  ir_field outNull "p" "Root" "name" =
  Some (mkField "name" [] (TScalar {| nullable := true ; dflt := DNil ; hints := [] |} KString DNil []) true).
Proof. vm_compute. split; reflexivity. Qed.
Example chain3_out_inner :  (* optional Ref | null  ->  Ref, nullable *)
  ir_field outNull "p" "Root" "inner" =
  Some (mkField "inner" [] (TRef {| nullable := true ; dflt := DNil ; hints := [] |} "p" "Inner") false).
Proof. vm_compute. reflexivity. Qed.
Example chain3_mid_age :    (* after NotRequiredFieldAsNullableType the DISJUNCTION of an optional member is nullable *)
  ir_field (nrfn_only (parse_ctx sNull)) "p" "Root" "age" =
  Some (mkField "age" [] (TDisj {| nullable := true ; dflt := DNil ; hints := [] |} (mkDisj [t_int64; t_null] "" [])) false).
Proof. vm_compute. reflexivity. Qed.

Print Assumptions chain_go_plain3_explicit.
Print Assumptions chain_go_preserves_acceptance_fwd3.
Print Assumptions src_valid_roundtrip_plain3.
Print Assumptions chain_plain3_nonvacuous.
