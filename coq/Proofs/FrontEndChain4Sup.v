(* G1 over chain_plain3: ctx_supported of the post-chain context chain3_out (parse_ctx s). *)
From Coq Require Import List String ZArith Bool Ascii Lia.
From Cog Require Import Model.IR Model.Json Model.GoSemBase Model.GoSemDecode Model.GoSemValidate Model.GoSemStrict
  Model.GoSem Model.GoSemSpec08 Model.GoSemSpec01 Model.GoSemSpec01F Model.Src Model.FrontEnd Model.FrontEndSpec
  Model.Passes Model.PassesChain Model.Process Gen.Chains_gen Model.FrontEndChainSpec Model.FrontEndChainSpec2
  Model.FrontEndChainSpec3 Model.FrontEndChainSpec4.
From Cog Require Import Proofs.FrontEndLemmas Proofs.FrontEndChainPasses Proofs.FrontEndChainAccept Proofs.FrontEndAccept
  Proofs.GoSemC01Proofs Proofs.FrontEndChain Proofs.FrontEndChain2Sup Proofs.FrontEndChain2Const
  Proofs.FrontEndChain3Passes Proofs.FrontEndChain3Accept Proofs.FrontEndChain3.
Import ListNotations.
Local Open Scope string_scope.
Local Open Scope list_scope.

Section Sup3.
  Variable ctx : schemas.
  Hypothesis Hctx : ctx_plain3 ctx = true.
  Let out := chain3_out ctx.

  Lemma f4_payload_plain t : ty_plainc t = true -> ty_sup_pre ctx t = true ->
    exists pt, payload_type out t = PTy pt /\ match pt with TScalar _ KUint8 _ _ => false | _ => true end = true.
  Proof.
    intros P S. destruct t; try discriminate.
    - eexists; split; reflexivity.
    - eexists; split; reflexivity.
    - cbn [ty_sup_pre] in S. destruct (locate_object ctx pkg name) as [o|] eqn:L; [|discriminate].
      destruct (f3a_plain_object _ _ _ _ Hctx L) as [sa [fs [E [A F]]]].
      eexists. split; [exact (f3a_payload_ref _ a _ _ _ _ _ Hctx L E A)|reflexivity].
    - simpl in P. apply andb_true_iff in P. destruct P as [_ K]. unfold kindv_plain in K.
      eexists. split; [reflexivity|]. destruct k; try reflexivity. destruct value; discriminate.
  Qed.

  Lemma f4_byte_elem t : ty_plainc t = true -> ty_sup_pre ctx t = true -> byte_elem out t = false.
  Proof.
    intros P S. destruct (f4_payload_plain t P S) as [pt [E K]]. unfold byte_elem. rewrite E.
    apply andb_false_iff. right. destruct pt; try reflexivity. destruct k; try reflexivity. discriminate.
  Qed.

  Lemma f4_ty_supported : forall t, ty_plainc t = true -> ty_sup_pre ctx t = true -> ty_supported out t = true.
  Proof.
    induction t; intros P S; try discriminate.
    - cbn [ty_plainc] in P. apply andb_true_iff in P. destruct P as [_ P]. cbn [ty_sup_pre] in S.
      cbn [ty_supported]. rewrite (f4_byte_elem t P S), (IHt P S). reflexivity.
    - cbn [ty_plainc] in P. apply andb_true_iff in P. destruct P as [_ P2]. cbn [ty_sup_pre] in S.
      apply andb_true_iff in S. destruct S as [S1 S2]. cbn [ty_supported]. rewrite S1, (IHt2 P2 S2). reflexivity.
    - destruct (f4_payload_plain _ P S) as [pt [E _]]. cbn [ty_supported]. rewrite E. reflexivity.
    - cbn [ty_sup_pre] in S. cbn [ty_supported]. rewrite S.
      simpl in P. apply andb_true_iff in P. destruct P as [_ K]. unfold kindv_plain in K.
      destruct k; try reflexivity; destruct value; discriminate.
  Qed.

  Lemma f4_supported_set_nullable t b : ty_plainc t = true -> ty_supported out (set_nullable t b) = ty_supported out t.
  Proof. destruct t; intro P; try discriminate; reflexivity. Qed.

  Lemma f4_field_supported f : fty_plain3 (f_type f) = true -> fty_sup_pre3 ctx (f_type f) = true ->
    ty_supported out (f_type (chain3_field f)) = true.
  Proof.
    intros P S. unfold fty_sup_pre3 in S. destruct (f3a_fty_cases _ P) as [Pc|[b [E Pb]]].
    - rewrite (f3a_plainc_no_disj _ Pc) in S. rewrite (f3a_field_plain f Pc). unfold nrfn_field. cbn [f_type].
      destruct (negb (f_required f) && negb (nullable (ty_attrs (f_type f))))%bool;
        [rewrite (f4_supported_set_nullable _ _ Pc)|]; apply f4_ty_supported; assumption.
    - rewrite E in S. rewrite (f3a_field_disj f b E), (f4_supported_set_nullable _ _ Pb). apply f4_ty_supported; assumption.
  Qed.

  Theorem f4_ctx_supported : ctx_sup_pre3 ctx = true -> ctx_supported out = true.
  Proof.
    intro HS. unfold ctx_supported. apply forallb_forall. intros s' Hs'. apply forallb_forall. intros [k o'] Ho'.
    cbn [snd].
    (* where o' comes from *)
    unfold out, chain3_out, dw3_only, nrfn_only in Hs'. rewrite map_map in Hs'. apply in_map_iff in Hs'.
    destruct Hs' as [s [Es Hs]]. subst s'. cbn [set_objects s_objects] in Ho'. rewrite map_map in Ho'.
    apply in_map_iff in Ho'. destruct Ho' as [[k0 o] [Eo Ho]]. cbn [fst snd] in Eo. inversion Eo; subst k o'. clear Eo.
    assert (obj_plain3 (k0, o) = true) as OP.
    { unfold ctx_plain3 in Hctx. rewrite forallb_forall in Hctx. specialize (Hctx s Hs). unfold schema_plain3 in Hctx.
      apply andb_true_iff in Hctx. destruct Hctx as [X _]. apply andb_true_iff in X. destruct X as [_ X].
      exact (proj1 (forallb_forall _ _) X _ Ho). }
    assert (oty_sup_pre3 ctx (o_type o) = true) as OS.
    { unfold ctx_sup_pre3 in HS. rewrite forallb_forall in HS. specialize (HS s Hs).
      exact (proj1 (forallb_forall _ _) HS _ Ho). }
    unfold obj_plain3 in OP. cbn [fst snd] in OP. apply andb_true_iff in OP. destruct OP as [_ OP].
    destruct (o_type o) eqn:E; try discriminate.
    apply andb_true_iff in OP. destruct OP as [OP F]. apply andb_true_iff in OP. destruct OP as [A D].
    destruct dh; [|discriminate]. cbn [oty_sup_pre3] in OS.
    unfold object_supported. change (dw3_obj (nrfn_only_obj o)) with (chain3_obj o).
    rewrite (f3a_chain3_obj_struct o a [] fs E). unfold t_nullable. cbn [ty_attrs].
    unfold attrs_plain in A. apply andb_true_iff in A. destruct A as [A _]. rewrite A. cbn [andb].
    cbn [union_ok union_scalars union_refs struct_dh alist_find]. rewrite andb_true_r.
    cbn [ty_supported]. rewrite fc_forallb_map. apply forallb_forall. intros f Hf.
    apply f4_field_supported; [exact (proj1 (forallb_forall _ _) F f Hf)|exact (proj1 (forallb_forall _ _) OS f Hf)].
  Qed.
End Sup3.

(* ---------- source level ---------- *)
Lemma f4_js_ty_sup ctx pkg : forall t, sty_plainc t = true ->
  (forall n, In n (refs_of t) -> exists o, locate_object ctx pkg n = Some o) ->
  ty_sup_pre ctx (js_ty pkg t) = true.
Proof.
  induction t; intros P R; try discriminate; cbn [js_ty ty_sup_pre].
  - reflexivity.
  - apply fc2_bounds_int.
  - apply fc2_bounds_float.
  - apply fc2_lengths.
  - reflexivity.
  - destruct v; try discriminate. reflexivity.
  - apply IHt; [exact P|exact R].
  - cbn [t_string andb]. apply IHt; [exact P|exact R].
  - destruct (R name (or_introl eq_refl)) as [o ->]. reflexivity.
Qed.

Lemma f4_field_sup ctx pkg f : sfield_plain3 f = true ->
  (forall n, In n (refs_of (sf_type f)) -> exists o, locate_object ctx pkg n = Some o) ->
  fty_sup_pre3 ctx (f_type (js_field pkg f)) = true.
Proof.
  unfold sfield_plain3, js_field. cbn [f_type]. intros H R. apply andb_true_iff in H. destruct H as [P N].
  pose proof (f4_js_ty_sup ctx pkg _ P R) as S.
  destruct (sf_null f) eqn:En.
  - destruct (sf_nullta f) eqn:Eta.
    + cbn [andb] in N. destruct (sf_type f); try discriminate;
        repeat match goal with o : option _ |- _ => destruct o; try discriminate end; reflexivity.
    + assert (fty_sup_pre3 ctx (mk_disj [js_ty pkg (sf_type f); t_null]) = true) as X.
      { unfold fty_sup_pre3, mk_disj. cbn [disj_opt d_branches]. change (is_null t_null) with true.
        rewrite (js_ty_not_null pkg (sf_type f)). cbn [negb andb]. exact S. }
      destruct (sf_type f); try discriminate; exact X.
  - unfold fty_sup_pre3. rewrite (f3a_plainc_no_disj _ (fk2_js_ty_plainc pkg _ P)). exact S.
Qed.

Theorem chain_plain3_ctx_sup_pre3 s : chain_plain3 s = true -> ctx_sup_pre3 (parse_ctx s) = true.
Proof.
  intro H. destruct (f3s_parts s H) as [W [J [_ P]]].
  destruct (src_wf_parts s W) as [_ [_ A]].
  unfold ctx_sup_pre3. rewrite (fc_parse_ctx_eq s J) at 1. cbn [forallb s_objects]. rewrite andb_true_r.
  rewrite fc_forallb_sort_objs, fc_forallb_map. apply forallb_forall. intros d Hd.
  apply filter_In in Hd. destruct Hd as [Hd _]. specialize (P d Hd).
  destruct d as [k t]. destruct (A k t Hd) as [_ [_ [_ C]]].
  cbn [fc_mkobj fst snd o_type] in *.
  destruct t; try discriminate. destruct fs as [|f fs]; [discriminate|].
  cbn [sdef_plain3] in P. rewrite js_ty_struct. cbn [oty_sup_pre3].
  rewrite fc_forallb_sort_fields, fc_forallb_map. apply forallb_forall. intros g Hg.
  apply f4_field_sup; [exact (proj1 (forallb_forall _ _) P g Hg)|].
  intros n Hn'. apply (fc2_locate_def s n W).
  rewrite forallb_forall in C. apply C. cbn [refs_of]. apply in_flat_map. exists g. split; assumption.
Qed.

Theorem chain_plain3_ctx_supported s : chain_plain3 s = true -> ctx_supported (chain3_out (parse_ctx s)) = true.
Proof.
  intro H. apply f4_ctx_supported; [apply chain_plain3_ctx_plain3|apply chain_plain3_ctx_sup_pre3]; exact H.
Qed.

Theorem src_valid_roundtrip_plain3_closed s tname d out :
  chain_plain3 s = true -> json_wf d = true -> json_ints_int64 d = true ->
  process chain_go (parse_ctx s) = Ok out ->
  str_in tname (map fst (src_defs s)) = true ->
  src_valid_doc "jsonschema" s tname d = true ->
  roundtrip_safeF out (src_pkg s) tname d = true ->
  roundtrip_holds out (src_pkg s) tname d = true.
Proof.
  intros H WF HI P IN SV RS.
  apply (src_valid_roundtrip_plain3 s tname d out); try assumption.
  rewrite (chain_go_plain3_explicit s H) in P. inversion P; subst out. apply chain_plain3_ctx_supported. exact H.
Qed.

Print Assumptions chain_plain3_ctx_supported.
Print Assumptions src_valid_roundtrip_plain3_closed.
