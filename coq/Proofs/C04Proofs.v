From Coq Require Import List String Bool ZArith.
From Cog Require Import Model.IR Model.Passes Model.Filter Model.Builders Model.BuildersEq Model.Spec16.
Import ListNotations.
Local Open Scope list_scope.

Definition is_ok {A} (r : res A) : bool := match r with Ok _ => true | _ => false end.
Definition ok_or_err {A} (r : res A) : bool := match r with Ok _ | Err _ => true | _ => false end.

Lemma mapM_all_ok {A B} (f : A -> res B) l : (forall x, In x l -> is_ok (f x) = true) -> is_ok (mapM f l) = true.
Proof.
  induction l as [|x r IH]; intros H; [reflexivity|]. simpl.
  pose proof (H x (or_introl eq_refl)) as Hx. destruct (f x); try discriminate. simpl.
  assert (is_ok (mapM f r) = true) as Hr by (apply IH; intros y Hy; apply H; right; assumption).
  destruct (mapM f r); try discriminate. reflexivity.
Qed.

Lemma mapM_ok_or_err {A B} (f : A -> res B) l :
  (forall x, In x l -> ok_or_err (f x) = true) -> ok_or_err (mapM f l) = true.
Proof.
  induction l as [|x r IH]; intros H; [reflexivity|]. simpl.
  pose proof (H x (or_introl eq_refl)) as Hx. destruct (f x); try discriminate; [|reflexivity]. simpl.
  assert (ok_or_err (mapM f r) = true) as Hr by (apply IH; intros y Hy; apply H; right; assumption).
  destruct (mapM f r); try discriminate; reflexivity.
Qed.

(* ---------- schema transformations ---------- *)
(* the visitor skeleton never panics by itself *)
Lemma visit_schema_ok_or_err (ft : ty -> res ty) (fo : object -> res object) s :
  (forall t, ok_or_err (ft t) = true) -> (forall o, ok_or_err (fo o) = true) ->
  ok_or_err (visit_schema ft fo s) = true.
Proof.
  intros Ht Ho. unfold visit_schema. pose proof (Ht (s_entrytype s)) as H1.
  destruct (ft (s_entrytype s)); try discriminate; [|reflexivity]. simpl.
  assert (forall l acc, ok_or_err ((fix go (l : list (string * object)) (acc : list (string * object)) : res (list (string * object)) :=
                match l with
                | [] => Ok acc
                | (_, o) :: r => do o' <- fo o ; go r (add_object acc o')
                end) l acc) = true) as G.
  { induction l as [|[k o] r IH]; intros acc; [reflexivity|]. pose proof (Ho o) as H2.
    destruct (fo o); try discriminate; [|reflexivity]. simpl. apply IH. }
  specialize (G (s_objects s) []). destruct (_ (s_objects s) []); try discriminate; reflexivity.
Qed.

(* add_fields returns files or an error *)
Theorem add_fields_no_panic_proof pkg obj news ss : ok_or_err (add_fields pkg obj news ss) = true.
Proof.
  unfold add_fields. apply mapM_ok_or_err. intros s _. apply visit_schema_ok_or_err; [reflexivity|].
  intros o. unfold add_fields_obj. destruct (negb (objref_matches (pkg, obj) o)); [reflexivity|].
  destruct (o_type o); reflexivity.
Qed.

(* constant_to_enum panics exactly on a selected string constant whose value is not a string *)
Definition bad_string_constant (refs : list objref) (o : object) : bool :=
  objrefs_match refs o &&
  match o_type o with
  | TScalar _ KString DNil _ => false
  | TScalar _ KString (DStr _) _ => false
  | TScalar _ KString _ _ => true
  | _ => false
  end.

Theorem constant_to_enum_no_panic_proof refs ss :
  (forall s ko, In s ss -> In ko (s_objects s) -> bad_string_constant refs (snd ko) = false) ->
  is_ok (constant_to_enum refs ss) = true.
Proof.
  intros H. unfold constant_to_enum. apply mapM_all_ok. intros s Hs. unfold visit_schema. simpl.
  assert (forall l acc, (forall ko, In ko l -> bad_string_constant refs (snd ko) = false) ->
     is_ok ((fix go (l : list (string * object)) (acc : list (string * object)) : res (list (string * object)) :=
                match l with
                | [] => Ok acc
                | (_, o) :: r => do o' <- constant_to_enum_obj refs o ; go r (add_object acc o')
                end) l acc) = true) as G.
  { induction l as [|[k o] r IH]; intros acc Hl; [reflexivity|].
    pose proof (Hl (k, o) (or_introl eq_refl)) as Ho. simpl in Ho. unfold bad_string_constant in Ho.
    assert (is_ok (constant_to_enum_obj refs o) = true) as Hok.
    { unfold constant_to_enum_obj. destruct (objrefs_match refs o); simpl in *; [|reflexivity].
      destruct (o_type o); try reflexivity. destruct k0; try reflexivity. destruct value; try reflexivity; discriminate. }
    destruct (constant_to_enum_obj refs o); try discriminate. simpl. apply IH. intros ko Hko. apply Hl. right; assumption. }
  specialize (G (s_objects s) [] (fun ko Hko => H s ko Hs Hko)).
  destruct (_ (s_objects s) []); try discriminate; reflexivity.
Qed.

(* ---------- FromAST ---------- *)
Lemma field_role_ok ss f :
  is_ok (resolve_to_type (res_fuel ss) ss (f_type f)) = true ->
  forallb (fun c => match c_args c with [] => false | _ => true end) (scalar_constraints (f_type f)) = true ->
  is_ok (field_role_of (res_fuel ss) ss f) = true.
Proof.
  intros Hres Hcs.
  assert (is_ok (struct_field_to_option f) = true) as Hopt.
  { unfold struct_field_to_option, field_assignment.
    assert (is_ok (mapM (fun c => match c_args c with
                                  | [] => Panic "index out of range [0] with length 0"
                                  | x :: _ => Ok (mkAConstraint (mkArg (f_name f) (f_type f)) (c_op c) x)
                                  end) (scalar_constraints (f_type f))) = true) as Hm.
    { apply mapM_all_ok. intros c Hc. rewrite forallb_forall in Hcs. specialize (Hcs c Hc).
      destruct (c_args c); [discriminate|reflexivity]. }
    destruct (mapM _ (scalar_constraints (f_type f))); try discriminate. reflexivity. }
  unfold field_role_of.
  destruct (f_type f) as [a d|a v|a vs|a i v|a dh fs|a p n|a p n v|a k v cs|a bs|a v|a k] eqn:Et;
    try (destruct (struct_field_to_option f); try discriminate; reflexivity).
  - destruct (f_required f && negb (nullable a)).
    + destruct (resolve_to_type (res_fuel ss) ss (TRef a p n)) as [rt| | |]; try discriminate. simpl.
      destruct rt; try (destruct (struct_field_to_option f); try discriminate; reflexivity).
      destruct value; try reflexivity. destruct (struct_field_to_option f); try discriminate; reflexivity.
    + destruct (struct_field_to_option f); try discriminate; reflexivity.
  - destruct v; try reflexivity. destruct (struct_field_to_option f); try discriminate; reflexivity.
Qed.

Theorem from_ast_no_panic_proof ss : in_claim ss = true -> is_ok (from_ast ss) = true.
Proof.
  unfold in_claim, all_resolvable, field_refs_resolvable. intros H. apply andb_true_iff in H. destruct H as [H1 H2].
  rewrite forallb_forall in H1, H2.
  unfold from_ast.
  assert (is_ok (mapM (fun s =>
      do bs <- mapM (fun ko =>
          do r <- resolve_to_type (res_fuel ss) ss (o_type (snd ko)) ;
          if wants_builder r then do b <- struct_object_to_builder (res_fuel ss) ss s (snd ko) ; Ok [b] else Ok [])
        (s_objects s) ;
      Ok (List.concat bs)) ss) = true) as Hm.
  { apply mapM_all_ok. intros s Hs. specialize (H1 s Hs). specialize (H2 s Hs). rewrite forallb_forall in H1, H2.
    assert (is_ok (mapM (fun ko =>
          do r <- resolve_to_type (res_fuel ss) ss (o_type (snd ko)) ;
          if wants_builder r then do b <- struct_object_to_builder (res_fuel ss) ss s (snd ko) ; Ok [b] else Ok [])
        (s_objects s)) = true) as Hobjs.
    { apply mapM_all_ok. intros ko Hko. specialize (H1 ko Hko). specialize (H2 ko Hko).
      destruct (resolve_to_type (res_fuel ss) ss (o_type (snd ko))) as [rt| | |] eqn:Er; try discriminate. simpl.
      destruct (wants_builder rt) eqn:Ew; [|reflexivity].
      unfold struct_object_to_builder. rewrite Er. simpl.
      destruct rt; simpl in Ew; try discriminate.
      unfold resolved_fields in H2. rewrite Er in H2. rewrite forallb_forall in H2.
      assert (is_ok (mapM (field_role_of (res_fuel ss) ss) fs) = true) as Hf.
      { apply mapM_all_ok. intros f Hf. specialize (H2 f Hf). apply andb_true_iff in H2. destruct H2 as [Ha Hb].
        apply field_role_ok; [|assumption]. destruct (resolve_to_type (res_fuel ss) ss (f_type f)); try discriminate; reflexivity. }
      destruct (mapM (field_role_of (res_fuel ss) ss) fs); try discriminate. reflexivity. }
    destruct (mapM _ (s_objects s)); try discriminate. reflexivity. }
  destruct (mapM _ ss); try discriminate. reflexivity.
Qed.
