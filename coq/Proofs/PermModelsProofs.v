(* C03: invariance theorems (or refutations with a witness) for the modelled Observable sites. *)
From Coq Require Import List String Bool Arith Lia Permutation.
From Cog Require Import Model.PermModels Proofs.PermLemmas.
Import ListNotations.
Local Open Scope string_scope.
Local Open Scope list_scope.

Lemma find_ext : forall A (p q : A -> bool) l, (forall x, p x = q x) -> find p l = find q l.
Proof. induction l; simpl; intros; auto. rewrite H. destruct (q a); auto. Qed.

Lemma by_key_perm : forall V (seq seq' : list (string * V)), NoDup (map fst seq) -> Permutation seq seq' ->
  by_key seq = by_key seq'.
Proof. intros. unfold by_key. now apply sort_by_key_perm_invariant. Qed.

(* ------------------------------------------------------------------ inferDiscriminatorField *)
(* CURRENT code (candidate field names sorted): the result depends on neither iteration *)
Theorem inferDiscriminatorField_invariant_proof : forall c st st' sf sf',
  Permutation st st' -> Permutation sf sf' ->
  inferDiscriminatorField c st sf = inferDiscriminatorField c st' sf'.
Proof.
  intros c st st' sf sf' Ht Hf. unfold inferDiscriminatorField.
  rewrite (sort_strings_perm_invariant sf sf' Hf).
  unfold inferDiscriminatorField_unsorted, first_match.
  rewrite (find_ext _ (exists_in_all_branches c st) (exists_in_all_branches c st')); auto.
  intros x. unfold exists_in_all_branches. now apply forallb_perm.
Qed.

(* the UNSORTED variant (the code before fix 5b9ef0c; not cog's code any more): the order in which
   the branch types are collected never mattered ... *)
Theorem infer_unsorted_types_order_irrelevant_proof : forall c st st' sf, Permutation st st' ->
  inferDiscriminatorField_unsorted c st sf = inferDiscriminatorField_unsorted c st' sf.
Proof.
  intros. unfold inferDiscriminatorField_unsorted, first_match.
  rewrite (find_ext _ (exists_in_all_branches c st) (exists_in_all_branches c st')); auto.
  intros x. unfold exists_in_all_branches. now apply forallb_perm.
Qed.
(* ... with at most one candidate field common to all branches it was order-free ... *)
Theorem infer_unsorted_unique_candidate_invariant_proof : forall c st sf sf',
  (forall a b, In a sf -> In b sf -> exists_in_all_branches c st a = true -> exists_in_all_branches c st b = true -> a = b) ->
  Permutation sf sf' -> inferDiscriminatorField_unsorted c st sf = inferDiscriminatorField_unsorted c st sf'.
Proof.
  intros c st sf sf' Hu Hp. unfold inferDiscriminatorField_unsorted.
  now rewrite (first_match_perm_unique _ _ sf sf' Hp Hu).
Qed.
(* ... but with two candidate fields it depended on the map order: why the sort is needed *)
Definition two_candidates : candidates_t :=
  [("Circle", [("kind", "circle"); ("type", "c")]); ("Square", [("kind", "square"); ("type", "s")])].
Theorem infer_unsorted_two_candidates_refuted_proof :
  exists c st sf sf', Permutation sf sf' /\ inferDiscriminatorField_unsorted c st sf <> inferDiscriminatorField_unsorted c st sf'.
Proof.
  exists two_candidates, ["Circle"; "Square"], ["kind"; "type"], ["type"; "kind"].
  split; [apply perm_swap|]. vm_compute. discriminate.
Qed.

(* ------------------------------------------------------------------ Pipeline.interpolate *)
(* CURRENT code (keys sorted): one pass in key order, whatever the map yields *)
Theorem interpolate_invariant_proof : forall seq seq' input,
  NoDup (map fst seq) -> Permutation seq seq' -> interpolate seq input = interpolate seq' input.
Proof. intros. unfold interpolate. now rewrite (by_key_perm _ seq seq'). Qed.

Definition interp_step (acc : string) (kv : string * string) : string :=
  replace_all ("%" ++ fst kv ++ "%")%string (snd kv) acc.

(* the UNSORTED variant (before fix 93a37e5) *)
Theorem interpolate_unsorted_invariant_if_commute_proof : forall seq seq' input, Permutation seq seq' ->
  (forall s x y, In x seq -> In y seq -> interp_step (interp_step s x) y = interp_step (interp_step s y) x) ->
  interpolate_unsorted seq input = interpolate_unsorted seq' input.
Proof. intros. unfold interpolate_unsorted. apply (fold_left_comm_perm_in _ _ interp_step); auto. Qed.
(* a parameter whose value mentions another parameter: substituted or not, depending on the order *)
Theorem interpolate_unsorted_nested_refuted_proof :
  exists seq seq' input, Permutation seq seq' /\ interpolate_unsorted seq input <> interpolate_unsorted seq' input.
Proof.
  exists [("outer", "o%inner%"); ("inner", "gen")], [("inner", "gen"); ("outer", "o%inner%")], "root/%outer%".
  split; [apply perm_swap|]. vm_compute. discriminate.
Qed.
(* even flat values: two patterns sharing a '%' in the input *)
Theorem interpolate_unsorted_overlap_refuted_proof :
  exists seq seq' input, Permutation seq seq' /\ interpolate_unsorted seq input <> interpolate_unsorted seq' input.
Proof.
  exists [("a", "1"); ("b", "2")], [("b", "2"); ("a", "1")], "%a%b%".
  split; [apply perm_swap|]. vm_compute. discriminate.
Qed.

(* ------------------------------------------------------------------ typescript formatValue *)
(* CURRENT code (orderedmap.FromMap: keys sorted) *)
Theorem formatValue_map_invariant_proof : forall seq seq',
  NoDup (map fst seq) -> Permutation seq seq' -> formatValue_map seq = formatValue_map seq'.
Proof. intros. unfold formatValue_map. now rewrite (by_key_perm _ seq seq'). Qed.
(* the UNSORTED variant (before fix 0a82bdd) *)
Theorem formatValue_map_unsorted_refuted_proof :
  exists seq seq', Permutation seq seq' /\ formatValue_map_unsorted seq <> formatValue_map_unsorted seq'.
Proof.
  exists [("x", "1"); ("y", "2")], [("y", "2"); ("x", "1")]. split; [apply perm_swap|]. vm_compute. discriminate.
Qed.

(* ------------------------------------------------------------------ ComposeBuilders / FromBuilder *)
(* CURRENT code (panel types sorted): the list of builders itself is order-free *)
Theorem ComposeBuilders_invariant_proof : forall B (kept : list B) compose seq seq',
  NoDup (map fst seq) -> Permutation seq seq' -> ComposeBuilders kept compose seq = ComposeBuilders kept compose seq'.
Proof. intros. unfold ComposeBuilders. now rewrite (by_key_perm _ seq seq'). Qed.
(* the UNSORTED variant (before fix 6494f77): same builders, their order followed the map *)
Theorem ComposeBuilders_unsorted_perm_proof : forall B (kept : list B) compose seq seq', Permutation seq seq' ->
  Permutation (ComposeBuilders_unsorted kept compose seq) (ComposeBuilders_unsorted kept compose seq').
Proof. intros. unfold ComposeBuilders_unsorted. apply Permutation_app_head. now apply append_each_perm. Qed.
Theorem ComposeBuilders_unsorted_order_refuted_proof :
  exists (kept : list string) compose seq seq', Permutation seq seq' /\ ComposeBuilders_unsorted kept compose seq <> ComposeBuilders_unsorted kept compose seq'.
Proof.
  exists [], (fun e => [(fst e ++ ".Panel")%string]), [("timeseries", []); ("table", [])], [("table", []); ("timeseries", [])].
  split; [apply perm_swap|]. vm_compute. discriminate.
Qed.

Theorem FromBuilder_mappings_perm_proof : forall M O (direct : list M) (conv : string * list O -> M) seq seq',
  Permutation seq seq' -> Permutation (FromBuilder_mappings direct conv seq) (FromBuilder_mappings direct conv seq').
Proof. intros. unfold FromBuilder_mappings. apply Permutation_app_head. now apply append_each_perm. Qed.

Theorem FromBuilder_mappings_order_refuted_proof :
  exists (direct : list string) (conv : string * list string -> string) seq seq', Permutation seq seq' /\
    FromBuilder_mappings direct conv seq <> FromBuilder_mappings direct conv seq'.
Proof.
  exists [], (@fst _ _), [("a.b", []); ("c.d", [])], [("c.d", []); ("a.b", [])].
  split; [apply perm_swap|]. vm_compute. discriminate.
Qed.

(* ------------------------------------------------------------------ packageForToken *)
Theorem packageForToken_unique_invariant_proof : forall seq seq' filename default,
  (forall a b, In a seq -> In b seq -> contains (fst a) filename = true -> contains (fst b) filename = true -> a = b) ->
  Permutation seq seq' -> packageForToken seq filename default = packageForToken seq' filename default.
Proof.
  intros. unfold packageForToken. destruct (String.eqb filename ""); auto.
  now rewrite (first_match_perm_unique _ (fun kv => contains (fst kv) filename) seq seq').
Qed.
Theorem packageForToken_refuted_proof :
  exists seq seq' filename default, Permutation seq seq' /\
    packageForToken seq filename default <> packageForToken seq' filename default.
Proof.
  exists [("lib/common", "common"); ("lib", "lib")], [("lib", "lib"); ("lib/common", "common")], "/x/lib/common/a.cue", "self".
  split; [apply perm_swap|]. vm_compute. discriminate.
Qed.

(* ------------------------------------------------------------------ keyed writes through functions *)
Theorem keyed_write_loop_invariant_proof : forall V W (key : string -> string) (val : string -> V -> option W) seq seq' dst,
  NoDup (map (fun kv => key (fst kv)) seq) -> Permutation seq seq' ->
  forall x, keyed_write_loop key val seq dst x = keyed_write_loop key val seq' dst x.
Proof. intros. unfold keyed_write_loop. now apply keyed_writes_perm. Qed.

(* distinct map keys and an injective key function give the NoDup premise *)
Lemma nodup_map_injective : forall A B (f : A -> B) l, (forall a b, In a l -> In b l -> f a = f b -> a = b) ->
  NoDup l -> NoDup (map f l).
Proof.
  induction l; simpl; intros Hi Hn; [constructor|]. inversion Hn; subst. constructor.
  - intro X. apply in_map_iff in X. destruct X as [b [E Hb]]. assert (b = a) by (apply Hi; auto). subst. contradiction.
  - apply IHl; auto.
Qed.

(* ------------------------------------------------------------------ per-entry files / collect then sort *)
Theorem per_entry_files_invariant_proof : forall A (g : A -> list file) seq seq',
  NoDup (map fst (append_each g seq)) -> Permutation seq seq' -> per_entry_files g seq = per_entry_files g seq'.
Proof. intros. unfold per_entry_files. now apply emit_files_perm_invariant. Qed.

Theorem collect_then_sort_by_invariant_proof : forall A B (name : B -> string) (g : A -> B) seq seq',
  NoDup (map name (map g seq)) -> Permutation seq seq' ->
  collect_then_sort_by name g seq = collect_then_sort_by name g seq'.
Proof.
  intros. unfold collect_then_sort_by. apply sort_by_key_perm_invariant; auto. now apply Permutation_map.
Qed.
