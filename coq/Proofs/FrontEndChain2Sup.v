(* G1: ctx_supported of the post-chain context, derived from chain_plain. *)
From Coq Require Import List String ZArith Bool Ascii Lia.
From Cog Require Import Model.IR Model.Json Model.GoSemBase Model.GoSemDecode Model.GoSemValidate Model.GoSemStrict
  Model.GoSem Model.GoSemSpec08 Model.GoSemSpec01 Model.GoSemSpec01F Model.Src Model.FrontEnd Model.FrontEndSpec
  Model.Passes Model.PassesChain Model.Process Gen.Chains_gen Model.FrontEndChainSpec Model.FrontEndChainSpec2.
From Cog Require Import Proofs.FrontEndLemmas Proofs.FrontEndChainPasses Proofs.FrontEndChainAccept Proofs.FrontEndAccept
  Proofs.GoSemC01Proofs Proofs.FrontEndChain.
Import ListNotations.
Local Open Scope string_scope.
Local Open Scope list_scope.

(* ---------- IR level ---------- *)
Section Sup.
  Variable ctx : schemas.
  Hypothesis Hctx : ctx_plain ctx = true.
  Let out := nrfn_only ctx.

  Lemma fc2_payload_plain t : ty_plain t = true -> ty_sup_pre ctx t = true ->
    exists pt, payload_type out t = PTy pt /\ match pt with TScalar _ KUint8 _ _ => false | _ => true end = true.
  Proof.
    intros P S. destruct t; try discriminate.
    - eexists; split; reflexivity.
    - eexists; split; reflexivity.
    - cbn [ty_sup_pre] in S. destruct (locate_object ctx pkg name) as [o|] eqn:L; [|discriminate].
      destruct (fc_plain_object _ _ _ _ Hctx L) as [sa [fs [E [A F]]]].
      eexists. split; [exact (fc_payload_ref _ a _ _ _ _ _ Hctx L E A)|reflexivity].
    - simpl in P. apply andb_true_iff in P. destruct P as [P _]. apply andb_true_iff in P. destruct P as [_ K].
      eexists. split; [reflexivity|]. destruct k; try discriminate; reflexivity.
  Qed.

  Lemma fc2_byte_elem t : ty_plain t = true -> ty_sup_pre ctx t = true -> byte_elem out t = false.
  Proof.
    intros P S. destruct (fc2_payload_plain t P S) as [pt [E K]]. unfold byte_elem. rewrite E.
    apply andb_false_iff. right. destruct pt; try reflexivity. destruct k; try reflexivity. discriminate.
  Qed.

  Lemma fc2_ty_supported : forall t, ty_plain t = true -> ty_sup_pre ctx t = true -> ty_supported out t = true.
  Proof.
    induction t; intros P S; try discriminate.
    - (* array *)
      cbn [ty_plain] in P. apply andb_true_iff in P. destruct P as [_ P]. cbn [ty_sup_pre] in S.
      cbn [ty_supported]. rewrite (fc2_byte_elem t P S), (IHt P S). reflexivity.
    - (* map *)
      cbn [ty_plain] in P. apply andb_true_iff in P. destruct P as [_ P2]. cbn [ty_sup_pre] in S.
      apply andb_true_iff in S. destruct S as [S1 S2]. cbn [ty_supported]. rewrite S1, (IHt2 P2 S2). reflexivity.
    - (* ref *)
      destruct (fc2_payload_plain _ P S) as [pt [E _]]. cbn [ty_supported]. rewrite E. reflexivity.
    - (* scalar *)
      cbn [ty_sup_pre] in S. cbn [ty_supported]. rewrite S.
      simpl in P. apply andb_true_iff in P. destruct P as [P _]. apply andb_true_iff in P. destruct P as [_ K].
      destruct k; try discriminate; reflexivity.
  Qed.

  Lemma fc2_supported_set_nullable t b : ty_plain t = true -> ty_supported out (set_nullable t b) = ty_supported out t.
  Proof. destruct t; intro P; try discriminate; reflexivity. Qed.

  Lemma fc2_field_supported f : ty_plain (f_type f) = true -> ty_sup_pre ctx (f_type f) = true ->
    ty_supported out (f_type (nrfn_field f)) = true.
  Proof.
    intros P S. unfold nrfn_field. cbn [f_type].
    destruct (negb (f_required f) && negb (nullable (ty_attrs (f_type f))))%bool;
      [rewrite (fc2_supported_set_nullable _ _ P)|]; apply fc2_ty_supported; assumption.
  Qed.

  Theorem fc2_ctx_supported : ctx_sup_pre ctx = true -> ctx_supported out = true.
  Proof.
    intro HS. unfold ctx_supported, out. unfold nrfn_only at 2. rewrite fc_forallb_map.
    apply forallb_forall. intros s Hs. cbn [set_objects s_objects]. rewrite fc_forallb_map.
    apply forallb_forall. intros [k o] Ho. cbn [snd].
    assert (obj_plain (k, o) = true) as OP.
    { unfold ctx_plain in Hctx. rewrite forallb_forall in Hctx. specialize (Hctx s Hs). unfold schema_plain in Hctx.
      apply andb_true_iff in Hctx. destruct Hctx as [X _]. apply andb_true_iff in X. destruct X as [_ X].
      exact (proj1 (forallb_forall _ _) X _ Ho). }
    assert (ty_sup_pre ctx (o_type o) = true) as OS.
    { unfold ctx_sup_pre in HS. rewrite forallb_forall in HS. specialize (HS s Hs).
      exact (proj1 (forallb_forall _ _) HS _ Ho). }
    unfold obj_plain in OP. cbn [fst snd] in OP. apply andb_true_iff in OP. destruct OP as [_ OP].
    unfold nrfn_only_obj. destruct (o_type o) eqn:E; try discriminate.
    apply andb_true_iff in OP. destruct OP as [OP F]. apply andb_true_iff in OP. destruct OP as [A D].
    destruct dh; [|discriminate]. cbn [ty_sup_pre] in OS.
    unfold object_supported. cbn [set_otype o_type]. unfold t_nullable. cbn [ty_attrs].
    unfold attrs_plain in A. apply andb_true_iff in A. destruct A as [A _]. rewrite A. cbn [andb].
    cbn [union_ok union_scalars union_refs struct_dh alist_find]. rewrite andb_true_r.
    cbn [ty_supported]. rewrite fc_forallb_map. apply forallb_forall. intros f Hf.
    apply fc2_field_supported; [exact (proj1 (forallb_forall _ _) F f Hf)|exact (proj1 (forallb_forall _ _) OS f Hf)].
  Qed.
End Sup.

(* ---------- the constraints the JSON Schema front-end produces are supported ---------- *)
Local Open Scope Z_scope.
Lemma fc2_strip_exp : forall f m e, e <= snd (strip_zeros f m e).
Proof.
  induction f as [|f IH]; intros m e; cbn [strip_zeros]; [cbn; lia|].
  destruct (Z.eqb (m mod 10) 0 && negb (Z.eqb m 0))%bool; [|cbn; lia].
  specialize (IH (m / 10) (e + 1)). lia.
Qed.
Lemma fc2_num_norm_exp m e : 0 <= e -> (let '(_, e') := num_norm m e in Z.leb 0 e') = true.
Proof.
  intro H. unfold num_norm. destruct (Z.eqb m 0); [reflexivity|].
  pose proof (fc2_strip_exp (S (Z.to_nat (Z.log2_up (Z.abs m)))) m e) as X.
  destruct (strip_zeros (S (Z.to_nat (Z.log2_up (Z.abs m)))) m e) as [a b]. cbn [snd] in X. apply Z.leb_le. lia.
Qed.

Definition fc2_is_cmp (op : string) : Prop := op = ">=" \/ op = ">" \/ op = "<=" \/ op = "<".

Lemma fc2_cmp_int op z : fc2_is_cmp op -> constraint_supported KInt64 (cstr op (dflo z 0)) = true.
Proof.
  intro H. unfold constraint_supported, cstr, dflo. cbn [c_args c_op dyn_num].
  rewrite (FEDec.dec_roundtrip_nonpos z 0) by lia.
  pose proof (fc2_num_norm_exp z 0 ltac:(lia)) as X.
  destruct H as [ -> | [ -> | [ -> | -> ] ] ]; cbn; exact X.
Qed.
Lemma fc2_cmp_float op m e : fc2_is_cmp op -> constraint_supported KFloat64 (cstr op (dflo m e)) = true.
Proof.
  intro H. unfold constraint_supported, cstr, dflo. cbn [c_args c_op dyn_num].
  destruct (FEDec.dec_roundtrip m e) as [[a b] [E _]]. rewrite E.
  destruct H as [ -> | [ -> | [ -> | -> ] ] ]; reflexivity.
Qed.

Lemma fc2_bounds_int ge gt le lt : forallb (constraint_supported KInt64) (js_bounds (zb ge) (zb gt) (zb le) (zb lt)) = true.
Proof.
  unfold js_bounds, opt_list, zb. rewrite !forallb_app.
  destruct ge, gt, le, lt; cbn [forallb fst snd andb]; rewrite ?fc2_cmp_int; try reflexivity; unfold fc2_is_cmp; tauto.
Qed.
Lemma fc2_bounds_float ge gt le lt : forallb (constraint_supported KFloat64) (js_bounds ge gt le lt) = true.
Proof.
  unfold js_bounds, opt_list. rewrite !forallb_app.
  destruct ge as [[? ?]|], gt as [[? ?]|], le as [[? ?]|], lt as [[? ?]|]; cbn [forallb fst snd andb];
    rewrite ?fc2_cmp_float; try reflexivity; unfold fc2_is_cmp; tauto.
Qed.
Lemma fc2_lengths mn mx : forallb (constraint_supported KString) (js_lengths mn mx) = true.
Proof. destruct mn, mx; reflexivity. Qed.

(* ---------- source level ---------- *)
Lemma fc2_js_ty_sup ctx pkg : forall t, sty_plain t = true ->
  (forall n, In n (refs_of t) -> exists o, locate_object ctx pkg n = Some o) ->
  ty_sup_pre ctx (js_ty pkg t) = true.
Proof.
  induction t; intros P R; try discriminate; cbn [js_ty ty_sup_pre].
  - reflexivity.
  - apply fc2_bounds_int.
  - apply fc2_bounds_float.
  - apply fc2_lengths.
  - reflexivity.
  - apply IHt; [exact P|exact R].
  - cbn [t_string andb]. apply IHt; [exact P|exact R].
  - destruct (R name (or_introl eq_refl)) as [o ->]. reflexivity.
Qed.

Lemma fc2_locate_def s n : src_wf s = true -> str_in n (map fst (src_defs s)) = true ->
  exists o, locate_object (parse_ctx s) (src_pkg s) n = Some o.
Proof.
  intros W I. destruct (src_wf_parts s W) as [J [N A]].
  apply str_in_In in I. apply in_map_iff in I. destruct I as [[k t] [E I]]. cbn [fst] in E. subst k.
  destruct (A n t I) as [_ [_ [R _]]]. rewrite (locate_parse s n J), R, (src_lookup_in _ _ _ N I).
  eexists; reflexivity.
Qed.

Theorem chain_plain_ctx_sup_pre s : chain_plain s = true -> ctx_sup_pre (parse_ctx s) = true.
Proof.
  intro H. destruct (fc_chain_plain_parts s H) as [W [J [_ P]]].
  destruct (src_wf_parts s W) as [_ [_ A]].
  unfold ctx_sup_pre. rewrite (fc_parse_ctx_eq s J) at 1. cbn [forallb s_objects]. rewrite andb_true_r.
  rewrite fc_forallb_sort_objs, fc_forallb_map. apply forallb_forall. intros d Hd.
  apply filter_In in Hd. destruct Hd as [Hd _]. specialize (P d Hd).
  destruct d as [k t]. destruct (A k t Hd) as [_ [_ [_ C]]].
  cbn [fc_mkobj fst snd o_type] in *.
  destruct t; try discriminate. destruct fs as [|f fs]; [discriminate|].
  cbn [sdef_plain] in P. cbn [js_ty ty_sup_pre].
  rewrite fc_forallb_sort_fields, fc_forallb_map. apply forallb_forall. intros g Hg.
  pose proof (proj1 (forallb_forall _ _) P g Hg) as Pg.
  unfold sfield_plain in Pg. apply andb_true_iff in Pg. destruct Pg as [Pg Hp].
  apply andb_true_iff in Pg. destruct Pg as [Hn _]. apply negb_true_iff in Hn. cbn [f_type]. rewrite Hn.
  apply fc2_js_ty_sup; [exact Hp|]. intros n Hn'. apply (fc2_locate_def s n W).
  rewrite forallb_forall in C. apply C. cbn [refs_of]. apply in_flat_map. exists g. split; assumption.
Qed.

Theorem chain_plain_ctx_supported s : chain_plain s = true -> ctx_supported (nrfn_only (parse_ctx s)) = true.
Proof.
  intro H. apply fc2_ctx_supported; [apply chain_plain_ctx_plain|apply chain_plain_ctx_sup_pre]; exact H.
Qed.

(* T4 with every hypothesis on the source schema and the document, except the safety predicate *)
Theorem src_valid_roundtrip_plain_closed s tname d out :
  chain_plain s = true -> json_wf d = true -> json_ints_int64 d = true ->
  process chain_go (parse_ctx s) = Ok out ->
  str_in tname (map fst (src_defs s)) = true ->
  src_valid_doc "jsonschema" s tname d = true ->
  roundtrip_safeF out (src_pkg s) tname d = true ->
  roundtrip_holds out (src_pkg s) tname d = true.
Proof.
  intros H WF HI P IN SV RS.
  apply (src_valid_roundtrip_plain_strong s tname d out); try assumption.
  rewrite (chain_go_plain_explicit s H) in P. inversion P; subst out. apply chain_plain_ctx_supported. exact H.
Qed.

Print Assumptions chain_plain_ctx_supported.
Print Assumptions src_valid_roundtrip_plain_closed.
