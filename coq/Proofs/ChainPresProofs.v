(* C06 over the language-chain pass models: PRESERVATION of the normal-form predicates (and of
   the side conditions the union passes need) by the later passes of the chains, and the
   conditional chain theorems that follow. *)
From Coq Require Import List String Bool Ascii Lia.
From Cog Require Import Model.IR Model.Names Model.Passes Model.PassesChain Model.Process Model.NF
     Proofs.TyInd Proofs.ChainLemmas Proofs.ChainNFProofs.
Import ListNotations.
Local Open Scope list_scope.

(* ---------- schema-level invariants as "every object type is clean" ---------- *)
Definition all_clean (p : bool -> ty -> bool) (ss : schemas) : Prop :=
  forall o, In o (objects_of ss) -> any_sub p false (o_type o) = false.
Definition all_clean_below (p : bool -> ty -> bool) (ss : schemas) : Prop :=
  forall o, In o (objects_of ss) -> any_below p (o_type o) = false.

Lemma all_clean_iff p ss : existsb (fun o => any_sub p false (o_type o)) (objects_of ss) = false <-> all_clean p ss.
Proof. apply existsb_false_iff. Qed.
Lemma all_clean_below_iff p ss : existsb (fun o => any_below p (o_type o)) (objects_of ss) = false <-> all_clean_below p ss.
Proof. apply existsb_false_iff. Qed.

Lemma all_clean_single p ss s : all_clean p ss -> In s ss -> all_clean p [s].
Proof. intros H Hs o Ho. apply H. eapply objects_of_single; eassumption. Qed.
Lemma all_clean_below_single p ss s : all_clean_below p ss -> In s ss -> all_clean_below p [s].
Proof. intros H Hs o Ho. apply H. eapply objects_of_single; eassumption. Qed.

Lemma in_single_objects s k o : In (k, o) (s_objects s) -> In o (objects_of [s]).
Proof. intros H. apply in_objects_of. exists s, k. split; [left; reflexivity|assumption]. Qed.

(* entry-point types that no pass rewrites: references, scalars, the zero type ... *)
Definition is_leaf_b (t : ty) : bool :=
  match t with
  | TArray _ _ | TMap _ _ _ | TStruct _ _ _ | TInter _ _ | TDisj _ _ => false
  | _ => true
  end.
Lemma is_leaf_b_spec t : is_leaf_b t = true -> is_leaf t.
Proof. destruct t; simpl; intros H; try discriminate; exact I. Qed.
Definition entry_simple (ss : schemas) : bool := forallb (fun s => is_leaf_b (s_entrytype s)) ss.

(* ---------- Schema.Resolve returns the type it was given or the type of an object ---------- *)
Lemma objs_get_in l k o : objs_get l k = Some o -> In (k, o) l.
Proof.
  induction l as [|[k' o'] r IH]; simpl; intros H; [discriminate|].
  destruct (seqb k' k) eqn:E.
  - inversion H; subst. apply String.eqb_eq in E. subst. left; reflexivity.
  - right. apply IH. assumption.
Qed.
Lemma resolve_in_source fuel objs : forall t r, resolve_in fuel objs t = Ok (Some r) ->
  (r = t /\ is_ref t = false) \/ exists k o, In (k, o) objs /\ r = o_type o.
Proof.
  induction fuel as [|f IH]; intros t r H.
  - destruct t; simpl in H; try discriminate; inversion H; subst; left; split; reflexivity.
  - destruct t; simpl in H; try (inversion H; subst; left; split; reflexivity).
    destruct (objs_get objs name) as [o|] eqn:Eg; [|discriminate].
    destruct (IH _ _ H) as [[Heq _]|Hx]; [subst r|right; assumption].
    right. exists name, o. split; [apply objs_get_in; assumption|reflexivity].
Qed.
Lemma resolve_source s t r : resolve s t = Ok (Some r) ->
  (r = t /\ is_ref t = false) \/ exists k o, In (k, o) (s_objects s) /\ r = o_type o.
Proof. apply resolve_in_source. Qed.

(* ---------- FlattenDisjunctions: where the branches of the flattened union come from ---------- *)
Lemma fd_add_in st n t x : In x (snd (fd_add st n t)) -> In x (snd st) \/ x = t.
Proof.
  unfold fd_add. destruct (existsb (seqb n) (fst st)); [left; assumption|]. simpl. intros H.
  apply in_app_or in H. destruct H as [H|[<-|[]]]; [left; assumption|right; reflexivity].
Qed.
Lemma fd_fold_in l : forall st x, In x (snd (fold_left (fun st rb => fd_add st (type_name rb) rb) l st)) -> In x (snd st) \/ In x l.
Proof.
  induction l as [|b r IH]; intros st x H; [left; assumption|]. simpl in H. apply IH in H.
  destruct H as [H|H]; [|right; right; assumption]. apply fd_add_in in H. destruct H as [H|Heq]; [left; assumption|subst x; right; left; reflexivity].
Qed.

Lemma fd_disj_branches (P : ty -> Prop) s a d t' :
  (forall b, In b (d_branches d) -> P b) ->
  (forall k o a' d', In (k, o) (s_objects s) -> o_type o = TDisj a' d' -> forall rb, In rb (d_branches d') -> P rb) ->
  fd_disj s (TDisj a d) = Ok t' ->
  exists bs', t' = TDisj a (mkDisj bs' (d_disc d) (d_mapping d)) /\ forall b, In b bs' -> P b.
Proof.
  intros Hb Ho H. unfold fd_disj in H.
  match type of H with (do _ <- ?f 0 (d_branches d) ([], []) ; _) = _ =>
    assert (forall l i st st', (forall b, In b l -> P b) -> (forall x, In x (snd st) -> P x) ->
                               f i l st = Ok st' -> forall x, In x (snd st') -> P x) as G
  end.
  { induction l as [|b r IH]; intros i st st' Hl Hst Hg; simpl in Hg.
    - inversion Hg; subst. assumption.
    - assert (forall n, forall x, In x (snd (fd_add st n b)) -> P x) as Hadd.
      { intros n x Hx. apply fd_add_in in Hx. destruct Hx as [Hx|Heq]; [apply Hst; assumption|subst x; apply Hl; left; reflexivity]. }
      destruct (negb (is_ref b)) eqn:Eref.
      + eapply IH; [intros y Hy; apply Hl; right; assumption|apply Hadd|eassumption].
      + destruct (resolve s b) as [r1| | |] eqn:Er; simpl in Hg; try discriminate.
        destruct r1 as [r1|].
        * destruct r1 as [a1 d1|a1 v1|a1 vs1|a1 i1 v1|a1 dh1 fs1|a1 pk1 n1|a1 pk1 n1 v1|a1 k1 v1 cs1|a1 bs1|a1 v1|a1 k1];
            try (eapply IH; [intros y Hy; apply Hl; right; assumption|apply Hadd|eassumption]).
          eapply IH; [intros y Hy; apply Hl; right; assumption| |eassumption].
          intros x Hx. apply fd_fold_in in Hx. destruct Hx as [Hx|Hx]; [apply Hst; assumption|].
          destruct (resolve_source _ _ _ Er) as [[_ E]|[k [o [Hin E]]]].
          -- rewrite E in Eref. discriminate.
          -- eapply Ho; [eassumption|symmetry; eassumption|assumption].
        * refine (IH _ _ _ (fun y Hy => Hl y (or_intror Hy)) Hst Hg). }
  match type of H with (do _ <- ?X ; _) = _ => destruct X as [st'| | |] eqn:E end; simpl in H; try discriminate.
  inversion H; subst. exists (snd st'). split; [reflexivity|].
  eapply G; [exact Hb| |exact E]. intros x [].
Qed.

(* ---------- what the union callbacks return (shape lemmas, used for every predicate) ---------- *)
Lemma dwnto_disj_shape a d t' : dwnto_disj (TDisj a d) = Ok t' ->
  t' = TDisj a d \/ exists b, In b (d_branches d) /\ is_null b = false /\ t' = set_nullable b true.
Proof.
  unfold dwnto_disj. destruct (d_branches d) as [|x [|y [|z r]]] eqn:Ebs;
    try (intros H; inversion H; subst; left; reflexivity).
  destruct (has_null_type [x; y]); [|intros H; inversion H; subst; left; reflexivity].
  destruct (filter (fun b => negb (is_null b)) [x; y]) as [|b rest] eqn:Ef; [discriminate|].
  intros H. inversion H; subst. right. exists b.
  assert (In b (filter (fun b => negb (is_null b)) [x; y])) as Hf by (rewrite Ef; left; reflexivity).
  apply filter_In in Hf. destruct Hf as [Hin Hnn]. apply negb_true_iff in Hnn. repeat split; assumption.
Qed.

Lemma docte_disj_shape ss a d t' : docte_disj ss (TDisj a d) = Ok t' ->
  t' = TDisj a d \/ exists vs, t' = TEnum (mk_attrs (nullable a) (dflt a) []) vs.
Proof.
  unfold docte_disj. destruct (d_branches d) as [|x [|y r]]; try (intros H; inversion H; subst; left; reflexivity).
  match goal with |- (do _ <- ?X ; _) = _ -> _ => destruct X as [x0| | |] end; simpl; try discriminate.
  destruct (fst x0); intros H; inversion H; subst; [right; eexists; reflexivity|left; reflexivity].
Qed.

Lemma dim_disj_shape s a d t' : dim_disj s (TDisj a d) = Ok t' ->
  exists disc m, t' = TDisj a (mkDisj (d_branches d) disc m).
Proof.
  unfold dim_disj. destruct (negb (has_only_refs (d_branches d))).
  { intros H. inversion H; subst. exists (d_disc d), (d_mapping d). destruct d; reflexivity. }
  destruct (negb (seqb (d_disc d) "") && negb match d_mapping d with [] => true | _ => false end).
  { intros H. inversion H; subst. exists (d_disc d), (d_mapping d). destruct d; reflexivity. }
  match goal with |- (do _ <- ?X ; _) = _ -> _ => destruct X as [disc| | |] end; simpl; try discriminate.
  destruct (match d_mapping d with [] => true | _ => false end).
  - destruct (dim_build s disc (d_branches d)) as [[m|]| | |]; simpl; try discriminate;
      intros H; inversion H; subst; eexists; eexists; reflexivity.
  - intros H; inversion H; subst; eexists; eexists; reflexivity.
Qed.

Lemma udta_disj_shape s a d t' : udta_disj s (TDisj a d) = Ok t' ->
  t' = TDisj a d \/ (t' = TScalar A0 KAny DNil [] /\ has_only_refs (d_branches d) = true).
Proof.
  unfold udta_disj. destruct (single_type_scalars s (d_branches d)) as [[k|]| | |]; simpl; try discriminate;
    try (intros H; inversion H; subst; left; reflexivity).
  destruct (has_only_scalar_or_array_or_map (d_branches d)); [intros H; inversion H; subst; left; reflexivity|].
  destruct (has_only_refs (d_branches d)); simpl; [|intros H; inversion H; subst; left; reflexivity].
  destruct (_ || _); intros H; inversion H; subst; [right; split; reflexivity|left; reflexivity].
Qed.

(* ---------- the generic wrapper for the stateless union passes ---------- *)
Definition keeps_nullable (t t' : ty) : Prop := nullable (ty_attrs t) = true -> nullable (ty_attrs t') = true.
Lemma keeps_nullable_attrs t t' : ty_attrs t' = ty_attrs t -> keeps_nullable t t'.
Proof. unfold keeps_nullable. intros ->. auto. Qed.

Section V0.
  Variable p : bool -> ty -> bool.
  Variable R : ty -> ty -> Prop.
  Hypothesis R_attrs : forall t t', ty_attrs t' = ty_attrs t -> R t t'.
  Hypothesis p_array : forall inter a v v', p inter (TArray a v) = false -> p inter (TArray a v') = false.
  Hypothesis p_map : forall inter a i v i' v', p inter (TMap a i v) = false -> p inter (TMap a i' v') = false.
  Hypothesis p_inter : forall inter a bs bs', p inter (TInter a bs) = false -> p inter (TInter a bs') = false.
  Hypothesis p_struct : forall inter a dh fs fs',
      Forall2 (fun f f' => f_required f' = f_required f /\ R (f_type f) (f_type f')) fs fs' ->
      p inter (TStruct a dh fs) = false -> p inter (TStruct a dh fs') = false.
  Variable f : schema -> ty -> res ty.

  Lemma v0_type s t t' inter :
    (forall a d t1 i, f s (TDisj a d) = Ok t1 -> any_sub p i (TDisj a d) = false -> any_sub p i t1 = false /\ R (TDisj a d) t1) ->
    visit_disj0 (f s) t = Ok t' -> any_sub p inter t = false -> any_sub p inter t' = false /\ R t t'.
  Proof.
    intros Hf Hv Hc. apply visit_disj0_vrel in Hv.
    destruct (vrel_pres unit (lift0 (f s)) p p R (fun _ => True) R_attrs p_array p_map p_inter p_struct
                        (fun _ _ _ H => H)) with (st := tt) (t := t) (t' := t') (st' := tt) (inter := inter)
      as [H1 [H2 _]]; try assumption; try exact I; [|split; assumption].
    intros st a d t1 st1 i Hd Hcd _. apply lift0_inv in Hd. destruct (Hf a d t1 i Hd Hcd) as [X Y].
    split; [assumption|split; [assumption|exact I]].
  Qed.

  Theorem v0_pres ss out :
    (forall s a d t1 i, In s ss -> all_clean p [s] -> f s (TDisj a d) = Ok t1 -> any_sub p i (TDisj a d) = false ->
                        any_sub p i t1 = false /\ R (TDisj a d) t1) ->
    all_clean p ss -> visit_schemas_disj0 f ss = Ok out -> all_clean p out.
  Proof.
    intros Hf Hc H o' Ho'.
    destruct (visit_schemas_disj0_objects _ _ _ _ H Ho') as [s [o [t' [Hs [Ho [Hv Heq]]]]]]. subst o'. simpl.
    refine (proj1 (v0_type s (o_type o) t' false _ Hv _)).
    - intros a d t1 i. apply Hf; [assumption|eapply all_clean_single; eassumption].
    - apply Hc. eapply objects_of_single; eassumption.
  Qed.
End V0.

(* predicates that only look at the head constructor of arrays, maps, structs, intersections *)
Ltac head_only := intros; simpl in *; assumption || reflexivity.

(* ---------- NUF (no union below a union branch) through the stateless union passes ---------- *)
Lemma union_free_nuf t inter : any_sub p_union false t = false -> any_sub p_nuf inter t = false.
Proof.
  intros H. rewrite (p_union_irrel t false inter) in H. revert H. apply any_sub_weaken.
  intros i x Hx. destruct x; try reflexivity. discriminate.
Qed.

Lemma nuf_of_branches inter a bs disc m :
  (forall b, In b bs -> any_sub p_union false b = false) -> any_sub p_nuf inter (TDisj a (mkDisj bs disc m)) = false.
Proof.
  intros H. simpl. apply orb_false_iff. split; apply existsb_false_iff; intros b Hb; [apply H; assumption|].
  apply union_free_nuf. apply H. assumption.
Qed.

Lemma nuf_objects_branches s : all_clean p_nuf [s] ->
  forall k o a' d', In (k, o) (s_objects s) -> o_type o = TDisj a' d' -> forall rb, In rb (d_branches d') -> any_sub p_union false rb = false.
Proof.
  intros Hc k o a' d' Hin E rb Hrb. pose proof (Hc o (in_single_objects _ _ _ Hin)) as H. rewrite E in H.
  eapply nuf_branches; eassumption.
Qed.

Section NufV0.
  Let pres := v0_pres p_nuf (fun _ _ => True) (fun _ _ _ => I).
  Ltac start H := apply (pres) with (5 := H).

  Theorem nuf_dwnto ss out : all_clean p_nuf ss -> disjunction_with_null_to_optional ss = Ok out -> all_clean p_nuf out.
  Proof.
    intros Hc H. unfold disjunction_with_null_to_optional in H.
    refine (pres _ _ _ _ _ ss out _ Hc H); try head_only.
    intros s a d t1 i _ _ Hd Hcd. split; [|exact I].
    destruct (dwnto_disj_shape _ _ _ Hd) as [->|[b [Hb [_ ->]]]]; [assumption|].
    rewrite any_sub_set_nullable_gen; [|destruct b; reflexivity].
    apply union_free_nuf. eapply nuf_branches; eassumption.
  Qed.

  Theorem nuf_docte ss out : all_clean p_nuf ss -> disjunction_of_constants_to_enum ss = Ok out -> all_clean p_nuf out.
  Proof.
    intros Hc H. unfold disjunction_of_constants_to_enum in H.
    refine (pres _ _ _ _ _ ss out _ Hc H); try head_only.
    intros s a d t1 i _ _ Hd Hcd. split; [|exact I].
    destruct (docte_disj_shape _ _ _ _ Hd) as [->|[vs ->]]; [assumption|reflexivity].
  Qed.

  Theorem nuf_fd ss out : all_clean p_nuf ss -> flatten_disjunctions ss = Ok out -> all_clean p_nuf out.
  Proof.
    intros Hc H. unfold flatten_disjunctions in H.
    refine (pres _ _ _ _ _ ss out _ Hc H); try head_only.
    intros s a d t1 i _ Hs Hd Hcd. split; [|exact I].
    destruct (fd_disj_branches (fun b => any_sub p_union false b = false) s a d t1) as [bs' [-> Hbs']]; try assumption.
    - eapply nuf_branches; eassumption.
    - apply nuf_objects_branches. assumption.
    - apply nuf_of_branches. assumption.
  Qed.

  Theorem nuf_dim ss out : all_clean p_nuf ss -> disjunction_infer_mapping ss = Ok out -> all_clean p_nuf out.
  Proof.
    intros Hc H. unfold disjunction_infer_mapping in H.
    refine (pres _ _ _ _ _ ss out _ Hc H); try head_only.
    intros s a d t1 i _ _ Hd Hcd. split; [|exact I].
    destruct (dim_disj_shape _ _ _ _ Hd) as [disc [m ->]]. apply nuf_of_branches. eapply nuf_branches; eassumption.
  Qed.

  Theorem nuf_udta ss out : all_clean p_nuf ss -> undiscriminated_disjunction_to_any ss = Ok out -> all_clean p_nuf out.
  Proof.
    intros Hc H. unfold undiscriminated_disjunction_to_any in H.
    refine (pres _ _ _ _ _ ss out _ Hc H); try head_only.
    intros s a d t1 i _ _ Hd Hcd. split; [|exact I].
    destruct (udta_disj_shape _ _ _ _ Hd) as [->|[-> _]]; [assumption|reflexivity].
  Qed.
End NufV0.

(* =====================================================================================
   structure-preserving passes (AnonymousStructsToNamed, NotRequiredFieldAsNullableType,
   AnonymousEnumToExplicitType): every predicate below survives an `srel` rewrite
   ===================================================================================== *)
Definition p_nui (inter : bool) (t : ty) : bool := inter && is_disj t.   (* a union inside an allOf composition *)

Definition keeps_union_free (t t' : ty) : Prop := any_sub p_union false t = false -> any_sub p_union false t' = false.

Lemma set_attrs_kind (q : ty -> bool) :
  (forall t a, q (set_attrs t a) = q t) -> True.
Proof. trivial. Qed.

Lemma srel_union t t' inter : srel t t' -> any_sub p_union inter t = false -> any_sub p_union inter t' = false.
Proof.
  apply (srel_pres p_union (fun _ _ => True)); try (intros; exact I); try (intros; simpl in *; assumption || reflexivity).
  all: try (intros i x a; destruct x; reflexivity).
  all: try (intros i l Hl; destruct l; simpl in Hl; try contradiction; reflexivity).
Qed.

Lemma Forall2_pointwise {A B} (Rel : A -> B -> Prop) l l' : Forall2 Rel l l' -> forall y, In y l' -> exists x, In x l /\ Rel x y.
Proof. apply Forall2_in_r. Qed.

Lemma srel_nuf t t' inter : srel t t' -> any_sub p_nuf inter t = false -> any_sub p_nuf inter t' = false.
Proof.
  apply (srel_pres p_nuf keeps_union_free); try (intros; simpl in *; assumption || reflexivity).
  - intros x x' H. intros Hc. eapply srel_union; eassumption.
  - intros i x a. destruct x; reflexivity.
  - intros i l Hl. destruct l; simpl in Hl; try contradiction; reflexivity.
  - intros i a a' d d' HF2 Hp. simpl in *. apply existsb_false_iff. intros b' Hb'.
    destruct (Forall2_in_r _ _ _ HF2 b' Hb') as [b [Hb Hk]]. apply Hk.
    exact (proj1 (existsb_false_iff _ _) Hp b Hb).
Qed.

Ltac srel_side :=
  try (intros; exact I); try (intros; simpl in *; assumption || reflexivity);
  try (intros ? x ?; destruct x; reflexivity);
  try (intros ? l Hl; destruct l; simpl in Hl; try contradiction; reflexivity);
  try (intros ? l Hl; destruct l; simpl in Hl; try contradiction; unfold p_nui, p_struct; simpl; apply andb_false_r);
  try (intros; unfold p_nui, p_struct in *; simpl; apply andb_false_r).

Lemma srel_nui t t' inter : srel t t' -> any_sub p_nui inter t = false -> any_sub p_nui inter t' = false.
Proof. apply (srel_pres p_nui (fun _ _ => True)); srel_side. Qed.

Lemma srel_struct_below t t' : srel t t' -> any_below p_struct t = false -> any_below p_struct t' = false.
Proof. apply (srel_pres_below p_struct (fun _ _ => True)); srel_side. Qed.
Lemma srel_struct_sub t t' inter : srel t t' -> any_sub p_struct inter t = false -> any_sub p_struct inter t' = false.
Proof. apply (srel_pres p_struct (fun _ _ => True)); srel_side. Qed.

Lemma srel_optnn t t' inter : srel t t' -> any_sub p_optnn inter t = false -> any_sub p_optnn inter t' = false.
Proof.
  apply (srel_pres p_optnn (fun _ _ => True)); srel_side.
  intros i a a' dh dh' fs fs' HF2 H. simpl in *. apply existsb_false_iff. intros f' Hf'.
    destruct (Forall2_in_r _ _ _ HF2 f' Hf') as [f [Hf [Hreq Hkn]]].
    pose proof (proj1 (existsb_false_iff _ _) H f Hf) as Hx. rewrite Hreq.
    destruct (f_required f); [reflexivity|]. simpl in *. apply negb_false_iff in Hx. rewrite (Hkn Hx). reflexivity.
Qed.

(* ---------- AnonymousStructsToNamed is an srel rewrite; its new objects are srel images of
   sub-terms ---------- *)
Lemma astn_srel pkg : forall t parent, srel t (fst (astn_type pkg parent t)) /\ keeps_null t (fst (astn_type pkg parent t)).
Proof.
  induction t as [a d IH|a v IH|a vs IH|a i v IHi IHv|a dh fs IHd IHf|a pk n|a pk n v|a k v cs|a bs IH|a v|a k]
    using ty_ind'; intros parent; try (split; [apply SR_same|intros H; exact H]).
  - rewrite astn_disj. simpl. split; [|intros H; exact H]. apply SR_disj. simpl.
    rewrite (proj1 (astn_list_spec pkg parent _)). apply srel_list_map. intros b Hb.
    rewrite Forall_forall in IH. exact (proj1 (IH b Hb parent)).
  - rewrite astn_array. simpl. split; [|intros H; exact H]. apply SR_array. exact (proj1 (IH parent)).
  - rewrite astn_map. simpl. split; [|intros H; exact H]. apply SR_map; [exact (proj1 (IHi parent))|exact (proj1 (IHv parent))].
  - destruct (astn_struct pkg parent a dh fs) as [ra [sa [Hn E]]]. rewrite E. simpl. split; [apply SR_simple; exact I|].
    unfold keeps_null. simpl. rewrite Hn. auto.
Qed.

Lemma astn_news_sub pkg : forall t parent i o, In o (snd (astn_type pkg parent t)) ->
  exists u, sub_at i t i u /\ srel u (o_type o).
Proof.
  induction t as [a d IH|a v IH|a vs IH|a i v IHi IHv|a dh fs IHd IHf|a pk n|a pk n v|a k v cs|a bs IH|a v|a k]
    using ty_ind'; intros parent j o Ho; try (simpl in Ho; contradiction).
  - rewrite astn_disj in Ho. simpl in Ho. rewrite (proj2 (astn_list_spec pkg parent _)) in Ho.
    apply in_flat_map in Ho. destruct Ho as [b [Hb Ho]]. rewrite Forall_forall in IH.
    destruct (IH b Hb parent j o Ho) as [u [Hu Hs]]. exists u. split; [eapply SA_disj; eassumption|assumption].
  - rewrite astn_array in Ho. simpl in Ho. destruct (IH parent j o Ho) as [u [Hu Hs]].
    exists u. split; [apply SA_array; assumption|assumption].
  - rewrite astn_map in Ho. simpl in Ho. apply in_app_or in Ho. destruct Ho as [Ho|Ho].
    + destruct (IHi parent j o Ho) as [u [Hu Hs]]. exists u. split; [apply SA_map_i; assumption|assumption].
    + destruct (IHv parent j o Ho) as [u [Hu Hs]]. exists u. split; [apply SA_map_v; assumption|assumption].
  - destruct (astn_struct pkg parent a dh fs) as [ra [sa [_ E]]]. rewrite E in Ho. simpl in Ho.
    apply in_app_or in Ho. destruct Ho as [Ho|[<-|[]]].
    + rewrite (proj2 (astn_fields_spec pkg parent _)) in Ho. apply in_flat_map in Ho. destruct Ho as [f [Hf Ho]].
      rewrite Forall_forall in IHf. destruct (IHf f Hf _ j o Ho) as [u [Hu Hs]].
      exists u. split; [eapply SA_struct; eassumption|assumption].
    + exists (TStruct a dh fs). split; [apply SA_here|]. simpl. apply SR_struct.
      rewrite (proj1 (astn_fields_spec pkg parent _)). apply srel_fields_map. intros f _. apply astn_srel.
Qed.

(* the objects of the result of AnonymousStructsToNamed *)
Lemma astn_object_fields pkg parent fs :
  forall done nn,
  fold_left (fun (acc : list field * list object) f =>
               let '(t', n1) := astn_type pkg (String.append parent (upper_camel_case (f_name f))) (f_type f) in
               (fst acc ++ [mkField (f_name f) (f_comments f) t' (f_required f)], snd acc ++ n1)) fs (done, nn)
  = (done ++ fst (astn_fields pkg parent fs), nn ++ snd (astn_fields pkg parent fs)).
Proof.
  induction fs as [|f r IH]; intros done nn; simpl; [rewrite !app_nil_r; reflexivity|].
  destruct (astn_type pkg _ (f_type f)) as [t' n1]. simpl. rewrite IH.
  destruct (astn_fields pkg parent r) as [r' n2]. simpl. rewrite <- !app_assoc. reflexivity.
Qed.

Lemma astn_object_spec o :
  srel (o_type o) (o_type (fst (astn_object o))) /\
  forall n, In n (snd (astn_object o)) -> exists u, sub_at false (o_type o) false u /\ srel u (o_type n).
Proof.
  unfold astn_object.
  destruct (o_type o) as [a d|a v|a vs|a i v|a dh fs|a pk n|a pk n v|a k v cs|a bs|a v|a k] eqn:E;
    try (simpl; rewrite E; split; [apply SR_same|intros n0 []]).
  - destruct (astn_type _ _ (TDisj a d)) as [t' n] eqn:Ea. simpl. split.
    + match type of Ea with astn_type ?pk ?par ?t = _ => pose proof (proj1 (astn_srel pk t par)) as Hs end. rewrite Ea in Hs. exact Hs.
    + intros n0 Hn. match type of Ea with astn_type ?pk ?par ?t = _ => pose proof (astn_news_sub pk t par false n0) as Hx end.
      rewrite Ea in Hx. apply Hx. assumption.
  - destruct (astn_type _ _ (TArray a v)) as [t' n] eqn:Ea. simpl. split.
    + match type of Ea with astn_type ?pk ?par ?t = _ => pose proof (proj1 (astn_srel pk t par)) as Hs end. rewrite Ea in Hs. exact Hs.
    + intros n0 Hn. match type of Ea with astn_type ?pk ?par ?t = _ => pose proof (astn_news_sub pk t par false n0) as Hx end.
      rewrite Ea in Hx. apply Hx. assumption.
  - destruct (astn_type _ _ (TMap a i v)) as [t' n] eqn:Ea. simpl. split.
    + match type of Ea with astn_type ?pk ?par ?t = _ => pose proof (proj1 (astn_srel pk t par)) as Hs end. rewrite Ea in Hs. exact Hs.
    + intros n0 Hn. match type of Ea with astn_type ?pk ?par ?t = _ => pose proof (astn_news_sub pk t par false n0) as Hx end.
      rewrite Ea in Hx. apply Hx. assumption.
  - rewrite astn_object_fields. simpl. split.
    + apply SR_struct. rewrite (proj1 (astn_fields_spec _ _ _)). apply srel_fields_map. intros f _. apply astn_srel.
    + intros n0 Hn. rewrite (proj2 (astn_fields_spec _ _ _)) in Hn. apply in_flat_map in Hn. destruct Hn as [f [Hf Hn]].
      destruct (astn_news_sub _ _ _ false n0 Hn) as [u [Hu Hs]]. exists u. split; [eapply SA_struct; eassumption|assumption].
Qed.

Lemma astn_schema_objects s k o' : In (k, o') (s_objects (astn_schema s)) ->
  exists ko, In ko (s_objects s) /\ (o' = fst (astn_object (snd ko)) \/ In o' (snd (astn_object (snd ko)))).
Proof.
  unfold astn_schema. intros Hko.
  match type of Hko with context [fold_left ?F (s_objects s) ([], [])] =>
    assert ((fun acc : list (string * object) * list object =>
               (forall k o, In (k, o) (fst acc) -> exists ko, In ko (s_objects s) /\ o = fst (astn_object (snd ko))) /\
               (forall o, In o (snd acc) -> exists ko, In ko (s_objects s) /\ In o (snd (astn_object (snd ko)))))
              (fold_left F (s_objects s) ([], []))) as Hinv
  end.
  { apply fold_left_inv; [|split; intros; simpl in *; contradiction].
    intros [objs news] [k0 o0] Hin0 [H1 H2]. simpl.
    destruct (astn_object o0) as [o1 n] eqn:Eo. simpl. split.
    - intros k1 o2 Hin. apply objs_set_in_inv in Hin. destruct Hin as [Hin|Heq]; [eapply H1; eassumption|].
      subst o2. exists (k0, o0). split; [assumption|]. simpl. rewrite Eo. reflexivity.
    - intros o2 Hin. apply in_app_or in Hin. destruct Hin as [Hin|Hin]; [apply H2; assumption|].
      exists (k0, o0). split; [assumption|]. simpl. rewrite Eo. assumption. }
  destruct (fold_left _ (s_objects s) ([], [])) as [objs news]. simpl in Hko, Hinv. destruct Hinv as [H1 H2].
  apply fold_add_object_in in Hko. destruct Hko as [Hko|Hko].
  - destruct (H1 _ _ Hko) as [ko [Hin E]]. exists ko. split; [assumption|left; assumption].
  - destruct (H2 _ Hko) as [ko [Hin E]]. exists ko. split; [assumption|right; assumption].
Qed.

(* generic preservation by AnonymousStructsToNamed, for any predicate stable under srel *)
Theorem astn_pres (p : bool -> ty -> bool) ss :
  (forall t t' inter, srel t t' -> any_sub p inter t = false -> any_sub p inter t' = false) ->
  all_clean p ss -> all_clean p (anonymous_structs_to_named ss).
Proof.
  intros Hsrel Hc o' Ho'. unfold anonymous_structs_to_named in Ho'. apply in_objects_of_map in Ho'.
  destruct Ho' as [s [k [Hs Hko]]]. destruct (astn_schema_objects _ _ _ Hko) as [[k0 o] [Hin Hcase]]. simpl in Hcase.
  assert (any_sub p false (o_type o) = false) as Hco.
  { apply Hc. apply in_objects_of. exists s, k0. split; assumption. }
  destruct (astn_object_spec o) as [S1 S2]. destruct Hcase as [->|Hn].
  - eapply Hsrel; eassumption.
  - destruct (S2 _ Hn) as [u [Hu Hsu]]. eapply Hsrel; [eassumption|]. eapply sub_at_clean; eassumption.
Qed.
