(* C06 over the language-chain pass models: PRESERVATION of the normal-form predicates (and of
   the side conditions the union passes need) by the later passes of the chains, and the
   conditional chain theorems that follow.
   WHAT IS HERE
   - all_clean / all_clean_below and the shape lemmas of every union callback (dwnto/docte/dim/udta/fd/dtt);
   - per pass, `<pass>_pres[_below]` for the generic predicate classes (v0_pres for union visitors, srel instances for
     ASTN, NRFN, AETE, PEV, RNEV, DOASTE), plus the bookkeeping predicates p_nuf / p_nui / p_null3 / p_hasnull;
   - tame_go / tame_java / tame_python (decidable, partly computed on the model's own mid-chain state) and
     go_chain_nf, java_chain_core_nf, python_chain_nf:  tame_<l> ss = true -> process chain_<l> ss = Ok out ->
     nf_violations "<l>" out = [];
   - non-vacuity (go_chain_nf_nonvacuous, python_chain_nf_nonvacuous on w_tame) and tame_go_conditions_needed. *)
From Coq Require Import List String Bool Ascii Lia.
From Cog Require Import Model.IR Model.Names Model.Passes Model.PassesChain Model.Process Model.NF
     Proofs.TyInd Proofs.ChainLemmas Proofs.ChainNFProofs.
Import ListNotations.
Local Open Scope list_scope.

(* ---------- schema-level invariants as "every object type is clean" ---------- *)
Definition all_clean (p : bool -> ty -> bool) (ss : schemas) : Prop :=
  forall o, In o (objects_of ss) -> any_sub p false (o_type o) = false.
Definition all_clean_below (p : bool -> ty -> bool) (ss : schemas) : Prop :=
  forall o, In o (objects_of ss) -> any_below p (o_type o) = false.

Lemma all_clean_iff p ss : existsb (fun o => any_sub p false (o_type o)) (objects_of ss) = false <-> all_clean p ss.
Proof. apply existsb_false_iff. Qed.
Lemma all_clean_below_iff p ss : existsb (fun o => any_below p (o_type o)) (objects_of ss) = false <-> all_clean_below p ss.
Proof. apply existsb_false_iff. Qed.

Lemma all_clean_single p ss s : all_clean p ss -> In s ss -> all_clean p [s].
Proof. intros H Hs o Ho. apply H. eapply objects_of_single; eassumption. Qed.
Lemma all_clean_below_single p ss s : all_clean_below p ss -> In s ss -> all_clean_below p [s].
Proof. intros H Hs o Ho. apply H. eapply objects_of_single; eassumption. Qed.

Lemma in_single_objects s k o : In (k, o) (s_objects s) -> In o (objects_of [s]).
Proof. intros H. apply in_objects_of. exists s, k. split; [left; reflexivity|assumption]. Qed.

(* entry-point types that no pass rewrites: references, scalars, the zero type ... *)
Definition is_leaf_b (t : ty) : bool :=
  match t with
  | TArray _ _ | TMap _ _ _ | TStruct _ _ _ | TInter _ _ | TDisj _ _ => false
  | _ => true
  end.
Lemma is_leaf_b_spec t : is_leaf_b t = true -> is_leaf t.
Proof. destruct t; simpl; intros H; try discriminate; exact I. Qed.
Definition entry_simple (ss : schemas) : bool := forallb (fun s => is_leaf_b (s_entrytype s)) ss.

(* ---------- Schema.Resolve returns the type it was given or the type of an object ---------- *)
Lemma objs_get_in l k o : objs_get l k = Some o -> In (k, o) l.
Proof.
  induction l as [|[k' o'] r IH]; simpl; intros H; [discriminate|].
  destruct (seqb k' k) eqn:E.
  - inversion H; subst. apply String.eqb_eq in E. subst. left; reflexivity.
  - right. apply IH. assumption.
Qed.
Lemma resolve_in_source fuel objs : forall t r, resolve_in fuel objs t = Ok (Some r) ->
  (r = t /\ is_ref t = false) \/ exists k o, In (k, o) objs /\ r = o_type o.
Proof.
  induction fuel as [|f IH]; intros t r H.
  - destruct t; simpl in H; try discriminate; inversion H; subst; left; split; reflexivity.
  - destruct t; simpl in H; try (inversion H; subst; left; split; reflexivity).
    destruct (objs_get objs name) as [o|] eqn:Eg; [|discriminate].
    destruct (IH _ _ H) as [[Heq _]|Hx]; [subst r|right; assumption].
    right. exists name, o. split; [apply objs_get_in; assumption|reflexivity].
Qed.
Lemma resolve_source s t r : resolve s t = Ok (Some r) ->
  (r = t /\ is_ref t = false) \/ exists k o, In (k, o) (s_objects s) /\ r = o_type o.
Proof. apply resolve_in_source. Qed.

(* ---------- FlattenDisjunctions: where the branches of the flattened union come from ---------- *)
Lemma fd_add_in st n t x : In x (snd (fd_add st n t)) -> In x (snd st) \/ x = t.
Proof.
  unfold fd_add. destruct (existsb (seqb n) (fst st)); [left; assumption|]. simpl. intros H.
  apply in_app_or in H. destruct H as [H|[<-|[]]]; [left; assumption|right; reflexivity].
Qed.
Lemma fd_fold_in l : forall st x, In x (snd (fold_left (fun st rb => fd_add st (type_name rb) rb) l st)) -> In x (snd st) \/ In x l.
Proof.
  induction l as [|b r IH]; intros st x H; [left; assumption|]. simpl in H. apply IH in H.
  destruct H as [H|H]; [|right; right; assumption]. apply fd_add_in in H. destruct H as [H|Heq]; [left; assumption|subst x; right; left; reflexivity].
Qed.

Lemma fd_disj_branches (P : ty -> Prop) s a d t' :
  (forall b, In b (d_branches d) -> P b) ->
  (forall k o a' d', In (k, o) (s_objects s) -> o_type o = TDisj a' d' -> forall rb, In rb (d_branches d') -> P rb) ->
  fd_disj s (TDisj a d) = Ok t' ->
  exists bs', t' = TDisj a (mkDisj bs' (d_disc d) (d_mapping d)) /\ forall b, In b bs' -> P b.
Proof.
  intros Hb Ho H. unfold fd_disj in H.
  match type of H with (do _ <- ?f 0 (d_branches d) ([], []) ; _) = _ =>
    assert (forall l i st st', (forall b, In b l -> P b) -> (forall x, In x (snd st) -> P x) ->
                               f i l st = Ok st' -> forall x, In x (snd st') -> P x) as G
  end.
  { induction l as [|b r IH]; intros i st st' Hl Hst Hg; simpl in Hg.
    - inversion Hg; subst. assumption.
    - assert (forall n, forall x, In x (snd (fd_add st n b)) -> P x) as Hadd.
      { intros n x Hx. apply fd_add_in in Hx. destruct Hx as [Hx|Heq]; [apply Hst; assumption|subst x; apply Hl; left; reflexivity]. }
      destruct (negb (is_ref b)) eqn:Eref.
      + eapply IH; [intros y Hy; apply Hl; right; assumption|apply Hadd|eassumption].
      + destruct (resolve s b) as [r1| | |] eqn:Er; simpl in Hg; try discriminate.
        destruct r1 as [r1|].
        * destruct r1 as [a1 d1|a1 v1|a1 vs1|a1 i1 v1|a1 dh1 fs1|a1 pk1 n1|a1 pk1 n1 v1|a1 k1 v1 cs1|a1 bs1|a1 v1|a1 k1];
            try (eapply IH; [intros y Hy; apply Hl; right; assumption|apply Hadd|eassumption]).
          eapply IH; [intros y Hy; apply Hl; right; assumption| |eassumption].
          intros x Hx. apply fd_fold_in in Hx. destruct Hx as [Hx|Hx]; [apply Hst; assumption|].
          destruct (resolve_source _ _ _ Er) as [[_ E]|[k [o [Hin E]]]].
          -- rewrite E in Eref. discriminate.
          -- eapply Ho; [eassumption|symmetry; eassumption|assumption].
        * refine (IH _ _ _ (fun y Hy => Hl y (or_intror Hy)) Hst Hg). }
  match type of H with (do _ <- ?X ; _) = _ => destruct X as [st'| | |] eqn:E end; simpl in H; try discriminate.
  inversion H; subst. exists (snd st'). split; [reflexivity|].
  eapply G; [exact Hb| |exact E]. intros x [].
Qed.

(* ---------- what the union callbacks return (shape lemmas, used for every predicate) ---------- *)
Lemma dwnto_disj_shape a d t' : dwnto_disj (TDisj a d) = Ok t' ->
  t' = TDisj a d \/ exists b, In b (d_branches d) /\ is_null b = false /\ t' = set_nullable b true.
Proof.
  unfold dwnto_disj. destruct (d_branches d) as [|x [|y [|z r]]] eqn:Ebs;
    try (intros H; inversion H; subst; left; reflexivity).
  destruct (has_null_type [x; y]); [|intros H; inversion H; subst; left; reflexivity].
  destruct (filter (fun b => negb (is_null b)) [x; y]) as [|b rest] eqn:Ef; [discriminate|].
  intros H. inversion H; subst. right. exists b.
  assert (In b (filter (fun b => negb (is_null b)) [x; y])) as Hf by (rewrite Ef; left; reflexivity).
  apply filter_In in Hf. destruct Hf as [Hin Hnn]. apply negb_true_iff in Hnn. repeat split; assumption.
Qed.

Lemma docte_disj_shape ss a d t' : docte_disj ss (TDisj a d) = Ok t' ->
  t' = TDisj a d \/ exists vs, t' = TEnum (mk_attrs (nullable a) (dflt a) []) vs.
Proof.
  unfold docte_disj. destruct (d_branches d) as [|x [|y r]]; try (intros H; inversion H; subst; left; reflexivity).
  match goal with |- (do _ <- ?X ; _) = _ -> _ => destruct X as [x0| | |] end; simpl; try discriminate.
  destruct (fst x0); intros H; inversion H; subst; [right; eexists; reflexivity|left; reflexivity].
Qed.

Lemma dim_disj_shape s a d t' : dim_disj s (TDisj a d) = Ok t' ->
  exists disc m, t' = TDisj a (mkDisj (d_branches d) disc m).
Proof.
  unfold dim_disj. destruct (negb (has_only_refs (d_branches d))).
  { intros H. inversion H; subst. exists (d_disc d), (d_mapping d). destruct d; reflexivity. }
  destruct (negb (seqb (d_disc d) "") && negb match d_mapping d with [] => true | _ => false end).
  { intros H. inversion H; subst. exists (d_disc d), (d_mapping d). destruct d; reflexivity. }
  match goal with |- (do _ <- ?X ; _) = _ -> _ => destruct X as [disc| | |] end; simpl; try discriminate.
  destruct (match d_mapping d with [] => true | _ => false end).
  - destruct (dim_build s disc (d_branches d)) as [[m|]| | |]; simpl; try discriminate;
      intros H; inversion H; subst; eexists; eexists; reflexivity.
  - intros H; inversion H; subst; eexists; eexists; reflexivity.
Qed.

Lemma udta_disj_shape s a d t' : udta_disj s (TDisj a d) = Ok t' ->
  t' = TDisj a d \/ (t' = TScalar A0 KAny DNil [] /\ has_only_refs (d_branches d) = true).
Proof.
  unfold udta_disj. destruct (single_type_scalars s (d_branches d)) as [[k|]| | |]; simpl; try discriminate;
    try (intros H; inversion H; subst; left; reflexivity).
  destruct (has_only_scalar_or_array_or_map (d_branches d)); [intros H; inversion H; subst; left; reflexivity|].
  destruct (has_only_refs (d_branches d)); simpl; [|intros H; inversion H; subst; left; reflexivity].
  destruct (_ || _); intros H; inversion H; subst; [right; split; reflexivity|left; reflexivity].
Qed.

(* ---------- the generic wrapper for the stateless union passes ---------- *)
Definition keeps_nullable (t t' : ty) : Prop := nullable (ty_attrs t) = true -> nullable (ty_attrs t') = true.
Lemma keeps_nullable_attrs t t' : ty_attrs t' = ty_attrs t -> keeps_nullable t t'.
Proof. unfold keeps_nullable. intros ->. auto. Qed.

Section V0.
  Variable p : bool -> ty -> bool.
  Variable R : ty -> ty -> Prop.
  Hypothesis R_attrs : forall t t', ty_attrs t' = ty_attrs t -> R t t'.
  Hypothesis p_array : forall inter a v v', p inter (TArray a v) = false -> p inter (TArray a v') = false.
  Hypothesis p_map : forall inter a i v i' v', p inter (TMap a i v) = false -> p inter (TMap a i' v') = false.
  Hypothesis p_inter : forall inter a bs bs', p inter (TInter a bs) = false -> p inter (TInter a bs') = false.
  Hypothesis p_struct : forall inter a dh fs fs',
      Forall2 (fun f f' => f_required f' = f_required f /\ R (f_type f) (f_type f')) fs fs' ->
      p inter (TStruct a dh fs) = false -> p inter (TStruct a dh fs') = false.
  Variable f : schema -> ty -> res ty.

  Lemma v0_type s t t' inter :
    (forall a d t1 i, f s (TDisj a d) = Ok t1 -> any_sub p i (TDisj a d) = false -> any_sub p i t1 = false /\ R (TDisj a d) t1) ->
    visit_disj0 (f s) t = Ok t' -> any_sub p inter t = false -> any_sub p inter t' = false /\ R t t'.
  Proof.
    intros Hf Hv Hc. apply visit_disj0_vrel in Hv.
    destruct (vrel_pres unit (lift0 (f s)) p p R (fun _ => True) R_attrs p_array p_map p_inter p_struct
                        (fun _ _ _ H => H)) with (st := tt) (t := t) (t' := t') (st' := tt) (inter := inter)
      as [H1 [H2 _]]; try assumption; try exact I; [|split; assumption].
    intros st a d t1 st1 i Hd Hcd _. apply lift0_inv in Hd. destruct (Hf a d t1 i Hd Hcd) as [X Y].
    split; [assumption|split; [assumption|exact I]].
  Qed.

  Theorem v0_pres ss out :
    (forall s a d t1 i, In s ss -> all_clean p [s] -> f s (TDisj a d) = Ok t1 -> any_sub p i (TDisj a d) = false ->
                        any_sub p i t1 = false /\ R (TDisj a d) t1) ->
    all_clean p ss -> visit_schemas_disj0 f ss = Ok out -> all_clean p out.
  Proof.
    intros Hf Hc H o' Ho'.
    destruct (visit_schemas_disj0_objects _ _ _ _ H Ho') as [s [o [t' [Hs [Ho [Hv Heq]]]]]]. subst o'. simpl.
    refine (proj1 (v0_type s (o_type o) t' false _ Hv _)).
    - intros a d t1 i. apply Hf; [assumption|eapply all_clean_single; eassumption].
    - apply Hc. eapply objects_of_single; eassumption.
  Qed.
End V0.

(* predicates that only look at the head constructor of arrays, maps, structs, intersections *)
Ltac head_only := intros; simpl in *; assumption || reflexivity.

(* ---------- NUF (no union below a union branch) through the stateless union passes ---------- *)
Lemma union_free_nuf t inter : any_sub p_union false t = false -> any_sub p_nuf inter t = false.
Proof.
  intros H. rewrite (p_union_irrel t false inter) in H. revert H. apply any_sub_weaken.
  intros i x Hx. destruct x; try reflexivity. discriminate.
Qed.

Lemma nuf_of_branches inter a bs disc m :
  (forall b, In b bs -> any_sub p_union false b = false) -> any_sub p_nuf inter (TDisj a (mkDisj bs disc m)) = false.
Proof.
  intros H. simpl. apply orb_false_iff. split; apply existsb_false_iff; intros b Hb; [apply H; assumption|].
  apply union_free_nuf. apply H. assumption.
Qed.

Lemma nuf_objects_branches s : all_clean p_nuf [s] ->
  forall k o a' d', In (k, o) (s_objects s) -> o_type o = TDisj a' d' -> forall rb, In rb (d_branches d') -> any_sub p_union false rb = false.
Proof.
  intros Hc k o a' d' Hin E rb Hrb. pose proof (Hc o (in_single_objects _ _ _ Hin)) as H. rewrite E in H.
  eapply nuf_branches; eassumption.
Qed.

Section NufV0.
  Let pres := v0_pres p_nuf (fun _ _ => True) (fun _ _ _ => I).
  Ltac start H := apply (pres) with (5 := H).

  Theorem nuf_dwnto ss out : all_clean p_nuf ss -> disjunction_with_null_to_optional ss = Ok out -> all_clean p_nuf out.
  Proof.
    intros Hc H. unfold disjunction_with_null_to_optional in H.
    refine (pres _ _ _ _ _ ss out _ Hc H); try head_only.
    intros s a d t1 i _ _ Hd Hcd. split; [|exact I].
    destruct (dwnto_disj_shape _ _ _ Hd) as [->|[b [Hb [_ ->]]]]; [assumption|].
    rewrite any_sub_set_nullable_gen; [|destruct b; reflexivity].
    apply union_free_nuf. eapply nuf_branches; eassumption.
  Qed.

  Theorem nuf_docte ss out : all_clean p_nuf ss -> disjunction_of_constants_to_enum ss = Ok out -> all_clean p_nuf out.
  Proof.
    intros Hc H. unfold disjunction_of_constants_to_enum in H.
    refine (pres _ _ _ _ _ ss out _ Hc H); try head_only.
    intros s a d t1 i _ _ Hd Hcd. split; [|exact I].
    destruct (docte_disj_shape _ _ _ _ Hd) as [->|[vs ->]]; [assumption|reflexivity].
  Qed.

  Theorem nuf_fd ss out : all_clean p_nuf ss -> flatten_disjunctions ss = Ok out -> all_clean p_nuf out.
  Proof.
    intros Hc H. unfold flatten_disjunctions in H.
    refine (pres _ _ _ _ _ ss out _ Hc H); try head_only.
    intros s a d t1 i _ Hs Hd Hcd. split; [|exact I].
    destruct (fd_disj_branches (fun b => any_sub p_union false b = false) s a d t1) as [bs' [-> Hbs']]; try assumption.
    - eapply nuf_branches; eassumption.
    - apply nuf_objects_branches. assumption.
    - apply nuf_of_branches. assumption.
  Qed.

  Theorem nuf_dim ss out : all_clean p_nuf ss -> disjunction_infer_mapping ss = Ok out -> all_clean p_nuf out.
  Proof.
    intros Hc H. unfold disjunction_infer_mapping in H.
    refine (pres _ _ _ _ _ ss out _ Hc H); try head_only.
    intros s a d t1 i _ _ Hd Hcd. split; [|exact I].
    destruct (dim_disj_shape _ _ _ _ Hd) as [disc [m ->]]. apply nuf_of_branches. eapply nuf_branches; eassumption.
  Qed.

  Theorem nuf_udta ss out : all_clean p_nuf ss -> undiscriminated_disjunction_to_any ss = Ok out -> all_clean p_nuf out.
  Proof.
    intros Hc H. unfold undiscriminated_disjunction_to_any in H.
    refine (pres _ _ _ _ _ ss out _ Hc H); try head_only.
    intros s a d t1 i _ _ Hd Hcd. split; [|exact I].
    destruct (udta_disj_shape _ _ _ _ Hd) as [->|[-> _]]; [assumption|reflexivity].
  Qed.
End NufV0.

(* =====================================================================================
   structure-preserving passes (AnonymousStructsToNamed, NotRequiredFieldAsNullableType,
   AnonymousEnumToExplicitType): every predicate below survives an `srel` rewrite
   ===================================================================================== *)
Definition p_nui (inter : bool) (t : ty) : bool := inter && is_disj t.   (* a union inside an allOf composition *)

Definition keeps_union_free (t t' : ty) : Prop := any_sub p_union false t = false -> any_sub p_union false t' = false.

Lemma set_attrs_kind (q : ty -> bool) :
  (forall t a, q (set_attrs t a) = q t) -> True.
Proof. trivial. Qed.

Lemma srel_union t t' inter : srel t t' -> any_sub p_union inter t = false -> any_sub p_union inter t' = false.
Proof.
  apply (srel_pres p_union (fun _ _ => True)); try (intros; exact I); try (intros; simpl in *; assumption || reflexivity).
  all: try (intros i x a; destruct x; reflexivity).
  all: try (intros i l Hl; destruct l; simpl in Hl; try contradiction; reflexivity).
Qed.

Lemma Forall2_pointwise {A B} (Rel : A -> B -> Prop) l l' : Forall2 Rel l l' -> forall y, In y l' -> exists x, In x l /\ Rel x y.
Proof. apply Forall2_in_r. Qed.

Lemma srel_nuf t t' inter : srel t t' -> any_sub p_nuf inter t = false -> any_sub p_nuf inter t' = false.
Proof.
  apply (srel_pres p_nuf keeps_union_free); try (intros; simpl in *; assumption || reflexivity).
  - intros x x' H. intros Hc. eapply srel_union; eassumption.
  - intros i x a. destruct x; reflexivity.
  - intros i l Hl. destruct l; simpl in Hl; try contradiction; reflexivity.
  - intros i a a' d d' HF2 Hp. simpl in *. apply existsb_false_iff. intros b' Hb'.
    destruct (Forall2_in_r _ _ _ HF2 b' Hb') as [b [Hb Hk]]. apply Hk.
    exact (proj1 (existsb_false_iff _ _) Hp b Hb).
Qed.

Ltac srel_side :=
  try (intros; exact I); try (intros; simpl in *; assumption || reflexivity);
  try (intros ? x ?; destruct x; reflexivity);
  try (intros ? l Hl; destruct l; simpl in Hl; try contradiction; reflexivity);
  try (intros ? l Hl; destruct l; simpl in Hl; try contradiction; unfold p_nui, p_struct; simpl; apply andb_false_r);
  try (intros; unfold p_nui, p_struct in *; simpl; apply andb_false_r).

Lemma srel_nui t t' inter : srel t t' -> any_sub p_nui inter t = false -> any_sub p_nui inter t' = false.
Proof. apply (srel_pres p_nui (fun _ _ => True)); srel_side. Qed.

Lemma srel_struct_below t t' : srel t t' -> any_below p_struct t = false -> any_below p_struct t' = false.
Proof. apply (srel_pres_below p_struct (fun _ _ => True)); srel_side. Qed.
Lemma srel_struct_sub t t' inter : srel t t' -> any_sub p_struct inter t = false -> any_sub p_struct inter t' = false.
Proof. apply (srel_pres p_struct (fun _ _ => True)); srel_side. Qed.

Lemma srel_optnn t t' inter : srel t t' -> any_sub p_optnn inter t = false -> any_sub p_optnn inter t' = false.
Proof.
  apply (srel_pres p_optnn (fun _ _ => True)); srel_side.
  intros i a a' dh dh' fs fs' HF2 H. simpl in *. apply existsb_false_iff. intros f' Hf'.
    destruct (Forall2_in_r _ _ _ HF2 f' Hf') as [f [Hf [Hreq Hkn]]].
    pose proof (proj1 (existsb_false_iff _ _) H f Hf) as Hx. simpl in Hx. rewrite Hreq.
    destruct (f_required f); [reflexivity|]. simpl in *. apply negb_false_iff in Hx. rewrite (Hkn Hx). reflexivity.
Qed.

(* ---------- AnonymousStructsToNamed is an srel rewrite; its new objects are srel images of
   sub-terms ---------- *)
Lemma astn_srel pkg : forall t parent, srel t (fst (astn_type pkg parent t)) /\ keeps_null t (fst (astn_type pkg parent t)).
Proof.
  induction t as [a d IH|a v IH|a vs IH|a i v IHi IHv|a dh fs IHd IHf|a pk n|a pk n v|a k v cs|a bs IH|a v|a k]
    using ty_ind'; intros parent; try (split; [apply SR_same|intros H; exact H]).
  - rewrite astn_disj. simpl. split; [|intros H; exact H]. apply SR_disj. simpl.
    rewrite (proj1 (astn_list_spec pkg parent _)). apply srel_list_map. intros b Hb.
    rewrite Forall_forall in IH. exact (proj1 (IH b Hb parent)).
  - rewrite astn_array. simpl. split; [|intros H; exact H]. apply SR_array. exact (proj1 (IH parent)).
  - rewrite astn_map. simpl. split; [|intros H; exact H]. apply SR_map; [exact (proj1 (IHi parent))|exact (proj1 (IHv parent))].
  - destruct (astn_struct pkg parent a dh fs) as [ra [sa [Hn E]]]. rewrite E. simpl. split; [apply SR_simple; exact I|].
    unfold keeps_null. simpl. rewrite Hn. auto.
Qed.

Lemma astn_news_sub pkg : forall t parent i o, In o (snd (astn_type pkg parent t)) ->
  exists u, sub_at i t i u /\ srel u (o_type o).
Proof.
  induction t as [a d IH|a v IH|a vs IH|a i v IHi IHv|a dh fs IHd IHf|a pk n|a pk n v|a k v cs|a bs IH|a v|a k]
    using ty_ind'; intros parent j o Ho; try (simpl in Ho; contradiction).
  - rewrite astn_disj in Ho. simpl in Ho. rewrite (proj2 (astn_list_spec pkg parent _)) in Ho.
    apply in_flat_map in Ho. destruct Ho as [b [Hb Ho]]. rewrite Forall_forall in IH.
    destruct (IH b Hb parent j o Ho) as [u [Hu Hs]]. exists u. split; [eapply SA_disj; eassumption|assumption].
  - rewrite astn_array in Ho. simpl in Ho. destruct (IH parent j o Ho) as [u [Hu Hs]].
    exists u. split; [apply SA_array; assumption|assumption].
  - rewrite astn_map in Ho. simpl in Ho. apply in_app_or in Ho. destruct Ho as [Ho|Ho].
    + destruct (IHi parent j o Ho) as [u [Hu Hs]]. exists u. split; [apply SA_map_i; assumption|assumption].
    + destruct (IHv parent j o Ho) as [u [Hu Hs]]. exists u. split; [apply SA_map_v; assumption|assumption].
  - destruct (astn_struct pkg parent a dh fs) as [ra [sa [_ E]]]. rewrite E in Ho. simpl in Ho.
    apply in_app_or in Ho. destruct Ho as [Ho|[<-|[]]].
    + rewrite (proj2 (astn_fields_spec pkg parent _)) in Ho. apply in_flat_map in Ho. destruct Ho as [f [Hf Ho]].
      rewrite Forall_forall in IHf. destruct (IHf f Hf _ j o Ho) as [u [Hu Hs]].
      exists u. split; [eapply SA_struct; eassumption|assumption].
    + exists (TStruct a dh fs). split; [apply SA_here|]. simpl. apply SR_struct.
      rewrite (proj1 (astn_fields_spec pkg parent _)). apply srel_fields_map. intros f _. apply astn_srel.
Qed.

(* the objects of the result of AnonymousStructsToNamed *)
Lemma astn_object_fields pkg parent fs :
  forall done nn,
  fold_left (fun (acc : list field * list object) f =>
               let '(t', n1) := astn_type pkg (String.append parent (upper_camel_case (f_name f))) (f_type f) in
               (fst acc ++ [mkField (f_name f) (f_comments f) t' (f_required f)], snd acc ++ n1)) fs (done, nn)
  = (done ++ fst (astn_fields pkg parent fs), nn ++ snd (astn_fields pkg parent fs)).
Proof.
  induction fs as [|f r IH]; intros done nn; simpl; [rewrite !app_nil_r; reflexivity|].
  destruct (astn_type pkg _ (f_type f)) as [t' n1]. simpl. rewrite IH.
  destruct (astn_fields pkg parent r) as [r' n2]. simpl. rewrite <- !app_assoc. reflexivity.
Qed.

Lemma astn_object_spec o :
  srel (o_type o) (o_type (fst (astn_object o))) /\
  forall n, In n (snd (astn_object o)) -> exists u, sub_at false (o_type o) false u /\ srel u (o_type n).
Proof.
  unfold astn_object.
  destruct (o_type o) as [a d|a v|a vs|a i v|a dh fs|a pk n|a pk n v|a k v cs|a bs|a v|a k] eqn:E;
    try (simpl; rewrite E; split; [apply SR_same|intros n0 []]).
  - destruct (astn_type _ _ (TDisj a d)) as [t' n] eqn:Ea. simpl. split.
    + match type of Ea with astn_type ?pk ?par ?t = _ => pose proof (proj1 (astn_srel pk t par)) as Hs end. rewrite Ea in Hs. exact Hs.
    + intros n0 Hn. match type of Ea with astn_type ?pk ?par ?t = _ => pose proof (astn_news_sub pk t par false n0) as Hx end.
      rewrite Ea in Hx. apply Hx. assumption.
  - destruct (astn_type _ _ (TArray a v)) as [t' n] eqn:Ea. simpl. split.
    + match type of Ea with astn_type ?pk ?par ?t = _ => pose proof (proj1 (astn_srel pk t par)) as Hs end. rewrite Ea in Hs. exact Hs.
    + intros n0 Hn. match type of Ea with astn_type ?pk ?par ?t = _ => pose proof (astn_news_sub pk t par false n0) as Hx end.
      rewrite Ea in Hx. apply Hx. assumption.
  - destruct (astn_type _ _ (TMap a i v)) as [t' n] eqn:Ea. simpl. split.
    + match type of Ea with astn_type ?pk ?par ?t = _ => pose proof (proj1 (astn_srel pk t par)) as Hs end. rewrite Ea in Hs. exact Hs.
    + intros n0 Hn. match type of Ea with astn_type ?pk ?par ?t = _ => pose proof (astn_news_sub pk t par false n0) as Hx end.
      rewrite Ea in Hx. apply Hx. assumption.
  - rewrite astn_object_fields. simpl. split.
    + apply SR_struct. rewrite (proj1 (astn_fields_spec _ _ _)). apply srel_fields_map. intros f _. apply astn_srel.
    + intros n0 Hn. rewrite (proj2 (astn_fields_spec _ _ _)) in Hn. apply in_flat_map in Hn. destruct Hn as [f [Hf Hn]].
      destruct (astn_news_sub _ _ _ false n0 Hn) as [u [Hu Hs]]. exists u. split; [eapply SA_struct; eassumption|assumption].
Qed.

Lemma astn_schema_objects s k o' : In (k, o') (s_objects (astn_schema s)) ->
  exists ko, In ko (s_objects s) /\ (o' = fst (astn_object (snd ko)) \/ In o' (snd (astn_object (snd ko)))).
Proof.
  unfold astn_schema. intros Hko.
  match type of Hko with context [fold_left ?F (s_objects s) ([], [])] =>
    assert ((fun acc : list (string * object) * list object =>
               (forall k o, In (k, o) (fst acc) -> exists ko, In ko (s_objects s) /\ o = fst (astn_object (snd ko))) /\
               (forall o, In o (snd acc) -> exists ko, In ko (s_objects s) /\ In o (snd (astn_object (snd ko)))))
              (fold_left F (s_objects s) ([], []))) as Hinv
  end.
  { apply fold_left_inv; [|split; intros; simpl in *; contradiction].
    intros [objs news] [k0 o0] Hin0 [H1 H2]. simpl.
    destruct (astn_object o0) as [o1 n] eqn:Eo. simpl. split.
    - intros k1 o2 Hin. apply objs_set_in_inv in Hin. destruct Hin as [Hin|Heq]; [eapply H1; eassumption|].
      subst o2. exists (k0, o0). split; [assumption|]. simpl. rewrite Eo. reflexivity.
    - intros o2 Hin. apply in_app_or in Hin. destruct Hin as [Hin|Hin]; [apply H2; assumption|].
      exists (k0, o0). split; [assumption|]. simpl. rewrite Eo. assumption. }
  destruct (fold_left _ (s_objects s) ([], [])) as [objs news]. simpl in Hko, Hinv. destruct Hinv as [H1 H2].
  apply fold_add_object_in in Hko. destruct Hko as [Hko|Hko].
  - destruct (H1 _ _ Hko) as [ko [Hin E]]. exists ko. split; [assumption|left; assumption].
  - destruct (H2 _ Hko) as [ko [Hin E]]. exists ko. split; [assumption|right; assumption].
Qed.

(* generic preservation by AnonymousStructsToNamed, for any predicate stable under srel *)
Theorem astn_pres (p : bool -> ty -> bool) ss :
  (forall t t' inter, srel t t' -> any_sub p inter t = false -> any_sub p inter t' = false) ->
  all_clean p ss -> all_clean p (anonymous_structs_to_named ss).
Proof.
  intros Hsrel Hc o' Ho'. unfold anonymous_structs_to_named in Ho'. apply in_objects_of_map in Ho'.
  destruct Ho' as [s [k [Hs Hko]]]. destruct (astn_schema_objects _ _ _ Hko) as [[k0 o] [Hin Hcase]]. simpl in Hcase.
  assert (any_sub p false (o_type o) = false) as Hco.
  { apply Hc. apply in_objects_of. exists s, k0. split; assumption. }
  destruct (astn_object_spec o) as [S1 S2]. destruct Hcase as [->|Hn].
  - eapply Hsrel; eassumption.
  - destruct (S2 _ Hn) as [u [Hu Hsu]]. eapply Hsrel; [eassumption|]. eapply sub_at_clean; eassumption.
Qed.

(* ---------- NotRequiredFieldAsNullableType ---------- *)
Lemma nrfn_srel : forall t, srel t (nrfn_ty t) /\ keeps_null t (nrfn_ty t).
Proof.
  induction t as [a d IH|a v IH|a vs IH|a i v IHi IHv|a dh fs IHd IHf|a pk n|a pk n v|a k v cs|a bs IH|a v|a k]
    using ty_ind'; try (split; [apply SR_same|intros H; exact H]); simpl; (split; [|intros H; exact H]).
  - apply SR_disj. simpl. apply srel_list_map. intros b Hb. rewrite Forall_forall in IH. exact (proj1 (IH b Hb)).
  - apply SR_array. exact (proj1 IH).
  - apply SR_map; [exact (proj1 IHi)|exact (proj1 IHv)].
  - apply SR_struct.
    apply (srel_fields_map (fun f => if negb (f_required f) && negb (nullable (ty_attrs (nrfn_ty (f_type f))))
                                     then set_nullable (nrfn_ty (f_type f)) true else nrfn_ty (f_type f))).
    intros f Hf. rewrite Forall_forall in IHf. destruct (IHf f Hf) as [H1 H2].
    destruct (negb (f_required f) && negb (nullable (ty_attrs (nrfn_ty (f_type f))))).
    + split; [unfold set_nullable; apply SR_setattrs; assumption|]. intros _. destruct (nrfn_ty (f_type f)); reflexivity.
    + split; assumption.
  - apply SR_inter. apply srel_list_map. intros b Hb. rewrite Forall_forall in IH. exact (proj1 (IH b Hb)).
Qed.

Lemma visit_schema_t_objects (ft : ty -> ty) (fo : object -> object) s k o' :
  In (k, o') (s_objects (visit_schema_t ft fo s)) -> exists ko, In ko (s_objects s) /\ o' = fo (snd ko).
Proof.
  unfold visit_schema_t. simpl.
  assert (forall (l : list (string * object)) acc,
            In (k, o') (fold_left (fun acc (ko : string * object) => add_object acc (fo (snd ko))) l acc) ->
            In (k, o') acc \/ exists ko, In ko l /\ o' = fo (snd ko)) as G.
  { induction l as [|x r IH]; intros acc H; [left; assumption|]. simpl in H. apply IH in H.
    destruct H as [H|[ko [Hk E]]]; [|right; exists ko; split; [right; assumption|assumption]].
    unfold add_object in H. apply objs_set_in_inv in H. destruct H as [H|H]; [left; assumption|].
    right. exists x. split; [left; reflexivity|assumption]. }
  intros H. destruct (G _ _ H) as [[]|Hx]. exact Hx.
Qed.

Theorem nrfn_pres (p : bool -> ty -> bool) ss :
  (forall t t' inter, srel t t' -> any_sub p inter t = false -> any_sub p inter t' = false) ->
  all_clean p ss -> all_clean p (not_required_field_as_nullable_type ss).
Proof.
  intros Hsrel Hc o' Ho'. unfold not_required_field_as_nullable_type in Ho'. apply in_objects_of_map in Ho'.
  destruct Ho' as [s [k [Hs Hko]]]. apply visit_schema_t_objects in Hko. destruct Hko as [[k0 o] [Hin ->]]. simpl.
  eapply Hsrel; [apply nrfn_srel|]. apply Hc. apply in_objects_of. exists s, k0. split; assumption.
Qed.
Theorem nrfn_pres_below (p : bool -> ty -> bool) ss :
  (forall t t', srel t t' -> any_below p t = false -> any_below p t' = false) ->
  all_clean_below p ss -> all_clean_below p (not_required_field_as_nullable_type ss).
Proof.
  intros Hsrel Hc o' Ho'. unfold not_required_field_as_nullable_type in Ho'. apply in_objects_of_map in Ho'.
  destruct Ho' as [s [k [Hs Hko]]]. apply visit_schema_t_objects in Hko. destruct Hko as [[k0 o] [Hin ->]]. simpl.
  eapply Hsrel; [apply nrfn_srel|]. apply Hc. apply in_objects_of. exists s, k0. split; assumption.
Qed.

(* ---------- AnonymousEnumToExplicitType ---------- *)
Lemma aete_srel spkg pkg cur : forall t sug,
  srel t (fst (aete_type spkg pkg cur sug t)) /\ keeps_null t (fst (aete_type spkg pkg cur sug t)).
Proof.
  induction t as [a d IH|a v IH|a vs IH|a i v IHi IHv|a dh fs IHd IHf|a pk n|a pk n v|a k v cs|a bs IH|a v|a k]
    using ty_ind'; intros sug; try (split; [apply SR_same|intros H; exact H]).
  - rewrite aete_disj. simpl. split; [|intros H; exact H]. apply SR_disj. simpl.
    rewrite (proj1 (aete_list_spec spkg pkg cur sug _)). apply srel_list_map. intros b Hb.
    rewrite Forall_forall in IH. exact (proj1 (IH b Hb sug)).
  - rewrite aete_array. simpl. split; [|intros H; exact H]. apply SR_array. exact (proj1 (IH sug)).
  - simpl. split; [apply SR_simple; exact I|]. unfold keeps_null. simpl. auto.
  - rewrite aete_map. simpl. split; [|intros H; exact H]. apply SR_map; [exact (proj1 (IHi sug))|exact (proj1 (IHv sug))].
  - rewrite aete_struct. simpl. split; [|intros H; exact H]. apply SR_struct.
    rewrite (proj1 (aete_fields_spec spkg pkg cur _)). apply srel_fields_map. intros f Hf.
    rewrite Forall_forall in IHf. apply (IHf f Hf).
  - rewrite aete_inter. simpl. split; [|intros H; exact H]. apply SR_inter.
    rewrite (proj1 (aete_list_spec spkg pkg cur sug _)). apply srel_list_map. intros b Hb.
    rewrite Forall_forall in IH. exact (proj1 (IH b Hb sug)).
Qed.

Lemma aete_news_enum spkg pkg cur : forall t sug o, In o (snd (aete_type spkg pkg cur sug t)) -> is_enum (o_type o) = true.
Proof.
  induction t as [a d IH|a v IH|a vs IH|a i v IHi IHv|a dh fs IHd IHf|a pk n|a pk n v|a k v cs|a bs IH|a v|a k]
    using ty_ind'; intros sug o Ho; try (simpl in Ho; contradiction).
  - rewrite aete_disj in Ho. simpl in Ho. rewrite (proj2 (aete_list_spec spkg pkg cur sug _)) in Ho.
    apply in_flat_map in Ho. destruct Ho as [b [Hb Ho]]. rewrite Forall_forall in IH. exact (IH b Hb sug o Ho).
  - rewrite aete_array in Ho. simpl in Ho. exact (IH sug o Ho).
  - simpl in Ho. destruct Ho as [<-|[]]. reflexivity.
  - rewrite aete_map in Ho. simpl in Ho. apply in_app_or in Ho. destruct Ho as [Ho|Ho]; [exact (IHi sug o Ho)|exact (IHv sug o Ho)].
  - rewrite aete_struct in Ho. simpl in Ho. rewrite (proj2 (aete_fields_spec spkg pkg cur _)) in Ho.
    apply in_flat_map in Ho. destruct Ho as [f [Hf Ho]]. rewrite Forall_forall in IHf. exact (IHf f Hf _ o Ho).
  - rewrite aete_inter in Ho. simpl in Ho. rewrite (proj2 (aete_list_spec spkg pkg cur sug _)) in Ho.
    apply in_flat_map in Ho. destruct Ho as [b [Hb Ho]]. rewrite Forall_forall in IH. exact (IH b Hb sug o Ho).
Qed.

Lemma aete_schema_objects s k o' : In (k, o') (s_objects (aete_schema s)) ->
  (exists ko, In ko (s_objects s) /\ srel (o_type (snd ko)) (o_type o')) \/ is_enum (o_type o') = true.
Proof.
  unfold aete_schema. intros Hko.
  match type of Hko with context [fold_left ?F (s_objects s) ([], [])] =>
    assert ((fun acc : list (string * object) * list object =>
               (forall k o, In (k, o) (fst acc) -> exists ko, In ko (s_objects s) /\ srel (o_type (snd ko)) (o_type o)) /\
               (forall o, In o (snd acc) -> is_enum (o_type o) = true))
              (fold_left F (s_objects s) ([], []))) as Hinv
  end.
  { apply fold_left_inv; [|split; intros; simpl in *; contradiction].
    intros [objs news] [k0 o0] Hin0 [H1 H2]. simpl.
    destruct (is_enum (o_type o0)) eqn:Ee; simpl.
    - split; [|assumption]. intros k1 o1 Hin. apply objs_set_in_inv in Hin. destruct Hin as [Hin|Heq]; [eapply H1; eassumption|].
      subst o1. exists (k0, o0). split; [assumption|apply SR_same].
    - destruct (aete_type (s_pkg s) (o_selfpkg o0) (o_name o0) _ (o_type o0)) as [t' n] eqn:Ea. simpl. split.
      + intros k1 o1 Hin. apply objs_set_in_inv in Hin. destruct Hin as [Hin|Heq]; [eapply H1; eassumption|].
        subst o1. exists (k0, o0). split; [assumption|]. simpl.
        match type of Ea with aete_type ?a1 ?a2 ?a3 ?sug ?t = _ => pose proof (proj1 (aete_srel a1 a2 a3 t sug)) as Hs end.
        rewrite Ea in Hs. exact Hs.
      + intros o1 Hin. apply in_app_or in Hin. destruct Hin as [Hin|Hin]; [apply H2; assumption|].
        match type of Ea with aete_type ?a1 ?a2 ?a3 ?sug ?t = _ => pose proof (aete_news_enum a1 a2 a3 t sug o1) as Hn end.
        rewrite Ea in Hn. apply Hn. assumption. }
  destruct (fold_left _ (s_objects s) ([], [])) as [objs news]. simpl in Hko, Hinv. destruct Hinv as [H1 H2].
  apply fold_add_object_in in Hko. destruct Hko as [Hko|Hko]; [left; eapply H1; eassumption|right; apply H2; assumption].
Qed.

Theorem aete_pres (p : bool -> ty -> bool) ss :
  (forall t t' inter, srel t t' -> any_sub p inter t = false -> any_sub p inter t' = false) ->
  (forall a vs, p false (TEnum a vs) = false) ->
  all_clean p ss -> all_clean p (anonymous_enum_to_explicit_type ss).
Proof.
  intros Hsrel Henum Hc o' Ho'. unfold anonymous_enum_to_explicit_type in Ho'. apply in_objects_of_map in Ho'.
  destruct Ho' as [s [k [Hs Hko]]]. destruct (aete_schema_objects _ _ _ Hko) as [[[k0 o] [Hin Hsr]]|He].
  - eapply Hsrel; [eassumption|]. apply Hc. apply in_objects_of. exists s, k0. split; assumption.
  - destruct (o_type o'); try discriminate. simpl. rewrite Henum. reflexivity.
Qed.
Theorem aete_pres_below (p : bool -> ty -> bool) ss :
  (forall t t', srel t t' -> any_below p t = false -> any_below p t' = false) ->
  all_clean_below p ss -> all_clean_below p (anonymous_enum_to_explicit_type ss).
Proof.
  intros Hsrel Hc o' Ho'. unfold anonymous_enum_to_explicit_type in Ho'. apply in_objects_of_map in Ho'.
  destruct Ho' as [s [k [Hs Hko]]]. destruct (aete_schema_objects _ _ _ Hko) as [[[k0 o] [Hin Hsr]]|He].
  - eapply Hsrel; [eassumption|]. apply Hc. apply in_objects_of. exists s, k0. split; assumption.
  - destruct (o_type o'); try discriminate. reflexivity.
Qed.

(* ---------- PrefixEnumValues only renames the members of top-level enums ---------- *)
Lemma pev_objects ss out o' : prefix_enum_values ss = Ok out -> In o' (objects_of out) ->
  exists o, In o (objects_of ss) /\ o_name o' = o_name o /\
            (o_type o' = o_type o \/ exists a vs vs', o_type o = TEnum a vs /\ o_type o' = TEnum a vs').
Proof.
  intros H Ho'. unfold prefix_enum_values in H.
  destruct (in_objects_of_mapM _ _ _ _ H Ho') as [s [s' [k [Hs [HF Hko]]]]].
  destruct (map_objects_res_objects _ _ _ _ _ HF Hko) as [[k0 o] [Hin Hfo]]. simpl in Hfo.
  exists o. split; [apply in_objects_of; exists s, k0; split; assumption|].
  unfold pev_object in Hfo.
  destruct (o_type o) as [a d|a v|a vs|a i v|a dh fs|a pk n|a pk n v|a kk v cs|a bs|a v|a kk] eqn:E;
    try (inversion Hfo; subst; split; [reflexivity|left; assumption]).
  match type of Hfo with (do _ <- ?X ; _) = _ => destruct X as [vs'| | |] end; simpl in Hfo; try discriminate.
  inversion Hfo; subst. simpl. split; [reflexivity|]. right. exists a, vs, vs'. split; [reflexivity|reflexivity].
Qed.

Theorem pev_pres (p : bool -> ty -> bool) ss out :
  (forall inter a vs vs', p inter (TEnum a vs') = p inter (TEnum a vs)) ->
  all_clean p ss -> prefix_enum_values ss = Ok out -> all_clean p out.
Proof.
  intros Hp Hc H o' Ho'. destruct (pev_objects _ _ _ H Ho') as [o [Ho [_ [E|[a [vs [vs' [E1 E2]]]]]]]].
  - rewrite E. apply Hc. assumption.
  - rewrite E2. pose proof (Hc o Ho) as Hx. rewrite E1 in Hx. simpl in *. rewrite (Hp false a vs vs'). assumption.
Qed.
Theorem pev_pres_below (p : bool -> ty -> bool) ss out :
  all_clean_below p ss -> prefix_enum_values ss = Ok out -> all_clean_below p out.
Proof.
  intros Hc H o' Ho'. destruct (pev_objects _ _ _ H Ho') as [o [Ho [_ [E|[a [vs [vs' [E1 E2]]]]]]]].
  - rewrite E. apply Hc. assumption.
  - rewrite E2. reflexivity.
Qed.

(* ---------- DisjunctionOfAnonymousStructsToExplicit, under NUF ---------- *)
Section Doaste.
  Variable pkg : string.
  Let ST := list (string * object).
  Fixpoint doaste_fields (l : list field) (st : ST) : list field * ST :=
    match l with
    | [] => ([], st)
    | f :: r => let '(t', st1) := doaste_ty pkg st (f_type f) in
                let '(r', st2) := doaste_fields r st1 in
                (mkField (f_name f) (f_comments f) t' (f_required f) :: r', st2)
    end.
  Fixpoint doaste_list (l : list ty) (st : ST) : list ty * ST :=
    match l with
    | [] => ([], st)
    | b :: r => let '(b', st1) := doaste_ty pkg st b in
                let '(r', st2) := doaste_list r st1 in (b' :: r', st2)
    end.
  Fixpoint doaste_branches (i : nat) (l : list ty) (st : ST) : list ty * ST :=
    match l with
    | [] => ([], st)
    | b :: r =>
        match b with
        | TStruct _ _ _ =>
            let name := doaste_name b i in
            let '(b', st1) := doaste_ty pkg st b in
            let '(r', st2) := doaste_branches (S i) r (objs_set st1 name (new_object pkg name b')) in
            (TRef A0 pkg name :: r', st2)
        | _ => let '(r', st2) := doaste_branches (S i) r st in (b :: r', st2)
        end
    end.

  Lemma doaste_array st a v :
    doaste_ty pkg st (TArray a v) = (TArray a (fst (doaste_ty pkg st v)), snd (doaste_ty pkg st v)).
  Proof. simpl. destruct (doaste_ty pkg st v). reflexivity. Qed.
  Lemma doaste_map st a i v :
    doaste_ty pkg st (TMap a i v)
    = (TMap a (fst (doaste_ty pkg st i)) (fst (doaste_ty pkg (snd (doaste_ty pkg st i)) v)),
       snd (doaste_ty pkg (snd (doaste_ty pkg st i)) v)).
  Proof. simpl. destruct (doaste_ty pkg st i) as [i' st1]. simpl. destruct (doaste_ty pkg st1 v). reflexivity. Qed.
  Lemma doaste_struct st a dh fs :
    doaste_ty pkg st (TStruct a dh fs) = (TStruct a dh (fst (doaste_fields fs st)), snd (doaste_fields fs st)).
  Proof.
    change (doaste_ty pkg st (TStruct a dh fs)) with (let '(fs', st') := doaste_fields fs st in (TStruct a dh fs', st')).
    destruct (doaste_fields fs st). reflexivity.
  Qed.
  Lemma doaste_inter st a bs :
    doaste_ty pkg st (TInter a bs) = (TInter a (fst (doaste_list bs st)), snd (doaste_list bs st)).
  Proof.
    change (doaste_ty pkg st (TInter a bs)) with (let '(bs', st') := doaste_list bs st in (TInter a bs', st')).
    destruct (doaste_list bs st). reflexivity.
  Qed.
  Lemma doaste_disj st a d :
    doaste_ty pkg st (TDisj a d)
    = if Nat.eqb (List.length (filter is_scalar (d_branches d))) 1 && Nat.eqb (List.length (filter is_struct (d_branches d))) 1
      then (TDisj a d, st)
      else (TDisj a (mkDisj (fst (doaste_branches 0 (d_branches d) st)) (d_disc d) (d_mapping d)),
            snd (doaste_branches 0 (d_branches d) st)).
  Proof.
    change (doaste_ty pkg st (TDisj a d))
      with (if Nat.eqb (List.length (filter is_scalar (d_branches d))) 1 && Nat.eqb (List.length (filter is_struct (d_branches d))) 1
            then (TDisj a d, st)
            else let '(bs', st') := doaste_branches 0 (d_branches d) st in
                 (TDisj a (mkDisj bs' (d_disc d) (d_mapping d)), st')).
    destruct (_ && _); [reflexivity|]. destruct (doaste_branches 0 (d_branches d) st). reflexivity.
  Qed.

  (* a type without any union is left alone *)
  Lemma doaste_id : forall t st, any_sub p_union false t = false -> doaste_ty pkg st t = (t, st).
  Proof.
    induction t as [a d IH|a v IH|a vs IH|a i v IHi IHv|a dh fs IHd IHf|a pk n|a pk n v|a k v cs|a bs IH|a v|a k]
      using ty_ind'; intros st H; try reflexivity.
    - simpl in H. discriminate.
    - rewrite doaste_array. simpl in H. rewrite (IH st H). reflexivity.
    - rewrite doaste_map. simpl in H. apply orb_false_iff in H. destruct H as [Hi Hv].
      rewrite (IHi st Hi). simpl. rewrite (IHv st Hv). reflexivity.
    - rewrite doaste_struct. simpl in H.
      assert (doaste_fields fs st = (fs, st)) as E.
      { revert st. induction fs as [|f r IHr]; intros st; [reflexivity|]. simpl.
        inversion IHf as [|? ? Hf Hr]; subst. simpl in H. apply orb_false_iff in H. destruct H as [H1 H2].
        rewrite (Hf st H1). rewrite (IHr Hr H2 st). destruct f; reflexivity. }
      rewrite E. reflexivity.
    - rewrite doaste_inter. simpl in H.
      assert (doaste_list bs st = (bs, st)) as E.
      { revert st. induction bs as [|b r IHr]; intros st; [reflexivity|]. simpl.
        inversion IH as [|? ? Hb Hr]; subst. simpl in H. apply orb_false_iff in H. destruct H as [H1 H2].
        rewrite (p_union_irrel b true false) in H1. rewrite (Hb st H1). rewrite (IHr Hr H2 st). reflexivity. }
      rewrite E. reflexivity.
  Qed.

  Definition came_from (inter : bool) (t : ty) (st st' : ST) : Prop :=
    forall k o, In (k, o) st' -> In (k, o) st \/ exists j u, sub_at inter t j u /\ o_type o = u.

  Lemma doaste_branches_spec : forall l i st,
    (forall b, In b l -> any_sub p_union false b = false) ->
    srel_list l (fst (doaste_branches i l st)) /\
    forall k o, In (k, o) (snd (doaste_branches i l st)) -> In (k, o) st \/ exists b, In b l /\ o_type o = b.
  Proof.
    induction l as [|b r IH]; intros i st Hl; [split; [constructor|intros k o H; left; exact H]|].
    assert (forall b', In b' r -> any_sub p_union false b' = false) as Hr by (intros b' Hb'; apply Hl; right; assumption).
    simpl. destruct b as [a d|a v|a vs|a x v|a dh fs|a pk n|a pk n v|a kk v cs|a bs|a v|a kk];
      try (destruct (IH (S i) st Hr) as [S1 S2]; destruct (doaste_branches (S i) r st) as [r' st2]; simpl in *;
           split; [constructor; [apply SR_same|assumption]|];
           intros k o Hin; destruct (S2 k o Hin) as [Hx|[b' [Hb' E]]]; [left; assumption|right; exists b'; split; [right; assumption|assumption]]).
    rewrite (doaste_id (TStruct a dh fs) st (Hl _ (or_introl eq_refl))).
    set (name := doaste_name (TStruct a dh fs) i).
    destruct (IH (S i) (objs_set st name (new_object pkg name (TStruct a dh fs))) Hr) as [S1 S2].
    destruct (doaste_branches (S i) r _) as [r' st2]. simpl in *.
    split; [constructor; [apply SR_simple; exact I|assumption]|].
    intros k o Hin. destruct (S2 k o Hin) as [Hx|[b' [Hb' E]]]; [|right; exists b'; split; [right; assumption|assumption]].
    apply objs_set_in_inv in Hx. destruct Hx as [Hx|Heq]; [left; assumption|].
    right. exists (TStruct a dh fs). split; [left; reflexivity|]. subst o. reflexivity.
  Qed.

  Lemma doaste_spec : forall t inter st,
    any_sub p_nuf inter t = false ->
    srel t (fst (doaste_ty pkg st t)) /\ keeps_null t (fst (doaste_ty pkg st t)) /\
    came_from inter t st (snd (doaste_ty pkg st t)).
  Proof.
    induction t as [a d IH|a v IH|a vs IH|a i v IHi IHv|a dh fs IHd IHf|a pk n|a pk n v|a k v cs|a bs IH|a v|a k]
      using ty_ind'; intros inter st H;
      try (split; [apply SR_same|split; [intros X; exact X|intros k0 o0 Hin; left; exact Hin]]).
    - (* union: its branches contain no union *)
      pose proof (nuf_branches inter a d H) as Hb. rewrite doaste_disj.
      destruct (_ && _); [split; [apply SR_same|split; [intros X; exact X|intros k0 o0 Hin; left; exact Hin]]|].
      destruct (doaste_branches_spec (d_branches d) 0 st Hb) as [S1 S2]. simpl.
      split; [apply SR_disj; exact S1|split; [intros X; exact X|]].
      intros k0 o0 Hin. destruct (S2 k0 o0 Hin) as [Hx|[b [Hbin E]]]; [left; assumption|].
      right. exists inter, b. split; [eapply SA_disj; [eassumption|apply SA_here]|assumption].
    - rewrite doaste_array. simpl in H. try rewrite orb_false_l in H. destruct (IH inter st H) as [S1 [_ S3]]. simpl.
      split; [apply SR_array; assumption|split; [intros X; exact X|]].
      intros k0 o0 Hin. destruct (S3 k0 o0 Hin) as [Hx|[j [u [Hu E]]]]; [left; assumption|].
      right. exists j, u. split; [apply SA_array; assumption|assumption].
    - rewrite doaste_map. simpl in H. try rewrite orb_false_l in H. apply orb_false_iff in H. destruct H as [Hi Hv].
      destruct (IHi inter st Hi) as [S1 [_ S3]].
      destruct (IHv inter (snd (doaste_ty pkg st i)) Hv) as [T1 [_ T3]]. simpl.
      split; [apply SR_map; assumption|split; [intros X; exact X|]].
      intros k0 o0 Hin. destruct (T3 k0 o0 Hin) as [Hx|[j [u [Hu E]]]].
      + destruct (S3 k0 o0 Hx) as [Hy|[j [u [Hu E]]]]; [left; assumption|].
        right. exists j, u. split; [apply SA_map_i; assumption|assumption].
      + right. exists j, u. split; [apply SA_map_v; assumption|assumption].
    - rewrite doaste_struct. simpl in H. try rewrite orb_false_l in H. simpl.
      assert (forall l st0, Forall (fun f => forall inter st, any_sub p_nuf inter (f_type f) = false ->
                                   srel (f_type f) (fst (doaste_ty pkg st (f_type f))) /\
                                   keeps_null (f_type f) (fst (doaste_ty pkg st (f_type f))) /\
                                   came_from inter (f_type f) st (snd (doaste_ty pkg st (f_type f)))) l ->
                (forall f, In f l -> any_sub p_nuf inter (f_type f) = false) ->
                srel_fields l (fst (doaste_fields l st0)) /\
                forall k0 o0, In (k0, o0) (snd (doaste_fields l st0)) ->
                              In (k0, o0) st0 \/ exists f j u, In f l /\ sub_at inter (f_type f) j u /\ o_type o0 = u) as G.
      { induction l as [|f r IHr]; intros st0 HF Hc; [split; [constructor|intros k0 o0 X; left; exact X]|].
        inversion HF as [|? ? Hf Hr]; subst. simpl.
        destruct (Hf inter st0 (Hc f (or_introl eq_refl))) as [S1 [S2 S3]].
        destruct (doaste_ty pkg st0 (f_type f)) as [t' st1]. simpl in *.
        destruct (IHr st1 Hr (fun g Hg => Hc g (or_intror Hg))) as [R1 R2].
        destruct (doaste_fields r st1) as [r' st2]. simpl in *.
        split; [constructor; simpl; try assumption; reflexivity|].
        intros k0 o0 Hin. destruct (R2 k0 o0 Hin) as [Hx|[g [j [u [Hg [Hu E]]]]]].
        - destruct (S3 k0 o0 Hx) as [Hy|[j [u [Hu E]]]]; [left; assumption|].
          right. exists f, j, u. split; [left; reflexivity|split; assumption].
        - right. exists g, j, u. split; [right; assumption|split; assumption]. }
      destruct (G fs st IHf (proj1 (existsb_false_iff _ _) H)) as [G1 G2].
      split; [apply SR_struct; assumption|split; [intros X; exact X|]].
      intros k0 o0 Hin. destruct (G2 k0 o0 Hin) as [Hx|[f [j [u [Hf [Hu E]]]]]]; [left; assumption|].
      right. exists j, u. split; [eapply SA_struct; eassumption|assumption].
    - rewrite doaste_inter. simpl in H. try rewrite orb_false_l in H. simpl.
      assert (forall l st0, Forall (fun b => forall inter st, any_sub p_nuf inter b = false ->
                                   srel b (fst (doaste_ty pkg st b)) /\ keeps_null b (fst (doaste_ty pkg st b)) /\
                                   came_from inter b st (snd (doaste_ty pkg st b))) l ->
                (forall b, In b l -> any_sub p_nuf true b = false) ->
                srel_list l (fst (doaste_list l st0)) /\
                forall k0 o0, In (k0, o0) (snd (doaste_list l st0)) ->
                              In (k0, o0) st0 \/ exists b j u, In b l /\ sub_at true b j u /\ o_type o0 = u) as G.
      { induction l as [|b r IHr]; intros st0 HF Hc; [split; [constructor|intros k0 o0 X; left; exact X]|].
        inversion HF as [|? ? Hb Hr]; subst. simpl.
        destruct (Hb true st0 (Hc b (or_introl eq_refl))) as [S1 [S2 S3]].
        destruct (doaste_ty pkg st0 b) as [b' st1]. simpl in *.
        destruct (IHr st1 Hr (fun g Hg => Hc g (or_intror Hg))) as [R1 R2].
        destruct (doaste_list r st1) as [r' st2]. simpl in *.
        split; [constructor; assumption|].
        intros k0 o0 Hin. destruct (R2 k0 o0 Hin) as [Hx|[g [j [u [Hg [Hu E]]]]]].
        - destruct (S3 k0 o0 Hx) as [Hy|[j [u [Hu E]]]]; [left; assumption|].
          right. exists b, j, u. split; [left; reflexivity|split; assumption].
        - right. exists g, j, u. split; [right; assumption|split; assumption]. }
      destruct (G bs st IH (proj1 (existsb_false_iff _ _) H)) as [G1 G2].
      split; [apply SR_inter; assumption|split; [intros X; exact X|]].
      intros k0 o0 Hin. destruct (G2 k0 o0 Hin) as [Hx|[b [j [u [Hb [Hu E]]]]]]; [left; assumption|].
      right. exists j, u. split; [eapply SA_inter; eassumption|assumption].
  Qed.
End Doaste.

Lemma doaste_leaf pkg st t : is_leaf t -> doaste_ty pkg st t = (t, st).
Proof. destruct t; simpl; intros H; try contradiction; reflexivity. Qed.

Definition entry_leaf (ss : schemas) : Prop := forall s, In s ss -> is_leaf (s_entrytype s).

Theorem doaste_pres (p : bool -> ty -> bool) ss out :
  (forall t t' inter, srel t t' -> any_sub p inter t = false -> any_sub p inter t' = false) ->
  (forall t, any_sub p true t = false -> any_sub p false t = false) ->
  all_clean p_nuf ss -> entry_leaf ss -> all_clean p ss ->
  disjunction_of_anonymous_structs_to_explicit ss = Ok out -> all_clean p out.
Proof.
  intros Hsrel Hmono Hnuf Hentry Hc H o' Ho'. unfold disjunction_of_anonymous_structs_to_explicit in H.
  destruct (in_objects_of_mapM _ _ _ _ H Ho') as [s [s' [k [Hs [HF Hko]]]]].
  set (C := fun t : ty => is_leaf t \/ (any_sub p_nuf false t = false /\ any_sub p false t = false)).
  set (Q := fun st : list (string * object) => forall k o, In (k, o) st -> any_sub p false (o_type o) = false).
  assert (forall k0 o0, In (k0, o0) (s_objects s) -> any_sub p_nuf false (o_type o0) = false /\ any_sub p false (o_type o0) = false) as Hobj.
  { intros k0 o0 Hin. assert (In o0 (objects_of ss)) as Hx by (apply in_objects_of; exists s, k0; split; assumption).
    split; [apply Hnuf|apply Hc]; assumption. }
  destruct (visit_schema_st_objects [] (fun st t => Ok (doaste_ty (s_pkg s) st t)) (map snd) C Q s s') as [final [HQf Hobjs]]; try assumption.
  - intros st t t' st' HC Hv HQ. inversion Hv as [Hv']. clear Hv. destruct HC as [Hl|[Hn Hp]].
    + rewrite (doaste_leaf _ _ _ Hl) in Hv'. inversion Hv'; subst. assumption.
    + destruct (doaste_spec (s_pkg s) t false st Hn) as [_ [_ S3]]. rewrite Hv' in S3. simpl in S3.
      intros k0 o0 Hin. destruct (S3 k0 o0 Hin) as [Hx|[j [u [Hu E]]]]; [eapply HQ; eassumption|].
      rewrite E. pose proof (sub_at_clean p _ _ _ _ Hu Hp) as Hcu. destruct j; [apply Hmono|]; assumption.
  - intros k0 o0 [].
  - left. apply Hentry. assumption.
  - intros [k0 o0] Hin. right. apply (Hobj k0 o0 Hin).
  - destruct (Hobjs k o' Hko) as [[[k0 o0] [st [t' [st' [Hin [HQ [Hv Heq]]]]]]]|Hnew].
    + subst o'. simpl in *. inversion Hv as [Hv']. destruct (Hobj k0 o0 Hin) as [Hn Hp].
      destruct (doaste_spec (s_pkg s) (o_type o0) false st Hn) as [S1 _]. rewrite Hv' in S1. simpl in S1.
      eapply Hsrel; eassumption.
    + apply in_map_iff in Hnew. destruct Hnew as [[k1 o1] [Heq Hin]]. simpl in Heq. subst o1. exact (HQf k1 o' Hin).
Qed.

(* ---------- entry-point types that are references / scalars / the zero type stay so ---------- *)
Lemma visit_disj0_leaf f t : is_leaf t -> visit_disj0 f t = Ok t.
Proof. destruct t; simpl; intros H; try contradiction; reflexivity. Qed.

Lemma visit_schema_entry ft fo s s' : visit_schema ft fo s = Ok s' -> ft (s_entrytype s) = Ok (s_entrytype s').
Proof.
  rewrite visit_schema_eq. destruct (ft (s_entrytype s)) as [et| | |]; simpl; try discriminate.
  destruct (vs_loop fo (s_objects s) []) as [objs| | |]; simpl; try discriminate. intros H. inversion H; subst. reflexivity.
Qed.

Lemma entry_leaf_v0 f ss out : entry_leaf ss -> visit_schemas_disj0 f ss = Ok out -> entry_leaf out.
Proof.
  intros He H s' Hs'. unfold visit_schemas_disj0 in H.
  destruct (Forall2_in_r _ _ _ (mapM_Forall2 _ _ _ H) s' Hs') as [s [Hs HF]].
  apply visit_schema_entry in HF. rewrite (visit_disj0_leaf _ _ (He s Hs)) in HF.
  assert (s_entrytype s' = s_entrytype s) as E by congruence. rewrite E. apply He. assumption.
Qed.

Lemma entry_leaf_map (F : schema -> schema) ss :
  (forall s, s_entrytype (F s) = s_entrytype s) -> entry_leaf ss -> entry_leaf (map F ss).
Proof. intros HF He s' Hs'. apply in_map_iff in Hs'. destruct Hs' as [s [<- Hs]]. rewrite HF. apply He. assumption. Qed.

Lemma entry_leaf_astn ss : entry_leaf ss -> entry_leaf (anonymous_structs_to_named ss).
Proof.
  apply entry_leaf_map. intros s. unfold astn_schema. destruct (fold_left _ (s_objects s) ([], [])). reflexivity.
Qed.
Lemma entry_leaf_aete ss : entry_leaf ss -> entry_leaf (anonymous_enum_to_explicit_type ss).
Proof.
  apply entry_leaf_map. intros s. unfold aete_schema. destruct (fold_left _ (s_objects s) ([], [])). reflexivity.
Qed.
Lemma entry_leaf_nrfn ss : entry_leaf ss -> entry_leaf (not_required_field_as_nullable_type ss).
Proof.
  intros He s' Hs'. unfold not_required_field_as_nullable_type in Hs'. apply in_map_iff in Hs'. destruct Hs' as [s [<- Hs]].
  unfold visit_schema_t. simpl. pose proof (He s Hs) as Hl. destruct (s_entrytype s); simpl in *; try contradiction; exact I.
Qed.
Lemma entry_leaf_pev ss out : entry_leaf ss -> prefix_enum_values ss = Ok out -> entry_leaf out.
Proof.
  intros He H s' Hs'. unfold prefix_enum_values in H.
  destruct (Forall2_in_r _ _ _ (mapM_Forall2 _ _ _ H) s' Hs') as [s [Hs HF]].
  rewrite map_objects_res_eq in HF. destruct (mor_loop pev_object (s_objects s) []) as [objs| | |]; simpl in HF; try discriminate.
  inversion HF; subst. simpl. apply He. assumption.
Qed.
Lemma entry_leaf_doaste ss out : entry_leaf ss -> disjunction_of_anonymous_structs_to_explicit ss = Ok out -> entry_leaf out.
Proof.
  intros He H s' Hs'. unfold disjunction_of_anonymous_structs_to_explicit in H.
  destruct (Forall2_in_r _ _ _ (mapM_Forall2 _ _ _ H) s' Hs') as [s [Hs HF]].
  rewrite visit_schema_st_eq in HF. cbn [bind] in HF. rewrite (doaste_leaf _ _ _ (He s Hs)) in HF. simpl in HF.
  destruct (vst_loop _ (s_objects s) [] []) as [[objs st]| | |]; simpl in HF; try discriminate.
  inversion HF; subst. simpl. apply He. assumption.
Qed.

(* ---------- NUF through the structure-preserving passes and DOASTE ---------- *)
Lemma nuf_flag t : any_sub p_nuf true t = false -> any_sub p_nuf false t = false.
Proof. intros H. rewrite (any_sub_inter_irrel p_nuf (fun _ _ _ => eq_refl) t false true). exact H. Qed.

Definition srel_nuf' := fun t t' inter (H : srel t t') => srel_nuf t t' inter H.

Theorem nuf_astn ss : all_clean p_nuf ss -> all_clean p_nuf (anonymous_structs_to_named ss).
Proof. apply astn_pres. exact srel_nuf'. Qed.
Theorem nuf_nrfn ss : all_clean p_nuf ss -> all_clean p_nuf (not_required_field_as_nullable_type ss).
Proof. apply nrfn_pres. exact srel_nuf'. Qed.
Theorem nuf_aete ss : all_clean p_nuf ss -> all_clean p_nuf (anonymous_enum_to_explicit_type ss).
Proof. apply aete_pres; [exact srel_nuf'|reflexivity]. Qed.
Theorem nuf_pev ss out : all_clean p_nuf ss -> prefix_enum_values ss = Ok out -> all_clean p_nuf out.
Proof. apply pev_pres. reflexivity. Qed.
Theorem nuf_doaste ss out : entry_leaf ss -> all_clean p_nuf ss ->
  disjunction_of_anonymous_structs_to_explicit ss = Ok out -> all_clean p_nuf out.
Proof. intros He Hc. apply doaste_pres; try assumption; [exact srel_nuf'|exact nuf_flag]. Qed.

(* =====================================================================================
   the Go chain, part 1: no union and no `T | null` remain when no union is nested in a
   union branch (and entry-point types are plain references)
   ===================================================================================== *)
From Cog Require Import Gen.Chains_gen.

Lemma entry_simple_leaf ss : entry_simple ss = true -> entry_leaf ss.
Proof. unfold entry_simple. intros H s Hs. rewrite forallb_forall in H. apply is_leaf_b_spec. apply H. assumption. Qed.

Lemma entry_leaf_nuf ss : entry_leaf ss -> nested_union_entry ss = false.
Proof.
  intros He. unfold nested_union_entry. apply existsb_false_iff. intros s Hs. pose proof (He s Hs) as Hl.
  destruct (s_entrytype s); simpl in *; try contradiction; reflexivity.
Qed.

Lemma no_union_no_tnull ss : has_union ss = false -> has_t_or_null ss = false.
Proof.
  rewrite has_union_eq, has_t_or_null_eq. intros H. apply existsb_false_iff. intros o Ho.
  apply union_free_tnull. exact (proj1 (existsb_false_iff _ _) H o Ho).
Qed.

(* peel one pass off `process (p :: r) ss = Ok out` *)
Ltac step_total H :=
  match type of H with
  | process (?p :: ?r) ?ss = Ok ?out => change (process (p :: r) ss) with (do ss' <- run_pass p ss ; process r ss') in H;
                                         cbn [run_pass bind] in H
  end.
Ltac step_res H mid E :=
  match type of H with
  | process (?p :: ?r) ?ss = Ok ?out =>
      change (process (p :: r) ss) with (do ss' <- run_pass p ss ; process r ss') in H; cbn [run_pass] in H;
      match type of H with (do _ <- ?X ; _) = _ => destruct X as [mid| | |] eqn:E end; cbn [bind] in H; try discriminate
  end.

Theorem go_chain_no_union ss out :
  nested_union ss = false -> entry_simple ss = true -> process chain_go ss = Ok out ->
  has_union out = false /\ has_t_or_null out = false.
Proof.
  intros Hn He H. apply all_clean_iff in Hn. apply entry_simple_leaf in He. unfold chain_go in H.
  step_total H. pose proof (nuf_astn _ Hn) as N1. pose proof (entry_leaf_astn _ He) as E1.
  step_total H. pose proof (nuf_nrfn _ N1) as N2. pose proof (entry_leaf_nrfn _ E1) as E2.
  step_res H s3 P3. pose proof (nuf_dwnto _ _ N2 P3) as N3. pose proof (entry_leaf_v0 _ _ _ E2 P3) as E3.
  step_res H s4 P4. pose proof (nuf_docte _ _ N3 P4) as N4. pose proof (entry_leaf_v0 _ _ _ E3 P4) as E4.
  step_total H. pose proof (nuf_aete _ N4) as N5. pose proof (entry_leaf_aete _ E4) as E5.
  step_res H s6 P6. pose proof (nuf_pev _ _ N5 P6) as N6. pose proof (entry_leaf_pev _ _ E5 P6) as E6.
  step_res H s7 P7. pose proof (nuf_fd _ _ N6 P7) as N7. pose proof (entry_leaf_v0 _ _ _ E6 P7) as E7.
  step_res H s8 P8. pose proof (nuf_doaste _ _ E7 N7 P8) as N8. pose proof (entry_leaf_doaste _ _ E7 P8) as E8.
  step_res H s9 P9. pose proof (nuf_dim _ _ N8 P9) as N9. pose proof (entry_leaf_v0 _ _ _ E8 P9) as E9.
  step_res H s10 P10. pose proof (nuf_udta _ _ N9 P10) as N10. pose proof (entry_leaf_v0 _ _ _ E9 P10) as E10.
  step_res H s11 P11. simpl in H. inversion H; subst.
  assert (has_union out = false) as HU.
  { eapply dtt_establishes_no_union; [apply all_clean_iff; exact N10|apply entry_leaf_nuf; exact E10|exact P11]. }
  split; [exact HU|apply no_union_no_tnull; exact HU].
Qed.

(* =====================================================================================
   the stateless union passes, for predicates whose value at a union node does not depend on
   the branches, under NUI (no union inside an allOf composition): every union a pass rewrites
   then sits at a position outside compositions
   ===================================================================================== *)
Definition por (p q : bool -> ty -> bool) : bool -> ty -> bool := fun i t => p i t || q i t.

Lemma any_sub_or p q : forall t i, any_sub (por p q) i t = any_sub p i t || any_sub q i t.
Proof.
  induction t as [a d IH|a v IH|a vs IH|a x v IHi IHv|a dh fs IHd IHf|a pk n|a pk n v|a k v cs|a bs IH|a v|a k]
    using ty_ind'; intros i; unfold por; simpl; try (destruct (p i _), (q i _); reflexivity).
  - assert (existsb (any_sub (por p q) i) (d_branches d)
            = existsb (any_sub p i) (d_branches d) || existsb (any_sub q i) (d_branches d)) as E.
    { induction (d_branches d) as [|b r IHr]; [reflexivity|]. inversion IH as [|? ? Hb Hr]; subst. simpl. rewrite Hb, IHr by assumption.
      destruct (any_sub p i b), (any_sub q i b), (existsb (any_sub p i) r); reflexivity. }
    unfold por in E. rewrite E. destruct (p i (TDisj a d)), (q i (TDisj a d)), (existsb (any_sub p i) (d_branches d)); reflexivity.
  - unfold por in IH. rewrite IH. destruct (p i (TArray a v)), (q i (TArray a v)), (any_sub p i v); reflexivity.
  - unfold por in IHi, IHv. rewrite IHi, IHv.
    destruct (p i (TMap a x v)), (q i (TMap a x v)), (any_sub p i x), (any_sub q i x), (any_sub p i v); reflexivity.
  - assert (existsb (fun f => any_sub (por p q) i (f_type f)) fs
            = existsb (fun f => any_sub p i (f_type f)) fs || existsb (fun f => any_sub q i (f_type f)) fs) as E.
    { induction fs as [|f r IHr]; [reflexivity|]. inversion IHf as [|? ? Hf Hr]; subst. simpl. rewrite Hf, IHr by assumption.
      destruct (any_sub p i (f_type f)), (any_sub q i (f_type f)), (existsb (fun f => any_sub p i (f_type f)) r); reflexivity. }
    unfold por in E. rewrite E.
    destruct (p i (TStruct a dh fs)), (q i (TStruct a dh fs)), (existsb (fun f => any_sub p i (f_type f)) fs); reflexivity.
  - assert (existsb (any_sub (por p q) true) bs = existsb (any_sub p true) bs || existsb (any_sub q true) bs) as E.
    { induction bs as [|b r IHr]; [reflexivity|]. inversion IH as [|? ? Hb Hr]; subst. simpl. rewrite Hb, IHr by assumption.
      destruct (any_sub p true b), (any_sub q true b), (existsb (any_sub p true) r); reflexivity. }
    unfold por in E. rewrite E. destruct (p i (TInter a bs)), (q i (TInter a bs)), (existsb (any_sub p true) bs); reflexivity.
Qed.

Lemma any_sub_or_false p q t i : any_sub (por p q) i t = false <-> any_sub p i t = false /\ any_sub q i t = false.
Proof. rewrite any_sub_or. apply orb_false_iff. Qed.

Lemma any_below_or_false p q t : any_below (por p q) t = false <-> any_below p t = false /\ any_below q t = false.
Proof.
  unfold any_below. split.
  - intros H. split; apply existsb_false_iff; intros c Hc; pose proof (proj1 (existsb_false_iff _ _) H c Hc) as Hx;
      apply any_sub_or_false in Hx; destruct Hx; assumption.
  - intros [H1 H2]. apply existsb_false_iff. intros c Hc. apply any_sub_or_false.
    split; [exact (proj1 (existsb_false_iff _ _) H1 c Hc)|exact (proj1 (existsb_false_iff _ _) H2 c Hc)].
Qed.

(* the below-the-root wrapper *)
Section V0Below.
  Variable p : bool -> ty -> bool.
  Hypothesis p_array : forall inter a v v', p inter (TArray a v) = false -> p inter (TArray a v') = false.
  Hypothesis p_map : forall inter a i v i' v', p inter (TMap a i v) = false -> p inter (TMap a i' v') = false.
  Hypothesis p_inter : forall inter a bs bs', p inter (TInter a bs) = false -> p inter (TInter a bs') = false.
  Hypothesis p_struct : forall inter a dh fs fs', p inter (TStruct a dh fs) = false -> p inter (TStruct a dh fs') = false.
  Variable f : schema -> ty -> res ty.

  Theorem v0_pres_below ss out :
    (forall s a d t1 i, In s ss -> all_clean_below p [s] -> f s (TDisj a d) = Ok t1 ->
                        (any_sub p i (TDisj a d) = false -> any_sub p i t1 = false) /\
                        (any_below p (TDisj a d) = false -> any_below p t1 = false)) ->
    all_clean_below p ss -> visit_schemas_disj0 f ss = Ok out -> all_clean_below p out.
  Proof.
    intros Hf Hc H o' Ho'.
    destruct (visit_schemas_disj0_objects _ _ _ _ H Ho') as [s [o [t' [Hs [Ho [Hv Heq]]]]]]. subst o'. simpl.
    pose proof (all_clean_below_single _ _ _ Hc Hs) as Hcs.
    apply visit_disj0_vrel in Hv.
    refine (proj1 (vrel_pres_below unit (lift0 (f s)) p p (fun _ _ => True) (fun _ => True)
                                   (fun _ _ _ => I) p_array p_map p_inter (fun i a dh fs fs' _ => p_struct i a dh fs fs') (fun _ _ _ X => X)
                                   _ tt (o_type o) t' tt _ Hv _ I)).
    - intros st a d t1 st1 i Hd Hcd _. apply lift0_inv in Hd. destruct (Hf s a d t1 i Hs Hcs Hd) as [X _].
      split; [apply X; assumption|split; exact I].
    - intros a d E Hd Hb _. rewrite E in Hd. apply lift0_inv in Hd. destruct (Hf s a d t' false Hs Hcs Hd) as [_ Y].
      split; [apply Y; rewrite <- E; assumption|exact I].
    - apply Hc. eapply objects_of_single; eassumption.
  Qed.
End V0Below.

Section UnderNui.
  Variable p : bool -> ty -> bool.
  Let c := por p_nui p.
  (* what is asked of p *)
  Hypothesis hp_array : forall inter a v v', p inter (TArray a v) = false -> p inter (TArray a v') = false.
  Hypothesis hp_map : forall inter a i v i' v', p inter (TMap a i v) = false -> p inter (TMap a i' v') = false.
  Hypothesis hp_inter : forall inter a bs bs', p inter (TInter a bs) = false -> p inter (TInter a bs') = false.
  Hypothesis hp_disj : forall inter a a' d d', p inter (TDisj a' d') = p inter (TDisj a d).
  Hypothesis hp_setnull : forall inter t b, p inter (set_nullable t b) = p inter t.

  Lemma c_array inter a v v' : c inter (TArray a v) = false -> c inter (TArray a v') = false.
  Proof. unfold c, por, p_nui. simpl. rewrite !andb_false_r. simpl. apply hp_array. Qed.
  Lemma c_map inter a i v i' v' : c inter (TMap a i v) = false -> c inter (TMap a i' v') = false.
  Proof. unfold c, por, p_nui. simpl. rewrite !andb_false_r. simpl. apply hp_map. Qed.
  Lemma c_inter inter a bs bs' : c inter (TInter a bs) = false -> c inter (TInter a bs') = false.
  Proof. unfold c, por, p_nui. simpl. rewrite !andb_false_r. simpl. apply hp_inter. Qed.
  Lemma c_setnull inter t b : c inter (set_nullable t b) = c inter t.
  Proof. unfold c, por. rewrite hp_setnull. destruct t; reflexivity. Qed.

  (* a visited union is outside compositions, and its branches are clean there *)
  Lemma union_case inter a d : any_sub c inter (TDisj a d) = false ->
    inter = false /\ p false (TDisj a d) = false /\ forall b, In b (d_branches d) -> any_sub c false b = false.
  Proof.
    intros H. simpl in H. apply orb_false_iff in H. destruct H as [Hn Hb].
    unfold c, por, p_nui in Hn. simpl in Hn. apply orb_false_iff in Hn. destruct Hn as [Hi Hp].
    rewrite andb_true_r in Hi. subst inter. split; [reflexivity|split; [assumption|]].
    exact (proj1 (existsb_false_iff _ _) Hb).
  Qed.
  Lemma rebuild_union a d bs' disc m :
    p false (TDisj a d) = false -> (forall b, In b bs' -> any_sub c false b = false) ->
    any_sub c false (TDisj a (mkDisj bs' disc m)) = false.
  Proof.
    intros Hp Hb. simpl. apply orb_false_iff. split; [|apply existsb_false_iff; assumption].
    unfold c, por, p_nui. simpl. rewrite (hp_disj false a a d (mkDisj bs' disc m)). assumption.
  Qed.
  Lemma rebuild_union_below a bs' disc m :
    (forall b, In b bs' -> any_sub c false b = false) -> any_below c (TDisj a (mkDisj bs' disc m)) = false.
  Proof. intros Hb. unfold any_below. simpl. rewrite existsb_map_eq. simpl. apply existsb_false_iff. assumption. Qed.
  Lemma below_branches a d : any_below c (TDisj a d) = false -> forall b, In b (d_branches d) -> any_sub c false b = false.
  Proof. unfold any_below. simpl. rewrite existsb_map_eq. simpl. intros H. exact (proj1 (existsb_false_iff _ _) H). Qed.

  Lemma pool_sub s : all_clean c [s] ->
    forall k o a' d', In (k, o) (s_objects s) -> o_type o = TDisj a' d' -> forall rb, In rb (d_branches d') -> any_sub c false rb = false.
  Proof.
    intros Hc k o a' d' Hin E rb Hrb. pose proof (Hc o (in_single_objects _ _ _ Hin)) as H. rewrite E in H.
    destruct (union_case _ _ _ H) as [_ [_ Hb]]. apply Hb. assumption.
  Qed.
  Lemma pool_below s : all_clean_below c [s] ->
    forall k o a' d', In (k, o) (s_objects s) -> o_type o = TDisj a' d' -> forall rb, In rb (d_branches d') -> any_sub c false rb = false.
  Proof.
    intros Hc k o a' d' Hin E rb Hrb. pose proof (Hc o (in_single_objects _ _ _ Hin)) as H. rewrite E in H.
    eapply below_branches; eassumption.
  Qed.

  (* the result of each callback on a clean union outside compositions *)
  Definition leaf_ok (t : ty) : Prop := forall i, any_sub c i t = false.

  Lemma dwnto_result a d t1 :
    dwnto_disj (TDisj a d) = Ok t1 -> p false (TDisj a d) = false -> (forall b, In b (d_branches d) -> any_sub c false b = false) ->
    any_sub c false t1 = false /\ any_below c t1 = false /\ keeps_nullable (TDisj a d) t1.
  Proof.
    intros Hd Hp Hb. destruct (dwnto_disj_shape _ _ _ Hd) as [->|[b [Hin [_ ->]]]].
    - split; [destruct d; eapply rebuild_union; [eassumption|assumption]|split; [destruct d; apply rebuild_union_below; assumption|intros X; exact X]].
    - assert (any_sub c false (set_nullable b true) = false) as Hs.
      { rewrite any_sub_set_nullable_gen; [apply Hb; assumption|apply c_setnull]. }
      split; [assumption|split; [apply any_below_of_sub; assumption|]]. intros _. destruct b; reflexivity.
  Qed.
  Lemma docte_result ss a d t1 :
    (forall i a0 vs, p i (TEnum a0 vs) = false) ->
    docte_disj ss (TDisj a d) = Ok t1 -> p false (TDisj a d) = false -> (forall b, In b (d_branches d) -> any_sub c false b = false) ->
    any_sub c false t1 = false /\ any_below c t1 = false /\ keeps_nullable (TDisj a d) t1.
  Proof.
    intros He Hd Hp Hb. destruct (docte_disj_shape _ _ _ _ Hd) as [->|[vs ->]].
    - split; [destruct d; eapply rebuild_union; [eassumption|assumption]|split; [destruct d; apply rebuild_union_below; assumption|intros X; exact X]].
    - split; [|split; [reflexivity|intros X; exact X]]. simpl. unfold c, por, p_nui. simpl. rewrite He. reflexivity.
  Qed.
  Lemma fd_result s a d t1 :
    (forall k o a' d', In (k, o) (s_objects s) -> o_type o = TDisj a' d' -> forall rb, In rb (d_branches d') -> any_sub c false rb = false) ->
    fd_disj s (TDisj a d) = Ok t1 -> p false (TDisj a d) = false -> (forall b, In b (d_branches d) -> any_sub c false b = false) ->
    any_sub c false t1 = false /\ any_below c t1 = false /\ keeps_nullable (TDisj a d) t1.
  Proof.
    intros Hpool Hd Hp Hb.
    destruct (fd_disj_branches (fun b => any_sub c false b = false) s a d t1 Hb Hpool Hd) as [bs' [-> Hbs']].
    split; [eapply rebuild_union; [eassumption|assumption]|split; [apply rebuild_union_below; assumption|intros X; exact X]].
  Qed.
  Lemma dim_result s a d t1 :
    dim_disj s (TDisj a d) = Ok t1 -> p false (TDisj a d) = false -> (forall b, In b (d_branches d) -> any_sub c false b = false) ->
    any_sub c false t1 = false /\ any_below c t1 = false /\ keeps_nullable (TDisj a d) t1.
  Proof.
    intros Hd Hp Hb. destruct (dim_disj_shape _ _ _ _ Hd) as [disc [m ->]].
    split; [eapply rebuild_union; [eassumption|assumption]|split; [apply rebuild_union_below; assumption|intros X; exact X]].
  Qed.
  Lemma udta_result s a d t1 :
    (forall i a0 k v cs, p i (TScalar a0 k v cs) = false) ->
    udta_disj s (TDisj a d) = Ok t1 -> p false (TDisj a d) = false -> (forall b, In b (d_branches d) -> any_sub c false b = false) ->
    any_sub c false t1 = false /\ any_below c t1 = false.
  Proof.
    intros Hs Hd Hp Hb. destruct (udta_disj_shape _ _ _ _ Hd) as [->|[-> _]].
    - split; [destruct d; eapply rebuild_union; [eassumption|assumption]|destruct d; apply rebuild_union_below; assumption].
    - split; [|reflexivity]. simpl. unfold c, por, p_nui. simpl. rewrite Hs. reflexivity.
  Qed.
End UnderNui.

Lemma all_clean_por p q ss : all_clean (por p q) ss <-> all_clean p ss /\ all_clean q ss.
Proof.
  split.
  - intros H. split; intros o Ho; pose proof (H o Ho) as Hx; apply any_sub_or_false in Hx; destruct Hx; assumption.
  - intros [H1 H2] o Ho. apply any_sub_or_false. split; [apply H1|apply H2]; assumption.
Qed.

(* ---- predicates checked at every position (root included) ---- *)
Section SubNui.
  Variable p : bool -> ty -> bool.
  Hypothesis hp_array : forall inter a v v', p inter (TArray a v) = false -> p inter (TArray a v') = false.
  Hypothesis hp_map : forall inter a i v i' v', p inter (TMap a i v) = false -> p inter (TMap a i' v') = false.
  Hypothesis hp_inter : forall inter a bs bs', p inter (TInter a bs) = false -> p inter (TInter a bs') = false.
  Hypothesis hp_disj : forall inter a a' d d', p inter (TDisj a' d') = p inter (TDisj a d).
  Hypothesis hp_setnull : forall inter t b, p inter (set_nullable t b) = p inter t.
  Hypothesis hp_struct : forall inter a dh fs fs',
      Forall2 (fun f f' => f_required f' = f_required f /\ keeps_nullable (f_type f) (f_type f')) fs fs' ->
      p inter (TStruct a dh fs) = false -> p inter (TStruct a dh fs') = false.
  Let c := por p_nui p.

  Lemma c_struct inter a dh fs fs' :
    Forall2 (fun f f' => f_required f' = f_required f /\ keeps_nullable (f_type f) (f_type f')) fs fs' ->
    c inter (TStruct a dh fs) = false -> c inter (TStruct a dh fs') = false.
  Proof. unfold c, por, p_nui. simpl. rewrite !andb_false_r. simpl. apply hp_struct. Qed.

  Lemma sub_nui_core (f : schema -> ty -> res ty) ss out :
    (forall s a d t1, In s ss -> all_clean c [s] -> f s (TDisj a d) = Ok t1 -> p false (TDisj a d) = false ->
                      (forall b, In b (d_branches d) -> any_sub c false b = false) ->
                      any_sub c false t1 = false /\ keeps_nullable (TDisj a d) t1) ->
    all_clean p_nui ss -> all_clean p ss -> visit_schemas_disj0 f ss = Ok out -> all_clean p_nui out /\ all_clean p out.
  Proof.
    intros Hf Hn Hc H. apply all_clean_por.
    refine (v0_pres c keeps_nullable keeps_nullable_attrs (c_array p hp_array) (c_map p hp_map) (c_inter p hp_inter) c_struct
                    f ss out _ (proj2 (all_clean_por _ _ _) (conj Hn Hc)) H).
    intros s a d t1 i Hs Hcs Hd Hcd. destruct (union_case p _ _ _ Hcd) as [-> [Hp Hb]]. eapply Hf; eassumption.
  Qed.

  Theorem dwnto_sub_nui ss out : all_clean p_nui ss -> all_clean p ss ->
    disjunction_with_null_to_optional ss = Ok out -> all_clean p_nui out /\ all_clean p out.
  Proof.
    intros Hn Hc H. unfold disjunction_with_null_to_optional in H. apply (sub_nui_core _ _ _ (fun s a d t1 _ _ Hd Hp Hb =>
      let X := dwnto_result p hp_disj hp_setnull a d t1 Hd Hp Hb in conj (proj1 X) (proj2 (proj2 X))) Hn Hc H).
  Qed.
  Theorem docte_sub_nui ss out : (forall i a0 vs, p i (TEnum a0 vs) = false) -> all_clean p_nui ss -> all_clean p ss ->
    disjunction_of_constants_to_enum ss = Ok out -> all_clean p_nui out /\ all_clean p out.
  Proof.
    intros He Hn Hc H. unfold disjunction_of_constants_to_enum in H. apply (sub_nui_core _ _ _ (fun s a d t1 _ _ Hd Hp Hb =>
      let X := docte_result p hp_disj ss a d t1 He Hd Hp Hb in conj (proj1 X) (proj2 (proj2 X))) Hn Hc H).
  Qed.
  Theorem fd_sub_nui ss out : all_clean p_nui ss -> all_clean p ss ->
    flatten_disjunctions ss = Ok out -> all_clean p_nui out /\ all_clean p out.
  Proof.
    intros Hn Hc H. unfold flatten_disjunctions in H. apply (sub_nui_core _ _ _ (fun s a d t1 _ Hcs Hd Hp Hb =>
      let X := fd_result p hp_disj s a d t1 (pool_sub p s Hcs) Hd Hp Hb in conj (proj1 X) (proj2 (proj2 X))) Hn Hc H).
  Qed.
  Theorem dim_sub_nui ss out : all_clean p_nui ss -> all_clean p ss ->
    disjunction_infer_mapping ss = Ok out -> all_clean p_nui out /\ all_clean p out.
  Proof.
    intros Hn Hc H. unfold disjunction_infer_mapping in H. apply (sub_nui_core _ _ _ (fun s a d t1 _ _ Hd Hp Hb =>
      let X := dim_result p hp_disj s a d t1 Hd Hp Hb in conj (proj1 X) (proj2 (proj2 X))) Hn Hc H).
  Qed.
End SubNui.

(* ---- predicates checked below the root of an object ---- *)
Section BelowNui.
  Variable p : bool -> ty -> bool.
  Hypothesis hp_array : forall inter a v v', p inter (TArray a v) = false -> p inter (TArray a v') = false.
  Hypothesis hp_map : forall inter a i v i' v', p inter (TMap a i v) = false -> p inter (TMap a i' v') = false.
  Hypothesis hp_inter : forall inter a bs bs', p inter (TInter a bs) = false -> p inter (TInter a bs') = false.
  Hypothesis hp_disj : forall inter a a' d d', p inter (TDisj a' d') = p inter (TDisj a d).
  Hypothesis hp_setnull : forall inter t b, p inter (set_nullable t b) = p inter t.
  Hypothesis hp_struct : forall inter a dh fs fs', p inter (TStruct a dh fs) = false -> p inter (TStruct a dh fs') = false.
  Let c := por p_nui p.

  Lemma c_struct_b inter a dh fs fs' : c inter (TStruct a dh fs) = false -> c inter (TStruct a dh fs') = false.
  Proof. unfold c, por, p_nui. simpl. rewrite !andb_false_r. simpl. apply hp_struct. Qed.

  Lemma all_clean_below_c ss : all_clean p_nui ss -> all_clean_below p ss -> all_clean_below c ss.
  Proof. intros Hn Hc o Ho. apply any_below_or_false. split; [apply any_below_of_sub; apply Hn; assumption|apply Hc; assumption]. Qed.

  Lemma below_nui_core (f : schema -> ty -> res ty) ss out :
    (forall s a d t1, In s ss -> all_clean_below c [s] -> f s (TDisj a d) = Ok t1 ->
                      (forall b, In b (d_branches d) -> any_sub c false b = false) ->
                      (p false (TDisj a d) = false -> any_sub c false t1 = false) /\ any_below c t1 = false) ->
    all_clean p_nui ss -> all_clean_below p ss -> visit_schemas_disj0 f ss = Ok out -> all_clean_below p out.
  Proof.
    intros Hf Hn Hc H.
    assert (all_clean_below c out) as Hout.
    { refine (v0_pres_below c (c_array p hp_array) (c_map p hp_map) (c_inter p hp_inter) c_struct_b f ss out _
                            (all_clean_below_c _ Hn Hc) H).
      intros s a d t1 i Hs Hcs Hd. split.
      - intros Hcd. destruct (union_case p _ _ _ Hcd) as [-> [Hp Hb]]. apply (proj1 (Hf s a d t1 Hs Hcs Hd Hb)). assumption.
      - intros Hbd. apply (proj2 (Hf s a d t1 Hs Hcs Hd (below_branches p a d Hbd))). }
    intros o Ho. exact (proj2 (proj1 (any_below_or_false _ _ _) (Hout o Ho))).
  Qed.

  Theorem dwnto_below_nui ss out : all_clean p_nui ss -> all_clean_below p ss ->
    disjunction_with_null_to_optional ss = Ok out -> all_clean_below p out.
  Proof.
    intros Hn Hc H. unfold disjunction_with_null_to_optional in H. apply (below_nui_core _ ss out) with (4 := H); try assumption.
    intros s a d t1 _ _ Hd Hb. destruct (dwnto_disj_shape _ _ _ Hd) as [->|[b [Hin [_ ->]]]].
    - split; [intros Hp; destruct d; eapply rebuild_union; [exact hp_disj|eassumption|assumption]|destruct d; apply rebuild_union_below; assumption].
    - assert (any_sub c false (set_nullable b true) = false) as Hs.
      { rewrite any_sub_set_nullable_gen; [apply Hb; assumption|apply (c_setnull p hp_setnull)]. }
      split; [intros _; assumption|apply any_below_of_sub; assumption].
  Qed.
  Theorem docte_below_nui ss out : all_clean p_nui ss -> all_clean_below p ss -> (forall i a0 vs, p i (TEnum a0 vs) = false) ->
    disjunction_of_constants_to_enum ss = Ok out -> all_clean_below p out.
  Proof.
    intros Hn Hc He H. unfold disjunction_of_constants_to_enum in H. apply (below_nui_core _ ss out) with (4 := H); try assumption.
    intros s a d t1 _ _ Hd Hb. destruct (docte_disj_shape _ _ _ _ Hd) as [->|[vs ->]].
    - split; [intros Hp; destruct d; eapply rebuild_union; [exact hp_disj|eassumption|assumption]|destruct d; apply rebuild_union_below; assumption].
    - split; [|reflexivity]. intros _. simpl. unfold c, por, p_nui. simpl. rewrite He. reflexivity.
  Qed.
  Theorem fd_below_nui ss out : all_clean p_nui ss -> all_clean_below p ss ->
    flatten_disjunctions ss = Ok out -> all_clean_below p out.
  Proof.
    intros Hn Hc H. unfold flatten_disjunctions in H. apply (below_nui_core _ ss out) with (4 := H); try assumption.
    intros s a d t1 _ Hcs Hd Hb.
    destruct (fd_disj_branches (fun b => any_sub c false b = false) s a d t1 Hb (pool_below p s Hcs) Hd) as [bs' [-> Hbs']].
    split; [intros Hp; eapply rebuild_union; [exact hp_disj|eassumption|assumption]|apply rebuild_union_below; assumption].
  Qed.
  Theorem dim_below_nui ss out : all_clean p_nui ss -> all_clean_below p ss ->
    disjunction_infer_mapping ss = Ok out -> all_clean_below p out.
  Proof.
    intros Hn Hc H. unfold disjunction_infer_mapping in H. apply (below_nui_core _ ss out) with (4 := H); try assumption.
    intros s a d t1 _ _ Hd Hb. destruct (dim_disj_shape _ _ _ _ Hd) as [disc [m ->]].
    split; [intros Hp; eapply rebuild_union; [exact hp_disj|eassumption|assumption]|apply rebuild_union_below; assumption].
  Qed.
  Theorem udta_below_nui ss out : all_clean p_nui ss -> all_clean_below p ss -> (forall i a0 k v cs, p i (TScalar a0 k v cs) = false) ->
    undiscriminated_disjunction_to_any ss = Ok out -> all_clean_below p out.
  Proof.
    intros Hn Hc Hs H. unfold undiscriminated_disjunction_to_any in H. apply (below_nui_core _ ss out) with (4 := H); try assumption.
    intros s a d t1 _ _ Hd Hb. destruct (udta_disj_shape _ _ _ _ Hd) as [->|[-> _]].
    - split; [intros Hp; destruct d; eapply rebuild_union; [exact hp_disj|eassumption|assumption]|destruct d; apply rebuild_union_below; assumption].
    - split; [|reflexivity]. intros _. simpl. unfold c, por, p_nui. simpl. rewrite Hs. reflexivity.
  Qed.
End BelowNui.

(* =====================================================================================
   instances: NUI itself, I1 (no anonymous struct), I2 (optional => nullable), I5 (no
   anonymous enum)
   ===================================================================================== *)
Ltac nui_side := try (intros; unfold p_nui, p_struct, p_enum, p_optnn in *; simpl in *; (reflexivity || assumption || apply andb_false_r));
                 try (intros ? x ?; destruct x; reflexivity).

Lemma nui_flag : forall t, any_sub p_nui true t = false -> any_sub p_nui false t = false.
Proof.
  induction t as [a d IH|a v IH|a vs IH|a x v IHi IHv|a dh fs IHd IHf|a pk n|a pk n v|a k v cs|a bs IH|a v|a k]
    using ty_ind'; simpl; intros H; try reflexivity.
  - discriminate.
  - apply IH. assumption.
  - apply orb_false_iff in H. destruct H as [H1 H2]. rewrite (IHi H1), (IHv H2). reflexivity.
  - apply existsb_false_iff. intros f Hf. rewrite Forall_forall in IHf. apply IHf; [assumption|].
    exact (proj1 (existsb_false_iff _ _) H f Hf).
  - assumption.
Qed.

Definition srel_nui' := fun t t' inter (H : srel t t') => srel_nui t t' inter H.
Definition srel_optnn' := fun t t' inter (H : srel t t') => srel_optnn t t' inter H.

(* NUI *)
Theorem nui_astn ss : all_clean p_nui ss -> all_clean p_nui (anonymous_structs_to_named ss).
Proof. apply astn_pres. exact srel_nui'. Qed.
Theorem nui_nrfn ss : all_clean p_nui ss -> all_clean p_nui (not_required_field_as_nullable_type ss).
Proof. apply nrfn_pres. exact srel_nui'. Qed.
Theorem nui_aete ss : all_clean p_nui ss -> all_clean p_nui (anonymous_enum_to_explicit_type ss).
Proof. apply aete_pres; [exact srel_nui'|reflexivity]. Qed.
Theorem nui_pev ss out : all_clean p_nui ss -> prefix_enum_values ss = Ok out -> all_clean p_nui out.
Proof. apply pev_pres. reflexivity. Qed.
Theorem nui_doaste ss out : entry_leaf ss -> all_clean p_nuf ss -> all_clean p_nui ss ->
  disjunction_of_anonymous_structs_to_explicit ss = Ok out -> all_clean p_nui out.
Proof. intros He Hn Hc. apply doaste_pres; try assumption; [exact srel_nui'|exact nui_flag]. Qed.
Theorem nui_dwnto ss out : all_clean p_nui ss -> disjunction_with_null_to_optional ss = Ok out -> all_clean p_nui out.
Proof. intros Hn H. eapply proj1. eapply (dwnto_sub_nui p_nui); try eassumption; nui_side. Qed.
Theorem nui_docte ss out : all_clean p_nui ss -> disjunction_of_constants_to_enum ss = Ok out -> all_clean p_nui out.
Proof. intros Hn H. eapply proj1. eapply (docte_sub_nui p_nui); try eassumption; nui_side. Qed.
Theorem nui_fd ss out : all_clean p_nui ss -> flatten_disjunctions ss = Ok out -> all_clean p_nui out.
Proof. intros Hn H. eapply proj1. eapply (fd_sub_nui p_nui); try eassumption; nui_side. Qed.
Theorem nui_dim ss out : all_clean p_nui ss -> disjunction_infer_mapping ss = Ok out -> all_clean p_nui out.
Proof. intros Hn H. eapply proj1. eapply (dim_sub_nui p_nui); try eassumption; nui_side. Qed.
Theorem nui_udta ss out : all_clean p_nui ss -> undiscriminated_disjunction_to_any ss = Ok out -> all_clean p_nui out.
Proof.
  intros Hn H. unfold undiscriminated_disjunction_to_any in H.
  refine (v0_pres p_nui (fun _ _ => True) (fun _ _ _ => I) _ _ _ _ _ ss out _ Hn H); nui_side.
  intros s a d t1 i _ _ Hd Hcd. split; [|exact I].
  destruct (udta_disj_shape _ _ _ _ Hd) as [->|[-> _]]; [assumption|]. unfold p_nui. simpl. rewrite andb_false_r. reflexivity.
Qed.

(* ---------- after AnonymousStructsToNamed, DisjunctionOfAnonymousStructsToExplicit has nothing
   to do: with no anonymous struct outside compositions and no union inside them, no union
   has a struct branch ---------- *)
Definition q_sb (_ : bool) (t : ty) : bool :=
  match t with TDisj _ d => existsb is_struct (d_branches d) | _ => false end.

Lemma nui_true_union : forall t, any_sub p_nui true t = false -> any_sub p_union true t = false.
Proof.
  induction t as [a d IH|a v IH|a vs IH|a x v IHi IHv|a dh fs IHd IHf|a pk n|a pk n v|a k v cs|a bs IH|a v|a k]
    using ty_ind'; simpl; intros H; try reflexivity.
  - discriminate.
  - apply IH. assumption.
  - apply orb_false_iff in H. destruct H as [H1 H2]. rewrite (IHi H1), (IHv H2). reflexivity.
  - apply existsb_false_iff. intros f Hf. rewrite Forall_forall in IHf. apply IHf; [assumption|].
    exact (proj1 (existsb_false_iff _ _) H f Hf).
  - apply existsb_false_iff. intros b Hb. rewrite Forall_forall in IH. apply IH; [assumption|].
    exact (proj1 (existsb_false_iff _ _) H b Hb).
Qed.

Lemma union_free_sb t i j : any_sub p_union i t = false -> any_sub q_sb j t = false.
Proof.
  intros H. rewrite (p_union_irrel t i j) in H. revert H. apply any_sub_weaken.
  intros x y Hy. destruct y; try reflexivity. discriminate.
Qed.

Lemma sb_from_struct_nui : forall t, any_sub p_struct false t = false -> any_sub p_nui false t = false -> any_sub q_sb false t = false.
Proof.
  induction t as [a d IH|a v IH|a vs IH|a x v IHi IHv|a dh fs IHd IHf|a pk n|a pk n v|a k v cs|a bs IH|a v|a k]
    using ty_ind'; simpl; intros Hs Hn; try reflexivity.
  - apply orb_false_iff. split.
    + apply existsb_false_iff. intros b Hb. pose proof (proj1 (existsb_false_iff _ _) Hs b Hb) as Hx.
      apply any_sub_below in Hx. exact Hx.
    + apply existsb_false_iff. intros b Hb. rewrite Forall_forall in IH.
      apply IH; [assumption|exact (proj1 (existsb_false_iff _ _) Hs b Hb)|exact (proj1 (existsb_false_iff _ _) Hn b Hb)].
  - apply IH; assumption.
  - apply orb_false_iff in Hs. destruct Hs as [S1 S2]. apply orb_false_iff in Hn. destruct Hn as [N1 N2].
    rewrite (IHi S1 N1), (IHv S2 N2). reflexivity.
  - discriminate.
  - apply existsb_false_iff. intros b Hb. eapply union_free_sb. apply nui_true_union.
    exact (proj1 (existsb_false_iff _ _) Hn b Hb).
Qed.

Lemma sb_from_struct_nui_root t : any_below p_struct t = false -> any_sub p_nui false t = false -> any_sub q_sb false t = false.
Proof.
  intros Hs Hn.
  destruct t as [a d|a v|a vs|a x v|a dh fs|a pk n|a pk n v|a k v cs|a bs|a v|a k]; unfold any_below in Hs; simpl in *; try reflexivity.
  - rewrite existsb_map_eq in Hs. simpl in Hs. apply orb_false_iff. split.
    + apply existsb_false_iff. intros b Hb. pose proof (proj1 (existsb_false_iff _ _) Hs b Hb) as Hx.
      apply any_sub_below in Hx. exact Hx.
    + apply existsb_false_iff. intros b Hb.
      apply sb_from_struct_nui; [exact (proj1 (existsb_false_iff _ _) Hs b Hb)|exact (proj1 (existsb_false_iff _ _) Hn b Hb)].
  - rewrite orb_false_r in Hs. apply sb_from_struct_nui; assumption.
  - rewrite orb_false_r in Hs. apply orb_false_iff in Hs. destruct Hs as [S1 S2]. apply orb_false_iff in Hn. destruct Hn as [N1 N2].
    rewrite (sb_from_struct_nui _ S1 N1), (sb_from_struct_nui _ S2 N2). reflexivity.
  - rewrite existsb_map_eq in Hs. simpl in Hs. apply existsb_false_iff. intros f Hf.
    apply sb_from_struct_nui; [exact (proj1 (existsb_false_iff _ _) Hs f Hf)|exact (proj1 (existsb_false_iff _ _) Hn f Hf)].
  - apply existsb_false_iff. intros b Hb. eapply union_free_sb. apply nui_true_union.
    exact (proj1 (existsb_false_iff _ _) Hn b Hb).
Qed.

Lemma q_sb_irrel t i j : any_sub q_sb i t = any_sub q_sb j t.
Proof. apply any_sub_inter_irrel. reflexivity. Qed.

Lemma doaste_branches_none pkg : forall l i st, existsb is_struct l = false -> doaste_branches pkg i l st = (l, st).
Proof.
  induction l as [|b r IH]; intros i st H; [reflexivity|]. simpl in H. apply orb_false_iff in H. destruct H as [Hb Hr].
  simpl. destruct b; try discriminate; rewrite (IH (S i) st Hr); reflexivity.
Qed.

Lemma doaste_id2 pkg : forall t st, any_sub q_sb false t = false -> doaste_ty pkg st t = (t, st).
Proof.
  induction t as [a d IH|a v IH|a vs IH|a i v IHi IHv|a dh fs IHd IHf|a pk n|a pk n v|a k v cs|a bs IH|a v|a k]
    using ty_ind'; intros st H; try reflexivity.
  - rewrite doaste_disj. destruct (_ && _); [reflexivity|]. simpl in H. apply orb_false_iff in H. destruct H as [H1 _].
    rewrite (doaste_branches_none pkg _ 0 st H1). simpl. destruct d; reflexivity.
  - rewrite doaste_array. simpl in H. rewrite (IH st H). reflexivity.
  - rewrite doaste_map. simpl in H. apply orb_false_iff in H. destruct H as [Hi Hv].
    rewrite (IHi st Hi). simpl. rewrite (IHv st Hv). reflexivity.
  - rewrite doaste_struct. simpl in H.
    assert (doaste_fields pkg fs st = (fs, st)) as E.
    { revert st. induction fs as [|f r IHr]; intros st; [reflexivity|]. simpl.
      inversion IHf as [|? ? Hf Hr]; subst. simpl in H. apply orb_false_iff in H. destruct H as [H1 H2].
      rewrite (Hf st H1). rewrite (IHr Hr H2 st). destruct f; reflexivity. }
    rewrite E. reflexivity.
  - rewrite doaste_inter. simpl in H.
    assert (doaste_list pkg bs st = (bs, st)) as E.
    { revert st. induction bs as [|b r IHr]; intros st; [reflexivity|]. simpl.
      inversion IH as [|? ? Hb Hr]; subst. simpl in H. apply orb_false_iff in H. destruct H as [H1 H2].
      rewrite (q_sb_irrel b true false) in H1. rewrite (Hb st H1). rewrite (IHr Hr H2 st). reflexivity. }
    rewrite E. reflexivity.
Qed.

Theorem doaste_noop ss out :
  all_clean_below p_struct ss -> all_clean p_nui ss -> entry_leaf ss ->
  disjunction_of_anonymous_structs_to_explicit ss = Ok out ->
  forall o', In o' (objects_of out) -> In o' (objects_of ss).
Proof.
  intros Hs Hn He H o' Ho'. unfold disjunction_of_anonymous_structs_to_explicit in H.
  destruct (in_objects_of_mapM _ _ _ _ H Ho') as [s [s' [k [Hin [HF Hko]]]]].
  assert (forall k0 o0, In (k0, o0) (s_objects s) -> any_sub q_sb false (o_type o0) = false) as Hobj.
  { intros k0 o0 Hx. assert (In o0 (objects_of ss)) as Hy by (apply in_objects_of; exists s, k0; split; assumption).
    apply sb_from_struct_nui_root; [apply Hs|apply Hn]; assumption. }
  destruct (visit_schema_st_objects [] (fun st t => Ok (doaste_ty (s_pkg s) st t)) (map snd)
              (fun t => is_leaf t \/ any_sub q_sb false t = false) (fun st => st = []) s s') as [final [HQf Hobjs]]; try assumption.
  - intros st t t' st' HC Hv HQ. inversion Hv as [Hv']. destruct HC as [Hl|Hc].
    + rewrite (doaste_leaf _ _ _ Hl) in Hv'. inversion Hv'; subst. reflexivity.
    + rewrite (doaste_id2 _ _ _ Hc) in Hv'. inversion Hv'; subst. reflexivity.
  - reflexivity.
  - left. apply He. assumption.
  - intros [k0 o0] Hx. right. apply (Hobj k0 o0 Hx).
  - destruct (Hobjs k o' Hko) as [[[k0 o0] [st [t' [st' [Hx [HQ [Hv Heq]]]]]]]|Hnew].
    + simpl in *. inversion Hv as [Hv']. rewrite (doaste_id2 _ _ _ (Hobj k0 o0 Hx)) in Hv'. inversion Hv'; subst.
      assert (set_otype o0 (o_type o0) = o0) as E by (destruct o0; reflexivity). rewrite E.
      apply in_objects_of. exists s, k0. split; assumption.
    + subst final. contradiction.
Qed.

(* ---------- DisjunctionToType, under NUI ---------- *)
Definition dtt_fields (bs : list ty) : list field :=
  map (fun b => mkField (type_name b) [] (set_nullable b true) false) (filter (fun b => negb (is_null b)) bs).

Lemma dtt_disj_class s st a d t' st' : dtt_disj s st (TDisj a d) = Ok (t', st') ->
  is_simple t' /\ keeps_nullable (TDisj a d) t' /\
  (st' = st \/ exists name attrs dh, st' = objs_set st name (new_object (s_pkg s) name (TStruct attrs dh (dtt_fields (d_branches d))))).
Proof.
  intros H. unfold dtt_disj in H.
  destruct (single_type_scalars s (d_branches d)) as [[k|]| | |]; simpl in H; try discriminate.
  - inversion H; subst. split; [exact I|split; [intros X; exact X|left; reflexivity]].
  - assert (forall x n, keeps_nullable (TDisj a d) (TRef (mk_attrs (nullable a || has_null_type (d_branches d)) DNil (hints a)) x n)) as Hk.
    { intros x n Hn. simpl in *. rewrite Hn. reflexivity. }
    match type of H with context [objs_has st ?n] => destruct (objs_has st n) end.
    + inversion H; subst. split; [exact I|split; [apply Hk|left; reflexivity]].
    + match type of H with (do _ <- ?X ; _) = _ => destruct X as [dh| | |] end; simpl in H; try discriminate.
      inversion H; subst. split; [exact I|split; [apply Hk|]]. right. eexists. eexists. eexists. reflexivity.
Qed.

Lemma visit_disj_leaf {S} (f : S -> ty -> res (ty * S)) st t : is_leaf t -> visit_disj f st t = Ok (t, st).
Proof. destruct t; simpl; intros H; try contradiction; reflexivity. Qed.

Section DttBelow.
  Variable p : bool -> ty -> bool.
  Hypothesis hp_array : forall inter a v v', p inter (TArray a v) = false -> p inter (TArray a v') = false.
  Hypothesis hp_map : forall inter a i v i' v', p inter (TMap a i v) = false -> p inter (TMap a i' v') = false.
  Hypothesis hp_inter : forall inter a bs bs', p inter (TInter a bs) = false -> p inter (TInter a bs') = false.
  Hypothesis hp_setnull : forall inter t b, p inter (set_nullable t b) = p inter t.
  Hypothesis hp_struct : forall inter a dh fs fs', p inter (TStruct a dh fs) = false -> p inter (TStruct a dh fs') = false.
  Hypothesis hp_simple : forall inter l, is_simple l -> p inter l = false.
  Let c := por p_nui p.
  Let Q (st : list (string * object)) : Prop := forall k o, In (k, o) st -> any_below p (o_type o) = false.

  Lemma c_simple inter l : is_simple l -> any_sub c inter l = false.
  Proof.
    intros Hl. destruct l; simpl in Hl; try contradiction; simpl; unfold c, por, p_nui; simpl;
      rewrite andb_false_r, hp_simple by exact I; reflexivity.
  Qed.

  Lemma dtt_step s st a d t' st' :
    dtt_disj s st (TDisj a d) = Ok (t', st') -> (forall b, In b (d_branches d) -> any_sub c false b = false) -> Q st ->
    (forall i, any_sub c i t' = false) /\ any_below c t' = false /\ Q st'.
  Proof.
    intros Hd Hb HQ. destruct (dtt_disj_class _ _ _ _ _ _ Hd) as [Hs [_ Hst]].
    split; [intros i; apply c_simple; assumption|split; [destruct t'; simpl in Hs; try contradiction; reflexivity|]].
    destruct Hst as [->|[name [attrs [dh ->]]]]; [assumption|].
    intros k o Hin. apply objs_set_in_inv in Hin. destruct Hin as [Hin|Heq]; [eapply HQ; eassumption|subst o].
    unfold any_below, dtt_fields. simpl. rewrite !existsb_map_eq. simpl. apply existsb_false_iff. intros b Hbin.
    apply filter_In in Hbin. destruct Hbin as [Hbin _].
    rewrite any_sub_set_nullable_gen; [|apply hp_setnull].
    exact (proj2 (proj1 (any_sub_or_false _ _ _ _) (Hb b Hbin))).
  Qed.

  Lemma dtt_visit_below s st t t' st' :
    visit_disj (dtt_disj s) st t = Ok (t', st') -> any_sub p_nui false t = false -> any_below p t = false -> Q st ->
    any_below p t' = false /\ Q st'.
  Proof.
    intros Hv Hn Hp HQ. apply visit_disj_vrel in Hv.
    assert (any_below c t = false) as Hc by (apply any_below_or_false; split; [apply any_below_of_sub; assumption|assumption]).
    assert (any_below c t' = false /\ Q st') as [H1 H2]; [|split; [exact (proj2 (proj1 (any_below_or_false _ _ _) H1))|assumption]].
    refine (vrel_pres_below _ (dtt_disj s) c c (fun _ _ => True) Q (fun _ _ _ => I)
                            (c_array p hp_array) (c_map p hp_map) (c_inter p hp_inter)
                            (fun i a dh fs fs' _ => c_struct_b p hp_struct i a dh fs fs') (fun _ _ _ X => X)
                            _ st t t' st' _ Hv Hc HQ).
    - intros st0 a d t1 st1 i Hd Hcd HQ0. simpl in Hcd. apply orb_false_iff in Hcd. destruct Hcd as [Hnode Hb].
      assert (i = false) as ->.
      { unfold c, por, p_nui in Hnode. simpl in Hnode. apply orb_false_iff in Hnode. destruct Hnode as [Hi _].
        rewrite andb_true_r in Hi. exact Hi. }
      destruct (dtt_step _ _ _ _ _ _ Hd (proj1 (existsb_false_iff _ _) Hb) HQ0) as [X [_ Z]]. split; [apply X|split; [exact I|assumption]].
    - intros a d E Hd Hb HQ0. subst t.
      destruct (dtt_step _ _ _ _ _ _ Hd (below_branches p a d Hb) HQ0) as [_ [Y Z]]. split; assumption.
  Qed.

  Theorem dtt_below_nui ss out :
    all_clean p_nui ss -> all_clean_below p ss -> entry_leaf ss -> disjunction_to_type ss = Ok out -> all_clean_below p out.
  Proof.
    intros Hn Hc He H o' Ho'. unfold disjunction_to_type in H.
    destruct (in_objects_of_mapM _ _ _ _ H Ho') as [s [s' [k [Hs [HF Hko]]]]].
    assert (forall k0 o0, In (k0, o0) (s_objects s) -> any_sub p_nui false (o_type o0) = false /\ any_below p (o_type o0) = false) as Hobj.
    { intros k0 o0 Hin. assert (In o0 (objects_of ss)) as Hx by (apply in_objects_of; exists s, k0; split; assumption).
      split; [apply Hn|apply Hc]; assumption. }
    destruct (visit_schema_st_objects [] (visit_disj (dtt_disj s)) (map snd)
                (fun t => is_leaf t \/ (any_sub p_nui false t = false /\ any_below p t = false)) Q s s') as [final [HQf Hobjs]]; try assumption.
    - intros st t t' st' HC Hv HQ. destruct HC as [Hl|[A B]].
      + rewrite (visit_disj_leaf _ _ _ Hl) in Hv. inversion Hv; subst. assumption.
      + exact (proj2 (dtt_visit_below _ _ _ _ _ Hv A B HQ)).
    - intros k0 o0 [].
    - left. apply He. assumption.
    - intros [k0 o0] Hin. right. apply (Hobj k0 o0 Hin).
    - destruct (Hobjs k o' Hko) as [[[k0 o0] [st [t' [st' [Hin [HQ [Hv Heq]]]]]]]|Hnew].
      + subst o'. simpl in *. destruct (Hobj k0 o0 Hin) as [A B]. exact (proj1 (dtt_visit_below _ _ _ _ _ Hv A B HQ)).
      + apply in_map_iff in Hnew. destruct Hnew as [[k1 o1] [Heq Hin]]. simpl in Heq. subst o1. exact (HQf k1 o' Hin).
  Qed.
End DttBelow.

Section DttSub.
  Variable p : bool -> ty -> bool.
  Hypothesis hp_array : forall inter a v v', p inter (TArray a v) = false -> p inter (TArray a v') = false.
  Hypothesis hp_map : forall inter a i v i' v', p inter (TMap a i v) = false -> p inter (TMap a i' v') = false.
  Hypothesis hp_inter : forall inter a bs bs', p inter (TInter a bs) = false -> p inter (TInter a bs') = false.
  Hypothesis hp_setnull : forall inter t b, p inter (set_nullable t b) = p inter t.
  Hypothesis hp_struct : forall inter a dh fs fs',
      Forall2 (fun f f' => f_required f' = f_required f /\ keeps_nullable (f_type f) (f_type f')) fs fs' ->
      p inter (TStruct a dh fs) = false -> p inter (TStruct a dh fs') = false.
  Hypothesis hp_simple : forall inter l, is_simple l -> p inter l = false.
  Hypothesis hp_new : forall attrs dh bs, p false (TStruct attrs dh (dtt_fields bs)) = false.
  Let c := por p_nui p.
  Let Q (st : list (string * object)) : Prop := forall k o, In (k, o) st -> any_sub p false (o_type o) = false.

  Lemma dtt_step_sub s st a d t' st' :
    dtt_disj s st (TDisj a d) = Ok (t', st') -> (forall b, In b (d_branches d) -> any_sub c false b = false) -> Q st ->
    (forall i, any_sub c i t' = false) /\ keeps_nullable (TDisj a d) t' /\ Q st'.
  Proof.
    intros Hd Hb HQ. destruct (dtt_disj_class _ _ _ _ _ _ Hd) as [Hs [Hk Hst]].
    split; [intros i; apply (c_simple p hp_simple); assumption|split; [assumption|]].
    destruct Hst as [->|[name [attrs [dh ->]]]]; [assumption|].
    intros k o Hin. apply objs_set_in_inv in Hin. destruct Hin as [Hin|Heq]; [eapply HQ; eassumption|subst o].
    simpl. rewrite hp_new. simpl. unfold dtt_fields. rewrite existsb_map_eq. simpl. apply existsb_false_iff. intros b Hbin.
    apply filter_In in Hbin. destruct Hbin as [Hbin _].
    rewrite any_sub_set_nullable_gen; [|apply hp_setnull].
    exact (proj2 (proj1 (any_sub_or_false _ _ _ _) (Hb b Hbin))).
  Qed.

  Lemma dtt_visit_sub s st t t' st' :
    visit_disj (dtt_disj s) st t = Ok (t', st') -> any_sub p_nui false t = false -> any_sub p false t = false -> Q st ->
    any_sub p false t' = false /\ Q st'.
  Proof.
    intros Hv Hn Hp HQ. apply visit_disj_vrel in Hv.
    assert (any_sub c false t = false) as Hc by (apply any_sub_or_false; split; assumption).
    assert (any_sub c false t' = false /\ keeps_nullable t t' /\ Q st') as [H1 [_ H2]];
      [|split; [exact (proj2 (proj1 (any_sub_or_false _ _ _ _) H1))|assumption]].
    refine (vrel_pres _ (dtt_disj s) c c keeps_nullable Q keeps_nullable_attrs
                      (c_array p hp_array) (c_map p hp_map) (c_inter p hp_inter) (c_struct p hp_struct) (fun _ _ _ X => X)
                      _ st t t' st' false Hv Hc HQ).
    intros st0 a d t1 st1 i Hd Hcd HQ0. simpl in Hcd. apply orb_false_iff in Hcd. destruct Hcd as [Hnode Hb].
    destruct (dtt_step_sub _ _ _ _ _ _ Hd) with (2 := HQ0) as [X [Y Z]].
    - assert (i = false) as ->.
      { unfold c, por, p_nui in Hnode. simpl in Hnode. apply orb_false_iff in Hnode. destruct Hnode as [Hi _].
        rewrite andb_true_r in Hi. exact Hi. }
      exact (proj1 (existsb_false_iff _ _) Hb).
    - split; [apply X|split; assumption].
  Qed.

  Theorem dtt_sub_nui ss out :
    all_clean p_nui ss -> all_clean p ss -> entry_leaf ss -> disjunction_to_type ss = Ok out -> all_clean p out.
  Proof.
    intros Hn Hc He H o' Ho'. unfold disjunction_to_type in H.
    destruct (in_objects_of_mapM _ _ _ _ H Ho') as [s [s' [k [Hs [HF Hko]]]]].
    assert (forall k0 o0, In (k0, o0) (s_objects s) -> any_sub p_nui false (o_type o0) = false /\ any_sub p false (o_type o0) = false) as Hobj.
    { intros k0 o0 Hin. assert (In o0 (objects_of ss)) as Hx by (apply in_objects_of; exists s, k0; split; assumption).
      split; [apply Hn|apply Hc]; assumption. }
    destruct (visit_schema_st_objects [] (visit_disj (dtt_disj s)) (map snd)
                (fun t => is_leaf t \/ (any_sub p_nui false t = false /\ any_sub p false t = false)) Q s s') as [final [HQf Hobjs]]; try assumption.
    - intros st t t' st' HC Hv HQ. destruct HC as [Hl|[A B]].
      + rewrite (visit_disj_leaf _ _ _ Hl) in Hv. inversion Hv; subst. assumption.
      + exact (proj2 (dtt_visit_sub _ _ _ _ _ Hv A B HQ)).
    - intros k0 o0 [].
    - left. apply He. assumption.
    - intros [k0 o0] Hin. right. apply (Hobj k0 o0 Hin).
    - destruct (Hobjs k o' Hko) as [[[k0 o0] [st [t' [st' [Hin [HQ [Hv Heq]]]]]]]|Hnew].
      + subst o'. simpl in *. destruct (Hobj k0 o0 Hin) as [A B]. exact (proj1 (dtt_visit_sub _ _ _ _ _ Hv A B HQ)).
      + apply in_map_iff in Hnew. destruct Hnew as [[k1 o1] [Heq Hin]]. simpl in Heq. subst o1. exact (HQf k1 o' Hin).
  Qed.
End DttSub.

(* ---------- I6: the later Go passes neither touch nor create enum objects ---------- *)
Definition enums_from (ss out : schemas) : Prop :=
  forall o', In o' (objects_of out) -> is_enum (o_type o') = true -> In o' (objects_of ss).

Lemma prefix_back ss out : go_unprefixed_member ss = false -> enums_from ss out -> go_unprefixed_member out = false.
Proof.
  unfold go_unprefixed_member. intros H Hb. apply existsb_false_iff. intros o' Ho'.
  destruct (is_enum (o_type o')) eqn:E.
  - exact (proj1 (existsb_false_iff _ _) H o' (Hb o' Ho' E)).
  - unfold enum_members. destruct (o_type o'); try reflexivity. discriminate.
Qed.

Lemma set_otype_same o : set_otype o (o_type o) = o.
Proof. destruct o; reflexivity. Qed.

Lemma vrel_enum_root {S} (f : S -> ty -> res (ty * S)) st t t' st' :
  (forall st0 a d t1 st1, f st0 (TDisj a d) = Ok (t1, st1) -> is_enum t1 = false) ->
  vrel f st t t' st' -> is_enum t' = true -> t' = t.
Proof.
  intros Hf H He. destruct H as [? ? ? ? ? ?|? ? ? ? ? ? ? ? ? ?|? ? ? ? ? ? ?|? ? ? ? ? ?|st0 a d t1 st1 Hd|? ? ?];
    try discriminate; [|reflexivity].
  rewrite (Hf _ _ _ _ _ Hd) in He. discriminate.
Qed.

Lemma v0_enums_from f ss out :
  (forall s a d t1, f s (TDisj a d) = Ok t1 -> is_enum t1 = false) ->
  visit_schemas_disj0 f ss = Ok out -> enums_from ss out.
Proof.
  intros Hf H o' Ho' He.
  destruct (visit_schemas_disj0_objects _ _ _ _ H Ho') as [s [o [t' [Hs [Ho [Hv Heq]]]]]]. subst o'. simpl in He.
  apply visit_disj0_vrel in Hv.
  assert (t' = o_type o) as ->.
  { eapply vrel_enum_root; [|exact Hv|exact He]. intros st0 a d t1 st1 Hd. apply lift0_inv in Hd. eapply Hf; eassumption. }
  rewrite set_otype_same. eapply objects_of_single; eassumption.
Qed.

Lemma enums_from_fd ss out : flatten_disjunctions ss = Ok out -> enums_from ss out.
Proof.
  apply v0_enums_from. intros s a d t1 Hd.
  destruct (fd_disj_branches (fun _ => True) s a d t1 (fun _ _ => I) (fun _ _ _ _ _ _ _ _ => I) Hd) as [bs' [-> _]]. reflexivity.
Qed.
Lemma enums_from_dim ss out : disjunction_infer_mapping ss = Ok out -> enums_from ss out.
Proof. apply v0_enums_from. intros s a d t1 Hd. destruct (dim_disj_shape _ _ _ _ Hd) as [disc [m ->]]. reflexivity. Qed.
Lemma enums_from_udta ss out : undiscriminated_disjunction_to_any ss = Ok out -> enums_from ss out.
Proof. apply v0_enums_from. intros s a d t1 Hd. destruct (udta_disj_shape _ _ _ _ Hd) as [->|[-> _]]; reflexivity. Qed.

Lemma vrel_state_inv {S} (f : S -> ty -> res (ty * S)) (Q : S -> Prop) :
  (forall st a d t1 st1, f st (TDisj a d) = Ok (t1, st1) -> Q st -> Q st1) ->
  forall st t t' st', vrel f st t t' st' -> Q st -> Q st'.
Proof.
  intros Hf.
  assert ((forall st t t' st', vrel f st t t' st' -> Q st -> Q st') /\
          (forall st fs fs' st', vrel_fields f st fs fs' st' -> Q st -> Q st') /\
          (forall st bs bs' st', vrel_list f st bs bs' st' -> Q st -> Q st')) as G.
  { apply vrel_mutind.
    - intros st a v v' st' _ IH. exact IH.
    - intros st a i v i' v' st1 st2 _ IHi _ IHv HQ. apply IHv. apply IHi. exact HQ.
    - intros st a dh fs fs' st' _ IH. exact IH.
    - intros st a bs bs' st' _ IH. exact IH.
    - intros st a d t' st' Hd HQ. eapply Hf; eassumption.
    - intros st t _ HQ. exact HQ.
    - intros st HQ. exact HQ.
    - intros st f0 t' st1 r r' st2 _ IHt _ IHr HQ. apply IHr. apply IHt. exact HQ.
    - intros st HQ. exact HQ.
    - intros st b b' st1 r r' st2 _ IHb _ IHr HQ. apply IHr. apply IHb. exact HQ. }
  exact (proj1 G).
Qed.

Lemma enums_from_dtt ss out : disjunction_to_type ss = Ok out -> enums_from ss out.
Proof.
  intros H o' Ho' He. unfold disjunction_to_type in H.
  destruct (in_objects_of_mapM _ _ _ _ H Ho') as [s [s' [k [Hs [HF Hko]]]]].
  set (Q := fun st : list (string * object) => forall k o, In (k, o) st -> is_enum (o_type o) = false).
  assert (forall st a d t1 st1, dtt_disj s st (TDisj a d) = Ok (t1, st1) -> is_enum t1 = false /\ (Q st -> Q st1)) as Hstep.
  { intros st a d t1 st1 Hd. destruct (dtt_disj_class _ _ _ _ _ _ Hd) as [Hsimple [_ Hst]].
    split; [destruct t1; simpl in Hsimple; try contradiction; reflexivity|].
    intros HQ. destruct Hst as [->|[name [attrs [dh ->]]]]; [assumption|].
    intros k0 o0 Hin. apply objs_set_in_inv in Hin. destruct Hin as [Hin|Heq]; [eapply HQ; eassumption|subst o0; reflexivity]. }
  destruct (visit_schema_st_objects [] (visit_disj (dtt_disj s)) (map snd) (fun _ => True) Q s s') as [final [HQf Hobjs]]; try assumption; try exact I.
  - intros st t t' st' _ Hv HQ. apply visit_disj_vrel in Hv.
    eapply (vrel_state_inv (dtt_disj s) Q); [|exact Hv|exact HQ].
    intros st0 a d t1 st1 Hd. exact (proj2 (Hstep _ _ _ _ _ Hd)).
  - intros k0 o0 [].
  - intros ko _. exact I.
  - destruct (Hobjs k o' Hko) as [[[k0 o0] [st [t' [st' [Hin [HQ [Hv Heq]]]]]]]|Hnew].
    + subst o'. simpl in *. apply visit_disj_vrel in Hv.
      assert (t' = o_type o0) as ->.
      { eapply vrel_enum_root; [|exact Hv|exact He]. intros st0 a d t1 st1 Hd. exact (proj1 (Hstep _ _ _ _ _ Hd)). }
      rewrite set_otype_same. apply in_objects_of. exists s, k0. split; assumption.
    + apply in_map_iff in Hnew. destruct Hnew as [[k1 o1] [Heq Hin]]. simpl in Heq. subst o1.
      rewrite (HQf k1 o' Hin) in He. discriminate.
Qed.

(* ---------- I2 through UndiscriminatedDisjunctionToAny: the `any` that replaces a union is not
   nullable; the exact condition is that no NON-REQUIRED field has a union type the pass
   replaces ---------- *)
Definition udta_hits (s : schema) (t : ty) : bool :=
  is_disj t && match udta_disj s t with Ok t' => negb (is_disj t') | _ => false end.
Definition p_opt_hit (s : schema) (_ : bool) (t : ty) : bool :=
  match t with
  | TStruct _ _ fs => existsb (fun f => negb (f_required f) && udta_hits s (f_type f)) fs
  | _ => false
  end.
Definition udta_safe (ss : schemas) : bool :=
  forallb (fun s => forallb (fun ko => negb (any_sub (p_opt_hit s) false (o_type (snd ko)))) (s_objects s)) ss.

Theorem optnn_udta ss out :
  udta_safe ss = true -> all_clean p_optnn ss -> undiscriminated_disjunction_to_any ss = Ok out -> all_clean p_optnn out.
Proof.
  intros Hsafe Hc H o' Ho'. unfold undiscriminated_disjunction_to_any in H.
  destruct (visit_schemas_disj0_objects _ _ _ _ H Ho') as [s [o [t' [Hs [Ho [Hv Heq]]]]]]. subst o'. simpl.
  apply visit_disj0_vrel in Hv.
  assert (any_sub (por (p_opt_hit s) p_optnn) false (o_type o) = false) as Hin.
  { apply any_sub_or_false. split; [|apply Hc; eapply objects_of_single; eassumption].
    unfold udta_safe in Hsafe. rewrite forallb_forall in Hsafe. specialize (Hsafe s Hs). rewrite forallb_forall in Hsafe.
    apply in_objects_of in Ho. destruct Ho as [s0 [k [[<-|[]] Hko]]]. specialize (Hsafe (k, o) Hko). simpl in Hsafe.
    apply negb_true_iff in Hsafe. exact Hsafe. }
  refine (proj1 (vrel_pres unit (lift0 (udta_disj s)) (por (p_opt_hit s) p_optnn) p_optnn
                           (fun t t' => keeps_nullable t t' \/ udta_hits s t = true) (fun _ => True)
                           _ _ _ _ _ _ _ tt (o_type o) t' tt false Hv Hin I)).
  - intros t0 t1 E. left. apply keeps_nullable_attrs. assumption.
  - reflexivity.
  - reflexivity.
  - reflexivity.
  - intros i a dh fs fs' HF2 Hp. unfold por in Hp. simpl in Hp. apply orb_false_iff in Hp. destruct Hp as [Hh Hopt].
    simpl. apply existsb_false_iff. intros f' Hf'.
    destruct (Forall2_in_r _ _ _ HF2 f' Hf') as [f [Hf [Hreq HR]]]. rewrite Hreq.
    pose proof (proj1 (existsb_false_iff _ _) Hh f Hf) as Hh1. pose proof (proj1 (existsb_false_iff _ _) Hopt f Hf) as Ho1.
    simpl in Hh1, Ho1. destruct (f_required f); [reflexivity|]. simpl in *.
    destruct HR as [HR|HR]; [|rewrite HR in Hh1; discriminate].
    apply negb_false_iff in Ho1. rewrite (HR Ho1). reflexivity.
  - intros i t Hl _. destruct t; simpl in Hl; try contradiction; reflexivity.
  - intros st a d t1 st1 i Hd Hcd _. apply lift0_inv in Hd. split; [|split; [|exact I]].
    + destruct (udta_disj_shape _ _ _ _ Hd) as [->|[-> _]]; [|reflexivity].
      exact (proj2 (proj1 (any_sub_or_false _ _ _ _) Hcd)).
    + destruct (udta_disj_shape _ _ _ _ Hd) as [->|[E _]]; [left; intros X; exact X|].
      right. unfold udta_hits. simpl is_disj. rewrite Hd. rewrite E. reflexivity.
Qed.

(* =====================================================================================
   instances for I1 (p_struct, below the root), I5 (p_enum, below the root), I2 (p_optnn)
   ===================================================================================== *)
Lemma optnn_struct_hyp : forall inter a dh fs fs',
  Forall2 (fun f f' => f_required f' = f_required f /\ keeps_nullable (f_type f) (f_type f')) fs fs' ->
  p_optnn inter (TStruct a dh fs) = false -> p_optnn inter (TStruct a dh fs') = false.
Proof.
  intros i a dh fs fs' HF2 H. simpl in *. apply existsb_false_iff. intros f' Hf'.
  destruct (Forall2_in_r _ _ _ HF2 f' Hf') as [f [Hf [Hreq Hkn]]].
  pose proof (proj1 (existsb_false_iff _ _) H f Hf) as Hx. simpl in Hx. rewrite Hreq.
  destruct (f_required f); [reflexivity|]. simpl in *. apply negb_false_iff in Hx. rewrite (Hkn Hx). reflexivity.
Qed.
Lemma nullable_set_true' t : nullable (ty_attrs (set_nullable t true)) = true.
Proof. destruct t; reflexivity. Qed.
Lemma optnn_new_hyp : forall attrs dh bs, p_optnn false (TStruct attrs dh (dtt_fields bs)) = false.
Proof.
  intros attrs dh bs. simpl. unfold dtt_fields. rewrite existsb_map_eq. simpl. apply existsb_false_iff. intros b _.
  rewrite nullable_set_true'. reflexivity.
Qed.
Lemma simple_false (p : bool -> ty -> bool) :
  (forall i a pk n, p i (TRef a pk n) = false) -> (forall i a k v cs, p i (TScalar a k v cs) = false) ->
  forall i l, is_simple l -> p i l = false.
Proof. intros H1 H2 i l Hl. destruct l; simpl in Hl; try contradiction; [apply H1|apply H2]. Qed.

Definition srel_struct_below' := fun t t' (H : srel t t') => srel_struct_below t t' H.
Lemma srel_enum_below t t' : srel t t' -> any_below p_enum t = false -> any_below p_enum t' = false.
Proof. apply (srel_pres_below p_enum (fun _ _ => True)); srel_side. Qed.

Section Instances.
  Variables ss out : schemas.
  Hypothesis Hn : all_clean p_nui ss.

  (* I1 *)
  Theorem i1_dwnto : all_clean_below p_struct ss -> disjunction_with_null_to_optional ss = Ok out -> all_clean_below p_struct out.
  Proof. intros Hc H. eapply (dwnto_below_nui p_struct); try eassumption; nui_side. Qed.
  Theorem i1_docte : all_clean_below p_struct ss -> disjunction_of_constants_to_enum ss = Ok out -> all_clean_below p_struct out.
  Proof. intros Hc H. eapply (docte_below_nui p_struct); try eassumption; nui_side. Qed.
  Theorem i1_fd : all_clean_below p_struct ss -> flatten_disjunctions ss = Ok out -> all_clean_below p_struct out.
  Proof. intros Hc H. eapply (fd_below_nui p_struct); try eassumption; nui_side. Qed.
  Theorem i1_dim : all_clean_below p_struct ss -> disjunction_infer_mapping ss = Ok out -> all_clean_below p_struct out.
  Proof. intros Hc H. eapply (dim_below_nui p_struct); try eassumption; nui_side. Qed.
  Theorem i1_udta : all_clean_below p_struct ss -> undiscriminated_disjunction_to_any ss = Ok out -> all_clean_below p_struct out.
  Proof. intros Hc H. eapply (udta_below_nui p_struct); try eassumption; nui_side. Qed.
  Theorem i1_dtt : entry_leaf ss -> all_clean_below p_struct ss -> disjunction_to_type ss = Ok out -> all_clean_below p_struct out.
  Proof.
    intros He Hc H. eapply (dtt_below_nui p_struct); try eassumption; nui_side.
    apply simple_false; intros; unfold p_struct; simpl; apply andb_false_r.
  Qed.
  (* I5 *)
  Theorem i5_fd : all_clean_below p_enum ss -> flatten_disjunctions ss = Ok out -> all_clean_below p_enum out.
  Proof. intros Hc H. eapply (fd_below_nui p_enum); try eassumption; nui_side. Qed.
  Theorem i5_dim : all_clean_below p_enum ss -> disjunction_infer_mapping ss = Ok out -> all_clean_below p_enum out.
  Proof. intros Hc H. eapply (dim_below_nui p_enum); try eassumption; nui_side. Qed.
  Theorem i5_udta : all_clean_below p_enum ss -> undiscriminated_disjunction_to_any ss = Ok out -> all_clean_below p_enum out.
  Proof. intros Hc H. eapply (udta_below_nui p_enum); try eassumption; nui_side. Qed.
  Theorem i5_dtt : entry_leaf ss -> all_clean_below p_enum ss -> disjunction_to_type ss = Ok out -> all_clean_below p_enum out.
  Proof.
    intros He Hc H. eapply (dtt_below_nui p_enum); try eassumption; nui_side.
    apply simple_false; intros; reflexivity.
  Qed.
  (* I2 *)
  Theorem i2_dwnto : all_clean p_optnn ss -> disjunction_with_null_to_optional ss = Ok out -> all_clean p_optnn out.
  Proof. intros Hc H. eapply proj2. eapply (dwnto_sub_nui p_optnn); try eassumption; nui_side. exact optnn_struct_hyp. Qed.
  Theorem i2_docte : all_clean p_optnn ss -> disjunction_of_constants_to_enum ss = Ok out -> all_clean p_optnn out.
  Proof. intros Hc H. eapply proj2. eapply (docte_sub_nui p_optnn); try eassumption; nui_side. exact optnn_struct_hyp. Qed.
  Theorem i2_fd : all_clean p_optnn ss -> flatten_disjunctions ss = Ok out -> all_clean p_optnn out.
  Proof. intros Hc H. eapply proj2. eapply (fd_sub_nui p_optnn); try eassumption; nui_side. exact optnn_struct_hyp. Qed.
  Theorem i2_dim : all_clean p_optnn ss -> disjunction_infer_mapping ss = Ok out -> all_clean p_optnn out.
  Proof. intros Hc H. eapply proj2. eapply (dim_sub_nui p_optnn); try eassumption; nui_side. exact optnn_struct_hyp. Qed.
  Theorem i2_dtt : entry_leaf ss -> all_clean p_optnn ss -> disjunction_to_type ss = Ok out -> all_clean p_optnn out.
  Proof.
    intros He Hc H. eapply (dtt_sub_nui p_optnn); try eassumption; nui_side.
    - exact optnn_struct_hyp.
    - apply simple_false; intros; reflexivity.
    - exact optnn_new_hyp.
  Qed.
End Instances.

(* =====================================================================================
   THE GO CHAIN: on tame inputs the chain's output has no normal-form violation
   ===================================================================================== *)
From Cog Require Import Proofs.C06Proofs.

Definition union_in_inter (ss : schemas) : bool := existsb (fun o => any_sub p_nui false (o_type o)) (objects_of ss).

(* tame: no union below a union branch, no union inside an allOf composition, entry-point types
   that are plain references, and - checked on the model's own state before
   UndiscriminatedDisjunctionToAny - no optional field whose union that pass turns into `any` *)
Definition tame_go (ss : schemas) : bool :=
  negb (nested_union ss) && negb (union_in_inter ss) && entry_simple ss &&
  match process (firstn 9 chain_go) ss with Ok mid => udta_safe mid | _ => true end.

Lemma subset_clean p ss out : (forall o', In o' (objects_of out) -> In o' (objects_of ss)) -> all_clean p ss -> all_clean p out.
Proof. intros Hsub Hc o Ho. apply Hc. apply Hsub. assumption. Qed.
Lemma subset_clean_below p ss out : (forall o', In o' (objects_of out) -> In o' (objects_of ss)) -> all_clean_below p ss -> all_clean_below p out.
Proof. intros Hsub Hc o Ho. apply Hc. apply Hsub. assumption. Qed.
Lemma subset_enums ss out : (forall o', In o' (objects_of out) -> In o' (objects_of ss)) -> enums_from ss out.
Proof. intros Hsub o Ho _. apply Hsub. assumption. Qed.

Theorem go_chain_nf ss out :
  tame_go ss = true -> process chain_go ss = Ok out -> nf_violations "go" out = [].
Proof.
  intros Ht H. unfold tame_go in Ht.
  apply andb_true_iff in Ht. destruct Ht as [Ht Hsafe]. apply andb_true_iff in Ht. destruct Ht as [Ht He].
  apply andb_true_iff in Ht. destruct Ht as [Hn Hu]. apply negb_true_iff in Hn, Hu.
  pose proof (proj1 (all_clean_iff _ _) Hn) as N0. pose proof (proj1 (all_clean_iff _ _) Hu) as U0.
  pose proof (entry_simple_leaf _ He) as E0. unfold chain_go in H.
  (* 1 AnonymousStructsToNamed *)
  step_total H. pose proof (nuf_astn _ N0) as N1. pose proof (nui_astn _ U0) as U1. pose proof (entry_leaf_astn _ E0) as E1.
  pose proof (proj1 (all_clean_below_iff _ _) (astn_establishes_no_anonymous_struct ss)) as S1.
  (* 2 NotRequiredFieldAsNullableType *)
  step_total H. pose proof (nuf_nrfn _ N1) as N2. pose proof (nui_nrfn _ U1) as U2. pose proof (entry_leaf_nrfn _ E1) as E2.
  pose proof (nrfn_pres_below p_struct _ srel_struct_below' S1) as S2.
  pose proof (proj1 (all_clean_iff p_optnn _) (not_required_establishes_optional_nullable_proof (anonymous_structs_to_named ss))) as O2.
  (* 3 DisjunctionWithNullToOptional *)
  step_res H s3 P3. pose proof (nuf_dwnto _ _ N2 P3) as N3. pose proof (nui_dwnto _ _ U2 P3) as U3.
  pose proof (entry_leaf_v0 _ _ _ E2 P3) as E3. pose proof (i1_dwnto _ _ U2 S2 P3) as S3. pose proof (i2_dwnto _ _ U2 O2 P3) as O3.
  (* 4 DisjunctionOfConstantsToEnum *)
  step_res H s4 P4. pose proof (nuf_docte _ _ N3 P4) as N4. pose proof (nui_docte _ _ U3 P4) as U4.
  pose proof (entry_leaf_v0 _ _ _ E3 P4) as E4. pose proof (i1_docte _ _ U3 S3 P4) as S4. pose proof (i2_docte _ _ U3 O3 P4) as O4.
  (* 5 AnonymousEnumToExplicitType *)
  step_total H. pose proof (nuf_aete _ N4) as N5. pose proof (nui_aete _ U4) as U5. pose proof (entry_leaf_aete _ E4) as E5.
  pose proof (aete_pres_below p_struct _ srel_struct_below' S4) as S5.
  pose proof (aete_pres p_optnn _ srel_optnn' (fun _ _ => eq_refl) O4) as O5.
  pose proof (proj1 (all_clean_below_iff _ _) (aete_establishes_no_anonymous_enum s4)) as A5.
  (* 6 PrefixEnumValues *)
  step_res H s6 P6. pose proof (nuf_pev _ _ N5 P6) as N6. pose proof (nui_pev _ _ U5 P6) as U6.
  pose proof (entry_leaf_pev _ _ E5 P6) as E6. pose proof (pev_pres_below p_struct _ _ S5 P6) as S6.
  pose proof (pev_pres p_optnn _ _ (fun _ _ _ _ => eq_refl) O5 P6) as O6. pose proof (pev_pres_below p_enum _ _ A5 P6) as A6.
  pose proof (prefix_establishes _ _ P6) as G6.
  (* 7 FlattenDisjunctions *)
  step_res H s7 P7. pose proof (nuf_fd _ _ N6 P7) as N7. pose proof (nui_fd _ _ U6 P7) as U7.
  pose proof (entry_leaf_v0 _ _ _ E6 P7) as E7. pose proof (i1_fd _ _ U6 S6 P7) as S7. pose proof (i2_fd _ _ U6 O6 P7) as O7.
  pose proof (i5_fd _ _ U6 A6 P7) as A7. pose proof (prefix_back _ _ G6 (enums_from_fd _ _ P7)) as G7.
  (* 8 DisjunctionOfAnonymousStructsToExplicit: nothing left to do *)
  step_res H s8 P8. pose proof (doaste_noop _ _ S7 U7 E7 P8) as Sub8.
  pose proof (subset_clean _ _ _ Sub8 N7) as N8. pose proof (subset_clean _ _ _ Sub8 U7) as U8.
  pose proof (entry_leaf_doaste _ _ E7 P8) as E8. pose proof (subset_clean_below _ _ _ Sub8 S7) as S8.
  pose proof (subset_clean _ _ _ Sub8 O7) as O8. pose proof (subset_clean_below _ _ _ Sub8 A7) as A8.
  pose proof (prefix_back _ _ G7 (subset_enums _ _ Sub8)) as G8.
  (* 9 DisjunctionInferMapping *)
  step_res H s9 P9. pose proof (nuf_dim _ _ N8 P9) as N9. pose proof (nui_dim _ _ U8 P9) as U9.
  pose proof (entry_leaf_v0 _ _ _ E8 P9) as E9. pose proof (i1_dim _ _ U8 S8 P9) as S9. pose proof (i2_dim _ _ U8 O8 P9) as O9.
  pose proof (i5_dim _ _ U8 A8 P9) as A9. pose proof (prefix_back _ _ G8 (enums_from_dim _ _ P9)) as G9.
  (* the state the side condition of tame_go looks at *)
  assert (process (firstn 9 chain_go) ss = Ok s9) as Hmid.
  { unfold chain_go. cbn [firstn process run_pass bind]. rewrite P3. cbn [bind]. rewrite P4. cbn [bind]. rewrite P6. cbn [bind].
    rewrite P7. cbn [bind]. rewrite P8. cbn [bind]. rewrite P9. reflexivity. }
  rewrite Hmid in Hsafe.
  (* 10 UndiscriminatedDisjunctionToAny *)
  step_res H s10 P10. pose proof (nuf_udta _ _ N9 P10) as N10. pose proof (nui_udta _ _ U9 P10) as U10.
  pose proof (entry_leaf_v0 _ _ _ E9 P10) as E10. pose proof (i1_udta _ _ U9 S9 P10) as S10.
  pose proof (optnn_udta _ _ Hsafe O9 P10) as O10. pose proof (i5_udta _ _ U9 A9 P10) as A10.
  pose proof (prefix_back _ _ G9 (enums_from_udta _ _ P10)) as G10.
  (* 11 DisjunctionToType *)
  step_res H s11 P11. simpl in H. inversion H; subst.
  assert (has_union out = false) as HU.
  { eapply dtt_establishes_no_union; [apply all_clean_iff; exact N10|apply entry_leaf_nuf; exact E10|exact P11]. }
  pose proof (i1_dtt _ _ U10 E10 S10 P11) as S11. pose proof (i2_dtt _ _ U10 E10 O10 P11) as O11.
  pose proof (i5_dtt _ _ U10 E10 A10 P11) as A11. pose proof (prefix_back _ _ G10 (enums_from_dtt _ _ P11)) as G11.
  unfold nf_violations. simpl.
  rewrite HU, (no_union_no_tnull _ HU), G11.
  rewrite (proj2 (all_clean_below_iff p_enum out) A11 : has_anonymous_enum out = false).
  rewrite (proj2 (all_clean_below_iff p_struct out) S11 : has_anonymous_struct out = false).
  rewrite (proj2 (all_clean_iff p_optnn out) O11 : has_optional_not_nullable out = false).
  reflexivity.
Qed.

(* ---------- non-vacuity, and necessity of every condition of tame_go ---------- *)
Local Open Scope string_scope.
Definition xSc (k : skind) := TScalar A0 k DNil [].
Definition xCst (s : string) := TScalar A0 KString (DStr s) [].
Definition xEnum (l : list string) := TEnum A0 (map (fun n => mkEnumVal (xSc KString) n (DStr n)) l).
Definition xU (bs : list ty) := TDisj A0 (mkDisj bs "" []).
(* a discriminated union of struct references, an array of a union of scalars, a map of enums, nested
   anonymous structs, `T | null`, an optional union of scalars, a union of constants *)
Definition w_tame : schemas :=
  [mkSchema "p" wm0 "" ty_zero
    [("A", mkObject "A" [] (TStruct A0 [] [mkField "kind" [] (xCst "a") true; mkField "x" [] (xSc KString) false]) "p" "A");
     ("B", mkObject "B" [] (TStruct A0 [] [mkField "kind" [] (xCst "b") true; mkField "y" [] (xSc KInt64) true]) "p" "B");
     ("Obj", mkObject "Obj" []
        (TStruct A0 []
           [mkField "u" [] (xU [TRef A0 "p" "A"; TRef A0 "p" "B"]) true;
            mkField "items" [] (TArray A0 (xU [xSc KString; xSc KInt64])) true;
            mkField "m" [] (TMap A0 (xSc KString) (xEnum ["x"; "y"])) false;
            mkField "s" [] (TStruct A0 [] [mkField "inner" [] (TArray A0 (xEnum ["a"; "b"])) true;
                                           mkField "deep" [] (TStruct A0 [] [mkField "z" [] (xSc KBool) false]) false]) true;
            mkField "n" [] (xU [xSc KString; xSc KNull]) true;
            mkField "o" [] (xU [xSc KString; xSc KBool]) false;
            mkField "c" [] (xU [xCst "on"; xCst "off"]) false]) "p" "Obj")]].
Example go_chain_nf_nonvacuous :
  tame_go w_tame = true /\
  nf_violations "go" w_tame = ["union-remains"; "anonymous-enum"; "anonymous-struct"; "optional-field-not-nullable"; "T-or-null-union"] /\
  exists out, process chain_go w_tame = Ok out /\ List.length (objects_of out) = 11 /\ nf_violations "go" out = [].
Proof. split; [vm_compute; reflexivity|]. split; [vm_compute; reflexivity|]. eexists. split; [vm_compute; reflexivity|]. split; vm_compute; reflexivity. Qed.

Definition xObj (t : ty) : schemas := [mkSchema "p" wm0 "" ty_zero [("Obj", mkObject "Obj" [] t "p" "Obj")]].
(* a union inside an allOf composition, with an anonymous struct below a struct branch *)
Definition w_union_in_inter : schemas :=
  xObj (TStruct A0 [] [mkField "f" [] (TInter A0 [xU [TStruct A0 [] [mkField "a" [] (TStruct A0 [] [mkField "b" [] (xSc KBool) true]) true];
                                                       TArray A0 (xSc KString)]]) true]).
(* an optional, undiscriminated union of struct references *)
Definition w_optional_any : schemas :=
  [mkSchema "p" wm0 "" ty_zero
    [("A", mkObject "A" [] (TStruct A0 [] [mkField "x" [] (xSc KString) true]) "p" "A");
     ("B", mkObject "B" [] (TStruct A0 [] [mkField "y" [] (xSc KString) true]) "p" "B");
     ("Obj", mkObject "Obj" [] (TStruct A0 [] [mkField "u" [] (xU [TRef A0 "p" "A"; TRef A0 "p" "B"]) false]) "p" "Obj")]].
(* an entry-point type that is itself a union with a nested union *)
Definition w_union_entry : schemas :=
  [mkSchema "p" wm0 "E" (xU [xSc KString; TArray A0 (xU [xSc KInt64; xSc KBool])]) [("Obj", mkObject "Obj" [] (xSc KString) "p" "Obj")]].

Definition go_breaks (w : schemas) (v : string) : Prop := exists out, process chain_go w = Ok out /\ In v (nf_violations "go" out).
Example tame_go_conditions_needed :
  (nested_union w_union_in_array_branch = true /\ go_breaks w_union_in_array_branch "union-remains") /\
  (union_in_inter w_union_in_inter = true /\ nested_union w_union_in_inter = false /\ go_breaks w_union_in_inter "anonymous-struct") /\
  (tame_go w_optional_any = false /\ nested_union w_optional_any = false /\ union_in_inter w_optional_any = false /\
   entry_simple w_optional_any = true /\ go_breaks w_optional_any "optional-field-not-nullable") /\
  (entry_simple w_union_entry = false /\ nested_union w_union_entry = false /\ go_breaks w_union_entry "union-remains").
Proof.
  repeat split; try (vm_compute; reflexivity); eexists; (split; [vm_compute; reflexivity|vm_compute; tauto]).
Qed.

(* =====================================================================================
   THE JAVA CHAIN up to (not including) its last pass RemoveIntersections
   ===================================================================================== *)
Definition tame_java (ss : schemas) : bool :=
  negb (nested_union ss) && negb (union_in_inter ss) && entry_simple ss &&
  match process (firstn 7 chain_java) ss with Ok mid => udta_safe mid | _ => true end.

Theorem java_chain_core_nf ss out :
  tame_java ss = true -> process (removelast chain_java) ss = Ok out -> nf_violations "java" out = [].
Proof.
  intros Ht H. unfold tame_java in Ht.
  apply andb_true_iff in Ht. destruct Ht as [Ht Hsafe]. apply andb_true_iff in Ht. destruct Ht as [Ht He].
  apply andb_true_iff in Ht. destruct Ht as [Hn Hu]. apply negb_true_iff in Hn, Hu.
  pose proof (proj1 (all_clean_iff _ _) Hn) as N0. pose proof (proj1 (all_clean_iff _ _) Hu) as U0.
  pose proof (entry_simple_leaf _ He) as E0. unfold chain_java in H. cbn [removelast] in H.
  step_total H. pose proof (nuf_astn _ N0) as N1. pose proof (nui_astn _ U0) as U1. pose proof (entry_leaf_astn _ E0) as E1.
  pose proof (proj1 (all_clean_below_iff _ _) (astn_establishes_no_anonymous_struct ss)) as S1.
  step_total H. pose proof (nuf_nrfn _ N1) as N2. pose proof (nui_nrfn _ U1) as U2. pose proof (entry_leaf_nrfn _ E1) as E2.
  pose proof (nrfn_pres_below p_struct _ srel_struct_below' S1) as S2.
  pose proof (proj1 (all_clean_iff p_optnn _) (not_required_establishes_optional_nullable_proof (anonymous_structs_to_named ss))) as O2.
  step_res H s3 P3. pose proof (nuf_dwnto _ _ N2 P3) as N3. pose proof (nui_dwnto _ _ U2 P3) as U3.
  pose proof (entry_leaf_v0 _ _ _ E2 P3) as E3. pose proof (i1_dwnto _ _ U2 S2 P3) as S3. pose proof (i2_dwnto _ _ U2 O2 P3) as O3.
  step_res H s4 P4. pose proof (nuf_docte _ _ N3 P4) as N4. pose proof (nui_docte _ _ U3 P4) as U4.
  pose proof (entry_leaf_v0 _ _ _ E3 P4) as E4. pose proof (i1_docte _ _ U3 S3 P4) as S4. pose proof (i2_docte _ _ U3 O3 P4) as O4.
  step_total H. pose proof (nuf_aete _ N4) as N5. pose proof (nui_aete _ U4) as U5. pose proof (entry_leaf_aete _ E4) as E5.
  pose proof (aete_pres_below p_struct _ srel_struct_below' S4) as S5.
  pose proof (aete_pres p_optnn _ srel_optnn' (fun _ _ => eq_refl) O4) as O5.
  pose proof (proj1 (all_clean_below_iff _ _) (aete_establishes_no_anonymous_enum s4)) as A5.
  step_res H s6 P6. pose proof (nuf_fd _ _ N5 P6) as N6. pose proof (nui_fd _ _ U5 P6) as U6.
  pose proof (entry_leaf_v0 _ _ _ E5 P6) as E6. pose proof (i1_fd _ _ U5 S5 P6) as S6. pose proof (i2_fd _ _ U5 O5 P6) as O6.
  pose proof (i5_fd _ _ U5 A5 P6) as A6.
  step_res H s7 P7. pose proof (nuf_dim _ _ N6 P7) as N7. pose proof (nui_dim _ _ U6 P7) as U7.
  pose proof (entry_leaf_v0 _ _ _ E6 P7) as E7. pose proof (i1_dim _ _ U6 S6 P7) as S7. pose proof (i2_dim _ _ U6 O6 P7) as O7.
  pose proof (i5_dim _ _ U6 A6 P7) as A7.
  assert (process (firstn 7 chain_java) ss = Ok s7) as Hmid.
  { unfold chain_java. cbn [firstn process run_pass bind]. rewrite P3. cbn [bind]. rewrite P4. cbn [bind]. rewrite P6. cbn [bind].
    rewrite P7. reflexivity. }
  rewrite Hmid in Hsafe.
  step_res H s8 P8. pose proof (nuf_udta _ _ N7 P8) as N8. pose proof (nui_udta _ _ U7 P8) as U8.
  pose proof (entry_leaf_v0 _ _ _ E7 P8) as E8. pose proof (i1_udta _ _ U7 S7 P8) as S8.
  pose proof (optnn_udta _ _ Hsafe O7 P8) as O8. pose proof (i5_udta _ _ U7 A7 P8) as A8.
  step_res H s9 P9. simpl in H. inversion H; subst.
  assert (has_union out = false) as HU.
  { eapply dtt_establishes_no_union; [apply all_clean_iff; exact N8|apply entry_leaf_nuf; exact E8|exact P9]. }
  pose proof (i1_dtt _ _ U8 E8 S8 P9) as S9. pose proof (i2_dtt _ _ U8 E8 O8 P9) as O9. pose proof (i5_dtt _ _ U8 E8 A8 P9) as A9.
  unfold nf_violations. simpl.
  rewrite HU, (no_union_no_tnull _ HU).
  rewrite (proj2 (all_clean_below_iff p_enum out) A9 : has_anonymous_enum out = false).
  rewrite (proj2 (all_clean_below_iff p_struct out) S9 : has_anonymous_struct out = false).
  rewrite (proj2 (all_clean_iff p_optnn out) O9 : has_optional_not_nullable out = false).
  reflexivity.
Qed.

(* =====================================================================================
   THE PYTHON CHAIN
   ===================================================================================== *)
(* a `null` branch in a union that does not have exactly two branches: DisjunctionWithNullToOptional
   leaves it, and FlattenDisjunctions may later shrink that union to `T | null` *)
Definition p_null3 (_ : bool) (t : ty) : bool :=
  match t with TDisj _ d => existsb is_null (d_branches d) && negb (Nat.eqb (List.length (d_branches d)) 2) | _ => false end.
Definition p_hasnull (_ : bool) (t : ty) : bool :=
  match t with TDisj _ d => existsb is_null (d_branches d) | _ => false end.
Definition null_in_wide_union (ss : schemas) : bool := existsb (fun o => any_sub p_null3 false (o_type o)) (objects_of ss).

Definition null_back (b b' : ty) : Prop := is_null b' = true -> is_null b = true.
Lemma srel_null_back : forall t t', srel t t' -> null_back t t'.
Proof.
  intros t t' H. induction H as [t|t l Hl|t t' a H IH|a a' v v' H _|a a' i i' v v' Hi _ Hv _|a a' dh dh' fs fs' H _|a a' d d' H _|a a' bs bs' H _|a vs vs'| | | | ]
    using srel_ind2 with (P0 := fun _ _ _ => True) (P1 := fun _ _ _ => True); try exact I; unfold null_back; try (intros X; exact X);
    try (simpl; discriminate).
  - destruct l; simpl in Hl; try contradiction. simpl. discriminate.
  - intros X. apply IH. destruct t'; simpl in *; try discriminate. exact X.
Qed.

Lemma Forall2_length {A B} (Rel : A -> B -> Prop) l l' : Forall2 Rel l l' -> List.length l = List.length l'.
Proof. induction 1; simpl; congruence. Qed.

Lemma srel_null3 t t' inter : srel t t' -> any_sub p_null3 inter t = false -> any_sub p_null3 inter t' = false.
Proof.
  apply (srel_pres p_null3 null_back); srel_side.
  - exact srel_null_back.
  - intros i a a' d d' HF2 Hp. simpl in *. apply andb_false_iff in Hp. apply andb_false_iff.
    destruct Hp as [Hp|Hp].
    + left. apply existsb_false_iff. intros b' Hb'. destruct (Forall2_in_r _ _ _ HF2 b' Hb') as [b [Hb Hnb]].
      destruct (is_null b') eqn:E; [|reflexivity]. pose proof (Hnb E) as Hx.
      rewrite (proj1 (existsb_false_iff _ _) Hp b Hb) in Hx. discriminate.
    + right. rewrite <- (Forall2_length _ _ _ HF2). exact Hp.
Qed.
Definition srel_null3' := fun t t' inter (H : srel t t') => srel_null3 t t' inter H.

Lemma hasnull_irrel t i j : any_sub p_hasnull i t = any_sub p_hasnull j t.
Proof. apply any_sub_inter_irrel. reflexivity. Qed.
Lemma union_free_hasnull t inter : any_sub p_union false t = false -> any_sub p_hasnull inter t = false.
Proof.
  intros H. rewrite (p_union_irrel t false inter) in H. revert H. apply any_sub_weaken.
  intros i x Hx. destruct x; try reflexivity. discriminate.
Qed.
Lemma hasnull_tnull ss : all_clean p_hasnull ss -> has_t_or_null ss = false.
Proof.
  intros Hc. rewrite has_t_or_null_eq. apply existsb_false_iff. intros o Ho. generalize (Hc o Ho). apply any_sub_weaken.
  intros i x Hx. destruct x; try reflexivity. simpl in *. rewrite Hx. apply andb_false_r.
Qed.

(* DisjunctionWithNullToOptional: afterwards no union has a `null` branch *)
Theorem dwnto_establishes_no_null_branch ss out :
  all_clean p_nuf ss -> all_clean p_null3 ss -> disjunction_with_null_to_optional ss = Ok out -> all_clean p_hasnull out.
Proof.
  intros Hn H3 H o' Ho'. unfold disjunction_with_null_to_optional in H.
  destruct (visit_schemas_disj0_objects _ _ _ _ H Ho') as [s [o [t' [Hs [Ho [Hv Heq]]]]]]. subst o'. simpl.
  assert (any_sub (por p_nuf p_null3) false (o_type o) = false) as Hc.
  { apply any_sub_or_false. split; [apply Hn|apply H3]; eapply objects_of_single; eassumption. }
  apply visit_disj0_vrel in Hv.
  refine (proj1 (vrel_pres unit (lift0 dwnto_disj) (por p_nuf p_null3) p_hasnull (fun _ _ => True) (fun _ => True)
                           _ _ _ _ _ _ _ tt (o_type o) t' tt false Hv Hc I)); try (intros; reflexivity); try (intros; exact I).
  - intros i t Hl _. destruct t; simpl in Hl; try contradiction; reflexivity.
  - intros st a d t1 st1 i Hd Hcd _. split; [|split; exact I]. apply lift0_inv in Hd.
    apply any_sub_or_false in Hcd. destruct Hcd as [Hnuf Hn3].
    pose proof (nuf_branches i a d Hnuf) as Hb.
    destruct (dwnto_disj_shape _ _ _ Hd) as [E|[b [Hbin [_ E]]]]; subst t1.
    + (* untouched: either no null branch, or exactly two branches - but then it would have been rewritten *)
      simpl. apply orb_false_iff. split; [|apply existsb_false_iff; intros b Hbin; apply union_free_hasnull; apply Hb; assumption].
      simpl in Hn3. apply orb_false_iff in Hn3. destruct Hn3 as [Hn3 _].
      destruct (existsb is_null (d_branches d)) eqn:En; [|reflexivity]. simpl in Hn3. apply negb_false_iff in Hn3.
      (* two branches, one of them null: dwnto_disj does not return the union itself *)
      exfalso. unfold dwnto_disj in Hd. destruct (d_branches d) as [|x [|y [|z r]]]; simpl in Hn3; try discriminate.
      unfold has_null_type in Hd. rewrite En in Hd.
      destruct (filter (fun b => negb (is_null b)) [x; y]) as [|b rest] eqn:Ef; [discriminate|]. inversion Hd as [E].
      assert (In b [x; y]) as Hbxy.
      { assert (In b (filter (fun b => negb (is_null b)) [x; y])) as Hf by (rewrite Ef; left; reflexivity).
        apply filter_In in Hf. destruct Hf; assumption. }
      pose proof (Hb b Hbxy) as Hub. destruct b; simpl in Hub; discriminate.
    + rewrite any_sub_set_nullable_gen; [|destruct b; reflexivity]. apply union_free_hasnull. apply Hb. assumption.
Qed.

(* p_hasnull through the later stateless passes *)
Ltac hn_side := try (intros; simpl in *; assumption || reflexivity).
Theorem hasnull_docte ss out : all_clean p_hasnull ss -> disjunction_of_constants_to_enum ss = Ok out -> all_clean p_hasnull out.
Proof.
  intros Hc H. unfold disjunction_of_constants_to_enum in H.
  refine (v0_pres p_hasnull (fun _ _ => True) (fun _ _ _ => I) _ _ _ _ _ ss out _ Hc H); hn_side.
  intros s a d t1 i _ _ Hd Hcd. split; [|exact I]. destruct (docte_disj_shape _ _ _ _ Hd) as [->|[vs ->]]; [assumption|reflexivity].
Qed.
Theorem hasnull_dim ss out : all_clean p_hasnull ss -> disjunction_infer_mapping ss = Ok out -> all_clean p_hasnull out.
Proof.
  intros Hc H. unfold disjunction_infer_mapping in H.
  refine (v0_pres p_hasnull (fun _ _ => True) (fun _ _ _ => I) _ _ _ _ _ ss out _ Hc H); hn_side.
  intros s a d t1 i _ _ Hd Hcd. split; [|exact I]. destruct (dim_disj_shape _ _ _ _ Hd) as [disc [m ->]]. simpl in *. assumption.
Qed.
Theorem hasnull_fd ss out : all_clean p_hasnull ss -> flatten_disjunctions ss = Ok out -> all_clean p_hasnull out.
Proof.
  intros Hc H. unfold flatten_disjunctions in H.
  refine (v0_pres p_hasnull (fun _ _ => True) (fun _ _ _ => I) _ _ _ _ _ ss out _ Hc H); hn_side.
  intros s a d t1 i _ Hcs Hd Hcd. split; [|exact I].
  assert (forall a0 d0 j, any_sub p_hasnull j (TDisj a0 d0) = false ->
                          forall b, In b (d_branches d0) -> is_null b = false /\ any_sub p_hasnull i b = false) as Hbr.
  { intros a0 d0 j Hx b Hb. simpl in Hx. apply orb_false_iff in Hx. destruct Hx as [X1 X2]. split.
    - exact (proj1 (existsb_false_iff _ _) X1 b Hb).
    - rewrite (hasnull_irrel b i j). exact (proj1 (existsb_false_iff _ _) X2 b Hb). }
  destruct (fd_disj_branches (fun b => is_null b = false /\ any_sub p_hasnull i b = false) s a d t1) as [bs' [-> Hbs']].
  - eapply Hbr. eassumption.
  - intros k o a' d' Hin E rb Hrb. pose proof (Hcs o (in_single_objects _ _ _ Hin)) as Hx. rewrite E in Hx. eapply Hbr; eassumption.
  - assumption.
  - simpl. apply orb_false_iff. split; apply existsb_false_iff; intros b Hb; apply (Hbs' b Hb).
Qed.

(* RenameNumericEnumValues only renames members of top-level enums *)
Lemma rnev_objects ss o' : In o' (objects_of (rename_numeric_enum_values ss)) ->
  exists o, In o (objects_of ss) /\ (o_type o' = o_type o \/ exists a vs vs', o_type o = TEnum a vs /\ o_type o' = TEnum a vs').
Proof.
  intros Ho'. unfold rename_numeric_enum_values in Ho'. apply in_objects_of_map in Ho'. destruct Ho' as [s [k [Hs Hko]]]. simpl in Hko.
  assert (forall (l : list (string * object)) acc,
            In (k, o') (fold_left (fun acc (ko : string * object) => objs_set acc (fst ko) (rnev_object (snd ko))) l acc) ->
            In (k, o') acc \/ exists ko, In ko l /\ o' = rnev_object (snd ko)) as G.
  { induction l as [|x r IH]; intros acc Hx; [left; assumption|]. simpl in Hx. apply IH in Hx.
    destruct Hx as [Hx|[ko [Hk E]]]; [|right; exists ko; split; [right; assumption|assumption]].
    apply objs_set_in_inv in Hx. destruct Hx as [Hx|Hx]; [left; assumption|right; exists x; split; [left; reflexivity|assumption]]. }
  destruct (G _ _ Hko) as [[]|[[k0 o] [Hin E]]]. simpl in E. exists o.
  split; [apply in_objects_of; exists s, k0; split; assumption|]. subst o'. unfold rnev_object.
  destruct (o_type o) eqn:Et; try (left; assumption). right. eexists. eexists. eexists. split; reflexivity.
Qed.
Theorem rnev_pres (p : bool -> ty -> bool) ss :
  (forall inter a vs vs', p inter (TEnum a vs') = p inter (TEnum a vs)) ->
  all_clean p ss -> all_clean p (rename_numeric_enum_values ss).
Proof.
  intros Hp Hc o' Ho'. destruct (rnev_objects _ _ Ho') as [o [Ho [E|[a [vs [vs' [E1 E2]]]]]]].
  - rewrite E. apply Hc. assumption.
  - rewrite E2. pose proof (Hc o Ho) as Hx. rewrite E1 in Hx. simpl in *. rewrite (Hp false a vs vs'). assumption.
Qed.
Theorem rnev_pres_below (p : bool -> ty -> bool) ss : all_clean_below p ss -> all_clean_below p (rename_numeric_enum_values ss).
Proof.
  intros Hc o' Ho'. destruct (rnev_objects _ _ Ho') as [o [Ho [E|[a [vs [vs' [E1 E2]]]]]]].
  - rewrite E. apply Hc. assumption.
  - rewrite E2. reflexivity.
Qed.

Definition names_fit_b (ss : schemas) : bool :=
  forallb (fun o => forallb (fun v => implb (is_numeric_name (ev_name v)) (atoi_ok (ev_name v))) (enum_members o)) (objects_of ss).
Lemma names_fit_b_spec ss : names_fit_b ss = true -> names_fit ss.
Proof.
  unfold names_fit_b, names_fit. intros H o v Ho Hv Hnum. rewrite forallb_forall in H. specialize (H o Ho).
  rewrite forallb_forall in H. specialize (H v Hv). rewrite Hnum in H. exact H.
Qed.

Definition tame_python (ss : schemas) : bool :=
  negb (nested_union ss) && negb (union_in_inter ss) && negb (null_in_wide_union ss) &&
  match process (firstn 6 chain_python) ss with Ok mid => names_fit_b mid | _ => true end.

Theorem python_chain_nf ss out :
  tame_python ss = true -> process chain_python ss = Ok out -> nf_violations "python" out = [].
Proof.
  intros Ht H. unfold tame_python in Ht.
  apply andb_true_iff in Ht. destruct Ht as [Ht Hfit]. apply andb_true_iff in Ht. destruct Ht as [Ht H3].
  apply andb_true_iff in Ht. destruct Ht as [Hn Hu]. apply negb_true_iff in Hn, Hu, H3.
  pose proof (proj1 (all_clean_iff _ _) Hn) as N0. pose proof (proj1 (all_clean_iff _ _) Hu) as U0.
  pose proof (proj1 (all_clean_iff _ _) H3) as T0. unfold chain_python in H.
  step_total H. pose proof (nuf_astn _ N0) as N1. pose proof (nui_astn _ U0) as U1. pose proof (astn_pres p_null3 _ srel_null3' T0) as T1.
  pose proof (proj1 (all_clean_below_iff _ _) (astn_establishes_no_anonymous_struct ss)) as S1.
  step_total H. pose proof (nuf_nrfn _ N1) as N2. pose proof (nui_nrfn _ U1) as U2. pose proof (nrfn_pres p_null3 _ srel_null3' T1) as T2.
  pose proof (nrfn_pres_below p_struct _ srel_struct_below' S1) as S2.
  pose proof (proj1 (all_clean_iff p_optnn _) (not_required_establishes_optional_nullable_proof (anonymous_structs_to_named ss))) as O2.
  step_res H s3 P3. pose proof (nui_dwnto _ _ U2 P3) as U3. pose proof (i1_dwnto _ _ U2 S2 P3) as S3. pose proof (i2_dwnto _ _ U2 O2 P3) as O3.
  pose proof (dwnto_establishes_no_null_branch _ _ N2 T2 P3) as L3.
  step_res H s4 P4. pose proof (nui_docte _ _ U3 P4) as U4. pose proof (i1_docte _ _ U3 S3 P4) as S4. pose proof (i2_docte _ _ U3 O3 P4) as O4.
  pose proof (hasnull_docte _ _ L3 P4) as L4.
  step_res H s5 P5. pose proof (nui_fd _ _ U4 P5) as U5. pose proof (i1_fd _ _ U4 S4 P5) as S5. pose proof (i2_fd _ _ U4 O4 P5) as O5.
  pose proof (hasnull_fd _ _ L4 P5) as L5.
  step_res H s6 P6. pose proof (i1_dim _ _ U5 S5 P6) as S6. pose proof (i2_dim _ _ U5 O5 P6) as O6. pose proof (hasnull_dim _ _ L5 P6) as L6.
  assert (process (firstn 6 chain_python) ss = Ok s6) as Hmid.
  { unfold chain_python. cbn [firstn process run_pass bind]. rewrite P3. cbn [bind]. rewrite P4. cbn [bind]. rewrite P5. cbn [bind].
    rewrite P6. reflexivity. }
  rewrite Hmid in Hfit.
  step_total H. simpl in H. inversion H; subst.
  pose proof (rnev_pres_below p_struct _ S6) as S7. pose proof (rnev_pres p_optnn _ (fun _ _ _ _ => eq_refl) O6) as O7.
  pose proof (rnev_pres p_hasnull _ (fun _ _ _ _ => eq_refl) L6) as L7.
  unfold nf_violations. simpl.
  rewrite (proj2 (all_clean_below_iff p_struct _) S7 : has_anonymous_struct _ = false).
  rewrite (proj2 (all_clean_iff p_optnn _) O7 : has_optional_not_nullable _ = false).
  rewrite (hasnull_tnull _ L7).
  rewrite (rename_numeric_establishes_proof s6 (names_fit_b_spec _ Hfit)). reflexivity.
Qed.

(* non-vacuity and necessity for the Python chain *)
(* string | string | null: FlattenDisjunctions merges the two `string` branches *)
Definition w_null_in_wide_union : schemas := xObj (TStruct A0 [] [mkField "f" [] (xU [xSc KString; xSc KString; xSc KNull]) true]).
(* a numeric member name beyond the int range: strconv.Atoi fails, the name is kept *)
Definition w_huge_numeric_name : schemas :=
  [mkSchema "p" wm0 "" ty_zero [("E", mkObject "E" [] (TEnum A0 [mkEnumVal (xSc KString) "99999999999999999999" (DStr "x")]) "p" "E")]].
Definition python_breaks (w : schemas) (v : string) : Prop := exists out, process chain_python w = Ok out /\ In v (nf_violations "python" out).
Example python_chain_nf_nonvacuous :
  tame_python w_tame = true /\
  nf_violations "python" w_tame = ["anonymous-struct"; "optional-field-not-nullable"; "T-or-null-union"] /\
  (exists out, process chain_python w_tame = Ok out /\ nf_violations "python" out = []) /\
  (null_in_wide_union w_null_in_wide_union = true /\ python_breaks w_null_in_wide_union "T-or-null-union") /\
  (tame_python w_huge_numeric_name = false /\ python_breaks w_huge_numeric_name "numeric-enum-member").
Proof.
  split; [vm_compute; reflexivity|]. split; [vm_compute; reflexivity|]. split; [eexists; split; vm_compute; reflexivity|].
  split; (split; [vm_compute; reflexivity|]); eexists; (split; [vm_compute; reflexivity|vm_compute; tauto]).
Qed.
