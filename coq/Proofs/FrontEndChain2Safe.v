(* G2: the source-level safety predicate src_safe implies roundtrip_safeF on the post-chain context, and the
   purely source-level round-trip corollary. *)
From Coq Require Import List String ZArith Bool Ascii Lia.
From Cog Require Import Model.IR Model.Json Model.GoSemBase Model.GoSemDecode Model.GoSemValidate Model.GoSemStrict
  Model.GoSem Model.GoSemSpec08 Model.GoSemSpec01 Model.GoSemSpec01F Model.Src Model.FrontEnd Model.FrontEndSpec
  Model.Passes Model.PassesChain Model.Process Gen.Chains_gen Model.FrontEndChainSpec Model.FrontEndChainSpec2.
From Cog Require Import Proofs.FrontEndLemmas Proofs.FrontEndChainPasses Proofs.FrontEndChainAccept Proofs.FrontEndAccept
  Proofs.GoSemC01Proofs Proofs.FrontEndChain Proofs.FrontEndChain2Sup.
Import ListNotations.
Local Open Scope string_scope.
Local Open Scope list_scope.

(* ---------- unfolding rtsF on non-null documents ---------- *)
Lemma fc2_rtsF_scalar c src j a k v cs : fc_nonnull j = true ->
  rtsF c src j (TScalar a k v cs) = scalar_safe (TScalar a k v cs) k j.
Proof. intro H. destruct j; try discriminate; reflexivity. Qed.
Lemma fc2_rtsF_array c src j a et : fc_nonnull j = true ->
  rtsF c src j (TArray a et) =
  match j with
  | JArr l => (forallb (fun x => rtsF c RElem x et) l &&
               (array_of_scalars c 8 (TArray a et) || match src with RElem => false | _ => true end))%bool
  | _ => true
  end.
Proof. intro H. destruct j; try discriminate; try reflexivity. destruct src; cbn; rewrite ?andb_true_r; reflexivity. Qed.
Lemma fc2_rtsF_map c src j a i vt : fc_nonnull j = true ->
  rtsF c src j (TMap a i vt) =
  match j with
  | JObj ms => (forallb (fun kv => rtsF c RVal (snd kv) vt) ms &&
                (map_of_scalars c 8 (TMap a i vt) || match src with RVal => false | _ => true end))%bool
  | _ => true
  end.
Proof. intro H. destruct j; try discriminate; reflexivity. Qed.

Definition fc2_struct_safe (c : schemas) (fs : list field) (ms : list (string * json)) : bool :=
  (forallb (fun kv =>
              match find (fun f => seqb (f_name f) (fst kv)) fs with
              | None => true
              | Some f =>
                  (rtsF c RField (snd kv) (f_type f) &&
                   (f_required f || negb (is_empty_collection (snd kv))))%bool
              end) ms &&
   forallb (fun f => (negb (f_required f) || str_in (f_name f) (map fst ms))%bool) fs &&
   str_nodup (map (fun f => f_name f) fs) &&
   forallb (fun f => (f_required f || nilable c (f_type f))%bool) fs)%bool.

Lemma fc2_rtsF_ref_struct c src j a p n sa fs : fc_nonnull j = true ->
  payload_type c (TRef a p n) = PTy (TStruct sa [] fs) ->
  rtsF c src j (TRef a p n) =
  (str_nodup (map (fun f => f_name f) fs) && match j with JObj ms => fc2_struct_safe c fs ms | _ => true end)%bool.
Proof. intros H P. destruct j; try discriminate; cbn [rtsF]; rewrite P; reflexivity. Qed.

(* ---------- sorting keeps the field names distinct ---------- *)
Lemma fc2_str_in_insert_field k f l :
  str_in k (map (fun g => f_name g) (insert_field f l)) = (String.eqb (f_name f) k || str_in k (map (fun g => f_name g) l))%bool.
Proof.
  induction l as [|g r IH]; simpl; [reflexivity|].
  destruct (str_leb (f_name f) (f_name g)); simpl; [reflexivity|]. rewrite IH.
  destruct (String.eqb (f_name f) k), (String.eqb (f_name g) k); reflexivity.
Qed.
Lemma fc2_nodup_insert_field f l :
  str_nodup (map (fun g => f_name g) (insert_field f l)) =
  (negb (str_in (f_name f) (map (fun g => f_name g) l)) && str_nodup (map (fun g => f_name g) l))%bool.
Proof.
  induction l as [|g r IH]; simpl; [reflexivity|].
  destruct (str_leb (f_name f) (f_name g)); simpl; [reflexivity|]. rewrite IH, fc2_str_in_insert_field.
  rewrite (String.eqb_sym (f_name f) (f_name g)).
  destruct (String.eqb (f_name g) (f_name f)), (str_in (f_name g) (map (fun g => f_name g) r)),
           (str_in (f_name f) (map (fun g => f_name g) r)); reflexivity.
Qed.
Lemma fc2_str_in_sort_fields k l : str_in k (map (fun g => f_name g) (sort_fields l)) = str_in k (map (fun g => f_name g) l).
Proof. induction l as [|g r IH]; simpl; [reflexivity|]. rewrite fc2_str_in_insert_field, IH. reflexivity. Qed.
Lemma fc2_nodup_sort_fields l : str_nodup (map (fun g => f_name g) (sort_fields l)) = str_nodup (map (fun g => f_name g) l).
Proof.
  induction l as [|g r IH]; simpl; [reflexivity|]. rewrite fc2_nodup_insert_field, fc2_str_in_sort_fields, IH. reflexivity.
Qed.

Lemma fc2_names_nrfn l : map (fun f => f_name f) (map nrfn_field l) = map (fun f => f_name f) l.
Proof. induction l as [|x r IH]; simpl; [reflexivity|]. rewrite IH. reflexivity. Qed.
Lemma fc2_names_js pkg sfs : map (fun f => f_name f) (map (js_field pkg) sfs) = map sf_name sfs.
Proof. induction sfs as [|x r IH]; simpl; [reflexivity|]. rewrite IH. reflexivity. Qed.
Lemma fc2_names_out pkg sfs :
  str_nodup (map (fun f => f_name f) (map nrfn_field (sort_fields (map (js_field pkg) sfs)))) = str_nodup (map sf_name sfs).
Proof. rewrite fc2_names_nrfn, fc2_nodup_sort_fields, fc2_names_js. reflexivity. Qed.

(* ---------- the types of the fragment, after the chain ---------- *)
Lemma fc2_js_ty_nullable pkg t : sty_plain t = true -> nullable (ty_attrs (js_ty pkg t)) = false.
Proof. destruct t; intro H; try discriminate; reflexivity. Qed.
Lemma fc2_js_ty_set_false pkg t : sty_plain t = true -> set_nullable (js_ty pkg t) false = js_ty pkg t.
Proof. destruct t; intro H; try discriminate; reflexivity. Qed.

Definition fc2_field (pkg : string) (sf : sfield) : field :=
  mkField (sf_name sf) [] (set_nullable (js_ty pkg (sf_type sf)) (negb (sf_req sf))) (sf_req sf).
Lemma fc2_nrfn_js_field pkg sf : sfield_plain sf = true -> nrfn_field (js_field pkg sf) = fc2_field pkg sf.
Proof.
  unfold sfield_plain. intro H. apply andb_true_iff in H. destruct H as [H P]. apply andb_true_iff in H. destruct H as [N _].
  apply negb_true_iff in N. unfold nrfn_field, js_field, fc2_field. rewrite N. cbn [f_name f_comments f_type f_required].
  rewrite (fc2_js_ty_nullable pkg _ P). destruct (sf_req sf); cbn [negb andb]; [rewrite (fc2_js_ty_set_false pkg _ P)|]; reflexivity.
Qed.

Lemma fc2_resolve_nonref c t : is_ref t = false -> GoSemBase.resolve c t = Some t.
Proof. destruct t; intro H; try discriminate; reflexivity. Qed.

Lemma fc2_arr_scalars c pkg : forall f t b, s_arr_scalars f t = true ->
  array_of_scalars c f (set_nullable (js_ty pkg t) b) = true.
Proof.
  induction f as [|f IH]; intros t b H; [discriminate|].
  cbn [s_arr_scalars] in H. destruct t; try discriminate.
  cbn [js_ty set_nullable set_attrs ty_attrs array_of_scalars]. rewrite fc2_resolve_nonref by reflexivity.
  destruct t; try discriminate; try (rewrite fc2_resolve_nonref by reflexivity; reflexivity).
  rewrite fc2_resolve_nonref by reflexivity. cbn [js_ty].
  specialize (IH (SArray t) false H). cbn [js_ty set_nullable set_attrs ty_attrs] in IH. exact IH.
Qed.
Lemma fc2_map_scalars c pkg : forall f t b, s_map_scalars f t = true ->
  map_of_scalars c f (set_nullable (js_ty pkg t) b) = true.
Proof.
  induction f as [|f IH]; intros t b H; [discriminate|].
  cbn [s_map_scalars] in H. destruct t; try discriminate.
  cbn [js_ty set_nullable set_attrs ty_attrs map_of_scalars]. rewrite fc2_resolve_nonref by reflexivity.
  destruct t; try discriminate; try (rewrite fc2_resolve_nonref by reflexivity; reflexivity).
  rewrite fc2_resolve_nonref by reflexivity. cbn [js_ty].
  specialize (IH (SMap t) false H). cbn [js_ty set_nullable set_attrs ty_attrs] in IH. exact IH.
Qed.

Lemma fc2_scalar_safe c src pkg t j b : s_is_scalar t = true -> fc_nonnull j = true -> s_scalar_safe t j = true ->
  rtsF c src j (set_nullable (js_ty pkg t) b) = true.
Proof.
  intros S N H. destruct t; try discriminate; cbn [js_ty t_bool set_nullable set_attrs ty_attrs]; rewrite fc2_rtsF_scalar by exact N;
    destruct j; try discriminate; try reflexivity; exact H.
Qed.

Lemma fc2_nilable c pkg t : sty_plain t = true -> nilable c (set_nullable (js_ty pkg t) true) = true.
Proof. destruct t; intro H; try discriminate; reflexivity. Qed.

(* ---------- the walk ---------- *)
Section Safe.
  Variable s : src_schema.
  Hypothesis Hs : chain_plain s = true.
  Let defs := src_defs s.
  Let pkg := src_pkg s.
  Let ctx := parse_ctx s.
  Let out := nrfn_only ctx.

  Lemma fc2_def_struct n sfs : src_lookup defs n = Some (SStruct sfs) ->
    sfs <> [] /\ forallb sfield_plain sfs = true /\ str_nodup (map sf_name sfs) = true /\
    forall a, payload_type out (TRef a pkg n) =
              PTy (TStruct attrs0 [] (map nrfn_field (sort_fields (map (js_field pkg) sfs)))).
  Proof.
    intro L. destruct (fc_chain_plain_parts s Hs) as [W [J [_ P]]].
    destruct (src_wf_parts s W) as [_ [_ A]].
    pose proof (src_lookup_some_in _ _ _ L) as I. specialize (P _ I). cbn [snd] in P.
    destruct (A _ _ I) as [JS [_ [R _]]].
    destruct sfs as [|f fs]; [discriminate|]. cbn [sdef_plain] in P.
    repeat split; try assumption; try discriminate.
    - cbn [js_supported] in JS. apply andb_true_iff in JS. exact (proj1 JS).
    - intro a. apply (fc_payload_ref ctx a pkg n (obj_of pkg n (SStruct (f :: fs))) attrs0).
      + apply chain_plain_ctx_plain. exact Hs.
      + unfold ctx, pkg. rewrite (locate_parse s n J), R. unfold defs in L. rewrite L. reflexivity.
      + reflexivity.
      + reflexivity.
  Qed.

  Definition fc2_safe_at (j : json) : Prop :=
    forall src t b, sty_plain t = true -> src_safe_ty defs src j t = true ->
                    rtsF out src j (set_nullable (js_ty pkg t) b) = true.

  Lemma fc2_struct_case n sfs ms a :
    src_lookup defs n = Some (SStruct sfs) ->
    Forall (fun kv => fc2_safe_at (snd kv)) ms ->
    src_safe_ty defs RField (JObj ms) (SRef n) = true ->
    forall src, rtsF out src (JObj ms) (TRef a pkg n) = true.
  Proof.
    intros L IH H src. destruct (fc2_def_struct n sfs L) as [NE [PF [ND PT]]].
    rewrite (fc2_rtsF_ref_struct out src (JObj ms) a pkg n _ _ eq_refl (PT a)).
    cbn [src_safe_ty] in H. rewrite L in H. apply andb_true_iff in H. destruct H as [H1 H2].
    assert (forall sf, In sf sfs -> nrfn_field (js_field pkg sf) = fc2_field pkg sf) as NF.
    { intros sf Hin. apply fc2_nrfn_js_field. exact (proj1 (forallb_forall _ _) PF sf Hin). }
    assert (str_nodup (map (fun f => f_name f) (map nrfn_field (sort_fields (map (js_field pkg) sfs)))) = true) as N1.
    { rewrite fc2_names_out. exact ND. }
    rewrite N1. cbn [andb]. unfold fc2_struct_safe. rewrite N1, andb_true_r.
    apply andb_true_iff. split; [apply andb_true_iff; split|].
    - (* members *)
      rewrite Forall_forall in IH. apply forallb_forall. intros kv Hkv.
      pose proof (proj1 (forallb_forall _ _) H1 kv Hkv) as Hm. cbn beta in Hm.
      rewrite fc_find_nrfn, find_sort_fields, (find_map_field (js_field pkg)) by (intro; reflexivity).
      destruct (find (fun f => seqb (sf_name f) (fst kv)) sfs) as [sf|] eqn:Ef; [|reflexivity]. cbn [option_map].
      apply find_some in Ef. destruct Ef as [Ef _]. rewrite (NF sf Ef). unfold fc2_field. cbn [f_type f_required].
      apply andb_true_iff in Hm. destruct Hm as [Hm1 Hm2]. rewrite Hm2, andb_true_r.
      apply (IH kv Hkv RField (sf_type sf) (negb (sf_req sf))); [|exact Hm1].
      pose proof (proj1 (forallb_forall _ _) PF sf Ef) as X. unfold sfield_plain in X. apply andb_true_iff in X. exact (proj2 X).
    - (* required members present *)
      rewrite fc_forallb_map, fc_forallb_sort_fields, fc_forallb_map. revert H2. apply fc_forallb_impl. intros sf _ X. exact X.
    - (* optional members are nil-able *)
      rewrite fc_forallb_map, fc_forallb_sort_fields, fc_forallb_map. apply forallb_forall. intros sf Hin.
      rewrite (NF sf Hin). unfold fc2_field. cbn [f_type f_required]. destruct (sf_req sf); [reflexivity|]. cbn [negb orb].
      apply fc2_nilable. pose proof (proj1 (forallb_forall _ _) PF sf Hin) as X. unfold sfield_plain in X.
      apply andb_true_iff in X. exact (proj2 X).
  Qed.

  Lemma fc2_ref_nonobj j n a src : fc_nonnull j = true -> (forall ms, j <> JObj ms) ->
    src_safe_ty defs src j (SRef n) = true -> rtsF out src j (TRef a pkg n) = true.
  Proof.
    intros N NO H.
    assert (exists sfs, src_lookup defs n = Some (SStruct sfs)) as [sfs L].
    { destruct j; try discriminate; cbn [src_safe_ty] in H;
        destruct (src_lookup defs n) as [[]|]; try discriminate; eexists; reflexivity. }
    destruct (fc2_def_struct n sfs L) as [_ [_ [ND PT]]].
    rewrite (fc2_rtsF_ref_struct out src _ a pkg n _ _ N (PT a)).
    rewrite fc2_names_out, ND.
    destruct j; try reflexivity. exfalso. apply (NO ms). reflexivity.
  Qed.

  Lemma fc2_safe_walk : forall j, fc2_safe_at j.
  Proof.
    induction j using fc_json_ind; intros src t nb P HS; try discriminate.
    all: destruct t; try discriminate.
    (* scalars *)
    all: try (apply fc2_scalar_safe; [reflexivity|reflexivity|exact HS]).
    (* references, document not an object *)
    all: try (cbn [js_ty set_nullable set_attrs ty_attrs]; apply fc2_ref_nonobj; [reflexivity|discriminate|exact HS]).
    (* arrays and maps *)
    all: cbn [js_ty set_nullable set_attrs ty_attrs].
    all: try (rewrite fc2_rtsF_array by reflexivity; try reflexivity).
    all: try (rewrite fc2_rtsF_map by reflexivity; try reflexivity).
    - (* array, array *)
      cbn [src_safe_ty] in HS. apply andb_true_iff in HS. destruct HS as [H1 H2]. apply andb_true_iff. split.
      + rewrite Forall_forall in H. apply forallb_forall. intros x Hx.
        cbn [sty_plain] in P. rewrite <- (fc2_js_ty_set_false pkg t P).
        apply (H x Hx RElem t false P). exact (proj1 (forallb_forall _ _) H1 x Hx).
      + apply orb_true_iff in H2. destruct H2 as [H2|H2]; [|rewrite H2; apply orb_true_r].
        pose proof (fc2_arr_scalars out pkg 8 (SArray t) (nullable (ty_attrs (set_nullable (js_ty pkg (SArray t)) nb))) H2) as X.
        cbn [js_ty set_nullable set_attrs ty_attrs nullable] in X. rewrite X. reflexivity.
    - (* map, object *)
      cbn [src_safe_ty] in HS. apply andb_true_iff in HS. destruct HS as [H1 H2]. apply andb_true_iff. split.
      + rewrite Forall_forall in H. apply forallb_forall. intros x Hx.
        cbn [sty_plain] in P. rewrite <- (fc2_js_ty_set_false pkg t P).
        apply (H x Hx RVal t false P). exact (proj1 (forallb_forall _ _) H1 x Hx).
      + apply orb_true_iff in H2. destruct H2 as [H2|H2]; [|rewrite H2; apply orb_true_r].
        pose proof (fc2_map_scalars out pkg 8 (SMap t) (nullable (ty_attrs (set_nullable (js_ty pkg (SMap t)) nb))) H2) as X.
        cbn [js_ty set_nullable set_attrs ty_attrs nullable] in X. rewrite X. reflexivity.
    - (* reference, object *)
      assert (exists sfs, src_lookup defs name = Some (SStruct sfs)) as [sfs L].
      { cbn [src_safe_ty] in HS. destruct (src_lookup defs name) as [[]|]; try discriminate; eexists; reflexivity. }
      apply (fc2_struct_case name sfs l _ L H HS).
  Qed.

  Theorem fc2_src_safe_rtsF tname d : src_safe s tname d = true -> roundtrip_safeF out pkg tname d = true.
  Proof.
    unfold src_safe, roundtrip_safeF. intro H.
    exact (fc2_safe_walk d RField (SRef tname) false eq_refl H).
  Qed.
End Safe.

Theorem src_safe_roundtrip_safeF s tname d :
  chain_plain s = true -> src_safe s tname d = true ->
  roundtrip_safeF (nrfn_only (parse_ctx s)) (src_pkg s) tname d = true.
Proof. intros H S. apply fc2_src_safe_rtsF; assumption. Qed.

Theorem src_valid_roundtrip_source s tname d :
  chain_plain s = true -> json_wf d = true -> json_ints_int64 d = true ->
  str_in tname (map fst (src_defs s)) = true -> src_safe s tname d = true ->
  src_valid_doc "jsonschema" s tname d = true ->
  exists out, process chain_go (parse_ctx s) = Ok out /\ roundtrip_holds out (src_pkg s) tname d = true.
Proof.
  intros H WF HI IN SS SV. exists (nrfn_only (parse_ctx s)). split; [apply chain_go_plain_explicit; exact H|].
  apply (src_valid_roundtrip_plain_closed s tname d _ H WF HI (chain_go_plain_explicit s H) IN SV).
  apply src_safe_roundtrip_safeF; assumption.
Qed.

(* ---------- non-vacuity and the need for the conjuncts ---------- *)
Lemma src_safe_nonvacuous :
  chain_plain sPlain = true /\ json_wf dPlain = true /\ json_ints_int64 dPlain = true /\
  str_in "Root" (map fst (src_defs sPlain)) = true /\ src_safe sPlain "Root" dPlain = true /\
  src_valid_doc "jsonschema" sPlain "Root" dPlain = true.
Proof. vm_compute. repeat split; reflexivity. Qed.

(* each witness: a plain schema, a VALID document failing exactly one conjunct of src_safe, and the round trip fails *)
Definition sSafeW : src_schema :=
  mkSrc "p" "Root" [("Root", SStruct [mkSField "items" (SArray (SString None None)) false false false;
                                      mkSField "n" (SInt "int64" None None None None) false false false;
                                      mkSField "when" SDateTime false false false;
                                      mkSField "grid" (SArray (SArray (SRef "Cell"))) false false false]);
                    ("Cell", SStruct [mkSField "x" SBool true false false])].
Definition fc2_fails (d : json) : Prop :=
  chain_plain sSafeW = true /\ json_wf d = true /\ json_ints_int64 d = true /\
  src_valid_doc "jsonschema" sSafeW "Root" d = true /\ src_safe sSafeW "Root" d = false /\
  roundtrip_holds (nrfn_only (parse_ctx sSafeW)) "p" "Root" d = false.
Lemma src_safe_needed_empty_optional : fc2_fails (JObj [("items", JArr [])]).
Proof. vm_compute. repeat split; reflexivity. Qed.
Lemma src_safe_needed_int_literal : fc2_fails (JObj [("n", JNum 10 (-1))]).
Proof. vm_compute. repeat split; reflexivity. Qed.
Lemma src_safe_needed_datetime_form : fc2_fails (JObj [("when", JStr "2020-01-02T03:04:05.000Z")]).
Proof. vm_compute. repeat split; reflexivity. Qed.
Lemma src_safe_needed_nested_array : fc2_fails (JObj [("grid", JArr [JArr [JObj [("x", JBool true)]]])]).
Proof. vm_compute. repeat split; reflexivity. Qed.

Print Assumptions src_safe_roundtrip_safeF.
Print Assumptions src_valid_roundtrip_source.
Print Assumptions src_safe_nonvacuous.
