(* C07: proofs about Consolidate / Merge (Model/Pipeline.v) and the language loop. *)
From Coq Require Import List String Bool Arith Lia Permutation.
From Cog Require Import Model.Pipeline Proofs.PermLemmas.
Import ListNotations.
Local Open Scope list_scope.

(* ------------------------------------------------------------------ association lists *)
Lemma seqb_eq : forall a b, seqb a b = true <-> a = b.
Proof. intros. unfold seqb. apply String.eqb_eq. Qed.
Lemma seqb_neq : forall a b, seqb a b = false <-> a <> b.
Proof. intros. unfold seqb. apply String.eqb_neq. Qed.

Lemma objs_get_app_none : forall l k k' o, objs_get l k = None ->
  objs_get (l ++ [(k, o)]) k' = if seqb k k' then Some o else objs_get l k'.
Proof.
  induction l as [|[a b] l IH]; simpl; intros k k' o H; auto.
  destruct (seqb a k) eqn:E; [discriminate|].
  destruct (seqb a k') eqn:E'.
  - apply seqb_eq in E'. subst. rewrite seqb_neq in E.
    assert (seqb k k' = false) as -> by (apply seqb_neq; congruence). reflexivity.
  - apply IH; auto.
Qed.

Lemma objs_set_absent : forall l k o, objs_get l k = None -> objs_set l k o = l ++ [(k, o)].
Proof.
  induction l as [|[a b] l IH]; simpl; intros; auto. destruct (seqb a k); [discriminate|]. now rewrite IH.
Qed.

Lemma objs_get_in : forall l k o, objs_get l k = Some o -> In (k, o) l.
Proof.
  induction l as [|[a b] l IH]; simpl; intros k o H; [discriminate|].
  destruct (seqb a k) eqn:E.
  - apply seqb_eq in E. inversion H; subst. auto.
  - right. auto.
Qed.

Lemma objs_get_none_notin : forall l k, objs_get l k = None -> ~ In k (map fst l).
Proof.
  induction l as [|[a b] l IH]; simpl; intros k H; [tauto|].
  destruct (seqb a k) eqn:E; [discriminate|]. apply seqb_neq in E. intros [?|?]; [congruence|]. eapply IH; eauto.
Qed.

Lemma in_objs_get : forall l k o, NoDup (map fst l) -> In (k, o) l -> objs_get l k = Some o.
Proof.
  induction l as [|[a b] l IH]; simpl; intros k o Hnd Hin; [contradiction|].
  inversion Hnd; subst. destruct Hin as [Heq|Hin].
  - inversion Heq; subst. unfold seqb. now rewrite String.eqb_refl.
  - destruct (seqb a k) eqn:E; [|auto]. apply seqb_eq in E. subst. exfalso. apply H1.
    change k with (fst (k, o)). now apply in_map.
Qed.

Lemma notin_objs_get_none : forall l k, ~ In k (map fst l) -> objs_get l k = None.
Proof.
  induction l as [|[a b] l IH]; simpl; intros k H; auto.
  destruct (seqb a k) eqn:E; [apply seqb_eq in E; subst; tauto|]. apply IH. tauto.
Qed.

(* ------------------------------------------------------------------ Merge: objects *)
Definition keyed (l : list (string * object)) : Prop := Forall (fun ko => fst ko = o_name (snd ko)) l.

Lemma NoDup_snoc : forall A (l : list A) x, NoDup l -> ~ In x l -> NoDup (l ++ [x]).
Proof.
  intros. eapply Permutation_NoDup; [apply Permutation_cons_append|]. constructor; auto.
Qed.

Lemma NoDup_snoc_inv : forall A (l : list A) x, NoDup (l ++ [x]) -> NoDup l.
Proof. intros A l x H. apply NoDup_remove_1 in H. now rewrite app_nil_r in H. Qed.

Lemma wf_objects_app : forall l k o, wf_objects l -> objs_get l k = None -> k = o_name o ->
  wf_objects (l ++ [(k, o)]).
Proof.
  intros l k o [Hnd Hk] Hg Hn. split.
  - rewrite map_app. simpl. apply NoDup_snoc; auto. now apply objs_get_none_notin.
  - apply Forall_app. split; auto.
Qed.

Lemma merge_objects_spec : forall other acc c acc' c',
  wf_objects acc -> NoDup (map fst other) -> keyed other ->
  fold_left merge_step other (acc, c) = (acc', c') ->
  wf_objects acc' /\
  (c' = false -> c = false) /\
  (forall k o, objs_get acc k = Some o -> objs_get acc' k = Some o) /\
  (forall k o, In (k, o) other ->
     match objs_get acc k with
     | None => objs_get acc' k = Some o
     | Some o1 => objs_get acc' k = Some o1 /\ (c' = false -> object_eqb o1 o = true)
     end) /\
  (forall k o', In (k, o') acc' -> In (k, o') acc \/ In (k, o') other).
Proof.
  induction other as [|[k o] other IH]; simpl; intros acc c acc' c' Hwf Hnd Hk Hf.
  - inversion Hf; subst. split; [exact Hwf|]. split; [auto|]. split; [auto|]. split; [intros k o []|auto].
  - inversion Hnd as [|? ? Hnotin Hnd']; subst. inversion Hk as [|? ? Hkn Hk']; subst. simpl in Hkn.
    unfold merge_step at 2 in Hf. simpl in Hf.
    destruct (objs_get acc k) as [o1|] eqn:Hg.
    + (* present: must be Equal *)
      specialize (IH acc (c || negb (object_eqb o1 o)) acc' c' Hwf Hnd' Hk' Hf).
      destruct IH as (W & C & P & O & N). refine (conj W (conj _ (conj P (conj _ _)))).
      * intros Hc. specialize (C Hc). apply orb_false_iff in C. tauto.
      * intros k0 o0 [Heq|Hin].
        -- inversion Heq; subst. rewrite Hg. split; auto.
           intros Hc. specialize (C Hc). apply orb_false_iff in C. destruct C as [_ C].
           now apply negb_false_iff in C.
        -- apply O; auto.
      * intros k0 o0 Hin. destruct (N _ _ Hin); auto.
    + (* absent: added under its own name *)
      unfold add_object in Hf. rewrite <- Hkn in Hf. rewrite objs_set_absent in Hf by assumption.
      assert (Hwf1 : wf_objects (acc ++ [(k, o)])) by (apply wf_objects_app; auto).
      specialize (IH (acc ++ [(k, o)]) c acc' c' Hwf1 Hnd' Hk' Hf).
      destruct IH as (W & C & P & O & N). refine (conj W (conj C (conj _ (conj _ _)))).
      * intros k0 o0 H0. apply P. rewrite objs_get_app_none by assumption.
        destruct (seqb k k0) eqn:E; auto. apply seqb_eq in E. subst. congruence.
      * intros k0 o0 [Heq|Hin].
        -- inversion Heq; subst. rewrite Hg. apply P. rewrite objs_get_app_none by assumption.
           unfold seqb. now rewrite String.eqb_refl.
        -- specialize (O _ _ Hin). rewrite objs_get_app_none in O by assumption.
           destruct (seqb k k0) eqn:E; auto.
           apply seqb_eq in E. exfalso. apply Hnotin. rewrite E. exact (in_map fst _ (k0, o0) Hin).
      * intros k0 o0 Hin. destruct (N _ _ Hin) as [H|H]; auto.
        apply in_app_or in H. destruct H as [H|[H|[]]]; auto.
Qed.

(* ------------------------------------------------------------------ Merge / merge_all *)
Lemma merge_ok_inv : forall a s r, merge a s = Ok r ->
  s_pkg r = s_pkg a /\ s_meta r = s_meta a /\
  fold_left merge_step (s_objects s) (s_objects a, false) = (s_objects r, false).
Proof.
  unfold merge. intros a s r H.
  destruct (negb (seqb (s_pkg a) (s_pkg s))); [discriminate|].
  destruct (negb (meta_eqb (s_meta a) (s_meta s))); [discriminate|].
  unfold merge_objects in H.
  destruct (fold_left merge_step (s_objects s) (s_objects a, false)) as [objs c] eqn:E. simpl in H.
  destruct c; [discriminate|]. inversion H; subst. simpl. auto.
Qed.

Lemma merge_all_not_ok : forall group r0, is_ok r0 = false -> is_ok (merge_all r0 group) = false.
Proof.
  induction group; simpl; intros; auto. apply IHgroup. destruct r0; simpl in *; auto; discriminate.
Qed.

(* what a successful merge of a group guarantees *)
Definition agrees (r : schema) (s : schema) : Prop :=
  forall k o, In (k, o) (s_objects s) ->
    exists o', objs_get (s_objects r) k = Some o' /\ (o' = o \/ object_eqb o' o = true).

Lemma merge_all_spec : forall group a r,
  wf_objects (s_objects a) -> Forall wf_schema group ->
  merge_all (Ok a) group = Ok r ->
  wf_objects (s_objects r) /\ s_pkg r = s_pkg a /\
  (forall k o, objs_get (s_objects a) k = Some o -> objs_get (s_objects r) k = Some o) /\
  (forall s, In s group -> agrees r s) /\
  (forall k o', In (k, o') (s_objects r) ->
     In (k, o') (s_objects a) \/ exists s, In s group /\ In (k, o') (s_objects s)).
Proof.
  induction group as [|s group IH]; simpl; intros a r Hwf Hg H.
  - inversion H; subst. refine (conj Hwf (conj eq_refl (conj (fun _ _ h => h) (conj _ _)))); [intros s []|auto].
  - inversion Hg as [|? ? Hs Hg']; subst.
    destruct (merge a s) as [a1| | |] eqn:Em;
      try (pose proof (merge_all_not_ok group _ (eq_refl : is_ok (Err e) = false)) as X; simpl in H; rewrite H in X; discriminate);
      try (pose proof (merge_all_not_ok group _ (eq_refl : is_ok (Panic why) = false)) as X; simpl in H; rewrite H in X; discriminate);
      try (pose proof (merge_all_not_ok group (@OutOfFuel schema) eq_refl) as X; simpl in H; rewrite H in X; discriminate).
    simpl in H.
    destruct (merge_ok_inv _ _ _ Em) as (Hp & _ & Hf).
    destruct Hs as [Hnd Hk].
    destruct (merge_objects_spec _ _ _ _ _ Hwf Hnd Hk Hf) as (W & _ & P & O & N).
    destruct (IH a1 r W Hg' H) as (W' & Hp' & P' & A' & N').
    refine (conj W' (conj _ (conj _ (conj _ _)))).
    + congruence.
    + intros k o H0. apply P'. apply P. exact H0.
    + intros s' [<-|Hin]; [|auto].
      intros k o Hin. specialize (O _ _ Hin).
      destruct (objs_get (s_objects a) k) as [o1|] eqn:E.
      * destruct O as [O1 O2]. exists o1. split; [apply P'; auto|right; auto].
      * exists o. split; [apply P'; auto|left; auto].
    + intros k o' Hin. destruct (N' _ _ Hin) as [H1|[s' [H1 H2]]].
      * destruct (N _ _ H1); [left; auto|right; exists s; auto].
      * right. exists s'. auto.
Qed.

Lemma wf_objects_nil : wf_objects [].
Proof. split; constructor. Qed.

(* the union of the group's definitions, nothing invented, every input definition kept as is or
   Equal to the one kept *)
Definition union_of (group : list schema) (r : schema) : Prop :=
  (forall s, In s group -> agrees r s) /\
  (forall k o', In (k, o') (s_objects r) -> exists s, In s group /\ In (k, o') (s_objects s)).

Theorem merge_group_union : forall pkg group r, Forall wf_schema group ->
  merge_group pkg group = Ok r -> s_pkg r = pkg /\ union_of group r.
Proof.
  intros pkg group r Hwf H. destruct group as [|s0 group]; [discriminate|].
  unfold merge_group in H.
  destruct (merge_all_spec (s0 :: group) (new_schema pkg (s_meta s0)) r wf_objects_nil Hwf H) as (_ & Hp & _ & A & N).
  split; [exact Hp|]. split; auto.
  intros k o' Hin. destruct (N _ _ Hin) as [[]|X]; auto.
Qed.

Lemma mapM_ok_forall2 : forall A B (f : A -> res B) l r, mapM f l = Ok r -> Forall2 (fun x y => f x = Ok y) l r.
Proof.
  induction l; simpl; intros r H.
  - inversion H. constructor.
  - destruct (f a) eqn:E; try discriminate. simpl in H. destruct (mapM f l) eqn:E2; try discriminate.
    simpl in H. inversion H; subst. constructor; auto.
Qed.

Theorem merge_union_or_conflict_proof : forall seq r,
  Forall (fun pg => Forall wf_schema (snd pg)) seq ->
  consolidate_seq seq = Ok r ->
  Forall2 (fun pg rs => s_pkg rs = fst pg /\ union_of (snd pg) rs) seq r.
Proof.
  unfold consolidate_seq. intros seq r Hwf H. apply mapM_ok_forall2 in H.
  induction H; constructor.
  - inversion Hwf; subst. apply merge_group_union; auto.
  - inversion Hwf; subst. auto.
Qed.

(* two inputs of one package that define one name differently: the run fails *)
Theorem merge_conflict_err_proof : forall pkg s1 s2 k o1 o2,
  wf_schema s1 -> wf_schema s2 ->
  In (k, o1) (s_objects s1) -> In (k, o2) (s_objects s2) -> object_eqb o1 o2 = false ->
  is_ok (merge_group pkg [s1; s2]) = false.
Proof.
  intros pkg s1 s2 k o1 o2 W1 W2 I1 I2 Hne.
  destruct (merge_group pkg [s1; s2]) as [r| | |] eqn:E; auto. exfalso.
  unfold merge_group, merge_all in E. simpl in E.
  destruct (merge (new_schema pkg (s_meta s1)) s1) as [a1| | |] eqn:E1; try discriminate. simpl in E.
  destruct (merge_ok_inv _ _ _ E1) as (_ & _ & F1). destruct (merge_ok_inv _ _ _ E) as (_ & _ & F2).
  destruct W1 as [N1 K1]. destruct W2 as [N2 K2].
  destruct (merge_objects_spec _ _ _ _ _ wf_objects_nil N1 K1 F1) as (Wa & _ & _ & O1 & _).
  specialize (O1 _ _ I1). simpl in O1.
  destruct (merge_objects_spec _ _ _ _ _ Wa N2 K2 F2) as (_ & _ & _ & O2 & _).
  specialize (O2 _ _ I2). rewrite O1 in O2. destruct O2 as [_ O2]. rewrite (O2 eq_refl) in Hne. discriminate.
Qed.

(* ------------------------------------------------------------------ Consolidate and order *)
Lemma mapM_perm : forall A B (f : A -> res B) l l', Permutation l l' ->
  forall r, mapM f l = Ok r -> exists r', mapM f l' = Ok r' /\ Permutation r r'.
Proof.
  induction 1; simpl; intros r Hr.
  - exists r. auto.
  - destruct (f x) eqn:E; try discriminate. simpl in *. destruct (mapM f l) eqn:E2; try discriminate.
    simpl in Hr. inversion Hr; subst. destruct (IHPermutation _ eq_refl) as [r' [H1 H2]].
    rewrite H1. simpl. eexists; split; eauto.
  - destruct (f y) eqn:E; try discriminate. simpl in *. destruct (f x) eqn:E1; try discriminate. simpl in *.
    destruct (mapM f l) eqn:E2; try discriminate. simpl in Hr. inversion Hr; subst.
    exists (a0 :: a :: a1). split; [reflexivity|apply perm_swap].
  - destruct (IHPermutation1 _ Hr) as [r1 [H1 H2]]. destruct (IHPermutation2 _ H1) as [r2 [H3 H4]].
    exists r2. split; auto. eapply perm_trans; eauto.
Qed.

(* whatever order the runtime picks: same accept/reject, and the same schemas up to their order *)
Theorem consolidate_perm_proof : forall seq seq', Permutation seq seq' ->
  is_ok (consolidate_seq seq) = is_ok (consolidate_seq seq') /\
  forall r, consolidate_seq seq = Ok r -> exists r', consolidate_seq seq' = Ok r' /\ Permutation r r'.
Proof.
  intros seq seq' Hp. split.
  - unfold consolidate_seq.
    destruct (mapM _ seq) eqn:E1; destruct (mapM _ seq') eqn:E2; simpl; auto;
      try (destruct (mapM_perm _ _ _ _ _ Hp _ E1) as [? [X _]]; rewrite E2 in X; discriminate);
      try (destruct (mapM_perm _ _ _ _ _ (Permutation_sym Hp) _ E2) as [? [X _]]; rewrite E1 in X; discriminate).
  - intros r Hr. eapply mapM_perm; eauto.
Qed.

(* per-package view: Schemas.Locate *)
Lemma locate_perm : forall (r r' : schemas) pkg, NoDup (map s_pkg r) -> Permutation r r' ->
  locate r pkg = locate r' pkg.
Proof.
  intros r r' pkg Hnd Hp. unfold locate. induction Hp; simpl; auto.
  - inversion Hnd; subst. now rewrite IHHp.
  - destruct (seqb (s_pkg y) pkg) eqn:E1, (seqb (s_pkg x) pkg) eqn:E2; auto.
    apply seqb_eq in E1, E2. inversion Hnd; subst. exfalso. apply H1. simpl. left. congruence.
  - rewrite IHHp1 by assumption. apply IHHp2.
    eapply Permutation_NoDup; [apply Permutation_map; exact Hp1|assumption].
Qed.

Lemma consolidate_seq_pkgs : forall seq r, consolidate_seq seq = Ok r ->
  Forall (fun pg => snd pg <> []) seq -> map s_pkg r = map fst seq.
Proof.
  unfold consolidate_seq. intros seq r H. apply mapM_ok_forall2 in H. induction H; simpl; intros Hne; auto.
  inversion Hne; subst. f_equal; auto.
  destruct x as [p g]. simpl in *. destruct g as [|s0 g]; [congruence|].
  unfold merge_group in H.
  assert (forall group a r, merge_all (Ok a) group = Ok r -> s_pkg r = s_pkg a) as X.
  { induction group as [|s group IH]; simpl; intros a r0 Hm; [inversion Hm; auto|].
    destruct (merge a s) as [a1| | |] eqn:Em;
      try (pose proof (merge_all_not_ok group _ (eq_refl : is_ok (Err e) = false)) as Y; simpl in Hm; rewrite Hm in Y; discriminate);
      try (pose proof (merge_all_not_ok group _ (eq_refl : is_ok (Panic why) = false)) as Y; simpl in Hm; rewrite Hm in Y; discriminate);
      try (pose proof (merge_all_not_ok group (@OutOfFuel schema) eq_refl) as Y; simpl in Hm; rewrite Hm in Y; discriminate).
    simpl in Hm. rewrite (IH _ _ Hm). destruct (merge_ok_inv _ _ _ Em) as [Z _]. exact Z. }
  rewrite (X _ _ _ H). reflexivity.
Qed.

(* ------------------------------------------------------------------ grouping *)
Lemma group_add_keys_other : forall g s, In (s_pkg s) (map fst g) -> map fst (group_add g s) = map fst g.
Proof.
  induction g as [|[p l] g IH]; simpl; intros s H; [contradiction|].
  destruct (seqb p (s_pkg s)) eqn:E; simpl; auto. f_equal. apply IH.
  destruct H as [H|H]; auto. apply seqb_neq in E. congruence.
Qed.
Lemma group_add_fresh : forall g s, ~ In (s_pkg s) (map fst g) -> group_add g s = g ++ [(s_pkg s, [s])].
Proof.
  induction g as [|[p l] g IH]; simpl; intros s H; auto.
  destruct (seqb p (s_pkg s)) eqn:E; [apply seqb_eq in E; tauto|]. f_equal. apply IH. tauto.
Qed.

Lemma fold_group_add_distinct : forall ss g,
  NoDup (map fst g ++ map s_pkg ss) ->
  fold_left group_add ss g = g ++ map (fun s => (s_pkg s, [s])) ss.
Proof.
  induction ss as [|s ss IH]; simpl; intros g H; [now rewrite app_nil_r|].
  assert (Hn : ~ In (s_pkg s) (map fst g)).
  { intro X. apply NoDup_remove_2 in H. apply H. apply in_or_app. auto. }
  rewrite group_add_fresh by assumption. rewrite IH.
  - rewrite <- app_assoc. reflexivity.
  - rewrite map_app. simpl. rewrite <- app_assoc. simpl. exact H.
Qed.

(* inputs defining pairwise different packages: one singleton group per input, in input order *)
Lemma group_by_package_distinct : forall ss, NoDup (map s_pkg ss) ->
  group_by_package ss = map (fun s => (s_pkg s, [s])) ss.
Proof. intros. unfold group_by_package. rewrite fold_group_add_distinct; auto. Qed.

Theorem map_order_input_order_irrelevant_proof : forall ss ss' ord ord',
  NoDup (map s_pkg ss) -> Permutation ss ss' ->
  (forall l, Permutation (ord l) l) -> (forall l, Permutation (ord' l) l) ->
  is_ok (consolidate_map_order ord ss) = is_ok (consolidate_map_order ord' ss') /\
  forall r, consolidate_map_order ord ss = Ok r ->
    exists r', consolidate_map_order ord' ss' = Ok r' /\ Permutation r r' /\ forall pkg, locate r pkg = locate r' pkg.
Proof.
  intros ss ss' ord ord' Hnd Hp Ho Ho'. unfold consolidate_map_order.
  assert (Hnd' : NoDup (map s_pkg ss')) by (eapply Permutation_NoDup; [apply Permutation_map; exact Hp|auto]).
  rewrite !group_by_package_distinct by assumption.
  set (G := fun s : schema => (s_pkg s, [s])).
  assert (HP : Permutation (ord (map G ss)) (ord' (map G ss'))).
  { eapply perm_trans; [apply Ho|]. eapply perm_trans; [apply Permutation_map; exact Hp|]. apply Permutation_sym, Ho'. }
  destruct (consolidate_perm_proof _ _ HP) as [H1 H2]. split; auto.
  intros r Hr. destruct (H2 _ Hr) as [r' [Hr' Hpr]]. exists r'. repeat split; auto.
  intros pkg. apply locate_perm; auto.
  rewrite (consolidate_seq_pkgs _ _ Hr).
  - eapply Permutation_NoDup; [apply Permutation_map, Permutation_sym, Ho|].
    rewrite map_map. simpl. exact Hnd.
  - rewrite Forall_forall. intros pg Hin. eapply Permutation_in in Hin; [|apply Ho].
    apply in_map_iff in Hin. destruct Hin as [s [<- _]]. discriminate.
Qed.

(* ------------------------------------------------------------------ an extra, unreferenced input *)
Lemma locate_app_other : forall (r : schemas) x pkg, s_pkg x <> pkg -> locate (r ++ [x]) pkg = locate r pkg.
Proof.
  unfold locate. induction r; simpl; intros.
  - destruct (seqb (s_pkg x) pkg) eqn:E; auto. apply seqb_eq in E. congruence.
  - destruct (seqb (s_pkg a) pkg); auto.
Qed.

Lemma mapM_app_one : forall A B (f : A -> res B) l x r y, mapM f l = Ok r -> f x = Ok y -> mapM f (l ++ [x]) = Ok (r ++ [y]).
Proof.
  induction l; simpl; intros x r y H Hx.
  - inversion H; subst. rewrite Hx. reflexivity.
  - destruct (f a); try discriminate. simpl in *. destruct (mapM f l) eqn:E; try discriminate. simpl in H.
    inversion H; subst. rewrite (IHl _ _ _ eq_refl Hx). reflexivity.
Qed.

Lemma consolidate_seq_app_inv : forall seq x r', consolidate_seq (seq ++ [x]) = Ok r' ->
  exists r y, consolidate_seq seq = Ok r /\ merge_group (fst x) (snd x) = Ok y /\ r' = r ++ [y].
Proof.
  unfold consolidate_seq. induction seq; simpl; intros x r' H.
  - destruct (merge_group (fst x) (snd x)) eqn:E; try discriminate. simpl in H. inversion H; subst.
    exists [], a. auto.
  - destruct (merge_group (fst a) (snd a)) eqn:E; try discriminate. simpl in *.
    destruct (mapM _ (seq ++ [x])) eqn:E2; try discriminate. simpl in H. inversion H; subst.
    destruct (IHseq _ _ E2) as [r [y [H1 [H2 H3]]]]. subst. rewrite H1. simpl. exists (a0 :: r), y. auto.
Qed.

(* adding an input whose package no other input defines leaves every other package's schema
   exactly as it was (whatever iteration orders are drawn before and after) *)
Theorem map_order_unreferenced_input_irrelevant_proof : forall ss x ord ord',
  NoDup (map s_pkg (ss ++ [x])) ->
  (forall l, Permutation (ord l) l) -> (forall l, Permutation (ord' l) l) ->
  forall r', consolidate_map_order ord' (ss ++ [x]) = Ok r' ->
  exists r, consolidate_map_order ord ss = Ok r /\ forall pkg, pkg <> s_pkg x -> locate r pkg = locate r' pkg.
Proof.
  intros ss x ord ord' Hnd Ho Ho' r' Hr'.
  assert (HndS : NoDup (map s_pkg ss)).
  { rewrite map_app in Hnd. simpl in Hnd. apply NoDup_snoc_inv in Hnd. exact Hnd. }
  unfold consolidate_map_order in *. rewrite group_by_package_distinct in * by assumption.
  set (G := fun s : schema => (s_pkg s, [s])) in *.
  (* bring the run with x to the canonical order  (map G ss) ++ [G x] *)
  assert (HP : Permutation (ord' (map G (ss ++ [x]))) (map G ss ++ [G x])).
  { eapply perm_trans; [apply Ho'|]. rewrite map_app. simpl. auto. }
  destruct (consolidate_perm_proof _ _ HP) as [_ H2]. destruct (H2 _ Hr') as [r1 [Hr1 Hp1]].
  destruct (consolidate_seq_app_inv _ _ _ Hr1) as [r0 [y [H0 [Hy ->]]]].
  (* and the run without x from the canonical order to ord *)
  assert (HP0 : Permutation (map G ss) (ord (map G ss))) by (apply Permutation_sym, Ho).
  destruct (consolidate_perm_proof _ _ HP0) as [_ H3]. destruct (H3 _ H0) as [r [Hr Hp0]].
  exists r. split; auto. intros pkg Hne.
  assert (Hpk1 : map s_pkg (r0 ++ [y]) = map fst (map G ss ++ [G x])).
  { apply consolidate_seq_pkgs; auto. rewrite Forall_forall. intros pg Hin.
    apply in_app_or in Hin. destruct Hin as [Hin|[<-|[]]]; [|discriminate].
    apply in_map_iff in Hin. destruct Hin as [s [<- _]]. discriminate. }
  assert (Hnd1 : NoDup (map s_pkg (r0 ++ [y]))).
  { rewrite Hpk1. rewrite map_app, map_map. simpl. rewrite map_app in Hnd. exact Hnd. }
  rewrite <- (locate_perm (r0 ++ [y]) r' pkg Hnd1 (Permutation_sym Hp1)).
  assert (Hy' : s_pkg y = s_pkg x).
  { rewrite map_app in Hpk1. simpl in Hpk1. rewrite map_app in Hpk1. simpl in Hpk1.
    apply app_inj_tail in Hpk1. tauto. }
  rewrite locate_app_other by congruence.
  apply eq_sym, locate_perm; auto.
  rewrite map_app in Hnd1. simpl in Hnd1. apply NoDup_snoc_inv in Hnd1. exact Hnd1.
Qed.

(* ------------------------------------------------------------------ Consolidate's order is observable *)
Definition ex_schema (p : string) : schema :=
  mkSchema p {| m_kind := "" ; m_variant := "" ; m_identifier := "" |} "" ty_zero [].

Theorem consolidate_map_order_refuted_proof :
  exists ss ord ord', (forall l, Permutation (ord l) l) /\ (forall l, Permutation (ord' l) l) /\
    consolidate_map_order ord ss <> consolidate_map_order ord' ss.
Proof.
  exists [ex_schema "a"; ex_schema "b"], (fun l => l), (@rev _). repeat split.
  - intros; apply Permutation_refl.
  - intros; apply Permutation_sym, Permutation_rev.
  - vm_compute. discriminate.
Qed.

(* ------------------------------------------------------------------ the CURRENT Consolidate *)
Lemma consolidate_is_map_order_id : forall ss, consolidate ss = consolidate_map_order (fun l => l) ss.
Proof. reflexivity. Qed.

Lemma group_add_nonempty : forall g s, Forall (fun pg => snd pg <> []) g -> Forall (fun pg => snd pg <> []) (group_add g s).
Proof.
  induction g as [|[p l] g IH]; simpl; intros s H.
  - constructor; [discriminate|constructor].
  - inversion H; subst. destruct (seqb p (s_pkg s)).
    + constructor; auto. simpl. destruct l; discriminate.
    + constructor; auto.
Qed.
Lemma group_by_package_nonempty : forall ss, Forall (fun pg => snd pg <> []) (group_by_package ss).
Proof.
  unfold group_by_package. intros ss.
  assert (forall g, Forall (fun pg => snd pg <> []) g -> Forall (fun pg : string * list schema => snd pg <> []) (fold_left group_add ss g)) as X.
  { induction ss; simpl; intros; auto. apply IHss. now apply group_add_nonempty. }
  apply X. constructor.
Qed.

(* the packages come out in order of first appearance; for inputs of pairwise different packages:
   in input order *)
Theorem consolidate_result_order_proof : forall ss r, consolidate ss = Ok r ->
  map s_pkg r = map fst (group_by_package ss) /\
  (NoDup (map s_pkg ss) -> map s_pkg r = map s_pkg ss).
Proof.
  intros ss r H. unfold consolidate in H. split.
  - apply consolidate_seq_pkgs; auto. apply group_by_package_nonempty.
  - intros Hnd. rewrite (consolidate_seq_pkgs _ _ H (group_by_package_nonempty ss)).
    rewrite group_by_package_distinct by assumption. rewrite map_map. reflexivity.
Qed.

(* permuting inputs of pairwise different packages: same accept/reject, every per-package schema
   unchanged, the returned list is the corresponding permutation (and nothing else changes) *)
Theorem input_order_irrelevant_proof : forall ss ss',
  NoDup (map s_pkg ss) -> Permutation ss ss' ->
  is_ok (consolidate ss) = is_ok (consolidate ss') /\
  forall r, consolidate ss = Ok r ->
    exists r', consolidate ss' = Ok r' /\ Permutation r r' /\ (forall pkg, locate r pkg = locate r' pkg) /\
               map s_pkg r = map s_pkg ss /\ map s_pkg r' = map s_pkg ss'.
Proof.
  intros ss ss' Hnd Hp.
  destruct (map_order_input_order_irrelevant_proof ss ss' (fun l => l) (fun l => l) Hnd Hp
              (fun l => Permutation_refl l) (fun l => Permutation_refl l)) as [H1 H2].
  split; [exact H1|]. intros r Hr. destruct (H2 r Hr) as [r' [Hr' [Hpr Hl]]].
  exists r'. repeat split; auto.
  - apply (consolidate_result_order_proof ss r Hr); auto.
  - apply (consolidate_result_order_proof ss' r' Hr').
    eapply Permutation_NoDup; [apply Permutation_map; exact Hp|exact Hnd].
Qed.

(* adding an input whose package no other input defines: the result is the old result, unchanged
   and in the same order, followed by the new package's schema *)
Theorem unreferenced_input_irrelevant_proof : forall ss x r',
  NoDup (map s_pkg (ss ++ [x])) -> consolidate (ss ++ [x]) = Ok r' ->
  exists r y, consolidate ss = Ok r /\ r' = r ++ [y] /\ s_pkg y = s_pkg x /\
              forall pkg, pkg <> s_pkg x -> locate r pkg = locate r' pkg.
Proof.
  intros ss x r' Hnd Hr'.
  assert (HndS : NoDup (map s_pkg ss)).
  { rewrite map_app in Hnd. simpl in Hnd. apply NoDup_snoc_inv in Hnd. exact Hnd. }
  pose proof (consolidate_result_order_proof _ _ Hr') as [_ Hord]. specialize (Hord Hnd).
  unfold consolidate in *. rewrite group_by_package_distinct in * by assumption.
  rewrite map_app in Hr'. simpl in Hr'.
  destruct (consolidate_seq_app_inv _ _ _ Hr') as [r [y [H0 [Hy ->]]]].
  exists r, y. split; [exact H0|]. split; [reflexivity|].
  assert (Hy' : s_pkg y = s_pkg x).
  { rewrite !map_app in Hord. simpl in Hord. apply app_inj_tail in Hord. tauto. }
  split; [exact Hy'|]. intros pkg Hne. rewrite locate_app_other by congruence. reflexivity.
Qed.
