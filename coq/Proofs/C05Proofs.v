From Coq Require Import List String Bool Lia.
From Cog Require Import Model.IR Model.Passes Model.Filter Model.Refs Proofs.PassLemmas Proofs.TyInd.
Import ListNotations.
Local Open Scope list_scope.

(* ---------- well-formed schema sets ---------- *)
Definition wf_object_in (s : schema) (ko : string * object) : Prop :=
  fst ko = o_name (snd ko) /\ o_selfname (snd ko) = o_name (snd ko) /\ o_selfpkg (snd ko) = s_pkg s.
Definition wf_schema2 (s : schema) : Prop :=
  NoDup (map fst (s_objects s)) /\ Forall (wf_object_in s) (s_objects s).

(* references hidden from the visitor: inside enum member types and hint disjunctions *)
Fixpoint hidden_refs (t : ty) : list (string * string) :=
  match t with
  | TDisj _ d => flat_map hidden_refs (d_branches d)
  | TArray _ v => hidden_refs v
  | TEnum _ vs => flat_map (fun v => all_refs (ev_type v)) vs
  | TMap _ i v => hidden_refs i ++ hidden_refs v
  | TStruct _ dh fs =>
      flat_map (fun kd => flat_map all_refs (d_branches (snd kd))) dh ++
      flat_map (fun f => hidden_refs (f_type f)) fs
  | TInter _ bs => flat_map hidden_refs bs
  | _ => []
  end.
Definition hidden_free (t : ty) : Prop := hidden_refs t = [].

(* a leaf rewriting that only retargets references *)
Definition retargets (leaf : ty -> ty) (g : string * string -> string * string) : Prop :=
  (forall a p n, leaf (TRef a p n) = TRef a (fst (g (p, n))) (snd (g (p, n)))) /\
  (forall a p n v, leaf (TConstRef a p n v) = TConstRef a (fst (g (p, n))) (snd (g (p, n))) v) /\
  (forall a vs, leaf (TEnum a vs) = TEnum a vs) /\
  (forall a k v cs, leaf (TScalar a k v cs) = TScalar a k v cs).

Lemma flat_map_map {A B C} (f : A -> B) (g : B -> list C) l : flat_map g (map f l) = flat_map (fun x => g (f x)) l.
Proof. induction l as [|x r IH]; [reflexivity|]. simpl. rewrite IH. reflexivity. Qed.

Lemma flat_map_ext_in {A B} (f g : A -> list B) l : (forall x, In x l -> f x = g x) -> flat_map f l = flat_map g l.
Proof.
  induction l as [|x r IH]; intros H; [reflexivity|]. simpl. rewrite H by (left; reflexivity).
  f_equal. apply IH. intros y Hy. apply H. right; assumption.
Qed.

Lemma map_flat_map {A B C} (h : B -> C) (f : A -> list B) l : map h (flat_map f l) = flat_map (fun x => map h (f x)) l.
Proof. induction l as [|x r IH]; [reflexivity|]. simpl. rewrite map_app, IH. reflexivity. Qed.

Lemma app_nil_both {A} (a b : list A) : a ++ b = [] -> a = [] /\ b = [].
Proof. destruct a; simpl; intros H; [auto|discriminate]. Qed.

Lemma flat_map_nil {A B} (f : A -> list B) l : flat_map f l = [] -> forall x, In x l -> f x = [].
Proof.
  induction l as [|y r IH]; intros H x Hin; [inversion Hin|]. simpl in H.
  apply app_nil_both in H. destruct H as [H1 H2]. destruct Hin as [<-|Hin]; [assumption|apply IH; assumption].
Qed.

(* the references of a rewritten type are the rewritten references, in the same order *)
Lemma all_refs_tmap leaf g : retargets leaf g ->
  forall t, hidden_free t -> all_refs (tmap leaf t) = map g (all_refs t).
Proof.
  intros [HR [HC [HE HS]]]. unfold hidden_free.
  induction t as [a d IH|a v IH|a vs IH|a i v IHi IHv|a dh fs IHd IHf|a p n|a p n v|a k v cs|a bs IH|a v|a k]
    using ty_ind'; intros Hh; simpl in *.
  - rewrite flat_map_map, map_flat_map. apply flat_map_ext_in. intros x Hx.
    rewrite Forall_forall in IH. apply IH; [assumption|]. apply (flat_map_nil _ _ Hh). assumption.
  - apply IH. assumption.
  - rewrite HE. simpl. rewrite Hh. reflexivity.
  - apply app_nil_both in Hh. destruct Hh as [H1 H2]. rewrite map_app, IHi, IHv by assumption. reflexivity.
  - apply app_nil_both in Hh. destruct Hh as [H1 H2]. rewrite H1. simpl.
    rewrite flat_map_map, map_flat_map. apply flat_map_ext_in. intros f Hf. simpl.
    rewrite Forall_forall in IHf. apply IHf; [assumption|]. apply (flat_map_nil _ _ H2). assumption.
  - rewrite HR. simpl. destruct (g (p, n)); reflexivity.
  - rewrite HC. simpl. destruct (g (p, n)); reflexivity.
  - rewrite HS. reflexivity.
  - rewrite flat_map_map, map_flat_map. apply flat_map_ext_in. intros x Hx.
    rewrite Forall_forall in IH. apply IH; [assumption|]. apply (flat_map_nil _ _ Hh). assumption.
  - reflexivity.
  - reflexivity.
Qed.

(* ---------- rename_object ---------- *)
Definition rename_pair (pkg obj to : string) (r : string * string) : string * string :=
  if objref_matches_ref (pkg, obj) (fst r) (snd r) then (fst r, to) else r.

Lemma rename_retargets pkg obj to : retargets (rename_ref_leaf pkg obj to) (rename_pair pkg obj to).
Proof.
  unfold retargets, rename_ref_leaf, rename_pair. repeat split; intros; simpl;
    try (destruct (objref_matches_ref (pkg, obj) p n); reflexivity); reflexivity.
Qed.

(* keys present after re-adding every (possibly renamed) object *)
Lemma add_object_keys l o k :
  In k (map fst (add_object l o)) <-> In k (map fst l) \/ k = o_name o.
Proof.
  unfold add_object. induction l as [|[k' o'] r IH]; simpl.
  - split; [intros [H|[]]; right; auto|intros [[]|H]; left; auto].
  - destruct (seqb k' (o_name o)) eqn:E; simpl.
    + apply seqb_eq in E. split; [intros [H|H]; auto|intros [[H|H]|H]; auto]. left. congruence.
    + rewrite IH. tauto.
Qed.

Lemma fold_add_keys (g : object -> object) (l : list (string * object)) : forall acc k,
  In k (map fst (fold_left (fun a ko => add_object a (g (snd ko))) l acc))
  <-> In k (map fst acc) \/ exists ko, In ko l /\ k = o_name (g (snd ko)).
Proof.
  induction l as [|ko r IH]; intros acc k; simpl.
  - split; [auto|intros [H|[x [[] _]]]; assumption].
  - rewrite IH, add_object_keys. split.
    + intros [[H|H]|[x [Hx E]]]; [left; assumption|right; exists ko; auto|right; exists x; auto].
    + intros [H|[x [[<-|Hx] E]]]; [left; left; assumption|left; right; assumption|right; exists x; auto].
Qed.

Lemma objs_has_in l k : objs_has l k = true <-> In k (map fst l).
Proof.
  unfold objs_has. induction l as [|[k' o'] r IH]; simpl; [split; [discriminate|intros []]|].
  destruct (seqb k' k) eqn:E.
  - apply seqb_eq in E. split; [intros _; left; assumption|reflexivity].
  - apply seqb_neq in E. rewrite IH. split; [intros H; right; assumption|intros [H|H]; [contradiction|assumption]].
Qed.

Definition refs_resolve (ss : schemas) : Prop :=
  forall s r, In s ss -> In r (schema_refs s) -> loaded ss (fst r) = true -> object_exists ss (fst r) (snd r) = true.
Definition entries_resolve (ss : schemas) : Prop :=
  forall s, In s ss -> s_entry s <> EmptyString -> objs_has (s_objects s) (s_entry s) = true.

Lemma locate_map (F : schema -> schema) ss p :
  (forall s, s_pkg (F s) = s_pkg s) -> locate (map F ss) p = option_map F (locate ss p).
Proof.
  intros H. unfold locate. induction ss as [|s r IH]; [reflexivity|]. simpl. rewrite H.
  destruct (seqb (s_pkg s) p); [reflexivity|assumption].
Qed.

Lemma locate_pkg ss p s : locate ss p = Some s -> s_pkg s = p /\ In s ss.
Proof.
  unfold locate. intros H. apply find_some in H. destruct H as [Hin E]. apply seqb_eq in E. auto.
Qed.

(* ---------- generic: a transformation that renames objects and retargets references alike ---------- *)
Section Retarget.
  Variables (T : ty -> ty) (G : object -> object) (g : string * string -> string * string)
            (E : schema -> string).
  Hypothesis HT : forall t, hidden_free t -> all_refs (T t) = map g (all_refs t).
  Hypothesis HGt : forall o, o_type (G o) = T (o_type o).
  Hypothesis Hfst : forall r, fst (g r) = fst r.
  Hypothesis HGn : forall s ko, wf_object_in s ko -> o_name (G (snd ko)) = snd (g (s_pkg s, fst ko)).
  Hypothesis HE : forall s, s_entry s <> EmptyString -> E s = snd (g (s_pkg s, s_entry s)).

  Definition RF (s : schema) : schema :=
    mkSchema (s_pkg s) (s_meta s) (E s) (T (s_entrytype s))
             (fold_left (fun acc ko => add_object acc (G (snd ko))) (s_objects s) []).

  Lemma RF_exists_after ss p n :
    Forall wf_schema2 ss -> object_exists ss p n = true ->
    object_exists (map RF ss) p (snd (g (p, n))) = true.
  Proof.
    intros Hwf Hex. unfold object_exists, locate_object in *.
    rewrite (locate_map RF ss p (fun s => eq_refl)).
    destruct (locate ss p) as [s|] eqn:Hl; [|discriminate]. simpl.
    destruct (locate_pkg ss p s Hl) as [Hp Hin]. rewrite Forall_forall in Hwf. destruct (Hwf s Hin) as [_ Hobjs].
    destruct (objs_get (s_objects s) n) as [o|] eqn:Hg; [|discriminate].
    assert (In (n, o) (s_objects s)) as Hno.
    { clear - Hg. induction (s_objects s) as [|[k' o'] r IH]; [discriminate|]. simpl in Hg.
      destruct (seqb k' n) eqn:E0; [apply seqb_eq in E0; inversion Hg; subst; left; reflexivity|right; auto]. }
    rewrite Forall_forall in Hobjs. pose proof (Hobjs (n, o) Hno) as Hw.
    assert (objs_has (fold_left (fun acc ko => add_object acc (G (snd ko))) (s_objects s) []) (snd (g (p, n))) = true) as Hhas.
    { apply objs_has_in. apply fold_add_keys. right. exists (n, o). split; [assumption|].
      rewrite (HGn s (n, o) Hw). rewrite Hp. reflexivity. }
    unfold objs_has in Hhas. cbn [RF s_objects]. exact Hhas.
  Qed.

  Lemma RF_loaded ss p : loaded (map RF ss) p = loaded ss p.
  Proof. unfold loaded. rewrite (locate_map RF ss p (fun s => eq_refl)). destruct (locate ss p); reflexivity. Qed.

  Lemma fold_add_image (l : list (string * object)) : forall acc k o',
    In (k, o') (fold_left (fun acc ko => add_object acc (G (snd ko))) l acc) ->
    In (k, o') acc \/ exists ko, In ko l /\ o' = G (snd ko).
  Proof.
    induction l as [|x r IH]; intros acc k o' H; [left; assumption|]. simpl in H. apply IH in H.
    destruct H as [H|[ko [Hk E0]]]; [|right; exists ko; split; [right; assumption|assumption]].
    unfold add_object in H.
    assert (forall (l1 : list (string * object)) k0 o0, In (k, o') (objs_set l1 k0 o0) -> In (k, o') l1 \/ o' = o0) as S.
    { induction l1 as [|[k1 o1] r1 IH1]; intros k0 o0 H0; simpl in H0.
      - destruct H0 as [H0|[]]. inversion H0. right; reflexivity.
      - destruct (seqb k1 k0); simpl in H0.
        + destruct H0 as [H0|H0]; [inversion H0; right; reflexivity|left; right; assumption].
        + destruct H0 as [H0|H0]; [left; left; assumption|].
          apply IH1 in H0. destruct H0; [left; right; assumption|right; assumption]. }
    apply S in H. destruct H as [H|H]; [left; assumption|right; exists x; split; [left; reflexivity|assumption]].
  Qed.

  Lemma RF_refs s :
    hidden_free (s_entrytype s) -> (forall ko, In ko (s_objects s) -> hidden_free (o_type (snd ko))) ->
    forall r, In r (schema_refs (RF s)) -> exists r0, In r0 (schema_refs s) /\ r = g r0.
  Proof.
    intros He Ho r Hin. unfold schema_refs in Hin. rewrite in_app_iff in Hin. destruct Hin as [Hin|Hin].
    - simpl in Hin. rewrite HT in Hin by assumption.
      apply in_map_iff in Hin. destruct Hin as [r0 [<- Hr0]]. exists r0. split; [|reflexivity].
      unfold schema_refs. apply in_or_app. left. assumption.
    - apply in_flat_map in Hin. destruct Hin as [[k o'] [Hko Hr]]. simpl in Hr, Hko.
      apply fold_add_image in Hko. destruct Hko as [[]|[ko [Hko0 ->]]].
      rewrite HGt, HT in Hr by (apply Ho; assumption).
      apply in_map_iff in Hr. destruct Hr as [r0 [<- Hr0]]. exists r0. split; [|reflexivity].
      unfold schema_refs. apply in_or_app. right. apply in_flat_map. exists ko. split; assumption.
  Qed.

  Theorem retarget_keeps_refs_resolving ss :
    Forall wf_schema2 ss ->
    (forall s, In s ss -> hidden_free (s_entrytype s) /\
                          forall ko, In ko (s_objects s) -> hidden_free (o_type (snd ko))) ->
    refs_resolve ss -> refs_resolve (map RF ss).
  Proof.
    intros Hwf Hh Hres s' r Hs' Hr Hl.
    apply in_map_iff in Hs'. destruct Hs' as [s [<- Hs]].
    destruct (Hh s Hs) as [He Ho]. destruct (RF_refs s He Ho r Hr) as [r0 [Hr0 ->]].
    rewrite RF_loaded in Hl. rewrite Hfst in *. destruct r0 as [p n]. simpl in *.
    apply RF_exists_after; [assumption|]. apply (Hres s (p, n) Hs Hr0 Hl).
  Qed.

  Theorem retarget_keeps_entries_resolving ss :
    Forall wf_schema2 ss -> (forall s, s_entry s = EmptyString -> E s = EmptyString) ->
    entries_resolve ss -> entries_resolve (map RF ss).
  Proof.
    intros Hwf HE0 Hres s' Hs' Hne.
    apply in_map_iff in Hs'. destruct Hs' as [s [<- Hs]].
    rewrite Forall_forall in Hwf. destruct (Hwf s Hs) as [_ Hobjs].
    assert (s_entry s <> EmptyString) as Hne0 by (intros E0; apply Hne; simpl; apply HE0; assumption).
    apply objs_has_in. simpl. apply fold_add_keys. right.
    specialize (Hres s Hs Hne0). apply objs_has_in in Hres. apply in_map_iff in Hres.
    destruct Hres as [[k o] [Hk Hko]]. simpl in Hk. subst k. exists (s_entry s, o). split; [assumption|].
    rewrite Forall_forall in Hobjs. rewrite (HGn s _ (Hobjs _ Hko)). simpl. apply HE. assumption.
  Qed.
End Retarget.

(* ---------- rename_object ---------- *)
Lemma rename_is_retarget pkg obj to ss :
  rename_object pkg obj to ss
  = map (RF (tmap (rename_ref_leaf pkg obj to)) (rename_object_obj pkg obj to)
            (fun s => s_entry (rename_entry pkg obj to s))) ss.
Proof.
  unfold rename_object. apply map_ext. intros s. unfold RF, rename_entry, visit_schema_t.
  cbn [s_entry s_pkg s_meta s_entrytype s_objects].
  destruct (s_entry s) eqn:Ee; cbn [s_entry s_pkg s_meta s_entrytype s_objects]; [rewrite Ee; reflexivity|].
  destruct (objref_matches_ref _ _ _); cbn [s_entry s_pkg s_meta s_entrytype s_objects]; rewrite ?Ee; reflexivity.
Qed.

Lemma rename_name_hyp pkg obj to s ko : wf_object_in s ko ->
  o_name (rename_object_obj pkg obj to (snd ko)) = snd (rename_pair pkg obj to (s_pkg s, fst ko)).
Proof.
  intros [Hk [Hsn Hsp]]. unfold rename_object_obj, rename_pair, objref_matches. cbn [fst snd].
  rewrite Hsp, Hsn, <- Hk. destruct (objref_matches_ref (pkg, obj) (s_pkg s) (fst ko)); simpl; [reflexivity|].
  symmetry. assumption.
Qed.

Theorem rename_keeps_refs_resolving_proof pkg obj to ss :
  Forall wf_schema2 ss ->
  (forall s, In s ss -> hidden_free (s_entrytype s) /\
                        forall ko, In ko (s_objects s) -> hidden_free (o_type (snd ko))) ->
  refs_resolve ss -> refs_resolve (rename_object pkg obj to ss).
Proof.
  intros Hwf Hh Hres. rewrite rename_is_retarget.
  apply (retarget_keeps_refs_resolving _ _ (rename_pair pkg obj to)); try assumption.
  - apply all_refs_tmap. apply rename_retargets.
  - intros o. unfold rename_object_obj. destruct (objref_matches (pkg, obj) o); reflexivity.
  - intros r. unfold rename_pair. destruct (objref_matches_ref _ _ _); reflexivity.
  - intros s ko. apply rename_name_hyp.
Qed.

Theorem rename_keeps_entries_resolving_proof pkg obj to ss :
  Forall wf_schema2 ss -> entries_resolve ss -> entries_resolve (rename_object pkg obj to ss).
Proof.
  intros Hwf Hres. rewrite rename_is_retarget.
  apply (retarget_keeps_entries_resolving _ _ (rename_pair pkg obj to)); try assumption.
  - intros s ko. apply rename_name_hyp.
  - intros s Hne. unfold rename_entry, rename_pair. cbn [fst snd].
    destruct (s_entry s) eqn:Ee; [contradiction|]. rewrite <- Ee.
    destruct (objref_matches_ref (pkg, obj) (s_pkg s) (s_entry s)); reflexivity.
  - intros s E0. unfold rename_entry. rewrite E0. assumption.
Qed.

(* ---------- prefix_object_names ---------- *)
Definition prefix_pair (p : string) (r : string * string) : string * string := (fst r, (p ++ snd r)%string).

Lemma all_refs_prefix p : forall t, hidden_free t -> all_refs (prefix_ty p t) = map (prefix_pair p) (all_refs t).
Proof.
  unfold hidden_free.
  induction t as [a d IH|a v IH|a vs IH|a i v IHi IHv|a dh fs IHd IHf|a q n|a q n v|a k v cs|a bs IH|a v|a k]
    using ty_ind'; intros Hh; simpl in *.
  - rewrite flat_map_map, map_flat_map. apply flat_map_ext_in. intros x Hx.
    rewrite Forall_forall in IH. apply IH; [assumption|]. apply (flat_map_nil _ _ Hh). assumption.
  - apply IH. assumption.
  - rewrite flat_map_map. simpl. rewrite Hh. reflexivity.
  - apply app_nil_both in Hh. destruct Hh as [H1 H2]. rewrite map_app, IHi, IHv by assumption. reflexivity.
  - apply app_nil_both in Hh. destruct Hh as [H1 H2].
    assert (flat_map (fun kd => flat_map all_refs (d_branches (snd kd))) (prefix_dh p dh) = []) as ->.
    { unfold prefix_dh. rewrite flat_map_map. rewrite <- H1. apply flat_map_ext_in. intros kd _.
      destruct (seqb (fst kd) "disjunction_of_refs"); reflexivity. }
    rewrite H1. simpl. rewrite flat_map_map, map_flat_map. apply flat_map_ext_in. intros f Hf. simpl.
    rewrite Forall_forall in IHf. apply IHf; [assumption|]. apply (flat_map_nil _ _ H2). assumption.
  - reflexivity.
  - reflexivity.
  - reflexivity.
  - rewrite flat_map_map, map_flat_map. apply flat_map_ext_in. intros x Hx.
    rewrite Forall_forall in IH. apply IH; [assumption|]. apply (flat_map_nil _ _ Hh). assumption.
  - reflexivity.
  - reflexivity.
Qed.

Lemma prefix_is_retarget c r0 ss :
  prefix_object_names (String c r0) ss
  = map (RF (prefix_ty (String c r0))
            (fun o => set_otype (rename_o o (String c r0 ++ o_name o)%string) (prefix_ty (String c r0) (o_type o)))
            (fun s => match s_entry s with EmptyString => EmptyString | e => (String c r0 ++ e)%string end)) ss.
Proof.
  unfold prefix_object_names. apply map_ext. intros s. unfold RF, visit_schema_t. cbn [s_entry s_pkg s_meta s_entrytype s_objects].
  destruct (s_entry s); reflexivity.
Qed.

Theorem prefix_keeps_resolving_proof p ss :
  Forall wf_schema2 ss ->
  (forall s, In s ss -> hidden_free (s_entrytype s) /\
                        forall ko, In ko (s_objects s) -> hidden_free (o_type (snd ko))) ->
  refs_resolve ss -> entries_resolve ss ->
  refs_resolve (prefix_object_names p ss) /\ entries_resolve (prefix_object_names p ss).
Proof.
  intros Hwf Hh Hres Hent. destruct p as [|c r0]; [split; assumption|].
  rewrite prefix_is_retarget. split.
  - apply (retarget_keeps_refs_resolving _ _ (prefix_pair (String c r0))); try assumption.
    + apply all_refs_prefix.
    + intros o. reflexivity.
    + intros r. reflexivity.
    + intros s ko [Hk _]. simpl. rewrite <- Hk. reflexivity.
  - apply (retarget_keeps_entries_resolving _ _ (prefix_pair (String c r0))); try assumption.
    + intros s ko [Hk _]. simpl. rewrite <- Hk. reflexivity.
    + intros s Hne. destruct (s_entry s); [contradiction|reflexivity].
    + intros s E0. rewrite E0. reflexivity.
Qed.

(* ---------- replace_reference towards an existing object ---------- *)
Lemma in_flat_map_incl {A B} (f g : A -> list B) (P : B -> Prop) l :
  (forall x, In x l -> forall r, In r (f x) -> In r (g x) \/ P r) ->
  forall r, In r (flat_map f l) -> In r (flat_map g l) \/ P r.
Proof.
  intros H r Hin. apply in_flat_map in Hin. destruct Hin as [x [Hx Hr]].
  destruct (H x Hx r Hr) as [H1|H1]; [left; apply in_flat_map; exists x; auto|right; assumption].
Qed.

Lemma all_refs_replace fpkg fobj tpkg tobj : forall t, hidden_free t ->
  forall r, In r (all_refs (tmap (replace_ref_leaf fpkg fobj tpkg tobj) t)) ->
            In r (all_refs t) \/ r = (tpkg, tobj).
Proof.
  unfold hidden_free.
  induction t as [a d IH|a v IH|a vs IH|a i v IHi IHv|a dh fs IHd IHf|a q n|a q n v|a k v cs|a bs IH|a v|a k]
    using ty_ind'; intros Hh r Hr; simpl in *.
  - rewrite flat_map_map in Hr. revert r Hr. apply in_flat_map_incl. intros x Hx r Hr.
    rewrite Forall_forall in IH. apply IH; [assumption| |assumption]. apply (flat_map_nil _ _ Hh). assumption.
  - apply IH; assumption.
  - left. assumption.
  - apply app_nil_both in Hh. destruct Hh as [H1 H2]. rewrite in_app_iff in *.
    destruct Hr as [Hr|Hr]; [destruct (IHi H1 r Hr); auto|destruct (IHv H2 r Hr); auto].
  - apply app_nil_both in Hh. destruct Hh as [H1 H2]. rewrite H1 in *. simpl in *.
    rewrite flat_map_map in Hr. revert r Hr. apply in_flat_map_incl. intros f Hf r Hr. simpl in Hr.
    rewrite Forall_forall in IHf. apply IHf; [assumption| |assumption]. apply (flat_map_nil _ _ H2). assumption.
  - destruct (objref_matches_ref (fpkg, fobj) q n); simpl in Hr; destruct Hr as [<-|[]]; [right|left; left]; reflexivity.
  - left. assumption.
  - left. assumption.
  - rewrite flat_map_map in Hr. revert r Hr. apply in_flat_map_incl. intros x Hx r Hr.
    rewrite Forall_forall in IH. apply IH; [assumption| |assumption]. apply (flat_map_nil _ _ Hh). assumption.
  - left. assumption.
  - left. assumption.
Qed.

Theorem replace_reference_keeps_resolving_proof fpkg fobj tpkg tobj ss :
  Forall wf_schema2 ss ->
  (forall s, In s ss -> hidden_free (s_entrytype s) /\
                        forall ko, In ko (s_objects s) -> hidden_free (o_type (snd ko))) ->
  object_exists ss tpkg tobj = true ->
  refs_resolve ss -> entries_resolve ss ->
  refs_resolve (replace_reference fpkg fobj tpkg tobj ss) /\
  entries_resolve (replace_reference fpkg fobj tpkg tobj ss).
Proof.
  intros Hwf Hh Hex Hres Hent.
  set (T := tmap (replace_ref_leaf fpkg fobj tpkg tobj)).
  set (F := visit_schema_t T (fun o => set_otype o (T (o_type o)))).
  assert (forall s, In s ss -> F s = mkSchema (s_pkg s) (s_meta s) (s_entry s) (T (s_entrytype s))
                                     (map (fun ko => (fst ko, set_otype (snd ko) (T (o_type (snd ko))))) (s_objects s))) as HF.
  { intros s Hs. unfold F, visit_schema_t. f_equal.
    apply (visit_objects_map (fun o => set_otype o (T (o_type o)))); [|intros o; reflexivity].
    rewrite Forall_forall in Hwf. destruct (Hwf s Hs) as [Hnd Hobjs]. split; [assumption|].
    rewrite Forall_forall in *. intros ko Hko. apply (Hobjs ko Hko). }
  assert (forall p n, object_exists (map F ss) p n = object_exists ss p n) as Hsame.
  { intros p n. unfold object_exists, locate_object. rewrite (locate_map F ss p (fun s => eq_refl)).
    destruct (locate ss p) as [s|] eqn:Hl; [|reflexivity]. cbn [option_map].
    destruct (locate_pkg ss p s Hl) as [_ Hin]. rewrite (HF s Hin). cbn [s_objects].
    clear. induction (s_objects s) as [|[k o] r IH]; [reflexivity|]. simpl.
    destruct (seqb k n); [reflexivity|assumption]. }
  assert (forall p, loaded (map F ss) p = loaded ss p) as Hload.
  { intros p. unfold loaded. rewrite (locate_map F ss p (fun s => eq_refl)). destruct (locate ss p); reflexivity. }
  unfold replace_reference. fold T. fold F. split.
  - intros s' r Hs' Hr Hl. apply in_map_iff in Hs'. destruct Hs' as [s [<- Hs]].
    rewrite Hsame. rewrite Hload in Hl. rewrite (HF s Hs) in Hr. destruct (Hh s Hs) as [He Ho].
    unfold schema_refs in Hr. simpl in Hr. rewrite in_app_iff in Hr.
    assert (In r (schema_refs s) \/ r = (tpkg, tobj)) as [Hr0| ->]; [|apply (Hres s r Hs Hr0 Hl)|assumption].
    destruct Hr as [Hr|Hr].
    + unfold T in Hr. destruct (all_refs_replace fpkg fobj tpkg tobj _ He r Hr) as [H|H]; [left|right; assumption].
      unfold schema_refs. apply in_or_app. left. assumption.
    + rewrite flat_map_map in Hr. apply in_flat_map in Hr. destruct Hr as [ko [Hko Hr]]. simpl in Hr.
      unfold T in Hr. destruct (all_refs_replace fpkg fobj tpkg tobj _ (Ho ko Hko) r Hr) as [H|H]; [left|right; assumption].
      unfold schema_refs. apply in_or_app. right. apply in_flat_map. exists ko. split; assumption.
  - intros s' Hs' Hne. apply in_map_iff in Hs'. destruct Hs' as [s [<- Hs]].
    rewrite (HF s Hs) in *. simpl in *. specialize (Hent s Hs Hne).
    apply objs_has_in. apply objs_has_in in Hent. rewrite map_map. simpl. assumption.
Qed.

(* ---------- allowed_objects: what is kept is kept unchanged and in order ---------- *)
Theorem filter_keeps_subsequence_proof allowed ss ss' :
  filter_schemas allowed ss = Ok ss' ->
  Forall2 (fun s s' => s_pkg s' = s_pkg s /\ s_meta s' = s_meta s /\ s_entry s' = s_entry s /\
                       s_entrytype s' = s_entrytype s /\
                       exists keep, s_objects s' = filter keep (s_objects s)) ss ss'.
Proof.
  unfold filter_schemas. destruct (build_allow_list ss allowed) as [allow|]; [|discriminate].
  intros H. inversion H; subst. clear H. induction ss as [|s r IH]; constructor; [|exact IH].
  simpl. repeat split. eexists. reflexivity.
Qed.

(* ---------- duplicate_object ---------- *)
Lemma objs_set_keys_incl l k o x : In x (map fst l) -> In x (map fst (objs_set l k o)).
Proof.
  induction l as [|[k' o'] r IH]; intros H; [inversion H|]. simpl.
  destruct (seqb k' k) eqn:E; simpl; simpl in H.
  - assumption.
  - destruct H as [H|H]; [left; assumption|right; apply IH; assumption].
Qed.

Lemma objs_set_in l k o k1 o1 : In (k1, o1) (objs_set l k o) -> In (k1, o1) l \/ o1 = o.
Proof.
  induction l as [|[k' o'] r IH]; simpl; intros H.
  - destruct H as [H|[]]. inversion H. right; reflexivity.
  - destruct (seqb k' k); simpl in H.
    + destruct H as [H|H]; [inversion H; right; reflexivity|left; right; assumption].
    + destruct H as [H|H]; [left; left; assumption|]. destruct (IH H); [left; right; assumption|right; assumption].
Qed.

Lemma filter_fields_refs (keep : field -> bool) fs r :
  In r (flat_map (fun f => all_refs (f_type f)) (filter keep fs)) -> In r (flat_map (fun f => all_refs (f_type f)) fs).
Proof.
  intros H. apply in_flat_map in H. destruct H as [f [Hf Hr]]. apply filter_In in Hf.
  apply in_flat_map. exists f. split; [apply Hf|assumption].
Qed.

Theorem duplicate_keeps_resolving_proof pkg obj ap ao om ss :
  refs_resolve ss -> entries_resolve ss ->
  refs_resolve (duplicate_object pkg obj ap ao om ss) /\ entries_resolve (duplicate_object pkg obj ap ao om ss).
Proof.
  intros Hres Hent. unfold duplicate_object.
  destruct (locate_object ss pkg obj) as [src|] eqn:Hsrc; [|split; assumption].
  set (t := match o_type src with
            | TStruct a dh fs => match om with [] => o_type src
                                 | _ => TStruct a dh (filter (fun f => negb (in_list_fold (f_name f) om)) fs) end
            | t0 => t0 end).
  set (dup := mkObject ao (o_comments src) t ap ao).
  set (F := fun s => if seqb (s_pkg s) ap then register_objects s [dup] else s).
  assert (forall s, s_pkg (F s) = s_pkg s) as Hpkg.
  { intros s. unfold F. destruct (seqb (s_pkg s) ap); reflexivity. }
  assert (forall s x, In x (map fst (s_objects s)) -> In x (map fst (s_objects (F s)))) as Hkeys.
  { intros s x H. unfold F. destruct (seqb (s_pkg s) ap); [|assumption].
    unfold register_objects, set_objects, add_object. simpl. apply objs_set_keys_incl. assumption. }
  assert (forall p n, object_exists ss p n = true -> object_exists (map F ss) p n = true) as Hex.
  { intros p n. unfold object_exists, locate_object. rewrite (locate_map F ss p Hpkg).
    destruct (locate ss p) as [s|]; [|discriminate]. cbn [option_map].
    intros H. assert (objs_has (s_objects s) n = true) as H1 by (unfold objs_has; destruct (objs_get _ _); [reflexivity|discriminate]).
    apply objs_has_in in H1. apply Hkeys in H1. apply objs_has_in in H1. unfold objs_has in H1.
    destruct (objs_get (s_objects (F s)) n); [reflexivity|discriminate]. }
  assert (forall p, loaded (map F ss) p = loaded ss p) as Hload.
  { intros p. unfold loaded. rewrite (locate_map F ss p Hpkg). destruct (locate ss p); reflexivity. }
  (* the source object sits in some schema of ss: its references resolve *)
  assert (forall r, In r (all_refs t) -> exists s, In s ss /\ In r (schema_refs s)) as Hdup.
  { intros r Hr. unfold locate_object in Hsrc. destruct (locate ss pkg) as [s0|] eqn:Hl; [|discriminate].
    destruct (locate_pkg ss pkg s0 Hl) as [_ Hin0]. exists s0. split; [assumption|].
    assert (In (obj, src) (s_objects s0)) as Hko.
    { clear - Hsrc. induction (s_objects s0) as [|[k' o'] r0 IH]; [discriminate|]. simpl in Hsrc.
      destruct (seqb k' obj) eqn:E; [apply seqb_eq in E; inversion Hsrc; subst; left; reflexivity|right; auto]. }
    unfold schema_refs. apply in_or_app. right. apply in_flat_map. exists (obj, src). split; [assumption|].
    simpl. unfold t in Hr. destruct (o_type src); try assumption. destruct om; [assumption|].
    simpl in *. rewrite in_app_iff in *. destruct Hr as [Hr|Hr]; [left; assumption|right].
    eapply filter_fields_refs. eassumption. }
  split.
  - intros s' r Hs' Hr Hl. apply in_map_iff in Hs'. destruct Hs' as [s [<- Hs]]. rewrite Hload in Hl.
    apply Hex. unfold F in Hr. destruct (seqb (s_pkg s) ap); [|apply (Hres s r Hs Hr Hl)].
    unfold schema_refs, register_objects, set_objects in Hr. simpl in Hr. rewrite in_app_iff in Hr.
    destruct Hr as [Hr|Hr].
    + apply (Hres s r Hs); [|assumption]. unfold schema_refs. apply in_or_app. left. assumption.
    + apply in_flat_map in Hr. destruct Hr as [[k1 o1] [Hko Hr1]]. unfold add_object in Hko.
      apply objs_set_in in Hko. destruct Hko as [Hko| ->].
      * apply (Hres s r Hs); [|assumption]. unfold schema_refs. apply in_or_app. right.
        apply in_flat_map. exists (k1, o1). split; assumption.
      * simpl in Hr1. destruct (Hdup r Hr1) as [s0 [Hs0 Hr0]]. apply (Hres s0 r Hs0 Hr0 Hl).
  - intros s' Hs' Hne. apply in_map_iff in Hs'. destruct Hs' as [s [<- Hs]].
    assert (s_entry (F s) = s_entry s) as Ee by (unfold F; destruct (seqb (s_pkg s) ap); reflexivity).
    rewrite Ee in *. apply objs_has_in. apply Hkeys. apply objs_has_in. apply (Hent s Hs Hne).
Qed.
