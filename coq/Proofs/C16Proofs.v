From Coq Require Import List String Bool ZArith.
From Cog Require Import Model.IR Model.IREq Model.Builders Model.BuildersEq Model.Spec16 Proofs.EqRefl.
Import ListNotations.
Local Open Scope list_scope.

Lemma argument_eqb_refl a : argument_eqb a a = true.
Proof. unfold argument_eqb. rewrite seqb_refl', ty_eqb_refl. reflexivity. Qed.

Lemma mapM_ok_inv {A B} (f : A -> res B) l r : mapM f l = Ok r ->
  Forall2 (fun x y => f x = Ok y) l r.
Proof.
  revert r. induction l as [|x t IH]; intros r H; simpl in H.
  - inversion H. constructor.
  - destruct (f x) as [y| | |] eqn:E; simpl in H; try discriminate.
    destruct (mapM f t) as [ys| | |] eqn:E2; simpl in H; try discriminate.
    inversion H; subst. constructor; [assumption|apply IH; reflexivity].
Qed.

Lemma single_path_refl f : single_path_to f [mkPathItem (f_name f) None (f_type f) None false] = true.
Proof. unfold single_path_to. simpl. rewrite seqb_refl', ty_eqb_refl. reflexivity. Qed.

(* the option derived from a field covers it *)
Lemma option_covers_derived f o : struct_field_to_option f = Ok o -> option_covers f o = true.
Proof.
  unfold struct_field_to_option, field_assignment.
  destruct (mapM _ (scalar_constraints (f_type f))) as [cs| | |] eqn:E; simpl; try discriminate.
  intros H. inversion H; subst. clear H. unfold option_covers, single_path_to, argument_eqb. simpl.
  rewrite ?seqb_refl', ?ty_eqb_refl. simpl.
  assert (forall2b (fun (c : constraint) (ac : aconstraint) =>
            seqb (c_op c) (ac_op ac) &&
            (seqb (a_name (ac_arg ac)) (f_name f) && ty_eqb (a_type (ac_arg ac)) (f_type f)) &&
            match c_args c with x :: _ => dyn_eqb x (ac_param ac) | [] => false end)
          (scalar_constraints (f_type f)) cs = true) as ->.
  { apply mapM_ok_inv in E. induction E as [|c ac l l' Hc _ IH]; [reflexivity|]. simpl.
    destruct (c_args c) as [|x r] eqn:Ea; [discriminate|]. inversion Hc; subst. simpl.
    rewrite !seqb_refl', ty_eqb_refl, dyn_eqb_refl. exact IH. }
  cbn [andb]. destruct (dflt (ty_attrs (f_type f))) as [|b|t z|t r|s|l|l|t r];
    [reflexivity|apply (dyn_eqb_refl (DBool b))|apply (dyn_eqb_refl (DInt t z))|apply (dyn_eqb_refl (DFloat t r))
    |apply (dyn_eqb_refl (DStr s))|apply (dyn_eqb_refl (DList l))|apply (dyn_eqb_refl (DMap l))|apply (dyn_eqb_refl (DOther t r))].
Qed.

Lemma constant_covers_derived f v : constant_covers f v (constant_assignment f v) = true.
Proof.
  unfold constant_covers, constant_assignment. cbn [as_path as_method as_value as_constraints as_nilchecks].
  rewrite single_path_refl, dyn_eqb_refl. reflexivity.
Qed.

(* the role FromAST gives a field agrees with what the schema fixes *)
Ltac opt_case f :=
  destruct (struct_field_to_option f) as [?o| | |] eqn:?Eo; simpl; try discriminate;
  let H := fresh "H" in intros H; inversion H; subst; apply option_covers_derived; assumption.

Lemma role_matches_fixed ss f r : field_role_of (res_fuel ss) ss f = Ok r ->
  match fixed_value ss f, r with
  | None, RoleOption o => option_covers f o = true
  | Some None, RoleNothing => True
  | Some (Some v), RoleConstant a => constant_covers f v a = true
  | _, _ => False
  end.
Proof.
  unfold field_role_of, fixed_value.
  destruct (f_type f) as [a d|a v|a vs|a i v|a dh fs|a p n|a p n v|a k v cs|a bs|a v|a k] eqn:Et.
  - opt_case f.
  - opt_case f.
  - opt_case f.
  - opt_case f.
  - opt_case f.
  - (* ref *)
    destruct (f_required f && negb (nullable a)); [|opt_case f].
    destruct (resolve_to_type (res_fuel ss) ss (TRef a p n)) as [rt| | |] eqn:Er; simpl; try discriminate.
    destruct rt as [a1 d1|a1 v1|a1 vs1|a1 i1 v1|a1 dh1 fs1|a1 p1 n1|a1 p1 n1 v1|a1 k1 v1 cs1|a1 bs1|a1 v1|a1 k1];
      try (opt_case f).
    destruct v1; try (intros H; inversion H; subst; apply constant_covers_derived).
    opt_case f.
  - (* constant ref *) intros H. inversion H. exact I.
  - (* scalar *)
    destruct v; try (intros H; inversion H; subst; apply constant_covers_derived).
    opt_case f.
  - opt_case f.
  - opt_case f.
  - opt_case f.
Qed.

Definition role_opts (roles : list field_role) : list boption :=
  flat_map (fun r => match r with RoleOption op => [op] | _ => [] end) roles.
Definition role_consts (roles : list field_role) : list assignment :=
  flat_map (fun r => match r with RoleConstant a => [a] | _ => [] end) roles.

Lemma covered_derived ss fs roles : mapM (field_role_of (res_fuel ss) ss) fs = Ok roles ->
  covered ss fs (role_opts roles) (role_consts roles) = true.
Proof.
  intros H. apply mapM_ok_inv in H. induction H as [|f r fs' rs Hr _ IH]; [reflexivity|].
  apply role_matches_fixed in Hr. simpl.
  destruct (fixed_value ss f) as [[v|]|]; destruct r; try contradiction; simpl.
  - rewrite Hr. exact IH.
  - exact IH.
  - rewrite Hr. exact IH.
Qed.

(* one builder *)
Lemma builder_derived_ok ss s o b :
  struct_object_to_builder (res_fuel ss) ss s o = Ok b ->
  check_builder ss b = true /\ b_for b = o /\ b_pkg b = s_pkg s.
Proof.
  unfold struct_object_to_builder.
  destruct (resolve_to_type (res_fuel ss) ss (o_type o)) as [rt| | |] eqn:Er; simpl; try discriminate.
  destruct rt; try discriminate.
  destruct (mapM (field_role_of (res_fuel ss) ss) fs) as [roles| | |] eqn:Em; simpl; try discriminate.
  intros H. inversion H; subst. clear H. split; [|split; reflexivity].
  unfold check_builder, resolves_to_struct, resolved_fields.
  cbn [b_for b_options b_ctor ct_assignments ct_args b_props b_factories b_name]. rewrite Er.
  fold (role_opts roles). fold (role_consts roles).
  rewrite (covered_derived ss fs roles Em), seqb_refl'. reflexivity.
Qed.

Lemma forall2b_app {A B} (e : A -> B -> bool) a1 b1 a2 b2 :
  forall2b e a1 b1 = true -> forall2b e a2 b2 = true -> forall2b e (a1 ++ a2) (b1 ++ b2) = true.
Proof.
  revert b1. induction a1 as [|x r IH]; intros [|y s] H1 H2; simpl in *; try discriminate; [assumption|].
  apply andb_true_iff in H1. destruct H1 as [Hxy Hr]. rewrite Hxy. simpl. apply IH; assumption.
Qed.

(* one schema: the builders are exactly those of its struct objects, in order *)
Lemma schema_builders_ok ss s (objs : list (string * object)) bls :
  mapM (fun ko =>
          do r <- resolve_to_type (res_fuel ss) ss (o_type (snd ko)) ;
          if wants_builder r then do b <- struct_object_to_builder (res_fuel ss) ss s (snd ko) ; Ok [b] else Ok [])
       objs = Ok bls ->
  forall2b (fun po b => seqb (fst po) (b_pkg b) && object_eqb (snd po) (b_for b))
           (map (fun ko => (s_pkg s, snd ko)) (filter (fun ko => resolves_to_struct ss (snd ko)) objs))
           (List.concat bls) = true
  /\ forallb (check_builder ss) (List.concat bls) = true.
Proof.
  intros H. apply mapM_ok_inv in H. induction H as [|ko bl objs' bls' Hko _ [IH1 IH2]]; [split; reflexivity|].
  simpl. unfold resolves_to_struct at 1.
  destruct (resolve_to_type (res_fuel ss) ss (o_type (snd ko))) as [rt| | |] eqn:Er; simpl in Hko; try discriminate.
  destruct (wants_builder rt) eqn:Ew.
  - destruct (struct_object_to_builder (res_fuel ss) ss s (snd ko)) as [b| | |] eqn:Eb; simpl in Hko; try discriminate.
    inversion Hko; subst. clear Hko. destruct (builder_derived_ok ss s (snd ko) b Eb) as [Hc [Hf Hp]].
    (* a builder was produced, so the object resolves to a struct *)
    assert (exists a dh fs, rt = TStruct a dh fs) as [a [dh [fs ->]]].
    { unfold struct_object_to_builder in Eb. rewrite Er in Eb. simpl in Eb. destruct rt; try discriminate. eauto. }
    simpl. rewrite Hp, Hf, seqb_refl', object_eqb_refl, Hc. simpl. split; assumption.
  - inversion Hko; subst. clear Hko. simpl.
    destruct rt; simpl in Ew; try discriminate; split; assumption.
Qed.

Lemma schemas_builders_ok SS (l : schemas) bss :
  mapM (fun s =>
      do bs <- mapM (fun ko =>
          do r <- resolve_to_type (res_fuel SS) SS (o_type (snd ko)) ;
          if wants_builder r then do b <- struct_object_to_builder (res_fuel SS) SS s (snd ko) ; Ok [b] else Ok [])
        (s_objects s) ;
      Ok (List.concat bs)) l = Ok bss ->
  forall2b (fun po b => seqb (fst po) (b_pkg b) && object_eqb (snd po) (b_for b))
    (flat_map (fun s => map (fun ko => (s_pkg s, snd ko)) (filter (fun ko => resolves_to_struct SS (snd ko)) (s_objects s))) l)
    (List.concat bss) = true /\ forallb (check_builder SS) (List.concat bss) = true.
Proof.
  intros E. apply mapM_ok_inv in E.
  induction E as [|s bl l' bss' Hs _ [IH1 IH2]]; [split; reflexivity|].
  destruct (mapM _ (s_objects s)) as [bls| | |] eqn:Em; simpl in Hs; try discriminate.
  inversion Hs; subst. clear Hs. destruct (schema_builders_ok SS s (s_objects s) bls Em) as [G1 G2].
  simpl. split; [apply forall2b_app; assumption|rewrite forallb_app, G2, IH2; reflexivity].
Qed.

Theorem from_ast_builders_ok_proof ss bs : from_ast ss = Ok bs -> builders_ok ss bs = true.
Proof.
  unfold from_ast, builders_ok, struct_objects.
  destruct (mapM _ ss) as [bss| | |] eqn:E; simpl; try discriminate. intros H. inversion H; subst. clear H.
  destruct (schemas_builders_ok ss ss bss E) as [H1 H2]. rewrite H1, H2. reflexivity.
Qed.

(* corollaries spelled out *)
Lemma forall2b_length {A B} (e : A -> B -> bool) a b : forall2b e a b = true -> List.length a = List.length b.
Proof.
  revert b. induction a as [|x r IH]; intros [|y s] H; simpl in *; try discriminate; [reflexivity|].
  apply andb_true_iff in H. destruct H as [_ H]. f_equal. apply IH. assumption.
Qed.

Theorem builder_count_proof ss bs : from_ast ss = Ok bs ->
  List.length bs = List.length (struct_objects ss).
Proof.
  intros H. apply from_ast_builders_ok_proof in H. unfold builders_ok in H.
  apply andb_true_iff in H. destruct H as [H _]. symmetry. apply (forall2b_length _ _ _ H).
Qed.
