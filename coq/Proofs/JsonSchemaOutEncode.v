(* C12: every encoding of a well-typed, valid Go value validates against the emitted schema;
   js_valid is sound for the relational specification jv. *)
From Coq Require Import List String ZArith Bool Ascii Lia.
From Cog Require Import Model.IR Model.Json Model.GoSemBase Model.GoSemDecode Model.GoSemEquals Model.GoSemSpec
  Model.JsonSchemaOut Model.JsonSchemaOutSpec Proofs.JsonSchemaOutProofs.
Import ListNotations.
Local Open Scope list_scope.

(* ---------- induction over Go values ---------- *)
Section GvalInd.
  Variable P : gval -> Prop.
  Hypothesis HNil : P GNil.
  Hypothesis HBool : forall b, P (GBool b).
  Hypothesis HInt : forall z, P (GInt z).
  Hypothesis HFloat : forall m e, P (GFloat m e).
  Hypothesis HStr : forall s, P (GStr s).
  Hypothesis HTime : forall s l, P (GTime s l).
  Hypothesis HPtr : forall v, P v -> P (GPtr v).
  Hypothesis HSlice : forall l, Forall P l -> P (GSlice l).
  Hypothesis HMap : forall l, Forall (fun kv => P (snd kv)) l -> P (GMap l).
  Hypothesis HStruct : forall l, Forall (fun kv => P (snd kv)) l -> P (GStruct l).
  Hypothesis HAny : forall j, P (GAny j).

  Fixpoint gval_ind' (v : gval) : P v :=
    match v with
    | GNil => HNil
    | GBool b => HBool b
    | GInt z => HInt z
    | GFloat m e => HFloat m e
    | GStr s => HStr s
    | GTime s l => HTime s l
    | GPtr x => HPtr x (gval_ind' x)
    | GSlice l => HSlice l ((fix go (l : list gval) : Forall P l :=
                               match l with [] => Forall_nil _ | x :: r => Forall_cons x (gval_ind' x) (go r) end) l)
    | GMap l => HMap l ((fix go (l : list (string * gval)) : Forall (fun kv => P (snd kv)) l :=
                           match l with [] => Forall_nil _ | x :: r => Forall_cons x (gval_ind' (snd x)) (go r) end) l)
    | GStruct l => HStruct l ((fix go (l : list (string * gval)) : Forall (fun kv => P (snd kv)) l :=
                                 match l with [] => Forall_nil _ | x :: r => Forall_cons x (gval_ind' (snd x)) (go r) end) l)
    | GAny j => HAny j
    end.
End GvalInd.

(* ---------- small facts ---------- *)
Lemma str_in_In : forall k l, str_in k l = true <-> In k l.
Proof.
  induction l as [|x r IH]; simpl; split; intros H; try discriminate; try contradiction.
  - apply orb_true_iff in H. destruct H as [H|H]; [left; apply String.eqb_eq; exact H | right; apply IH; exact H].
  - apply orb_true_iff. destruct H as [H|H]; [left; apply String.eqb_eq; exact H | right; apply IH; exact H].
Qed.

Lemma str_nodup_NoDup : forall l, str_nodup l = true -> NoDup l.
Proof.
  induction l as [|x r IH]; simpl; intros H; constructor.
  - apply andb_true_iff in H. destruct H as [H _]. intro Hin. apply str_in_In in Hin. rewrite Hin in H. discriminate.
  - apply andb_true_iff in H. destruct H as [_ H]. auto.
Qed.

Lemma strip_zeros_exp : forall f m e a b, strip_zeros f m e = (a, b) -> (e <= b)%Z.
Proof.
  induction f as [|f IH]; intros m e a b H; simpl in H.
  - inversion H; lia.
  - destruct ((m mod 10 =? 0)%Z && negb (m =? 0)%Z)%bool.
    + apply IH in H. lia.
    + inversion H; lia.
Qed.

Lemma int_literal_is_integer : forall z, j_is_integer z 0 = true.
Proof.
  intros z. unfold j_is_integer, num_norm.
  destruct (z =? 0)%Z; [reflexivity|].
  destruct (strip_zeros _ z 0) as [a b] eqn:E. apply strip_zeros_exp in E. apply Z.leb_le; exact E.
Qed.

(* ---------- references reach the definition of what they resolve to ---------- *)
Section Encode.
  Variable ctx : schemas.
  Variable defs : list (string * jschema).
  Hypothesis Hfaithful : faithful ctx defs.

  Lemma resolve_jv : forall fuel a p n rt d,
      resolve_fuel ctx fuel (TRef a p n) = Some rt -> is_ref rt = false ->
      jv defs (emit_type rt) d -> jv defs (JSRef p n) d.
  Proof.
    induction fuel as [|f IH]; intros a p n rt d H Hnr Hjv; simpl in H; [discriminate|].
    destruct (locate_object ctx p n) as [o|] eqn:L.
    - apply JV_ref with (s := emit_type (o_type o)); [eapply Hfaithful; eauto|].
      destruct (o_type o) as [| | | | |a' p' n'| | | | |] eqn:E;
        try (destruct f; simpl in H; inversion H; subst; exact Hjv).
      simpl. eapply IH; eauto.
    - inversion H; subst. simpl in Hnr. discriminate.
  Qed.

  Ltac break_if H :=
    repeat match type of H with
           | context [if ?c then _ else _] => destruct c; try discriminate
           end.

  (* payload_type: the type itself, or what its reference resolves to (never a reference) *)
  Lemma payload_cases : forall t pt, payload_type ctx t = PTy pt ->
      (t = pt /\ is_ref t = false /\ is_constref t = false) \/
      (exists p n, (exists a, t = TRef a p n) /\ resolve ctx (TRef attrs0 p n) = Some pt /\ is_ref pt = false) \/
      is_constref t = true.
  Proof.
    intros t pt H. destruct t; try (left; inversion H; subst; auto; fail).
    - (* TRef *)
      right; left. exists pkg, name. split; [eauto|].
      unfold payload_type in H.
      destruct (resolve ctx (TRef attrs0 pkg name)) as [rt|] eqn:R; [|discriminate].
      destruct rt; try discriminate; break_if H; inversion H; subst; auto.
    - right; right; reflexivity.
  Qed.

  Lemma payload_jv : forall t pt d, payload_type ctx t = PTy pt -> jv defs (emit_type pt) d -> jv defs (emit_type t) d.
  Proof.
    intros t pt d H Hjv.
    destruct (payload_cases _ _ H) as [[-> _]|[[p [n [[a ->] [R Hnr]]]]|Hc]]; auto.
    - simpl. unfold resolve in R. eapply resolve_jv; eauto.
    - destruct t; try discriminate. simpl. apply JV_empty.
  Qed.

  Lemma payload_not_ref : forall t pt, payload_type ctx t = PTy pt -> is_constref t = false -> is_ref pt = false.
  Proof.
    intros t pt H Hc. destruct (payload_cases _ _ H) as [[-> [Hr _]]|[[p [n [_ [_ Hnr]]]]|Hc']]; auto.
    rewrite Hc in Hc'; discriminate.
  Qed.

  Lemma payload_or_self_eq : forall t pt, payload_type ctx t = PTy pt -> payload_or_self ctx t = pt.
  Proof. intros t pt H. unfold payload_or_self. rewrite H. reflexivity. Qed.

  (* ---------- leaves ---------- *)
  Lemma kw_never_type : forall op, string_kw op <> Some "type"%string /\ number_kw op <> Some "type"%string.
  Proof.
    intros op. unfold string_kw, number_kw. split.
    - destruct (seqb op "minLength"); [discriminate|]. destruct (seqb op "maxLength"); discriminate.
    - destruct (seqb op "<"); [discriminate|]. destruct (seqb op "<="); [discriminate|].
      destruct (seqb op ">"); [discriminate|]. destruct (seqb op ">="); [discriminate|].
      destruct (seqb op "%"); discriminate.
  Qed.

  Definition type_word (k : skind) : string :=
    match k with
    | KNull => "null" | KBytes | KString => "string" | KBool => "boolean"
    | KFloat32 | KFloat64 => "number" | KAny => "object" | KOther _ => ""
    | _ => "integer"
    end%string.

  Definition type_is (T : json) (ms : list (string * json)) : Prop := forall v, In ("type"%string, v) ms -> v = T.

  Lemma type_is_nil : forall T, type_is T [].
  Proof. intros T v []. Qed.
  Lemma type_is_base : forall T, type_is T [("type"%string, T)].
  Proof. intros T v [H|[]]. inversion H; reflexivity. Qed.
  Lemma type_is_set : forall T ms k v, type_is T ms -> k <> "type"%string -> type_is T (om_set ms k v).
  Proof.
    intros T ms k v H Hk v' Hin. apply om_set_in in Hin. destruct Hin as [[Hk' _]|Hin]; auto.
    exfalso; apply Hk; symmetry; exact Hk'.
  Qed.
  Lemma type_is_add : forall T kw cs ms,
      (forall op, kw op <> Some "type"%string) -> type_is T ms -> type_is T (add_constraints kw cs ms).
  Proof.
    intros T kw cs ms Hkw H v Hin. apply add_constraints_in in Hin. destruct Hin as [Hin|[c [_ [Hc _]]]]; auto.
    exfalso. eapply Hkw; eauto.
  Qed.

  Lemma format_scalar_type : forall t k value cs ms v,
      format_scalar t k value cs = JSScalar ms -> In ("type"%string, v) ms -> v = JStr (type_word k).
  Proof.
    intros t k value cs ms v H. revert v. change (type_is (JStr (type_word k)) ms).
    assert (Hs := fun op => proj1 (kw_never_type op)).
    assert (Hn := fun op => proj2 (kw_never_type op)).
    unfold format_scalar in H.
    destruct k; simpl in H; destruct (dyn_is_nil value); try discriminate;
      try (destruct (has_hint t "string_format_datetime"));
      inversion H; subst; clear H; simpl;
        repeat first [ apply type_is_set; [|discriminate]
                     | apply type_is_add; [assumption|]
                     | apply type_is_base
                     | apply type_is_nil ].
    (* literal member lists (constants on kinds without constraints) *)
    all: intros v Hv; simpl in Hv; repeat (destruct Hv as [Hv|Hv]; [inversion Hv; reflexivity|]); contradiction.
  Qed.

  Lemma leaf_type_valid : forall pt k v,
      wt_scalar pt k v = true -> kw_valid "type" (JStr (type_word k)) (leaf_json v) = Some true.
  Proof.
    intros pt k v H.
    destruct k; destruct v; simpl in H; try discriminate; simpl; try reflexivity.
    all: unfold kw_valid; simpl; rewrite int_literal_is_integer; reflexivity.
  Qed.

  Lemma leaf_jv : forall pt v,
      match pt with
      | TScalar _ k _ _ => wt_scalar pt k v = true
      | TEnum _ vs => True
      | _ => False
      end ->
      sat_leaf pt v = true -> jv defs (emit_type pt) (leaf_json v).
  Proof.
    intros pt v Hwt Hsat.
    destruct pt; try contradiction.
    - (* TEnum *)
      simpl in *. apply JV_enum. rewrite existsb_exists in *.
      destruct Hsat as [ev [Hev Hj]]. exists (dyn_to_json (ev_value ev)); split; auto.
      apply in_map_iff. exists ev; auto.
    - (* TScalar *)
      simpl in Hsat. simpl.
      destruct (format_scalar (TScalar a k value cs) k value cs) as [| |ms| | | | | |] eqn:F; try discriminate.
      apply JV_scalar. intros k0 v0 Hin.
      rewrite forallb_forall in Hsat. specialize (Hsat _ Hin). unfold kw_holds in Hsat. simpl in Hsat.
      destruct (seqb k0 "type") eqn:E.
      + apply seqb_eq in E; subst k0.
        rewrite (format_scalar_type _ _ _ _ _ _ F Hin). eapply leaf_type_valid; eauto.
      + destruct (kw_valid k0 v0 (leaf_json v)) as [[|]|]; try discriminate; reflexivity.
  Qed.

  (* the shared part of the five leaf cases *)
  Lemma leaf_case : forall t v,
      (forall x, v <> GPtr x) -> v <> GNil -> (forall l, v <> GSlice l) -> (forall l, v <> GMap l) ->
      (forall l, v <> GStruct l) -> (forall j, v <> GAny j) ->
      wt ctx t v = true -> sat ctx t v = true -> encode ctx t v = leaf_json v ->
      jv defs (emit_type t) (leaf_json v).
  Proof.
    intros t v N1 N2 N3 N4 N5 N6 Hwt Hsat _.
    assert (Hwt' : is_any t = false /\ exists pt, payload_type ctx t = PTy pt /\
                   match pt with
                   | TScalar _ k _ _ => wt_scalar pt k v = true
                   | TEnum _ vs => match enum_base vs with TScalar _ k _ _ as b => wt_scalar b k v = true | _ => False end
                   | _ => False
                   end).
    { destruct v; try congruence; simpl in Hwt;
        (destruct (is_any t); [discriminate|]); split; auto;
        (destruct (payload_type ctx t) as [pt|] eqn:P; [|discriminate]);
        exists pt; split; auto;
        apply andb_true_iff in Hwt; destruct Hwt as [_ Hwt];
        destruct pt; try discriminate; auto;
        destruct (enum_base vs); try discriminate; auto. }
    destruct Hwt' as [Hany [pt [P Hpt]]].
    assert (Hsat' : match t with TConstRef _ _ _ _ => True | _ => sat_leaf pt v = true end).
    { destruct v; try congruence; simpl in Hsat; destruct t; auto;
        rewrite (payload_or_self_eq _ _ P) in Hsat; exact Hsat. }
    destruct t; try (eapply payload_jv; [exact P|]; apply leaf_jv; [|exact Hsat'];
                     destruct pt; try contradiction; auto; fail).
    (* TConstRef *) simpl. apply JV_empty.
  Qed.

  (* ---------- the theorem ---------- *)
  Theorem encode_validates : forall v t,
      wt ctx t v = true -> sat ctx t v = true -> jv defs (emit_type t) (encode ctx t v).
  Proof.
    induction v using gval_ind'; intros t Hwt Hsat.
    - (* GNil *) simpl in Hsat. discriminate.
    - (* GBool *) apply (leaf_case t (GBool b)); try congruence; auto.
    - (* GInt *) apply (leaf_case t (GInt z)); try congruence; auto.
    - (* GFloat *) apply (leaf_case t (GFloat m e)); try congruence; auto.
    - (* GStr *) apply (leaf_case t (GStr s)); try congruence; auto.
    - (* GTime *) apply (leaf_case t (GTime s l)); try congruence; auto.
    - (* GPtr *)
      simpl in Hwt, Hsat. simpl.
      destruct (is_any t); [discriminate|].
      destruct (payload_type ctx t) as [pt|] eqn:P; [|discriminate].
      apply andb_true_iff in Hwt. destruct Hwt as [_ Hwt].
      rewrite <- (emit_type_set_nullable t false).
      apply IHv; auto.
      destruct v; try discriminate; auto.
    - (* GSlice *)
      simpl in Hwt, Hsat. simpl.
      destruct (is_any t); [discriminate|].
      destruct (payload_type ctx t) as [pt|] eqn:P; [|discriminate].
      rewrite (payload_or_self_eq _ _ P) in *.
      apply andb_true_iff in Hwt. destruct Hwt as [_ Hwt].
      destruct pt; try discriminate.
      eapply payload_jv; [exact P|]. simpl. apply JV_array.
      rewrite forallb_forall in Hwt, Hsat. rewrite Forall_forall in H.
      apply Forall_forall. intros d Hd. apply in_map_iff in Hd. destruct Hd as [x [<- Hx]].
      apply H; auto.
    - (* GMap *)
      simpl in Hwt, Hsat. simpl.
      destruct (is_any t); [discriminate|].
      destruct (payload_type ctx t) as [pt|] eqn:P; [|discriminate].
      rewrite (payload_or_self_eq _ _ P) in *.
      apply andb_true_iff in Hwt. destruct Hwt as [_ Hwt].
      destruct pt; try discriminate.
      apply andb_true_iff in Hwt. destruct Hwt as [_ Hwt].
      eapply payload_jv; [exact P|]. simpl. apply JV_map.
      rewrite forallb_forall in Hwt, Hsat. rewrite Forall_forall in H.
      apply Forall_forall. intros kv Hkv. apply in_map_iff in Hkv. destruct Hkv as [x [<- Hx]]. simpl.
      apply H; auto.
    - (* GStruct *)
      simpl in Hwt, Hsat. simpl.
      destruct (is_any t); [discriminate|].
      destruct (payload_type ctx t) as [pt|] eqn:P; [|discriminate].
      rewrite (payload_or_self_eq _ _ P) in *.
      apply andb_true_iff in Hwt. destruct Hwt as [_ Hwt].
      destruct pt as [| | | |a dh fs| | | | | |]; try discriminate.
      destruct (union_scalars (TStruct a dh fs)); [discriminate|].
      destruct (union_refs (TStruct a dh fs)); [discriminate|].
      apply andb_true_iff in Hwt. destruct Hwt as [_ Hwt].
      apply andb_true_iff in Hsat. destruct Hsat as [Hnd Hsat].
      apply str_nodup_NoDup in Hnd.
      eapply payload_jv; [exact P|].
      (* the members that are printed, and what is known of each *)
      set (enc := (fix go (fs : list field) (fvs : list (string * gval)) {struct fvs} : list (string * json) :=
                     match fs, fvs with
                     | f :: fr, (_, fv) :: vr =>
                         if (negb (f_required f) && is_empty_value fv)%bool then go fr vr
                         else (f_name f, encode ctx (f_type f) fv) :: go fr vr
                     | _, _ => []
                     end)).
      assert (G : forall fs0 fvs0,
                 Forall (fun kv => forall t, wt ctx t (snd kv) = true -> sat ctx t (snd kv) = true ->
                                             jv defs (emit_type t) (encode ctx t (snd kv))) fvs0 ->
                 (fix go (fs : list field) (fvs : list (string * gval)) {struct fvs} : bool :=
                    match fs, fvs with
                    | [], [] => true
                    | f :: fr, (n, fv) :: vr => (seqb n (f_name f) && wt ctx (f_type f) fv && go fr vr)%bool
                    | _, _ => false
                    end) fs0 fvs0 = true ->
                 (fix go (fs : list field) (fvs : list (string * gval)) {struct fvs} : bool :=
                    match fs, fvs with
                    | f :: fr, (_, fv) :: vr =>
                        ((if (negb (f_required f) && is_empty_value fv)%bool then true else sat ctx (f_type f) fv)
                         && go fr vr)%bool
                    | [], [] => true
                    | _, _ => false
                    end) fs0 fvs0 = true ->
                 (forall f, In f fs0 -> f_required f = true -> In (f_name f) (map fst (enc fs0 fvs0))) /\
                 Forall (fun kv => exists f, In f fs0 /\ fst kv = f_name f /\
                                             jv defs (emit_type (f_type f)) (snd kv)) (enc fs0 fvs0)).
      { intros fs0. induction fs0 as [|f fr IHf]; intros fvs0 HF Hw Hs.
        - destruct fvs0; simpl; split; auto; intros f [].
        - destruct fvs0 as [|[n fv] vr]; [discriminate|].
          inversion HF as [|? ? HF1 HF2]; subst.
          apply andb_true_iff in Hw. destruct Hw as [Hw Hw2].
          apply andb_true_iff in Hw. destruct Hw as [_ Hw1].
          apply andb_true_iff in Hs. destruct Hs as [Hs1 Hs2].
          destruct (IHf vr HF2 Hw2 Hs2) as [R1 R2].
          simpl. destruct (negb (f_required f) && is_empty_value fv)%bool eqn:Om.
          + split.
            * intros f0 [<-|Hin] Hr; [|auto].
              rewrite Hr in Om. simpl in Om. discriminate.
            * eapply Forall_impl; [|exact R2]. intros kv [f0 [Hf0 Hx]]. exists f0; split; [right; exact Hf0 | exact Hx].
          + split.
            * intros f0 [<-|Hin] Hr; simpl; auto.
            * constructor.
              -- exists f; simpl. split; [left; reflexivity|]. split; [reflexivity|].
                 try rewrite Om in Hs1. apply (HF1 (f_type f)); auto.
              -- eapply Forall_impl; [|exact R2]. intros kv [f0 [Hf0 Hx]]. exists f0; split; [right; exact Hf0 | exact Hx]. }
      destruct (G fs l H Hwt Hsat) as [G1 G2].
      simpl. apply JV_struct.
      + intros r Hr. apply in_map_iff in Hr. destruct Hr as [f [<- Hf]].
        apply filter_In in Hf. destruct Hf as [Hf Hreq]. apply G1; auto.
      + eapply Forall_impl; [|exact G2].
        intros kv [f [Hf [Hn Hj]]].
        destruct (struct_fields_present a dh fs f Hnd Hf) as [req [props [He Hg]]].
        simpl in He. inversion He; subst. rewrite Hn.
        eexists; eexists; eexists; split; [exact Hg | exact Hj].
    - (* GAny *)
      simpl in Hsat. simpl.
      destruct t; try discriminate. destruct k; try discriminate. destruct value; try discriminate.
      destruct j; try discriminate. simpl. apply JV_any.
  Qed.
End Encode.

(* ---------- a context with one package: the emitted definitions are faithful ---------- *)
Lemma single_package_faithful : forall s fuel jd,
    (forall k o, In (k, o) (s_objects s) -> k = o_name o) ->
    NoDup (map o_name (objects_of s)) ->
    emit_schema [s] fuel s = Ok jd -> faithful [s] (defs_of jd).
Proof.
  intros s fuel jd Hk Hnd H p n o L.
  assert (Hloc : forall p' n' o', locate_object [s] p' n' = Some o' -> p' = s_pkg s /\ In o' (objects_of s) /\ o_name o' = n').
  { intros p' n' o' L'. apply locate_object_in in L'. destruct L' as [s' [[<-|[]] [Hp Hin]]].
    repeat split; auto.
    - unfold objects_of. apply in_map_iff. exists (n', o'); auto.
    - symmetry. eapply Hk; eauto. }
  destruct (Hloc _ _ _ L) as [-> [Hin Hn]].
  unfold emit_schema in H.
  assert (Hnone : collect_foreign [s] (s_pkg s) (map snd (s_objects s)) = []).
  { rewrite collect_foreign_unfold.
    generalize (flat_map (fun o0 => refs_of (o_type o0)) (map snd (s_objects s))).
    intros refs. induction refs as [|[p0 n0] r IH]; simpl; auto.
    unfold cf_step at 2; simpl.
    destruct (seqb p0 (s_pkg s)) eqn:E; auto.
    destruct (locate_object [s] p0 n0) as [oo|] eqn:L0; auto.
    destruct (Hloc _ _ _ L0) as [-> _]. rewrite seqb_refl in E. discriminate. }
  rewrite Hnone in H. destruct fuel; simpl in H; inversion H; subst jd; clear H;
    unfold defs_of; simpl;
    assert (Hg := set_defs_get_own (map snd (s_objects s)) [] o Hnd Hin);
    rewrite Hn in Hg;
    (induction (set_definitions [] (map snd (s_objects s))) as [|[k0 [d0 c0]] r IHr]; simpl in *; [discriminate|]);
    (destruct (seqb k0 n); [inversion Hg; reflexivity | auto]).
Qed.

(* ---------- js_valid is sound for jv ---------- *)
Lemma and3_true : forall a b, and3 a b = Some true -> a = Some true /\ b = Some true.
Proof. intros [[|]|] [[|]|] H; simpl in H; try discriminate; auto. Qed.

Lemma all3_true : forall l, all3 l = Some true -> forall x, In x l -> x = Some true.
Proof.
  induction l as [|y r IH]; intros H x Hin; simpl in *; [contradiction|].
  apply and3_true in H. destruct H as [Hy Hr].
  destruct Hin as [<-|Hin]; auto.
Qed.

Lemma or3_true : forall a b, or3 a b = Some true -> (a = Some true /\ b <> None) \/ (b = Some true /\ a <> None).
Proof. intros [[|]|] [[|]|] H; simpl in H; try discriminate; [left|left|right]; split; congruence. Qed.

Lemma any3_true : forall l, any3 l = Some true -> exists x, In x l /\ x = Some true.
Proof.
  induction l as [|y r IH]; intros H; [simpl in H; discriminate|].
  change (or3 y (any3 r) = Some true) in H.
  apply or3_true in H. destruct H as [[Hy _]|[Hr _]].
  - exists y; split; [left; reflexivity | exact Hy].
  - destruct (IH Hr) as [x [Hx He]]. exists x; split; [right; exact Hx | exact He].
Qed.

Theorem js_valid_sound : forall defs fuel s d, js_valid defs fuel s d = Some true -> jv defs s d.
Proof.
  intros defs fuel. induction fuel as [|f IH]; intros s d H; simpl in H; [discriminate|].
  destruct s.
  - destruct d; try discriminate. apply JV_any.
  - apply JV_empty.
  - apply JV_scalar. intros k v Hin.
    apply (all3_true _ H). apply in_map_iff. exists (k, v); auto.
  - destruct (om_get defs name) as [s'|] eqn:G; [|discriminate].
    eapply JV_ref; eauto.
  - inversion H. apply JV_enum; auto.
  - destruct d; try discriminate. apply JV_array. apply Forall_forall. intros x Hx.
    apply IH. apply (all3_true _ H). apply in_map_iff. exists x; auto.
  - destruct d; try discriminate. apply JV_map. apply Forall_forall. intros kv Hkv.
    apply IH. apply (all3_true _ H). apply in_map_iff. exists kv; auto.
  - destruct d; try discriminate.
    destruct (forallb (fun r => str_in r (map fst ms)) required) eqn:R; simpl in H.
    + destruct (all3 _) as [[|]|] eqn:A; simpl in H; try discriminate.
      apply JV_struct.
      * intros r Hr. rewrite forallb_forall in R. apply str_in_In. auto.
      * apply Forall_forall. intros kv Hkv.
        assert (Hx := all3_true _ A). specialize (Hx _ (in_map _ _ _ Hkv)). simpl in Hx.
        destruct (om_get props (fst kv)) as [[[ps de] df]|] eqn:G; [|discriminate].
        exists ps, de, df; split; auto.
    + destruct (all3 _) as [[|]|]; simpl in H; discriminate.
  - apply any3_true in H. destruct H as [x [Hx He]]. apply in_map_iff in Hx. destruct Hx as [b [Hb Hin]].
    subst x. eapply JV_anyof; eauto.
Qed.

(* ---------- and complete: a rejection is a refutation ---------- *)
Lemma and3_false : forall a b, and3 a b = Some false -> (a = Some false \/ b = Some false) /\ a <> None /\ b <> None.
Proof. intros [[|]|] [[|]|] H; simpl in H; try discriminate; repeat split; auto; congruence. Qed.

Lemma all3_false : forall l, all3 l = Some false -> exists x, In x l /\ x = Some false.
Proof.
  induction l as [|y r IH]; intros H; [simpl in H; discriminate|].
  change (and3 y (all3 r) = Some false) in H.
  apply and3_false in H. destruct H as [[Hy|Hr] _].
  - exists y; split; [left; reflexivity | exact Hy].
  - destruct (IH Hr) as [x [Hx He]]. exists x; split; [right; exact Hx | exact He].
Qed.

Lemma or3_false : forall a b, or3 a b = Some false -> a = Some false /\ b = Some false.
Proof. intros [[|]|] [[|]|] H; simpl in H; try discriminate; auto. Qed.

Lemma any3_false : forall l, any3 l = Some false -> forall x, In x l -> x = Some false.
Proof.
  induction l as [|y r IH]; intros H x Hin; [contradiction|].
  change (or3 y (any3 r) = Some false) in H. apply or3_false in H. destruct H as [Hy Hr].
  destruct Hin as [<-|Hin]; auto.
Qed.

Theorem js_valid_complete : forall defs fuel s d, js_valid defs fuel s d = Some false -> ~ jv defs s d.
Proof.
  intros defs fuel. induction fuel as [|f IH]; intros s d H Hjv; simpl in H; [discriminate|].
  destruct s.
  - inversion Hjv; subst. discriminate.
  - discriminate.
  - inversion Hjv; subst. apply all3_false in H. destruct H as [x [Hx He]].
    apply in_map_iff in Hx. destruct Hx as [[k v] [Hk Hin]]. simpl in Hk.
    rewrite (H1 _ _ Hin) in Hk. subst x. discriminate.
  - inversion Hjv; subst. rewrite H2 in H. eapply IH; eauto.
  - inversion Hjv; subst. inversion H. congruence.
  - inversion Hjv; subst.
    + apply all3_false in H. destruct H as [x [Hx He]].
      apply in_map_iff in Hx. destruct Hx as [y [Hy Hin]]. subst x.
      rewrite Forall_forall in H1. eapply IH; eauto.
  - inversion Hjv; subst.
    apply all3_false in H. destruct H as [x [Hx He]].
    apply in_map_iff in Hx. destruct Hx as [kv [Hy Hin]]. subst x.
    rewrite Forall_forall in H1. eapply IH; eauto.
  - inversion Hjv; subst.
    assert (Hall : forallb (fun r => str_in r (map fst ms)) required = true).
    { apply forallb_forall. intros r Hin. apply str_in_In. auto. }
    rewrite Hall in H.
    match type of H with match ?a with _ => _ end = _ => destruct a as [[|]|] eqn:Ha; simpl in H; try discriminate end.
    + apply all3_false in Ha. destruct Ha as [x [Hx He]].
      apply in_map_iff in Hx. destruct Hx as [kv [Hy Hin]]. subst x.
      rewrite Forall_forall in H4. destruct (H4 _ Hin) as [ps [de [df [Hg Hj]]]].
      rewrite Hg in He. eapply IH; eauto.
  - inversion Hjv; subst.
    assert (Hx := any3_false _ H (js_valid defs f b d) (in_map _ _ _ H1)).
    eapply IH; eauto.
Qed.
