(* C14 — lemmas about coq/Model/Converter.v. *)
From Coq Require Import List String ZArith Bool Ascii Lia.
From Cog Require Import Model.IR Model.Json Model.Builders Model.BuildersEq Model.Spec16 Model.GoSem
  Model.BuilderEval Model.BuilderSpec Model.Converter Proofs.BuilderEvalProofs.
Import ListNotations.
Local Open Scope string_scope.
Local Open Scope list_scope.

(* ---------- sub-sequences ---------- *)
Inductive subseq {A} : list A -> list A -> Prop :=
| ss_nil : forall l, subseq [] l
| ss_take : forall x a l, subseq a l -> subseq (x :: a) (x :: l)
| ss_skip : forall x a l, subseq a l -> subseq a (x :: l).

Lemma subseq_in {A} (a l : list A) : subseq a l -> forall x, In x a -> In x l.
Proof. induction 1; simpl; intros y I; [contradiction| |right; auto]. destruct I as [<-|I]; [left|right]; auto. Qed.

Lemma subseq_nodup {A} (a l : list A) : subseq a l -> NoDup l -> NoDup a.
Proof.
  induction 1; intros N; [constructor| |inversion N; auto].
  inversion N; subst. constructor; auto. intro I. apply H2. eapply subseq_in; eauto.
Qed.

Lemma omapM_forall2 {A B} (f : A -> outcome B) l r : omapM f l = GOk r -> Forall2 (fun x y => f x = GOk y) l r.
Proof.
  revert r. induction l as [|x t IH]; simpl; intros r H.
  - inversion H. constructor.
  - apply obind_ok in H. destruct H as [y [H1 H]]. apply obind_ok in H. destruct H as [ys [H2 H]].
    inversion H; subst. constructor; auto.
Qed.

(* ---------- one option of the builder gives at most one option mapping, for that option ---------- *)
Definition mapping_of (o : boption) (m : convmapping) : Prop :=
  cm_options m = [] \/ exists om, cm_options m = [om] /\ om_option om = o.

Lemma mapping_for_option_option e b gp cm o om gp' :
  mapping_for_option e b gp cm o = (Some om, gp') -> om_option om = o.
Proof.
  unfold mapping_for_option.
  destruct (filter (fun a : assignment => negb (generated gp a)) (op_assignments o)) as [|a0 rest]; [discriminate|].
  match goal with |- context [fold_left ?f ?l ?a] => destruct (fold_left f l a) as [[args g] i] end.
  intros H. inversion H. reflexivity.
Qed.

Lemma convert_option_mapping e b gp o m gp' : convert_option e b gp o = (m, gp') -> mapping_of o m.
Proof.
  unfold convert_option, mapping_of.
  destruct (filter (fun a : assignment => negb (generated gp a)) (op_assignments o)) as [|a0 rest];
    [intros H; inversion H; left; reflexivity|].
  match goal with |- context [cm_repeat_for ?c] => set (cm := c) end.
  destruct (cm_repeat_for cm).
  - destruct (from_disjunction_struct e a0).
    + intros H. inversion H. left. reflexivity.
    + destruct (mapping_for_option e b gp cm o) as [[om|] g] eqn:E; intros H; inversion H; subst.
      * right. exists om. split; auto. eapply mapping_for_option_option; eauto.
      * left. reflexivity.
  - destruct (mapping_for_option e b gp cm o) as [[om|] g] eqn:E; intros H; inversion H; subst.
    + right. exists om. split; auto. eapply mapping_for_option_option; eauto.
    + left. reflexivity.
Qed.

Lemma from_builder_fold e b : forall opts ms0 gp0 ms gp,
  fold_left (fun acc o => let '(ms, gp) := acc in let '(m, gp') := convert_option e b gp o in (ms ++ [m], gp'))
            opts (ms0, gp0) = (ms, gp) ->
  exists ms', ms = ms0 ++ ms' /\ Forall2 mapping_of opts ms'.
Proof.
  induction opts as [|o r IH]; simpl; intros ms0 gp0 ms gp H.
  - inversion H. exists []. split; [rewrite app_nil_r; reflexivity|constructor].
  - destruct (convert_option e b gp0 o) as [m g'] eqn:E.
    destruct (IH _ _ _ _ H) as [ms' [-> F]]. exists (m :: ms'). split.
    + rewrite <- app_assoc. reflexivity.
    + constructor; auto. eapply convert_option_mapping; eauto.
Qed.

Lemma from_builder_mappings e b :
  exists ms lms, Forall2 mapping_of (b_options b) ms /\
             cv_mappings (from_builder e b) =
             filter (fun m => negb (match cm_options m with [] => true | _ => false end)) (ms ++ lms).
Proof.
  unfold from_builder.
  destruct (fold_left _ (b_options b) ([], [])) as [ms gp] eqn:E.
  destruct (from_builder_fold e b _ _ _ _ _ E) as [ms' [-> F]]. eexists ms', _. split; [exact F|reflexivity].
Qed.

(* ---------- the calls a mapping without repetition emits ---------- *)
Lemma conv_option_calls conv env om cs :
  conv_option conv env om = GOk cs -> cs = [] \/ exists args, cs = [(op_name (om_option om), args)].
Proof.
  unfold conv_option. intros H. apply obind_ok in H. destruct H as [ok [_ H]].
  destruct ok; simpl in H; [|inversion H; left; reflexivity].
  apply obind_ok in H. destruct H as [args [_ H]]. inversion H. right. eauto.
Qed.

Lemma conv_mapping_calls conv env m o cs :
  mapping_of o m -> cm_repeat_for m = None -> conv_mapping conv env m = GOk cs ->
  subseq (map fst cs) [op_name o].
Proof.
  intros [E|[om [E O]]] R H; unfold conv_mapping in H; rewrite E in H.
  - inversion H. constructor.
  - apply obind_ok in H. destruct H as [ok [_ H]]. destruct ok; simpl in H; [|inversion H; constructor].
    rewrite R in H. apply obind_ok in H. destruct H as [css [H1 H]]. inversion H; subst. clear H.
    simpl in H1. apply obind_ok in H1. destruct H1 as [c1 [H1 H2]]. inversion H2; subst. simpl. rewrite app_nil_r.
    destruct (conv_option_calls _ _ _ _ H1) as [->|[args ->]]; simpl; [constructor|]. constructor. constructor.
Qed.

Lemma subseq_app {A} (a1 l1 a2 l2 : list A) : subseq a1 l1 -> subseq a2 l2 -> subseq (a1 ++ a2) (l1 ++ l2).
Proof.
  induction 1; simpl; intros S2.
  - induction l as [|x l IH]; simpl; auto. constructor. exact IH.
  - constructor. auto.
  - constructor. auto.
Qed.

Lemma mappings_calls conv env : forall opts ms css,
  Forall2 mapping_of opts ms -> (forall m, In m ms -> cm_repeat_for m = None) ->
  omapM (conv_mapping conv env) (filter (fun m => negb (match cm_options m with [] => true | _ => false end)) ms) = GOk css ->
  subseq (map fst (List.concat css)) (map op_name opts).
Proof.
  intros opts ms css F. revert css. induction F as [|o m opts ms Hm _ IH]; simpl; intros css R H.
  - inversion H. constructor.
  - destruct (cm_options m) eqn:EO; simpl in H.
    + constructor. apply IH; auto.
    + apply obind_ok in H. destruct H as [c1 [H1 H]]. apply obind_ok in H. destruct H as [cr [H2 H]].
      inversion H; subst. simpl. rewrite map_app.
      change (op_name o :: map op_name opts) with ([op_name o] ++ map op_name opts).
      apply subseq_app.
      * eapply conv_mapping_calls; eauto.
      * apply IH; auto.
Qed.

(* ---------- builders whose options only assign directly: no `for ... range` in the converter ---------- *)
Definition direct_option (o : boption) : Prop := forall a, In a (op_assignments o) -> as_method a = "direct".

Lemma convert_option_norepeat e b gp o m gp' :
  direct_option o -> convert_option e b gp o = (m, gp') -> cm_repeat_for m = None /\ cm_repeat_as m = "".
Proof.
  unfold convert_option. intros D.
  destruct (filter (fun a : assignment => negb (generated gp a)) (op_assignments o)) as [|a0 rest] eqn:EF;
    [intros H; inversion H; split; reflexivity|].
  assert (I0 : In a0 (op_assignments o)).
  { assert (X : In a0 (a0 :: rest)) by (left; reflexivity). rewrite <- EF in X. apply filter_In in X. tauto. }
  assert (M := D a0 I0). unfold is_append, is_index. rewrite M. simpl. rewrite !andb_false_r. simpl.
  destruct (mapping_for_option e b gp _ o) as [[om|] g]; intros H; inversion H; split; reflexivity.
Qed.

Lemma from_builder_fold_norepeat e b : forall opts ms0 gp0 ms gp,
  (forall o, In o opts -> direct_option o) ->
  fold_left (fun acc o => let '(ms, gp) := acc in let '(m, gp') := convert_option e b gp o in (ms ++ [m], gp'))
            opts (ms0, gp0) = (ms, gp) ->
  (forall m, In m ms0 -> cm_repeat_for m = None /\ cm_repeat_as m = "") ->
  forall m, In m ms -> cm_repeat_for m = None /\ cm_repeat_as m = "".
Proof.
  induction opts as [|o r IH]; simpl; intros ms0 gp0 ms gp D H R m I.
  - inversion H; subst. auto.
  - destruct (convert_option e b gp0 o) as [m1 g'] eqn:E.
    eapply (IH _ _ _ _ (fun o' Io => D o' (or_intror Io)) H); eauto.
    intros m' I'. apply in_app_or in I'. destruct I' as [I'|[<-|[]]]; auto.
    eapply convert_option_norepeat; eauto.
Qed.

(* no note of listOfDisjunctionOptions among the mappings: no extra loops *)
Lemma lod_groups_none : forall (oms : list (boption * convmapping)) g,
  (forall om, In om oms -> cm_repeat_as (snd om) = "") ->
  fold_left (fun g om => if is_lod_marker (snd om) then lod_add g (cm_repeat_index (snd om)) (fst om) else g) oms g = g.
Proof.
  induction oms as [|om r IH]; simpl; intros g H; auto.
  assert (X : is_lod_marker (snd om) = false).
  { unfold is_lod_marker. rewrite (H om (or_introl eq_refl)). reflexivity. }
  rewrite X. apply IH. intros; apply H; right; auto.
Qed.

Lemma lod_mappings_none e b gp opts ms :
  (forall m, In m ms -> cm_repeat_as m = "") -> lod_mappings e b gp (lod_groups opts ms) = [].
Proof.
  intros H. unfold lod_groups. rewrite lod_groups_none; [reflexivity|].
  intros [o m] I. apply H. apply in_combine_r in I. exact I.
Qed.

Theorem each_option_at_most_once_proof e p n v b bp bn ctor calls :
  locate_builder (be_builders e) p n = Some b ->
  (forall o, In o (b_options b) -> direct_option o) -> NoDup (map op_name (b_options b)) ->
  converter_output e p n v = GOk (BBuild bp bn ctor calls) ->
  subseq (map fst calls) (map op_name (b_options b)) /\ NoDup (map fst calls).
Proof.
  intros L D ND H. unfold converter_output, convert_fuel in H. simpl in H. rewrite L in H.
  apply obind_ok in H. destruct H as [ctor' [_ H]]. apply obind_ok in H. destruct H as [css [H1 H]].
  inversion H; subst. clear H.
  assert (S : subseq (map fst (List.concat css)) (map op_name (b_options b))).
  { unfold from_builder in H1.
    destruct (fold_left _ (b_options b) ([], [])) as [ms gp] eqn:E. simpl in H1.
    destruct (from_builder_fold e b _ _ _ _ _ E) as [ms' [EQ F]]. simpl in EQ. subst ms.
    assert (NR : forall m, In m ms' -> cm_repeat_for m = None /\ cm_repeat_as m = "").
    { eapply from_builder_fold_norepeat; eauto. intros m []. }
    rewrite (lod_mappings_none e b gp (b_options b) ms') in H1 by (intros m I; apply NR; exact I).
    rewrite app_nil_r in H1.
    eapply mappings_calls; eauto. intros m I. apply NR. exact I. }
  split; auto. eapply subseq_nodup; eauto.
Qed.

(* ---------- what a derived option's call writes back ---------- *)
(* reading a field of pointer-or-value type t and passing the dereferenced value to the derived option stores
   the value that was read *)
Lemma roundtrip_value t x :
  x <> GNil -> (as_pointer t = true -> exists y, x = GPtr y) ->
  maybe_ptr t (match (if as_pointer t then match x with GPtr y => Some y | _ => None end else Some x) with Some y => y | None => GNil end) = x.
Proof.
  intros N P. unfold maybe_ptr. destruct (as_pointer t).
  - destruct (P eq_refl) as [y ->]. reflexivity.
  - reflexivity.
Qed.

Theorem derived_call_writes_back_proof e f o st fs x y :
  struct_field_to_option f = Ok o -> f_name f <> "" ->
  type_has_builder e (f_type f) = false ->
  bs_obj st = GStruct fs -> gmap_find fs (f_name f) <> None ->
  (* the converter read x from input.<f> and printed y = *x (nullable scalar) or x itself *)
  (if as_pointer (f_type f) then x = GPtr y else x = y) ->
  exists fs', go_option e o st [AVal y] = GOk (mkBState (GStruct fs') (bs_errors st)) /\
              gmap_find fs' (f_name f) = Some x /\
              (forall g, g <> f_name f -> gmap_find fs' g = gmap_find fs g).
Proof.
  intros D N B S F X.
  destruct (gmap_find fs (f_name f)) as [old|] eqn:EF; [|congruence].
  destruct (go_derived_option_sets_proof e f o st fs old (AVal y) y D N S EF (plain_arg_value e _ _ y B)) as [fs' [G [G1 [G2 _]]]].
  exists fs'. repeat split; auto. rewrite G1. f_equal. unfold maybe_ptr. destruct (as_pointer (f_type f)); subst; reflexivity.
Qed.

(* ---------- FromBuilder on a builder as FromAST derives it ---------- *)
Definition derived_mapping (e : benv) (b : builder) (f : field) (o : boption) : convmapping :=
  let p := [mkPathItem (f_name f) None (f_type f) None false] in
  mkConvMapping None "" ""
    [mkOptMapping o (guard_for_assignments (input_root b) (op_assignments o))
                  [mkAMapping (argument_for_type arg_fuel e "arg1" (input_root b ++ p) (f_type f)) []]].

Definition key_of_field (f : field) : akey := (f_name f, DNil, []).

Lemma generated_false gp (a : assignment) :
  (forall k, In k gp -> fst (fst k) <> fst (fst (assignment_key a))) -> generated gp a = false.
Proof.
  unfold generated. intros H. induction gp as [|k r IH]; simpl; auto.
  rewrite IH by (intros k' I; apply H; right; exact I). rewrite orb_false_r.
  destruct (assignment_key a) as [[pa ca] ea] eqn:EA. destruct k as [[pk ck] ek]. simpl.
  specialize (H (pk, ck, ek) (or_introl eq_refl)). simpl in H.
  destruct (seqb pa pk) eqn:E; auto. apply seqb_eq in E. subst. contradiction.
Qed.

Lemma convert_option_derived e b gp f o :
  struct_field_to_option f = Ok o ->
  (forall k, In k gp -> fst (fst k) <> f_name f) ->
  convert_option e b gp o = (derived_mapping e b f o, gp ++ [key_of_field f]).
Proof.
  intros D G. destruct (derived_option_shape _ _ D) as [cs ->].
  set (a := mkAssignment [mkPathItem (f_name f) None (f_type f) None false]
                         (AValue (Some (mkArg (f_name f) (f_type f))) DNil None) "direct" cs []).
  assert (NG : generated gp a = false).
  { apply generated_false. intros k I. simpl. apply G. exact I. }
  unfold convert_option. cbn [op_assignments filter]. rewrite NG. cbn [negb].
  unfold is_append, is_index. cbn [as_method]. cbn [seqb String.eqb Ascii.eqb Bool.eqb andb].
  cbn [cm_repeat_for].
  unfold mapping_for_option. cbn [op_assignments filter]. rewrite NG. cbn [negb].
  cbn [fold_left has_const as_value dyn_is_nil negb cm_repeat_for]. 
  unfold from_disjunction_struct, envelope_of. cbn [as_value].
  unfold derived_mapping, key_of_field, assignment_key. cbn [as_value as_path op_assignments].
  unfold path_last_type, path_string. cbn [List.last pi_type map pi_id String.concat].
  reflexivity.
Qed.

Fixpoint derived_mappings (e : benv) (b : builder) (fs : list field) (opts : list boption) : list convmapping :=
  match fs, opts with
  | f :: fr, o :: r => derived_mapping e b f o :: derived_mappings e b fr r
  | _, _ => []
  end.

Lemma from_builder_fold_derived e b : forall fs opts ms0 gp0,
  Forall2 (fun f o => struct_field_to_option f = Ok o) fs opts ->
  NoDup (map f_name fs) ->
  (forall k, In k gp0 -> ~ In (fst (fst k)) (map f_name fs)) ->
  fold_left (fun acc o => let '(ms, gp) := acc in let '(m, gp') := convert_option e b gp o in (ms ++ [m], gp'))
            opts (ms0, gp0) = (ms0 ++ derived_mappings e b fs opts, gp0 ++ map key_of_field fs).
Proof.
  intros fs opts ms0 gp0 F. revert ms0 gp0. induction F as [|f o fs opts D _ IH]; intros ms0 gp0 ND G.
  - simpl. rewrite !app_nil_r. reflexivity.
  - apply NoDup_cons_iff in ND. destruct ND as [Nh Nt]. simpl.
    rewrite (convert_option_derived e b gp0 f o D) by (intros k I E; apply (G k I); left; auto).
    rewrite IH; auto.
    + rewrite <- !app_assoc. reflexivity.
    + intros k I. apply in_app_or in I. destruct I as [I|[<-|[]]].
      * intro X. apply (G k I). right. exact X.
      * simpl. exact Nh.
Qed.

(* the converter of such a builder: one mapping per option, in option order, each guarded by the guards of its
   single assignment and carrying one argument for the field *)
Theorem derived_converter_shape_proof e b fs :
  Forall2 (fun f o => struct_field_to_option f = Ok o) fs (b_options b) -> NoDup (map f_name fs) ->
  cv_mappings (from_builder e b) = derived_mappings e b fs (b_options b).
Proof.
  intros F ND. unfold from_builder.
  destruct (fold_left _ (b_options b) ([], [])) as [ms gp] eqn:E.
  assert (X : (ms, gp) = ([] ++ derived_mappings e b fs (b_options b), [] ++ map key_of_field fs)).
  { rewrite <- E. apply (from_builder_fold_derived e b fs (b_options b) [] [] F ND). intros k []. }
  inversion X; subst. cbn [app cv_mappings].
  rewrite lod_mappings_none, app_nil_r.
  - clear E X ND. induction F as [|f o fs' opts D _ IH]; simpl; auto. f_equal. exact IH.
  - clear. intros m I. revert I. generalize (b_options b). induction fs as [|f fr IH]; intros [|o r]; simpl; try contradiction.
    intros [<-|I]; [reflexivity|eauto].
Qed.

(* the options FromAST derives are the image of a sub-sequence of the struct's fields *)
Lemma role_opts_fields fs roles : Forall2 role_ok fs roles ->
  exists fs', Forall2 (fun f o => struct_field_to_option f = Ok o) fs' (role_opts roles) /\ subseq fs' fs.
Proof.
  induction 1 as [|f r fs rs Hr _ [fs' [A B]]].
  - exists []. split; constructor.
  - unfold role_opts. simpl. fold (role_opts rs). destruct r; simpl.
    + exists fs'. split; auto. constructor. exact B.
    + exists fs'. split; auto. constructor. exact B.
    + exists (f :: fs'). split; constructor; auto.
Qed.

Lemma subseq_map {A B} (g : A -> B) (a l : list A) : subseq a l -> subseq (map g a) (map g l).
Proof. induction 1; simpl; constructor; auto. Qed.

Theorem from_ast_converter_shape_proof ss bs b e :
  from_ast ss = Ok bs -> In b bs ->
  (forall a dh fs, resolve_to_type (res_fuel ss) ss (o_type (b_for b)) = Ok (TStruct a dh fs) -> NoDup (map f_name fs)) ->
  exists fs', Forall2 (fun f o => struct_field_to_option f = Ok o) fs' (b_options b) /\
              cv_mappings (from_builder e b) = derived_mappings e b fs' (b_options b).
Proof.
  intros H I HS. destruct (from_ast_in _ _ _ H I) as [s [ko [_ [_ D]]]].
  unfold struct_object_to_builder in D.
  destruct (resolve_to_type (res_fuel ss) ss (o_type (snd ko))) as [rt| | |] eqn:R; simpl in D; try discriminate.
  destruct rt; try discriminate.
  destruct (mapM (field_role_of (res_fuel ss) ss) fs) as [roles| | |] eqn:EM; simpl in D; try discriminate.
  inversion D; subst. clear D. simpl in HS. specialize (HS _ _ _ R).
  destruct (role_opts_fields _ _ (roles_ok _ _ _ _ EM)) as [fs' [F S]].
  exists fs'. split; [exact F|].
  apply derived_converter_shape_proof; [exact F|].
  eapply subseq_nodup; [apply subseq_map; exact S|exact HS].
Qed.
