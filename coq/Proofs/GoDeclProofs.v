(* C02: the declarations of the Go types jenny -- the option vector only changes the spelling of `any` and the
   method sets; method calls are closed under every vector; printable contexts carry no placeholder; scalar
   default literals; witnesses of the refuted statements. *)
From Coq Require Import List String ZArith Bool Ascii Lia.
From Cog Require Import Model.IR Model.Names Model.Json Model.GoSemBase Model.GoDecl Proofs.TyInd.
Import ListNotations.
Local Open Scope string_scope.
Local Open Scope list_scope.

(* ---------- format_type looks at one option only ---------- *)
Lemma format_type_scalar_any : forall fl fl' t,
    gf_any_as_interface fl = gf_any_as_interface fl' -> format_type_scalar fl t = format_type_scalar fl' t.
Proof. intros fl fl' t H. destruct t; auto. destruct k; simpl; auto. rewrite H; reflexivity. Qed.

Lemma flat_map_ext_in : forall A B (f g : A -> list B) l, (forall x, In x l -> f x = g x) -> flat_map f l = flat_map g l.
Proof.
  induction l as [|x r IH]; intros H; simpl; auto.
  rewrite H by (left; reflexivity). rewrite IH; auto. intros y Hy. apply H. right; exact Hy.
Qed.

Lemma format_type_any : forall fl fl' ctx t,
    gf_any_as_interface fl = gf_any_as_interface fl' -> format_type fl ctx t = format_type fl' ctx t.
Proof.
  intros fl fl' ctx t Hany. induction t using ty_ind'; simpl; auto.
  - (* TArray *) rewrite IHt; reflexivity.
  - (* TMap *) rewrite IHt1, IHt2; reflexivity.
  - (* TStruct *)
    rewrite Forall_forall in H0.
    assert (E : forall f, In f fs ->
                (format_field_name (f_name f),
                 match field_type_subst ctx (f_type f) with
                 | TScalar _ _ _ _ as st => format_type_scalar fl st
                 | _ => format_type fl ctx (f_type f) end) =
                (format_field_name (f_name f),
                 match field_type_subst ctx (f_type f) with
                 | TScalar _ _ _ _ as st => format_type_scalar fl' st
                 | _ => format_type fl' ctx (f_type f) end)).
    { intros f Hin. specialize (H0 f Hin). f_equal.
      destruct (field_type_subst ctx (f_type f)); try exact H0.
      apply format_type_scalar_any; exact Hany. }
    destruct (nullable a); [f_equal|]; f_equal; apply map_ext_in; exact E.
  - (* TScalar *) destruct k; auto. rewrite Hany; reflexivity.
  - (* TInter *)
    rewrite Forall_forall in H. f_equal.
    + apply flat_map_ext_in. intros b Hb. destruct b; auto. rewrite (H _ Hb). reflexivity.
    + apply flat_map_ext_in. intros b Hb. destruct b; auto; rewrite (H _ Hb); reflexivity.
Qed.

(* ---------- what the option vector does to the declarations of an object ---------- *)
Definition no_methods (ds : list godecl) : list godecl :=
  filter (fun d => match d with DMethod _ _ => false | _ => true end) ds.

Lemma no_methods_app : forall a b, no_methods (a ++ b) = no_methods a ++ no_methods b.
Proof. intros; unfold no_methods; apply filter_app. Qed.

Lemma no_methods_methods : forall name ms, no_methods (map (fun m => DMethod name m) ms) = [].
Proof. induction ms; simpl; auto. Qed.

Lemma decls_of_object_any : forall fl fl' ctx o,
    gf_any_as_interface fl = gf_any_as_interface fl' ->
    no_methods (decls_of_object fl ctx o) = no_methods (decls_of_object fl' ctx o).
Proof.
  intros fl fl' ctx o H. unfold decls_of_object.
  destruct (o_type o) eqn:E; auto;
    try (rewrite (format_type_any fl fl' ctx _ H); reflexivity).
  - (* TEnum *) destruct vs; auto. rewrite (format_type_any fl fl' ctx _ H). reflexivity.
  - (* TStruct *)
    rewrite (format_type_any fl fl' ctx _ H).
    change (DType (format_object_name (o_name o)) (format_type fl' ctx (TStruct a dh fs))
            :: DFunc ("New" ++ format_object_name (o_name o))%string
            :: no_methods (map (fun m => DMethod (format_object_name (o_name o)) m) (methods_of fl ctx o)) =
            DType (format_object_name (o_name o)) (format_type fl' ctx (TStruct a dh fs))
            :: DFunc ("New" ++ format_object_name (o_name o))%string
            :: no_methods (map (fun m => DMethod (format_object_name (o_name o)) m) (methods_of fl' ctx o))).
    rewrite !no_methods_methods. reflexivity.
Qed.

Lemma no_methods_flat_map : forall A (f : A -> list godecl) l,
    no_methods (flat_map f l) = flat_map (fun x => no_methods (f x)) l.
Proof. induction l; simpl; auto. rewrite no_methods_app, IHl. reflexivity. Qed.

Lemma decls_of_schema_any : forall fl fl' ctx s,
    gf_any_as_interface fl = gf_any_as_interface fl' ->
    no_methods (decls_of_schema fl ctx s) = no_methods (decls_of_schema fl' ctx s).
Proof.
  intros. unfold decls_of_schema. rewrite !no_methods_flat_map.
  apply flat_map_ext_in. intros ko _. apply decls_of_object_any; assumption.
Qed.

(* everything decls_wf reads except the method calls only looks at the non-method declarations *)
Lemma via_no_methods : forall A (f : godecl -> list A), (forall r m, f (DMethod r m) = []) ->
    forall ds, flat_map f ds = flat_map f (no_methods ds).
Proof.
  intros A f Hm. induction ds as [|d r IH]; simpl; auto.
  destruct d; simpl; try (rewrite IH; reflexivity). rewrite Hm. exact IH.
Qed.

Lemma type_names_any : forall fl fl' ctx s, gf_any_as_interface fl = gf_any_as_interface fl' ->
    type_names (decls_of_schema fl ctx s) = type_names (decls_of_schema fl' ctx s).
Proof.
  intros. unfold type_names.
  rewrite (via_no_methods _ (fun d => match d with DType n _ => [n] | _ => [] end)) by reflexivity.
  rewrite (via_no_methods _ (fun d => match d with DType n _ => [n] | _ => [] end) (fun _ _ => eq_refl) (decls_of_schema fl' ctx s)).
  rewrite (decls_of_schema_any fl fl' ctx s H). reflexivity.
Qed.

Lemma decl_types_any : forall fl fl' ctx s, gf_any_as_interface fl = gf_any_as_interface fl' ->
    decl_types (decls_of_schema fl ctx s) = decl_types (decls_of_schema fl' ctx s).
Proof.
  intros. unfold decl_types.
  rewrite (via_no_methods _ (fun d => match d with DType _ t => [t] | _ => [] end)) by reflexivity.
  rewrite (via_no_methods _ (fun d => match d with DType _ t => [t] | _ => [] end) (fun _ _ => eq_refl) (decls_of_schema fl' ctx s)).
  rewrite (decls_of_schema_any fl fl' ctx s H). reflexivity.
Qed.

Lemma scope_names_any : forall fl fl' ctx s, gf_any_as_interface fl = gf_any_as_interface fl' ->
    flat_map scope_name (decls_of_schema fl ctx s) = flat_map scope_name (decls_of_schema fl' ctx s).
Proof.
  intros.
  rewrite (via_no_methods _ scope_name) by reflexivity.
  rewrite (via_no_methods _ scope_name (fun _ _ => eq_refl) (decls_of_schema fl' ctx s)).
  rewrite (decls_of_schema_any fl fl' ctx s H). reflexivity.
Qed.

Lemma type_declared_any : forall fl fl' ctx pn, gf_any_as_interface fl = gf_any_as_interface fl' ->
    type_declared fl ctx pn = type_declared fl' ctx pn.
Proof.
  intros. unfold type_declared. destruct (locate ctx (fst pn)); auto.
  rewrite (type_names_any fl fl' ctx s H). reflexivity.
Qed.

(* ---------- every method a generated body calls is printed, under every option vector ---------- *)
Lemma struct_targets_ref : forall ctx a p n,
    struct_targets ctx (TRef a p n) =
    match final_object ctx (S (count_objects ctx)) p n with
    | Some (p', n') => match locate_object ctx p' n' with
                       | Some o' => if is_struct (o_type o') then [(p', n')] else []
                       | None => []
                       end
    | None => []
    end.
Proof. reflexivity. Qed.

Lemma struct_targets_struct : forall ctx t p n,
    In (p, n) (struct_targets ctx t) -> exists o, locate_object ctx p n = Some o /\ is_struct (o_type o) = true.
Proof.
  intros ctx t. induction t using ty_ind'; intros p0 n0 Hin;
    try (simpl in Hin; contradiction); try (simpl in Hin; auto; fail).
  rewrite struct_targets_ref in Hin.
  destruct (final_object ctx (S (count_objects ctx)) p n) as [[p' n']|]; [|contradiction].
  destruct (locate_object ctx p' n') as [o'|] eqn:L; [|contradiction].
  destruct (is_struct (o_type o')) eqn:S; [|contradiction].
  destruct Hin as [Hin|[]]. inversion Hin; subst. eauto.
Qed.

Lemma custom_not_common : forall fl ctx o m,
    In m (custom_methods fl ctx o) -> m = "MarshalJSON" \/ m = "UnmarshalJSON".
Proof.
  intros fl ctx o m H. unfold custom_methods in H. destruct (o_type o); try contradiction.
  apply in_app_or in H. destruct H as [H|H];
    match type of H with In _ (if ?c then _ else _) => destruct c end; simpl in H; intuition.
Qed.

Lemma called_method_printed : forall fl ctx o o' m,
    is_struct (o_type o') = true ->
    (seqb m "Equals" || seqb m "Validate" || seqb m "UnmarshalJSONStrict")%bool = true ->
    In m (methods_of fl ctx o) -> In m (methods_of fl ctx o').
Proof.
  intros fl ctx o o' m Ho' Hm Hin.
  unfold methods_of in *. rewrite Ho'.
  destruct (is_struct (o_type o)); [|contradiction].
  apply in_or_app. right.
  apply in_app_or in Hin. destruct Hin as [Hin|Hin]; auto.
  apply custom_not_common in Hin.
  destruct Hin as [Hin|Hin]; subst m; simpl in Hm; discriminate.
Qed.

Lemma str_in_In' : forall k l, str_in k l = true <-> In k l.
Proof.
  induction l as [|x r IH]; simpl; split; intros H; try discriminate; try contradiction.
  - apply orb_true_iff in H. destruct H as [H|H]; [left; apply String.eqb_eq; exact H | right; apply IH; exact H].
  - apply orb_true_iff. destruct H as [H|H]; [left; apply String.eqb_eq; exact H | right; apply IH; exact H].
Qed.

Theorem method_calls_closed : forall fl ctx s,
    r_missing_methods (report fl ctx s) = [].
Proof.
  intros fl ctx s. unfold report. simpl.
  match goal with |- filter ?f ?l = [] => assert (G : forall c, In c l -> f c = false) end.
  { intros [[p n] m] Hc. apply in_flat_map in Hc. destruct Hc as [ko [_ Hc]].
    unfold calls_of in Hc. destruct (o_type (snd ko)) eqn:E; try contradiction.
    apply in_flat_map in Hc. destruct Hc as [m0 [Hm0 Hc]].
    destruct (seqb m0 "Equals" || seqb m0 "Validate" || seqb m0 "UnmarshalJSONStrict")%bool eqn:Hm; [|contradiction].
    apply in_map_iff in Hc. destruct Hc as [[p' n'] [Heq Ht]]. inversion Heq; subst p' n' m0; clear Heq.
    apply in_flat_map in Ht. destruct Ht as [f [_ Ht]].
    apply struct_targets_struct in Ht. destruct Ht as [o' [L S']].
    unfold method_declared. rewrite L. apply negb_false_iff. apply str_in_In'.
    eapply called_method_printed; eauto. }
  match goal with |- filter ?f ?l = [] => induction l as [|x r IH]; simpl; auto end.
  rewrite G by (left; reflexivity). apply IH. intros c Hc. apply G. right; exact Hc.
Qed.

(* ---------- the 2^7 option vectors: two of them decide ---------- *)
Definition base_flags (any_as_interface : bool) : go_flags := mkFlags false false false false any_as_interface false false.

Theorem decls_wf_all_flags : forall ctx,
    decls_wf (base_flags false) ctx = true -> decls_wf (base_flags true) ctx = true ->
    forall fl, decls_wf fl ctx = true.
Proof.
  intros ctx H0 H1 fl.
  assert (Hb : exists b, gf_any_as_interface fl = gf_any_as_interface (base_flags b) /\ decls_wf (base_flags b) ctx = true).
  { destruct (gf_any_as_interface fl) eqn:E; [exists true | exists false]; auto. }
  destruct Hb as [b [Hany Hwf]].
  unfold decls_wf in *. rewrite forallb_forall in *. intros s Hs. specialize (Hwf s Hs).
  unfold report_ok in *. rewrite method_calls_closed in *.
  unfold report in *. simpl in *.
  rewrite (decl_types_any fl (base_flags b) ctx s Hany).
  rewrite (scope_names_any fl (base_flags b) ctx s Hany).
  match goal with
  | |- context [filter ?f ?l] =>
      match type of Hwf with context [filter ?g l] => replace (filter f l) with (filter g l) end
  end.
  - exact Hwf.
  - apply filter_ext. intros pn. rewrite (type_declared_any fl (base_flags b) ctx pn Hany). reflexivity.
Qed.

Lemma in_all_flags : forall fl, In fl all_flags.
Proof.
  intros [a b c d e f g]. unfold all_flags, bools.
  destruct a, b, c, d, e, f, g; simpl; tauto.
Qed.

Lemma all_flags_length : List.length all_flags = 128%nat.
Proof. reflexivity. Qed.

(* ---------- printable contexts carry no placeholder ---------- *)
Lemma scalar_type_name_clean : forall t k, placeholders_in (scalar_type_name t k) = [].
Proof.
  intros t k. unfold scalar_type_name. destruct k; simpl; auto;
    destruct (has_hint t "string_format_datetime"); destruct (nullable (ty_attrs t)); reflexivity.
Qed.

Lemma format_type_scalar_clean : forall fl a k v cs, placeholders_in (format_type_scalar fl (TScalar a k v cs)) = [].
Proof.
  intros. simpl. destruct k; try apply scalar_type_name_clean.
  destruct (gf_any_as_interface fl); reflexivity.
Qed.

Lemma flat_map_nil : forall A B (f : A -> list B) l, (forall x, In x l -> f x = []) -> flat_map f l = [].
Proof.
  induction l as [|x r IH]; intros H; simpl; auto.
  rewrite H by (left; reflexivity). apply IH. intros y Hy. apply H. right; exact Hy.
Qed.

Lemma struct_fields_of_clean : forall g, placeholders_in g = [] ->
    flat_map (fun nf => placeholders_in (snd nf)) (struct_fields_of g) = [].
Proof.
  intros g H. destruct g; simpl in *; auto.
  - destruct g; simpl in *; auto. apply app_eq_nil in H. tauto.
  - apply app_eq_nil in H. tauto.
Qed.

Lemma placeholders_struct : forall fs em,
    placeholders_in (GTStruct fs em) = flat_map (fun nf => placeholders_in (snd nf)) fs ++ flat_map placeholders_in em.
Proof. reflexivity. Qed.

Lemma format_type_struct_unfold : forall fl ctx a dh fs,
    format_type fl ctx (TStruct a dh fs) =
    (let body := GTStruct (map (fun f => (format_field_name (f_name f),
                                           match field_type_subst ctx (f_type f) with
                                           | TScalar _ _ _ _ as st => format_type_scalar fl st
                                           | _ => format_type fl ctx (f_type f)
                                           end)) fs) [] in
     if nullable a then GTPtr body else body).
Proof. reflexivity. Qed.

Lemma format_type_clean : forall fl ctx t, ty_printable t = true -> placeholders_in (format_type fl ctx t) = [].
Proof.
  intros fl ctx t. induction t using ty_ind'; intros Hp; simpl in Hp; try discriminate.
  - (* TArray *) simpl. auto.
  - (* TMap *) apply andb_true_iff in Hp. destruct Hp as [P1 P2]. simpl. rewrite IHt1, IHt2; auto.
  - (* TStruct *)
    rewrite format_type_struct_unfold. cbv zeta.
    assert (E : flat_map (fun nf : string * gotype => placeholders_in (snd nf))
                         (map (fun f => (format_field_name (f_name f),
                                         match field_type_subst ctx (f_type f) with
                                         | TScalar _ _ _ _ as st => format_type_scalar fl st
                                         | _ => format_type fl ctx (f_type f) end)) fs) = []).
    { apply flat_map_nil. intros nf Hin. apply in_map_iff in Hin. destruct Hin as [f [<- Hf]]. simpl.
      rewrite forallb_forall in Hp. rewrite Forall_forall in H0.
      destruct (field_type_subst ctx (f_type f)) eqn:E; try (apply H0; auto).
      apply format_type_scalar_clean. }
    destruct (nullable a).
    + change (placeholders_in (GTStruct (map (fun f => (format_field_name (f_name f),
                                         match field_type_subst ctx (f_type f) with
                                         | TScalar _ _ _ _ as st => format_type_scalar fl st
                                         | _ => format_type fl ctx (f_type f) end)) fs) []) = []).
      rewrite placeholders_struct, E. reflexivity.
    + rewrite placeholders_struct, E. reflexivity.
  - (* TRef *) simpl. destruct (nullable a); reflexivity.
  - (* TConstRef *) reflexivity.
  - (* TScalar *) simpl. destruct k; try apply scalar_type_name_clean. destruct (gf_any_as_interface fl); reflexivity.
  - (* TInter *)
    rewrite forallb_forall in Hp. rewrite Forall_forall in H.
    change (placeholders_in (GTStruct
              (flat_map (fun b => match b with TStruct _ _ _ => struct_fields_of (format_type fl ctx b) | _ => [] end) bs)
              (flat_map (fun b => match b with
                                  | TStruct _ _ _ => []
                                  | TRef a p n => [GTNamed p (format_object_name n)]
                                  | _ => [format_type fl ctx b] end) bs)) = []).
    rewrite placeholders_struct.
    match goal with |- ?a ++ ?b = [] => assert (Ha : a = []); [| assert (Hb' : b = []); [| rewrite Ha, Hb'; reflexivity]] end.
    + apply flat_map_nil. intros nf Hin. apply in_flat_map in Hin. destruct Hin as [b [Hb Hin]].
      destruct b; try contradiction.
      assert (C := struct_fields_of_clean _ (H _ Hb (Hp _ Hb))).
      destruct (placeholders_in (snd nf)) eqn:Ep; auto.
      exfalso.
      assert (Hx : In s (flat_map (fun nf0 : string * gotype => placeholders_in (snd nf0))
                                  (struct_fields_of (format_type fl ctx (TStruct a0 dh fs))))).
      { apply in_flat_map. exists nf; split; auto. rewrite Ep. left; reflexivity. }
      rewrite C in Hx. contradiction.
    + apply flat_map_nil. intros g Hin. apply in_flat_map in Hin. destruct Hin as [b [Hb Hin]].
      destruct b; simpl in Hin; try contradiction;
        try (destruct Hin as [<-|[]]; apply (H _ Hb (Hp _ Hb))).
      destruct Hin as [<-|[]]. reflexivity.
  - (* TSlot *) reflexivity.
Qed.

(* ---------- scalar default literals ---------- *)
Theorem default_literal_typed : forall k d, dyn_fits_kind k d = true -> lit_fits_kind k (format_scalar_lit d) = true.
Proof.
  intros k d H. destruct d; simpl in H; try discriminate.
  - destruct k; try discriminate; reflexivity.
  - apply andb_true_iff in H. destruct H as [_ H]. simpl.
    destruct (int_range k) as [[lo hi]|]; [exact H | discriminate].
  - destruct k; try discriminate; simpl;
      (destruct (seqb gotype "json.Number") eqn:E; [apply String.eqb_eq in E; subst; simpl in H; discriminate | reflexivity]).
  - destruct k; try discriminate; reflexivity.
Qed.

(* ---------- printable contexts: no placeholder, nothing unparsable from formatTypeDeclaration ---------- *)
Lemma enum_member_type_clean : forall fl ctx t, is_scalar t = true -> placeholders_in (format_type fl ctx t) = [].
Proof.
  intros fl ctx t H. destruct t; try discriminate. simpl.
  destruct k; try apply scalar_type_name_clean. destruct (gf_any_as_interface fl); reflexivity.
Qed.

Theorem printable_no_placeholder : forall fl ctx s,
    ctx_printable ctx = true -> In s ctx -> r_placeholders (report fl ctx s) = [].
Proof.
  intros fl ctx s Hp Hs. unfold report; simpl.
  unfold ctx_printable in Hp. rewrite forallb_forall in Hp. specialize (Hp s Hs). rewrite forallb_forall in Hp.
  unfold decl_types, decls_of_schema.
  apply flat_map_nil. intros g Hg. apply in_flat_map in Hg. destruct Hg as [d [Hd Hg]].
  apply in_flat_map in Hd. destruct Hd as [ko [Hko Hd]].
  specialize (Hp ko Hko). unfold object_printable in Hp. unfold decls_of_object in Hd.
  destruct d; try contradiction. destruct Hg as [<-|[]].
  destruct (o_type (snd ko)) eqn:E; try discriminate.
  - (* TArray *) destruct Hd as [Hd|[]]. inversion Hd; subst. exact (format_type_clean fl ctx _ Hp).
  - (* TEnum *)
    apply andb_true_iff in Hp. destruct Hp as [Hne Hsc].
    destruct Hd as [Hd|Hd].
    + inversion Hd; subst. destruct vs as [|v r]; [discriminate|].
      rewrite forallb_forall in Hsc. apply enum_member_type_clean. apply Hsc. left; reflexivity.
    + apply in_map_iff in Hd. destruct Hd as [v [Hv _]]. discriminate.
  - (* TMap *) destruct Hd as [Hd|[]]. inversion Hd; subst. exact (format_type_clean fl ctx _ Hp).
  - (* TStruct *)
    destruct Hd as [Hd|[Hd|Hd]]; try discriminate.
    + inversion Hd; subst. exact (format_type_clean fl ctx _ Hp).
    + apply in_map_iff in Hd. destruct Hd as [m [Hm _]]. discriminate.
  - (* TRef *)
    destruct Hd as [Hd|Hd].
    + inversion Hd; subst. exact (format_type_clean fl ctx _ Hp).
    + match type of Hd with In _ (if ?c then _ else _) => destruct c end; simpl in Hd; [destruct Hd as [Hd|[]]; discriminate | contradiction].
  - (* TScalar *)
    destruct (negb (dyn_is_nil value)).
    + destruct Hd as [Hd|[]]. discriminate.
    + destruct Hd as [Hd|[]]. inversion Hd; subst.
      destruct k; first [exact (format_type_clean fl ctx _ Hp) | reflexivity].
  - (* TInter *) destruct Hd as [Hd|[]]. inversion Hd; subst. exact (format_type_clean fl ctx _ Hp).
Qed.

(* ---------- a construct the Go jenny cannot print ---------- *)
Theorem unparsable_is_error : forall fl ctx, decls_parse fl ctx = false -> exists e, go_run fl ctx = Err e.
Proof. intros fl ctx H. unfold go_run. rewrite H. eauto. Qed.

Theorem object_kind_without_case_is_error : forall fl ctx s k o,
    In s ctx -> In (k, o) (s_objects s) ->
    (is_disj (o_type o) || match o_type o with TConstRef _ _ _ _ | TSlot _ _ | TBad _ _ => true | _ => false end)%bool = true ->
    exists e, go_run fl ctx = Err e.
Proof.
  intros fl ctx s k o Hs Ho Hk. apply unparsable_is_error.
  unfold decls_parse. apply not_true_is_false. intro Hall. rewrite forallb_forall in Hall. specialize (Hall s Hs).
  assert (Hin : exists x, In x (decl_broken (decls_of_schema fl ctx s))).
  { unfold decl_broken, decls_of_schema.
    exists ("unhandled type def kind: " ++ kind_name (o_type o))%string.
    apply in_flat_map. exists (DBroken ("unhandled type def kind: " ++ kind_name (o_type o))%string). split; [|left; reflexivity].
    apply in_flat_map. exists (k, o). split; auto. unfold decls_of_object. simpl.
    destruct (o_type o); simpl in Hk; try discriminate; left; reflexivity. }
  destruct Hin as [x Hx]. destruct (decl_broken (decls_of_schema fl ctx s)); [contradiction | discriminate].
Qed.

(* ---------- refutations ---------- *)
Lemma collide_refutes : decls_wf flags_off w_collide_ctx = false.
Proof. vm_compute. reflexivity. Qed.

Lemma nested_union_silent :
  (exists s, In s w_nested_ctx /\ r_placeholders (report flags_off w_nested_ctx s) = ["unknown"]) /\
  (exists out, go_run flags_off w_nested_ctx = Ok out).
Proof. split; [eexists; split; [left; reflexivity | vm_compute; reflexivity] | eexists; vm_compute; reflexivity]. Qed.

Lemma json_number_default_mistyped :
  lit_fits_kind KFloat64 (format_scalar_lit (DFloat "json.Number" "1.5")) = false /\
  lit_fits_kind KInt64 (format_scalar_lit (DFloat "json.Number" "3")) = false.
Proof. split; reflexivity. Qed.
