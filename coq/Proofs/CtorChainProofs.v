(* C10 THROUGH the real pass chains (Gen/Chains_gen.v), for every context of the leafy fragment
   (Model/FrontEndChainSpec.v ctx_leafy: struct objects whose fields are scalars / references / arrays / maps, with
   ANY attributes, so defaults and constants included): chain_go and chain_python both compute nrfn_only (only
   NotRequiredFieldAsNullableType acts: Proofs/FrontEndChainPasses.v), and the constructors over the post-chain
   context hold every declared value of the PRE-chain simple fields.  Composed with the front-end model fe_value
   this is the property end to end for scalar fields, from each of the three formats. *)
From Coq Require Import List String ZArith Bool Ascii Lia.
From Cog Require Import Model.IR Model.Json Model.GoSemBase Model.GoSemDecode Model.Ctor Model.PySem Model.CtorSpec
  Model.CtorChecks Model.Passes Model.PassesChain Model.Process Gen.Chains_gen Model.FrontEndChainSpec
  Proofs.FrontEndChainPasses Proofs.FrontEndChainAccept Proofs.CtorProofs.
Import ListNotations.
Local Open Scope list_scope.
Local Open Scope string_scope.

(* ---------- chain_python on the leafy fragment ---------- *)
Lemma fc_rnev_pass ctx : ctx_leafy ctx = true -> run_pass PRenameNumericEnumValues ctx = Ok ctx.
Proof.
  intro H. simpl. f_equal. unfold rename_numeric_enum_values. apply fc_map_id. intros s Hs.
  destruct (fc_schema_leafy_inv s (fc_ctx_leafy_in _ _ H Hs)) as [N [O _]].
  rewrite (fc_fold_ext _ (fun acc ko => objs_set acc (fst ko) (snd ko))).
  - rewrite (fc_rebuild_id _ N). apply fc_set_objects_eta.
  - intros a ko Hin. destruct (fc_obj_leafy_inv _ (O _ Hin)) as [_ [a0 [dh [fs [E _]]]]].
    unfold rnev_object. rewrite E. reflexivity.
Qed.

Theorem chain_python_leafy ctx : ctx_leafy ctx = true -> process chain_python ctx = Ok (nrfn_only ctx).
Proof.
  intro H. pose proof (fc_nrfn_only_leafy ctx H) as H'.
  unfold chain_python. cbn [process].
  rewrite (fc_run_identity PAnonymousStructsToNamed ctx H) by (simpl; tauto). cbn [bind].
  change (run_pass PNotRequiredFieldAsNullableType ctx) with (Ok (not_required_field_as_nullable_type ctx)).
  rewrite (fc_nrfn_pass ctx H). cbn [bind].
  repeat (rewrite (fc_run_identity _ (nrfn_only ctx) H') by (simpl; tauto); cbn [bind]).
  rewrite (fc_rnev_pass _ H'). reflexivity.
Qed.

(* ---------- what nrfn_only does to a plain struct object ---------- *)
Lemma nrfn_field_name f : f_name (nrfn_field f) = f_name f.
Proof. reflexivity. Qed.

Lemma declared_dyn_set_nullable t b : declared_dyn (set_nullable t b) = declared_dyn t.
Proof. destruct t; reflexivity. Qed.

Lemma nrfn_field_declared f : declared_dyn (f_type (nrfn_field f)) = declared_dyn (f_type f).
Proof.
  unfold nrfn_field. cbn [f_type].
  destruct (negb (f_required f) && negb (nullable (ty_attrs (f_type f))))%bool; [apply declared_dyn_set_nullable | reflexivity].
Qed.

Lemma plain_struct_nrfn ctx p n fs :
  plain_struct_object ctx p n = Some fs -> plain_struct_object (nrfn_only ctx) p n = Some (map nrfn_field fs).
Proof.
  unfold plain_struct_object. rewrite fc_locate_nrfn.
  destruct (locate_object ctx p n) as [o|]; [|discriminate]. simpl.
  unfold nrfn_only_obj. destruct (o_type o) as [| | | | a dh fs0 | | | | | |] eqn:OT; try discriminate.
  destruct dh; [|discriminate]. simpl.
  rewrite map_map. simpl.
  destruct (negb (nullable a) && str_nodup (map (@f_name ty) fs0))%bool eqn:C; [|discriminate].
  intro H. inversion H; subst.
  change (map (fun x : field => f_name x) fs) with (map (@f_name ty) fs). rewrite C. reflexivity.
Qed.

(* the PRE-chain fields whose declared value is proved to be held: simple after the chain made optional fields
   nullable (an optional scalar with a default is a pointer in Go, never dropped by omitempty) *)
Definition pre_simple_field (fld : field) : bool := simple_field (nrfn_field fld).

Definition pre_simple_fields_hold (fs : list field) (j : json) : bool :=
  forallb (fun fld => (negb (pre_simple_field fld) ||
                       match dyn_json (declared_dyn (f_type fld)) with
                       | Some exp => holds_member j (f_name fld) exp
                       | None => false end)%bool) fs.

Lemma pre_simple_of_post fs j : simple_fields_hold (map nrfn_field fs) j = pre_simple_fields_hold fs j.
Proof.
  unfold simple_fields_hold, pre_simple_fields_hold, pre_simple_field. rewrite fc_forallb_map.
  induction fs as [|fld r IH]; [reflexivity|]. cbn [forallb]. rewrite IH, nrfn_field_declared, nrfn_field_name. reflexivity.
Qed.

(* a field that is simple before the chain is simple after it *)
Lemma simple_field_pre fld : simple_field fld = true -> pre_simple_field fld = true.
Proof.
  unfold pre_simple_field, simple_field. rewrite nrfn_field_declared. intro H.
  apply andb_true_iff in H. destruct H as [H H3]. rewrite H. simpl.
  unfold nrfn_field. cbn [f_type f_required].
  destruct (negb (f_required fld) && negb (nullable (ty_attrs (f_type fld))))%bool eqn:C; [|exact H3].
  destruct (f_type fld) as [| a et | | | | | | a k v cs | | |]; try discriminate.
  - simpl. exact H3.
  - simpl. simpl in H3.
    apply andb_true_iff in H3. destruct H3 as [H3 FJ]. apply andb_true_iff in H3. destruct H3 as [H3 KK].
    apply andb_true_iff in H3. destruct H3 as [DT RN].
    unfold is_datetime, has_hint, t_nullable in *. simpl in *. rewrite DT, KK, FJ, orb_true_r. reflexivity.
Qed.

(* ---------- C10 through chain_go / chain_python ---------- *)
Theorem chain_go_total_leafy ctx : ctx_leafy ctx = true -> exists out, process chain_go ctx = Ok out.
Proof. intro H. exists (nrfn_only ctx). apply chain_go_leafy. exact H. Qed.

Theorem ctor_defaults_go_chain_partial : forall ctx out p n fs j,
  ctx_leafy ctx = true -> process chain_go ctx = Ok out -> plain_struct_object ctx p n = Some fs ->
  go_ctor out p n = COk j -> pre_simple_fields_hold fs j = true.
Proof.
  intros ctx out p n fs j L P PS G. rewrite (chain_go_leafy ctx L) in P. inversion P; subst out.
  rewrite <- pre_simple_of_post.
  apply (ctor_defaults_go_partial (nrfn_only ctx) p n (map nrfn_field fs) j (plain_struct_nrfn ctx p n fs PS) G).
Qed.

Theorem ctor_defaults_py_chain_partial : forall ctx out p n fs j,
  ctx_leafy ctx = true -> process chain_python ctx = Ok out -> plain_struct_object ctx p n = Some fs ->
  py_ctor out p n = POk j -> pre_simple_fields_hold fs j = true.
Proof.
  intros ctx out p n fs j L P PS G. rewrite (chain_python_leafy ctx L) in P. inversion P; subst out.
  rewrite <- pre_simple_of_post.
  apply (ctor_defaults_py_partial (nrfn_only ctx) p n (map nrfn_field fs) j (plain_struct_nrfn ctx p n fs PS) G).
Qed.

(* both constructors, both chains: they agree on every pre-chain simple field *)
Theorem go_py_agree_chain_partial : forall ctx gout pout p n fs a b,
  ctx_leafy ctx = true -> process chain_go ctx = Ok gout -> process chain_python ctx = Ok pout ->
  plain_struct_object ctx p n = Some fs -> go_ctor gout p n = COk a -> py_ctor pout p n = POk b ->
  simple_fields_agree (map nrfn_field fs) a b = true.
Proof.
  intros ctx gout pout p n fs a b L PG PP PS GA PB.
  rewrite (chain_go_leafy ctx L) in PG. inversion PG; subst gout.
  rewrite (chain_python_leafy ctx L) in PP. inversion PP; subst pout.
  pose proof (plain_struct_nrfn ctx p n fs PS) as PS'.
  apply (go_py_agree_partial (nrfn_only ctx) (nrfn_only ctx) p n (map nrfn_field fs) a b PS' PS' GA PB).
Qed.

(* ---------- end to end: the value declared in the source schema is the value the constructors hold ---------- *)
(* fld is a scalar field whose Type.Default is what the front-end of format fmt stores for the declared default j
   (Model/Ctor.v fe_value, validated against the real front-ends by checks/c10.py), j fitting the field's kind *)
Definition fe_scalar_field (fmt : string) (numtext : Z -> Z -> string) (fld : field) (j : json) : Prop :=
  exists a k cs, f_type fld = TScalar a k DNil cs /\ dflt a = fe_value fmt numtext j /\
                 scalar_json_value j = true /\ fits_scalar k j = true /\ is_datetime (f_type fld) = false /\
                 match k with KAny | KNull | KBytes | KOther _ => false | _ => true end = true.

Lemma fe_value_scalar_plain fmt numtext j : numtext_ok numtext -> scalar_json_value j = true ->
  dyn_plain (fe_value fmt numtext j) = true /\ dyn_json (fe_value fmt numtext j) = Some j /\
  dyn_is_nil (fe_value fmt numtext j) = false.
Proof.
  intros NT SJ. destruct j; simpl in SJ; try discriminate; try (repeat split; reflexivity).
  destruct (fe_value_plain_num fmt numtext m e NT) as [A B]. split; [exact A|]. split; [exact B|].
  destruct (fe_value fmt numtext (JNum m e)); simpl in A |- *; try reflexivity; discriminate.
Qed.

Lemma fe_scalar_field_simple fmt numtext fld j : numtext_ok numtext -> fe_scalar_field fmt numtext fld j ->
  pre_simple_field fld = true /\ dyn_json (declared_dyn (f_type fld)) = Some j.
Proof.
  intros NT [a [k [cs [FT [D [SJ [FJ [DT KK]]]]]]]].
  destruct (fe_value_scalar_plain fmt numtext j NT SJ) as [P [J N]].
  assert (DD : declared_dyn (f_type fld) = fe_value fmt numtext j) by (rewrite FT; simpl; exact D).
  split; [|rewrite DD; exact J].
  unfold pre_simple_field, simple_field. rewrite nrfn_field_declared, DD, N, P. simpl.
  unfold nrfn_field. cbn [f_type f_required]. rewrite FT in *. cbn [ty_attrs].
  destruct (negb (f_required fld) && negb (nullable a))%bool eqn:C.
  - simpl. unfold is_datetime, has_hint, t_nullable in *. simpl in *. rewrite DT, KK, J, FJ, orb_true_r. reflexivity.
  - simpl. unfold is_datetime, has_hint, t_nullable in *. simpl in *. rewrite DT, KK, J, FJ.
    apply andb_false_iff in C. destruct C as [C|C]; apply negb_false_iff in C; rewrite C; simpl; rewrite ?orb_true_r; reflexivity.
Qed.

Theorem c10_end_to_end_scalars_go : forall fmt numtext ctx out p n fs fld j oj,
  numtext_ok numtext -> ctx_leafy ctx = true -> process chain_go ctx = Ok out ->
  plain_struct_object ctx p n = Some fs -> In fld fs -> fe_scalar_field fmt numtext fld j ->
  go_ctor out p n = COk oj -> holds_member oj (f_name fld) j = true.
Proof.
  intros fmt numtext ctx out p n fs fld j oj NT L P PS Hin FE G.
  pose proof (ctor_defaults_go_chain_partial ctx out p n fs oj L P PS G) as H.
  unfold pre_simple_fields_hold in H. rewrite forallb_forall in H. specialize (H fld Hin).
  destruct (fe_scalar_field_simple fmt numtext fld j NT FE) as [S D]. rewrite S, D in H. exact H.
Qed.

Theorem c10_end_to_end_scalars_py : forall fmt numtext ctx out p n fs fld j oj,
  numtext_ok numtext -> ctx_leafy ctx = true -> process chain_python ctx = Ok out ->
  plain_struct_object ctx p n = Some fs -> In fld fs -> fe_scalar_field fmt numtext fld j ->
  py_ctor out p n = POk oj -> holds_member oj (f_name fld) j = true.
Proof.
  intros fmt numtext ctx out p n fs fld j oj NT L P PS Hin FE G.
  pose proof (ctor_defaults_py_chain_partial ctx out p n fs oj L P PS G) as H.
  unfold pre_simple_fields_hold in H. rewrite forallb_forall in H. specialize (H fld Hin).
  destruct (fe_scalar_field_simple fmt numtext fld j NT FE) as [S D]. rewrite S, D in H. exact H.
Qed.

(* ---------- non-vacuity ---------- *)
Definition nv_meta : smeta := {| m_kind := ""; m_variant := ""; m_identifier := "" |}.
Definition nv_def (d : dyn) : attrs := {| nullable := false; dflt := d; hints := [] |}.
(* what the JSON Schema front-end stores for {b: true, i: 7, f: 1.5, s: "x"} (integer literal -> int64, 1.5 -> float64)
   plus a constant, a list of strings and an optional field without default *)
Definition nv_ctx : schemas :=
  [mkSchema "w" nv_meta "Root" (TRef attrs0 "w" "Root")
     [("Root", mkObject "Root" []
         (TStruct attrs0 []
            [mkField "b" [] (TScalar (nv_def (fe_value "jsonschema" dec_text (JBool true))) KBool DNil []) true;
             mkField "i" [] (TScalar (nv_def (fe_value "jsonschema" dec_text (JNum 7 0))) KInt64 DNil []) false;
             mkField "f" [] (TScalar (nv_def (fe_value "openapi" dec_text (JNum 15 (-1)))) KFloat64 DNil []) true;
             mkField "s" [] (TScalar (nv_def (fe_value "cue" dec_text (JStr "x"))) KString DNil []) false;
             mkField "k" [] (TScalar attrs0 KString (DStr "fixed") []) true;
             mkField "l" [] (TArray (nv_def (DList [DStr "a"; DStr "b"])) (TScalar attrs0 KString DNil [])) true;
             mkField "o" [] (TScalar attrs0 KString DNil []) false])
         "w" "Root")]].

Example c10_chain_nonvacuous :
  ctx_leafy nv_ctx = true /\
  (exists fs, plain_struct_object nv_ctx "w" "Root" = Some fs /\ List.length (filter pre_simple_field fs) >= 6) /\
  (exists out j, process chain_go nv_ctx = Ok out /\ go_ctor out "w" "Root" = COk j /\
                 j = JObj [("b", JBool true); ("i", JNum 7 0); ("f", JNum 15 (-1)); ("s", JStr "x"); ("k", JStr "fixed");
                           ("l", JArr [JStr "a"; JStr "b"])]) /\
  (exists out j, process chain_python nv_ctx = Ok out /\ py_ctor out "w" "Root" = POk j /\
                 holds_member j "i" (JNum 7 0) = true /\ holds_member j "s" (JStr "x") = true).
Proof.
  split; [vm_compute; reflexivity|]. split.
  - eexists. split; [vm_compute; reflexivity|]. vm_compute. lia.
  - split.
    + eexists. eexists. split; [vm_compute; reflexivity|]. split; vm_compute; reflexivity.
    + eexists. eexists. split; [vm_compute; reflexivity|]. split; [vm_compute; reflexivity|]. split; vm_compute; reflexivity.
Qed.
