(* Lemmas about the constructors (Model/Ctor.v, Model/PySem.v) for C10. *)
From Coq Require Import List String ZArith Bool Ascii Lia.
From Cog Require Import Model.IR Model.Json Model.GoSemBase Model.GoSemDecode Model.Ctor Model.PySem Model.CtorSpec
  Model.CtorChecks.
Import ListNotations.
Local Open Scope list_scope.
Local Open Scope string_scope.

(* ---------- numbers: the normal form is a normal form ---------- *)
Local Open Scope Z_scope.
Definition stable (m : Z) : Prop := (Z.eqb (Z.modulo m 10) 0 && negb (Z.eqb m 0))%bool = false.

Lemma strip_zeros_stable : forall f m e, stable m -> strip_zeros f m e = (m, e).
Proof.
  intros f m e H. destruct f; simpl; [reflexivity|]. unfold stable in H. rewrite H. reflexivity.
Qed.

Lemma strip_zeros_result : forall f m e,
  Z.abs m < 2 ^ Z.of_nat f -> m <> 0 ->
  stable (fst (strip_zeros f m e)) /\ fst (strip_zeros f m e) <> 0.
Proof.
  induction f as [|f IH]; intros m e Hb Hnz.
  - simpl in Hb. lia.
  - simpl. destruct ((m mod 10 =? 0) && negb (m =? 0))%bool eqn:E.
    + apply andb_true_iff in E. destruct E as [E1 _]. apply Z.eqb_eq in E1.
      assert (Hm : m = 10 * (m / 10)) by (pose proof (Z_div_mod_eq_full m 10); lia).
      apply IH.
      * rewrite Nat2Z.inj_succ in Hb. rewrite Z.pow_succ_r in Hb by lia. lia.
      * lia.
    + simpl. split; [exact E | exact Hnz].
Qed.

Lemma abs_lt_pow : forall m, m <> 0 -> Z.abs m < 2 ^ Z.of_nat (S (Z.to_nat (Z.log2_up (Z.abs m)))).
Proof.
  intros m H. rewrite Nat2Z.inj_succ. rewrite Z2Nat.id by apply Z.log2_up_nonneg.
  rewrite Z.pow_succ_r by apply Z.log2_up_nonneg.
  assert (A : 0 < Z.abs m) by lia.
  destruct (Z.eq_dec (Z.abs m) 1) as [E|E].
  - rewrite E. simpl. lia.
  - assert (B : 1 < Z.abs m) by lia. pose proof (Z.log2_up_spec (Z.abs m) B) as [_ S]. lia.
Qed.

Lemma num_norm_idem : forall m e, num_norm (fst (num_norm m e)) (snd (num_norm m e)) = num_norm m e.
Proof.
  intros m e. unfold num_norm at 2 3 4. destruct (m =? 0) eqn:Z0.
  - simpl. reflexivity.
  - apply Z.eqb_neq in Z0.
    destruct (strip_zeros_result _ m e (abs_lt_pow m Z0) Z0) as [St Nz].
    destruct (strip_zeros (S (Z.to_nat (Z.log2_up (Z.abs m)))) m e) as [a b] eqn:R. simpl in *.
    unfold num_norm. apply Z.eqb_neq in Nz. rewrite Nz. apply strip_zeros_stable. exact St.
Qed.

Local Close Scope Z_scope.

Lemma json_eqb_refl : forall j, json_eqb j j = true.
Proof.
  fix IH 1. intro j. destruct j; simpl; try reflexivity.
  - apply Bool.eqb_reflx.
  - rewrite !Z.eqb_refl. reflexivity.
  - apply String.eqb_refl.
  - induction l as [|x r IHl]; [reflexivity|]. rewrite IH. simpl. exact IHl.
  - induction ms as [|[k x] r IHl]; [reflexivity|]. rewrite String.eqb_refl, IH. simpl. exact IHl.
Qed.

Lemma json_eq_refl : forall j, json_eq j j = true.
Proof. intro j. unfold json_eq. apply json_eqb_refl. Qed.

Lemma json_eq_num_norm : forall m e, json_eq (JNum (fst (num_norm m e)) (snd (num_norm m e))) (JNum m e) = true.
Proof.
  intros m e. unfold json_eq. simpl. pose proof (num_norm_idem m e) as H.
  destruct (num_norm m e) as [a b] eqn:N. simpl in *. rewrite H. simpl. rewrite !Z.eqb_refl. reflexivity.
Qed.

(* ---------- scalars: when the literal type-checks the value is the default ---------- *)
Lemma seqb_refl : forall s, seqb s s = true.
Proof. intro s. apply String.eqb_refl. Qed.

Lemma dec_int_value_0 : forall z, dec_int_value z 0 = z.
Proof. intro z. unfold dec_int_value. simpl. lia. Qed.

(* the default d, plain, denotes the JSON value j that fits the kind k: formatScalar's literal is accepted
   by the Go type of a k-field and the stored value is j *)
Lemma assign_scalar_fits : forall pt k d j,
  dyn_plain d = true -> dyn_json d = Some j -> fits_scalar k j = true -> is_datetime pt = false ->
  exists v, assign_scalar pt k (format_scalar d) = COk v /\ gscalar_holds v j = true /\
            (is_float_kind k = true -> exists a b, v = GFloat a b).
Proof.
  intros pt k d j P J F DT.
  destruct d as [|b|gt z|gt r|s|l|kvs|gt r]; simpl in P, J; try discriminate.
  - (* bool *) inversion J; subst j. destruct k; simpl in F; try discriminate.
    exists (GBool b). split; [reflexivity|]. split; [apply Bool.eqb_reflx | discriminate].
  - (* int *) inversion J; subst j.
    destruct k; simpl in F; try discriminate; simpl; try rewrite F.
    1, 2: destruct (num_norm z 0) as [a b] eqn:N; exists (GFloat a b); split; [reflexivity|]; split;
          [simpl; rewrite N, !Z.eqb_refl; reflexivity | intros _; exists a, b; reflexivity].
    all: exists (GInt (dec_int_value z 0)); split; [reflexivity|]; split; [simpl; apply Z.eqb_refl | discriminate].
  - (* float *) destruct (seqb gt "json.Number") eqn:JN; [discriminate|].
    destruct (parse_decimal r) as [[m e]|] eqn:PD; [|discriminate]. inversion J; subst j.
    destruct k; simpl in F; try discriminate; simpl; rewrite JN, PD; simpl.
    1, 2: rewrite F; destruct (num_norm m e) as [a b] eqn:N; exists (GFloat a b); split; [reflexivity|]; split;
          [simpl; rewrite N, !Z.eqb_refl; reflexivity | intros _; exists a, b; reflexivity].
    all: apply andb_true_iff in F; destruct F as [F F3]; apply andb_true_iff in F; destruct F as [F F2];
         apply andb_true_iff in F; destruct F as [F0 F1]; rewrite F1, F2, F3; simpl;
         exists (GInt (dec_int_value m e)); split; [reflexivity|]; split; [simpl; rewrite F1, Z.eqb_refl; reflexivity | discriminate].
  - (* string *) inversion J; subst j. destruct k; simpl in F; try discriminate.
    simpl. rewrite DT. exists (GStr s). split; [reflexivity|]. split; [apply seqb_refl | discriminate].
  - (* list: not a scalar value *)
    destruct ((fix go (l : list dyn) : option (list json) :=
                 match l with
                 | [] => Some []
                 | x :: r => match dyn_json x, go r with Some j, Some js => Some (j :: js) | _, _ => None end
                 end) l); simpl in J; [|discriminate].
    inversion J; subst j. destruct k; simpl in F; discriminate.
Qed.

(* ---------- call ---------- *)
Lemma call_ok : forall {A} (l : list (cres A)) vs, call l = COk vs -> Forall2 (fun r v => r = COk v) l vs.
Proof.
  induction l as [|x r IH]; simpl; intros vs H.
  - inversion H. constructor.
  - destruct x as [a|w|w]; destruct (call r) as [l'|w'|w']; try discriminate.
    inversion H; subst. constructor; [reflexivity | apply IH; reflexivity].
Qed.

(* ---------- the JSON of a scalar Go value ---------- *)
Definition scalar_json (v : gval) : json :=
  match v with
  | GBool b => JBool b
  | GInt z => JNum z 0
  | GFloat m e => JNum m e
  | GStr s => JStr s
  | _ => JNull
  end.

Lemma gscalar_holds_json : forall v j, gscalar_holds v j = true ->
  match j with JNum _ e => (Z.eqb e 0 = true \/ match v with GFloat _ _ => True | _ => False end) | _ => True end ->
  json_eq (scalar_json v) j = true.
Proof.
  intros v j H Hz. destruct v; destruct j; simpl in H; try discriminate; simpl.
  - apply Bool.eqb_prop in H. subst. apply json_eq_refl.
  - apply andb_true_iff in H. destruct H as [H1 H2]. apply Z.eqb_eq in H2. subst z.
    destruct Hz as [Hz|Hz]; [|contradiction]. apply Z.eqb_eq in Hz. subst e.
    rewrite dec_int_value_0. apply json_eq_refl.
  - destruct (num_norm m0 e0) as [a b] eqn:N. apply andb_true_iff in H. destruct H as [H1 H2].
    apply Z.eqb_eq in H1. apply Z.eqb_eq in H2. subst.
    pose proof (json_eq_num_norm m0 e0) as G. rewrite N in G. exact G.
  - apply String.eqb_eq in H. subst. apply json_eq_refl.
Qed.

Lemma encode_scalar : forall ctx t v,
  match v with GBool _ | GInt _ | GFloat _ _ | GStr _ => True | _ => False end ->
  encode ctx t v = scalar_json v.
Proof. intros ctx t v H. destruct v; try contradiction; reflexivity. Qed.

(* the value of a simple field: the literal type-checks and the field holds the declared value *)
Lemma go_simple_field : forall ctx dfs fld,
  simple_field fld = true ->
  exists x j, go_field_value ctx dfs [] fld = COk x /\
              dyn_json (declared_dyn (f_type fld)) = Some j /\
              json_eq (encode ctx (f_type fld) x) j = true /\
              (f_required fld = false -> is_empty_value x = false).
Proof.
  intros ctx dfs fld S. unfold simple_field in S.
  apply andb_true_iff in S. destruct S as [S S3]. apply andb_true_iff in S. destruct S as [S1 S2].
  apply negb_true_iff in S1.
  destruct (f_type fld) as [| a et | | | | | | a k v cs | | |] eqn:FT; try discriminate.
  - (* array of strings *)
    apply andb_true_iff in S3. destruct S3 as [PS L]. unfold declared_dyn in *. simpl in S1, L.
    destruct (dflt a) as [| | | | |l| |] eqn:D; try discriminate.
    apply andb_true_iff in L. destruct L as [L1 L2].
    unfold go_field_value, needs_explicit_default. rewrite !FT. simpl. rewrite D. simpl.
    rewrite PS. simpl.
    assert (IS : forallb is_str_lit (map format_scalar l) = true).
    { clear -L1. induction l as [|x r IH]; simpl in *; [reflexivity|]. apply andb_true_iff in L1. destruct L1 as [A B].
      destruct x; try discriminate. simpl. apply IH. exact B. }
    rewrite IS. simpl.
    assert (EJ : dyn_json (DList l) = Some (JArr (map (fun x => JStr (lit_str (format_scalar x))) l))).
    { simpl. clear -L1.
      assert (G : (fix go (l : list dyn) : option (list json) :=
                     match l with
                     | [] => Some []
                     | x :: r => match dyn_json x, go r with Some j, Some js => Some (j :: js) | _, _ => None end
                     end) l = Some (map (fun x => JStr (lit_str (format_scalar x))) l)).
      { induction l as [|x r IH]; simpl in *; [reflexivity|]. apply andb_true_iff in L1. destruct L1 as [A B].
        destruct x; try discriminate. simpl. rewrite (IH B). reflexivity. }
      rewrite G. reflexivity. }
    eexists. eexists. split; [reflexivity|]. split; [exact EJ|]. split.
    + unfold as_pointer. destruct (negb (t_nullable (TArray a et))); simpl; rewrite !map_map; apply json_eq_refl.
    + intro R. rewrite R in L2. simpl in L2. unfold as_pointer.
      destruct l; [discriminate|]. destruct (negb (t_nullable (TArray a et))); reflexivity.
  - (* scalar *)
    apply andb_true_iff in S3. destruct S3 as [S3 FJ]. apply andb_true_iff in S3. destruct S3 as [S3 KK].
    apply andb_true_iff in S3. destruct S3 as [DT RN]. apply negb_true_iff in DT.
    destruct (dyn_json (declared_dyn (TScalar a k v cs))) as [j|] eqn:DJ; [|discriminate].
    assert (DTn : is_datetime (non_null (TScalar a k v cs)) = false) by exact DT.
    destruct (assign_scalar_fits (non_null (TScalar a k v cs)) k (declared_dyn (TScalar a k v cs)) j S2 DJ FJ DTn) as [val [AV [GH FK]]].
    assert (VV : match val with GBool _ | GInt _ | GFloat _ _ | GStr _ => True | _ => False end).
    { destruct val; simpl in GH; try discriminate; exact I. }
    assert (JE : json_eq (scalar_json val) j = true).
    { apply gscalar_holds_json; [exact GH|]. destruct j; try exact I.
      destruct k; simpl in FJ; try discriminate;
        try (right; destruct (FK eq_refl) as [fa [fb FE]]; rewrite FE; exact I).
      all: left; apply andb_true_iff in FJ; destruct FJ as [FJ _]; apply andb_true_iff in FJ; destruct FJ as [FJ _];
           apply andb_true_iff in FJ; destruct FJ as [FJ _]; exact FJ. }
    unfold go_field_value, needs_explicit_default. rewrite !FT.
    change (resolve ctx (TScalar a k v cs)) with (Some (TScalar a k v cs)). cbv beta iota.
    unfold declared_dyn in *.
    destruct (dyn_is_nil v) eqn:VN.
    + (* default *) cbn [ty_attrs] in *. rewrite S1. simpl. rewrite VN. simpl.
      simpl in AV. rewrite AV. simpl.
      eexists. exists j. split; [reflexivity|]. split; [reflexivity|]. split.
      * unfold as_pointer. destruct (negb (t_nullable (TScalar a k v cs))); simpl.
        -- rewrite encode_scalar by exact VV. exact JE.
        -- destruct k; simpl in KK; try discriminate; simpl; rewrite encode_scalar by exact VV; exact JE.
      * intro R. rewrite R in RN. simpl in RN. unfold as_pointer. rewrite RN. simpl.
        destruct k; simpl in KK; try discriminate; reflexivity.
    + (* constant *) cbn [ty_attrs] in *. simpl. rewrite VN. simpl. rewrite !orb_true_r. simpl.
      simpl in AV. rewrite AV. simpl.
      eexists. exists j. split; [reflexivity|]. split; [reflexivity|]. split.
      * unfold as_pointer. destruct (negb (t_nullable (TScalar a k v cs))); simpl.
        -- rewrite encode_scalar by exact VV. exact JE.
        -- destruct k; simpl in KK; try discriminate; simpl; rewrite encode_scalar by exact VV; exact JE.
      * intro R. rewrite R in RN. simpl in RN. unfold as_pointer. rewrite RN. simpl.
        destruct k; simpl in KK; try discriminate; reflexivity.
Qed.

(* ---------- json.Marshal of a plain struct ---------- *)
Fixpoint enc_members (ctx : schemas) (fs : list field) (fvs : list (string * gval)) {struct fvs} : list (string * json) :=
  match fs, fvs with
  | f :: fr, (_, fv) :: vr =>
      if (negb (f_required f) && is_empty_value fv)%bool then enc_members ctx fr vr
      else (f_name f, encode ctx (f_type f) fv) :: enc_members ctx fr vr
  | _, _ => []
  end.

Lemma enc_members_eq : forall ctx fs fvs,
  (fix go (fs : list field) (fvs : list (string * gval)) {struct fvs} : list (string * json) :=
     match fs, fvs with
     | f :: fr, (_, fv) :: vr =>
         if (negb (f_required f) && is_empty_value fv)%bool then go fr vr
         else (f_name f, encode ctx (f_type f) fv) :: go fr vr
     | _, _ => []
     end) fs fvs = enc_members ctx fs fvs.
Proof.
  intros ctx fs fvs. revert fs. induction fvs as [|[k fv] vr IH]; intros fs; destruct fs as [|f fr]; try reflexivity.
  simpl. rewrite IH. reflexivity.
Qed.

Lemma encode_plain_struct : forall ctx p n fs fvs,
  plain_struct_object ctx p n = Some fs ->
  encode ctx (TRef attrs0 p n) (GStruct fvs) = JObj (enc_members ctx fs fvs).
Proof.
  intros ctx p n fs fvs H. unfold plain_struct_object in H.
  destruct (locate_object ctx p n) as [o|] eqn:L; [|discriminate].
  destruct (o_type o) as [| | | | a dh fs0 | | | | | |] eqn:OT; try discriminate.
  destruct dh; [|discriminate].
  destruct (negb (nullable a) && str_nodup (map (@f_name ty) fs0))%bool eqn:C; [|discriminate].
  inversion H; subst fs0. apply andb_true_iff in C. destruct C as [C1 _]. apply negb_true_iff in C1.
  assert (PS : payload_or_self ctx (TRef attrs0 p n) = TStruct a [] fs).
  { unfold payload_or_self, payload_type, resolve. cbn [resolve_fuel]. rewrite L, OT.
    destruct (count_objects ctx); cbn [resolve_fuel]; unfold t_nullable; cbn [ty_attrs is_concrete_scalar]; rewrite C1; reflexivity. }
  cbn [encode]. rewrite PS. unfold union_scalars, union_refs. cbn [struct_dh alist_find].
  rewrite enc_members_eq. reflexivity.
Qed.

Lemma find_member_None : forall k ms, find_member k ms = None <-> ~ In k (map fst ms).
Proof.
  induction ms as [|[k' v'] r IH]; simpl.
  - split; [tauto | reflexivity].
  - destruct (String.eqb k' k) eqn:E.
    + apply String.eqb_eq in E. subst. split; [discriminate | intro H; exfalso; apply H; left; reflexivity].
    + apply String.eqb_neq in E. rewrite IH. split.
      * intros H [H'|H']; [apply E; exact H' | apply H; exact H'].
      * intros H H'. apply H. right. exact H'.
Qed.

Lemma find_member_enc : forall ctx fs vs k,
  NoDup (map (@f_name ty) fs) -> List.length fs = List.length vs ->
  forall fld x, In (fld, x) (combine fs vs) -> f_name fld = k ->
  find_member k (enc_members ctx fs (combine (map (@f_name ty) fs) vs)) =
  if (negb (f_required fld) && is_empty_value x)%bool then None else Some (encode ctx (f_type fld) x).
Proof.
  induction fs as [|f fr IH]; intros vs k Hnd Hlen fld x Hin Hk; destruct vs as [|v vr]; simpl in *; try contradiction; try discriminate.
  inversion Hnd as [|? ? Hni Hnd']; subst.
  assert (Keys : forall vs', ~ In (f_name f) (map fst (enc_members ctx fr (combine (map (@f_name ty) fr) vs')))).
  { clear -Hni. revert Hni. induction fr as [|g gr IHg]; intros Hni vs'; destruct vs' as [|w wr]; simpl; try tauto.
    destruct (negb (f_required g) && is_empty_value w)%bool; simpl.
    - apply IHg. intro H. apply Hni. right. exact H.
    - intros [H|H]; [apply Hni; left; exact H | revert H; apply IHg; intro H'; apply Hni; right; exact H']. }
  destruct Hin as [Heq|Hin].
  - inversion Heq; subst f v. destruct (negb (f_required fld) && is_empty_value x)%bool.
    + apply find_member_None. apply Keys.
    + simpl. rewrite String.eqb_refl. reflexivity.
  - assert (NE : f_name f <> f_name fld).
    { intro E. apply Hni. rewrite E. apply in_combine_l in Hin. apply in_map. exact Hin. }
    destruct (negb (f_required f) && is_empty_value v)%bool.
    + apply (IH vr (f_name fld) Hnd' (eq_add_S _ _ Hlen) fld x Hin eq_refl).
    + simpl. apply String.eqb_neq in NE. rewrite NE. apply (IH vr (f_name fld) Hnd' (eq_add_S _ _ Hlen) fld x Hin eq_refl).
Qed.


Lemma Forall2_combine_In : forall {A B} (R : A -> B -> Prop) l1 l2, Forall2 R l1 l2 ->
  List.length l1 = List.length l2 /\ forall a b, In (a, b) (combine l1 l2) -> R a b.
Proof.
  induction 1 as [|a b l1 l2 Hab H IH]; simpl.
  - split; [reflexivity | intros a b F; contradiction].
  - destruct IH as [IL II]. split; [rewrite IL; reflexivity|].
    intros a' b' [E|Hin]; [inversion E; subst; exact Hab | apply II; exact Hin].
Qed.

Lemma In_combine_of_In : forall {A B} (l1 : list A) (l2 : list B) a,
  List.length l1 = List.length l2 -> In a l1 -> exists b, In (a, b) (combine l1 l2).
Proof.
  induction l1 as [|x r IH]; intros l2 a Hlen Hin; destruct l2 as [|y s]; simpl in *; try contradiction; try discriminate.
  destruct Hin as [E|Hin].
  - subst. exists y. left. reflexivity.
  - destruct (IH s a (eq_add_S _ _ Hlen) Hin) as [b Hb]. exists b. right. exact Hb.
Qed.

Lemma plain_struct_facts : forall ctx p n fs, plain_struct_object ctx p n = Some fs ->
  ctor_fields ctx p n = Some fs /\ struct_fields ctx p n = Some fs /\ NoDup (map (@f_name ty) fs).
Proof.
  intros ctx p n fs H. unfold plain_struct_object in H. unfold ctor_fields, struct_fields.
  destruct (locate_object ctx p n) as [o|]; [|discriminate].
  destruct (o_type o) as [| | | | a dh fs0 | | | | | |]; try discriminate.
  destruct dh; [|discriminate].
  destruct (negb (nullable a) && str_nodup (map (@f_name ty) fs0))%bool eqn:C; [|discriminate].
  inversion H; subst. apply andb_true_iff in C. destruct C as [_ C].
  split; [reflexivity|]. split; [reflexivity|].
  clear -C. induction fs as [|f r IH]; simpl in *; [constructor|].
  apply andb_true_iff in C. destruct C as [C1 C2]. constructor; [|apply IH; exact C2].
  apply negb_true_iff in C1. intro Hin. clear -C1 Hin.
  induction (map (@f_name ty) r) as [|x l IHl]; simpl in *; [contradiction|].
  apply orb_false_iff in C1. destruct C1 as [A B]. destruct Hin as [E|Hin]; [subst; rewrite String.eqb_refl in A; discriminate | apply IHl; assumption].
Qed.

Lemma defaults_for_struct_S : forall ctx f fs extra,
  defaults_for_struct ctx (S f) fs extra =
  match call (map (go_field_value ctx (defaults_for_struct ctx f) extra) fs) with
  | COk vs => COk (mk_gstruct fs vs)
  | CNoCompile w => CNoCompile w
  | CUnm w => CUnm w
  end.
Proof. reflexivity. Qed.

(* ---------- C10: the Go constructor holds the declared values of the simple fields ---------- *)
Theorem ctor_defaults_go_partial : forall ctx p n fs j,
  plain_struct_object ctx p n = Some fs -> go_ctor ctx p n = COk j -> simple_fields_hold fs j = true.
Proof.
  intros ctx p n fs j PS H. destruct (plain_struct_facts ctx p n fs PS) as [CF [_ Hnd]].
  unfold go_ctor, go_ctor_value in H. rewrite CF in H. unfold ctor_fuel in H. rewrite defaults_for_struct_S in H.
  remember (defaults_for_struct ctx (S (count_objects ctx))) as dfs eqn:Hdfs.
  destruct (call (map (go_field_value ctx dfs []) fs)) as [vs|w|w] eqn:CL; try discriminate.
  assert (Hj : j = encode ctx (TRef attrs0 p n) (GStruct (combine (map (@f_name ty) fs) vs))).
  { unfold cbind in H. inversion H. reflexivity. }
  clear H. rewrite Hj. clear Hj.
  apply call_ok in CL.
  assert (F2 : Forall2 (fun fld v => go_field_value ctx dfs [] fld = COk v) fs vs).
  { clear -CL. revert vs CL. induction fs as [|f r IH]; intros vs CL; inversion CL; subst; constructor; [assumption | apply IH; assumption]. }
  destruct (Forall2_combine_In _ _ _ F2) as [Hlen HIn].
  rewrite (encode_plain_struct ctx p n fs _ PS).
  unfold simple_fields_hold. apply forallb_forall. intros fld Hfld.
  destruct (simple_field fld) eqn:SF; [|reflexivity]. simpl.
  destruct (go_simple_field ctx dfs fld SF) as [x [je [GV [DJ [JE NE]]]]].
  rewrite DJ. unfold holds_member.
  destruct (In_combine_of_In fs vs fld Hlen Hfld) as [x' Hx'].
  pose proof (HIn fld x' Hx') as GV'. rewrite GV in GV'. inversion GV'; subst x'.
  rewrite (find_member_enc ctx fs vs (f_name fld) Hnd Hlen fld x Hx' eq_refl).
  destruct (f_required fld) eqn:R; simpl.
  - exact JE.
  - rewrite (NE eq_refl). exact JE.
Qed.

(* a simple field never keeps the constructor from compiling *)
Theorem simple_fields_compile : forall ctx dfs fld, simple_field fld = true ->
  exists x, go_field_value ctx dfs [] fld = COk x.
Proof.
  intros ctx dfs fld S. destruct (go_simple_field ctx dfs fld S) as [x [j [H _]]]. exists x. exact H.
Qed.

(* ---------- Python ---------- *)
From Cog Require Proofs.PySemProofs.

Lemma pall_ok_inv : forall {A} (l : list (pres A)) vs, pall l = POk vs -> Forall2 (fun r v => r = POk v) l vs.
Proof.
  induction l as [|x r IH]; simpl; intros vs H.
  - inversion H. constructor.
  - destruct x as [a|w|w|w]; destruct (pall r) as [l'|w'|w'|w']; try discriminate.
    inversion H; subst. constructor; [reflexivity | apply IH; reflexivity].
Qed.

(* a plain default prints as a Python literal denoting the same JSON value *)
Lemma py_lit_json_plain : forall d j, dyn_plain d = true -> dyn_json d = Some j -> py_lit_json d = POk j.
Proof.
  fix IH 1. intros d j P J. destruct d as [|b|gt z|gt r|s|l|kvs|gt r]; simpl in P, J; try discriminate.
  - inversion J. reflexivity.
  - inversion J. reflexivity.
  - simpl. apply negb_true_iff in P. rewrite P. destruct (parse_decimal r) as [[m e]|]; [|discriminate]. inversion J. reflexivity.
  - inversion J. reflexivity.
  - simpl.
    assert (G : forall l js,
              forallb dyn_plain l = true ->
              (fix go (l : list dyn) : option (list json) :=
                 match l with
                 | [] => Some []
                 | x :: r => match dyn_json x, go r with Some j, Some js => Some (j :: js) | _, _ => None end
                 end) l = Some js ->
              pall (map py_lit_json l) = POk js).
    { induction l0 as [|x r IHl]; intros js Pl Jl.
      - inversion Jl. reflexivity.
      - simpl in Pl. apply andb_true_iff in Pl. destruct Pl as [P1 P2].
        destruct (dyn_json x) as [jx|] eqn:JX; [|discriminate].
        destruct ((fix go (l : list dyn) : option (list json) :=
                     match l with
                     | [] => Some []
                     | x :: r => match dyn_json x, go r with Some j, Some js => Some (j :: js) | _, _ => None end
                     end) r) as [jr|] eqn:JR; [|discriminate].
        inversion Jl; subst js. simpl. rewrite (IH x jx P1 JX). rewrite (IHl jr P2 eq_refl). reflexivity. }
    destruct ((fix go (l : list dyn) : option (list json) :=
                 match l with
                 | [] => Some []
                 | x :: r => match dyn_json x, go r with Some j, Some js => Some (j :: js) | _, _ => None end
                 end) l) as [js|] eqn:JL; simpl in J; [|discriminate].
    inversion J; subst j. rewrite (G l js P JL). reflexivity.
Qed.

Lemma plain_not_null : forall d j, dyn_plain d = true -> dyn_is_nil d = false -> dyn_json d = Some j -> j <> JNull.
Proof.
  intros d j P N J. destruct d; simpl in *; try discriminate; try (inversion J; discriminate).
  - destruct (parse_decimal repr) as [[m e]|]; [inversion J; discriminate | discriminate].
  - destruct ((fix go (l : list dyn) : option (list json) :=
                 match l with
                 | [] => Some []
                 | x :: r => match dyn_json x, go r with Some j, Some js => Some (j :: js) | _, _ => None end
                 end) l); simpl in J; [inversion J; discriminate | discriminate].
Qed.

Lemma py_simple_field : forall pctx f fld,
  simple_field fld = true ->
  exists j, dyn_json (declared_dyn (f_type fld)) = Some j /\ j <> JNull /\
            py_field_value pctx (py_default pctx (S f)) [] fld = POk (praw j).
Proof.
  intros pctx f fld S. unfold simple_field in S.
  apply andb_true_iff in S. destruct S as [S S3]. apply andb_true_iff in S. destruct S as [S1 S2].
  apply negb_true_iff in S1.
  destruct (dyn_json (declared_dyn (f_type fld))) as [j|] eqn:DJ.
  2:{ destruct (f_type fld); try discriminate.
      - apply andb_true_iff in S3. destruct S3 as [_ L]. unfold declared_dyn in *. simpl in *.
        destruct (dflt a); try discriminate. apply andb_true_iff in L. destruct L as [L1 _].
        exfalso. clear -L1 DJ. simpl in DJ.
        assert (G : forall l, forallb is_str_dyn l = true ->
                    (fix go (l : list dyn) : option (list json) :=
                       match l with
                       | [] => Some []
                       | x :: r => match dyn_json x, go r with Some j, Some js => Some (j :: js) | _, _ => None end
                       end) l <> None).
        { induction l0 as [|x r IHl]; simpl; intro H; [discriminate|]. apply andb_true_iff in H. destruct H as [A B].
          destruct x; try discriminate. simpl.
          destruct ((fix go (l : list dyn) : option (list json) :=
                       match l with
                       | [] => Some []
                       | x :: r => match dyn_json x, go r with Some j, Some js => Some (j :: js) | _, _ => None end
                       end) r) eqn:E; [discriminate | exfalso; exact (IHl B eq_refl)]. }
        specialize (G l L1).
        destruct ((fix go (l : list dyn) : option (list json) :=
                     match l with
                     | [] => Some []
                     | x :: r => match dyn_json x, go r with Some j, Some js => Some (j :: js) | _, _ => None end
                     end) l); [discriminate | apply G; reflexivity].
      - apply andb_true_iff in S3. destruct S3 as [_ FJ]. discriminate. }
  exists j. split; [reflexivity|]. split; [apply (plain_not_null _ _ S2 S1 DJ)|].
  pose proof (py_lit_json_plain _ _ S2 DJ) as PL.
  unfold py_field_value.
  destruct (f_type fld) as [| a et | | | | | | a k v cs | | |] eqn:FT; try discriminate.
  - (* array *) unfold declared_dyn in *. simpl in *. rewrite S1. rewrite orb_true_r.
    simpl. unfold py_lit. rewrite PL. reflexivity.
  - (* scalar *) unfold declared_dyn in *. simpl in *.
    destruct (dyn_is_nil v) eqn:VN; simpl.
    + rewrite S1. rewrite orb_true_r. simpl. unfold py_lit. rewrite PL. reflexivity.
    + unfold py_lit. rewrite PL. reflexivity.
Qed.

Lemma combine3_names : forall (fs : list field) (vs : list pval), List.length fs = List.length vs ->
  map (fun e : string * bool * pval => fst (fst e)) (combine (combine (map (@f_name ty) fs) (map (@f_required ty) fs)) vs) =
  map (@f_name ty) fs.
Proof.
  induction fs as [|f r IH]; intros vs H; destruct vs as [|v s]; simpl in *; try discriminate; [reflexivity|].
  rewrite IH by (apply eq_add_S; exact H). reflexivity.
Qed.

Lemma emitted_combine : forall (fs : list field) (vs : list pval) fld x,
  NoDup (map (@f_name ty) fs) -> List.length fs = List.length vs -> In (fld, x) (combine fs vs) ->
  PySemProofs.emitted (combine (combine (map (@f_name ty) fs) (map (@f_required ty) fs)) vs) (f_name fld) =
  if f_required fld then Some (py_encode x)
  else if PySemProofs.is_pnone x then None else Some (py_encode x).
Proof.
  unfold PySemProofs.emitted.
  induction fs as [|f r IH]; intros vs fld x Hnd Hlen Hin; destruct vs as [|v s]; simpl in *; try contradiction; try discriminate.
  inversion Hnd as [|? ? Hni Hnd']; subst.
  destruct Hin as [E|Hin].
  - inversion E; subst. rewrite seqb_refl. reflexivity.
  - assert (NE : seqb (f_name f) (f_name fld) = false).
    { apply String.eqb_neq. intro E. apply Hni. rewrite E. apply in_combine_l in Hin. apply in_map. exact Hin. }
    rewrite NE. apply IH; [exact Hnd' | apply eq_add_S; exact Hlen | exact Hin].
Qed.

Theorem ctor_defaults_py_partial : forall pctx p n fs j,
  plain_struct_object pctx p n = Some fs -> py_ctor pctx p n = POk j -> simple_fields_hold fs j = true.
Proof.
  intros pctx p n fs j PS H. destruct (plain_struct_facts pctx p n fs PS) as [_ [SF Hnd]].
  unfold py_ctor, py_ctor_value in H. rewrite SF in H. unfold py_fuel in H. rewrite PySemProofs.py_init_S in H.
  destruct (pall (map (py_field_value pctx (py_default pctx (S (2 * count_objects pctx))) []) fs)) as [vs|w|w|w] eqn:PA;
    try discriminate.
  assert (Hj : j = py_encode (mk_obj p n fs vs)) by (unfold pbind in H; inversion H; reflexivity).
  clear H. rewrite Hj. clear Hj.
  apply pall_ok_inv in PA.
  assert (F2 : Forall2 (fun fld v => py_field_value pctx (py_default pctx (S (2 * count_objects pctx))) [] fld = POk v) fs vs).
  { clear -PA. revert vs PA. induction fs as [|f r IH]; intros vs PA; inversion PA; subst; constructor; [assumption | apply IH; assumption]. }
  destruct (Forall2_combine_In _ _ _ F2) as [Hlen HIn].
  unfold mk_obj. rewrite PySemProofs.py_encode_obj.
  unfold simple_fields_hold. apply forallb_forall. intros fld Hfld.
  destruct (simple_field fld) eqn:SFl; [|reflexivity]. simpl.
  destruct (py_simple_field pctx (2 * count_objects pctx) fld SFl) as [je [DJ [NN FV]]].
  rewrite DJ. unfold holds_member.
  destruct (In_combine_of_In fs vs fld Hlen Hfld) as [x Hx].
  pose proof (HIn fld x Hx) as FV'. rewrite FV in FV'. inversion FV'; subst x.
  rewrite PySemProofs.find_member_obj by (rewrite (combine3_names fs vs Hlen); exact Hnd).
  rewrite (emitted_combine fs vs fld (praw je) Hnd Hlen Hx).
  assert (NP : PySemProofs.is_pnone (praw je) = false).
  { destruct je; try reflexivity. exfalso. apply NN. reflexivity. }
  rewrite NP. rewrite PySemProofs.py_encode_praw. destruct (f_required fld); apply json_eq_refl.
Qed.

(* ---------- the two languages agree on the simple fields ---------- *)
Lemma json_eqb_true : forall a b, json_eqb a b = true -> a = b.
Proof.
  fix IH 1. intros a b H. destruct a; destruct b; simpl in H; try discriminate.
  - reflexivity.
  - apply Bool.eqb_prop in H. subst. reflexivity.
  - apply andb_true_iff in H. destruct H as [H1 H2]. apply Z.eqb_eq in H1. apply Z.eqb_eq in H2. subst. reflexivity.
  - apply String.eqb_eq in H. subst. reflexivity.
  - f_equal. revert l0 H. induction l as [|x r IHl]; intros l0 H; destruct l0 as [|y s]; try discriminate; [reflexivity|].
    apply andb_true_iff in H. destruct H as [H1 H2]. rewrite (IH x y H1). rewrite (IHl s H2). reflexivity.
  - f_equal. revert ms0 H. induction ms as [|[k x] r IHl]; intros ms0 H; destruct ms0 as [|[k' y] s]; try discriminate; [reflexivity|].
    apply andb_true_iff in H. destruct H as [H H2]. apply andb_true_iff in H. destruct H as [H0 H1].
    apply String.eqb_eq in H0. subst. rewrite (IH x y H1). rewrite (IHl s H2). reflexivity.
Qed.

Lemma json_eq_sym_trans : forall a b c, json_eq a c = true -> json_eq b c = true -> json_eq a b = true.
Proof.
  unfold json_eq. intros a b c H1 H2. apply json_eqb_true in H1. apply json_eqb_true in H2.
  rewrite H1, H2. apply json_eqb_refl.
Qed.

Definition simple_fields_agree (fs : list field) (a b : json) : bool :=
  forallb (fun fld => (negb (simple_field fld) ||
                       match a, b with
                       | JObj x, JObj y =>
                           match find_member (f_name fld) x, find_member (f_name fld) y with
                           | Some u, Some v => json_eq u v
                           | _, _ => false
                           end
                       | _, _ => false
                       end)%bool) fs.

Theorem go_py_agree_partial : forall ctx pctx p n fs a b,
  plain_struct_object ctx p n = Some fs -> plain_struct_object pctx p n = Some fs ->
  go_ctor ctx p n = COk a -> py_ctor pctx p n = POk b -> simple_fields_agree fs a b = true.
Proof.
  intros ctx pctx p n fs a b G P HA HB.
  pose proof (ctor_defaults_go_partial ctx p n fs a G HA) as GA.
  pose proof (ctor_defaults_py_partial pctx p n fs b P HB) as PB.
  unfold simple_fields_hold in GA, PB. rewrite forallb_forall in GA, PB.
  unfold simple_fields_agree. apply forallb_forall. intros fld Hin.
  specialize (GA fld Hin). specialize (PB fld Hin).
  destruct (simple_field fld); [|reflexivity]. simpl in *.
  destruct (dyn_json (declared_dyn (f_type fld))) as [e|]; [|discriminate].
  unfold holds_member in GA, PB. destruct a; try discriminate. destruct b; try discriminate.
  destruct (find_member (f_name fld) ms); [|discriminate].
  destruct (find_member (f_name fld) ms0); [|discriminate].
  apply (json_eq_sym_trans _ _ e); assumption.
Qed.

(* ---------- the full statements and their witnesses ---------- *)
From Cog Require Import Model.Passes Model.PassesChain Model.Process Gen.Chains_gen.

Definition ctor_defaults_go_statement : Prop :=
  forall ctx p n fs j, plain_struct_object ctx p n = Some fs -> go_ctor ctx p n = COk j -> all_declared_hold fs j = true.
Definition ctor_defaults_py_statement : Prop :=
  forall pctx p n fs j, plain_struct_object pctx p n = Some fs -> py_ctor pctx p n = POk j -> all_declared_hold fs j = true.

Definition wS : ty := TScalar attrs0 KString DNil [].
Definition wmeta : smeta := {| m_kind := ""; m_variant := ""; m_identifier := "" |}.
Definition wdef (d : dyn) : attrs := {| nullable := false; dflt := d; hints := [] |}.
Definition wnull : attrs := {| nullable := true; dflt := DNil; hints := [] |}.

(* Go: a default carried by a reference to a disjunction struct is printed as the EMPTY struct literal *)
Definition wit_go_union : schemas :=
  [mkSchema "w" wmeta "" (TBad attrs0 "")
     [("Root", mkObject "Root" [] (TStruct attrs0 [] [mkField "un" [] (TRef (wdef (DStr "x")) "w" "StringOrBool") true]) "w" "Root");
      ("StringOrBool", mkObject "StringOrBool" []
         (TStruct attrs0 [("disjunction_of_scalars", mkDisj [wS; TScalar attrs0 KBool DNil []] "" [])]
            [mkField "String" [] (TScalar wnull KString DNil []) false; mkField "Bool" [] (TScalar wnull KBool DNil []) false])
         "w" "StringOrBool")]].

Theorem ctor_defaults_go_refuted : ~ ctor_defaults_go_statement.
Proof.
  intro H.
  assert (A : plain_struct_object wit_go_union "w" "Root" = Some [mkField "un" [] (TRef (wdef (DStr "x")) "w" "StringOrBool") true]) by reflexivity.
  assert (B : go_ctor wit_go_union "w" "Root" = COk (JObj [("un", JNull)])) by (vm_compute; reflexivity).
  pose proof (H _ _ _ _ _ A B) as G.
  assert (N : all_declared_hold [mkField "un" [] (TRef (wdef (DStr "x")) "w" "StringOrBool") true] (JObj [("un", JNull)]) = false)
    by (vm_compute; reflexivity).
  rewrite N in G. discriminate.
Qed.

(* Python: a default carried by a reference to a scalar alias is ignored (`Name()` is printed) *)
Definition wit_py_alias : schemas :=
  [mkSchema "w" wmeta "" (TBad attrs0 "")
     [("N", mkObject "N" [] wS "w" "N");
      ("Root", mkObject "Root" [] (TStruct attrs0 [] [mkField "id" [] (TRef (wdef (DStr "abc")) "w" "N") true]) "w" "Root")]].

Theorem ctor_defaults_py_refuted : ~ ctor_defaults_py_statement.
Proof.
  intro H.
  assert (A : plain_struct_object wit_py_alias "w" "Root" = Some [mkField "id" [] (TRef (wdef (DStr "abc")) "w" "N") true]) by reflexivity.
  assert (B : py_ctor wit_py_alias "w" "Root" = POk (JObj [("id", JStr "")])) by (vm_compute; reflexivity).
  pose proof (H _ _ _ _ _ A B) as G.
  assert (N : all_declared_hold [mkField "id" [] (TRef (wdef (DStr "abc")) "w" "N") true] (JObj [("id", JStr "")]) = false)
    by (vm_compute; reflexivity).
  rewrite N in G. discriminate.
Qed.

(* a list default of integers: `[]string{1, 2}` assigned to a []int64 field -- the package has no constructor at all *)
Definition wit_go_list : schemas :=
  [mkSchema "w" wmeta "" (TBad attrs0 "")
     [("Root", mkObject "Root" []
         (TStruct attrs0 [] [mkField "l" [] (TArray (wdef (DList [DInt "int64" 1; DInt "int64" 2])) (TScalar attrs0 KInt64 DNil [])) true])
         "w" "Root")]].
Theorem go_list_default_does_not_compile :
  go_ctor wit_go_list "w" "Root" = CNoCompile "[]string literal assigned to another slice type" /\
  py_ctor wit_go_list "w" "Root" = POk (JObj [("l", JArr [JNum 1 0; JNum 2 0])]).
Proof. split; vm_compute; reflexivity. Qed.

(* ---- through the REAL pass chains (Gen/Chains_gen.v, regenerated from the jennies' CompilerPasses()) ---- *)
(* a struct declaring an anonymous enumeration with a default and a union with a default (what the CUE
   front-end produces for `en: *"h" | "v"` and `un: string | bool | *"x"`) *)
Definition wit_pre : schemas :=
  [mkSchema "w" wmeta "" (TBad attrs0 "")
     [("Root", mkObject "Root" []
         (TStruct attrs0 []
            [mkField "en" [] (TEnum (wdef (DStr "h")) [mkEnumVal wS "h" (DStr "h"); mkEnumVal wS "v" (DStr "v")]) true;
             mkField "un" [] (TDisj (wdef (DStr "x")) (mkDisj [wS; TScalar attrs0 KBool DNil []] "" [])) true])
         "w" "Root")]].

Definition pre_fields (pre : schemas) (p n : string) : option (list field) := plain_struct_object pre p n.

Definition ctor_defaults_go_chain_statement : Prop :=
  forall pre post p n fs j, process chain_go pre = Ok post -> pre_fields pre p n = Some fs ->
    go_ctor post p n = COk j -> all_declared_hold fs j = true.

Definition wit_gpost : schemas := Eval vm_compute in (match process chain_go wit_pre with Ok p => p | _ => [] end).
Definition wit_ppost : schemas := Eval vm_compute in (match process chain_python wit_pre with Ok p => p | _ => [] end).
Definition wit_pre_fs : list field :=
  Eval vm_compute in (match plain_struct_object wit_pre "w" "Root" with Some fs => fs | None => [] end).

(* what the constructors return over the two post-chain contexts (computed, so that the witnesses follow the pass
   models: today Go returns {"en": "", "un": null} and Python {"en": "h", "un": "x"}) *)
Definition wit_go_json : json := Eval vm_compute in (match go_ctor wit_gpost "w" "Root" with COk j => j | _ => JNull end).
Definition wit_py_json : json := Eval vm_compute in (match py_ctor wit_ppost "w" "Root" with POk j => j | _ => JNull end).

Lemma wit_pre_go : process chain_go wit_pre = Ok wit_gpost /\ go_ctor wit_gpost "w" "Root" = COk wit_go_json.
Proof. split; vm_compute; reflexivity. Qed.

Lemma wit_pre_py : process chain_python wit_pre = Ok wit_ppost /\ py_ctor wit_ppost "w" "Root" = POk wit_py_json.
Proof. split; vm_compute; reflexivity. Qed.

(* Python holds both declared values *)
Lemma wit_py_holds : all_declared_hold wit_pre_fs wit_py_json = true.
Proof. vm_compute. reflexivity. Qed.

Lemma wit_pre_fields : pre_fields wit_pre "w" "Root" = Some wit_pre_fs.
Proof. vm_compute. reflexivity. Qed.

(* the Go chain loses declared defaults (DisjunctionToType: the union's; AnonymousEnumToExplicitType: the enum's,
   as long as that pass drops it) *)
Theorem ctor_defaults_go_chain_refuted : ~ ctor_defaults_go_chain_statement.
Proof.
  intro H. destruct wit_pre_go as [A B].
  pose proof (H wit_pre wit_gpost "w" "Root" wit_pre_fs _ A wit_pre_fields B) as G.
  assert (N : all_declared_hold wit_pre_fs wit_go_json = false) by (vm_compute; reflexivity).
  rewrite N in G. discriminate.
Qed.

(* ... and so Go and Python disagree on fields with a declared default *)
Definition declared_agree (fs : list field) (a b : json) : bool :=
  forallb (fun fld => (dyn_is_nil (declared_dyn (f_type fld)) ||
                       match a, b with
                       | JObj x, JObj y =>
                           match find_member (f_name fld) x, find_member (f_name fld) y with
                           | Some u, Some v => json_eq u v
                           | _, _ => false end
                       | _, _ => false end)%bool) fs.

Definition go_py_agree_statement : Prop :=
  forall pre gpost ppost p n fs a b,
    process chain_go pre = Ok gpost -> process chain_python pre = Ok ppost -> pre_fields pre p n = Some fs ->
    go_ctor gpost p n = COk a -> py_ctor ppost p n = POk b -> declared_agree fs a b = true.

Theorem go_py_agree_refuted : ~ go_py_agree_statement.
Proof.
  intro H. destruct wit_pre_go as [A B]. destruct wit_pre_py as [C D].
  pose proof (H wit_pre wit_gpost wit_ppost "w" "Root" wit_pre_fs _ _ A C wit_pre_fields B D) as G.
  assert (N : declared_agree wit_pre_fs wit_go_json wit_py_json = false) by (vm_compute; reflexivity).
  rewrite N in G. discriminate.
Qed.

(* ---------- the default's journey through the front-ends (scalars) ---------- *)
Definition scalar_json_value (j : json) : bool :=
  match j with JBool _ | JNum _ _ | JStr _ => true | _ => false end.

Lemma fe_value_plain_num : forall fmt numtext m e, numtext_ok numtext ->
  dyn_plain (fe_value fmt numtext (JNum m e)) = true /\ dyn_json (fe_value fmt numtext (JNum m e)) = Some (JNum m e).
Proof.
  intros fmt numtext m e NT. unfold fe_value. cbn [fe_elem].
  repeat match goal with |- context [if ?c then _ else _] => destruct c eqn:? end;
    try match goal with H : Z.eqb e 0 = true |- _ => apply Z.eqb_eq in H; subst e end;
    simpl; rewrite ?(NT m e); split; reflexivity.
Qed.

(* every format: a scalar default that fits its field arrives as a literal the Go field accepts and holds, and as
   a Python literal denoting the same value (JSON Schema: since walkNumber unwraps json.Number) *)
Theorem default_not_altered_scalars : forall fmt numtext pt k j,
  numtext_ok numtext -> scalar_json_value j = true -> fits_scalar k j = true -> is_datetime pt = false ->
  (exists v, assign_scalar pt k (format_scalar (fe_value fmt numtext j)) = COk v /\ gscalar_holds v j = true) /\
  py_lit_json (fe_value fmt numtext j) = POk j.
Proof.
  intros fmt numtext pt k j NT SJ FJ DT.
  assert (PJ : dyn_plain (fe_value fmt numtext j) = true /\ dyn_json (fe_value fmt numtext j) = Some j).
  { destruct j; simpl in SJ; try discriminate; try (split; reflexivity). apply fe_value_plain_num; assumption. }
  destruct PJ as [P J]. split.
  - destruct (assign_scalar_fits pt k _ j P J FJ DT) as [v [A [B _]]]. exists v. split; assumption.
  - apply py_lit_json_plain; assumption.
Qed.

(* a LIST default of numbers, whatever the format: Go rejects the []string{...} literal formatScalar prints *)
Theorem go_list_of_numbers_does_not_compile : forall fmt numtext m e a,
  exists w, assign (TArray a (TScalar attrs0 KInt64 DNil [])) (format_scalar (fe_value fmt numtext (JArr [JNum m e]))) = CNoCompile w.
Proof.
  intros. unfold fe_value. simpl.
  repeat match goal with |- context [if ?c then _ else _] => destruct c eqn:? end; eexists; reflexivity.
Qed.

(* the JSON Schema front-end drops the default of an enumeration, of a union and of an inline object; the OpenAPI
   front-end those of unions and inline objects (walkEnum / walkOneOf / walkObject never read `default`) *)
Theorem defaults_dropped_by_front_ends : forall numtext j,
  fe_default "jsonschema" "enum" numtext j = DNil /\ fe_default "jsonschema" "union" numtext j = DNil /\
  fe_default "jsonschema" "struct" numtext j = DNil /\
  fe_default "openapi" "union" numtext j = DNil /\ fe_default "openapi" "struct" numtext j = DNil.
Proof. intros. repeat split; reflexivity. Qed.

Example c10_nonvacuous :
  exists ctx p n fs a b,
    plain_struct_object ctx p n = Some fs /\ go_ctor ctx p n = COk a /\ py_ctor ctx p n = POk b /\
    List.length (filter simple_field fs) >= 3 /\ simple_fields_hold fs a = true /\ simple_fields_hold fs b = true.
Proof.
  exists [mkSchema "w" wmeta "" (TBad attrs0 "")
            [("Root", mkObject "Root" []
                (TStruct attrs0 []
                   [mkField "b" [] (TScalar (wdef (DBool true)) KBool DNil []) true;
                    mkField "f" [] (TScalar (wdef (DFloat "float64" "1.5")) KFloat64 DNil []) true;
                    mkField "i" [] (TScalar {| nullable := true; dflt := DInt "int64" 7; hints := [] |} KInt64 DNil []) false;
                    mkField "k" [] (TScalar attrs0 KString (DStr "fixed") []) true;
                    mkField "l" [] (TArray (wdef (DList [DStr "a"; DStr "b"])) wS) true])
                "w" "Root")]],
    "w", "Root".
  eexists. eexists. eexists.
  split; [reflexivity|]. split; [vm_compute; reflexivity|]. split; [vm_compute; reflexivity|].
  split; [vm_compute; lia|]. split; vm_compute; reflexivity.
Qed.
