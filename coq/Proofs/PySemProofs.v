(* Lemmas about the Python semantics (Model/PySem.v) for C11: on the safe fragment from_json followed by the
   encoder reproduces the document up to omitted null members. *)
From Coq Require Import List String ZArith Bool Ascii Lia.
From Cog Require Import Model.GoSem Model.GoSemSpec08 Model.GoSemSpec01 Model.Ctor Model.PySem Model.PySemChecks Model.PySemSpec.
Import ListNotations.
Local Open Scope list_scope.
Local Open Scope string_scope.

(* ---------- induction over nested JSON ---------- *)
Section JsonInd.
  Variable P : json -> Prop.
  Hypothesis Hnull : P JNull.
  Hypothesis Hbool : forall b, P (JBool b).
  Hypothesis Hnum : forall m e, P (JNum m e).
  Hypothesis Hstr : forall s, P (JStr s).
  Hypothesis Harr : forall l, Forall P l -> P (JArr l).
  Hypothesis Hobj : forall ms, Forall (fun kv => P (snd kv)) ms -> P (JObj ms).

  Fixpoint json_ind' (j : json) : P j :=
    match j with
    | JNull => Hnull
    | JBool b => Hbool b
    | JNum m e => Hnum m e
    | JStr s => Hstr s
    | JArr l =>
        Harr l ((fix go (l : list json) : Forall P l :=
                   match l with
                   | [] => Forall_nil P
                   | x :: r => Forall_cons x (json_ind' x) (go r)
                   end) l)
    | JObj ms =>
        Hobj ms ((fix go (ms : list (string * json)) : Forall (fun kv => P (snd kv)) ms :=
                    match ms with
                    | [] => Forall_nil _
                    | kv :: r => Forall_cons kv (json_ind' (snd kv)) (go r)
                    end) ms)
    end.
End JsonInd.

(* ---------- strings ---------- *)
Lemma seqb_refl : forall s, seqb s s = true.
Proof. intro s. apply String.eqb_refl. Qed.
Lemma seqb_eq : forall a b, seqb a b = true -> a = b.
Proof. intros a b H. apply String.eqb_eq. exact H. Qed.
Lemma seqb_neq : forall a b, seqb a b = false -> a <> b.
Proof. intros a b H. apply String.eqb_neq. exact H. Qed.

Lemma str_in_In : forall k l, str_in k l = true <-> In k l.
Proof.
  induction l as [|x r IH]; simpl.
  - split; [discriminate | tauto].
  - rewrite orb_true_iff, IH. split.
    + intros [H|H]; [left; apply String.eqb_eq in H; exact H | right; exact H].
    + intros [H|H]; [left; subst; apply String.eqb_refl | right; exact H].
Qed.

Lemma str_in_false : forall k l, str_in k l = false <-> ~ In k l.
Proof.
  intros k l. rewrite <- str_in_In. destruct (str_in k l); split; intro H.
  - discriminate.
  - exfalso. apply H. reflexivity.
  - intro H'. discriminate.
  - reflexivity.
Qed.

Lemma str_nodup_NoDup : forall l, str_nodup l = true -> NoDup l.
Proof.
  induction l as [|x r IH]; simpl; intro H.
  - constructor.
  - apply andb_true_iff in H. destruct H as [H1 H2]. constructor.
    + apply negb_true_iff in H1. apply str_in_false in H1. exact H1.
    + apply IH. exact H2.
Qed.

(* ---------- members ---------- *)
Lemma find_member_In : forall k ms v, find_member k ms = Some v -> In (k, v) ms.
Proof.
  induction ms as [|[k' v'] r IH]; simpl; intros v H; [discriminate|].
  destruct (String.eqb k' k) eqn:E.
  - inversion H; subst. apply String.eqb_eq in E. subst. left. reflexivity.
  - right. apply IH. exact H.
Qed.

Lemma find_member_None : forall k ms, find_member k ms = None <-> ~ In k (map fst ms).
Proof.
  induction ms as [|[k' v'] r IH]; simpl.
  - split; [tauto | reflexivity].
  - destruct (String.eqb k' k) eqn:E.
    + apply String.eqb_eq in E. subst. split; [discriminate | intro H; exfalso; apply H; left; reflexivity].
    + apply String.eqb_neq in E. rewrite IH. split.
      * intros H [H'|H']; [apply E; exact H' | apply H; exact H'].
      * intros H H'. apply H. right. exact H'.
Qed.

Lemma find_member_nodup : forall ms k v, NoDup (map fst ms) -> In (k, v) ms -> find_member k ms = Some v.
Proof.
  induction ms as [|[k' v'] r IH]; simpl; intros k v Hnd Hin; [contradiction|].
  inversion Hnd as [|? ? Hni Hnd']; subst.
  destruct Hin as [Heq|Hin].
  - inversion Heq; subst. rewrite String.eqb_refl. reflexivity.
  - destruct (String.eqb k' k) eqn:E.
    + apply String.eqb_eq in E. subst. exfalso. apply Hni. apply in_map_iff. exists (k, v). split; [reflexivity | exact Hin].
    + apply IH; assumption.
Qed.

(* ---------- le_null_u: equations with top-level helpers ---------- *)
Fixpoint le_list (le : json -> json -> bool) (x y : list json) : bool :=
  match x, y with
  | [], [] => true
  | a :: r, b :: s => (le a b && le_list le r s)%bool
  | _, _ => false
  end.

Fixpoint le_members (le : json -> json -> bool) (x y : list (string * json)) : bool :=
  match x with
  | [] => true
  | (k, a) :: r =>
      (match find_member k y with
       | Some b => le a b
       | None => is_jnull a
       end && le_members le r y)%bool
  end.

Lemma le_null_u_arr : forall x y, le_null_u (JArr x) (JArr y) = le_list le_null_u x y.
Proof.
  induction x as [|a r IH]; destruct y as [|b s]; simpl; try reflexivity.
  f_equal. specialize (IH s). simpl in IH. exact IH.
Qed.

Lemma le_null_u_obj : forall x y,
  le_null_u (JObj x) (JObj y) = (le_members le_null_u x y && forallb (fun kv => str_in (fst kv) (map fst x)) y)%bool.
Proof.
  intros x y. simpl. f_equal.
  induction x as [|[k a] r IH]; simpl; [reflexivity|].
  rewrite IH. reflexivity.
Qed.

Lemma le_members_intro : forall le x y,
  (forall k a, In (k, a) x ->
     match find_member k y with Some b => le a b = true | None => is_jnull a = true end) ->
  le_members le x y = true.
Proof.
  induction x as [|[k a] r IH]; simpl; intros y H; [reflexivity|].
  apply andb_true_iff. split.
  - specialize (H k a (or_introl eq_refl)). destruct (find_member k y); exact H.
  - apply IH. intros k' a' Hin. apply H. right. exact Hin.
Qed.

Lemma num_eqb_refl : forall m e, num_eqb m e m e = true.
Proof.
  intros m e. unfold num_eqb. destruct (num_norm m e) as [a b]. rewrite !Z.eqb_refl. reflexivity.
Qed.

Lemma json_eqb_refl : forall j, json_eqb j j = true.
Proof.
  induction j using json_ind'; simpl; try reflexivity.
  - apply Bool.eqb_reflx.
  - rewrite !Z.eqb_refl. reflexivity.
  - apply String.eqb_refl.
  - induction H as [|x r Hx Hr IH]; [reflexivity|]. rewrite Hx. simpl. exact IH.
  - induction H as [|[k x] r Hx Hr IH]; [reflexivity|]. simpl in Hx. rewrite String.eqb_refl, Hx. simpl. exact IH.
Qed.

Lemma le_null_u_refl : forall j, json_wf j = true -> le_null_u j j = true.
Proof.
  induction j using json_ind'; intro Hwf; try reflexivity.
  - simpl. apply Bool.eqb_reflx.
  - simpl. apply num_eqb_refl.
  - simpl. apply String.eqb_refl.
  - rewrite le_null_u_arr. simpl in Hwf.
    induction H as [|x r Hx Hr IH]; [reflexivity|]. simpl in Hwf. apply andb_true_iff in Hwf. destruct Hwf as [W1 W2].
    simpl. rewrite (Hx W1). simpl. apply IH. exact W2.
  - rewrite le_null_u_obj. simpl in Hwf. apply andb_true_iff in Hwf. destruct Hwf as [Wnd Wall].
    apply str_nodup_NoDup in Wnd. apply andb_true_iff. split.
    + apply le_members_intro. intros k a Hin. rewrite (find_member_nodup ms k a Wnd Hin).
      rewrite Forall_forall in H. apply (H (k, a) Hin).
      rewrite forallb_forall in Wall. apply (Wall (k, a) Hin).
    + apply forallb_forall. intros [k a] Hin. simpl. apply str_in_In. apply in_map_iff. exists (k, a). split; [reflexivity | exact Hin].
Qed.

(* ---------- pall ---------- *)
Lemma pall_map_ok : forall {A B} (f : A -> pres B) (g : A -> B) (l : list A),
  (forall x, In x l -> f x = POk (g x)) -> pall (map f l) = POk (map g l).
Proof.
  induction l as [|x r IH]; simpl; intro H; [reflexivity|].
  rewrite (H x (or_introl eq_refl)). rewrite IH; [reflexivity|].
  intros y Hy. apply H. right. exact Hy.
Qed.

Lemma pall_all_ok : forall {A} (l : list (pres A)) (g : list A),
  Forall2 (fun r a => r = POk a) l g -> pall l = POk g.
Proof.
  induction 1 as [|r a l g Hr Hl IH]; simpl; [reflexivity|].
  subst r. rewrite IH. reflexivity.
Qed.

(* ---------- the encoder on instances ---------- *)
Fixpoint obj_req (fs : list (string * bool * pval)) : list (string * json) :=
  match fs with
  | [] => []
  | (n, true, x) :: r => (n, py_encode x) :: obj_req r
  | _ :: r => obj_req r
  end.
Fixpoint obj_opt (fs : list (string * bool * pval)) : list (string * json) :=
  match fs with
  | [] => []
  | (n, false, x) :: r => match x with PNone => obj_opt r | _ => (n, py_encode x) :: obj_opt r end
  | _ :: r => obj_opt r
  end.

Lemma obj_req_eq : forall fs,
  (fix req (fs : list (string * bool * pval)) : list (string * json) :=
     match fs with
     | [] => []
     | (n, true, x) :: r => (n, py_encode x) :: req r
     | _ :: r => req r
     end) fs = obj_req fs.
Proof.
  induction fs as [|[[k b] x] r IH]; [reflexivity|]. destruct b; simpl; rewrite IH; reflexivity.
Qed.
Lemma obj_opt_eq : forall fs,
  (fix opt (fs : list (string * bool * pval)) : list (string * json) :=
     match fs with
     | [] => []
     | (n, false, x) :: r => match x with PNone => opt r | _ => (n, py_encode x) :: opt r end
     | _ :: r => opt r
     end) fs = obj_opt fs.
Proof.
  induction fs as [|[[k b] x] r IH]; [reflexivity|]. destruct b; simpl; [exact IH|]. destruct x; rewrite IH; reflexivity.
Qed.

Lemma py_encode_obj : forall p n fs, py_encode (PObj p n fs) = JObj (obj_req fs ++ obj_opt fs).
Proof.
  intros p n fs. rewrite <- obj_req_eq, <- obj_opt_eq. reflexivity.
Qed.

Definition is_pnone (v : pval) : bool := match v with PNone => true | _ => false end.

(* what the encoder emits for the member k of an instance whose field names are distinct *)
Definition emitted (fs : list (string * bool * pval)) (k : string) : option json :=
  match find (fun e => seqb (fst (fst e)) k) fs with
  | Some (_, true, x) => Some (py_encode x)
  | Some (_, false, x) => if is_pnone x then None else Some (py_encode x)
  | None => None
  end.

Lemma find_member_app : forall k (a b : list (string * json)),
  find_member k (a ++ b) = match find_member k a with Some v => Some v | None => find_member k b end.
Proof.
  induction a as [|[k' v] r IH]; simpl; intro b; [reflexivity|].
  destruct (String.eqb k' k); [reflexivity | apply IH].
Qed.

Lemma obj_req_keys : forall fs k, In k (map fst (obj_req fs)) -> In k (map (fun e => fst (fst e)) fs).
Proof.
  induction fs as [|[[n b] x] r IH]; simpl; intros k H; [exact H|].
  destruct b; simpl in H.
  - destruct H as [H|H]; [left; exact H | right; apply IH; exact H].
  - right. apply IH. exact H.
Qed.
Lemma obj_opt_keys : forall fs k, In k (map fst (obj_opt fs)) -> In k (map (fun e => fst (fst e)) fs).
Proof.
  induction fs as [|[[n b] x] r IH]; simpl; intros k H; [exact H|].
  destruct b.
  - right. apply IH. exact H.
  - destruct x; simpl in H; try (destruct H as [H|H]; [left; exact H | right; apply IH; exact H]).
    right. apply IH. exact H.
Qed.

Lemma find_member_obj : forall fs k,
  NoDup (map (fun e => fst (fst e)) fs) -> find_member k (obj_req fs ++ obj_opt fs) = emitted fs k.
Proof.
  intros fs k Hnd. rewrite find_member_app. unfold emitted.
  induction fs as [|[[n b] x] r IH]; simpl; [reflexivity|].
  inversion Hnd as [|? ? Hni Hnd']; subst. simpl in Hni.
  destruct (seqb n k) eqn:E.
  - apply seqb_eq in E. subst n.
    assert (R1 : find_member k (obj_req r) = None).
    { apply find_member_None. intro H. apply Hni. apply obj_req_keys. exact H. }
    assert (R2 : find_member k (obj_opt r) = None).
    { apply find_member_None. intro H. apply Hni. apply obj_opt_keys. exact H. }
    destruct b; simpl.
    + rewrite String.eqb_refl. reflexivity.
    + rewrite R1. destruct x; simpl; try rewrite String.eqb_refl; try reflexivity. exact R2.
  - destruct b; simpl.
    + unfold seqb in E. rewrite E. apply IH. exact Hnd'.
    + destruct x; simpl; try (unfold seqb in E; rewrite E); apply IH; exact Hnd'.
Qed.

Lemma emitted_keys : forall fs k, In k (map fst (obj_req fs ++ obj_opt fs)) ->
  exists b x, In (k, b, x) fs /\ (b = true \/ is_pnone x = false).
Proof.
  intros fs k H. rewrite map_app in H. apply in_app_or in H. destruct H as [H|H].
  - induction fs as [|[[n b] x] r IH]; simpl in *; [contradiction|].
    destruct b; simpl in H.
    + destruct H as [H|H].
      * subst. exists true, x. split; [left; reflexivity | left; reflexivity].
      * destruct (IH H) as [b' [x' [Hin Hc]]]. exists b', x'. split; [right; exact Hin | exact Hc].
    + destruct (IH H) as [b' [x' [Hin Hc]]]. exists b', x'. split; [right; exact Hin | exact Hc].
  - induction fs as [|[[n b] x] r IH]; simpl in *; [contradiction|].
    destruct b.
    + destruct (IH H) as [b' [x' [Hin Hc]]]. exists b', x'. split; [right; exact Hin | exact Hc].
    + destruct x; simpl in H;
        try (destruct H as [H|H];
             [ subst; eexists false, _; split; [left; reflexivity | right; reflexivity]
             | destruct (IH H) as [b' [x' [Hin Hc]]]; exists b', x'; split; [right; exact Hin | exact Hc] ]).
      destruct (IH H) as [b' [x' [Hin Hc]]]. exists b', x'. split; [right; exact Hin | exact Hc].
Qed.

(* ---------- fields ---------- *)
Lemma field_by_name_In : forall fs k fld, field_by_name fs k = Some fld -> In fld fs /\ f_name fld = k.
Proof.
  unfold field_by_name. intros fs k fld H. apply find_some in H. destruct H as [H1 H2].
  split; [exact H1 | apply seqb_eq; exact H2].
Qed.

Lemma field_by_name_nodup : forall fs fld, NoDup (map (@f_name ty) fs) -> In fld fs -> field_by_name fs (f_name fld) = Some fld.
Proof.
  unfold field_by_name. induction fs as [|g r IH]; simpl; intros fld Hnd Hin; [contradiction|].
  inversion Hnd as [|? ? Hni Hnd']; subst.
  destruct Hin as [Heq|Hin].
  - subst. rewrite seqb_refl. reflexivity.
  - destruct (seqb (f_name g) (f_name fld)) eqn:E.
    + apply seqb_eq in E. exfalso. apply Hni. rewrite E. apply in_map. exact Hin.
    + apply IH; assumption.
Qed.

Lemma field_by_name_filter : forall (P : field -> bool) fs k,
  NoDup (map (@f_name ty) fs) ->
  field_by_name (filter P fs) k =
  match field_by_name fs k with Some fld => if P fld then Some fld else None | None => None end.
Proof.
  unfold field_by_name. induction fs as [|g r IH]; simpl; intros k Hnd; [reflexivity|].
  inversion Hnd as [|? ? Hni Hnd']; subst.
  destruct (P g) eqn:Pg; simpl.
  - destruct (seqb (f_name g) k) eqn:E; [rewrite Pg; reflexivity | apply IH; exact Hnd'].
  - destruct (seqb (f_name g) k) eqn:E.
    + rewrite Pg. rewrite IH by exact Hnd'.
      apply seqb_eq in E. subst k.
      destruct (find (fun f => seqb (f_name f) (f_name g)) r) eqn:F; [|reflexivity].
      apply find_some in F. destruct F as [F1 F2]. apply seqb_eq in F2. exfalso. apply Hni. rewrite <- F2. apply in_map. exact F1.
    + apply IH. exact Hnd'.
Qed.

Lemma py_init_S : forall pctx f p n fs a,
  py_init pctx (S f) p n fs a =
  pbind (pall (map (py_field_value pctx (py_default pctx f) a) fs)) (fun vs => POk (mk_obj p n fs vs)).
Proof. reflexivity. Qed.

(* ---------- keep_last on items with distinct names ---------- *)
Fixpoint somes {A} (l : list (string * option A)) : list A :=
  match l with
  | [] => []
  | (_, Some a) :: r => a :: somes r
  | (_, None) :: r => somes r
  end.

Lemma keep_last_nodup : forall {A} (l : list (string * option A)), NoDup (map fst l) -> keep_last l = somes l.
Proof.
  induction l as [|[k o] r IH]; simpl; intro Hnd; [reflexivity|].
  inversion Hnd as [|? ? Hni Hnd']; subst.
  destruct o as [a|].
  - assert (E : str_in k (map fst r) = false) by (apply str_in_false; exact Hni).
    rewrite E. rewrite IH by exact Hnd'. reflexivity.
  - apply IH. exact Hnd'.
Qed.

Lemma from_json_items_keys : forall dec decoded ms, map fst (from_json_items dec decoded ms) = map fst ms.
Proof. intros. unfold from_json_items. rewrite map_map. reflexivity. Qed.

Definition dec_val (r : pres pval) : pval := match r with POk v => v | _ => PNone end.

(* the arguments from_json passes to the constructor *)
Fixpoint args_of (dec : ty -> json -> pres pval) (decoded : list field) (ms : list (string * json)) : list (string * pval) :=
  match ms with
  | [] => []
  | (k, v) :: r =>
      match field_by_name decoded k with
      | Some fld => (k, dec_val (dec (f_type fld) v)) :: args_of dec decoded r
      | None => args_of dec decoded r
      end
  end.

Lemma from_json_args_ok : forall dec decoded ms,
  NoDup (map fst ms) ->
  (forall k v fld, In (k, v) ms -> field_by_name decoded k = Some fld -> exists x, dec (f_type fld) v = POk x) ->
  pall (from_json_args dec decoded ms) = POk (args_of dec decoded ms).
Proof.
  intros dec decoded ms Hnd H. unfold from_json_args.
  rewrite keep_last_nodup by (rewrite from_json_items_keys; exact Hnd).
  apply pall_all_ok. clear Hnd. unfold from_json_items.
  induction ms as [|[k v] r IH]; simpl; [constructor|].
  destruct (field_by_name decoded k) as [fld|] eqn:F.
  - constructor.
    + destruct (H k v fld (or_introl eq_refl) F) as [x Hx]. rewrite Hx. reflexivity.
    + apply IH. intros k' v' fld' Hin. apply H. right. exact Hin.
  - apply IH. intros k' v' fld' Hin. apply H. right. exact Hin.
Qed.

Lemma alist_find_args : forall dec decoded ms k,
  NoDup (map fst ms) ->
  alist_find (args_of dec decoded ms) k =
  match find_member k ms with
  | Some v => match field_by_name decoded k with
              | Some fld => Some (dec_val (dec (f_type fld) v))
              | None => None end
  | None => None
  end.
Proof.
  induction ms as [|[k' v'] r IH]; simpl; intros k Hnd; [reflexivity|].
  inversion Hnd as [|? ? Hni Hnd']; subst.
  destruct (String.eqb k' k) eqn:E.
  - apply String.eqb_eq in E. subst k'.
    destruct (field_by_name decoded k) as [fld|] eqn:F; simpl.
    + rewrite seqb_refl. reflexivity.
    + rewrite IH by exact Hnd'.
      assert (N : find_member k r = None) by (apply find_member_None; exact Hni). rewrite N. reflexivity.
  - destruct (field_by_name decoded k') as [fld|] eqn:F; simpl.
    + unfold seqb. rewrite E. apply IH. exact Hnd'.
    + apply IH. exact Hnd'.
Qed.

(* ---------- small facts ---------- *)
Lemma is_pnone_false : forall x, x <> PNone -> is_pnone x = false.
Proof. destruct x; intro H; try reflexivity. exfalso. apply H. reflexivity. Qed.
Lemma is_pnone_true : forall x, is_pnone x = true -> x = PNone.
Proof. destruct x; simpl; intro H; try discriminate. reflexivity. Qed.

Lemma py_encode_praw : forall j, py_encode (praw j) = j.
Proof. destruct j; reflexivity. Qed.
Lemma praw_pnone : forall j, praw j = PNone -> j = JNull.
Proof. destruct j; simpl; intro H; try discriminate. reflexivity. Qed.

Lemma le_null_u_to_null : forall a, le_null_u a JNull = true -> a = JNull.
Proof. destruct a; simpl; intro H; try discriminate. reflexivity. Qed.

Lemma py_lit_of_lit_json : forall d c, lit_json d = Some c -> py_lit d = POk (praw c).
Proof.
  unfold lit_json, py_lit. intros d c H. destruct (py_lit_json d); try discriminate. inversion H; subst. reflexivity.
Qed.

Lemma combine_fields : forall (fs : list field) (g : field -> pval),
  combine (combine (map (@f_name ty) fs) (map (@f_required ty) fs)) (map g fs) =
  map (fun fld => (f_name fld, f_required fld, g fld)) fs.
Proof. induction fs as [|f r IH]; simpl; intro g; [reflexivity|]. rewrite IH. reflexivity. Qed.

Lemma emitted_fields : forall (fs : list field) (g : field -> pval) k,
  emitted (map (fun fld => (f_name fld, f_required fld, g fld)) fs) k =
  match field_by_name fs k with
  | Some fld => if f_required fld then Some (py_encode (g fld))
                else if is_pnone (g fld) then None else Some (py_encode (g fld))
  | None => None
  end.
Proof.
  unfold emitted, field_by_name. induction fs as [|f r IH]; simpl; intros g k; [reflexivity|].
  destruct (seqb (f_name f) k); [reflexivity | apply IH].
Qed.

(* ---------- well-formedness of what the encoder prints ---------- *)
Lemma NoDup_str_nodup : forall l, NoDup l -> str_nodup l = true.
Proof.
  induction l as [|x r IH]; simpl; intro H; [reflexivity|]. inversion H; subst.
  apply andb_true_iff. split; [apply negb_true_iff; apply str_in_false; assumption | apply IH; assumption].
Qed.

Lemma json_wf_obj_intro : forall ms, NoDup (map fst ms) -> (forall k v, In (k, v) ms -> json_wf v = true) ->
  json_wf (JObj ms) = true.
Proof.
  intros ms Hnd Hv. simpl. apply andb_true_iff. split; [apply NoDup_str_nodup; exact Hnd|].
  apply forallb_forall. intros [k v] Hin. simpl. apply (Hv k v Hin).
Qed.

Lemma obj_keys_nodup : forall fs, NoDup (map (fun e : string * bool * pval => fst (fst e)) fs) ->
  NoDup (map fst (obj_req fs ++ obj_opt fs)).
Proof.
  induction fs as [|[[n b] x] r IH]; simpl; intro H; [constructor|].
  inversion H as [|? ? Hni Hnd]; subst. specialize (IH Hnd).
  assert (Nin : ~ In n (map fst (obj_req r ++ obj_opt r))).
  { rewrite map_app. intro F. apply in_app_or in F. destruct F as [F|F]; apply Hni; [apply obj_req_keys | apply obj_opt_keys]; exact F. }
  destruct b.
  - simpl. constructor; assumption.
  - destruct x; try exact IH;
      (rewrite map_app; simpl;
       apply (proj2 (NoDup_Add (Add_app n (map fst (obj_req r)) (map fst (obj_opt r)))));
       rewrite <- map_app; split; [exact IH | exact Nin]).
Qed.

Lemma obj_vals : forall fs k e, In (k, e) (obj_req fs ++ obj_opt fs) -> exists b x, In (k, b, x) fs /\ e = py_encode x.
Proof.
  intros fs k e H. apply in_app_or in H. destruct H as [H|H].
  - induction fs as [|[[n b] x] r IH]; simpl in *; [contradiction|]. destruct b; simpl in H.
    + destruct H as [H|H]; [inversion H; subst; exists true, x; split; [left; reflexivity | reflexivity]|].
      destruct (IH H) as [b' [x' [A B]]]. exists b', x'. split; [right; exact A | exact B].
    + destruct (IH H) as [b' [x' [A B]]]. exists b', x'. split; [right; exact A | exact B].
  - induction fs as [|[[n b] x] r IH]; simpl in *; [contradiction|]. destruct b.
    + destruct (IH H) as [b' [x' [A B]]]. exists b', x'. split; [right; exact A | exact B].
    + destruct x; simpl in H;
        try (destruct H as [H|H];
             [ inversion H; subst; eexists false, _; split; [left; reflexivity | reflexivity]
             | destruct (IH H) as [b' [x' [A B]]]; exists b', x'; split; [right; exact A | exact B] ]).
      destruct (IH H) as [b' [x' [A B]]]. exists b', x'. split; [right; exact A | exact B].
Qed.

Lemma pall_inv : forall {A} (l : list (pres A)) vs, pall l = POk vs -> Forall2 (fun r v => r = POk v) l vs.
Proof.
  induction l as [|x r IH]; simpl; intros vs H.
  - inversion H. constructor.
  - destruct x as [a|w|w|w]; destruct (pall r) as [l'|w'|w'|w']; try discriminate.
    inversion H; subst. constructor; [reflexivity | apply IH; reflexivity].
Qed.

(* a literal never contains an object *)
Lemma py_lit_json_wf : forall d j, py_lit_json d = POk j -> json_wf j = true.
Proof.
  fix IH 1. intros d j H. destruct d as [|b|gt z|gt r|s|l|kvs|gt r]; simpl in H; try (inversion H; reflexivity); try discriminate.
  - destruct (seqb gt "json.Number"); [inversion H; reflexivity|].
    destruct (parse_decimal r) as [[m e]|]; [inversion H; reflexivity | discriminate].
  - destruct (pall (map py_lit_json l)) as [js| | |] eqn:PA; try discriminate. inversion H; subst j.
    apply pall_inv in PA. simpl. clear H.
    revert js PA. induction l as [|x r IHl]; intros js PA; inversion PA; subst; [reflexivity|].
    simpl. rewrite (IH x _ H1). simpl. apply IHl. assumption.
Qed.

Lemma const_json_wf : forall pctx t c, const_json pctx t = Some c -> json_wf c = true.
Proof.
  intros pctx t c H. unfold const_json, lit_json in H.
  destruct t; try discriminate.
  - destruct (locate_object pctx pkg name); [|discriminate]. destruct (o_type o); try discriminate.
    destruct (find (fun ev => dyn_eqb (ev_value ev) value) vs); [|discriminate].
    destruct (py_lit_json (ev_value e)) eqn:E; try discriminate. inversion H; subst. apply (py_lit_json_wf _ _ E).
  - destruct (py_lit_json value) eqn:E; try discriminate. inversion H; subst. apply (py_lit_json_wf _ _ E).
Qed.

(* ---------- the class case ---------- *)
Section ClassCase.
  Variable pctx : schemas.
  Variable dec : string -> ty -> json -> pres pval.
  Variable valid safe : string -> ty -> json -> bool.

  Definition member_ok (p : string) (t : ty) (v : json) : Prop :=
    valid p t v = true -> safe p t v = true ->
    exists x, dec p t v = POk x /\ le_null_u v (py_encode x) = true /\ (v <> JNull -> x <> PNone) /\
              json_wf (py_encode x) = true.

  Hypothesis Hnull : forall p t, recursing pctx t = false -> dec p t JNull = POk PNone.

  Definition field_value (p : string) (ms : list (string * json)) (fld : field) : pval :=
    if is_const_field (f_type fld)
    then match const_json pctx (f_type fld) with Some c => praw c | None => PNone end
    else match find_member (f_name fld) ms with
         | Some v => dec_val (dec p (f_type fld) v)
         | None => PNone
         end.

  Lemma class_case : forall p n sfs ms,
    NoDup (map fst ms) ->
    class_valid pctx valid p sfs (JObj ms) = true ->
    class_safe pctx safe p sfs (JObj ms) = true ->
    (forall k v, In (k, v) ms -> forall t, member_ok p t v) ->
    exists x, class_from_json pctx dec p n sfs (JObj ms) = POk x /\
              le_null_u (JObj ms) (py_encode x) = true /\ x <> PNone /\ json_wf (py_encode x) = true.
  Proof.
    intros p n sfs ms Hndm Hv Hs HIH.
    unfold class_valid in Hv. apply andb_true_iff in Hv. destruct Hv as [Hv Hreq]. apply andb_true_iff in Hv. destruct Hv as [Hndf Hmem].
    apply str_nodup_NoDup in Hndf.
    unfold class_safe in Hs. apply andb_true_iff in Hs. destruct Hs as [Smem Sabs].
    rewrite forallb_forall in Hmem, Smem, Hreq, Sabs.
    (* what valid / safe say about one member *)
    assert (Mem : forall k v, In (k, v) ms ->
              exists fld, field_by_name sfs k = Some fld /\ In fld sfs /\ f_name fld = k /\
                (if is_const_field (f_type fld)
                 then exists c, const_json pctx (f_type fld) = Some c /\ le_null_u v c = true /\ v <> JNull
                 else (v = JNull /\ null_member_safe pctx (f_type fld) = true) \/
                      (v <> JNull /\ valid p (f_type fld) v = true /\ safe p (f_type fld) v = true))).
    { intros k v Hin. specialize (Hmem (k, v) Hin). specialize (Smem (k, v) Hin).
      unfold member_valid in Hmem. unfold member_safe in Smem. simpl in Hmem, Smem.
      destruct (field_by_name sfs k) as [fld|] eqn:F; [|discriminate].
      destruct (field_by_name_In _ _ _ F) as [F1 F2].
      exists fld. split; [reflexivity|]. split; [exact F1|]. split; [exact F2|].
      destruct (is_const_field (f_type fld)).
      - destruct (const_json pctx (f_type fld)) as [c|]; [|discriminate].
        apply andb_true_iff in Hmem. destruct Hmem as [M1 M2]. exists c. split; [reflexivity|]. split; [exact M1|].
        intro E. subst v. discriminate.
      - destruct v; try (right; split; [discriminate | split; assumption]).
        left. split; [reflexivity | exact Smem]. }
    (* decoded fields *)
    assert (Dec : forall k fld, field_by_name (decoded_fields sfs) k = Some fld ->
                    field_by_name sfs k = Some fld /\ is_const_field (f_type fld) = false).
    { intros k fld H. unfold decoded_fields in H. rewrite field_by_name_filter in H by exact Hndf.
      destruct (field_by_name sfs k) as [g|]; [|discriminate].
      destruct (is_const_field (f_type g)) eqn:C; simpl in H; [discriminate|]. inversion H; subst. split; [reflexivity | exact C]. }
    assert (DecOf : forall fld, In fld sfs -> is_const_field (f_type fld) = false ->
                      field_by_name (decoded_fields sfs) (f_name fld) = Some fld).
    { intros fld Hin C. unfold decoded_fields. rewrite field_by_name_filter by exact Hndf.
      rewrite (field_by_name_nodup sfs fld Hndf Hin). rewrite C. reflexivity. }
    (* every decoded member decodes *)
    assert (DecOk : forall k v fld, In (k, v) ms -> field_by_name (decoded_fields sfs) k = Some fld ->
                      exists x, dec p (f_type fld) v = POk x /\ le_null_u v (py_encode x) = true /\ (v <> JNull -> x <> PNone) /\
                                json_wf (py_encode x) = true).
    { intros k v fld Hin F. destruct (Dec k fld F) as [F1 C]. destruct (Mem k v Hin) as [g [G1 [G2 [G3 G4]]]].
      rewrite F1 in G1. inversion G1; subst g. rewrite C in G4.
      destruct G4 as [[E N]|[NE [V S]]].
      - subst v. unfold null_member_safe in N. apply andb_true_iff in N. destruct N as [N _].
        apply negb_true_iff in N. exists PNone. split; [apply Hnull; exact N|]. split; [reflexivity|]. split; [intro H; exfalso; apply H; reflexivity | reflexivity].
      - apply (HIH k v Hin (f_type fld)); assumption. }
    (* the arguments *)
    assert (Args : class_from_json pctx dec p n sfs (JObj ms) =
                   py_init pctx (py_fuel pctx) p n sfs (args_of (dec p) (decoded_fields sfs) ms)).
    { assert (PA : pall (from_json_args (dec p) (decoded_fields sfs) ms) = POk (args_of (dec p) (decoded_fields sfs) ms)).
      { apply from_json_args_ok; [exact Hndm|]. intros k v fld Hin F. destruct (DecOk k v fld Hin F) as [x [Hx _]]. exists x. exact Hx. }
      unfold class_from_json. destruct (decoded_fields sfs) as [|d0 dr] eqn:D.
      - f_equal. clear. induction ms as [|[k v] r IH]; simpl; [reflexivity | exact IH].
      - rewrite PA. reflexivity. }
    rewrite Args. unfold py_fuel. rewrite py_init_S.
    set (args := args_of (dec p) (decoded_fields sfs) ms).
    set (dflt_fn := py_default pctx (S (2 * count_objects pctx))).
    (* the value of every field *)
    assert (FV : forall fld, In fld sfs -> py_field_value pctx dflt_fn args fld = POk (field_value p ms fld)).
    { intros fld Hin. unfold field_value.
      assert (Present : is_const_field (f_type fld) = true -> exists v, In (f_name fld, v) ms).
      { intro C. specialize (Sabs fld Hin). apply orb_true_iff in Sabs. destruct Sabs as [S|S].
        - apply str_in_In in S. apply in_map_iff in S. destruct S as [[k v] [E1 E2]]. simpl in E1. subst k. exists v. exact E2.
        - unfold absent_member_safe in S. rewrite C in S. rewrite !andb_false_r in S. discriminate. }
      destruct (is_const_field (f_type fld)) eqn:C.
      - destruct (Present eq_refl) as [v Hv]. destruct (Mem _ _ Hv) as [g [G1 [G2 [G3 G4]]]].
        rewrite (field_by_name_nodup sfs fld Hndf Hin) in G1. inversion G1; subst g. rewrite C in G4.
        destruct G4 as [c [Hc _]]. rewrite Hc.
        unfold py_field_value. unfold const_json in Hc. unfold is_const_field in C.
        destruct (f_type fld) as [| | | | | | a cp cn cv | a k0 v0 cs | | |] eqn:FT; simpl in C; try discriminate.
        + destruct (locate_object pctx cp cn) as [o|]; [|discriminate].
          destruct (o_type o); try discriminate.
          destruct (find (fun ev => dyn_eqb (ev_value ev) cv) vs); [|discriminate].
          apply py_lit_of_lit_json. exact Hc.
        + simpl. rewrite orb_false_r in C. unfold is_concrete_scalar in C. rewrite C.
          apply py_lit_of_lit_json. exact Hc.
      - assert (NC : is_concrete_scalar (f_type fld) = false /\ is_constref (f_type fld) = false).
        { unfold is_const_field in C. apply orb_false_iff in C. exact C. }
        destruct NC as [NC1 NC2].
        assert (AF : alist_find args (f_name fld) =
                     match find_member (f_name fld) ms with
                     | Some v => Some (dec_val (dec p (f_type fld) v))
                     | None => None end).
        { unfold args. rewrite alist_find_args by exact Hndm. rewrite (DecOf fld Hin C). reflexivity. }
        unfold py_field_value. rewrite AF.
        destruct (f_type fld) as [| | | | | | a cp cn cv | | | |] eqn:FT; try (simpl in NC2; discriminate);
          rewrite <- FT in *; rewrite NC1.
        all: destruct (find_member (f_name fld) ms) as [v|] eqn:FM.
        all: try (apply find_member_In in FM; destruct (Mem _ _ FM) as [g [G1 [G2 [G3 G4]]]];
                  rewrite (field_by_name_nodup sfs fld Hndf Hin) in G1; inversion G1; subst g; rewrite C in G4;
                  destruct G4 as [[E N]|[NE [V S]]];
                  [ subst v; unfold null_member_safe in N;
                    apply andb_true_iff in N; destruct N as [N1 N3];
                    apply negb_true_iff in N1; rewrite (Hnull p _ N1); simpl;
                    destruct (is_complex_kind (f_type fld)) eqn:CK;
                    [ simpl in N3; apply andb_true_iff in N3; destruct N3 as [N3 N2];
                      unfold has_dflt in N2; apply negb_true_iff in N2; apply negb_false_iff in N2; rewrite N2, N3; reflexivity
                    | reflexivity ]
                  | destruct (HIH _ _ FM (f_type fld) V S) as [x [Hx [_ [Hnn _]]]]; rewrite Hx; simpl;
                    specialize (Hnn NE); destruct (is_complex_kind (f_type fld)); destruct x; try reflexivity;
                    exfalso; apply Hnn; reflexivity ]).
        all: specialize (Sabs fld Hin); apply orb_true_iff in Sabs; destruct Sabs as [S|S];
             [ apply str_in_In in S; apply find_member_None in FM; contradiction
             | unfold absent_member_safe in S;
               apply andb_true_iff in S; destruct S as [S S4]; apply andb_true_iff in S; destruct S as [S S3];
               apply andb_true_iff in S; destruct S as [S1 S2];
               unfold has_dflt in S4; apply negb_true_iff in S4; apply negb_false_iff in S4; rewrite S4, S2; simpl;
               destruct (is_complex_kind (f_type fld)); reflexivity ]. }
    rewrite (pall_map_ok _ (field_value p ms) sfs FV). cbv beta iota delta [pbind].
    eexists. split; [reflexivity|].
    unfold mk_obj. rewrite combine_fields.
    set (fs' := map (fun fld => (f_name fld, f_required fld, field_value p ms fld)) sfs).
    assert (NDf : NoDup (map (fun e : string * bool * pval => fst (fst e)) fs')).
    { unfold fs'. rewrite map_map. simpl. exact Hndf. }
    split; [|split; [discriminate|]].
    { rewrite py_encode_obj. rewrite le_null_u_obj.
    apply andb_true_iff. split.
    - apply le_members_intro. intros k a Hin. rewrite (find_member_obj fs' k NDf). unfold fs'. rewrite emitted_fields.
      destruct (Mem k a Hin) as [fld [F1 [F2 [F3 F4]]]]. rewrite F1. unfold field_value.
      destruct (is_const_field (f_type fld)) eqn:C.
      + destruct F4 as [c [Hc [Hle Hnn]]]. rewrite Hc. rewrite py_encode_praw.
        destruct (f_required fld); [exact Hle|].
        destruct (is_pnone (praw c)) eqn:PN; [|exact Hle].
        apply is_pnone_true in PN. apply praw_pnone in PN. subst c. apply le_null_u_to_null in Hle. contradiction.
      + rewrite F3. rewrite (find_member_nodup ms k a Hndm Hin).
        destruct F4 as [[E N]|[NE [V S]]].
        * subst a. unfold null_member_safe in N. apply andb_true_iff in N. destruct N as [N _].
          apply negb_true_iff in N. rewrite (Hnull p _ N). simpl. destruct (f_required fld); reflexivity.
        * destruct (HIH k a Hin (f_type fld) V S) as [x [Hx [Hle [Hnn _]]]]. rewrite Hx. simpl.
          rewrite (is_pnone_false x (Hnn NE)). destruct (f_required fld); exact Hle.
    - apply forallb_forall. intros [k e] Hin. simpl. apply str_in_In.
      assert (Hk : In k (map fst (obj_req fs' ++ obj_opt fs'))) by (apply in_map_iff; exists (k, e); split; [reflexivity | exact Hin]).
      destruct (emitted_keys fs' k Hk) as [b [x [Hfx Hc]]].
      unfold fs' in Hfx. apply in_map_iff in Hfx. destruct Hfx as [fld [E Hfld]]. inversion E; subst k b x.
      destruct Hc as [Hc|Hc].
      + specialize (Hreq fld Hfld). rewrite Hc in Hreq. simpl in Hreq. apply str_in_In. exact Hreq.
      + specialize (Sabs fld Hfld). apply orb_true_iff in Sabs. destruct Sabs as [S|S]; [apply str_in_In; exact S|].
        unfold absent_member_safe in S. apply andb_true_iff in S. destruct S as [S _]. apply andb_true_iff in S. destruct S as [_ S3].
        apply negb_true_iff in S3. unfold field_value in Hc. rewrite S3 in Hc.
        destruct (find_member (f_name fld) ms) as [v|] eqn:FM; [|discriminate].
        apply find_member_In in FM. apply in_map_iff. exists (f_name fld, v). split; [reflexivity | exact FM].
    }
    { rewrite py_encode_obj. apply json_wf_obj_intro; [apply obj_keys_nodup; exact NDf|].
      intros k e Hin. destruct (obj_vals fs' k e Hin) as [b [x [Hfx He]]]. subst e.
      unfold fs' in Hfx. apply in_map_iff in Hfx. destruct Hfx as [fld [E Hfld]]. inversion E; subst k b x.
      unfold field_value. destruct (is_const_field (f_type fld)) eqn:C.
      - destruct (const_json pctx (f_type fld)) as [c|] eqn:CJ; [|reflexivity].
        rewrite py_encode_praw. apply (const_json_wf _ _ _ CJ).
      - destruct (find_member (f_name fld) ms) as [v|] eqn:FM; [|reflexivity].
        apply find_member_In in FM. destruct (Mem _ _ FM) as [g [G1 [G2 [G3 G4]]]].
        rewrite (field_by_name_nodup sfs fld Hndf Hfld) in G1. inversion G1; subst g. rewrite C in G4.
        destruct G4 as [[E' N]|[NE [V S]]].
        + subst v. unfold null_member_safe in N. apply andb_true_iff in N. destruct N as [N _].
          apply negb_true_iff in N. rewrite (Hnull p _ N). reflexivity.
        + destruct (HIH _ _ FM (f_type fld) V S) as [x [Hx [_ [_ Hw]]]]. rewrite Hx. exact Hw. }
  Qed.
End ClassCase.

(* ---------- the six shapes fromJSONForType distinguishes ---------- *)
Inductive shape :=
| ShClass (p n : string) (sfs : list field)
| ShBad
| ShArr (et : ty)
| ShMap (vt : ty)
| ShDisj (dj : disj)
| ShRaw.

Definition shape_of (pctx : schemas) (t : ty) : shape :=
  match t, view pctx t with
  | TRef _ p n, TStruct _ _ sfs => ShClass p n sfs
  | _, TBad _ _ => ShBad
  | _, TArray _ et => ShArr et
  | _, TMap _ _ vt => ShMap vt
  | _, TDisj _ dj => ShDisj dj
  | _, _ => ShRaw
  end.

Lemma py_from_json_shape : forall pctx cur t j,
  py_from_json pctx cur t j =
  if nested_maps pctx t then PUnm "map of maps of non-scalars (shadowed comprehension variable)" else
  match shape_of pctx t with
  | ShClass p n sfs =>
      match struct_fields pctx p n with
      | Some _ => class_from_json pctx (py_from_json pctx) p n sfs j
      | None => PUnm "reference to an alias of a struct"
      end
  | ShBad => PUnm "reference cycle or bad type"
  | ShArr et =>
      if is_scalar_kind et then POk (praw j) else
      match j with
      | JArr l => pbind (pall (map (fun x => py_from_json pctx cur et x) l)) (fun vs => POk (PList vs))
      | JNull | JNum _ _ | JBool _ => PExc "TypeError: not iterable"
      | _ => PUnm "iteration over a string or a dict"
      end
  | ShMap vt =>
      if is_scalar_kind vt then POk (praw j) else
      match j with
      | JObj ms =>
          pbind (pall (map (fun kv => pbind (py_from_json pctx cur vt (snd kv)) (fun x => POk (fst kv, x))) ms))
                (fun kvs => POk (dict_of kvs))
      | _ => PExc "AttributeError: no keys()"
      end
  | ShDisj dj =>
      if disj_empty_union dj then PSyntax "typing.Union[]" else
      if negb (disj_uses_mapping dj) then POk (praw j) else
      match j with
      | JObj ms =>
          match last_member (d_disc dj) ms with
          | None => PExc "KeyError: discriminator"
          | Some dv =>
              match disj_target dj dv with
              | None => match dv with
                        | JStr _ | JNum _ _ | JBool _ | JNull => PExc "KeyError: unknown discriminator"
                        | _ => PExc "TypeError: unhashable"
                        end
              | Some n =>
                  match struct_fields pctx (pkg_of_branch dj cur n) n with
                  | Some sfs => class_from_json pctx (py_from_json pctx) (pkg_of_branch dj cur n) n sfs j
                  | None => PUnm "mapping target is not a class"
                  end
              end
          end
      | JNull | JNum _ _ | JBool _ => PExc "TypeError: not subscriptable"
      | _ => PUnm "subscript of a string or a list"
      end
  | ShRaw => POk (praw j)
  end.
Proof.
  intros pctx cur t j. unfold shape_of.
  destruct j; destruct t; cbn [py_from_json]; destruct (nested_maps pctx _); try reflexivity;
    destruct (view pctx _); reflexivity.
Qed.

Lemma py_valid_shape : forall pctx cur t j,
  py_valid pctx cur t j =
  if nested_maps pctx t then true else
  match shape_of pctx t with
  | ShClass p n sfs => match struct_fields pctx p n with Some _ => class_valid pctx (py_valid pctx) p sfs j | None => false end
  | ShBad => false
  | ShArr et => if is_scalar_kind et then true else
                match j with JArr l => forallb (fun x => py_valid pctx cur et x) l | _ => false end
  | ShMap vt => if is_scalar_kind vt then true else
                match j with JObj ms => forallb (fun kv => py_valid pctx cur vt (snd kv)) ms | _ => false end
  | ShDisj dj =>
      if negb (disj_discriminated dj) then true else
      match j with
      | JObj ms =>
          match select_class dj ms with
          | Some n => match struct_fields pctx (pkg_of_branch dj cur n) n with
                      | Some sfs => class_valid pctx (py_valid pctx) (pkg_of_branch dj cur n) sfs j
                      | None => false end
          | None => false
          end
      | _ => false
      end
  | ShRaw => true
  end.
Proof.
  intros pctx cur t j. unfold shape_of, py_view.
  destruct j; destruct t; cbn [py_valid]; destruct (nested_maps pctx _); try reflexivity;
    unfold py_view; destruct (view pctx _); reflexivity.
Qed.

Lemma py_rt_safe_shape : forall pctx cur t j,
  py_rt_safe pctx cur t j =
  if nested_maps pctx t then false else
  match shape_of pctx t with
  | ShClass p n sfs => class_safe pctx (py_rt_safe pctx) p sfs j
  | ShBad => true
  | ShArr et => if is_scalar_kind et then true else
                match j with JArr l => forallb (fun x => elem_safe pctx (py_rt_safe pctx cur) et x) l | _ => true end
  | ShMap vt => if is_scalar_kind vt then true else
                match j with JObj ms => forallb (fun kv => elem_safe pctx (py_rt_safe pctx cur) vt (snd kv)) ms | _ => true end
  | ShDisj dj =>
      if disj_empty_union dj then false else
      if negb (disj_discriminated dj) then true else
      match j with
      | JObj ms =>
          match select_class dj ms with
          | Some n => match struct_fields pctx (pkg_of_branch dj cur n) n with
                      | Some sfs => class_safe pctx (py_rt_safe pctx) (pkg_of_branch dj cur n) sfs j
                      | None => true end
          | None => true
          end
      | _ => true
      end
  | ShRaw => true
  end.
Proof.
  intros pctx cur t j. unfold shape_of, py_view.
  destruct j; destruct t; cbn [py_rt_safe]; destruct (nested_maps pctx _); try reflexivity;
    unfold py_view; destruct (view pctx _); reflexivity.
Qed.

Lemma recursing_shape : forall pctx t, recursing pctx t = false ->
  nested_maps pctx t = false /\
  match shape_of pctx t with
  | ShClass _ _ _ | ShBad => False
  | ShArr et | ShMap et => is_scalar_kind et = true
  | ShDisj dj => disj_uses_mapping dj = false /\ disj_empty_union dj = false
  | ShRaw => True
  end.
Proof.
  intros pctx t H. unfold recursing in H. apply orb_false_iff in H. destruct H as [H1 H2]. split; [exact H1|].
  unfold shape_of, py_view, disj_discriminated in *.
  destruct t; destruct (view pctx _); simpl in *; try discriminate; try exact I;
    try (apply negb_false_iff in H2; exact H2); try (apply orb_false_iff in H2; exact H2).
Qed.

Lemma from_json_null : forall pctx p t, recursing pctx t = false -> py_from_json pctx p t JNull = POk PNone.
Proof.
  intros pctx p t H. destruct (recursing_shape pctx t H) as [H1 H2].
  rewrite py_from_json_shape. rewrite H1.
  destruct (shape_of pctx t); try contradiction; try (rewrite H2; reflexivity); try reflexivity.
  destruct H2 as [A B]. rewrite B, A. reflexivity.
Qed.

(* ---------- maps ---------- *)
Lemma pdict_set_new : forall l k v, ~ In k (map fst l) -> pdict_set l k v = (l ++ [(k, v)])%list.
Proof.
  induction l as [|[k' v'] r IH]; simpl; intros k v H; [reflexivity|].
  destruct (seqb k' k) eqn:E.
  - apply seqb_eq in E. exfalso. apply H. left. exact E.
  - rewrite IH; [reflexivity|]. intro H'. apply H. right. exact H'.
Qed.

Lemma dict_of_nodup : forall kvs, NoDup (map fst kvs) -> dict_of kvs = PDict kvs.
Proof.
  intros kvs Hnd. unfold dict_of. f_equal.
  assert (G : forall acc, NoDup (map fst (acc ++ kvs)%list) ->
               fold_left (fun acc kv => pdict_set acc (fst kv) (snd kv)) kvs acc = (acc ++ kvs)%list).
  { clear Hnd. induction kvs as [|[k v] r IH]; simpl; intros acc H; [rewrite app_nil_r; reflexivity|].
    rewrite pdict_set_new.
    - rewrite IH; [rewrite <- app_assoc; reflexivity|]. rewrite <- app_assoc. exact H.
    - rewrite map_app in H. simpl in H. apply NoDup_remove_2 in H. intro H'. apply H. apply in_or_app. left. exact H'. }
  apply (G []). exact Hnd.
Qed.

Lemma json_wf_obj : forall ms, json_wf (JObj ms) = true ->
  NoDup (map fst ms) /\ forall k v, In (k, v) ms -> json_wf v = true.
Proof.
  intros ms H. simpl in H. apply andb_true_iff in H. destruct H as [H1 H2]. split.
  - apply str_nodup_NoDup. exact H1.
  - intros k v Hin. rewrite forallb_forall in H2. apply (H2 (k, v) Hin).
Qed.

(* ---------- the main induction ---------- *)
Definition rt_ok (pctx : schemas) (j : json) : Prop :=
  forall cur t, json_wf j = true -> py_valid pctx cur t j = true -> py_rt_safe pctx cur t j = true ->
  exists v, py_from_json pctx cur t j = POk v /\ le_null_u j (py_encode v) = true /\ (j <> JNull -> v <> PNone) /\
            json_wf (py_encode v) = true.

Lemma raw_ok : forall j, json_wf j = true ->
  exists v, POk (praw j) = POk v /\ le_null_u j (py_encode v) = true /\ (j <> JNull -> v <> PNone) /\
            json_wf (py_encode v) = true.
Proof.
  intros j W. exists (praw j). split; [reflexivity|]. split; [|split].
  - rewrite py_encode_praw. apply le_null_u_refl. exact W.
  - intros H E. apply praw_pnone in E. contradiction.
  - rewrite py_encode_praw. exact W.
Qed.

(* a class built from an object whose members satisfy rt_ok *)
Lemma class_ok : forall pctx p n sfs ms,
  json_wf (JObj ms) = true ->
  Forall (fun kv => rt_ok pctx (snd kv)) ms ->
  class_valid pctx (py_valid pctx) p sfs (JObj ms) = true ->
  class_safe pctx (py_rt_safe pctx) p sfs (JObj ms) = true ->
  exists x, class_from_json pctx (py_from_json pctx) p n sfs (JObj ms) = POk x /\
            le_null_u (JObj ms) (py_encode x) = true /\ x <> PNone /\ json_wf (py_encode x) = true.
Proof.
  intros pctx p n sfs ms W HF V S. destruct (json_wf_obj ms W) as [Hnd Hw].
  apply (class_case pctx (py_from_json pctx) (py_valid pctx) (py_rt_safe pctx)); try assumption.
  - intros p0 t H. apply from_json_null. exact H.
  - intros k v Hin t. unfold member_ok. intros V' S'. rewrite Forall_forall in HF.
    apply (HF (k, v) Hin p t (Hw k v Hin) V' S').
Qed.

Ltac solve_simple W V :=
  first
  [ apply raw_ok; exact W
  | match type of V with
    | context [struct_fields ?c ?p ?n] => destruct (struct_fields c p n); simpl in V; discriminate
    end
  | match goal with
    | |- context [is_scalar_kind ?e] => destruct (is_scalar_kind e); [apply raw_ok; exact W | simpl in V; discriminate]
    end
  | match goal with
    | |- context [disj_empty_union ?d] =>
        destruct (disj_empty_union d); [discriminate|];
        unfold disj_discriminated in *; destruct (disj_uses_mapping d);
        [simpl in V; discriminate | cbv beta iota delta [negb]; apply raw_ok; exact W]
    end ].

Theorem rt_ok_all : forall pctx j, rt_ok pctx j.
Proof.
  intros pctx j. induction j using json_ind'; unfold rt_ok; intros cur t W V S;
    rewrite py_valid_shape in V; rewrite py_rt_safe_shape in S; rewrite py_from_json_shape;
    destruct (nested_maps pctx t); try discriminate;
    destruct (shape_of pctx t) as [p n sfs| |et|vt|dj|]; try discriminate;
    try (solve_simple W V).
  - (* array of non-scalars *)
    destruct (is_scalar_kind et) eqn:SK; [apply raw_ok; exact W|].
    rewrite forallb_forall in V, S. simpl in W. rewrite forallb_forall in W.
    assert (G : forall x, In x l -> exists v, py_from_json pctx cur et x = POk v /\ le_null_u x (py_encode v) = true /\
                                             json_wf (py_encode v) = true).
    { intros x Hin. rewrite Forall_forall in H. specialize (S x Hin). unfold elem_safe in S. apply andb_true_iff in S. destruct S as [_ S].
      destruct (H x Hin cur et (W x Hin) (V x Hin) S) as [v [A [B [_ Wv]]]]. exists v. split; [assumption|]. split; assumption. }
    clear H V S W.
    assert (G' : exists vs, pall (map (fun x => py_from_json pctx cur et x) l) = POk vs /\
                            le_list le_null_u l (map py_encode vs) = true /\ forallb json_wf (map py_encode vs) = true).
    { induction l as [|x r IH]; simpl.
      - exists []. split; [reflexivity|]. split; reflexivity.
      - destruct (G x (or_introl eq_refl)) as [v [A [B Wv]]]. rewrite A.
        destruct IH as [vs [C [D Ws]]]; [intros y Hy; apply G; right; exact Hy|].
        rewrite C. exists (v :: vs). split; [reflexivity|]. simpl. rewrite B, D, Wv, Ws. split; reflexivity. }
    destruct G' as [vs [C [D Ws]]]. rewrite C. cbv beta iota delta [pbind]. exists (PList vs). split; [reflexivity|].
    change (py_encode (PList vs)) with (JArr (map py_encode vs)). split; [|split].
    + rewrite le_null_u_arr. exact D.
    + intros _ E. discriminate.
    + exact Ws.
  - (* object: class *)
    destruct (struct_fields pctx p n); [|discriminate].
    destruct (class_ok pctx p n sfs ms W H V S) as [x [A [B [C Wx]]]]. exists x. split; [exact A|]. split; [exact B|].
    split; [intros _; exact C | exact Wx].
  - (* map of non-scalars *)
    destruct (is_scalar_kind vt) eqn:SK; [apply raw_ok; exact W|].
    destruct (json_wf_obj ms W) as [Hnd Hw].
    rewrite forallb_forall in V, S.
    assert (G : forall k x, In (k, x) ms -> exists v, py_from_json pctx cur vt x = POk v /\
                                                   (le_null_u x (py_encode v) = true /\ json_wf (py_encode v) = true)).
    { intros k x Hin. rewrite Forall_forall in H. specialize (S (k, x) Hin). unfold elem_safe in S. apply andb_true_iff in S. destruct S as [_ S].
      destruct (H (k, x) Hin cur vt (Hw k x Hin) (V (k, x) Hin) S) as [v [A [B [_ Wv]]]]. exists v. split; [assumption|]. split; assumption. }
    clear H V S W Hw.
    assert (G' : exists kvs, pall (map (fun kv => pbind (py_from_json pctx cur vt (snd kv)) (fun x => POk (fst kv, x))) ms) = POk kvs /\
                             map fst kvs = map fst ms /\
                             (forall k a, In (k, a) ms -> exists v, In (k, v) kvs /\ le_null_u a (py_encode v) = true) /\
                             (forall k v, In (k, v) kvs -> json_wf (py_encode v) = true)).
    { clear Hnd. induction ms as [|[k x] r IH]; simpl.
      - exists []. split; [reflexivity|]. split; [reflexivity|]. split; intros k a F; contradiction.
      - destruct (G k x (or_introl eq_refl)) as [v [A [B Wv]]]. rewrite A. simpl.
        destruct IH as [kvs [C [D [E Wk]]]]; [intros k' y Hy; apply (G k'); right; exact Hy|].
        rewrite C. exists ((k, v) :: kvs). split; [reflexivity|]. split; [simpl; rewrite D; reflexivity|]. split.
        + intros k' a [Heq|Hin].
          * inversion Heq; subst. exists v. split; [left; reflexivity | exact B].
          * destruct (E k' a Hin) as [v' [F1 F2]]. exists v'. split; [right; exact F1 | exact F2].
        + intros k' v' [Heq|Hin]; [inversion Heq; subst; exact Wv | apply (Wk k' v' Hin)]. }
    destruct G' as [kvs [C [D [E Wk]]]]. rewrite C. cbv beta iota delta [pbind].
    assert (Hnd' : NoDup (map fst kvs)) by (rewrite D; exact Hnd).
    rewrite (dict_of_nodup kvs Hnd'). exists (PDict kvs). split; [reflexivity|].
    change (py_encode (PDict kvs)) with (JObj (map (fun kv => (fst kv, py_encode (snd kv))) kvs)).
    split; [|split; [intros _ F; discriminate|]].
    2:{ apply json_wf_obj_intro; [rewrite map_map; simpl; exact Hnd'|].
        intros k e Hin. apply in_map_iff in Hin. destruct Hin as [[k' v'] [Heq Hin]]. simpl in Heq. inversion Heq as [[Hk He]].
        apply (Wk k' v' Hin). }
    rewrite le_null_u_obj. apply andb_true_iff. split.
    + apply le_members_intro. intros k a Hin. destruct (E k a Hin) as [v [F1 F2]].
      assert (FM : find_member k (map (fun kv => (fst kv, py_encode (snd kv))) kvs) = Some (py_encode v)).
      { apply find_member_nodup.
        - rewrite map_map. simpl. exact Hnd'.
        - apply in_map_iff. exists (k, v). split; [reflexivity | exact F1]. }
      rewrite FM. exact F2.
    + apply forallb_forall. intros [k e] Hin. simpl. apply str_in_In. rewrite <- D.
      apply in_map_iff in Hin. destruct Hin as [[k' v'] [Heq Hin]]. simpl in Heq. inversion Heq as [[Hk He]].
      apply in_map_iff. exists (k', v'). split; [exact Hk | exact Hin].
  - (* object: discriminated union *)
    destruct (disj_empty_union dj); [discriminate|].
    unfold disj_discriminated in *. destruct (disj_uses_mapping dj); [|cbv beta iota delta [negb]; apply raw_ok; exact W].
    cbv beta iota delta [negb] in *.
    unfold select_class in V, S.
    destruct (last_member (d_disc dj) ms) as [dv|] eqn:LM; [|discriminate].
    destruct dv; try discriminate.
    destruct (seqb s catch_all) eqn:CA; [discriminate|].
    destruct (alist_find (d_mapping dj) s) as [n|] eqn:AF; [|discriminate].
    unfold disj_target. rewrite CA, AF.
    destruct (struct_fields pctx (pkg_of_branch dj cur n) n) as [sfs|]; [|discriminate].
    destruct (class_ok pctx (pkg_of_branch dj cur n) n sfs ms W H V S) as [x [A [B [C Wx]]]].
    exists x. split; [exact A|]. split; [exact B|]. split; [intros _; exact C | exact Wx].
Qed.

(* ---------- C11, part 1 ---------- *)
Theorem py_roundtrip_partial : forall pctx p n d,
  json_wf d = true -> py_valid_object pctx p n d = true -> py_rt_safe_object pctx p n d = true ->
  py_roundtrip_holds pctx p n d = true.
Proof.
  intros pctx p n d W V S. unfold py_valid_object in V. apply andb_true_iff in V. destruct V as [V V2].
  apply andb_true_iff in V. destruct V as [V0 V1]. unfold is_class in V0.
  unfold py_roundtrip_holds, py_roundtrip, py_decode_object.
  destruct (struct_fields pctx p n); [|discriminate].
  destruct (rt_ok_all pctx d p (TRef attrs0 p n) W V2 S) as [v [A [B _]]].
  rewrite A. exact B.
Qed.

(* the output has no duplicate member names either *)
Theorem py_roundtrip_wf : forall pctx p n d e,
  json_wf d = true -> py_valid_object pctx p n d = true -> py_rt_safe_object pctx p n d = true ->
  py_roundtrip pctx p n d = POk e -> le_null_u d e = true /\ json_wf e = true.
Proof.
  intros pctx p n d e W V S R. unfold py_valid_object in V. apply andb_true_iff in V. destruct V as [V V2].
  apply andb_true_iff in V. destruct V as [V0 V1]. unfold is_class in V0.
  unfold py_roundtrip, py_decode_object in R.
  destruct (struct_fields pctx p n); [|discriminate].
  destruct (rt_ok_all pctx d p (TRef attrs0 p n) W V2 S) as [v [A [B [_ Wv]]]].
  rewrite A in R. simpl in R. inversion R; subst e. split; assumption.
Qed.

(* the full statement is false: an optional struct given as an explicit null (accepted by the schema, and
   allowed by the property to be omitted) makes from_json raise *)
Definition wit_ctx : schemas :=
  [mkSchema "w" {| m_kind := ""; m_variant := ""; m_identifier := "" |} "" (TBad attrs0 "")
     [("Inner", mkObject "Inner" [] (TStruct attrs0 [] [mkField "x" [] (TScalar attrs0 KInt64 DNil []) true]) "w" "Inner");
      ("Root", mkObject "Root" []
         (TStruct attrs0 []
            [mkField "id" [] (TScalar attrs0 KString DNil []) true;
             mkField "opt" [] (TRef {| nullable := true; dflt := DNil; hints := [] |} "w" "Inner") false;
             mkField "tags" [] (TArray {| nullable := true; dflt := DNil; hints := [] |} (TScalar attrs0 KString DNil [])) false])
         "w" "Root")]].

Definition wit_null_doc : json := JObj [("id", JStr "a"); ("opt", JNull)].

Lemma wit_null_valid : json_wf wit_null_doc = true /\ py_valid_object wit_ctx "w" "Root" wit_null_doc = true.
Proof. split; vm_compute; reflexivity. Qed.

Lemma wit_null_raises : py_roundtrip wit_ctx "w" "Root" wit_null_doc = PExc "TypeError: argument is not iterable".
Proof. vm_compute. reflexivity. Qed.

Theorem py_roundtrip_refuted :
  ~ (forall pctx p n d, json_wf d = true -> py_valid_object pctx p n d = true -> py_roundtrip_holds pctx p n d = true).
Proof.
  intro H. destruct wit_null_valid as [W V]. specialize (H wit_ctx "w" "Root" wit_null_doc W V).
  unfold py_roundtrip_holds in H. rewrite wit_null_raises in H. discriminate.
Qed.

Example c11_nonvacuous :
  exists pctx p n d, json_wf d = true /\ py_valid_object pctx p n d = true /\ py_rt_safe_object pctx p n d = true /\
                     json_depth d >= 2.
Proof.
  exists wit_ctx, "w", "Root", (JObj [("id", JStr "a"); ("opt", JObj [("x", JNum 1 0)]); ("tags", JArr [JStr "t"])]).
  split; [vm_compute; reflexivity|]. split; [vm_compute; reflexivity|]. split; [vm_compute; reflexivity|].
  vm_compute. lia.
Qed.

(* ---------- C11, part 2: Go and Python on the same wire ---------- *)
(* The Go context of the same schema (Go normal form: identical here) *)
Definition wit_gctx : schemas := wit_ctx.

Definition wire_statement : Prop :=
  forall ctx pctx p gn pn d,
    ctx_supported ctx = true -> json_wf d = true ->
    ir_valid_object ctx p gn d = true -> py_valid_object pctx p pn d = true ->
    same_wire_holds ctx pctx p gn pn d = true.

(* an optional array given as []: Go's omitempty drops it, Python keeps it *)
Definition wit_empty_doc : json := JObj [("id", JStr "a"); ("tags", JArr [])].

Lemma wit_empty_facts :
  ctx_supported wit_gctx = true /\ json_wf wit_empty_doc = true /\
  ir_valid_object wit_gctx "w" "Root" wit_empty_doc = true /\ py_valid_object wit_ctx "w" "Root" wit_empty_doc = true /\
  py_rt_safe_object wit_ctx "w" "Root" wit_empty_doc = true /\
  std_roundtrip wit_gctx "w" "Root" wit_empty_doc = GOk (JObj [("id", JStr "a")]) /\
  py_roundtrip wit_ctx "w" "Root" wit_empty_doc = POk (JObj [("id", JStr "a"); ("tags", JArr [])]).
Proof. repeat split; vm_compute; reflexivity. Qed.

Theorem py_go_same_wire_refuted : ~ wire_statement.
Proof.
  intro H. destruct wit_empty_facts as [A [B [C [D [_ [E F]]]]]].
  assert (G : same_wire_holds wit_gctx wit_ctx "w" "Root" "Root" wit_empty_doc = false) by (vm_compute; reflexivity).
  rewrite (H wit_gctx wit_ctx "w" "Root" "Root" wit_empty_doc A B C D) in G. discriminate.
Qed.

(* an optional constant that is absent: Python materialises it, Go leaves it out *)
Definition wit_const_ctx : schemas :=
  [mkSchema "w" {| m_kind := ""; m_variant := ""; m_identifier := "" |} "" (TBad attrs0 "")
     [("Root", mkObject "Root" []
         (TStruct attrs0 []
            [mkField "id" [] (TScalar attrs0 KString DNil []) true;
             mkField "kind" [] (TScalar {| nullable := true; dflt := DNil; hints := [] |} KString (DStr "k1") []) false])
         "w" "Root")]].

Lemma wit_const_facts :
  std_roundtrip wit_const_ctx "w" "Root" (JObj [("id", JStr "a")]) = GOk (JObj [("id", JStr "a")]) /\
  py_roundtrip wit_const_ctx "w" "Root" (JObj [("id", JStr "a")]) = POk (JObj [("id", JStr "a"); ("kind", JStr "k1")]) /\
  py_valid_object wit_const_ctx "w" "Root" (JObj [("id", JStr "a")]) = true /\
  py_rt_safe_object wit_const_ctx "w" "Root" (JObj [("id", JStr "a")]) = false.
Proof. repeat split; vm_compute; reflexivity. Qed.

(* What is proved: on the safe fragment Python's output is the document up to omitted null members.  Whenever
   Go's output is too (the conclusion of C01's go_roundtrip_nf_partial, here a premise: `le_null_u d g`), the two
   SDKs can differ only in the presence of members whose value in the document is null. *)
Definition agree_up_to_null_members (a b : json) : Prop := exists d, le_null_u d a = true /\ le_null_u d b = true.

Theorem py_go_same_wire_partial : forall pctx p pn d g,
  json_wf d = true -> py_valid_object pctx p pn d = true -> py_rt_safe_object pctx p pn d = true ->
  le_null_u d g = true ->
  exists e, py_roundtrip pctx p pn d = POk e /\ agree_up_to_null_members e g.
Proof.
  intros pctx p pn d g W V S G. pose proof (py_roundtrip_partial pctx p pn d W V S) as H.
  unfold py_roundtrip_holds in H. destruct (py_roundtrip pctx p pn d) as [e| | |]; try discriminate.
  exists e. split; [reflexivity|]. exists d. split; assumption.
Qed.

(* the two models agree outright on the witness-free part of the example schema *)
Example wire_agree_example :
  same_wire_holds wit_gctx wit_ctx "w" "Root" "Root"
    (JObj [("id", JStr "a"); ("opt", JObj [("x", JNum 1 0)]); ("tags", JArr [JStr "t"])]) = true.
Proof. vm_compute. reflexivity. Qed.
