(* C12, structural part: the ordered-map operations of the jenny, references of emitted documents
   resolve, every object is present under its own name, what is carried over. *)
From Coq Require Import List String ZArith Bool Ascii Lia.
From Cog Require Import Model.IR Model.Json Model.GoSemBase Model.JsonSchemaOut Proofs.TyInd.
Import ListNotations.
Local Open Scope list_scope.

(* ---------- strings ---------- *)
Lemma seqb_eq : forall a b, seqb a b = true <-> a = b.
Proof. intros; unfold seqb; apply String.eqb_eq. Qed.
Lemma seqb_neq : forall a b, seqb a b = false <-> a <> b.
Proof. intros; unfold seqb; apply String.eqb_neq. Qed.
Lemma seqb_refl : forall a, seqb a a = true.
Proof. intros; apply seqb_eq; reflexivity. Qed.

(* ---------- om_set / om_get ---------- *)
Section OM.
  Context {V : Type}.
  Implicit Types l : list (string * V).

  Lemma om_get_set_same : forall l k v, om_get (om_set l k v) k = Some v.
  Proof.
    induction l as [|[k' v'] r IH]; intros k v; simpl.
    - rewrite seqb_refl; reflexivity.
    - destruct (seqb k' k) eqn:E; simpl; rewrite E; auto.
  Qed.

  Lemma om_get_set_other : forall l k k' v, k <> k' -> om_get (om_set l k v) k' = om_get l k'.
  Proof.
    induction l as [|[k0 v0] r IH]; intros k k' v Hne; simpl.
    - destruct (seqb k k') eqn:E; auto. apply seqb_eq in E; contradiction.
    - destruct (seqb k0 k) eqn:E; simpl.
      + apply seqb_eq in E; subst k0. destruct (seqb k k') eqn:E2; auto.
        apply seqb_eq in E2; contradiction.
      + destruct (seqb k0 k') eqn:E2; auto.
  Qed.

  Lemma om_set_keys : forall l k v k', In k' (map fst (om_set l k v)) <-> k' = k \/ In k' (map fst l).
  Proof.
    induction l as [|[k0 v0] r IH]; intros k v k'; simpl.
    - split; intros [H|H]; auto; try contradiction.
    - destruct (seqb k0 k) eqn:E; simpl.
      + apply seqb_eq in E; subst k0. split; intros H.
        * destruct H; auto.
        * destruct H as [H|[H|H]]; auto.
      + rewrite IH. split; intros H.
        * destruct H as [H|[H|H]]; auto.
        * destruct H as [H|[H|H]]; auto.
  Qed.

  Lemma om_set_in : forall l k v k' v', In (k', v') (om_set l k v) -> (k' = k /\ v' = v) \/ In (k', v') l.
  Proof.
    induction l as [|[k0 v0] r IH]; intros k v k' v' H; simpl in *.
    - destruct H as [H|[]]; inversion H; auto.
    - destruct (seqb k0 k) eqn:E; simpl in H.
      + apply seqb_eq in E; subst k0. destruct H as [H|H]; [inversion H; auto | auto].
      + destruct H as [H|H]; auto. apply IH in H. destruct H; auto.
  Qed.

  Lemma om_get_in : forall l k v, om_get l k = Some v -> In (k, v) l.
  Proof.
    induction l as [|[k0 v0] r IH]; intros k v H; simpl in *; [discriminate|].
    destruct (seqb k0 k) eqn:E.
    - apply seqb_eq in E; subst; inversion H; auto.
    - right; auto.
  Qed.

  Lemma om_get_some_key : forall l k, In k (map fst l) -> exists v, om_get l k = Some v.
  Proof.
    induction l as [|[k0 v0] r IH]; intros k H; simpl in *; [contradiction|].
    destruct (seqb k0 k) eqn:E; eauto.
    destruct H as [H|H]; [subst; rewrite seqb_refl in E; discriminate | auto].
  Qed.

  Lemma om_get_key : forall l k v, om_get l k = Some v -> In k (map fst l).
  Proof. intros l k v H. apply om_get_in in H. apply in_map_iff. exists (k, v); auto. Qed.

  (* om_of : only members of the list survive, every key survives *)
  Lemma fold_om_set_in : forall (l acc : list (string * V)) k v,
      In (k, v) (fold_left (fun a kv => om_set a (fst kv) (snd kv)) l acc) -> In (k, v) acc \/ In (k, v) l.
  Proof.
    induction l as [|[k0 v0] r IH]; intros acc k v H; simpl in *; auto.
    apply IH in H. destruct H as [H|H]; auto.
    apply om_set_in in H. destruct H as [[-> ->]|H]; auto.
  Qed.
  Lemma om_of_in : forall (l : list (string * V)) k v, In (k, v) (om_of l) -> In (k, v) l.
  Proof. intros l k v H. apply fold_om_set_in in H. destruct H; [contradiction | auto]. Qed.

  Lemma fold_om_set_keys : forall (l acc : list (string * V)) k,
      In k (map fst (fold_left (fun a kv => om_set a (fst kv) (snd kv)) l acc)) <-> In k (map fst acc) \/ In k (map fst l).
  Proof.
    induction l as [|[k0 v0] r IH]; intros acc k; simpl.
    - tauto.
    - rewrite IH, om_set_keys. simpl. split; intros H; decompose [or] H; auto.
  Qed.

  (* with distinct keys every binding survives unchanged *)
  Lemma fold_om_set_get_notin : forall (l acc : list (string * V)) k,
      ~ In k (map fst l) -> om_get (fold_left (fun a kv => om_set a (fst kv) (snd kv)) l acc) k = om_get acc k.
  Proof.
    induction l as [|[k0 v0] r IH]; intros acc k Hn; simpl in *; auto.
    rewrite IH by tauto. apply om_get_set_other. intro; subst; tauto.
  Qed.
  Lemma om_of_get_nodup : forall (l : list (string * V)) k v, NoDup (map fst l) -> In (k, v) l -> om_get (om_of l) k = Some v.
  Proof.
    unfold om_of. intros l. generalize (@nil (string * V)).
    induction l as [|[k0 v0] r IH]; intros acc k v Hnd Hin; simpl in *; [contradiction|].
    inversion Hnd as [|? ? Hnotin Hnd']; subst.
    destruct Hin as [Hin|Hin].
    - inversion Hin; subst. rewrite fold_om_set_get_notin by assumption. apply om_get_set_same.
    - apply IH; assumption.
  Qed.
End OM.

(* ---------- emit_type does not look at nullability ---------- *)
Lemma has_hint_set_nullable : forall t b h, has_hint (set_nullable t b) h = has_hint t h.
Proof. intros t b h; destruct t; reflexivity. Qed.

Lemma emit_type_set_nullable : forall t b, emit_type (set_nullable t b) = emit_type t.
Proof.
  intros t b; destruct t; reflexivity.
Qed.

(* ---------- references of an emitted definition come from the type ---------- *)
Lemma in_flat_map_ex : forall A B (f : A -> list B) l y, In y (flat_map f l) <-> exists x, In x l /\ In y (f x).
Proof. intros; apply in_flat_map. Qed.

Lemma emit_refs : forall t r, In r (schema_refs (emit_type t)) -> exists p, In (p, r) (refs_of t).
Proof.
  induction t using ty_ind'; intros r Hr; simpl in *; try contradiction.
  - (* TDisj *)
    apply in_flat_map in Hr. destruct Hr as [b [Hb Hr]].
    apply in_map_iff in Hb. destruct Hb as [t0 [<- Ht0]].
    rewrite Forall_forall in H. destruct (H _ Ht0 _ Hr) as [p Hp].
    exists p. apply in_flat_map. eauto.
  - (* TArray *) auto.
  - (* TMap *) auto.
  - (* TStruct *)
    apply in_flat_map in Hr. destruct Hr as [[n [[ps de] df]] [Hnp Hr]]. simpl in Hr.
    apply om_of_in in Hnp. apply in_map_iff in Hnp. destruct Hnp as [f [Hf Hfin]].
    inversion Hf; subst. rewrite Forall_forall in H0.
    destruct (H0 _ Hfin _ Hr) as [p Hp]. exists p. apply in_flat_map. eauto.
  - (* TRef *) destruct Hr as [<-|[]]. eauto.
  - (* TScalar *)
    unfold format_scalar in Hr. destruct k; simpl in Hr; try contradiction;
      try (destruct (dyn_is_nil v); simpl in Hr; contradiction).
Qed.

(* ---------- set_definitions ---------- *)
Lemma set_defs_keys : forall os defs k,
    In k (map fst (set_definitions defs os)) <-> In k (map fst defs) \/ In k (map o_name os).
Proof.
  unfold set_definitions. induction os as [|o r IH]; intros defs k; simpl.
  - tauto.
  - rewrite IH, om_set_keys. split; intros H; decompose [or] H; auto.
Qed.

Lemma set_defs_in : forall os defs k d,
    In (k, d) (set_definitions defs os) ->
    In (k, d) defs \/ exists o, In o os /\ k = o_name o /\ d = object_to_definition o.
Proof.
  unfold set_definitions. induction os as [|o r IH]; intros defs k d H; simpl in *; auto.
  apply IH in H. destruct H as [H|[o' [Ho' He]]].
  - apply om_set_in in H. destruct H as [[-> ->]|H]; auto. right; exists o; auto.
  - right; exists o'; auto.
Qed.

Lemma set_defs_get_other : forall os defs k,
    ~ In k (map o_name os) -> om_get (set_definitions defs os) k = om_get defs k.
Proof.
  unfold set_definitions. induction os as [|o r IH]; intros defs k Hn; simpl in *; auto.
  rewrite IH by tauto. apply om_get_set_other. intro; subst; tauto.
Qed.

Lemma set_defs_get_own : forall os defs o,
    NoDup (map o_name os) -> In o os -> om_get (set_definitions defs os) (o_name o) = Some (object_to_definition o).
Proof.
  unfold set_definitions. induction os as [|o0 r IH]; intros defs o Hnd Hin; simpl in *; [contradiction|].
  inversion Hnd as [|? ? Hnotin Hnd']; subst.
  destruct Hin as [->|Hin].
  - fold (set_definitions (om_set defs (o_name o) (object_to_definition o)) r).
    rewrite set_defs_get_other by assumption. apply om_get_set_same.
  - apply IH; assumption.
Qed.

(* ---------- locate ---------- *)
Lemma objs_get_in : forall l k o, objs_get l k = Some o -> In (k, o) l.
Proof.
  induction l as [|[k0 o0] r IH]; intros k o H; simpl in *; [discriminate|].
  destruct (seqb k0 k) eqn:E.
  - apply seqb_eq in E; subst; inversion H; auto.
  - right; auto.
Qed.

Lemma locate_object_in : forall ctx p n o,
    locate_object ctx p n = Some o -> exists s, In s ctx /\ s_pkg s = p /\ In (n, o) (s_objects s).
Proof.
  unfold locate_object, locate. intros ctx p n o H.
  destruct (find (fun s => seqb (s_pkg s) p) ctx) as [s|] eqn:F; [|discriminate].
  apply find_some in F. destruct F as [Hin Hp]. apply seqb_eq in Hp.
  exists s; repeat split; auto. apply objs_get_in; assumption.
Qed.

(* ---------- well-formedness of a context, as every front-end and pass produces it ---------- *)
Definition objects_of (s : schema) : list object := map snd (s_objects s).
Definition all_objects (ctx : schemas) : list object := flat_map objects_of ctx.

Record ctx_wf (ctx : schemas) : Prop := {
  (* orderedmap keys are the object names *)
  wf_keys : forall s k o, In s ctx -> In (k, o) (s_objects s) -> k = o_name o ;
  (* SelfRef.String() identifies the bare name (true when SelfRef = (package, name) and package names have no dot) *)
  wf_self : forall o1 o2, In o1 (all_objects ctx) -> In o2 (all_objects ctx) -> self_key o1 = self_key o2 -> o_name o1 = o_name o2
}.

(* every reference formatRef can meet names an object: local ones an object of the schema itself *)
Definition refs_located (ctx : schemas) (s : schema) : Prop :=
  forall o p n, In o (all_objects ctx) -> In (p, n) (refs_of (o_type o)) ->
                (p = s_pkg s -> In n (map o_name (objects_of s))) /\
                (p <> s_pkg s -> exists o', locate_object ctx p n = Some o').

Lemma located_in_all : forall ctx p n o, locate_object ctx p n = Some o -> In o (all_objects ctx).
Proof.
  intros ctx p n o H. apply locate_object_in in H. destruct H as [s [Hs [_ Hin]]].
  unfold all_objects. apply in_flat_map. exists s; split; auto.
  unfold objects_of. apply in_map_iff. exists (n, o); auto.
Qed.

Lemma located_name : forall ctx p n o, ctx_wf ctx -> locate_object ctx p n = Some o -> o_name o = n.
Proof.
  intros ctx p n o W H. apply locate_object_in in H. destruct H as [s [Hs [_ Hin]]].
  symmetry. eapply wf_keys; eauto.
Qed.

(* ---------- collect_foreign ---------- *)
Definition names_of (pending : list (string * object)) : list string := map (fun ko => o_name (snd ko)) pending.

Definition pending_ok (ctx : schemas) (pending : list (string * object)) : Prop :=
  forall k o, In (k, o) pending -> k = self_key o /\ In o (all_objects ctx).

Definition cf_step (ctx : schemas) (pkg : string) (acc : list (string * object)) (pn : string * string) :=
  if seqb (fst pn) pkg then acc
  else match locate_object ctx (fst pn) (snd pn) with
       | Some o => om_set acc (self_key o) o
       | None => acc
       end.

Lemma collect_foreign_unfold : forall ctx pkg os,
    collect_foreign ctx pkg os = fold_left (cf_step ctx pkg) (flat_map (fun o => refs_of (o_type o)) os) [].
Proof. reflexivity. Qed.

Lemma om_set_pending_names : forall ctx acc o n,
    ctx_wf ctx -> pending_ok ctx acc -> In o (all_objects ctx) ->
    In n (names_of acc) -> In n (names_of (om_set acc (self_key o) o)).
Proof.
  intros ctx acc o n W. induction acc as [|[k0 o0] r IH]; intros Hok Ho Hn; simpl in *; [contradiction|].
  assert (Hok0 : k0 = self_key o0 /\ In o0 (all_objects ctx)) by (apply Hok; left; reflexivity).
  assert (Hokr : pending_ok ctx r) by (intros k' o' H'; apply Hok; right; exact H').
  destruct (seqb k0 (self_key o)) eqn:E; simpl.
  - apply seqb_eq in E. destruct Hn as [Hn|Hn]; auto.
    left. destruct Hok0 as [-> Hin0]. rewrite <- Hn. symmetry. eapply wf_self; eauto.
  - destruct Hn as [Hn|Hn]; auto.
Qed.

Lemma om_set_pending_ok : forall ctx acc o,
    pending_ok ctx acc -> In o (all_objects ctx) -> pending_ok ctx (om_set acc (self_key o) o).
Proof.
  intros ctx acc o Hok Ho k' o' Hin. apply om_set_in in Hin. destruct Hin as [[-> ->]|Hin]; auto.
Qed.

Lemma om_set_names_new : forall (acc : list (string * object)) k o, In (o_name o) (names_of (om_set acc k o)).
Proof.
  induction acc as [|[k0 o0] r IH]; intros k o; simpl; auto.
  destruct (seqb k0 k); simpl; auto.
Qed.

Lemma cf_fold_invariant : forall ctx pkg refs acc,
    ctx_wf ctx -> pending_ok ctx acc ->
    pending_ok ctx (fold_left (cf_step ctx pkg) refs acc) /\
    (forall n, In n (names_of acc) -> In n (names_of (fold_left (cf_step ctx pkg) refs acc))) /\
    (forall p n o, In (p, n) refs -> p <> pkg -> locate_object ctx p n = Some o ->
                   In (o_name o) (names_of (fold_left (cf_step ctx pkg) refs acc))).
Proof.
  intros ctx pkg refs. induction refs as [|[p0 n0] r IH]; intros acc W Hok; simpl.
  - split; [exact Hok | split; [auto | intros p n o0 []]].
  - assert (Hok' : pending_ok ctx (cf_step ctx pkg acc (p0, n0))).
    { unfold cf_step; simpl. destruct (seqb p0 pkg); auto.
      destruct (locate_object ctx p0 n0) as [o|] eqn:L; auto.
      apply om_set_pending_ok; auto. eapply located_in_all; eauto. }
    assert (Hnames : forall n, In n (names_of acc) -> In n (names_of (cf_step ctx pkg acc (p0, n0)))).
    { intros n Hn. unfold cf_step; simpl. destruct (seqb p0 pkg); auto.
      destruct (locate_object ctx p0 n0) as [oo|] eqn:L; auto.
      eapply om_set_pending_names; eauto. eapply located_in_all; eauto. }
    destruct (IH _ W Hok') as [I1 [I2 I3]].
    split; [exact I1 | split; [intros n Hn; apply I2; apply Hnames; exact Hn |]].
    intros p n o [Heq|Hin] Hne Hloc.
    + inversion Heq; subst p0 n0. apply I2. unfold cf_step; simpl.
      destruct (seqb p pkg) eqn:E; [apply seqb_eq in E; contradiction|].
      rewrite Hloc. apply om_set_names_new.
    + eapply I3; eauto.
Qed.

(* ---------- the loop over foreign objects ---------- *)
(* every $ref of every definition names a definition, or an object still waiting in `extra` *)
Definition closed_upto (defs : list (string * jdef)) (extra : list string) : Prop :=
  forall k d r, In (k, d) defs -> In r (schema_refs (fst d)) -> In r (map fst defs) \/ In r extra.

Lemma str_in_In_p : forall k l, str_in k l = true <-> In k l.
Proof.
  induction l as [|x r IH]; simpl; split; intros H; try discriminate; try contradiction.
  - apply orb_true_iff in H. destruct H as [H|H]; [left; apply String.eqb_eq; exact H | right; apply IH; exact H].
  - apply orb_true_iff. destruct H as [H|H]; [left; apply String.eqb_eq; exact H | right; apply IH; exact H].
Qed.

Lemma not_converted_in : forall visited pending ko,
    In ko (not_converted visited pending) <-> In ko pending /\ ~ In (fst ko) visited.
Proof.
  intros. unfold not_converted. rewrite filter_In. split; intros [H1 H2]; split; auto.
  - intro Hc. apply str_in_In_p in Hc. rewrite Hc in H2. discriminate.
  - destruct (str_in (fst ko) visited) eqn:E; auto. apply str_in_In_p in E. contradiction.
Qed.

Lemma foreign_loop_step : forall ctx pkg f visited defs pd pr,
    foreign_loop ctx pkg (S f) visited defs (pd :: pr) =
    foreign_loop ctx pkg f (visited ++ map fst (not_converted visited (pd :: pr)))
                 (set_definitions defs (map snd (not_converted visited (pd :: pr))))
                 (collect_foreign ctx pkg (map snd (not_converted visited (pd :: pr)))).
Proof. reflexivity. Qed.

(* every converted SelfRef belongs to an object of the context whose name is a definition *)
Definition visited_ok (ctx : schemas) (visited : list string) (defs : list (string * jdef)) : Prop :=
  forall k, In k visited -> exists o', In o' (all_objects ctx) /\ self_key o' = k /\ In (o_name o') (map fst defs).

Lemma foreign_loop_closed : forall ctx s fuel visited defs pending defs',
    ctx_wf ctx -> refs_located ctx s ->
    (forall n, In n (map o_name (objects_of s)) -> In n (map fst defs)) ->
    pending_ok ctx pending ->
    visited_ok ctx visited defs ->
    closed_upto defs (names_of pending) ->
    foreign_loop ctx (s_pkg s) fuel visited defs pending = Ok defs' ->
    closed_upto defs' [] /\ (forall n, In n (map o_name (objects_of s)) -> In n (map fst defs')).
Proof.
  intros ctx s fuel. induction fuel as [|f IH]; intros visited defs pending defs' W R Hloc Hok Hvis Hcl H.
  - destruct pending; simpl in H; [|discriminate]. inversion H; subst. split; auto.
  - destruct pending as [|pd pr] eqn:EP.
    + simpl in H. inversion H; subst. split; auto.
    + rewrite foreign_loop_step in H. rewrite <- EP in *.
      set (todo := not_converted visited pending) in *.
      assert (Htodo : forall ko, In ko todo -> In ko pending /\ ~ In (fst ko) visited).
      { intros ko Hk. apply not_converted_in; exact Hk. }
      destruct (cf_fold_invariant ctx (s_pkg s) (flat_map (fun o => refs_of (o_type o)) (map snd todo)) [] W) as [I1 [_ I3]].
      { intros k o []. }
      eapply IH; [exact W | exact R | | | | | exact H].
      * intros n Hn. apply set_defs_keys. left; auto.
      * rewrite collect_foreign_unfold. exact I1.
      * intros k Hk. apply in_app_or in Hk. destruct Hk as [Hk|Hk].
        -- destruct (Hvis k Hk) as [o' [A [B C]]]. exists o'. repeat split; auto. apply set_defs_keys; auto.
        -- apply in_map_iff in Hk. destruct Hk as [[k0 o0] [<- Hk0]]. simpl.
           destruct (Htodo _ Hk0) as [Hp _]. destruct (Hok _ _ Hp) as [Hkey Hin].
           exists o0. repeat split; auto. apply set_defs_keys. right.
           apply in_map_iff. exists o0; split; auto. apply in_map_iff. exists (k0, o0); auto.
      * rewrite collect_foreign_unfold. intros k d r Hin Hr.
        apply set_defs_in in Hin. destruct Hin as [Hin|[o [Ho [-> ->]]]].
        -- destruct (Hcl _ _ _ Hin Hr) as [Hk|Hk].
           ++ left. apply set_defs_keys; auto.
           ++ left. apply set_defs_keys. unfold names_of in Hk.
              rewrite in_map_iff in Hk. destruct Hk as [[k0 o0] [<- Hko]]. simpl.
              destruct (in_dec String.string_dec k0 visited) as [Hv|Hnv].
              ** (* collected again but already converted: its name is a definition already *)
                 left. destruct (Hvis k0 Hv) as [o' [A [B C]]].
                 destruct (Hok _ _ Hko) as [Hkey Hin0].
                 rewrite <- (wf_self ctx W o' o0 A Hin0); [exact C | congruence].
              ** right. apply in_map_iff. exists o0; split; auto.
                 apply in_map_iff. exists (k0, o0); split; auto.
                 apply not_converted_in. split; auto.
        -- simpl in Hr. apply emit_refs in Hr. destruct Hr as [p Hp].
           assert (Hoin : In o (all_objects ctx)).
           { apply in_map_iff in Ho. destruct Ho as [[k0 o0] [<- Hk0]]. destruct (Htodo _ Hk0) as [Hpd _]. eapply Hok; eauto. }
           destruct (R o p r Hoin Hp) as [R1 R2].
           destruct (String.string_dec p (s_pkg s)) as [->|Hne].
           ++ left. apply set_defs_keys. left. auto.
           ++ destruct (R2 Hne) as [o' Ho'].
              right. rewrite <- (located_name _ _ _ _ W Ho').
              eapply I3; eauto. apply in_flat_map. exists o; split; auto.
Qed.

Theorem emit_schema_refs_resolve : forall ctx s fuel jd,
    ctx_wf ctx -> In s ctx -> refs_located ctx s ->
    (s_entry s = EmptyString \/ In (s_entry s) (map o_name (objects_of s))) ->
    emit_schema ctx fuel s = Ok jd ->
    forall r, In r (doc_refs jd) -> In r (def_names jd).
Proof.
  intros ctx s fuel jd W Hs R Hentry H r Hr.
  unfold emit_schema in H.
  destruct (foreign_loop ctx (s_pkg s) fuel [] (set_definitions [] (map snd (s_objects s)))
                         (collect_foreign ctx (s_pkg s) (map snd (s_objects s)))) as [defs| | |] eqn:L; try discriminate.
  inversion H; subst jd; clear H.
  destruct (cf_fold_invariant ctx (s_pkg s) (flat_map (fun o => refs_of (o_type o)) (map snd (s_objects s))) [] W) as [I1 [_ I3]].
  { intros k o []. }
  assert (Hall : forall o, In o (objects_of s) -> In o (all_objects ctx)).
  { intros o Ho. unfold all_objects. apply in_flat_map. exists s; auto. }
  assert (HC : closed_upto defs [] /\ (forall n, In n (map o_name (objects_of s)) -> In n (map fst defs))).
  { eapply foreign_loop_closed; [exact W | exact R | | | | | exact L].
    - intros n Hn. apply set_defs_keys. right; exact Hn.
    - rewrite collect_foreign_unfold. exact I1.
    - intros k [].
    - rewrite collect_foreign_unfold. intros k d r0 Hin Hr0.
      apply set_defs_in in Hin. destruct Hin as [[]|[o [Ho [-> ->]]]].
      simpl in Hr0. apply emit_refs in Hr0. destruct Hr0 as [p Hp].
      specialize (Hall o Ho).
      destruct (R o p r0 Hall Hp) as [R1 R2].
      destruct (String.string_dec p (s_pkg s)) as [->|Hne].
      + left. apply set_defs_keys. right. apply R1; reflexivity.
      + right. destruct (R2 Hne) as [o' Ho'].
        rewrite <- (located_name _ _ _ _ W Ho').
        eapply I3; eauto. apply in_flat_map. exists o; split; auto. }
  destruct HC as [Hclosed Hlocal].
  unfold doc_refs, def_names in *. simpl in *.
  apply in_app_or in Hr. destruct Hr as [Hr|Hr].
  - destruct (seqb (s_entry s) "") eqn:E; simpl in Hr; [contradiction|].
    destruct Hr as [<-|[]]. apply Hlocal.
    destruct Hentry as [He|He]; auto. rewrite He in E. discriminate.
  - apply in_flat_map in Hr. destruct Hr as [[k d] [Hkd Hr]]. simpl in Hr.
    destruct (Hclosed _ _ _ Hkd Hr) as [Hk|[]]. exact Hk.
Qed.

(* ====================================================================================== *)
(* Every object of the schema is present under its own name, with its own definition     *)
(* ====================================================================================== *)

Lemma foreign_loop_keeps_local : forall ctx s fuel visited defs pending defs',
    (forall os, (forall o, In o os -> ~ In (o_name o) (map o_name (objects_of s))) ->
                forall k o, In (k, o) (collect_foreign ctx (s_pkg s) os) -> ~ In (o_name o) (map o_name (objects_of s))) ->
    (forall k o, In (k, o) pending -> ~ In (o_name o) (map o_name (objects_of s))) ->
    foreign_loop ctx (s_pkg s) fuel visited defs pending = Ok defs' ->
    forall n, In n (map o_name (objects_of s)) -> om_get defs' n = om_get defs n.
Proof.
  intros ctx s fuel. induction fuel as [|f IH]; intros visited defs pending defs' Hcf Hp H n Hn.
  - destruct pending; simpl in H; [|discriminate]. inversion H; reflexivity.
  - destruct pending as [|pd pr] eqn:EP.
    + simpl in H. inversion H; reflexivity.
    + rewrite foreign_loop_step in H. rewrite <- EP in *.
      set (todo := not_converted visited pending) in *.
      assert (Hos : forall o, In o (map snd todo) -> ~ In (o_name o) (map o_name (objects_of s))).
      { intros o Ho. apply in_map_iff in Ho. destruct Ho as [[k0 o0] [<- Hk0]].
        apply not_converted_in in Hk0. destruct Hk0 as [Hk0 _]. eapply Hp; eauto. }
      rewrite (IH _ _ _ _ Hcf (Hcf _ Hos) H n Hn).
      apply set_defs_get_other. intro Hc. apply in_map_iff in Hc. destruct Hc as [o [<- Ho]].
      exact (Hos o Ho Hn).
Qed.

(* what collect_foreign returns are located objects of packages other than pkg *)
Lemma collect_foreign_located : forall ctx pkg os k o,
    In (k, o) (collect_foreign ctx pkg os) -> exists p n, p <> pkg /\ locate_object ctx p n = Some o.
Proof.
  intros ctx pkg os. rewrite collect_foreign_unfold.
  generalize (flat_map (fun o => refs_of (o_type o)) os).
  intros refs. assert (G : forall acc, (forall k o, In (k, o) acc -> exists p n, p <> pkg /\ locate_object ctx p n = Some o) ->
                              forall k o, In (k, o) (fold_left (cf_step ctx pkg) refs acc) ->
                                          exists p n, p <> pkg /\ locate_object ctx p n = Some o).
  { induction refs as [|[p0 n0] r IH]; intros acc Hacc k o H; simpl in H; eauto.
    eapply IH; [|exact H]. intros k' o' H'. unfold cf_step in H'; simpl in H'.
    destruct (seqb p0 pkg) eqn:E; eauto.
    destruct (locate_object ctx p0 n0) as [oo|] eqn:L; eauto.
    apply om_set_in in H'. destruct H' as [[-> ->]|H']; eauto.
    exists p0, n0; split; auto. apply seqb_neq; exact E. }
  intros k o H. eapply G; [|exact H]. intros k' o' [].
Qed.

Theorem emit_schema_objects_present : forall ctx s fuel jd,
    ctx_wf ctx -> In s ctx ->
    NoDup (map o_name (objects_of s)) ->
    (* objects located in other packages never carry the name of an object of s *)
    (forall p n o, p <> s_pkg s -> locate_object ctx p n = Some o -> ~ In (o_name o) (map o_name (objects_of s))) ->
    emit_schema ctx fuel s = Ok jd ->
    forall o, In o (objects_of s) -> om_get (jd_defs jd) (o_name o) = Some (object_to_definition o).
Proof.
  intros ctx s fuel jd W Hs Hnd Hclash H o Ho.
  unfold emit_schema in H.
  destruct (foreign_loop ctx (s_pkg s) fuel [] (set_definitions [] (map snd (s_objects s)))
                         (collect_foreign ctx (s_pkg s) (map snd (s_objects s)))) as [defs| | |] eqn:L; try discriminate.
  inversion H; subst jd; clear H. simpl.
  assert (Hcf : forall os k o, In (k, o) (collect_foreign ctx (s_pkg s) os) -> ~ In (o_name o) (map o_name (objects_of s))).
  { intros os k o0 Hin. apply collect_foreign_located in Hin. destruct Hin as [p [n [Hne Hloc]]]. eapply Hclash; eauto. }
  rewrite (foreign_loop_keeps_local ctx s fuel [] _ _ defs) with (3 := L).
  - apply set_defs_get_own; auto.
  - intros os _ k o0 Hin. eapply Hcf; eauto.
  - intros k o0 Hin. eapply Hcf; eauto.
  - apply in_map; exact Ho.
Qed.

(* ... and every field of a struct object is a property of that definition (fields named apart) *)
Lemma struct_fields_present : forall a dh fs f,
    NoDup (map (@f_name ty) fs) -> In f fs ->
    exists req props, emit_type (TStruct a dh fs) = JSStruct req props /\
                      om_get props (f_name f) =
                      Some (emit_type (f_type f), join_lines (f_comments f),
                            if dyn_is_nil (dflt (ty_attrs (f_type f))) then None
                            else Some (dyn_to_json (dflt (ty_attrs (f_type f))))).
Proof.
  intros a dh fs f Hnd Hin. simpl. eexists; eexists; split; [reflexivity|].
  apply om_of_get_nodup.
  - rewrite map_map. simpl. exact Hnd.
  - apply in_map_iff. exists f; split; auto.
Qed.

(* ====================================================================================== *)
(* What is carried over                                                                   *)
(* ====================================================================================== *)

(* required-ness: the required list is exactly the required fields, in order *)
Lemma required_carried : forall a dh fs req props,
    emit_type (TStruct a dh fs) = JSStruct req props ->
    req = map (@f_name ty) (filter (@f_required ty) fs).
Proof. intros a dh fs req props H. simpl in H. inversion H; reflexivity. Qed.

Lemma required_iff : forall a dh fs req props n,
    emit_type (TStruct a dh fs) = JSStruct req props ->
    (In n req <-> exists f, In f fs /\ f_name f = n /\ f_required f = true).
Proof.
  intros a dh fs req props n H. rewrite (required_carried _ _ _ _ _ H).
  rewrite in_map_iff. split.
  - intros [f [Hn Hf]]. apply filter_In in Hf. destruct Hf; eauto.
  - intros [f [Hf [Hn Hr]]]. exists f; split; auto. apply filter_In; auto.
Qed.

(* defaults: the property of a field carries the field type's default, and nothing when there is none *)
Lemma default_carried : forall a dh fs f req props ps de df,
    NoDup (map (@f_name ty) fs) -> In f fs ->
    emit_type (TStruct a dh fs) = JSStruct req props ->
    om_get props (f_name f) = Some (ps, de, df) ->
    df = (if dyn_is_nil (dflt (ty_attrs (f_type f))) then None else Some (dyn_to_json (dflt (ty_attrs (f_type f))))).
Proof.
  intros a dh fs f req props ps de df Hnd Hin He Hg.
  destruct (struct_fields_present a dh fs f Hnd Hin) as [req' [props' [He' Hg']]].
  rewrite He in He'. inversion He'; subst. rewrite Hg in Hg'. inversion Hg'; reflexivity.
Qed.

(* enum values: exactly the member values, in order *)
Lemma enum_carried : forall a vs, emit_type (TEnum a vs) = JSEnum (map (fun ev => dyn_to_json (ev_value ev)) vs).
Proof. reflexivity. Qed.

(* constraints: every constraint whose operator has a keyword is a member of the scalar's definition
   (operators named apart: a repeated operator keeps the LAST argument only) *)
Lemma add_constraints_in : forall kw cs ms k v,
    In (k, v) (add_constraints kw cs ms) ->
    In (k, v) ms \/ exists c, In c cs /\ kw (c_op c) = Some k /\ v = first_arg c.
Proof.
  unfold add_constraints. intros kw cs. induction cs as [|c r IH]; intros ms k v H; simpl in H; auto.
  apply IH in H. destruct H as [H|[c' [Hc' He]]].
  - destruct (kw (c_op c)) as [k0|] eqn:E; auto.
    apply om_set_in in H. destruct H as [[-> ->]|H]; auto.
    right; exists c; simpl; auto.
  - right; exists c'; simpl; tauto.
Qed.

Lemma add_constraints_get_other : forall kw cs ms k,
    (forall c, In c cs -> kw (c_op c) <> Some k) -> om_get (add_constraints kw cs ms) k = om_get ms k.
Proof.
  unfold add_constraints. intros kw cs. induction cs as [|c r IH]; intros ms k H; simpl; auto.
  rewrite IH by (intros c' Hc'; apply H; right; exact Hc').
  destruct (kw (c_op c)) as [k0|] eqn:E; auto.
  apply om_get_set_other. intro; subst. apply (H c); [left; reflexivity | exact E].
Qed.

Lemma add_constraints_get : forall kw cs ms c k,
    NoDup (map (fun c => kw (c_op c)) cs) -> In c cs -> kw (c_op c) = Some k ->
    om_get (add_constraints kw cs ms) k = Some (first_arg c).
Proof.
  unfold add_constraints. intros kw cs. induction cs as [|c0 r IH]; intros ms c k Hnd Hin Hk; simpl in *; [contradiction|].
  inversion Hnd as [|? ? Hnotin Hnd']; subst.
  destruct Hin as [->|Hin].
  - rewrite Hk. fold (add_constraints kw r (om_set ms k (first_arg c))).
    rewrite add_constraints_get_other.
    + apply om_get_set_same.
    + intros c' Hc' He. apply Hnotin. rewrite Hk, <- He. apply in_map_iff. exists c'; auto.
  - apply IH; auto.
Qed.

Lemma number_constraints_carried : forall a k cs c kw,
    is_int_kind k = true \/ is_float_kind k = true ->
    NoDup (map (fun c => number_kw (c_op c)) cs) -> In c cs -> number_kw (c_op c) = Some kw ->
    exists ms, emit_type (TScalar a k DNil cs) = JSScalar ms /\ om_get ms kw = Some (first_arg c).
Proof.
  intros a k cs c kw Hk Hnd Hin Hkw.
  destruct Hk as [Hk|Hk]; destruct k; simpl in Hk; try discriminate;
    (eexists; split; [reflexivity|]; apply add_constraints_get; auto).
Qed.

Lemma string_constraints_carried : forall a cs c kw,
    NoDup (map (fun c => string_kw (c_op c)) cs) -> In c cs -> string_kw (c_op c) = Some kw ->
    has_hint (TScalar a KString DNil cs) "string_format_datetime" = false ->
    exists ms, emit_type (TScalar a KString DNil cs) = JSScalar ms /\ om_get ms kw = Some (first_arg c).
Proof.
  intros a cs c kw Hnd Hin Hkw Hh.
  eexists; split.
  - simpl. unfold format_scalar. simpl. rewrite Hh. reflexivity.
  - apply add_constraints_get; auto.
Qed.

(* constants: a concrete scalar states its value *)
Lemma const_carried : forall a k v cs,
    dyn_is_nil v = false -> k <> KAny ->
    exists ms, emit_type (TScalar a k v cs) = JSScalar ms /\ om_get ms "const" = Some (dyn_to_json v).
Proof.
  intros a k v cs Hv Hk. simpl. unfold format_scalar.
  destruct k; try congruence; rewrite Hv; eexists; (split; [reflexivity | apply om_get_set_same]).
Qed.

(* ====================================================================================== *)
(* The emitter returns: the loop over foreign objects converts every SelfRef at most once *)
(* ====================================================================================== *)
Lemma om_set_keys_nodup : forall V (l : list (string * V)) k v, NoDup (map fst l) -> NoDup (map fst (om_set l k v)).
Proof.
  induction l as [|[k0 v0] r IH]; intros k v H; simpl.
  - constructor; [intros [] | constructor].
  - inversion H as [|? ? Hn Hr]; subst. destruct (seqb k0 k) eqn:E; simpl.
    + constructor; assumption.
    + constructor; [|apply IH; exact Hr].
      intro Hc. apply om_set_keys in Hc. destruct Hc as [Hc|Hc]; [|contradiction].
      subst. rewrite seqb_refl in E. discriminate.
Qed.

Lemma cf_fold_ok : forall ctx pkg refs acc,
    pending_ok ctx acc -> NoDup (map fst acc) ->
    pending_ok ctx (fold_left (cf_step ctx pkg) refs acc) /\ NoDup (map fst (fold_left (cf_step ctx pkg) refs acc)).
Proof.
  intros ctx pkg refs. induction refs as [|[p0 n0] r IH]; intros acc Hok Hnd; simpl; auto.
  apply IH; unfold cf_step; simpl; destruct (seqb p0 pkg); auto;
    destruct (locate_object ctx p0 n0) as [o|] eqn:L; auto.
  - apply om_set_pending_ok; auto. eapply located_in_all; eauto.
  - apply om_set_keys_nodup; exact Hnd.
Qed.

Lemma collect_foreign_ok : forall ctx pkg os,
    pending_ok ctx (collect_foreign ctx pkg os) /\ NoDup (map fst (collect_foreign ctx pkg os)).
Proof.
  intros. rewrite collect_foreign_unfold. apply cf_fold_ok; [intros k o [] | constructor].
Qed.

Lemma count_objects_length : forall ctx, count_objects ctx = List.length (all_objects ctx).
Proof.
  induction ctx as [|s r IH]; [reflexivity|].
  change (count_objects (s :: r)) with (List.length (s_objects s) + count_objects r).
  change (all_objects (s :: r)) with (objects_of s ++ all_objects r).
  rewrite app_length, IH. unfold objects_of. rewrite map_length. reflexivity.
Qed.

Lemma NoDup_app_p : forall A (a b : list A), NoDup a -> NoDup b -> (forall x, In x a -> In x b -> False) -> NoDup (a ++ b).
Proof.
  induction a as [|x r IH]; intros b Ha Hb Hd; simpl; auto.
  inversion Ha as [|? ? Hn Hr]; subst. constructor.
  - intro Hc. apply in_app_or in Hc. destruct Hc as [Hc|Hc]; [contradiction | apply (Hd x); [left; reflexivity | exact Hc]].
  - apply IH; auto. intros y Hy Hyb. apply (Hd y); [right; exact Hy | exact Hyb].
Qed.

Lemma filter_keys_nodup : forall A (f : string * A -> bool) (l : list (string * A)),
    NoDup (map fst l) -> NoDup (map fst (filter f l)).
Proof.
  induction l as [|x r IH]; intros H; simpl; [constructor|].
  inversion H as [|? ? Hn Hr]; subst. destruct (f x); simpl; auto.
  constructor; auto. intro Hc. apply Hn. apply in_map_iff in Hc. destruct Hc as [y [Hy Hin]].
  apply filter_In in Hin. destruct Hin as [Hin _]. apply in_map_iff. exists y; auto.
Qed.

Lemma foreign_loop_returns : forall ctx pkg fuel visited defs pending,
    NoDup visited -> incl visited (map self_key (all_objects ctx)) ->
    pending_ok ctx pending -> NoDup (map fst pending) ->
    (List.length (all_objects ctx) - List.length visited) + 2 <= fuel ->
    exists defs', foreign_loop ctx pkg fuel visited defs pending = Ok defs'.
Proof.
  intros ctx pkg fuel. induction fuel as [|f IH]; intros visited defs pending Hnd Hincl Hok Hpnd Hfuel; [lia|].
  destruct pending as [|pd pr] eqn:EP; [simpl; eauto|].
  rewrite foreign_loop_step. rewrite <- EP in *.
  set (todo := not_converted visited pending).
  destruct (collect_foreign_ok ctx pkg (map snd todo)) as [Hok' Hnd'].
  destruct todo as [|t0 tr] eqn:ET.
  - (* nothing left to convert: nothing is collected and the next round ends the loop *)
    simpl. rewrite app_nil_r. destruct f; simpl; eauto.
  - rewrite <- ET in *.
    assert (Htodo : forall ko, In ko todo -> In ko pending /\ ~ In (fst ko) visited).
    { intros ko Hk. apply not_converted_in; exact Hk. }
    assert (Hnd2 : NoDup (visited ++ map fst todo)).
    { apply NoDup_app_p; auto.
      - apply filter_keys_nodup; exact Hpnd.
      - intros k Hv Ht. apply in_map_iff in Ht. destruct Ht as [ko [<- Hko]].
        destruct (Htodo _ Hko) as [_ Hn]. contradiction. }
    assert (Hincl2 : incl (visited ++ map fst todo) (map self_key (all_objects ctx))).
    { intros k Hk. apply in_app_or in Hk. destruct Hk as [Hk|Hk]; auto.
      apply in_map_iff in Hk. destruct Hk as [[k0 o0] [<- Hko]]. simpl.
      destruct (Htodo _ Hko) as [Hp _]. destruct (Hok _ _ Hp) as [-> Hin]. apply in_map; exact Hin. }
    assert (Hlen := NoDup_incl_length Hnd2 Hincl2). rewrite map_length in Hlen.
    assert (Hgrow : List.length visited + 1 <= List.length (visited ++ map fst todo)).
    { rewrite app_length, map_length, ET. simpl. lia. }
    apply IH; auto. lia.
Qed.

Theorem emit_schema_returns : forall ctx s fuel,
    S (S (count_objects ctx)) <= fuel -> exists jd, emit_schema ctx fuel s = Ok jd.
Proof.
  intros ctx s fuel Hf. unfold emit_schema.
  destruct (collect_foreign_ok ctx (s_pkg s) (map snd (s_objects s))) as [Hok Hnd].
  destruct (foreign_loop_returns ctx (s_pkg s) fuel [] (set_definitions [] (map snd (s_objects s)))
                                 (collect_foreign ctx (s_pkg s) (map snd (s_objects s)))) as [defs' E]; auto.
  - constructor.
  - intros k [].
  - rewrite count_objects_length in Hf. simpl. lia.
  - rewrite E. eauto.
Qed.
