(* C03: the certified table of map-iteration sites that need their own model. An entry can only be
   written down together with a PROOF of the statement it claims (n_stmt is inferred from the proof
   term), so `sites_all_discharged` (Props/C03.v) cannot be satisfied by naming a site without a
   theorem. Keys are (file, function, operand text, kind); they are matched against the list that
   tools/sites regenerates from /repo on every run.
   The six sites that WERE order-dependent (Schemas.Consolidate, inferDiscriminatorField's candidate
   fields, FieldsSetDefault.processObject, Pipeline.interpolate, typescript formatValue,
   ComposeBuilders) no longer range over a map: they collect the keys and sort them (class
   CollectThenSort, discharged by the general lemma) or iterate a slice. They have NO entry here on
   purpose: if one of those loops ranges over its map again, sites_all_discharged fails. *)
From Coq Require Import List String Bool Permutation.
From Cog Require Import Model.Sites Model.PermModels Model.Pipeline
  Proofs.PermLemmas Proofs.PermModelsProofs Proofs.PermPassesProofs Proofs.PipelineProofs.
Import ListNotations.
Local Open Scope string_scope.
Local Open Scope list_scope.

Definition N f fn op k v m (P : Prop) (pf : P) : named := mkNamed f fn op k v m P pf.

Definition named_sites : list named := [
  (* ---- DisjunctionInferMapping: the branch types are collected in map order and only used as a
          set (all-quantifier). (The candidate FIELDS are collected with tools.Keys and sorted since
          fix 5b9ef0c: that call site is of class CollectThenSort.) *)
  N "internal/ast/compiler/disjunctions_infer_mapping.go" "DisjunctionInferMapping.inferDiscriminatorField" "candidates" "range"
    Invariant "PermModels.inferDiscriminatorField (seq_types)" _ inferDiscriminatorField_invariant_proof;
  (* ---- FieldsSetDefault: the yaml keys are turned into FieldReferences *)
  N "internal/yaml/compilerpasses.go" "FieldsSetDefault.AsCompilerPass" "pass.Defaults" "range"
    InvariantUnder "PermModels.keyed_write_loop (key = FieldReferenceFromString, injective on distinct keys)"
    _ (conj keyed_write_loop_invariant_proof nodup_map_injective);
  (* ---- parameter interpolation *)
  N "internal/codegen/output.go" "Output.interpolateParameters" "output.TemplatesData" "range"
    InvariantUnder "PermModels.keyed_write_loop (key = id, value = interpolator(value): a function)"
    _ keyed_write_loop_invariant_proof;
  N "internal/jennies/typescript/jennies.go" "Config.InterpolateParameters" "config.PackagesImportMap" "range"
    InvariantUnder "PermModels.keyed_write_loop (key = id, value = interpolator(path): a function)"
    _ keyed_write_loop_invariant_proof;
  (* ---- the language loop and the jennies that emit one file per map entry: merged into the
          path-sorted file set, which rejects duplicate paths *)
  N "internal/codegen/run.go" "Pipeline.Run" "targetsByLanguage" "range"
    InvariantUnder "PermModels.per_entry_files (distinct paths) + C07 language_independent"
    _ per_entry_files_invariant_proof;
  N "internal/codegen/run.go" "Pipeline.Run" "targetsByLanguage" "call"
    InvariantUnder "PermModels.per_entry_files (RepositoryTemplate: one directory per language, distinct paths)"
    _ per_entry_files_invariant_proof;
  N "internal/jennies/java/factory.go" "Factory.Generate" "factoryByPackage" "range"
    InvariantUnder "PermModels.per_entry_files" _ per_entry_files_invariant_proof;
  N "internal/jennies/php/factory.go" "Factory.Generate" "factoryByPackage" "range"
    InvariantUnder "PermModels.per_entry_files" _ per_entry_files_invariant_proof;
  N "internal/jennies/python/builder.go" "Builder.Generate" "buildersByPackage" "range"
    InvariantUnder "PermModels.per_entry_files (imports reset per entry)" _ per_entry_files_invariant_proof;
  N "internal/jennies/typescript/index.go" "Index.Generate" "packages" "range"
    InvariantUnder "PermModels.per_entry_files" _ per_entry_files_invariant_proof;
  N "internal/jennies/common/apireference.go" "APIReference.referenceForSchema" "virtualObjects" "range"
    InvariantUnder "PermModels.per_entry_files" _ per_entry_files_invariant_proof;
  (* ---- collect per entry, then sort by the (distinct) name *)
  N "internal/jennies/common/apireference.go" "APIReference.schemaIndex" "jenny.Collector.virtualObjects[schema.Package]" "range"
    InvariantUnder "PermModels.collect_then_sort_by" _ collect_then_sort_by_invariant_proof;
  N "internal/jennies/java/rawtypes.go" "RawTypes.formatScalars" "scalars" "range"
    InvariantUnder "PermModels.collect_then_sort_by" _ collect_then_sort_by_invariant_proof;
  N "internal/jsonschema/generator.go" "generator.walkObject" "schema.Properties" "range"
    InvariantUnder "PermModels.collect_then_sort_by (fields sorted by name)" _ collect_then_sort_by_invariant_proof;
  N "internal/openapi/generator.go" "generator.walkObject" "schema.Properties" "range"
    InvariantUnder "PermModels.collect_then_sort_by (fields sorted by name)" _ collect_then_sort_by_invariant_proof;
  N "internal/openapi/generator.go" "generator.declareDefinition" "schemas" "range"
    InvariantUnder "PermModels.collect_then_sort_by (objects sorted by name by GenerateAST)" _ collect_then_sort_by_invariant_proof;
  (* ---- results appended in map order *)
  N "internal/languages/converter.go" "ConverterGenerator.FromBuilder" "generator.listOfDisjunctionOptions" "range"
    InvariantAsSet "PermModels.FromBuilder_mappings"
    _ (conj FromBuilder_mappings_order_refuted_proof FromBuilder_mappings_perm_proof);
  N "helpers.go" "CUEImports" "importsMap" "range"
    InvariantAsSet "Perm.append_each (the list of -I style imports handed to the CUE loader)" _ append_each_perm;
  (* ---- first match in map order *)
  N "internal/simplecue/referenceresolver.go" "referenceResolver.packageForToken" "resolver.librariesMap" "range"
    OrderDependent "PermModels.packageForToken"
    _ (conj packageForToken_refuted_proof packageForToken_unique_invariant_proof);
  (* ---- helpers that hand the iteration sequence to their caller: each call is its own site *)
  N "internal/tools/maps.go" "Keys" "inputMap" "range" HelperBody "tools.Keys" _ I;
  N "internal/languages/language.go" "Languages.AsLanguageRefs" "languages" "range" HelperBody "Languages.AsLanguageRefs" _ I;
  (* ---- reaches an error message only *)
  N "cmd/cli/inspect/command.go" "inspectedLanguage" "languagesMap" "call" NotObservable "error text" _ I
].

(* the general lemma behind each discharged class *)
Definition class_statement (c : cls) : Prop :=
  match c with
  | KeyedWrite =>
      forall A V (key : A -> string) (val : A -> option V) l l' dst,
        NoDup (map key l) -> Permutation l l' -> forall x, write_all key val l dst x = write_all key val l' dst x
  | CollectThenSort =>
      (forall l l', Permutation l l' -> isort sleb l = isort sleb l') /\
      (forall A (key : A -> string) l l', NoDup (map key l) -> Permutation l l' -> isort (leb_by key) l = isort (leb_by key) l')
  | Commutative =>
      forall A X (f : A -> X -> A), (forall a x y, f (f a x) y = f (f a y) x) ->
        forall l l', Permutation l l' -> forall a, fold_left f l a = fold_left f l' a
  | Combined =>
      forall A B X (f : A -> X -> A) (g : B -> X -> B),
        (forall l l', Permutation l l' -> forall a, fold_left f l a = fold_left f l' a) ->
        (forall l l', Permutation l l' -> forall b, fold_left g l b = fold_left g l' b) ->
        forall l l' a b, Permutation l l' -> fold_pair f g l a b = fold_pair f g l' a b
  | Sites.Observable | Sites.Unknown => False
  end.

Theorem class_lemmas_proof : forall c, class_discharged c = true -> class_statement c.
Proof.
  intros [] H; try discriminate; simpl.
  - exact keyed_writes_perm.
  - split; [exact sort_strings_perm_invariant|exact sort_by_key_perm_invariant].
  - exact fold_left_comm_perm.
  - exact fold_pair_perm.
Qed.

Lemma undischarged_nil_forall : forall tbl sites, undischarged tbl sites = [] ->
  forall s, In s sites -> site_discharged tbl s = true.
Proof.
  intros tbl sites H s Hin. destruct (site_discharged tbl s) eqn:E; auto.
  assert (In s (undischarged tbl sites)) by (unfold undischarged; apply filter_In; rewrite E; auto).
  rewrite H in H0. contradiction.
Qed.
