(* C11: every exclusion of py_rt_safe (Model/PySemSpec.v) is NEEDED: for each one a context and a document that
   meets py_valid and json_wf, violates only that exclusion, and on which the round trip fails.  All by vm_compute. *)
From Coq Require Import List String ZArith Bool.
From Cog Require Import Model.GoSem Model.Ctor Model.PySem Model.PySemChecks Model.PySemSpec Proofs.PySemProofs.
Import ListNotations.
Local Open Scope string_scope.

Module N11.
  Definition meta0 : smeta := {| m_kind := ""; m_variant := ""; m_identifier := "" |}.
  Definition tstr : ty := TScalar attrs0 KString DNil [].
  Definition tint : ty := TScalar attrs0 KInt64 DNil [].
  Definition nl : attrs := {| nullable := true; dflt := DNil; hints := [] |}.
  Definition nld (d : dyn) : attrs := {| nullable := true; dflt := d; hints := [] |}.
  Definition mk (objs : list (string * ty)) : schemas :=
    [mkSchema "w" meta0 "" ty_zero (map (fun nt => (fst nt, mkObject (fst nt) [] (snd nt) "w" (fst nt))) objs)].
  Definition inner : string * ty := ("Inner", TStruct attrs0 [] [mkField "x" [] tint true]).
  Definition root (fs : list field) : string * ty := ("Root", TStruct attrs0 [] (mkField "id" [] tstr true :: fs)).
  Definition idoc (ms : list (string * json)) : json := JObj (("id", JStr "a") :: ms).

  (* 1. explicit null where from_json recurses *)
  Definition c_null_struct := mk [inner; root [mkField "opt" [] (TRef nl "w" "Inner") false]].
  Definition d_null_struct := idoc [("opt", JNull)].
  Definition c_null_array := mk [inner; root [mkField "items" [] (TArray nl (TRef attrs0 "w" "Inner")) false]].
  Definition d_null_array := idoc [("items", JNull)].
  Definition c_null_map := mk [inner; root [mkField "m" [] (TMap nl tstr (TRef attrs0 "w" "Inner")) false]].
  Definition d_null_map := idoc [("m", JNull)].
  (* 2. absent optional member: a constant / with a default / not nullable in the IR *)
  Definition c_abs_const := mk [root [mkField "kind" [] (TScalar nl KString (DStr "k1") []) false]].
  Definition c_abs_default := mk [root [mkField "y" [] (TScalar (nld (DStr "yy")) KString DNil []) false]].
  Definition c_abs_nonnull := mk [root [mkField "t" [] (TArray attrs0 tstr) false]].
  (* 3. explicit null for a collection member with a default / not nullable in the IR *)
  Definition c_null_default := mk [root [mkField "tags" [] (TArray (nld (DList [DStr "a"])) tstr) false]].
  Definition d_null_tags := idoc [("tags", JNull)].
  Definition c_null_nonnull := mk [root [mkField "t" [] (TArray attrs0 tstr) true]].
  Definition d_null_t := idoc [("t", JNull)].
  (* 4. map of maps of non-scalars *)
  Definition c_nested := mk [inner; root [mkField "mm" [] (TMap attrs0 tstr (TMap attrs0 tstr (TRef attrs0 "w" "Inner"))) false]].
  Definition d_nested := idoc [("mm", JObj [("p", JObj [("q", JObj [("x", JNum 1 0)])])])].
  (* 5. discriminated union without mapping entries: typing.Union[] *)
  Definition c_union := mk [inner; root [mkField "u" [] (TDisj attrs0 (mkDisj [TRef attrs0 "w" "Inner"] "t" [])) false]].
  Definition d_union := idoc [("u", JObj [("x", JNum 1 0)])].
End N11.

Definition needed (pctx : schemas) (d : json) : Prop :=
  json_wf d = true /\ py_valid_object pctx "w" "Root" d = true /\
  py_rt_safe_object pctx "w" "Root" d = false /\ py_roundtrip_holds pctx "w" "Root" d = false.

Ltac needed_tac := unfold needed; repeat split; vm_compute; reflexivity.

Theorem safe_needed_null_struct : needed N11.c_null_struct N11.d_null_struct.      Proof. needed_tac. Qed.
Theorem safe_needed_null_array : needed N11.c_null_array N11.d_null_array.         Proof. needed_tac. Qed.
Theorem safe_needed_null_map : needed N11.c_null_map N11.d_null_map.               Proof. needed_tac. Qed.
Theorem safe_needed_absent_constant : needed N11.c_abs_const (N11.idoc []).         Proof. needed_tac. Qed.
Theorem safe_needed_absent_default : needed N11.c_abs_default (N11.idoc []).        Proof. needed_tac. Qed.
Theorem safe_needed_absent_not_nullable : needed N11.c_abs_nonnull (N11.idoc []).   Proof. needed_tac. Qed.
Theorem safe_needed_null_with_default : needed N11.c_null_default N11.d_null_tags. Proof. needed_tac. Qed.
Theorem safe_needed_null_not_nullable : needed N11.c_null_nonnull N11.d_null_t.    Proof. needed_tac. Qed.
Theorem safe_needed_nested_maps : needed N11.c_nested N11.d_nested.                Proof. needed_tac. Qed.
Theorem safe_needed_empty_union : needed N11.c_union N11.d_union.                  Proof. needed_tac. Qed.

(* what the generated Python does on them *)
Example safe_needed_outcomes :
  py_roundtrip N11.c_null_struct "w" "Root" N11.d_null_struct = PExc "TypeError: argument is not iterable" /\
  py_roundtrip N11.c_null_array "w" "Root" N11.d_null_array = PExc "TypeError: not iterable" /\
  py_roundtrip N11.c_null_map "w" "Root" N11.d_null_map = PExc "AttributeError: no keys()" /\
  py_roundtrip N11.c_abs_const "w" "Root" (N11.idoc []) = POk (JObj [("id", JStr "a"); ("kind", JStr "k1")]) /\
  py_roundtrip N11.c_abs_default "w" "Root" (N11.idoc []) = POk (JObj [("id", JStr "a"); ("y", JStr "yy")]) /\
  py_roundtrip N11.c_abs_nonnull "w" "Root" (N11.idoc []) = POk (JObj [("id", JStr "a"); ("t", JArr [])]) /\
  py_roundtrip N11.c_null_default "w" "Root" N11.d_null_tags = POk (JObj [("id", JStr "a"); ("tags", JArr [JStr "a"])]) /\
  py_roundtrip N11.c_null_nonnull "w" "Root" N11.d_null_t = POk (JObj [("id", JStr "a"); ("t", JArr [])]) /\
  pres_tag (py_roundtrip N11.c_nested "w" "Root" N11.d_nested) = "unmodelled" /\
  pres_tag (py_roundtrip N11.c_union "w" "Root" N11.d_union) = "syntax".
Proof. repeat split; vm_compute; reflexivity. Qed.

(* a scalar member with a default given as explicit null keeps its None: NOT an exclusion (py_rt_safe was weakened) *)
Example null_scalar_with_default_is_safe :
  py_rt_safe_object N11.c_abs_default "w" "Root" (N11.idoc [("y", JNull)]) = true /\
  py_roundtrip N11.c_abs_default "w" "Root" (N11.idoc [("y", JNull)]) = POk (JObj [("id", JStr "a")]).
Proof. split; vm_compute; reflexivity. Qed.
