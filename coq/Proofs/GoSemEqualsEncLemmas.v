(* C13 — lemmas for "equal encodings => Equals" (Proofs/GoSemEqualsEnc.v):
   inversion of json_eq on arrays / objects with distinct keys, leaves, null, omitted members. *)
From Coq Require Import List String ZArith Bool Ascii Arith Lia.
From Cog Require Import Model.GoSem Model.GoSemSpec13P Proofs.GoSemEqualsProofs Proofs.GoSemC01Json.
Import ListNotations.
Local Open Scope list_scope.
Local Open Scope string_scope.

(* ---------- json_eq, canon ---------- *)
Lemma json_eq_canon x y : json_eq x y = true -> canon x = canon y.
Proof. apply json_eqb_eq. Qed.

Lemma canon_null_inv j : canon j = JNull -> j = JNull.
Proof. destruct j; simpl; try discriminate; auto. destruct (num_norm m e); discriminate. Qed.

Lemma canon_arr l : canon (JArr l) = JArr (map canon l).
Proof. reflexivity. Qed.

Lemma canon_obj_find ms1 ms2 : NoDup (map fst ms1) -> NoDup (map fst ms2) ->
  canon (JObj ms1) = canon (JObj ms2) ->
  forall k, option_map canon (afind k ms1) = option_map canon (afind k ms2).
Proof.
  intros N1 N2 E k. rewrite !canon_obj in E. inversion E as [E'].
  pose proof (f_equal (afind k) E') as F. rewrite !(build_afind canon) in F by assumption. simpl in F.
  destruct (afind k ms1), (afind k ms2); simpl; auto.
Qed.

Lemma afind_map {A B} (g : A -> B) k (l : list (string * A)) :
  afind k (map (fun kv => (fst kv, g (snd kv))) l) = option_map g (afind k l).
Proof. induction l as [|[k' v] r IH]; simpl; auto. destruct (String.eqb k' k); auto. Qed.

Lemma gmap_find_afind l k : gmap_find l k = afind k l.
Proof. induction l as [|[k' v] r IH]; simpl; auto. unfold seqb. destruct (String.eqb k' k); auto. Qed.

Lemma map_fst_map {A B} (g : A -> B) (l : list (string * A)) :
  map fst (map (fun kv => (fst kv, g (snd kv))) l) = map fst l.
Proof. rewrite map_map. apply map_ext. reflexivity. Qed.

(* ---------- numbers ---------- *)
Lemma float_normal_norm m e : float_normal m e = true -> num_norm m e = (m, e).
Proof.
  unfold float_normal. destruct (num_norm m e) as [a b]. intros H. apply andb_true_iff in H.
  destruct H as [H1 H2]. apply Z.eqb_eq in H1, H2. subst. reflexivity.
Qed.

Lemma int_canon x y : canon (JNum x 0) = canon (JNum y 0) -> x = y.
Proof.
  cbn [canon]. destruct (num_norm x 0) as [a b] eqn:E1. destruct (num_norm y 0) as [c d] eqn:E2.
  intros H. inversion H; subst. apply num_norm_int in E1, E2.
  destruct E1 as [_ <-], E2 as [_ <-]. reflexivity.
Qed.

(* ---------- unfolding encode / enc_faithful ---------- *)
Definition ef_fields (ctx : schemas) :=
  fix go (fs : list field) (fvs : list (string * gval)) {struct fvs} : bool :=
    match fs, fvs with
    | f :: fr, (_, fv) :: vr => (enc_faithful ctx (f_type f) fv && go fr vr)%bool
    | _, _ => true
    end.

Lemma ef_struct ctx t fvs a dh fs : payload_or_self ctx t = TStruct a dh fs ->
  enc_faithful ctx t (GStruct fvs) =
  (plain_struct (TStruct a dh fs) && str_nodup (map f_name fs) && ef_fields ctx fs fvs)%bool.
Proof. intros H. simpl. rewrite H. reflexivity. Qed.
Lemma ef_slice ctx t l a et : payload_or_self ctx t = TArray a et ->
  enc_faithful ctx t (GSlice l) = forallb (enc_faithful ctx et) l.
Proof. intros H. simpl. rewrite H. reflexivity. Qed.
Lemma ef_map ctx t l a it vt : payload_or_self ctx t = TMap a it vt ->
  enc_faithful ctx t (GMap l) = forallb (fun kv => enc_faithful ctx vt (snd kv)) l.
Proof. intros H. simpl. rewrite H. reflexivity. Qed.
Lemma enc_slice ctx t l a et : payload_or_self ctx t = TArray a et ->
  encode ctx t (GSlice l) = JArr (map (encode ctx et) l).
Proof. intros H. simpl. rewrite H. reflexivity. Qed.
Lemma enc_map ctx t l a it vt : payload_or_self ctx t = TMap a it vt ->
  encode ctx t (GMap l) = JObj (map (fun kv => (fst kv, encode ctx vt (snd kv))) l).
Proof. intros H. simpl. rewrite H. reflexivity. Qed.

Lemma enc_plain ctx t fvs a dh fs : payload_or_self ctx t = TStruct a dh fs ->
  plain_struct (TStruct a dh fs) = true ->
  encode ctx t (GStruct fvs) = JObj (enc_fields ctx fs fvs).
Proof.
  intros H P. rewrite (encode_struct _ _ _ _ _ _ H). unfold plain_struct in P.
  destruct (union_scalars (TStruct a dh fs)); [discriminate|].
  destruct (union_refs (TStruct a dh fs)); [discriminate|]. reflexivity.
Qed.

(* ---------- leaves ---------- *)
Ltac kill_leaf :=
  simpl; intros;
  match goal with pt : ty |- _ =>
    destruct pt as [ | | ? vs | | | | | ? k ? ? | | | ]; simpl in *; try discriminate;
    try (destruct (enum_base vs) as [ | | | | | | | ? k ? ? | | | ]; try discriminate);
    try (destruct k; discriminate)
  end.

Lemma leaf_inj ctx t pt a b : is_leaf a = true -> is_leaf b = true ->
  leaf_ty a pt = true -> leaf_ty b pt = true ->
  enc_faithful ctx t a = true -> enc_faithful ctx t b = true ->
  canon (encode ctx t a) = canon (encode ctx t b) -> leaf_eq a b = true.
Proof.
  intros La Lb Ta Tb Fa Fb E.
  destruct a; try discriminate; destruct b; try discriminate; simpl in Fa, Fb; try discriminate.
  - simpl in E. inversion E; subst. simpl. apply Bool.eqb_reflx.
  - cbn [encode canon] in E. destruct (num_norm z 0); discriminate.
  - cbn [encode canon] in E. destruct (num_norm m e); discriminate.
  - cbn [encode canon] in E. destruct (num_norm z 0); discriminate.
  - apply int_canon in E. subst. simpl. apply Z.eqb_refl.
  - exfalso. revert Ta Tb. clear. kill_leaf.
  - cbn [encode canon] in E. destruct (num_norm z 0); discriminate.
  - cbn [encode canon] in E. destruct (num_norm m e); discriminate.
  - exfalso. revert Ta Tb. clear. kill_leaf.
  - cbn [encode canon] in E. rewrite (float_normal_norm _ _ Fa), (float_normal_norm _ _ Fb) in E.
    inversion E; subst. simpl. rewrite !Z.eqb_refl. reflexivity.
  - cbn [encode canon] in E. destruct (num_norm m e); discriminate.
  - cbn [encode canon] in E. destruct (num_norm z 0); discriminate.
  - cbn [encode canon] in E. destruct (num_norm m e); discriminate.
  - simpl in E. inversion E; subst. simpl. apply String.eqb_refl.
Qed.

(* ---------- null is printed for nil only ---------- *)
Lemma enc_not_null0 ctx t v : no_nil_ptr v = true -> wt ctx t v = true -> enc_faithful ctx t v = true ->
  canon (encode ctx t v) <> JNull.
Proof.
  intros Hn W F E. destruct v; try discriminate.
  - cbn [encode canon] in E. destruct (num_norm z 0); discriminate.
  - cbn [encode canon] in E. destruct (num_norm m e); discriminate.
  - destruct (wt_slice_inv _ _ _ W) as [_ [_ [a0 [et [Hpt _]]]]].
    rewrite (enc_slice _ _ _ _ _ (payload_or_self_eq _ _ _ Hpt)) in E. discriminate.
  - destruct (wt_map_inv _ _ _ W) as [_ [_ [a0 [it [vt [Hpt _]]]]]].
    rewrite (enc_map _ _ _ _ _ _ (payload_or_self_eq _ _ _ Hpt)) in E. discriminate.
  - destruct (wt_struct_inv _ _ _ W) as [_ [_ [a0 [dh [fs0 [Hpt _]]]]]].
    pose proof (payload_or_self_eq _ _ _ Hpt) as Hp.
    rewrite (ef_struct _ _ _ _ _ _ Hp) in F.
    apply andb_true_iff in F. destruct F as [F _]. apply andb_true_iff in F. destruct F as [F _].
    rewrite (enc_plain _ _ _ _ _ _ Hp F) in E. discriminate.
  - pose proof (wt_any_inv _ _ _ W) as Hany. rewrite wt_unfold, Hany in W.
    simpl in E. apply canon_null_inv in E. subst. discriminate.
Qed.

Lemma enc_not_null ctx t v : wt ctx t v = true -> enc_faithful ctx t v = true ->
  canon (encode ctx t v) = JNull -> v = GNil.
Proof.
  intros W F E. destruct v; auto; try (exfalso; revert E; apply enc_not_null0; auto; fail).
  exfalso. destruct (wt_ptr_inv _ _ _ W) as [_ [_ [_ [Hx Hwx]]]].
    simpl in E, F. revert E. apply enc_not_null0; auto.
Qed.

(* ---------- two omitted (empty) members are reference-equal ---------- *)
Lemma float_zero_normal e : float_normal 0 e = true -> e = 0%Z.
Proof. unfold float_normal, num_norm. simpl. destruct e; try discriminate; reflexivity. Qed.

Lemma empty_vsim ctx t x y : wt ctx t x = true -> wt ctx t y = true ->
  is_empty_value x = true -> is_empty_value y = true ->
  enc_faithful ctx t x = true -> enc_faithful ctx t y = true -> vsim x y = true.
Proof.
  intros Wx Wy Ex Ey Fx Fy.
  assert (Cx : x = GNil \/ x = GBool false \/ x = GInt 0 \/ x = GFloat 0 0 \/ x = GStr "" \/ x = GSlice [] \/ x = GMap []).
  { destruct x; simpl in Ex; try discriminate; auto.
    - destruct b; try discriminate; auto.
    - apply Z.eqb_eq in Ex. subst; auto.
    - apply Z.eqb_eq in Ex. subst. simpl in Fx. apply float_zero_normal in Fx. subst. auto 6.
    - apply String.eqb_eq in Ex. subst; auto 6.
    - destruct l; try discriminate; auto 8.
    - destruct l; try discriminate; auto 8. }
  assert (Cy : y = GNil \/ y = GBool false \/ y = GInt 0 \/ y = GFloat 0 0 \/ y = GStr "" \/ y = GSlice [] \/ y = GMap []).
  { destruct y; simpl in Ey; try discriminate; auto.
    - destruct b; try discriminate; auto.
    - apply Z.eqb_eq in Ey. subst; auto.
    - apply Z.eqb_eq in Ey. subst. simpl in Fy. apply float_zero_normal in Fy. subst. auto 6.
    - apply String.eqb_eq in Ey. subst; auto 6.
    - destruct l; try discriminate; auto 8.
    - destruct l; try discriminate; auto 8. }
  clear Ex Ey Fx Fy.
  rewrite wt_unfold in Wx, Wy.
  destruct (is_any t).
  { destruct Cx as [->|[->|[->|[->|[->|[->| ->]]]]]]; try discriminate;
    destruct Cy as [->|[->|[->|[->|[->|[->| ->]]]]]]; try discriminate; reflexivity. }
  destruct (payload_type ctx t) as [pt|]; [|discriminate].
  destruct (is_ptr t).
  { destruct Cx as [->|[->|[->|[->|[->|[->| ->]]]]]]; try discriminate;
    destruct Cy as [->|[->|[->|[->|[->|[->| ->]]]]]]; try discriminate; reflexivity. }
  destruct Cx as [->|[->|[->|[->|[->|[->| ->]]]]]];
  destruct Cy as [->|[->|[->|[->|[->|[->| ->]]]]]]; try reflexivity; exfalso;
  revert Wx Wy; clear; kill_leaf.
Qed.
