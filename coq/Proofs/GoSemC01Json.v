(* C01 — facts about Model/Json.v: sorted insertion, canon, num_norm, and the structural relation
   `rel d e` ("e is d with some null members dropped, members in any order, numbers equal by value")
   that implies json_eq_mod_null. *)
From Coq Require Import List String ZArith Bool Ascii Arith Lia.
From Cog Require Import Model.GoSem Proofs.GoSemEqualsProofs.
Import ListNotations.
Local Open Scope list_scope.
Local Open Scope string_scope.

(* ====================================================================== *)
(* strings                                                                *)
(* ====================================================================== *)
Lemma acmp_lt_trans a b c : Ascii.compare a b = Lt -> Ascii.compare b c = Lt -> Ascii.compare a c = Lt.
Proof. unfold Ascii.compare. rewrite !N.compare_lt_iff. apply N.lt_trans. Qed.

Lemma acmp_refl a : Ascii.compare a a = Eq.
Proof. unfold Ascii.compare. apply N.compare_refl. Qed.

Lemma scmp_lt_trans : forall a b c, String.compare a b = Lt -> String.compare b c = Lt -> String.compare a c = Lt.
Proof.
  induction a as [|x a IH]; intros [|y b] [|z c]; simpl; try discriminate; auto.
  destruct (Ascii.compare x y) eqn:E1; try discriminate; destruct (Ascii.compare y z) eqn:E2; try discriminate; intros H1 H2.
  - apply Ascii.compare_eq_iff in E1, E2. subst. rewrite acmp_refl. eauto.
  - apply Ascii.compare_eq_iff in E1. subst. rewrite E2. reflexivity.
  - apply Ascii.compare_eq_iff in E2. subst. rewrite E1. reflexivity.
  - rewrite (acmp_lt_trans _ _ _ E1 E2). reflexivity.
Qed.

Lemma scmp_refl a : String.compare a a = Eq.
Proof. induction a; simpl; auto. rewrite acmp_refl. auto. Qed.
Lemma scmp_eq a b : String.compare a b = Eq -> a = b.
Proof. apply String.compare_eq_iff. Qed.
Lemma scmp_gt_lt a b : String.compare a b = Gt -> String.compare b a = Lt.
Proof. rewrite String.compare_antisym. destruct (String.compare b a); simpl; congruence. Qed.
Lemma scmp_lt_neq a b : String.compare a b = Lt -> String.eqb a b = false.
Proof. intros H. apply String.eqb_neq. intros ->. rewrite scmp_refl in H. discriminate. Qed.
Lemma scmp_gt_neq a b : String.compare a b = Gt -> String.eqb a b = false.
Proof. intros H. apply String.eqb_neq. intros ->. rewrite scmp_refl in H. discriminate. Qed.

Lemma str_in_iff k l : str_in k l = true <-> In k l.
Proof.
  induction l as [|x r IH]; simpl; [split; [discriminate|tauto]|].
  rewrite orb_true_iff, IH, String.eqb_eq. tauto.
Qed.
Lemma str_in_false k l : str_in k l = false <-> ~ In k l.
Proof. rewrite <- str_in_iff. destruct (str_in k l); split; congruence. Qed.
Lemma str_nodup_NoDup l : str_nodup l = true <-> NoDup l.
Proof.
  induction l as [|x r IH]; simpl; [split; [constructor|reflexivity]|].
  rewrite andb_true_iff, negb_true_iff, str_in_false, IH. split.
  - intros [A B]. constructor; auto.
  - intros H. inversion H; auto.
Qed.

(* ====================================================================== *)
(* association lists: find_member, sorted insertion                       *)
(* ====================================================================== *)
Section Alist.
  Context {V : Type}.
  Fixpoint afind (k : string) (ms : list (string * V)) : option V :=
    match ms with
    | [] => None
    | (k', v) :: r => if String.eqb k' k then Some v else afind k r
    end.
  Fixpoint ins (k : string) (v : V) (l : list (string * V)) : list (string * V) :=
    match l with
    | [] => [(k, v)]
    | (k', v') :: r =>
        match String.compare k k' with
        | Eq => (k, v) :: r
        | Lt => (k, v) :: (k', v') :: r
        | Gt => (k', v') :: ins k v r
        end
    end.
  (* every key of the list is above k *)
  Definition above (k : string) (l : list (string * V)) : Prop :=
    forall k', In k' (map fst l) -> String.compare k k' = Lt.
  Fixpoint sorted (l : list (string * V)) : Prop :=
    match l with
    | [] => True
    | (k, _) :: r => above k r /\ sorted r
    end.

  Lemma afind_ins k k' v l : afind k (ins k' v l) = if String.eqb k' k then Some v else afind k l.
  Proof.
    induction l as [|[k2 v2] r IH]; simpl; auto.
    destruct (String.compare k' k2) eqn:C; simpl.
    - apply scmp_eq in C. subst k2. destruct (String.eqb k' k); reflexivity.
    - reflexivity.
    - rewrite IH. destruct (String.eqb k' k) eqn:E; auto.
      apply String.eqb_eq in E. subst k. rewrite String.eqb_sym, (scmp_gt_neq _ _ C). reflexivity.
  Qed.

  Lemma keys_ins k v l x : In x (map fst (ins k v l)) <-> x = k \/ In x (map fst l).
  Proof.
    induction l as [|[k2 v2] r IH]; simpl; [intuition|].
    destruct (String.compare k k2) eqn:C; simpl.
    - apply scmp_eq in C. subst k2. intuition.
    - intuition.
    - rewrite IH. intuition.
  Qed.

  Lemma in_ins k v l kx x : In (kx, x) (ins k v l) -> (kx, x) = (k, v) \/ In (kx, x) l.
  Proof.
    induction l as [|[k2 v2] r IH]; simpl; [intuition|].
    destruct (String.compare k k2) eqn:C; simpl; intuition.
  Qed.

  Lemma sorted_ins k v l : sorted l -> sorted (ins k v l).
  Proof.
    induction l as [|[k2 v2] r IH]; simpl; intros S.
    - split; auto. intros k' [].
    - destruct S as [A S]. destruct (String.compare k k2) eqn:C; simpl.
      + apply scmp_eq in C. subst k2. split; auto.
      + split; [|split; auto]. intros k' [<-|H]; auto. eapply scmp_lt_trans; eauto.
      + split; auto. intros k' H. apply keys_ins in H. destruct H as [->|H]; auto. apply scmp_gt_lt; auto.
  Qed.

  Lemma sorted_nodup l : sorted l -> NoDup (map fst l).
  Proof.
    induction l as [|[k v] r IH]; simpl; intros S; constructor.
    - destruct S as [A _]. intros H. specialize (A _ H). rewrite scmp_refl in A. discriminate.
    - apply IH. tauto.
  Qed.

  Lemma afind_in k x l : afind k l = Some x -> In (k, x) l.
  Proof.
    induction l as [|[k2 v2] r IH]; simpl; try discriminate.
    destruct (String.eqb k2 k) eqn:E; intros H.
    - apply String.eqb_eq in E. inversion H; subst. auto.
    - auto.
  Qed.
  Lemma afind_none k l : afind k l = None <-> ~ In k (map fst l).
  Proof.
    induction l as [|[k2 v2] r IH]; simpl; [tauto|].
    destruct (String.eqb k2 k) eqn:E.
    - apply String.eqb_eq in E. split; [discriminate|]. intros H. exfalso. auto.
    - apply String.eqb_neq in E. rewrite IH. tauto.
  Qed.
  Lemma in_afind k x l : NoDup (map fst l) -> In (k, x) l -> afind k l = Some x.
  Proof.
    induction l as [|[k2 v2] r IH]; simpl; intros N H; [tauto|]. destruct H as [H|H].
    - inversion H; subst. rewrite String.eqb_refl. reflexivity.
    - inversion N; subst. destruct (String.eqb k2 k) eqn:E.
      + apply String.eqb_eq in E. subst. exfalso. apply H2. apply (in_map fst) in H. exact H.
      + auto.
  Qed.
End Alist.

Lemma find_member_afind k ms : find_member k ms = afind k ms.
Proof. induction ms as [|[k' v] r IH]; simpl; auto; try (rewrite IH; reflexivity). Qed.
Lemma obj_insert_ins k v l : obj_insert k v l = ins k v l.
Proof. induction l as [|[k' v'] r IH]; simpl; auto; try (rewrite IH; reflexivity). Qed.
Lemma gmap_set_ins l k v : gmap_set l k v = ins k v l.
Proof. induction l as [|[k' v'] r IH]; simpl; auto; try (rewrite IH; reflexivity). Qed.

(* folding insertions: build f ms acc inserts (k, f x) for every (k, x) of ms, in order *)
Section Build.
  Context {A V : Type}.
  Variable f : A -> V.
  Definition build (ms : list (string * A)) (acc : list (string * V)) : list (string * V) :=
    fold_left (fun acc kv => ins (fst kv) (f (snd kv)) acc) ms acc.

  Lemma build_sorted ms : forall acc, sorted acc -> sorted (build ms acc).
  Proof. induction ms as [|[k x] r IH]; simpl; intros acc S; auto. apply IH. apply sorted_ins; auto. Qed.

  Lemma build_keys ms : forall acc x, In x (map fst (build ms acc)) <-> In x (map fst ms) \/ In x (map fst acc).
  Proof.
    induction ms as [|[k a] r IH]; simpl; intros acc x; [tauto|].
    rewrite IH, keys_ins. intuition.
  Qed.

  Lemma build_in ms : forall acc k y, In (k, y) (build ms acc) -> (exists x, In (k, x) ms /\ y = f x) \/ In (k, y) acc.
  Proof.
    induction ms as [|[k0 a] r IH]; simpl; intros acc k y H; auto.
    destruct (IH _ _ _ H) as [[x [H1 H2]]|H1].
    - left. exists x. auto.
    - apply in_ins in H1. destruct H1 as [H1|H1]; auto. inversion H1; subst. left. exists a. auto.
  Qed.

  Lemma build_afind ms : forall acc k, NoDup (map fst ms) ->
    afind k (build ms acc) = match afind k ms with Some x => Some (f x) | None => afind k acc end.
  Proof.
    induction ms as [|[k0 a] r IH]; simpl; intros acc k N; auto.
    inversion N; subst. rewrite IH by assumption. rewrite afind_ins.
    destruct (String.eqb k0 k) eqn:E.
    - apply String.eqb_eq in E. subst k0. apply afind_none in H1. rewrite H1. reflexivity.
    - reflexivity.
  Qed.

  Lemma build_empty ms acc : build ms acc = [] -> ms = [].
  Proof.
    intros H. destruct ms as [|[k a] r]; auto. exfalso.
    assert (X : In k (map fst (build ((k, a) :: r) acc))) by (apply build_keys; simpl; auto).
    rewrite H in X. destruct X.
  Qed.
End Build.

(* ====================================================================== *)
(* numbers                                                                *)
(* ====================================================================== *)
Local Open Scope Z_scope.

Lemma strip_value : forall f m e a b, strip_zeros f m e = (a, b) -> 0 <= e -> 0 <= b /\ a * 10 ^ b = m * 10 ^ e.
Proof.
  induction f as [|f IH]; simpl; intros m e a b H He.
  - inversion H; subst. auto.
  - destruct ((m mod 10 =? 0) && negb (m =? 0))%bool eqn:C.
    + apply andb_true_iff in C. destruct C as [C _]. apply Z.eqb_eq in C.
      destruct (IH _ _ _ _ H) as [Hb Hv]; [lia|]. split; auto. rewrite Hv.
      rewrite Z.pow_add_r by lia. rewrite (Z_div_mod_eq_full m 10) at 2. rewrite C. change (10 ^ 1) with 10. ring.
    + inversion H; subst. auto.
Qed.

Lemma strip_done : forall f m e a b, strip_zeros f m e = (a, b) -> m <> 0 -> Z.abs m < 2 ^ Z.of_nat f ->
  a <> 0 /\ a mod 10 <> 0.
Proof.
  induction f as [|f IH]; intros m e a b H Hm Hlt.
  - simpl in Hlt. lia.
  - simpl in H. destruct ((m mod 10 =? 0) && negb (m =? 0))%bool eqn:C.
    + apply andb_true_iff in C. destruct C as [C _]. apply Z.eqb_eq in C.
      pose proof (Z_div_mod_eq_full m 10) as D. rewrite C in D.
      apply (IH _ _ _ _ H); [lia|]. rewrite Nat2Z.inj_succ, Z.pow_succ_r in Hlt by lia. lia.
    + inversion H; subst. split; auto. apply andb_false_iff in C. destruct C as [C|C].
      * apply Z.eqb_neq in C. exact C.
      * apply negb_false_iff, Z.eqb_eq in C. contradiction.
Qed.

Lemma num_norm_nz m e a b : num_norm m e = (a, b) -> (a = 0 /\ b = 0) \/ (a <> 0 /\ a mod 10 <> 0).
Proof.
  unfold num_norm. destruct (m =? 0) eqn:E.
  - intros H. inversion H. auto.
  - apply Z.eqb_neq in E. intros H. right. eapply strip_done; eauto.
    rewrite Nat2Z.inj_succ, Z2Nat.id by apply Z.log2_up_nonneg.
    rewrite Z.pow_succ_r by apply Z.log2_up_nonneg.
    assert (Z.abs m <= 2 ^ Z.log2_up (Z.abs m)) by (apply Z.log2_up_le_pow2; lia). lia.
Qed.

Lemma num_norm_idem m e a b : num_norm m e = (a, b) -> num_norm a b = (a, b).
Proof.
  intros H. destruct (num_norm_nz _ _ _ _ H) as [[-> ->]|[H1 H2]]; [reflexivity|].
  unfold num_norm. apply Z.eqb_neq in H1. rewrite H1. simpl.
  apply Z.eqb_neq in H2. rewrite H2. reflexivity.
Qed.

Lemma num_norm_int m a b : num_norm m 0 = (a, b) -> 0 <= b /\ a * 10 ^ b = m.
Proof.
  unfold num_norm. destruct (m =? 0) eqn:E.
  - apply Z.eqb_eq in E. intros H. inversion H; subst. split; [lia|reflexivity].
  - intros H. apply strip_value in H; [|lia]. destruct H as [H1 H2]. split; auto. rewrite H2. simpl. ring.
Qed.
Local Close Scope Z_scope.

(* ====================================================================== *)
(* canon, le_null: equations                                              *)
(* ====================================================================== *)
Lemma canon_obj ms : canon (JObj ms) = JObj (build canon ms []).
Proof.
  reflexivity.
Qed.

Definition is_jnull (j : json) : bool := match j with JNull => true | _ => false end.
Definition le_member (y : list (string * json)) (kv : string * json) : bool :=
  match find_member (fst kv) y with Some b => le_null (snd kv) b | None => is_jnull (snd kv) end.
Definition has_member (x : list (string * json)) (kv : string * json) : bool :=
  match find_member (fst kv) x with Some _ => true | None => false end.

Lemma le_null_arr x y : le_null (JArr x) (JArr y) = all2 le_null x y.
Proof. simpl. revert y; induction x as [|a r IH]; intros [|b s]; simpl; auto; try (rewrite IH; reflexivity). Qed.
Lemma le_null_obj x y : le_null (JObj x) (JObj y) = (forallb (le_member y) x && forallb (has_member x) y)%bool.
Proof.
  simpl. f_equal. induction x as [|[k a] r IH]; auto. rewrite IH.
  change (forallb (le_member y) ((k, a) :: r)) with (le_member y (k, a) && forallb (le_member y) r)%bool.
  reflexivity.
Qed.

(* ====================================================================== *)
(* the round-trip relation                                                *)
(* ====================================================================== *)
Inductive rel : json -> json -> Prop :=
| rel_null : rel JNull JNull
| rel_bool b : rel (JBool b) (JBool b)
| rel_num m e m' e' : num_norm m e = num_norm m' e' -> rel (JNum m e) (JNum m' e')
| rel_str s : rel (JStr s) (JStr s)
| rel_arr l l' : Forall2 rel l l' -> rel (JArr l) (JArr l')
| rel_obj ms ms' :
    NoDup (map fst ms') ->
    (forall k x, In (k, x) ms -> (exists y, In (k, y) ms' /\ rel x y) \/ (x = JNull /\ ~ In k (map fst ms'))) ->
    (forall k, In k (map fst ms') -> In k (map fst ms)) ->
    rel (JObj ms) (JObj ms').

Lemma wf_obj ms : json_wf (JObj ms) = true -> NoDup (map fst ms) /\ forall k x, In (k, x) ms -> json_wf x = true.
Proof.
  simpl. rewrite andb_true_iff, str_nodup_NoDup, forallb_forall. intros [A B]. split; auto.
  intros k x H. exact (B _ H).
Qed.

Lemma rel_le_null : forall d e, json_wf d = true -> rel d e -> le_null (canon d) (canon e) = true.
Proof.
  induction d as [| | | |l IHl|l IHl] using json_ind'; intros e0 W R;
    inversion R as [ | | m1 e1 m2 e2 Hn | | l1 l2 HF2 | ms1 ms2 Hnd Hmem Hkeys]; subst.
  - reflexivity.
  - simpl. apply Bool.eqb_reflx.
  - simpl. rewrite Hn. destruct (num_norm m2 e2) as [a b]. simpl. rewrite !Z.eqb_refl. reflexivity.
  - simpl. apply String.eqb_refl.
  - change (le_null (JArr (map canon l)) (JArr (map canon l2)) = true). rewrite le_null_arr.
    simpl in W. clear R. revert IHl W. induction HF2 as [|x y r s Hxy Hrs IH]; intros HF W; simpl; auto.
    inversion HF as [|? ? Hx Hr]; subst. simpl in W. apply andb_true_iff in W. destruct W as [W1 W2].
    rewrite Hx by assumption. simpl. apply IH; auto.
  - destruct (wf_obj _ W) as [Nd Wf]. rewrite !canon_obj, le_null_obj. apply andb_true_iff. split.
    + apply forallb_forall. intros [k a] Hin. unfold le_member. simpl. rewrite find_member_afind.
      apply build_in in Hin. destruct Hin as [[x [Hx ->]]|[]].
      rewrite build_afind by assumption. simpl.
      destruct (Hmem _ _ Hx) as [[y [Hy Rxy]]|[-> Hn]].
      * rewrite (in_afind _ _ _ Hnd Hy). rewrite Forall_forall in IHl. apply (IHl (k, x) Hx); eauto.
      * apply afind_none in Hn. rewrite Hn. reflexivity.
    + apply forallb_forall. intros [k b] Hin. unfold has_member. simpl. rewrite find_member_afind.
      apply build_in in Hin. destruct Hin as [[y [Hy ->]]|[]].
      rewrite build_afind by assumption. simpl.
      assert (Hk : In k (map fst l)) by (apply Hkeys; apply (in_map fst) in Hy; exact Hy).
      destruct (afind k l) eqn:E; auto. apply afind_none in E. contradiction.
Qed.

Lemma rel_canon : forall j, json_wf j = true -> rel j (canon j).
Proof.
  induction j using json_ind'; intros W.
  - constructor.
  - constructor.
  - simpl. destruct (num_norm m e) as [a b] eqn:E. constructor. rewrite (num_norm_idem _ _ _ _ E). exact E.
  - constructor.
  - simpl. constructor. simpl in W. induction H as [|x r Hx Hr IH]; simpl; constructor.
    + apply Hx. simpl in W. apply andb_true_iff in W. tauto.
    + apply IH. simpl in W. apply andb_true_iff in W. tauto.
  - destruct (wf_obj _ W) as [Nd Wf]. rewrite canon_obj. constructor.
    + apply sorted_nodup. apply build_sorted. exact I.
    + intros k x Hx. left. exists (canon x). split.
      * apply afind_in. rewrite build_afind by assumption. rewrite (in_afind _ _ _ Nd Hx). reflexivity.
      * rewrite Forall_forall in H. apply (H (k, x) Hx). eauto.
    + intros k Hk. apply build_keys in Hk. destruct Hk as [Hk|[]]. exact Hk.
Qed.

Theorem rel_eq_mod_null d e : json_wf d = true -> rel d e -> json_eq_mod_null d e = true.
Proof. apply rel_le_null. Qed.

Definition jstr_of (j : json) : option string := match j with JStr s => Some s | _ => None end.
Lemma rel_jstr x y : rel x y -> jstr_of x = jstr_of y.
Proof. intros R; inversion R; reflexivity. Qed.
Lemma rel_null_iff x y : rel x y -> is_jnull x = is_jnull y.
Proof. intros R; inversion R; reflexivity. Qed.
