(* C01 front-end, CUE: the first-touch order `cue_order s` (Model/FrontEndCue.v) contains every definition name, for
   EVERY schema: the fuel of cue_visit is sufficient (each step either drops one name of the work list or moves one
   definition into `seen`, and the measure below decreases). *)
From Coq Require Import List String ZArith Bool Ascii Arith Lia.
From Cog Require Import Model.IR Model.Json Model.GoSemBase Model.GoSemValidate Model.Src Model.FrontEnd Model.FrontEndSpec
  Model.FrontEndCue Model.FrontEndSpecCue Model.FrontEndSpecCue2.
From Cog Require Import Proofs.FrontEndCueLeaves.
Import ListNotations.
Local Open Scope list_scope.
Local Open Scope string_scope.

Lemma cue_lookup_total defs k : In k (map fst defs) -> exists t, src_lookup defs k = Some t.
Proof.
  induction defs as [|[k' t'] r IH]; simpl; intro H; [tauto|].
  destruct (seqb k' k) eqn:E; [eexists; reflexivity|].
  destruct H as [H|H]; [subst; rewrite cue_seqb_refl in E; discriminate|auto].
Qed.

Lemma cue_str_in_app k a b : str_in k (a ++ b) = (str_in k a || str_in k b)%bool.
Proof. induction a as [|x r IH]; simpl; auto. rewrite IH. apply orb_assoc. Qed.

Lemma cue_visit_mono defs : forall fuel todo seen x, In x seen -> In x (cue_visit defs fuel todo seen).
Proof.
  induction fuel as [|f IH]; intros todo seen x I; simpl; auto.
  destruct todo as [|n r]; auto.
  destruct (str_in n seen); auto.
  destruct (src_lookup defs n); auto.
  apply IH. apply in_or_app. auto.
Qed.

(* the work still to be done for the definitions not seen yet *)
Fixpoint cue_pend (defs : list (string * src_ty)) (seen : list string) : nat :=
  match defs with
  | [] => 0%nat
  | (k, t) :: r => ((if str_in k seen then 0 else S (List.length (refs_of t))) + cue_pend r seen)%nat
  end.

Lemma cue_pend_mono defs seen n : (cue_pend defs (seen ++ [n]) <= cue_pend defs seen)%nat.
Proof.
  induction defs as [|[k t] r IH]; simpl; auto.
  rewrite cue_str_in_app. destruct (str_in k seen); simpl; [lia|].
  destruct (String.eqb n k || false)%bool; lia.
Qed.

Lemma cue_pend_add defs seen n t : src_lookup defs n = Some t -> str_in n seen = false ->
  (cue_pend defs (seen ++ [n]) + S (List.length (refs_of t)) <= cue_pend defs seen)%nat.
Proof.
  induction defs as [|[k t0] r IH]; simpl; intros L NS; [discriminate|].
  destruct (seqb k n) eqn:E.
  - apply cue_seqb_eq in E. subst k. inversion L. subst t0.
    rewrite cue_str_in_app, NS. simpl. rewrite String.eqb_refl. simpl.
    pose proof (cue_pend_mono r seen n). lia.
  - specialize (IH L NS). rewrite cue_str_in_app. destruct (str_in k seen); simpl; [lia|].
    destruct (String.eqb n k || false)%bool; lia.
Qed.

Lemma cue_pend_nil defs :
  cue_pend defs [] = (List.length defs + List.length (flat_map (fun d => refs_of (snd d)) defs))%nat.
Proof. induction defs as [|[k t] r IH]; simpl; auto. rewrite IH, app_length. lia. Qed.

Lemma cue_visit_reaches defs : forall fuel todo seen n,
  (List.length todo + cue_pend defs seen < fuel)%nat -> In n todo -> (exists t, src_lookup defs n = Some t) ->
  In n (cue_visit defs fuel todo seen).
Proof.
  induction fuel as [|f IH]; intros todo seen n HF I [t L]; [lia|].
  destruct todo as [|n0 r]; [destruct I|]. cbn [cue_visit]. simpl in HF.
  destruct (str_in n0 seen) eqn:S0.
  - destruct I as [I|I].
    + subst n0. apply cue_visit_mono. apply cue_str_in_In. exact S0.
    + apply IH; [lia|exact I|exists t; exact L].
  - destruct (src_lookup defs n0) as [t0|] eqn:L0.
    + destruct I as [I|I].
      * subst n0. apply cue_visit_mono. apply in_or_app. right. left. reflexivity.
      * apply IH; [|apply in_or_app; auto|exists t; exact L].
        rewrite app_length. pose proof (cue_pend_add defs seen n0 t0 L0 S0). lia.
    + destruct I as [I|I].
      * subst n0. rewrite L in L0. discriminate.
      * apply IH; [lia|exact I|exists t; exact L].
Qed.

Lemma cue_order_complete_holds s : cue_order_complete s = true.
Proof.
  unfold cue_order_complete. apply forallb_forall. intros d I. apply cue_str_in_In. unfold cue_order.
  assert (IM : In (fst d) (map fst (src_defs s))) by (apply in_map; exact I).
  apply cue_visit_reaches.
  - rewrite map_length, cue_pend_nil. lia.
  - exact IM.
  - apply cue_lookup_total. exact IM.
Qed.
