(* Lemmas about the veneers model (coq/Model/Veneers.v, VeneersSpec.v). *)
From Coq Require Import List String Bool ZArith Lia.
From Cog Require Import Model.IR Model.IREq Model.Builders Model.BuildersEq Model.Veneers Model.VeneersSpec
                        Proofs.TyInd Proofs.EqRefl.
Import ListNotations.
Local Open Scope string_scope.
Local Open Scope list_scope.

(* ---------------------------------------------------------------- generic list / monad lemmas *)
Lemma map_mapi_from {A B C} (f : B -> C) (g : nat -> A -> B) n l :
  map f (mapi_from g n l) = mapi_from (fun i x => f (g i x)) n l.
Proof. revert n. induction l as [|x r IH]; intros n; simpl; [reflexivity|]. rewrite IH. reflexivity. Qed.

Lemma mapi_from_id {A} (g : nat -> A -> A) n l : (forall i x, g i x = x) -> mapi_from g n l = l.
Proof. intros H. revert n. induction l as [|x r IH]; intros n; simpl; [reflexivity|]. rewrite H, IH. reflexivity. Qed.

Lemma mapi_from_ext {A B} (f g : nat -> A -> B) n l : (forall i x, f i x = g i x) -> mapi_from f n l = mapi_from g n l.
Proof. intros H. revert n. induction l as [|x r IH]; intros n; simpl; [reflexivity|]. rewrite H, IH. reflexivity. Qed.

Lemma mapi_from_length {A B} (f : nat -> A -> B) n l : List.length (mapi_from f n l) = List.length l.
Proof. revert n. induction l as [|x r IH]; intros n; simpl; [reflexivity|]. rewrite IH. reflexivity. Qed.

Lemma mapi_from_snd {A} n (l : list A) : map snd (mapi_from (fun i x => (i, x)) n l) = l.
Proof. rewrite map_mapi_from. apply mapi_from_id. reflexivity. Qed.

Lemma in_mapi_from {A B} (f : nat -> A -> B) n l y : In y (mapi_from f n l) -> exists i x, In x l /\ y = f i x.
Proof.
  revert n. induction l as [|x r IH]; intros n H; simpl in H; [contradiction|].
  destruct H as [H|H]; [exists n, x; split; [left; reflexivity|symmetry; exact H]|].
  destruct (IH _ H) as (i & x' & Hin & E). exists i, x'. split; [right; exact Hin|exact E].
Qed.

Lemma mapM_ok_forall2 {A B} (f : A -> res B) l r : mapM f l = Ok r -> Forall2 (fun x y => f x = Ok y) l r.
Proof.
  revert r. induction l as [|x t IH]; intros r H; simpl in H.
  - inversion H. constructor.
  - destruct (f x) as [y| | |] eqn:E; simpl in H; try discriminate.
    destruct (mapM f t) as [ys| | |] eqn:E2; simpl in H; try discriminate.
    inversion H; subst. constructor; [assumption|apply IH; reflexivity].
Qed.

Lemma mapM_ok_map {A B} (f : A -> res B) (g : A -> B) l : (forall x, In x l -> f x = Ok (g x)) -> mapM f l = Ok (map g l).
Proof.
  induction l as [|x t IH]; intros H; simpl; [reflexivity|].
  rewrite (H x (or_introl eq_refl)). simpl. rewrite IH; [reflexivity|]. intros y Hy. apply H. right. exact Hy.
Qed.

Lemma forall2_in_l {A B} (R : A -> B -> Prop) l r x : Forall2 R l r -> In x l -> exists y, In y r /\ R x y.
Proof.
  intros H. induction H as [|a b l r Hab _ IH]; intros Hin; [contradiction|].
  destruct Hin as [->|Hin]; [exists b; split; [left; reflexivity|exact Hab]|].
  destruct (IH Hin) as (y & Hy & Hr). exists y. split; [right; exact Hy|exact Hr].
Qed.

Lemma forall2_in_r {A B} (R : A -> B -> Prop) l r y : Forall2 R l r -> In y r -> exists x, In x l /\ R x y.
Proof.
  intros H. induction H as [|a b l r Hab _ IH]; intros Hin; [contradiction|].
  destruct Hin as [->|Hin]; [exists a; split; [left; reflexivity|exact Hab]|].
  destruct (IH Hin) as (x & Hx & Hr). exists x. split; [right; exact Hx|exact Hr].
Qed.

(* ---------------------------------------------------------------- erase after (re)labelling is the identity:
   Builder.DeepCopy / Option.DeepCopy return the same value *)
Lemma erase_label_asg l a : erase_asg (label_asg l a) = a.
Proof.
  destruct a as [p v m cs ncs]. destruct v as [arg c env]. unfold label_asg, erase_asg. simpl.
  destruct arg; reflexivity.
Qed.

Lemma erase_label_asgs base l : map erase_asg (label_asgs base l) = l.
Proof.
  unfold label_asgs, mapi. rewrite map_mapi_from. apply mapi_from_id. intros. apply erase_label_asg.
Qed.

Lemma erase_label_option base o : erase_option (label_option base o) = o.
Proof. destruct o. unfold erase_option, label_option. simpl. rewrite erase_label_asgs. reflexivity. Qed.

Lemma erase_label_builder base b : erase_builder (label_builder base b) = b.
Proof.
  destruct b as [f p n ps [ca cas] os fs]. unfold erase_builder, label_builder, erase_ctor. simpl.
  rewrite erase_label_asgs. unfold mapi. rewrite map_mapi_from.
  rewrite (mapi_from_id (fun i x => erase_option (label_option (base ++ [S i]) x))); [reflexivity|].
  intros. apply erase_label_option.
Qed.

Lemma erase_label_builders t bs : erase_builders (label_builders t bs) = bs.
Proof.
  unfold erase_builders, label_builders, mapi. rewrite map_mapi_from. apply mapi_from_id. intros. apply erase_label_builder.
Qed.

Lemma erase_option_deep_copy base o : erase_option (option_deep_copy base o) = erase_option o.
Proof. apply erase_label_option. Qed.
Lemma erase_builder_deep_copy base b : erase_builder (builder_deep_copy base b) = erase_builder b.
Proof. apply erase_label_builder. Qed.

(* ---------------------------------------------------------------- contracts of the builder rules *)
(* omit removes exactly the selected builders, keeps the others in order *)
Lemma omit_rule_spec ss t s bs bs' :
  apply_builder_rule ss t (BROmit s) bs = Ok bs' -> bs' = filter (fun b => negb (sel_builder ss s b)) bs.
Proof. simpl. intros H. inversion H. reflexivity. Qed.

Lemma omit_removes_builders ss t s bs bs' :
  apply_builder_rule ss t (BROmit s) bs = Ok bs' ->
  (forall b, In b bs' -> sel_builder ss s b = false /\ In b bs) /\
  (forall b, In b bs -> sel_builder ss s b = false -> In b bs').
Proof.
  intros H. apply omit_rule_spec in H. subst. split.
  - intros b Hb. apply filter_In in Hb. destruct Hb as [Hin Hs]. split; [|exact Hin].
    destruct (sel_builder ss s b); [discriminate|reflexivity].
  - intros b Hin Hs. apply filter_In. split; [exact Hin|]. rewrite Hs. reflexivity.
Qed.

(* rename: a map; a selected builder changes in its name only, the others not at all *)
Lemma rename_rule_spec ss t s n bs bs' :
  apply_builder_rule ss t (BRRename s n) bs = Ok bs' ->
  bs' = map (fun b => if sel_builder ss s b then set_name b n else b) bs.
Proof. simpl. intros H. inversion H. reflexivity. Qed.

Lemma set_name_only_name b n :
  lb_name (set_name b n) = n /\ lb_for (set_name b n) = lb_for b /\ lb_pkg (set_name b n) = lb_pkg b /\
  lb_props (set_name b n) = lb_props b /\ lb_ctor (set_name b n) = lb_ctor b /\
  lb_options (set_name b n) = lb_options b /\ lb_factories (set_name b n) = lb_factories b.
Proof. repeat split. Qed.

(* duplicate: the builders, followed by one copy per selected builder, equal to it in every field
   but the name (constructor, properties, options with their defaults, factories) *)
Definition ewith_name (b : builder) (n : string) : builder :=
  mkBuilder (b_for b) (b_pkg b) n (b_props b) (b_ctor b) (b_options b) (b_factories b).

Lemma erase_set_name b n : erase_builder (set_name b n) = ewith_name (erase_builder b) n.
Proof. reflexivity. Qed.

Lemma flat_map_mapi_sel {A B} (sel : A -> bool) (g : nat -> A -> B) (h : A -> B) n l :
  (forall i x, g i x = h x) ->
  flat_map (fun ib : nat * A => if sel (snd ib) then [g (fst ib) (snd ib)] else []) (mapi_from (fun i b => (i, b)) n l)
  = map h (filter sel l).
Proof.
  intros H. revert n. induction l as [|x r IH]; intros n; simpl; [reflexivity|].
  destruct (sel x); simpl; rewrite IH; [rewrite H|]; reflexivity.
Qed.

Lemma map_flat_map' {A B C} (f : B -> C) (g : A -> list B) l : map f (flat_map g l) = flat_map (fun x => map f (g x)) l.
Proof. induction l as [|x r IH]; simpl; [reflexivity|]. rewrite map_app, IH. reflexivity. Qed.

Lemma duplicate_rule_spec ss t s n bs bs' :
  apply_builder_rule ss t (BRDuplicate s n []) bs = Ok bs' ->
  erase_builders bs' = erase_builders bs ++ map (fun b => ewith_name (erase_builder b) n) (filter (sel_builder ss s) bs).
Proof.
  simpl. intros H. inversion H; subst; clear H. unfold duplicate_rule, erase_builders. rewrite map_app. f_equal.
  unfold mapi. rewrite map_flat_map'.
  rewrite (flat_map_ext _ (fun ib : nat * lbuilder => if sel_builder ss s (snd ib)
                             then [(fun i b => ewith_name (erase_builder b) n) (fst ib) (snd ib)] else [])).
  - apply (flat_map_mapi_sel (sel_builder ss s) (fun (_ : nat) b => ewith_name (erase_builder b) n)
                                (fun b => ewith_name (erase_builder b) n)). reflexivity.
  - intros [i b]. simpl. destruct (sel_builder ss s b); [|reflexivity]. simpl.
    rewrite erase_set_name, erase_builder_deep_copy. reflexivity.
Qed.

Lemma erase_filter_options (p : string -> bool) os :
  map erase_option (filter (fun o => p (lo_name o)) os) = filter (fun o => p (op_name o)) (map erase_option os).
Proof. induction os as [|o r IH]; simpl; [reflexivity|]. destruct (p (lo_name o)); simpl; rewrite IH; reflexivity. Qed.

Definition ewith_options (b : builder) (os : list boption) : builder :=
  mkBuilder (b_for b) (b_pkg b) (b_name b) (b_props b) (b_ctor b) os (b_factories b).

Lemma erase_set_options_filter (p : string -> bool) d :
  erase_builder (set_options d (filter (fun o => p (lo_name o)) (lb_options d)))
  = ewith_options (erase_builder d) (filter (fun o => p (op_name o)) (b_options (erase_builder d))).
Proof. unfold erase_builder, set_options, ewith_options. simpl. rewrite erase_filter_options. reflexivity. Qed.

(* with excluded options: the copy lacks exactly the options named (case-insensitively) *)
Lemma duplicate_rule_spec_excl ss t s n e excl bs bs' :
  apply_builder_rule ss t (BRDuplicate s n (e :: excl)) bs = Ok bs' ->
  erase_builders bs' = erase_builders bs ++
    map (fun b => ewith_options (ewith_name (erase_builder b) n)
                    (filter (fun o => negb (string_in_list_equal_fold (op_name o) (e :: excl))) (b_options (erase_builder b))))
        (filter (sel_builder ss s) bs).
Proof.
  cbn [apply_builder_rule]. intros H. inversion H; subst; clear H. unfold duplicate_rule, erase_builders. rewrite map_app. f_equal.
  unfold mapi. rewrite map_flat_map'.
  rewrite (flat_map_ext _ (fun ib : nat * lbuilder => if sel_builder ss s (snd ib)
     then [(fun (i : nat) b => ewith_options (ewith_name (erase_builder b) n)
                    (filter (fun o => negb (string_in_list_equal_fold (op_name o) (e :: excl))) (b_options (erase_builder b))))
            (fst ib) (snd ib)] else [])).
  - apply (flat_map_mapi_sel (sel_builder ss s)
       (fun (_ : nat) b => ewith_options (ewith_name (erase_builder b) n)
                    (filter (fun o => negb (string_in_list_equal_fold (op_name o) (e :: excl))) (b_options (erase_builder b))))
       (fun b => ewith_options (ewith_name (erase_builder b) n)
                    (filter (fun o => negb (string_in_list_equal_fold (op_name o) (e :: excl))) (b_options (erase_builder b))))).
    reflexivity.
  - intros [i b]. cbn [snd fst]. destruct (sel_builder ss s b); [|reflexivity]. cbn [map]. f_equal.
    set (d := set_name (builder_deep_copy [t; i] b) n).
    change (lb_options d) with (lb_options d).
    rewrite (erase_set_options_filter (fun nm => negb (string_in_list_equal_fold nm (e :: excl))) d).
    unfold d. rewrite erase_set_name, erase_builder_deep_copy. reflexivity.
Qed.

(* ---------------------------------------------------------------- frame of the builder rules: a builder
   the rule's selector does not select is still there, identical *)
Lemma in_map_if {A} (sel : A -> bool) (f : A -> A) l b : In b l -> sel b = false -> In b (map (fun x => if sel x then f x else x) l).
Proof. intros Hin Hs. apply in_map_iff. exists b. rewrite Hs. split; [reflexivity|exact Hin]. Qed.

Lemma in_mapM_if {A} (sel : A -> bool) (f : A -> res A) l l' b :
  mapM (fun x => if sel x then f x else Ok x) l = Ok l' -> In b l -> sel b = false -> In b l'.
Proof.
  intros H Hin Hs. apply mapM_ok_forall2 in H. destruct (forall2_in_l _ _ _ _ H Hin) as (y & Hy & E).
  rewrite Hs in E. inversion E; subst. exact Hy.
Qed.

Lemma in_set_nth_other {A} i (x b : A) l : In b l -> (forall y, nth_error l i = Some y -> y <> b) -> In b (set_nth i x l).
Proof.
  revert i. induction l as [|y r IH]; intros i Hin Hne; [contradiction|].
  destruct i as [|j]; simpl.
  - destruct Hin as [->|Hin]; [exfalso; apply (Hne b); reflexivity|right; exact Hin].
  - destruct Hin as [->|Hin]; [left; reflexivity|right]. apply IH; [exact Hin|]. intros z Hz. apply Hne. exact Hz.
Qed.

Lemma map_to_selected_go_frame sel f todo i bs bs' b :
  map_to_selected_go sel f todo i bs = Ok bs' -> In b bs -> sel b = false -> In b bs'.
Proof.
  revert i bs. induction todo as [|t IH]; intros i bs H Hin Hs; simpl in H.
  - inversion H; subst. exact Hin.
  - destruct (nth_error bs i) as [bi|] eqn:En; [|inversion H; subst; exact Hin].
    destruct (sel bi) eqn:Esb.
    + destruct (f bs bi) as [nb| | |]; simpl in H; try discriminate.
      apply (IH _ _ H); [|exact Hs]. apply in_set_nth_other; [exact Hin|].
      intros y Hy Heq. rewrite En in Hy. inversion Hy; subst. rewrite Esb in Hs. discriminate.
    + apply (IH _ _ H); assumption.
Qed.

Lemma builder_rule_frame ss t r bs bs' b :
  apply_builder_rule ss t r bs = Ok bs' -> In b bs -> sel_builder ss (brule_selector r) b = false -> In b bs'.
Proof.
  destruct r as [s|s n|s src under excl ren|s c|s ps|s n excl|s set|s names|s o|s f]; cbn [apply_builder_rule brule_selector]; intros H Hin Hs.
  - inversion H; subst. unfold omit_rule. apply filter_In. split; [exact Hin|]. rewrite Hs. reflexivity.
  - inversion H; subst. unfold rename_rule. apply in_map_if; assumption.
  - unfold merge_into_rule, map_to_selected in H. apply (map_to_selected_go_frame _ _ _ _ _ _ _ H); assumption.
  - unfold compose_rule in H. destruct (cut_dot (yc_source c)) as [[spkg sname]|]; [|discriminate].
    destruct (locate_by_object bs spkg sname); [|inversion H; subst; exact Hin].
    destruct (mapM _ _) as [composed| | |]; simpl in H; try discriminate. inversion H; subst.
    apply in_or_app. left. apply filter_In. split; [exact Hin|]. rewrite Hs. reflexivity.
  - inversion H; subst. unfold properties_rule. apply in_map_if; assumption.
  - inversion H; subst. unfold duplicate_rule. apply in_or_app. left. exact Hin.
  - unfold initialize_rule in H. apply (in_mapM_if _ _ _ _ _ H); assumption.
  - unfold promote_rule in H. apply (in_mapM_if _ _ _ _ _ H); assumption.
  - unfold add_option_rule in H. apply (in_mapM_if _ _ _ _ _ H); assumption.
  - unfold add_factory_rule in H. apply (in_mapM_if _ _ _ _ _ H); assumption.
Qed.

(* ---------------------------------------------------------------- a write that reaches no holder changes nothing *)
Lemma label_eqb_refl l : label_eqb l l = true.
Proof. unfold label_eqb. apply leqb_refl_all. apply Nat.eqb_refl. Qed.

Lemma apply_effect_asg_nohit e a : effect_hits_asg e a = false -> apply_effect_asg e a = a.
Proof.
  unfold effect_hits_asg, apply_effect_asg. destruct (la_arg a) as [[l arg]|]; [|reflexivity].
  destruct e as [l' v|l' n|l' i n]; intros H; try rewrite H; reflexivity.
Qed.

Lemma map_id_on {A} (f : A -> A) l : (forall x, In x l -> f x = x) -> map f l = l.
Proof. induction l as [|x r IH]; intros H; simpl; [reflexivity|]. rewrite H by (left; reflexivity). rewrite IH; [reflexivity|]. intros y Hy. apply H. right. exact Hy. Qed.

Lemma existsb_false_in {A} (p : A -> bool) l x : existsb p l = false -> In x l -> p x = false.
Proof.
  intros H Hin. destruct (p x) eqn:E; [|reflexivity].
  assert (existsb p l = true) by (apply existsb_exists; exists x; split; assumption). congruence.
Qed.

Lemma apply_effect_opt_nohit e o : effect_hits_opt e o = false -> apply_effect_opt e o = o.
Proof.
  unfold effect_hits_opt, apply_effect_opt. intros H. apply orb_false_iff in H. destruct H as [H1 H2].
  rewrite (map_id_on (apply_effect_asg e)).
  - destruct o as [n cs al args asgs d]. simpl in *. destruct e as [l v|l n'|l i n']; try reflexivity. rewrite H1. reflexivity.
  - intros a Ha. apply apply_effect_asg_nohit. apply (existsb_false_in _ _ _ H2 Ha).
Qed.

Lemma apply_effect_builder_nohit e b : effect_hits_builder e b = false -> apply_effect_builder e b = b.
Proof.
  unfold effect_hits_builder, apply_effect_builder. intros H. apply orb_false_iff in H. destruct H as [H1 H2].
  rewrite (map_id_on (apply_effect_asg e)), (map_id_on (apply_effect_opt e)).
  - destruct b as [f p n ps [ca cas] os fs]. reflexivity.
  - intros o Ho. apply apply_effect_opt_nohit. apply (existsb_false_in _ _ _ H2 Ho).
  - intros a Ha. apply apply_effect_asg_nohit. apply (existsb_false_in _ _ _ H1 Ha).
Qed.

Lemma apply_effects_builder_nohit es b : (forall e, In e es -> effect_hits_builder e b = false) -> apply_effects_builder es b = b.
Proof.
  unfold apply_effects_builder. induction es as [|e r IH]; intros H; simpl; [reflexivity|].
  rewrite apply_effect_builder_nohit by (apply H; left; reflexivity). apply IH. intros e' He'. apply H. right. exact He'.
Qed.

Lemma apply_effects_opt_nohit es o : (forall e, In e es -> effect_hits_opt e o = false) -> apply_effects_opt es o = o.
Proof.
  unfold apply_effects_opt. induction es as [|e r IH]; intros H; simpl; [reflexivity|].
  rewrite apply_effect_opt_nohit by (apply H; left; reflexivity). apply IH. intros e' He'. apply H. right. exact He'.
Qed.

Lemma effects_hit_ctx_false es c processed remaining :
  effects_hit_ctx es c processed remaining = false ->
  map (apply_effects_builder es) (cx_done c) = cx_done c /\ apply_effects_builder es (cx_cur c) = cx_cur c /\
  map (apply_effects_builder es) (cx_rest c) = cx_rest c /\
  map (apply_effects_opt es) processed = processed /\ map (apply_effects_opt es) remaining = remaining.
Proof.
  unfold effects_hit_ctx. intros H.
  assert (HE : forall e, In e es ->
             existsb (effect_hits_builder e) (cx_done c) = false /\ effect_hits_builder e (cx_cur c) = false /\
             existsb (effect_hits_builder e) (cx_rest c) = false /\ existsb (effect_hits_opt e) processed = false /\
             existsb (effect_hits_opt e) remaining = false).
  { intros e He. pose proof (existsb_false_in _ _ _ H He) as F. simpl in F.
    repeat (apply orb_false_iff in F; destruct F as [F ?]). repeat split; assumption. }
  repeat split.
  - apply map_id_on. intros b Hb. apply apply_effects_builder_nohit. intros e He. destruct (HE e He) as (A & _). apply (existsb_false_in _ _ _ A Hb).
  - apply apply_effects_builder_nohit. intros e He. destruct (HE e He) as (_ & A & _). exact A.
  - apply map_id_on. intros b Hb. apply apply_effects_builder_nohit. intros e He. destruct (HE e He) as (_ & _ & A & _). apply (existsb_false_in _ _ _ A Hb).
  - apply map_id_on. intros o Ho. apply apply_effects_opt_nohit. intros e He. destruct (HE e He) as (_ & _ & _ & A & _). apply (existsb_false_in _ _ _ A Ho).
  - apply map_id_on. intros o Ho. apply apply_effects_opt_nohit. intros e He. destruct (HE e He) as (_ & _ & _ & _ & A). apply (existsb_false_in _ _ _ A Ho).
Qed.

(* ---------------------------------------------------------------- applyOptionRules: as the code runs vs. without sharing *)
Definition option_step (ss : schemas) (t i : nat) (r : orule) (b : lbuilder) (ko : nat * loption) : res (list loption) :=
  if sel_option (or_sel r) b (snd ko)
  then do ar <- run_action ss t [t; i; fst ko] (or_action r) b (snd ko) ; Ok (fst ar)
  else Ok [snd ko].

Lemma process_options_flag_mono ss t i r b fuel : forall k c processed remaining c' out,
  process_options ss t i r b k c processed remaining fuel = Ok (c', out) -> cx_flag c = true -> cx_flag c' = true.
Proof.
  induction fuel as [|f IH]; intros k c processed remaining c' out H Hf.
  - destruct remaining; simpl in H; [inversion H; subst; exact Hf|discriminate].
  - destruct remaining as [|o rest]; simpl in H; [inversion H; subst; exact Hf|].
    destruct (sel_option (or_sel r) b o).
    + destruct (run_action ss t [t; i; k] (or_action r) b o) as [[newopts effs]| | |]; simpl in H; try discriminate.
      apply IH in H; [exact H|]. simpl. rewrite Hf. reflexivity.
    + apply IH in H; assumption.
Qed.

Lemma process_options_pure_agrees ss t i r b fuel : forall k c processed remaining c' out,
  process_options ss t i r b k c processed remaining fuel = Ok (c', out) -> cx_flag c' = false ->
  c' = c /\ exists outs, mapM (option_step ss t i r b) (mapi_from (fun k o => (k, o)) k remaining) = Ok outs /\
                         out = processed ++ List.concat outs.
Proof.
  induction fuel as [|f IH]; intros k c processed remaining c' out H Hf.
  - destruct remaining; simpl in H; [|discriminate]. inversion H; subst. split; [reflexivity|].
    exists []. split; [reflexivity|]. simpl. rewrite app_nil_r. reflexivity.
  - destruct remaining as [|o rest]; simpl in H.
    + inversion H; subst. split; [reflexivity|]. exists []. split; [reflexivity|]. simpl. rewrite app_nil_r. reflexivity.
    + simpl. unfold option_step at 1. simpl. destruct (sel_option (or_sel r) b o).
      * destruct (run_action ss t [t; i; k] (or_action r) b o) as [[newopts effs]| | |]; simpl in H; try discriminate.
        pose proof H as H0.
        destruct (effects_hit_ctx effs c processed rest) eqn:Eh.
        { apply process_options_flag_mono in H0; [congruence|]. simpl. rewrite orb_true_r. reflexivity. }
        destruct (cx_flag c) eqn:Ec.
        { apply process_options_flag_mono in H0; [congruence|]. reflexivity. }
        destruct (effects_hit_ctx_false _ _ _ _ Eh) as (E1 & E2 & E3 & E4 & E5).
        rewrite E1, E2, E3, E4, E5 in H. simpl in H.
        assert (Hc : {| cx_done := cx_done c; cx_cur := cx_cur c; cx_rest := cx_rest c; cx_flag := false |} = c)
          by (destruct c; simpl in *; subst; reflexivity).
        rewrite Hc in H. destruct (IH _ _ _ _ _ _ H Hf) as (Ec' & outs & Hm & Ho).
        split; [exact Ec'|]. exists (newopts :: outs). simpl. rewrite Hm. simpl. split; [reflexivity|].
        rewrite Ho. rewrite <- app_assoc. reflexivity.
      * destruct (IH _ _ _ _ _ _ H Hf) as (Ec' & outs & Hm & Ho).
        split; [exact Ec'|]. exists ([o] :: outs). simpl. rewrite Hm. simpl. split; [reflexivity|].
        rewrite Ho. rewrite <- app_assoc. reflexivity.
Qed.

Lemma process_options_pure_unfold ss t i r b :
  process_options_pure ss t i r b = do outs <- mapM (option_step ss t i r b) (mapi (fun k o => (k, o)) (lb_options b)) ; Ok (List.concat outs).
Proof. reflexivity. Qed.

Definition builder_step (ss : schemas) (t : nat) (r : orule) (ib : nat * lbuilder) : res lbuilder :=
  do os <- process_options_pure ss t (fst ib) r (snd ib) ; Ok (set_options (snd ib) os).

Lemma apply_option_rule_go_flag_mono ss t r fuel : forall done rest flag bs' fl,
  apply_option_rule_go ss t r done rest flag fuel = Ok (bs', fl) -> flag = true -> fl = true.
Proof.
  induction fuel as [|f IH]; intros done rest flag bs' fl H Hf.
  - destruct rest; simpl in H; [inversion H; subst; reflexivity|discriminate].
  - destruct rest as [|b rest']; simpl in H; [inversion H; subst; reflexivity|].
    destruct (process_options _ _ _ _ _ _ _ _ _ _) as [[c processed]| | |] eqn:Ep; simpl in H; try discriminate.
    apply (IH _ _ _ _ _ H). apply process_options_flag_mono in Ep; [exact Ep|]. simpl. exact Hf.
Qed.

Lemma apply_option_rule_go_pure_agrees ss t r fuel : forall done rest flag bs',
  apply_option_rule_go ss t r done rest flag fuel = Ok (bs', false) ->
  flag = false /\ exists outs, mapM (builder_step ss t r) (mapi_from (fun i b => (i, b)) (List.length done) rest) = Ok outs /\
                               bs' = done ++ outs.
Proof.
  induction fuel as [|f IH]; intros done rest flag bs' H.
  - destruct rest; simpl in H; [|discriminate]. inversion H; subst. split; [reflexivity|]. exists []. split; [reflexivity|].
    rewrite app_nil_r. reflexivity.
  - destruct rest as [|b rest']; simpl in H.
    + inversion H; subst. split; [reflexivity|]. exists []. split; [reflexivity|]. rewrite app_nil_r. reflexivity.
    + destruct (process_options _ _ _ _ _ _ _ _ _ _) as [[c processed]| | |] eqn:Ep; simpl in H; try discriminate.
      destruct (IH _ _ _ _ H) as (Hfc & outs & Hm & Hb).
      destruct (process_options_pure_agrees _ _ _ _ _ _ _ _ _ _ _ _ Ep Hfc) as (Ec & pouts & Hpm & Hpo).
      subst c. simpl in *. split; [exact Hfc|].
      exists (set_options b processed :: outs). split.
      * unfold builder_step at 1. simpl. rewrite process_options_pure_unfold. unfold mapi. rewrite Hpm. simpl.
        rewrite Hpo. simpl.
        rewrite app_length in Hm. simpl in Hm. rewrite Nat.add_1_r in Hm. rewrite Hm. reflexivity.
      * rewrite Hb. rewrite <- app_assoc. reflexivity.
Qed.

(* when no write reached a sharer, the rule did what it does on unshared data *)
Lemma apply_option_rule_pure_agrees ss t r bs flag bs' :
  apply_option_rule ss t r bs flag = Ok (bs', false) -> flag = false /\ apply_option_rule_pure ss t r bs = Ok bs'.
Proof.
  unfold apply_option_rule. intros H. destruct (apply_option_rule_go_pure_agrees _ _ _ _ _ _ _ _ H) as (Hf & outs & Hm & Hb).
  split; [exact Hf|]. unfold apply_option_rule_pure, mapi. simpl in Hm. subst bs'. exact Hm.
Qed.

(* ---------------------------------------------------------------- frame of the option rules (no sharing) *)

Lemma lsame_refl b : lsame_but_options b b.
Proof. repeat split. Qed.
Lemma lsame_trans a b c : lsame_but_options a b -> lsame_but_options b c -> lsame_but_options a c.
Proof. unfold lsame_but_options. intuition congruence. Qed.
Lemma lsame_set_options b os : lsame_but_options b (set_options b os).
Proof. repeat split. Qed.

(* selectors only read For, Package and Name of the builder *)
Lemma sel_builder_header ss s a b : lsame_but_options a b -> sel_builder ss s a = sel_builder ss s b.
Proof. intros (Hf & Hp & Hn & _). destruct s; simpl; rewrite ?Hf, ?Hn; reflexivity. Qed.
Lemma sel_option_header s a b o : lsame_but_options a b -> sel_option s a o = sel_option s b o.
Proof. intros (Hf & Hp & Hn & _). destruct s; simpl; rewrite ?Hf, ?Hn, ?Hp; reflexivity. Qed.

Lemma in_concat_of {A} (x : A) l ls : In l ls -> In x l -> In x (List.concat ls).
Proof. intros H1 H2. apply in_concat. exists l. split; assumption. Qed.

Lemma in_mapi_from_pair {A} (x : A) l : In x l -> forall n, exists k, In (k, x) (mapi_from (fun i y => (i, y)) n l).
Proof.
  induction l as [|y r IH]; intros Hin n; [contradiction|].
  destruct Hin as [->|Hin]; [exists n; left; reflexivity|]. destruct (IH Hin (S n)) as (k & Hk). exists k. right. exact Hk.
Qed.

Lemma process_options_pure_frame ss t i r b os' o :
  process_options_pure ss t i r b = Ok os' -> In o (lb_options b) -> sel_option (or_sel r) b o = false -> In o os'.
Proof.
  rewrite process_options_pure_unfold. intros H Hin Hs.
  destruct (mapM _ _) as [outs| | |] eqn:Em; simpl in H; try discriminate. inversion H; subst. clear H.
  apply mapM_ok_forall2 in Em.
  destruct (in_mapi_from_pair o _ Hin 0) as (k & Hk). destruct (forall2_in_l _ _ _ _ Em Hk) as (out & Hout & E).
  unfold option_step in E. simpl in E. rewrite Hs in E. inversion E; subst.
  apply (in_concat_of _ [o]); [exact Hout|left; reflexivity].
Qed.

Lemma apply_option_rule_pure_frame ss t r bs bs' b :
  apply_option_rule_pure ss t r bs = Ok bs' -> In b bs ->
  exists b', In b' bs' /\ lsame_but_options b b' /\
             forall o, In o (lb_options b) -> sel_option (or_sel r) b o = false -> In o (lb_options b').
Proof.
  unfold apply_option_rule_pure. intros H Hin. apply mapM_ok_forall2 in H.
  destruct (in_mapi_from_pair b _ Hin 0) as (i & Hi). destruct (forall2_in_l _ _ _ _ H Hi) as (b' & Hb' & E). simpl in E.
  destruct (process_options_pure ss t i r b) as [os'| | |] eqn:Ep; simpl in E; try discriminate. inversion E; subst.
  exists (set_options b os'). split; [exact Hb'|]. split; [apply lsame_set_options|].
  intros o Ho Hs. simpl. apply (process_options_pure_frame _ _ _ _ _ _ _ Ep Ho Hs).
Qed.
(* option rules keep every builder (same header), in order *)
Lemma apply_option_rule_pure_headers ss t r bs bs' :
  apply_option_rule_pure ss t r bs = Ok bs' -> Forall2 lsame_but_options bs bs'.
Proof.
  unfold apply_option_rule_pure, mapi. generalize 0. revert bs'.
  induction bs as [|b rr IH]; intros bs' n H; simpl in H.
  - inversion H. constructor.
  - destruct (process_options_pure ss t n r b) as [os'| | |]; simpl in H; try discriminate.
    destruct (mapM _ (mapi_from _ (S n) rr)) as [rest| | |] eqn:Em; simpl in H; try discriminate.
    inversion H; subst. constructor; [apply lsame_set_options|]. apply (IH _ _ Em).
Qed.

(* ---------------------------------------------------------------- frame of whole sequences *)
(* what is tracked: builder b of the input and a set `kept` of its options *)
Definition survives (b : lbuilder) (kept : list loption) (cur : list lbuilder) : Prop :=
  exists b', In b' cur /\ lsame_but_options b b' /\ forall o, In o kept -> In o (lb_options b').

Lemma survives_builder_rules ss b kept : forall rs t cur cur',
  apply_builder_rules ss t rs cur = Ok cur' ->
  (forall r, In r rs -> sel_builder ss (brule_selector r) b = false) ->
  survives b kept cur -> survives b kept cur'.
Proof.
  induction rs as [|r rest IH]; intros t cur cur' H Hsel Hs; simpl in H.
  - inversion H; subst. exact Hs.
  - destruct (apply_builder_rule ss t r cur) as [cur1| | |] eqn:E; simpl in H; try discriminate.
    apply (IH _ _ _ H); [intros r' Hr'; apply Hsel; right; exact Hr'|].
    destruct Hs as (b1 & Hin & Hsame & Hk). exists b1. split; [|split; assumption].
    apply (builder_rule_frame _ _ _ _ _ _ E Hin). rewrite <- (sel_builder_header ss _ b b1 Hsame). apply Hsel. left. reflexivity.
Qed.

Lemma option_rules_go_flag_mono ss : forall rs t cur flag cur' fl,
  apply_option_rules_go true ss t rs cur flag = Ok (cur', fl) -> flag = true -> fl = true.
Proof.
  induction rs as [|r rest IH]; intros t cur flag cur' fl H Hf; simpl in H.
  - inversion H; subst. reflexivity.
  - destruct (apply_option_rule ss t r cur flag) as [[cur1 fl1]| | |] eqn:E; simpl in H; try discriminate.
    apply (IH _ _ _ _ _ H). unfold apply_option_rule in E. apply (apply_option_rule_go_flag_mono _ _ _ _ _ _ _ _ _ E Hf).
Qed.

Lemma apply_language_flag_mono ss lrs l t cur flag cur' fl :
  apply_language true ss t lrs l cur flag = Ok (cur', fl) -> flag = true -> fl = true.
Proof.
  unfold apply_language, apply_option_rules. intros H Hf.
  destruct (apply_builder_rules _ _ _ _) as [cur1| | |]; simpl in H; try discriminate.
  destruct (apply_option_rules_go true ss _ _ cur1 flag) as [[cur2 fl2]| | |] eqn:E2; simpl in H; try discriminate.
  inversion H; subst. apply (option_rules_go_flag_mono _ _ _ _ _ _ _ E2 eq_refl).
Qed.

Lemma survives_option_rules_go ss b kept : forall rs t cur flag cur' ,
  apply_option_rules_go true ss t rs cur flag = Ok (cur', false) ->
  (forall r o, In r rs -> In o kept -> sel_option (or_sel r) b o = false) ->
  survives b kept cur -> survives b kept cur'.
Proof.
  induction rs as [|r rest IH]; intros t cur flag cur' H Hsel Hs; simpl in H.
  - inversion H; subst. exact Hs.
  - destruct (apply_option_rule ss t r cur flag) as [[cur1 fl1]| | |] eqn:E; simpl in H; try discriminate.
    simpl in H. destruct fl1.
    + apply option_rules_go_flag_mono in H; [discriminate|reflexivity].
    + destruct (apply_option_rule_pure_agrees _ _ _ _ _ _ E) as (Hf & Ep).
      apply (IH _ _ _ _ H); [intros r' o Hr' Ho; apply Hsel; [right; exact Hr'|exact Ho]|].
      destruct Hs as (b1 & Hin & Hsame & Hk).
      destruct (apply_option_rule_pure_frame _ _ _ _ _ _ Ep Hin) as (b2 & Hin2 & Hsame2 & Hk2).
      exists b2. split; [exact Hin2|]. split; [apply (lsame_trans _ _ _ Hsame Hsame2)|].
      intros o Ho. apply Hk2; [apply Hk; exact Ho|].
      rewrite <- (sel_option_header _ b b1 o Hsame). apply (Hsel r o); [left; reflexivity|exact Ho].
Qed.

Lemma survives_filter b kept cur : kept <> [] -> survives b kept cur -> survives b kept (filter has_options cur).
Proof.
  intros Hne (b1 & Hin & Hsame & Hk). exists b1. split; [|split; assumption].
  apply filter_In. split; [exact Hin|]. unfold has_options. destruct kept as [|o kk]; [contradiction|].
  specialize (Hk o (or_introl eq_refl)). destruct (lb_options b1); [contradiction|reflexivity].
Qed.

Lemma survives_language ss lrs l b kept t cur flag cur' :
  apply_language true ss t lrs l cur flag = Ok (cur', false) ->
  (forall r, In r (builder_rules_for l lrs) -> sel_builder ss (brule_selector r) b = false) ->
  (forall r o, In r (option_rules_for l lrs) -> In o kept -> sel_option (or_sel r) b o = false) ->
  kept <> [] -> survives b kept cur -> survives b kept cur'.
Proof.
  unfold apply_language, apply_option_rules. intros H Hb Ho Hne Hs.
  destruct (apply_builder_rules ss t (builder_rules_for l lrs) cur) as [cur1| | |] eqn:E1; simpl in H; try discriminate.
  destruct (apply_option_rules_go true ss _ _ cur1 flag) as [[cur2 fl2]| | |] eqn:E2; simpl in H; try discriminate.
  inversion H; subst.
  pose proof (survives_builder_rules _ _ kept _ _ _ _ E1 Hb Hs) as Hs1.
  apply survives_filter; [assumption|]. apply (survives_option_rules_go _ _ _ _ _ _ _ _ E2 Ho Hs1).
Qed.

(* the frame theorem on rule sequences, as the rewriter applies them: when no write reached a
   sharer, a builder no builder rule selects is still there with the same For, Package, Name,
   properties, constructor and factories, and with every option of it that no option rule selects *)
Theorem unselected_unchanged_rules ss lrs lang bs lbs' b kept :
  apply_to_rules true ss lrs lang bs = Ok (lbs', false) ->
  In b bs ->
  (forall r, In r (builder_rules_for all_languages lrs ++ builder_rules_for lang lrs) -> sel_builder ss (brule_selector r) b = false) ->
  (forall o, In o kept -> In o (lb_options b)) ->
  (forall r o, In r (option_rules_for all_languages lrs ++ option_rules_for lang lrs) -> In o kept -> sel_option (or_sel r) b o = false) ->
  kept <> [] ->
  exists b', In b' lbs' /\ lsame_but_options b b' /\ forall o, In o kept -> In o (lb_options b').
Proof.
  unfold apply_to_rules. intros H Hin Hb Hk Ho Hne.
  destruct (apply_language true ss 1 lrs all_languages bs false) as [[bs1 fl1]| | |] eqn:E1; simpl in H; try discriminate.
  destruct fl1; [apply apply_language_flag_mono in H; [discriminate|reflexivity]|].
  assert (Hs0 : survives b kept bs) by (exists b; split; [exact Hin|split; [apply lsame_refl|exact Hk]]).
  assert (Hs1 : survives b kept bs1).
  { apply (survives_language _ _ _ _ _ _ _ _ _ E1); try assumption.
    - intros r Hr. apply Hb. apply in_or_app. left. exact Hr.
    - intros r o Hr. apply Ho. apply in_or_app. left. exact Hr. }
  apply (survives_language _ _ _ _ _ _ _ _ _ H); try assumption.
  - intros r Hr. apply Hb. apply in_or_app. right. exact Hr.
  - intros r o Hr. apply Ho. apply in_or_app. right. exact Hr.
Qed.

(* ---------------------------------------------------------------- contracts of the option actions *)
Lemma mapM_mapi_from_ok {A B} (f : nat * A -> res B) (g : nat -> A -> B) l : forall n,
  (forall k x, In x l -> f (k, x) = Ok (g k x)) ->
  mapM f (mapi_from (fun k x => (k, x)) n l) = Ok (mapi_from g n l).
Proof.
  induction l as [|x r IH]; intros n H; simpl; [reflexivity|].
  rewrite (H n x (or_introl eq_refl)). simpl. rewrite IH; [reflexivity|]. intros k y Hy. apply H. right. exact Hy.
Qed.

(* an action that always succeeds with options g k o turns applyOptionRules into a flat map *)
Lemma process_options_pure_simple ss t i r b (g : nat -> loption -> list loption) :
  (forall k o, In o (lb_options b) -> sel_option (or_sel r) b o = true ->
               exists effs, run_action ss t [t; i; k] (or_action r) b o = Ok (g k o, effs)) ->
  process_options_pure ss t i r b
  = Ok (List.concat (mapi (fun k o => if sel_option (or_sel r) b o then g k o else [o]) (lb_options b))).
Proof.
  intros H. rewrite process_options_pure_unfold. unfold mapi.
  rewrite (mapM_mapi_from_ok _ (fun k o => if sel_option (or_sel r) b o then g k o else [o])); [reflexivity|].
  intros k o Ho. unfold option_step. simpl. destruct (sel_option (or_sel r) b o) eqn:Es; [|reflexivity].
  destruct (H k o Ho Es) as (effs & E). rewrite E. reflexivity.
Qed.

Lemma concat_mapi_filter {A} (sel : A -> bool) l : forall n,
  List.concat (mapi_from (fun (_ : nat) o => if sel o then [] else [o]) n l) = filter (fun o => negb (sel o)) l.
Proof. induction l as [|x r IH]; intros n; simpl; [reflexivity|]. rewrite IH. destruct (sel x); reflexivity. Qed.

Lemma concat_mapi_map {A} (sel : A -> bool) (f : A -> A) l : forall n,
  List.concat (mapi_from (fun (_ : nat) o => if sel o then [f o] else [o]) n l) = map (fun o => if sel o then f o else o) l.
Proof. induction l as [|x r IH]; intros n; simpl; [reflexivity|]. rewrite IH. destruct (sel x); reflexivity. Qed.

(* omit removes exactly the selected options *)
Lemma omit_option_spec ss t i s b :
  process_options_pure ss t i (mkORule s AOmit) b = Ok (filter (fun o => negb (sel_option s b o)) (lb_options b)).
Proof.
  rewrite (process_options_pure_simple _ _ _ _ _ (fun _ _ => [])).
  - simpl. unfold mapi. rewrite concat_mapi_filter. reflexivity.
  - intros. exists []. reflexivity.
Qed.

(* rename changes the name of the selected options and nothing else *)
Lemma rename_option_spec ss t i s n b :
  process_options_pure ss t i (mkORule s (ARename n)) b
  = Ok (map (fun o => if sel_option s b o then set_oname o n else o) (lb_options b)).
Proof.
  rewrite (process_options_pure_simple _ _ _ _ _ (fun _ o => [set_oname o n])).
  - simpl. unfold mapi. rewrite concat_mapi_map. reflexivity.
  - intros. exists []. reflexivity.
Qed.

Lemma add_comments_option_spec ss t i s cs b :
  process_options_pure ss t i (mkORule s (AAddComments cs)) b
  = Ok (map (fun o => if sel_option s b o then set_ocomments o (lo_comments o ++ cs) else o) (lb_options b)).
Proof.
  rewrite (process_options_pure_simple _ _ _ _ _ (fun _ o => [set_ocomments o (lo_comments o ++ cs)])).
  - simpl. unfold mapi. rewrite concat_mapi_map. reflexivity.
  - intros. exists []. reflexivity.
Qed.

(* duplicate (option): the option followed by a copy equal to it in everything but the name *)
Definition ewith_oname (o : boption) (n : string) : boption :=
  mkOption n (op_comments o) (op_args o) (op_assignments o) (op_default o).
Lemma duplicate_action_spec ss t base n b o :
  exists o', run_action ss t base (ADuplicate n) b o = Ok ([o; o'], []) /\ erase_option o' = ewith_oname (erase_option o) n.
Proof.
  eexists. split; [reflexivity|]. unfold erase_option at 1. simpl. rewrite erase_label_asgs. reflexivity.
Qed.

(* writes keep the path of every assignment *)
Lemma apply_effect_asg_path e a : la_path (apply_effect_asg e a) = la_path a.
Proof. unfold apply_effect_asg. destruct (la_arg a) as [[l x]|]; [|reflexivity]. destruct e; try destruct (label_eqb _ _); reflexivity. Qed.
Lemma apply_effects_asg_path es a : la_path (fold_left (fun y e => apply_effect_asg e y) es a) = la_path a.
Proof. revert a. induction es as [|e r IH]; intros a; simpl; [reflexivity|]. rewrite IH. apply apply_effect_asg_path. Qed.
Lemma apply_effect_asg_method e a : la_method (apply_effect_asg e a) = la_method a.
Proof. unfold apply_effect_asg. destruct (la_arg a) as [[l x]|]; [|reflexivity]. destruct e; try destruct (label_eqb _ _); reflexivity. Qed.

(* array_to_append: either nothing happens, or the option keeps its name and assigns the same
   paths, the first one now by appending one element of the array's value type *)
Lemma array_to_append_spec base o os effs :
  array_to_append_action base o = Ok (os, effs) ->
  (os = [o] /\ effs = []) \/
  exists a al v first rest o' first' rest',
    lo_args o = [a] /\ a_type a = TArray al v /\ lo_assignments o = first :: rest /\
    os = [o'] /\ lo_name o' = lo_name o /\ lo_comments o' = lo_comments o /\ lo_default o' = lo_default o /\
    lo_args o' = [mkArg (singularize (a_name a)) v] /\
    lo_assignments o' = first' :: rest' /\
    la_path first' = la_path first /\ la_method first' = "append" /\
    map la_path rest' = map la_path rest /\
    (forall l x, la_arg first = Some (l, x) -> la_arg first' = Some (l, mkArg (singularize (a_name a)) v)).
Proof.
  unfold array_to_append_action. destruct (lo_args o) as [|a [|a2 r2]] eqn:Ea; try (intros H; inversion H; left; split; reflexivity).
  destruct (a_type a) eqn:Et; try (intros H; inversion H; left; split; reflexivity).
  destruct (lo_assignments o) as [|first rest] eqn:Eas; [discriminate|].
  intros H. inversion H; subst; clear H. right.
  exists a. do 2 eexists. exists first, rest. do 3 eexists.
  split; [reflexivity|]. split; [exact Et|]. split; [reflexivity|]. repeat split; try reflexivity.
  - destruct (la_arg first) as [[l x]|]; reflexivity.
  - rewrite map_map. apply map_ext. intros x. apply apply_effects_asg_path.
  - intros l x Hl. rewrite Hl. reflexivity.
Qed.

(* map_to_index: the first assignment goes one level below the original path, at the index
   given by the new argument `key`; the value argument is one element of the map *)
Lemma map_to_index_spec base o os effs :
  map_to_index_action base o = Ok (os, effs) ->
  (os = [o] /\ effs = []) \/
  exists a al it vt first rest o' first' rest',
    lo_args o = [a] /\ a_type a = TMap al it vt /\ lo_assignments o = first :: rest /\
    os = [o'] /\ lo_name o' = lo_name o /\ lo_comments o' = lo_comments o /\ lo_default o' = lo_default o /\
    lo_args o' = [mkArg "key" it; mkArg (singularize (a_name a)) vt] /\
    lo_assignments o' = first' :: rest' /\
    la_path first' = la_path first ++ [mkPathItem "" (Some (mkPathIndex (Some (mkArg "key" it)) DNil)) vt None false] /\
    la_method first' = "index" /\ map la_path rest' = map la_path rest /\
    (forall l x, la_arg first = Some (l, x) -> la_arg first' = Some (l, mkArg (singularize (a_name a)) vt)).
Proof.
  unfold map_to_index_action. destruct (lo_args o) as [|a [|a2 r2]] eqn:Ea; try (intros H; inversion H; left; split; reflexivity).
  destruct (a_type a) eqn:Et; try (intros H; inversion H; left; split; reflexivity).
  destruct (lo_assignments o) as [|first rest] eqn:Eas; [discriminate|].
  intros H. inversion H; subst; clear H. right.
  exists a. do 3 eexists. exists first, rest. do 3 eexists.
  split; [reflexivity|]. split; [exact Et|]. split; [reflexivity|]. repeat split; try reflexivity.
  - rewrite map_map. apply map_ext. intros x. apply apply_effects_asg_path.
  - intros l x Hl. rewrite Hl. reflexivity.
Qed.

(* unfold_boolean: either nothing happens, or two argument-less options assign true and false
   to the very path the option assigned first *)
Lemma unfold_boolean_spec tn fn o os effs :
  unfold_boolean_action tn fn o = Ok (os, effs) ->
  effs = [] /\
  (os = [o] \/
   exists first rest d1 d2,
     lo_assignments o = first :: rest /\
     os = [mkLOpt tn (lo_comments o) [] [] [constant_lasg (la_path first) (DBool true)] d1;
           mkLOpt fn (lo_comments o) [] [] [constant_lasg (la_path first) (DBool false)] d2]).
Proof.
  unfold unfold_boolean_action. destruct (lo_assignments o) as [|first rest]; [discriminate|].
  destruct (last_item (la_path first)) as [it|]; [|discriminate].
  destruct (is_bool_scalar (pi_type it)); [|intros H; inversion H; split; [reflexivity|left; reflexivity]].
  destruct (match lo_default o with
            | None => Ok (None, None) | Some [] => Panic "index out of range [0] with length 0"
            | Some (DBool true :: _) => Ok (Some [], None) | Some (_ :: _) => Ok (None, Some []) end) as [[d1 d2]| | |];
    simpl; try discriminate.
  intros H. inversion H; subst. split; [reflexivity|]. right. do 4 eexists. split; reflexivity.
Qed.

(* struct_fields_as_options: every produced option has one argument (the field) and one direct
   assignment, to the field below the path the option assigned first *)
Lemma sfa_options_spec ss base explicit o os effs :
  struct_fields_as_options_action ss base explicit o = Ok (os, effs) ->
  effs = [] /\
  (os = [o] \/
   exists first rest, lo_assignments o = first :: rest /\
     forall o', In o' os ->
       exists f cs l, lo_name o' = f_name f /\ lo_comments o' = f_comments f /\ lo_args o' = [mkArg (f_name f) (f_type f)] /\
         lo_assignments o' = [mkLAsg (la_path first ++ path_from_struct_field f) (Some (l, mkArg (f_name f) (f_type f)))
                                     DNil None "direct" cs []]).
Proof.
  unfold struct_fields_as_options_action. destruct (lo_args o) as [|a0 others]; [intros H; inversion H; split; [reflexivity|left; reflexivity]|].
  destruct (first_arg_struct ss (a_type a0)) as [ | | | |sa dh fs| | | | | | ]; try (intros H; inversion H; split; [reflexivity|left; reflexivity]).
  destruct (lo_assignments o) as [|first rest]; [discriminate|].
  destruct (mapM _ _) as [opts| | |] eqn:Em; simpl; try discriminate.
  intros H. inversion H; subst. split; [reflexivity|]. right. exists first, rest. split; [reflexivity|].
  intros o' Ho'. apply mapM_ok_forall2 in Em. destruct (forall2_in_r _ _ _ _ Em Ho') as ([n f] & _ & E). simpl in E.
  destruct (with_type_constraints _ _) as [cs| | |]; simpl in E; try discriminate. inversion E; subst.
  exists f, cs, (base ++ [n; 1]). repeat split.
Qed.

(* struct_fields_as_arguments: every assignment of the result goes to the path the option assigned
   first (appending an envelope), to one field below it, or is one of the untouched other assignments *)
Lemma foldM_invariant {A B} (f : A -> B -> res A) (P : A -> Prop) l : forall a a',
  (forall a x a', P a -> f a x = Ok a' -> P a') -> foldM f l a = Ok a' -> P a -> P a'.
Proof.
  induction l as [|x r IH]; intros a a' Hstep H Hp; simpl in H.
  - inversion H; subst. exact Hp.
  - destruct (f a x) as [a1| | |] eqn:E; simpl in H; try discriminate. apply (IH _ _ Hstep H). apply (Hstep _ _ _ Hp E).
Qed.

Lemma sfa_arguments_spec ss base explicit o os effs :
  struct_fields_as_arguments_action ss base explicit o = Ok (os, effs) ->
  effs = [] /\
  (os = [o] \/
   exists first rest o', lo_assignments o = first :: rest /\ os = [o'] /\ lo_name o' = lo_name o /\ lo_comments o' = lo_comments o /\
     forall a', In a' (lo_assignments o') ->
       In a' rest \/ la_path a' = la_path first \/ exists it, la_path a' = la_path first ++ [it] /\ pi_index it = None).
Proof.
  unfold struct_fields_as_arguments_action. destruct (lo_args o) as [|a0 others]; [intros H; inversion H; split; [reflexivity|left; reflexivity]|].
  destruct (first_arg_struct ss (a_type a0)) as [ | | | |sa dh fs| | | | | | ]; try (intros H; inversion H; split; [reflexivity|left; reflexivity]).
  destruct (lo_assignments o) as [|first rest]; [discriminate|].
  destruct (last_item (la_path first)) as [lastit|]; [|discriminate].
  destruct (foldM _ _ _) as [acc| | |] eqn:Ef; simpl; try discriminate.
  intros H. inversion H; subst; clear H. split; [reflexivity|]. right. do 3 eexists. repeat split.
  assert (Hinv : Forall (fun a' => exists it, la_path a' = la_path first ++ [it] /\ pi_index it = None) (sa_asgs acc)).
  { eapply (foldM_invariant _ (fun acc => Forall (fun a' => exists it, la_path a' = la_path first ++ [it] /\ pi_index it = None) (sa_asgs acc)));
      [|exact Ef|constructor].
    intros a x a' Hp E. destruct x as [n f]. unfold sfa_field in E.
    destruct (is_array (pi_type lastit)); [inversion E; subst; exact Hp|].
    destruct (is_concrete_scalar _).
    - inversion E; subst. simpl. apply Forall_app. split; [exact Hp|]. constructor; [|constructor]. eexists. split; reflexivity.
    - destruct (with_type_constraints _ _) as [cs| | |]; simpl in E; try discriminate. inversion E; subst. simpl.
      apply Forall_app. split; [exact Hp|]. constructor; [|constructor]. eexists. split; reflexivity. }
  intros a' Ha'. simpl in Ha'.
  assert (Hcore : In a' (if is_array (pi_type lastit)
                         then [mkLAsg (la_path first) None DNil (Some (match pi_type lastit with TArray _ v => v | t => t end, sa_env acc)) "append" [] []]
                         else sa_asgs acc) -> la_path a' = la_path first \/ exists it, la_path a' = la_path first ++ [it] /\ pi_index it = None).
  { destruct (is_array (pi_type lastit)).
    - intros [<-|[]]. left. reflexivity.
    - intros Hin. right. rewrite Forall_forall in Hinv. apply Hinv. exact Hin. }
  destruct others as [|o2 oo].
  - right. apply Hcore. exact Ha'.
  - apply in_app_or in Ha'. destruct Ha' as [Ha'|Ha']; [right; apply Hcore; exact Ha'|left; exact Ha'].
Qed.

(* disjunction_as_options: every produced option assigns exactly the paths the option assigned,
   with the same methods *)
Lemma label_asgs_paths base l : map la_path (label_asgs base l) = map as_path l.
Proof.
  unfold label_asgs, mapi. rewrite map_mapi_from. generalize 0. induction l as [|a r IH]; intros n; simpl; [reflexivity|].
  rewrite IH. destruct a as [p [arg c env] m cs ncs]. reflexivity.
Qed.
Lemma label_asgs_methods base l : map la_method (label_asgs base l) = map as_method l.
Proof.
  unfold label_asgs, mapi. rewrite map_mapi_from. generalize 0. induction l as [|a r IH]; intros n; simpl; [reflexivity|].
  rewrite IH. destruct a as [p [arg c env] m cs ncs]. reflexivity.
Qed.
Lemma replace_first_using_paths n mk l :
  (forall a, la_path (mk a) = la_path a /\ la_method (mk a) = la_method a) ->
  map la_path (replace_first_using n mk l) = map la_path l /\ map la_method (replace_first_using n mk l) = map la_method l.
Proof.
  intros Hmk. induction l as [|a r [IH1 IH2]]; simpl; [split; reflexivity|].
  destruct (la_arg a) as [[l0 x]|]; [destruct (seqb (a_name x) n)|]; simpl; rewrite ?IH1, ?IH2;
    try (destruct (Hmk a) as [-> ->]); split; reflexivity.
Qed.

Lemma disjunction_branch_paths base n o idx target name arg dfl mk :
  (forall c a, la_path (mk c a) = la_path a /\ la_method (mk c a) = la_method a) ->
  map la_path (lo_assignments (disjunction_branch_option base n o idx target name arg dfl mk)) = map la_path (lo_assignments o) /\
  map la_method (lo_assignments (disjunction_branch_option base n o idx target name arg dfl mk)) = map la_method (lo_assignments o).
Proof.
  intros Hmk. unfold disjunction_branch_option. simpl.
  destruct (replace_first_using_paths (a_name target) (mk (base ++ [n; 0; 0])) (label_asgs (base ++ [n]) (map erase_asg (lo_assignments o))) (Hmk _)) as [-> ->].
  rewrite label_asgs_paths, label_asgs_methods, !map_map. split; reflexivity.
Qed.

Lemma disjunction_as_options_spec ss base idx o os effs :
  disjunction_as_options_action ss base idx o = Ok (os, effs) ->
  effs = [] /\ forall o', In o' os ->
    map la_path (lo_assignments o') = map la_path (lo_assignments o) /\
    map la_method (lo_assignments o') = map la_method (lo_assignments o).
Proof.
  unfold disjunction_as_options_action.
  assert (Hsame : forall os effs, Ok ([o], @nil effect) = Ok (os, effs) -> effs = [] /\ forall o', In o' os ->
            map la_path (lo_assignments o') = map la_path (lo_assignments o) /\ map la_method (lo_assignments o') = map la_method (lo_assignments o)).
  { intros os0 effs0 H. inversion H; subst. split; [reflexivity|]. intros o' [<-|[]]. split; reflexivity. }
  destruct (lo_args o) as [|a0 others] eqn:Ea; [apply Hsame|].
  destruct (idx <? 0)%Z; [discriminate|].
  destruct (nth_error (a0 :: others) (Z.to_nat idx)) as [target|]; [|discriminate].
  destruct (a_type target) as [da d| | | | |ra rp rn| | | | | ] eqn:Et; try apply Hsame.
  - intros H. inversion H; subst. split; [reflexivity|]. intros o' Ho'.
    apply in_mapi_from in Ho'. destruct Ho' as (n & br & _ & ->). apply disjunction_branch_paths. intros c a. split; reflexivity.
  - destruct (is_struct_generated_from_disjunction _); [|apply Hsame].
    intros H. inversion H; subst. split; [reflexivity|]. intros o' Ho'.
    apply in_mapi_from in Ho'. destruct Ho' as (n & f & _ & ->). apply disjunction_branch_paths. intros c a. split; reflexivity.
Qed.

(* ---------------------------------------------------------------- WT is kept by the rules that cannot break it *)

Definition lasg_ok (ss : schemas) (root : ty) (args : list argument) (a : lassignment) : bool :=
  assignment_ok ss root args (erase_asg a).
Definition lopt_ok (ss : schemas) (root : ty) (o : loption) : bool :=
  forallb (lasg_ok ss root (lo_args o)) (lo_assignments o).

Lemma forallb_map' {A B} (f : A -> B) (p : B -> bool) l : forallb p (map f l) = forallb (fun x => p (f x)) l.
Proof. induction l as [|x r IH]; simpl; [reflexivity|]. rewrite IH. reflexivity. Qed.
Lemma forallb_ext' {A} (p q : A -> bool) l : (forall x, p x = q x) -> forallb p l = forallb q l.
Proof. intros H. induction l as [|x r IH]; simpl; [reflexivity|]. rewrite H, IH. reflexivity. Qed.

Lemma lWT_unfold ss b :
  WT ss (erase_builder b) =
  forallb (lasg_ok ss (o_type (lb_for b)) (lc_args (lb_ctor b))) (lc_assignments (lb_ctor b)) &&
  forallb (lopt_ok ss (o_type (lb_for b))) (lb_options b).
Proof.
  unfold WT, erase_builder, erase_ctor. simpl. rewrite !forallb_map'. f_equal.
  apply forallb_ext'. intros o. unfold lopt_ok, erase_option. simpl. rewrite forallb_map'. reflexivity.
Qed.



Lemma resolve_to_type_nonref fuel ss t : is_ref t = false -> resolve_to_type fuel ss t = Ok t.
Proof. destruct fuel; destruct t; simpl; intros H; try reflexivity; discriminate. Qed.

Lemma resolve_total_nonref ss t : is_ref t = false -> resolve_total ss t = t.
Proof. intros H. unfold resolve_total. rewrite resolve_to_type_nonref by exact H. reflexivity. Qed.

Lemma resolve_total_ref ss a p n ob :
  locate_object ss p n = Some ob -> is_ref (o_type ob) = false -> resolve_total ss (TRef a p n) = o_type ob.
Proof.
  intros Hl Hn. unfold resolve_total, res_fuel. simpl. rewrite Hl. rewrite resolve_to_type_nonref by exact Hn. reflexivity.
Qed.

Lemma ty_eqb_nd_refl t : ty_eqb_nd t t = true.
Proof. unfold ty_eqb_nd. apply ty_eqb_refl. Qed.

Lemma locate_by_object_some bs p n rb :
  locate_by_object bs p n = Some rb -> In rb bs /\ o_selfpkg (lb_for rb) = p /\ o_selfname (lb_for rb) = n.
Proof.
  unfold locate_by_object. intros H. apply find_some in H. destruct H as [Hin Hb]. apply andb_true_iff in Hb.
  destruct Hb as [H1 H2]. apply String.eqb_eq in H1. apply String.eqb_eq in H2. auto.
Qed.

(* Builder.MakePath returns a chain of existing fields with the recorded types *)
Lemma make_path_go_ok ss bs : lconsistent ss bs -> forall parts cur acc p,
  make_path_go bs cur parts acc = Ok p ->
  exists suffix, p = acc ++ suffix /\ path_ok_go ss cur suffix = true /\ path_args suffix = [] /\ List.length suffix = List.length parts.
Proof.
  intros Hc. induction parts as [|part rest IH]; intros cur acc p H; simpl in H.
  - inversion H; subst. exists []. rewrite app_nil_r. repeat split.
  - destruct (match cur with
              | TRef _ p0 n => match locate_by_object bs p0 n with Some rb => Ok (o_type (lb_for rb)) | None => Err "reference could not be resolved" end
              | _ => Ok cur end) as [cur1| | |] eqn:E1; simpl in H; try discriminate.
    destruct cur1 as [ | | | |sa dh fs| | | | | | ]; try discriminate.
    destruct (field_by_name fs part) as [f|] eqn:Ef; [|discriminate].
    destruct (IH _ _ _ H) as (suffix & Hp & Hok & Hargs & Hlen).
    exists (mkPathItem part None (f_type f) None false :: suffix).
    split; [rewrite Hp, <- app_assoc; reflexivity|]. split; [|split; [exact Hargs|simpl; rewrite Hlen; reflexivity]].
    assert (Hres : resolve_total ss cur = TStruct sa dh fs).
    { destruct cur; try (inversion E1; subst; apply resolve_total_nonref; reflexivity).
      destruct (locate_by_object bs pkg name) as [rb|] eqn:El; [|discriminate].
      assert (E1' : o_type (lb_for rb) = TStruct sa dh fs) by congruence.
      destruct (locate_by_object_some _ _ _ _ El) as (Hin & <- & <-).
      rewrite (resolve_total_ref ss a _ _ (lb_for rb) (Hc rb Hin)); [exact E1'|rewrite E1'; reflexivity]. }
    simpl. rewrite Hres, Ef, ty_eqb_nd_refl. exact Hok.
Qed.

Lemma split_dots_acc_nonempty s cur : split_dots_acc s cur <> [].
Proof. revert cur. induction s as [|c r IH]; intros cur; simpl; [discriminate|]. destruct (Ascii.eqb c "."%char); [discriminate|apply IH]. Qed.

Lemma make_path_ok ss bs b s p : lconsistent ss bs -> make_path bs b s = Ok p ->
  path_ok ss (o_type (lb_for b)) p = true /\ path_args p = [].
Proof.
  intros Hc. unfold make_path. destruct (seqb s ""); [discriminate|]. intros H.
  destruct (make_path_go_ok ss bs Hc _ _ _ _ H) as (suffix & Hp & Hok & Hargs & Hlen). simpl in Hp. subst p.
  split; [|exact Hargs]. unfold path_ok. destruct suffix as [|it r]; [|exact Hok].
  exfalso. simpl in Hlen. unfold split_dots in Hlen. pose proof (split_dots_acc_nonempty s EmptyString) as Hne.
  destruct (split_dots_acc s EmptyString); [apply Hne; reflexivity|discriminate].
Qed.

(* what WT looks at: the object, the constructor and the options, up to labels *)
Lemma lopt_ok_erased ss root o :
  lopt_ok ss root o = forallb (assignment_ok ss root (lo_args o)) (map erase_asg (lo_assignments o)).
Proof. unfold lopt_ok, lasg_ok. rewrite forallb_map'. reflexivity. Qed.

Lemma lopt_ok_ext ss root o o' :
  lo_args o' = lo_args o -> map erase_asg (lo_assignments o') = map erase_asg (lo_assignments o) -> lopt_ok ss root o' = lopt_ok ss root o.
Proof. intros H1 H2. rewrite !lopt_ok_erased, H1, H2. reflexivity. Qed.

Lemma lWT_ext ss b b' :
  lb_for b' = lb_for b -> lb_ctor b' = lb_ctor b -> lb_options b' = lb_options b -> lWT ss b -> lWT ss b'.
Proof. unfold lWT. rewrite !lWT_unfold. intros -> -> ->. auto. Qed.

Lemma lWT_options ss b os :
  lWT ss b -> forallb (lopt_ok ss (o_type (lb_for b))) os = true -> lWT ss (set_options b os).
Proof.
  unfold lWT. rewrite !lWT_unfold. simpl. intros H Ho. apply andb_true_iff in H. destruct H as [H1 _]. rewrite H1, Ho. reflexivity.
Qed.

Lemma lWT_options_ok ss b : lWT ss b -> forallb (lopt_ok ss (o_type (lb_for b))) (lb_options b) = true.
Proof. unfold lWT. rewrite lWT_unfold. intros H. apply andb_true_iff in H. apply H. Qed.

Lemma lWT_deep_copy ss base b : lWT ss b -> lWT ss (builder_deep_copy base b).
Proof. unfold lWT. rewrite erase_builder_deep_copy. auto. Qed.

Lemma forallb_filter_sub {A} (p q : A -> bool) l : forallb p l = true -> forallb p (filter q l) = true.
Proof.
  rewrite !forallb_forall. intros H x Hx. apply filter_In in Hx. apply H. apply Hx.
Qed.

(* initialize *)
Lemma initialize_builder_wt ss bs set b b' :
  lconsistent ss bs -> initialize_builder bs set b = Ok b' -> lWT ss b -> lWT ss b' /\ lb_for b' = lb_for b.
Proof.
  intros Hc H Hw. unfold initialize_builder in H. destruct (mapM _ set) as [asgs| | |] eqn:Em; simpl in H; try discriminate.
  inversion H; subst. split; [|reflexivity]. unfold lWT in *. rewrite lWT_unfold in *. simpl.
  apply andb_true_iff in Hw. destruct Hw as [H1 H2]. rewrite H2, andb_true_r. rewrite forallb_app, H1. simpl.
  apply mapM_ok_forall2 in Em. apply forallb_forall. intros a Ha.
  destruct (forall2_in_r _ _ _ _ Em Ha) as ([ps v] & _ & E). simpl in E.
  destruct (make_path bs b ps) as [p| | |] eqn:Ep; simpl in E; try discriminate. inversion E; subst.
  destruct (make_path_ok _ _ _ _ _ Hc Ep) as [Hok Hargs].
  unfold lasg_ok, assignment_ok, erase_asg, constant_lasg, assignment_args. simpl. rewrite Hok, Hargs. reflexivity.
Qed.

Lemma forall_mapM_if {A} (P : A -> Prop) (sel : A -> bool) (f : A -> res A) l l' :
  mapM (fun x => if sel x then f x else Ok x) l = Ok l' -> Forall P l ->
  (forall x y, In x l -> P x -> f x = Ok y -> P y) -> Forall P l'.
Proof.
  intros H Hp Hf. apply mapM_ok_forall2 in H. apply Forall_forall. intros y Hy.
  destruct (forall2_in_r _ _ _ _ H Hy) as (x & Hx & E). rewrite Forall_forall in Hp.
  destruct (sel x); [apply (Hf x y Hx (Hp x Hx) E)|inversion E; subst; apply Hp; exact Hx].
Qed.

(* every rule of the safe group keeps: each builder well-typed, and each builder's object the schemas' *)
Lemma wt_safe_brule_preserves ss t r bs bs' :
  wt_safe_brule r = true -> apply_builder_rule ss t r bs = Ok bs' ->
  lconsistent ss bs -> Forall (lWT ss) bs -> lconsistent ss bs' /\ Forall (lWT ss) bs'.
Proof.
  intros Hsafe H Hc Hw.
  assert (Hboth : Forall (fun b => lWT ss b /\ locate_object ss (o_selfpkg (lb_for b)) (o_selfname (lb_for b)) = Some (lb_for b)) bs).
  { apply Forall_forall. intros b Hb. rewrite Forall_forall in Hw. split; [apply Hw; exact Hb|apply Hc; exact Hb]. }
  cut (Forall (fun b => lWT ss b /\ locate_object ss (o_selfpkg (lb_for b)) (o_selfname (lb_for b)) = Some (lb_for b)) bs').
  { intros Hf. rewrite Forall_forall in Hf. split; [intros b Hb; apply Hf; exact Hb|apply Forall_forall; intros b Hb; apply Hf; exact Hb]. }
  destruct r as [s|s n|s src under excl ren|s c|s ps|s n excl|s set|s names|s o|s f]; try discriminate; cbn [apply_builder_rule] in H.
  - inversion H; subst. unfold omit_rule. rewrite Forall_forall in *. intros b Hb. apply filter_In in Hb. apply Hboth. apply Hb.
  - inversion H; subst. unfold rename_rule. rewrite Forall_forall in *. intros b' Hb'. apply in_map_iff in Hb'.
    destruct Hb' as (b & <- & Hb). destruct (Hboth b Hb) as [H1 H2]. destruct (sel_builder ss s b); [|split; assumption].
    split; [apply (lWT_ext ss b); try reflexivity; exact H1|exact H2].
  - inversion H; subst. unfold properties_rule. rewrite Forall_forall in *. intros b' Hb'. apply in_map_iff in Hb'.
    destruct Hb' as (b & <- & Hb). destruct (Hboth b Hb) as [H1 H2]. destruct (sel_builder ss s b); [|split; assumption].
    split; [apply (lWT_ext ss b); try reflexivity; exact H1|exact H2].
  - inversion H; subst. unfold duplicate_rule. apply Forall_app. split; [exact Hboth|].
    rewrite Forall_forall in *. intros d Hd. apply in_flat_map in Hd. destruct Hd as ([i b] & Hib & Hd). simpl in Hd.
    destruct (sel_builder ss s b); [|contradiction]. destruct Hd as [<-|[]].
    assert (Hb : In b bs).
    { unfold mapi in Hib. apply in_mapi_from in Hib. destruct Hib as (i' & b0 & Hb0 & E). inversion E; subst. exact Hb0. }
    destruct (Hboth b Hb) as [H1 H2].
    assert (Hcopy : lWT ss (set_name (builder_deep_copy [t; i] b) n)).
    { apply (lWT_ext ss (builder_deep_copy [t; i] b)); try reflexivity. apply lWT_deep_copy. exact H1. }
    destruct excl as [|e ee]; [split; [exact Hcopy|exact H2]|]. split; [|exact H2].
    apply lWT_options; [exact Hcopy|]. apply forallb_filter_sub. apply lWT_options_ok. exact Hcopy.
  - unfold initialize_rule in H. apply (forall_mapM_if _ _ _ _ _ H Hboth). intros b b' Hb [H1 H2] E.
    destruct (initialize_builder_wt _ _ _ _ _ Hc E H1) as [Hw' Hfor]. split; [exact Hw'|rewrite Hfor; exact H2].
  - unfold add_factory_rule in H. apply (forall_mapM_if _ _ _ _ _ H Hboth). intros b b' Hb [H1 H2] E.
    destruct (lc_args (lb_ctor b)); [|discriminate]. inversion E; subst. split; [apply (lWT_ext ss b); try reflexivity; exact H1|exact H2].
Qed.

(* safe option actions: what they return, and that they write through nothing *)
Lemma wt_safe_action_result ss t base act b o root :
  wt_safe_action act = true -> lopt_ok ss root o = true ->
  exists os, run_action ss t base act b o = Ok (os, []) /\ forallb (lopt_ok ss root) os = true.
Proof.
  intros Hs Ho. destruct act; try discriminate; simpl.
  - exists []. split; reflexivity.
  - eexists. split; [reflexivity|]. simpl. rewrite andb_true_r. rewrite <- Ho. apply lopt_ok_ext; reflexivity.
  - eexists. split; [reflexivity|]. simpl. rewrite Ho. simpl. rewrite andb_true_r. rewrite <- Ho. apply lopt_ok_ext; [reflexivity|].
    simpl. rewrite erase_label_asgs. reflexivity.
  - eexists. split; [reflexivity|]. simpl. rewrite andb_true_r. rewrite <- Ho. apply lopt_ok_ext; reflexivity.
Qed.

Lemma process_options_pure_safe_wt ss t i r b os' :
  wt_safe_action (or_action r) = true -> process_options_pure ss t i r b = Ok os' ->
  forallb (lopt_ok ss (o_type (lb_for b))) (lb_options b) = true -> forallb (lopt_ok ss (o_type (lb_for b))) os' = true.
Proof.
  intros Hs H Ho. rewrite process_options_pure_unfold in H.
  destruct (mapM _ _) as [outs| | |] eqn:Em; simpl in H; try discriminate. inversion H; subst. clear H.
  apply mapM_ok_forall2 in Em. apply forallb_forall. intros o' Ho'. apply in_concat in Ho'. destruct Ho' as (out & Hout & Hin).
  destruct (forall2_in_r _ _ _ _ Em Hout) as ([k o] & Hko & E). unfold option_step in E. simpl in E.
  assert (Hok : lopt_ok ss (o_type (lb_for b)) o = true).
  { rewrite forallb_forall in Ho. apply Ho. unfold mapi in Hko. apply in_mapi_from in Hko. destruct Hko as (k' & o0 & Ho0 & E0). inversion E0; subst. exact Ho0. }
  destruct (sel_option (or_sel r) b o).
  - destruct (wt_safe_action_result ss t [t; i; k] (or_action r) b o _ Hs Hok) as (os & Er & Hos). rewrite Er in E. simpl in E.
    inversion E; subst. rewrite forallb_forall in Hos. apply Hos. exact Hin.
  - inversion E; subst. destruct Hin as [<-|[]]. exact Hok.
Qed.

Lemma apply_option_rule_pure_safe ss t r bs bs' :
  wt_safe_action (or_action r) = true -> apply_option_rule_pure ss t r bs = Ok bs' ->
  lconsistent ss bs -> Forall (lWT ss) bs -> lconsistent ss bs' /\ Forall (lWT ss) bs'.
Proof.
  intros Hs H Hc Hw. split.
  - pose proof (apply_option_rule_pure_headers _ _ _ _ _ H) as Hh. intros b' Hb'.
    destruct (forall2_in_r _ _ _ _ Hh Hb') as (b & Hb & (Hf & _)). rewrite <- Hf. apply Hc. exact Hb.
  - unfold apply_option_rule_pure in H. apply mapM_ok_forall2 in H. apply Forall_forall. intros b' Hb'.
    destruct (forall2_in_r _ _ _ _ H Hb') as ([i b] & Hib & E). simpl in E.
    destruct (process_options_pure ss t i r b) as [os'| | |] eqn:Ep; simpl in E; try discriminate. inversion E; subst.
    assert (Hb : In b bs).
    { unfold mapi in Hib. apply in_mapi_from in Hib. destruct Hib as (i' & b0 & Hb0 & E0). inversion E0; subst. exact Hb0. }
    rewrite Forall_forall in Hw. apply lWT_options; [apply Hw; exact Hb|].
    apply (process_options_pure_safe_wt _ _ _ _ _ _ Hs Ep). apply lWT_options_ok. apply Hw. exact Hb.
Qed.

(* a safe action emits no write: the flag cannot move *)
Lemma wt_safe_action_no_effects ss t base act b o os effs :
  wt_safe_action act = true -> run_action ss t base act b o = Ok (os, effs) -> effs = [].
Proof. intros Hs. destruct act; try discriminate; simpl; intros H; inversion H; reflexivity. Qed.

Lemma process_options_safe_flag ss t i r b fuel : wt_safe_action (or_action r) = true -> forall k c processed remaining c' out,
  process_options ss t i r b k c processed remaining fuel = Ok (c', out) -> cx_flag c' = cx_flag c.
Proof.
  intros Hs. induction fuel as [|f IH]; intros k c processed remaining c' out H.
  - destruct remaining; simpl in H; [inversion H; subst; reflexivity|discriminate].
  - destruct remaining as [|o rest]; simpl in H; [inversion H; subst; reflexivity|].
    destruct (sel_option (or_sel r) b o).
    + destruct (run_action ss t [t; i; k] (or_action r) b o) as [[newopts effs]| | |] eqn:Er; simpl in H; try discriminate.
      rewrite (wt_safe_action_no_effects _ _ _ _ _ _ _ _ Hs Er) in H. apply IH in H. rewrite H. simpl. apply orb_false_r.
    + apply IH in H. exact H.
Qed.

Lemma apply_option_rule_go_safe_flag ss t r fuel : wt_safe_action (or_action r) = true -> forall done rest flag bs' fl,
  apply_option_rule_go ss t r done rest flag fuel = Ok (bs', fl) -> fl = flag.
Proof.
  intros Hs. induction fuel as [|f IH]; intros done rest flag bs' fl H.
  - destruct rest; simpl in H; [inversion H; subst; reflexivity|discriminate].
  - destruct rest as [|b rest']; simpl in H; [inversion H; subst; reflexivity|].
    destruct (process_options _ _ _ _ _ _ _ _ _ _) as [[c processed]| | |] eqn:Ep; simpl in H; try discriminate.
    apply IH in H. rewrite H. apply (process_options_safe_flag _ _ _ _ _ _ Hs) in Ep. exact Ep.
Qed.

(* sequences of safe rules, as the rewriter applies them (shared cells included: nothing writes) *)
Lemma wt_safe_builder_rules ss : forall rs t bs bs',
  forallb wt_safe_brule rs = true -> apply_builder_rules ss t rs bs = Ok bs' ->
  lconsistent ss bs -> Forall (lWT ss) bs -> lconsistent ss bs' /\ Forall (lWT ss) bs'.
Proof.
  induction rs as [|r rest IH]; intros t bs bs' Hs H Hc Hw; simpl in H.
  - inversion H; subst. split; assumption.
  - simpl in Hs. apply andb_true_iff in Hs. destruct Hs as [Hs1 Hs2].
    destruct (apply_builder_rule ss t r bs) as [bs1| | |] eqn:E; simpl in H; try discriminate.
    destruct (wt_safe_brule_preserves _ _ _ _ _ Hs1 E Hc Hw) as [Hc1 Hw1]. apply (IH _ _ _ Hs2 H Hc1 Hw1).
Qed.

Lemma wt_safe_option_rules_go ss : forall rs t bs bs' fl,
  forallb (fun r => wt_safe_action (or_action r)) rs = true -> apply_option_rules_go true ss t rs bs false = Ok (bs', fl) ->
  lconsistent ss bs -> Forall (lWT ss) bs -> fl = false /\ lconsistent ss bs' /\ Forall (lWT ss) bs'.
Proof.
  induction rs as [|r rest IH]; intros t bs bs' fl Hs H Hc Hw; simpl in H.
  - inversion H; subst. repeat split; assumption.
  - simpl in Hs. apply andb_true_iff in Hs. destruct Hs as [Hs1 Hs2].
    destruct (apply_option_rule ss t r bs false) as [[bs1 fl1]| | |] eqn:E; simpl in H; try discriminate.
    assert (fl1 = false) by (unfold apply_option_rule in E; apply (apply_option_rule_go_safe_flag _ _ _ _ Hs1 _ _ _ _ _ E)). subst fl1.
    destruct (apply_option_rule_pure_agrees _ _ _ _ _ _ E) as (_ & Ep).
    destruct (apply_option_rule_pure_safe _ _ _ _ _ Hs1 Ep Hc Hw) as [Hc1 Hw1]. apply (IH _ _ _ _ Hs2 H Hc1 Hw1).
Qed.

Lemma forallb_flat_map_sub {A B} (p : B -> bool) (q : A -> bool) (f : A -> list B) l :
  (forall x, In x l -> forallb p (f x) = true) -> forallb p (flat_map (fun x => if q x then f x else []) l) = true.
Proof.
  intros H. apply forallb_forall. intros y Hy. apply in_flat_map in Hy. destruct Hy as (x & Hx & Hy).
  destruct (q x); [|contradiction]. specialize (H x Hx). rewrite forallb_forall in H. apply H. exact Hy.
Qed.

Lemma wt_safe_rules_for lrs l : wt_safe_rules lrs = true ->
  forallb wt_safe_brule (builder_rules_for l lrs) = true /\ forallb (fun r => wt_safe_action (or_action r)) (option_rules_for l lrs) = true.
Proof.
  unfold wt_safe_rules, builder_rules_for, option_rules_for. intros H. rewrite forallb_forall in H. split.
  - apply forallb_flat_map_sub. intros lr Hlr. specialize (H lr Hlr). apply andb_true_iff in H. apply H.
  - apply forallb_flat_map_sub. intros lr Hlr. specialize (H lr Hlr). apply andb_true_iff in H. apply H.
Qed.

Lemma wt_safe_language ss lrs l t bs bs' fl :
  wt_safe_rules lrs = true -> apply_language true ss t lrs l bs false = Ok (bs', fl) ->
  lconsistent ss bs -> Forall (lWT ss) bs -> fl = false /\ lconsistent ss bs' /\ Forall (lWT ss) bs'.
Proof.
  intros Hs H Hc Hw. destruct (wt_safe_rules_for lrs l Hs) as [Hsb Hso]. unfold apply_language, apply_option_rules in H.
  destruct (apply_builder_rules ss t (builder_rules_for l lrs) bs) as [bs1| | |] eqn:E1; simpl in H; try discriminate.
  destruct (wt_safe_builder_rules _ _ _ _ _ Hsb E1 Hc Hw) as [Hc1 Hw1].
  destruct (apply_option_rules_go true ss _ _ bs1 false) as [[bs2 fl2]| | |] eqn:E2; simpl in H; try discriminate.
  destruct (wt_safe_option_rules_go _ _ _ _ _ _ Hso E2 Hc1 Hw1) as (Hf & Hc2 & Hw2). inversion H; subst.
  split; [reflexivity|]. split.
  - intros b Hb. apply filter_In in Hb. apply Hc2. apply Hb.
  - rewrite Forall_forall in *. intros b Hb. apply filter_In in Hb. apply Hw2. apply Hb.
Qed.

Theorem wt_safe_rules_preserve_WT ss lrs lang bs lbs' fl :
  wt_safe_rules lrs = true -> apply_to_rules true ss lrs lang bs = Ok (lbs', fl) ->
  lconsistent ss bs -> Forall (lWT ss) bs -> fl = false /\ lconsistent ss lbs' /\ Forall (lWT ss) lbs'.
Proof.
  intros Hs H Hc Hw. unfold apply_to_rules in H.
  destruct (apply_language true ss 1 lrs all_languages bs false) as [[bs1 fl1]| | |] eqn:E1; simpl in H; try discriminate.
  destruct (wt_safe_language _ _ _ _ _ _ _ Hs E1 Hc Hw) as (-> & Hc1 & Hw1).
  apply (wt_safe_language _ _ _ _ _ _ _ Hs H Hc1 Hw1).
Qed.


(* ---------------------------------------------------------------- reflexivity of the decidable equalities on builders *)
Lemma opt_eqb_refl {A} (e : A -> A -> bool) o : (forall x, e x x = true) -> opt_eqb e o o = true.
Proof. intros H. destruct o; simpl; auto. Qed.

Lemma argument_eqb_refl' a : argument_eqb a a = true.
Proof. unfold argument_eqb. rewrite seqb_refl', ty_eqb_refl. reflexivity. Qed.

Lemma pathindex_eqb_refl ix : pathindex_eqb ix ix = true.
Proof. unfold pathindex_eqb. rewrite (opt_eqb_refl argument_eqb _ argument_eqb_refl'), dyn_eqb_refl. reflexivity. Qed.
Lemma pathitem_eqb_refl it : pathitem_eqb it it = true.
Proof.
  unfold pathitem_eqb. rewrite seqb_refl', ty_eqb_refl, Bool.eqb_reflx, (opt_eqb_refl ty_eqb _ ty_eqb_refl),
    (opt_eqb_refl pathindex_eqb _ pathindex_eqb_refl). reflexivity.
Qed.
Lemma path_eqb_refl p : path_eqb p p = true.
Proof. apply leqb_refl_all. apply pathitem_eqb_refl. Qed.

Definition env_vals (env : option (ty * list (path * avalue))) : list (path * avalue) :=
  match env with Some (_, vals) => vals | None => [] end.
Section AValueInd.
  Variable P : avalue -> Prop.
  Hypothesis HV : forall arg c env, Forall (fun pv => P (snd pv)) (env_vals env) -> P (AValue arg c env).
  Fixpoint avalue_ind' (v : avalue) : P v :=
    match v with
    | AValue arg c env =>
        HV arg c env
           (match env as e return Forall (fun pv => P (snd pv)) (env_vals e) with
            | Some (t, vals) =>
                (fix go (l : list (path * avalue)) : Forall (fun pv => P (snd pv)) l :=
                   match l with [] => Forall_nil _ | (p, x) :: r => Forall_cons (p, x) (avalue_ind' x) (go r) end) vals
            | None => Forall_nil _
            end)
    end.
End AValueInd.

Lemma avalue_eqb_refl : forall v, avalue_eqb v v = true.
Proof.
  induction v as [arg c env IH] using avalue_ind'. simpl.
  rewrite (opt_eqb_refl argument_eqb _ argument_eqb_refl'), dyn_eqb_refl. simpl.
  destruct env as [[t vals]|]; [|reflexivity]. rewrite ty_eqb_refl. simpl. simpl in IH.
  apply leqb_refl. rewrite Forall_forall in *. intros [p x] Hin. simpl. rewrite path_eqb_refl. apply (IH (p, x) Hin).
Qed.

Lemma assignment_eqb_refl a : assignment_eqb a a = true.
Proof.
  unfold assignment_eqb. rewrite path_eqb_refl, avalue_eqb_refl, seqb_refl'. simpl.
  rewrite (leqb_refl_all aconstraint_eqb).
  - simpl. apply leqb_refl_all. intros n. unfold nilcheck_eqb. rewrite path_eqb_refl, ty_eqb_refl. reflexivity.
  - intros c. unfold aconstraint_eqb. rewrite argument_eqb_refl', seqb_refl', dyn_eqb_refl. reflexivity.
Qed.

Lemma boption_eqb_refl o : boption_eqb o o = true.
Proof.
  unfold boption_eqb. rewrite seqb_refl', (leqb_refl_all seqb _ seqb_refl'), (leqb_refl_all argument_eqb _ argument_eqb_refl'),
    (leqb_refl_all assignment_eqb _ assignment_eqb_refl). simpl.
  apply opt_eqb_refl. intros l. apply leqb_refl_all. apply dyn_eqb_refl.
Qed.

Lemma constructor_eqb_refl c : constructor_eqb c c = true.
Proof.
  unfold constructor_eqb. rewrite (leqb_refl_all argument_eqb _ argument_eqb_refl'), (leqb_refl_all assignment_eqb _ assignment_eqb_refl). reflexivity.
Qed.

Lemma field_eqb_refl f : field_eqb f f = true.
Proof. unfold field_eqb. rewrite seqb_refl', (leqb_refl_all seqb _ seqb_refl'), ty_eqb_refl, Bool.eqb_reflx. reflexivity. Qed.

Definition factory_params (f : option (string * string * string * list ocparam)) : list ocparam :=
  match f with Some (_, _, _, ps) => ps | None => [] end.
Section OCParamInd.
  Variable P : ocparam -> Prop.
  Hypothesis HP : forall arg c f, Forall P (factory_params f) -> P (OCParam arg c f).
  Fixpoint ocparam_ind' (x : ocparam) : P x :=
    match x with
    | OCParam arg c f =>
        HP arg c f
           (match f as e return Forall P (factory_params e) with
            | Some (p1, b1, f1, ps) =>
                (fix go (l : list ocparam) : Forall P l :=
                   match l with [] => Forall_nil _ | y :: r => Forall_cons y (ocparam_ind' y) (go r) end) ps
            | None => Forall_nil _
            end)
    end.
End OCParamInd.

Lemma ocparam_eqb_refl : forall x, ocparam_eqb x x = true.
Proof.
  induction x as [arg c f IH] using ocparam_ind'. simpl.
  rewrite (opt_eqb_refl argument_eqb _ argument_eqb_refl').
  rewrite (opt_eqb_refl (fun p q : ty * dyn => ty_eqb (fst p) (fst q) && dyn_eqb (snd p) (snd q))).
  2:{ intros [t d]. simpl. rewrite ty_eqb_refl, dyn_eqb_refl. reflexivity. }
  simpl. destruct f as [[[[p1 b1] f1] ps]|]; [|reflexivity]. rewrite !seqb_refl'. simpl. apply leqb_refl. exact IH.
Qed.

Lemma factory_eqb_refl f : factory_eqb f f = true.
Proof.
  unfold factory_eqb. rewrite seqb_refl', (leqb_refl_all seqb _ seqb_refl'), (leqb_refl_all argument_eqb _ argument_eqb_refl'). simpl.
  apply leqb_refl_all. intros c. unfold optioncall_eqb. rewrite seqb_refl'. simpl. apply leqb_refl_all. apply ocparam_eqb_refl.
Qed.

(* ---------------------------------------------------------------- the statements at the level of rule files *)
Theorem unselected_unchanged_partial_proof ss files lang bs lrs lbs' b kept :
  rewriter_from files = Ok lrs ->
  apply_to_l true ss files lang bs = Ok (lbs', false) ->
  In b (label_builders 0 bs) ->
  (forall r, In r (builder_rules_for all_languages lrs ++ builder_rules_for lang lrs) -> sel_builder ss (brule_selector r) b = false) ->
  (forall o, In o kept -> In o (lb_options b)) ->
  (forall r o, In r (option_rules_for all_languages lrs ++ option_rules_for lang lrs) -> In o kept -> sel_option (or_sel r) b o = false) ->
  kept <> [] ->
  exists b', In b' lbs' /\ lsame_but_options b b' /\ forall o, In o kept -> In o (lb_options b').
Proof.
  intros Hl H. unfold apply_to_l in H. destruct (negb (aliases_acyclic ss)); [discriminate|]. rewrite Hl in H. simpl in H.
  apply (unselected_unchanged_rules _ _ _ _ _ _ _ H).
Qed.

Lemma lWT_label_builders ss t bs : WTs ss bs = true -> Forall (lWT ss) (label_builders t bs).
Proof.
  intros H. apply Forall_forall. intros b Hb. unfold label_builders, mapi in Hb. apply in_mapi_from in Hb.
  destruct Hb as (i & x & Hx & ->). unfold lWT. rewrite erase_label_builder. unfold WTs in H. rewrite forallb_forall in H. apply H. exact Hx.
Qed.

Lemma WTs_erase ss lbs : Forall (lWT ss) lbs -> WTs ss (erase_builders lbs) = true.
Proof.
  intros H. unfold WTs, erase_builders. rewrite forallb_map'. apply forallb_forall. intros b Hb. rewrite Forall_forall in H. apply H. exact Hb.
Qed.

Theorem rules_preserve_WT_partial_proof ss files lang bs lrs bs' :
  rewriter_from files = Ok lrs -> wt_safe_rules lrs = true ->
  lconsistent ss (label_builders 0 bs) -> WTs ss bs = true ->
  apply_to ss files lang bs = Ok bs' -> WTs ss bs' = true /\ interference ss files lang bs = false.
Proof.
  intros Hl Hs Hc Hw H. unfold apply_to in H. unfold interference.
  destruct (apply_to_l true ss files lang bs) as [[lbs' fl]| | |] eqn:E; simpl in H; try discriminate. inversion H; subst.
  unfold apply_to_l in E. destruct (negb (aliases_acyclic ss)); [discriminate|]. rewrite Hl in E. simpl in E.
  destruct (wt_safe_rules_preserve_WT _ _ _ _ _ _ Hs E Hc (lWT_label_builders _ _ _ Hw)) as (Hf & _ & Hw').
  split; [apply WTs_erase; exact Hw'|exact Hf].
Qed.

(* ---------------------------------------------------------------- the unrestricted statements fail on the model: witnesses *)
Definition w_str : ty := TScalar A0 KString DNil [].
Definition w_meta : smeta := {| m_kind := "" ; m_variant := "" ; m_identifier := "" |}.
(* alpha.Foo { tags []string ; name string(minLength 1) }   alpha.Bar { foo Foo ; id string } *)
Definition w_schemas : schemas :=
  [mkSchema "alpha" w_meta "" ty_zero
     [("Foo", mkObject "Foo" [] (TStruct A0 [] [mkField "tags" [] (TArray A0 w_str) true;
                                                 mkField "name" [] (TScalar A0 KString DNil [{| c_op := "minLength" ; c_args := [DInt "int64" 1] |}]) true])
                       "alpha" "Foo");
      ("Bar", mkObject "Bar" [] (TStruct A0 [] [mkField "foo" [] (TRef A0 "alpha" "Foo") true; mkField "id" [] w_str true]) "alpha" "Bar")]].
Definition w_nosel : ybsel := mkYBSel None None None None.
Definition w_osel (by_builder : string) : yosel := mkYOSel None (Some by_builder) None.
(* merge Foo's options into Bar under `foo`, then turn Bar.tags into an append *)
Definition w_files_shared : list vfile :=
  [mkVFile "all" "alpha" [[YBMergeInto "Bar" "Foo" "foo" [] []]] [[YOArrayToAppend (w_osel "Bar.tags")]]].
(* rename the argument of Foo.name, an option whose assignment carries a constraint *)
Definition w_files_constraint : list vfile :=
  [mkVFile "all" "alpha" [] [[YORenameArguments (w_osel "Foo.name") ["title"]]]].
(* promote Foo.tags to the constructor, then turn the option into an append *)
Definition w_files_promote : list vfile :=
  [mkVFile "all" "alpha" [[YBPromote (mkYBSel (Some "Foo") None None None) ["tags"]]] [[YOArrayToAppend (w_osel "Foo.tags")]]].

Definition w_before : list builder := match from_ast w_schemas with Ok bs => bs | _ => [] end.

Definition wt_witness (files : list vfile) : bool :=
  consistent w_schemas w_before && WTs w_schemas w_before && files_wf files &&
  match apply_to w_schemas files "go" w_before with Ok bs' => negb (WTs w_schemas bs') | _ => false end.

Lemma wt_witness_shared : wt_witness w_files_shared = true /\ interference w_schemas w_files_shared "go" w_before = true.
Proof. vm_compute. split; reflexivity. Qed.
Lemma wt_witness_constraint : wt_witness w_files_constraint = true /\ interference w_schemas w_files_constraint "go" w_before = false.
Proof. vm_compute. split; reflexivity. Qed.
Lemma wt_witness_promote : wt_witness w_files_promote = true /\ interference w_schemas w_files_promote "go" w_before = true.
Proof. vm_compute. split; reflexivity. Qed.

Theorem rules_preserve_WT_refuted_proof :
  ~ (forall ss files lang bs bs',
       consistent ss bs = true -> WTs ss bs = true -> files_wf files = true ->
       apply_to ss files lang bs = Ok bs' -> WTs ss bs' = true).
Proof.
  intros H. destruct wt_witness_constraint as [Hw _]. unfold wt_witness in Hw.
  destruct (apply_to w_schemas w_files_constraint "go" w_before) as [bs'| | |] eqn:E;
    repeat (apply andb_true_iff in Hw; destruct Hw as [Hw ?]); try discriminate.
  specialize (H w_schemas w_files_constraint "go" w_before bs').
  rewrite H in *; try assumption; discriminate.
Qed.

(* frame: Foo is selected by no rule, yet its option `tags` is rewritten *)
Definition frame_witness : bool :=
  match rewriter_from w_files_shared, apply_to w_schemas w_files_shared "go" w_before with
  | Ok lrs, Ok bs' => consistent w_schemas w_before && WTs w_schemas w_before && negb (frame_ok w_schemas lrs "go" w_before bs')
  | _, _ => false
  end.
Lemma frame_witness_true : frame_witness = true.
Proof. vm_compute. reflexivity. Qed.

Theorem unselected_unchanged_refuted_proof :
  ~ (forall ss files lang bs lrs bs',
       rewriter_from files = Ok lrs -> consistent ss bs = true -> WTs ss bs = true ->
       apply_to ss files lang bs = Ok bs' -> frame_ok ss lrs lang bs bs' = true).
Proof.
  intros H. pose proof frame_witness_true as Hw. unfold frame_witness in Hw.
  destruct (rewriter_from w_files_shared) as [lrs| | |] eqn:El; try discriminate.
  destruct (apply_to w_schemas w_files_shared "go" w_before) as [bs'| | |] eqn:E; try discriminate.
  apply andb_true_iff in Hw. destruct Hw as [Hw Hn]. apply andb_true_iff in Hw. destruct Hw as [Hc Hwt].
  rewrite (H w_schemas w_files_shared "go" w_before lrs bs' El Hc Hwt E) in Hn. discriminate.
Qed.

(* ---------------------------------------------------------------- the frame checker the correspondence evaluates
   is implied by the frame theorem: without interference, frame_ok holds of the model's result *)
Lemma sel_builder_hdr ss s a b : lb_for a = lb_for b -> lb_name a = lb_name b -> sel_builder ss s a = sel_builder ss s b.
Proof. intros Hf Hn. destruct s; simpl; rewrite ?Hf, ?Hn; reflexivity. Qed.
Lemma sel_option_hdr s a b o o' :
  lb_for a = lb_for b -> lb_pkg a = lb_pkg b -> lb_name a = lb_name b -> lo_name o = lo_name o' -> sel_option s a o = sel_option s b o'.
Proof. intros Hf Hp Hn Ho. destruct s; simpl; rewrite ?Hf, ?Hn, ?Hp, ?Ho; reflexivity. Qed.

Lemma lsame_erase_same x y : lsame_but_options x y -> same_but_options (erase_builder x) (erase_builder y) = true.
Proof.
  intros (Hf & Hp & Hn & Hps & Hc & Hfa). unfold same_but_options, erase_builder. simpl.
  rewrite Hf, Hp, Hn, Hps, Hc, Hfa.
  rewrite object_eqb_refl, !seqb_refl', (leqb_refl_all field_eqb _ field_eqb_refl), constructor_eqb_refl,
    (leqb_refl_all factory_eqb _ factory_eqb_refl). reflexivity.
Qed.

Lemma in_mapi_from_of {A B} (f : nat -> A -> B) x l : In x l -> forall n, exists i, In (f i x) (mapi_from f n l).
Proof.
  induction l as [|y r IH]; intros Hin n; [contradiction|].
  destruct Hin as [->|Hin]; [exists n; left; reflexivity|]. destruct (IH Hin (S n)) as (k & Hk). exists k. right. exact Hk.
Qed.

Lemma map_filter_comp {A B} (f : A -> B) (p : B -> bool) l : map f (filter (fun x => p (f x)) l) = filter p (map f l).
Proof. induction l as [|x r IH]; simpl; [reflexivity|]. destruct (p (f x)); simpl; rewrite IH; reflexivity. Qed.

Theorem frame_checker_sound ss files lang bs lrs lbs' :
  rewriter_from files = Ok lrs -> apply_to_l true ss files lang bs = Ok (lbs', false) ->
  frame_ok ss lrs lang bs (erase_builders lbs') = true.
Proof.
  intros Hl H. unfold frame_ok, rules_in_order.
  set (brs := builder_rules_for all_languages lrs ++ builder_rules_for lang lrs).
  set (ors := option_rules_for all_languages lrs ++ option_rules_for lang lrs).
  apply forallb_forall. intros b Hb.
  destruct (builder_never_selected ss brs b) eqn:Ens; [|reflexivity].
  destruct (filter (option_never_selected ors b) (b_options b)) as [|o0 kk] eqn:Ek; [reflexivity|].
  destruct (in_mapi_from_of (fun i x => label_builder [0; i] x) b bs Hb 0) as (i & Hi).
  set (lb := label_builder [0; i] b) in *.
  assert (Eb : erase_builder lb = b) by apply erase_label_builder.
  set (lkept := filter (fun lo => option_never_selected ors b (erase_option lo)) (lb_options lb)).
  assert (Ekept : map erase_option lkept = o0 :: kk).
  { unfold lkept. rewrite (map_filter_comp erase_option (option_never_selected ors b)).
    assert (Eo : map erase_option (lb_options lb) = b_options b).
    { transitivity (b_options (erase_builder lb)); [reflexivity|rewrite Eb; reflexivity]. }
    rewrite Eo. exact Ek. }
  destruct (unselected_unchanged_partial_proof ss files lang bs lrs lbs' lb lkept Hl H Hi) as (b' & Hb' & Hsame & Hk).
  - intros r Hr. unfold builder_never_selected in Ens. rewrite forallb_forall in Ens. specialize (Ens r Hr).
    rewrite (sel_builder_hdr ss _ lb (header_of b)); [destruct (sel_builder _ _ _); [discriminate|reflexivity]| |]; reflexivity.
  - intros o Ho. unfold lkept in Ho. apply filter_In in Ho. apply Ho.
  - intros r o Hr Ho. unfold lkept in Ho. apply filter_In in Ho. destruct Ho as [_ Ho].
    unfold option_never_selected in Ho. rewrite forallb_forall in Ho. specialize (Ho r Hr).
    rewrite (sel_option_hdr _ lb (header_of b) o (label_option [] (erase_option o))); try reflexivity.
    destruct (sel_option _ _ _); [discriminate|reflexivity].
  - intros E. rewrite E in Ekept. discriminate.
  - apply existsb_exists. exists (erase_builder b'). split; [unfold erase_builders; apply in_map; exact Hb'|].
    apply andb_true_iff. split; [rewrite <- Eb; apply lsame_erase_same; exact Hsame|].
    apply forallb_forall. intros o Ho. rewrite <- Ekept in Ho. apply in_map_iff in Ho. destruct Ho as (lo & <- & Hlo).
    apply existsb_exists. exists (erase_option lo). split; [|apply boption_eqb_refl].
    unfold erase_builder. simpl. apply in_map. apply Hk. exact Hlo.
Qed.

Theorem unselected_unchanged_checker_proof ss files lang bs lrs bs' :
  rewriter_from files = Ok lrs -> apply_to ss files lang bs = Ok bs' -> interference ss files lang bs = false ->
  frame_ok ss lrs lang bs bs' = true.
Proof.
  intros Hl H Hi. unfold apply_to in H. unfold interference in Hi.
  destruct (apply_to_l true ss files lang bs) as [[lbs' fl]| | |] eqn:E; simpl in H; try discriminate.
  inversion H; subst. simpl in Hi. subst fl. apply (frame_checker_sound _ _ _ _ _ _ Hl E).
Qed.

(* ---------------------------------------------------------------- array_to_append / map_to_index on options of the
   shape FromAST derives keep them well-typed (what breaks WT is sharing, or an earlier rule that left another shape) *)
Lemma lopt_wt_is_lopt_ok ss root o : lopt_wt ss root o = lopt_ok ss root o.
Proof. reflexivity. Qed.

Lemma arg_declared_head a r : arg_declared (a :: r) a = true.
Proof. unfold arg_declared. simpl. unfold ty_eqb_nn. rewrite seqb_refl', ty_eqb_refl. reflexivity. Qed.

Lemma path_args_app p q : path_args (p ++ q) = path_args p ++ path_args q.
Proof. unfold path_args. apply flat_map_app. Qed.

Lemma last_item_cons it it2 r : last_item (it :: it2 :: r) = last_item (it2 :: r).
Proof. reflexivity. Qed.

Lemma path_ok_go_snoc ss x : forall p cur it,
  path_ok_go ss cur p = true -> last_item p = Some it ->
  path_ok_go ss (match pi_typehint it with Some h => h | None => pi_type it end) [x] = true ->
  path_ok_go ss cur (p ++ [x]) = true.
Proof.
  induction p as [|it0 r IH]; intros cur it Hok Hl Hx; [discriminate|].
  simpl in Hok. simpl.
  destruct (negb (pi_root it0)); [|discriminate]. simpl in *.
  destruct (match pi_typehint it0 with None => true | Some _ => is_any (pi_type it0) end); [|discriminate]. simpl in *.
  assert (Hrest : forall nxt, path_ok_go ss nxt r = true -> nxt = match pi_typehint it0 with Some h => h | None => pi_type it0 end ->
                              path_ok_go ss nxt (r ++ [x]) = true).
  { intros nxt Hr ->. destruct r as [|it2 r2].
    - simpl in Hl. inversion Hl; subst. exact Hx.
    - apply (IH _ it Hr); [rewrite <- Hl; reflexivity|exact Hx]. }
  destruct (pi_index it0).
  - destruct (resolve_total ss cur); try discriminate;
      (apply andb_true_iff in Hok; destruct Hok as [H1 H2]; rewrite H1; simpl; apply Hrest; [exact H2|reflexivity]).
  - destruct (resolve_total ss cur); try discriminate. destruct (field_by_name fs (pi_id it0)); [|discriminate].
    apply andb_true_iff in Hok. destruct Hok as [H1 H2]. rewrite H1. simpl. apply Hrest; [exact H2|reflexivity].
Qed.

Lemma array_to_append_derived_wt ss root base o a first os effs :
  derived_shape o a first -> lopt_wt ss root o = true -> array_to_append_action base o = Ok (os, effs) ->
  forallb (lopt_wt ss root) os = true.
Proof.
  intros (Ha & Has & (l & Hl) & He & Hc & Hpa & _) Hw H. unfold array_to_append_action in H. rewrite Ha, Has in H.
  unfold lopt_wt in Hw. rewrite Has in Hw. simpl in Hw. rewrite andb_true_r in Hw.
  destruct (a_type a) eqn:Et; try (inversion H; subst; simpl; unfold lopt_wt; rewrite Has; simpl; rewrite Hw; reflexivity).
  inversion H; subst; clear H. rewrite Hl. unfold lopt_wt. cbn [forallb lo_assignments lo_args]. rewrite !andb_true_r.
  unfold assignment_ok, erase_asg, assignment_args in *. cbn [as_path as_value as_constraints set_la_method set_la_arg la_path la_arg la_const la_env la_method la_constraints la_nilchecks option_map snd] in *.
  rewrite He, Hc, Hpa in *. cbn [avalue_paths_ok avalue_args map app forallb] in *.
  apply andb_true_iff in Hw. destruct Hw as [Hw _]. rewrite Hw. rewrite arg_declared_head. reflexivity.
Qed.

Lemma map_to_index_derived_wt ss root base o a first os effs :
  derived_shape o a first -> lopt_wt ss root o = true -> map_to_index_action base o = Ok (os, effs) ->
  forallb (lopt_wt ss root) os = true.
Proof.
  intros (Ha & Has & (l & Hl) & He & Hc & Hpa & (it & Hlast & Hty & Hhint)) Hw H. unfold map_to_index_action in H. rewrite Ha, Has in H.
  unfold lopt_wt in Hw. rewrite Has in Hw. simpl in Hw. rewrite andb_true_r in Hw.
  destruct (a_type a) as [ | | |ma mi mv| | | | | | | ] eqn:Et; try (inversion H; subst; simpl; unfold lopt_wt; rewrite Has; simpl; rewrite Hw; reflexivity).
  inversion H; subst; clear H. rewrite Hl. unfold lopt_wt. cbn [forallb lo_assignments lo_args]. rewrite !andb_true_r.
  unfold assignment_ok, erase_asg, assignment_args in *. cbn [as_path as_value as_constraints set_la_method set_la_arg set_la_path la_path la_arg la_const la_env la_method la_constraints la_nilchecks option_map snd] in *.
  rewrite He, Hc in *. cbn [avalue_paths_ok avalue_args map app forallb] in *.
  apply andb_true_iff in Hw. destruct Hw as [Hw _]. apply andb_true_iff in Hw. destruct Hw as [Hw _].
  assert (Hp : path_ok ss root (la_path first ++ [mkPathItem "" (Some (mkPathIndex (Some (mkArg "key" mi)) DNil)) mv None false]) = true).
  { unfold path_ok in *. destruct (la_path first) as [|i0 r0] eqn:Ep; [discriminate|].
    change (path_ok_go ss root ((i0 :: r0) ++ [mkPathItem "" (Some (mkPathIndex (Some (mkArg "key" mi)) DNil)) mv None false]) = true).
    apply (path_ok_go_snoc ss _ (i0 :: r0) root it Hw Hlast). rewrite Hhint, Hty.
    cbn [path_ok_go pi_root pi_typehint pi_index pi_type negb andb].
    rewrite resolve_total_nonref by reflexivity. rewrite ty_eqb_nd_refl. reflexivity. }
  rewrite Hp. rewrite path_args_app, Hpa. cbn [path_args flat_map pi_index px_arg app andb forallb].
  unfold arg_declared. cbn [existsb a_name a_type]. unfold ty_eqb_nn. rewrite !seqb_refl', !ty_eqb_refl. cbn [andb orb]. rewrite orb_true_r. reflexivity.
Qed.
