(* Lemmas about the veneers model (coq/Model/Veneers.v, VeneersSpec.v). *)
From Coq Require Import List String Bool ZArith Lia.
From Cog Require Import Model.IR Model.IREq Model.Builders Model.BuildersEq Model.Veneers Model.VeneersSpec
                        Proofs.TyInd Proofs.EqRefl.
Import ListNotations.
Local Open Scope string_scope.
Local Open Scope list_scope.

(* ---------------------------------------------------------------- generic list / monad lemmas *)
Lemma mapM_ok_forall2 {A B} (f : A -> res B) l r : mapM f l = Ok r -> Forall2 (fun x y => f x = Ok y) l r.
Proof.
  revert r. induction l as [|x t IH]; intros r H; simpl in H.
  - inversion H. constructor.
  - destruct (f x) as [y| | |] eqn:E; simpl in H; try discriminate.
    destruct (mapM f t) as [ys| | |] eqn:E2; simpl in H; try discriminate.
    inversion H; subst. constructor; [assumption|apply IH; reflexivity].
Qed.

Lemma mapM_ok_map {A B} (f : A -> res B) (g : A -> B) l : (forall x, In x l -> f x = Ok (g x)) -> mapM f l = Ok (map g l).
Proof.
  induction l as [|x t IH]; intros H; simpl; [reflexivity|].
  rewrite (H x (or_introl eq_refl)). simpl. rewrite IH; [reflexivity|]. intros y Hy. apply H. right. exact Hy.
Qed.

Lemma forall2_in_l {A B} (R : A -> B -> Prop) l r x : Forall2 R l r -> In x l -> exists y, In y r /\ R x y.
Proof.
  intros H. induction H as [|a b l r Hab _ IH]; intros Hin; [contradiction|].
  destruct Hin as [->|Hin]; [exists b; split; [left; reflexivity|exact Hab]|].
  destruct (IH Hin) as (y & Hy & Hr). exists y. split; [right; exact Hy|exact Hr].
Qed.

Lemma forall2_in_r {A B} (R : A -> B -> Prop) l r y : Forall2 R l r -> In y r -> exists x, In x l /\ R x y.
Proof.
  intros H. induction H as [|a b l r Hab _ IH]; intros Hin; [contradiction|].
  destruct Hin as [->|Hin]; [exists a; split; [left; reflexivity|exact Hab]|].
  destruct (IH Hin) as (x & Hx & Hr). exists x. split; [right; exact Hx|exact Hr].
Qed.

Lemma in_concat_of {A} (x : A) l ls : In l ls -> In x l -> In x (List.concat ls).
Proof. intros H1 H2. apply in_concat. exists l. split; assumption. Qed.

Lemma forallb_map' {A B} (f : A -> B) (p : B -> bool) l : forallb p (map f l) = forallb (fun x => p (f x)) l.
Proof. induction l as [|x r IH]; simpl; [reflexivity|]. rewrite IH. reflexivity. Qed.

Lemma forallb_ext' {A} (p q : A -> bool) l : (forall x, p x = q x) -> forallb p l = forallb q l.
Proof. intros H. induction l as [|x r IH]; simpl; [reflexivity|]. rewrite H, IH. reflexivity. Qed.

Lemma forallb_filter_sub {A} (p q : A -> bool) l : forallb p l = true -> forallb p (filter q l) = true.
Proof. rewrite !forallb_forall. intros H x Hx. apply filter_In in Hx. apply H. apply Hx. Qed.

(* ---------------------------------------------------------------- contracts of the builder rules *)
(* omit removes exactly the selected builders, keeps the others in order *)
Lemma omit_rule_spec ss s bs bs' :
  apply_builder_rule ss (BROmit s) bs = Ok bs' -> bs' = filter (fun b => negb (sel_builder ss s b)) bs.
Proof. simpl. intros H. inversion H. reflexivity. Qed.

Lemma omit_removes_builders ss s bs bs' :
  apply_builder_rule ss (BROmit s) bs = Ok bs' ->
  (forall b, In b bs' -> sel_builder ss s b = false /\ In b bs) /\
  (forall b, In b bs -> sel_builder ss s b = false -> In b bs').
Proof.
  intros H. apply omit_rule_spec in H. subst. split.
  - intros b Hb. apply filter_In in Hb. destruct Hb as [Hin Hs]. split; [|exact Hin].
    destruct (sel_builder ss s b); [discriminate|reflexivity].
  - intros b Hin Hs. apply filter_In. split; [exact Hin|]. rewrite Hs. reflexivity.
Qed.

(* rename: a map; a selected builder changes in its name only, the others not at all *)
Lemma rename_rule_spec ss s n bs bs' :
  apply_builder_rule ss (BRRename s n) bs = Ok bs' ->
  bs' = map (fun b => if sel_builder ss s b then set_name b n else b) bs.
Proof. simpl. intros H. inversion H. reflexivity. Qed.

(* duplicate: the builders, followed by one copy per selected builder, equal to it in every field
   but the name (constructor, properties, options with their defaults, factories); with excluded
   options the copy lacks exactly the options named (case-insensitively) *)
Lemma duplicate_rule_spec ss s n bs bs' :
  apply_builder_rule ss (BRDuplicate s n []) bs = Ok bs' ->
  bs' = bs ++ map (fun b => set_name b n) (filter (sel_builder ss s) bs).
Proof. simpl. intros H. inversion H. reflexivity. Qed.

Lemma duplicate_rule_spec_excl ss s n e excl bs bs' :
  apply_builder_rule ss (BRDuplicate s n (e :: excl)) bs = Ok bs' ->
  bs' = bs ++ map (fun b => set_options (set_name b n)
                              (filter (fun o => negb (string_in_list_equal_fold (op_name o) (e :: excl))) (b_options b)))
                  (filter (sel_builder ss s) bs).
Proof. simpl. intros H. inversion H. reflexivity. Qed.

(* ---------------------------------------------------------------- frame of the builder rules: a builder
   the rule's selector does not select is still there, identical *)
Lemma in_map_if {A} (sel : A -> bool) (f : A -> A) l b : In b l -> sel b = false -> In b (map (fun x => if sel x then f x else x) l).
Proof. intros Hin Hs. apply in_map_iff. exists b. rewrite Hs. split; [reflexivity|exact Hin]. Qed.

Lemma in_mapM_if {A} (sel : A -> bool) (f : A -> res A) l l' b :
  mapM (fun x => if sel x then f x else Ok x) l = Ok l' -> In b l -> sel b = false -> In b l'.
Proof.
  intros H Hin Hs. apply mapM_ok_forall2 in H. destruct (forall2_in_l _ _ _ _ H Hin) as (y & Hy & E).
  rewrite Hs in E. inversion E; subst. exact Hy.
Qed.

Lemma in_set_nth_other {A} i (x b : A) l : In b l -> (forall y, nth_error l i = Some y -> y <> b) -> In b (set_nth i x l).
Proof.
  revert i. induction l as [|y r IH]; intros i Hin Hne; [contradiction|].
  destruct i as [|j]; simpl.
  - destruct Hin as [->|Hin]; [exfalso; apply (Hne b); reflexivity|right; exact Hin].
  - destruct Hin as [->|Hin]; [left; reflexivity|right]. apply IH; [exact Hin|]. intros z Hz. apply Hne. exact Hz.
Qed.

Lemma map_to_selected_go_frame sel f todo i bs bs' b :
  map_to_selected_go sel f todo i bs = Ok bs' -> In b bs -> sel b = false -> In b bs'.
Proof.
  revert i bs. induction todo as [|t IH]; intros i bs H Hin Hs; simpl in H.
  - inversion H; subst. exact Hin.
  - destruct (nth_error bs i) as [bi|] eqn:En; [|inversion H; subst; exact Hin].
    destruct (sel bi) eqn:Esb.
    + destruct (f bs bi) as [nb| | |]; simpl in H; try discriminate.
      apply (IH _ _ H); [|exact Hs]. apply in_set_nth_other; [exact Hin|].
      intros y Hy Heq. rewrite En in Hy. inversion Hy; subst. rewrite Esb in Hs. discriminate.
    + apply (IH _ _ H); assumption.
Qed.

Lemma builder_rule_frame ss r bs bs' b :
  apply_builder_rule ss r bs = Ok bs' -> In b bs -> sel_builder ss (brule_selector r) b = false -> In b bs'.
Proof.
  destruct r as [s|s n|s src under excl ren|s c|s ps|s n excl|s set|s names|s o|s f]; cbn [apply_builder_rule brule_selector]; intros H Hin Hs.
  - inversion H; subst. unfold omit_rule. apply filter_In. split; [exact Hin|]. rewrite Hs. reflexivity.
  - inversion H; subst. unfold rename_rule. apply in_map_if; assumption.
  - unfold merge_into_rule, map_to_selected in H. apply (map_to_selected_go_frame _ _ _ _ _ _ _ H); assumption.
  - unfold compose_rule in H. destruct (cut_dot (yc_source c)) as [[spkg sname]|]; [|discriminate].
    destruct (locate_by_object bs spkg sname); [|inversion H; subst; exact Hin].
    destruct (mapM _ _) as [composed| | |]; simpl in H; try discriminate. inversion H; subst.
    apply in_or_app. left. apply filter_In. split; [exact Hin|]. rewrite Hs. reflexivity.
  - inversion H; subst. unfold properties_rule. apply in_map_if; assumption.
  - inversion H; subst. unfold duplicate_rule. apply in_or_app. left. exact Hin.
  - unfold initialize_rule in H. apply (in_mapM_if _ _ _ _ _ H); assumption.
  - unfold promote_rule in H. apply (in_mapM_if _ _ _ _ _ H); assumption.
  - unfold add_option_rule in H. apply (in_mapM_if _ _ _ _ _ H); assumption.
  - unfold add_factory_rule in H. apply (in_mapM_if _ _ _ _ _ H); assumption.
Qed.

(* ---------------------------------------------------------------- frame of the option rules *)
Lemma same_header_refl b : same_header b b.
Proof. repeat split. Qed.
Lemma same_header_trans a b c : same_header a b -> same_header b c -> same_header a c.
Proof. unfold same_header. intuition congruence. Qed.
Lemma same_header_set_options b os : same_header b (set_options b os).
Proof. repeat split. Qed.

(* selectors only read For, Package and Name of the builder *)
Lemma sel_builder_header ss s a b : same_header a b -> sel_builder ss s a = sel_builder ss s b.
Proof. intros (Hf & Hp & Hn & _). destruct s; simpl; rewrite ?Hf, ?Hn; reflexivity. Qed.
Lemma sel_option_header s a b o : same_header a b -> sel_option s a o = sel_option s b o.
Proof. intros (Hf & Hp & Hn & _). destruct s; simpl; rewrite ?Hf, ?Hn, ?Hp; reflexivity. Qed.

Lemma process_options_frame ss r b os' o :
  process_options ss r b = Ok os' -> In o (b_options b) -> sel_option (or_sel r) b o = false -> In o os'.
Proof.
  unfold process_options. intros H Hin Hs.
  destruct (mapM _ _) as [outs| | |] eqn:Em; simpl in H; try discriminate. inversion H; subst. clear H.
  apply mapM_ok_forall2 in Em. destruct (forall2_in_l _ _ _ _ Em Hin) as (out & Hout & E).
  unfold option_step in E. rewrite Hs in E. inversion E; subst.
  apply (in_concat_of _ [o]); [exact Hout|left; reflexivity].
Qed.

Lemma apply_option_rule_frame ss r bs bs' b :
  apply_option_rule ss r bs = Ok bs' -> In b bs ->
  exists b', In b' bs' /\ same_header b b' /\
             forall o, In o (b_options b) -> sel_option (or_sel r) b o = false -> In o (b_options b').
Proof.
  unfold apply_option_rule. intros H Hin. apply mapM_ok_forall2 in H.
  destruct (forall2_in_l _ _ _ _ H Hin) as (b' & Hb' & E).
  destruct (process_options ss r b) as [os'| | |] eqn:Ep; simpl in E; try discriminate. inversion E; subst.
  exists (set_options b os'). split; [exact Hb'|]. split; [apply same_header_set_options|].
  intros o Ho Hs. simpl. apply (process_options_frame _ _ _ _ _ Ep Ho Hs).
Qed.

(* option rules keep every builder (same header), in order *)
Lemma apply_option_rule_headers ss r bs bs' :
  apply_option_rule ss r bs = Ok bs' -> Forall2 same_header bs bs'.
Proof.
  unfold apply_option_rule. intros H. apply mapM_ok_forall2 in H. induction H as [|b b' l l' E _ IH]; constructor; [|exact IH].
  destruct (process_options ss r b); simpl in E; try discriminate. inversion E. apply same_header_set_options.
Qed.

(* ---------------------------------------------------------------- frame of whole sequences *)
(* what is tracked: builder b of the input and a set `kept` of its options *)
Definition survives (b : builder) (kept : list boption) (cur : list builder) : Prop :=
  exists b', In b' cur /\ same_header b b' /\ forall o, In o kept -> In o (b_options b').

Lemma survives_builder_rules ss b kept : forall rs cur cur',
  apply_builder_rules ss rs cur = Ok cur' ->
  (forall r, In r rs -> sel_builder ss (brule_selector r) b = false) ->
  survives b kept cur -> survives b kept cur'.
Proof.
  induction rs as [|r rest IH]; intros cur cur' H Hsel Hs; simpl in H.
  - inversion H; subst. exact Hs.
  - destruct (apply_builder_rule ss r cur) as [cur1| | |] eqn:E; simpl in H; try discriminate.
    apply (IH _ _ H); [intros r' Hr'; apply Hsel; right; exact Hr'|].
    destruct Hs as (b1 & Hin & Hsame & Hk). exists b1. split; [|split; assumption].
    apply (builder_rule_frame _ _ _ _ _ E Hin). rewrite <- (sel_builder_header ss _ b b1 Hsame). apply Hsel. left. reflexivity.
Qed.

Lemma survives_option_rules_go ss b kept : forall rs cur cur',
  apply_option_rules_go ss rs cur = Ok cur' ->
  (forall r o, In r rs -> In o kept -> sel_option (or_sel r) b o = false) ->
  survives b kept cur -> survives b kept cur'.
Proof.
  induction rs as [|r rest IH]; intros cur cur' H Hsel Hs; simpl in H.
  - inversion H; subst. exact Hs.
  - destruct (apply_option_rule ss r cur) as [cur1| | |] eqn:E; simpl in H; try discriminate.
    apply (IH _ _ H); [intros r' o Hr' Ho; apply Hsel; [right; exact Hr'|exact Ho]|].
    destruct Hs as (b1 & Hin & Hsame & Hk).
    destruct (apply_option_rule_frame _ _ _ _ _ E Hin) as (b2 & Hin2 & Hsame2 & Hk2).
    exists b2. split; [exact Hin2|]. split; [apply (same_header_trans _ _ _ Hsame Hsame2)|].
    intros o Ho. apply Hk2; [apply Hk; exact Ho|].
    rewrite <- (sel_option_header _ b b1 o Hsame). apply (Hsel r o); [left; reflexivity|exact Ho].
Qed.

Lemma survives_filter b kept cur : kept <> [] -> survives b kept cur -> survives b kept (filter has_options cur).
Proof.
  intros Hne (b1 & Hin & Hsame & Hk). exists b1. split; [|split; assumption].
  apply filter_In. split; [exact Hin|]. unfold has_options. destruct kept as [|o kk]; [contradiction|].
  specialize (Hk o (or_introl eq_refl)). destruct (b_options b1); [contradiction|reflexivity].
Qed.

Lemma survives_language ss lrs l b kept cur cur' :
  apply_language ss lrs l cur = Ok cur' ->
  (forall r, In r (builder_rules_for l lrs) -> sel_builder ss (brule_selector r) b = false) ->
  (forall r o, In r (option_rules_for l lrs) -> In o kept -> sel_option (or_sel r) b o = false) ->
  kept <> [] -> survives b kept cur -> survives b kept cur'.
Proof.
  unfold apply_language, apply_option_rules. intros H Hb Ho Hne Hs.
  destruct (apply_builder_rules ss (builder_rules_for l lrs) cur) as [cur1| | |] eqn:E1; simpl in H; try discriminate.
  destruct (apply_option_rules_go ss _ cur1) as [cur2| | |] eqn:E2; simpl in H; try discriminate.
  inversion H; subst.
  pose proof (survives_builder_rules _ _ kept _ _ _ E1 Hb Hs) as Hs1.
  apply survives_filter; [assumption|]. apply (survives_option_rules_go _ _ _ _ _ _ E2 Ho Hs1).
Qed.

(* the frame theorem on rule sequences, as the rewriter applies them: a builder no builder rule
   selects is still there with the same For, Package, Name, properties, constructor and factories,
   and with every option of it that no option rule selects *)
Theorem unselected_unchanged_rules ss lrs lang bs bs' b kept :
  apply_to_rules ss lrs lang bs = Ok bs' ->
  In b bs ->
  (forall r, In r (builder_rules_for all_languages lrs ++ builder_rules_for lang lrs) -> sel_builder ss (brule_selector r) b = false) ->
  (forall o, In o kept -> In o (b_options b)) ->
  (forall r o, In r (option_rules_for all_languages lrs ++ option_rules_for lang lrs) -> In o kept -> sel_option (or_sel r) b o = false) ->
  kept <> [] ->
  exists b', In b' bs' /\ same_header b b' /\ forall o, In o kept -> In o (b_options b').
Proof.
  unfold apply_to_rules. intros H Hin Hb Hk Ho Hne.
  destruct (apply_language ss lrs all_languages bs) as [bs1| | |] eqn:E1; simpl in H; try discriminate.
  assert (Hs0 : survives b kept bs) by (exists b; split; [exact Hin|split; [apply same_header_refl|exact Hk]]).
  assert (Hs1 : survives b kept bs1).
  { apply (survives_language _ _ _ _ _ _ _ E1); try assumption.
    - intros r Hr. apply Hb. apply in_or_app. left. exact Hr.
    - intros r o Hr. apply Ho. apply in_or_app. left. exact Hr. }
  apply (survives_language _ _ _ _ _ _ _ H); try assumption.
  - intros r Hr. apply Hb. apply in_or_app. right. exact Hr.
  - intros r o Hr. apply Ho. apply in_or_app. right. exact Hr.
Qed.
(* ---------------------------------------------------------------- reflexivity of the decidable equalities on builders *)
Lemma opt_eqb_refl {A} (e : A -> A -> bool) o : (forall x, e x x = true) -> opt_eqb e o o = true.
Proof. intros H. destruct o; simpl; auto. Qed.

Lemma argument_eqb_refl' a : argument_eqb a a = true.
Proof. unfold argument_eqb. rewrite seqb_refl', ty_eqb_refl. reflexivity. Qed.

Lemma pathindex_eqb_refl ix : pathindex_eqb ix ix = true.
Proof. unfold pathindex_eqb. rewrite (opt_eqb_refl argument_eqb _ argument_eqb_refl'), dyn_eqb_refl. reflexivity. Qed.
Lemma pathitem_eqb_refl it : pathitem_eqb it it = true.
Proof.
  unfold pathitem_eqb. rewrite seqb_refl', ty_eqb_refl, Bool.eqb_reflx, (opt_eqb_refl ty_eqb _ ty_eqb_refl),
    (opt_eqb_refl pathindex_eqb _ pathindex_eqb_refl). reflexivity.
Qed.
Lemma path_eqb_refl p : path_eqb p p = true.
Proof. apply leqb_refl_all. apply pathitem_eqb_refl. Qed.

Definition env_vals (env : option (ty * list (path * avalue))) : list (path * avalue) :=
  match env with Some (_, vals) => vals | None => [] end.
Section AValueInd.
  Variable P : avalue -> Prop.
  Hypothesis HV : forall arg c env, Forall (fun pv => P (snd pv)) (env_vals env) -> P (AValue arg c env).
  Fixpoint avalue_ind' (v : avalue) : P v :=
    match v with
    | AValue arg c env =>
        HV arg c env
           (match env as e return Forall (fun pv => P (snd pv)) (env_vals e) with
            | Some (t, vals) =>
                (fix go (l : list (path * avalue)) : Forall (fun pv => P (snd pv)) l :=
                   match l with [] => Forall_nil _ | (p, x) :: r => Forall_cons (p, x) (avalue_ind' x) (go r) end) vals
            | None => Forall_nil _
            end)
    end.
End AValueInd.

Lemma avalue_eqb_refl : forall v, avalue_eqb v v = true.
Proof.
  induction v as [arg c env IH] using avalue_ind'. simpl.
  rewrite (opt_eqb_refl argument_eqb _ argument_eqb_refl'), dyn_eqb_refl. simpl.
  destruct env as [[t vals]|]; [|reflexivity]. rewrite ty_eqb_refl. simpl. simpl in IH.
  apply leqb_refl. rewrite Forall_forall in *. intros [p x] Hin. simpl. rewrite path_eqb_refl. apply (IH (p, x) Hin).
Qed.

Lemma assignment_eqb_refl a : assignment_eqb a a = true.
Proof.
  unfold assignment_eqb. rewrite path_eqb_refl, avalue_eqb_refl, seqb_refl'. simpl.
  rewrite (leqb_refl_all aconstraint_eqb).
  - simpl. apply leqb_refl_all. intros n. unfold nilcheck_eqb. rewrite path_eqb_refl, ty_eqb_refl. reflexivity.
  - intros c. unfold aconstraint_eqb. rewrite argument_eqb_refl', seqb_refl', dyn_eqb_refl. reflexivity.
Qed.

Lemma boption_eqb_refl o : boption_eqb o o = true.
Proof.
  unfold boption_eqb. rewrite seqb_refl', (leqb_refl_all seqb _ seqb_refl'), (leqb_refl_all argument_eqb _ argument_eqb_refl'),
    (leqb_refl_all assignment_eqb _ assignment_eqb_refl). simpl.
  apply opt_eqb_refl. intros l. apply leqb_refl_all. apply dyn_eqb_refl.
Qed.

Lemma constructor_eqb_refl c : constructor_eqb c c = true.
Proof.
  unfold constructor_eqb. rewrite (leqb_refl_all argument_eqb _ argument_eqb_refl'), (leqb_refl_all assignment_eqb _ assignment_eqb_refl). reflexivity.
Qed.

Lemma field_eqb_refl f : field_eqb f f = true.
Proof. unfold field_eqb. rewrite seqb_refl', (leqb_refl_all seqb _ seqb_refl'), ty_eqb_refl, Bool.eqb_reflx. reflexivity. Qed.

Definition factory_params (f : option (string * string * string * list ocparam)) : list ocparam :=
  match f with Some (_, _, _, ps) => ps | None => [] end.
Section OCParamInd.
  Variable P : ocparam -> Prop.
  Hypothesis HP : forall arg c f, Forall P (factory_params f) -> P (OCParam arg c f).
  Fixpoint ocparam_ind' (x : ocparam) : P x :=
    match x with
    | OCParam arg c f =>
        HP arg c f
           (match f as e return Forall P (factory_params e) with
            | Some (p1, b1, f1, ps) =>
                (fix go (l : list ocparam) : Forall P l :=
                   match l with [] => Forall_nil _ | y :: r => Forall_cons y (ocparam_ind' y) (go r) end) ps
            | None => Forall_nil _
            end)
    end.
End OCParamInd.

Lemma ocparam_eqb_refl : forall x, ocparam_eqb x x = true.
Proof.
  induction x as [arg c f IH] using ocparam_ind'. simpl.
  rewrite (opt_eqb_refl argument_eqb _ argument_eqb_refl').
  rewrite (opt_eqb_refl (fun p q : ty * dyn => ty_eqb (fst p) (fst q) && dyn_eqb (snd p) (snd q))).
  2:{ intros [t d]. simpl. rewrite ty_eqb_refl, dyn_eqb_refl. reflexivity. }
  simpl. destruct f as [[[[p1 b1] f1] ps]|]; [|reflexivity]. rewrite !seqb_refl'. simpl. apply leqb_refl. exact IH.
Qed.

Lemma factory_eqb_refl f : factory_eqb f f = true.
Proof.
  unfold factory_eqb. rewrite seqb_refl', (leqb_refl_all seqb _ seqb_refl'), (leqb_refl_all argument_eqb _ argument_eqb_refl'). simpl.
  apply leqb_refl_all. intros c. unfold optioncall_eqb. rewrite seqb_refl'. simpl. apply leqb_refl_all. apply ocparam_eqb_refl.
Qed.

(* ---------------------------------------------------------------- the frame checker the correspondence evaluates
   holds of the model's result, for every sequence of rules *)
Lemma same_header_checked x y : same_header x y -> same_but_options x y = true.
Proof.
  intros (Hf & Hp & Hn & Hps & Hc & Hfa). unfold same_but_options. rewrite Hf, Hp, Hn, Hps, Hc, Hfa.
  rewrite object_eqb_refl, !seqb_refl', (leqb_refl_all field_eqb _ field_eqb_refl), constructor_eqb_refl,
    (leqb_refl_all factory_eqb _ factory_eqb_refl). reflexivity.
Qed.

Theorem frame_checker_sound ss lrs lang bs bs' :
  apply_to_rules ss lrs lang bs = Ok bs' -> frame_ok ss lrs lang bs bs' = true.
Proof.
  intros H. unfold frame_ok, rules_in_order.
  set (brs := builder_rules_for all_languages lrs ++ builder_rules_for lang lrs).
  set (ors := option_rules_for all_languages lrs ++ option_rules_for lang lrs).
  apply forallb_forall. intros b Hb.
  destruct (builder_never_selected ss brs b) eqn:Ens; [|reflexivity].
  destruct (filter (option_never_selected ors b) (b_options b)) as [|o0 kk] eqn:Ek; [reflexivity|].
  destruct (unselected_unchanged_rules ss lrs lang bs bs' b (o0 :: kk) H Hb) as (b' & Hb' & Hsame & Hk).
  - intros r Hr. unfold builder_never_selected in Ens. rewrite forallb_forall in Ens. specialize (Ens r Hr).
    destruct (sel_builder _ _ _); [discriminate|reflexivity].
  - intros o Ho. rewrite <- Ek in Ho. apply filter_In in Ho. apply Ho.
  - intros r o Hr Ho. rewrite <- Ek in Ho. apply filter_In in Ho. destruct Ho as [_ Ho].
    unfold option_never_selected in Ho. rewrite forallb_forall in Ho. specialize (Ho r Hr).
    destruct (sel_option _ _ _); [discriminate|reflexivity].
  - discriminate.
  - apply existsb_exists. exists b'. split; [exact Hb'|].
    apply andb_true_iff. split; [apply same_header_checked; exact Hsame|].
    apply forallb_forall. intros o Ho. apply existsb_exists. exists o. split; [apply Hk; exact Ho|apply boption_eqb_refl].
Qed.

Theorem unselected_unchanged_proof ss files lang bs lrs bs' :
  rewriter_from files = Ok lrs -> apply_to ss files lang bs = Ok bs' -> frame_ok ss lrs lang bs bs' = true.
Proof.
  intros Hl H. unfold apply_to in H. destruct (negb (aliases_acyclic ss)); [discriminate|]. rewrite Hl in H. simpl in H.
  apply (frame_checker_sound _ _ _ _ _ H).
Qed.

Theorem unselected_unchanged_detailed_proof ss files lang bs lrs bs' b kept :
  rewriter_from files = Ok lrs -> apply_to ss files lang bs = Ok bs' ->
  In b bs ->
  (forall r, In r (builder_rules_for all_languages lrs ++ builder_rules_for lang lrs) -> sel_builder ss (brule_selector r) b = false) ->
  (forall o, In o kept -> In o (b_options b)) ->
  (forall r o, In r (option_rules_for all_languages lrs ++ option_rules_for lang lrs) -> In o kept -> sel_option (or_sel r) b o = false) ->
  kept <> [] ->
  exists b', In b' bs' /\ same_header b b' /\ forall o, In o kept -> In o (b_options b').
Proof.
  intros Hl H. unfold apply_to in H. destruct (negb (aliases_acyclic ss)); [discriminate|]. rewrite Hl in H. simpl in H.
  apply (unselected_unchanged_rules _ _ _ _ _ _ _ H).
Qed.

(* ---------------------------------------------------------------- contracts of the option actions *)
(* an action that always succeeds with options g o turns applyOptionRules into a flat map *)
Lemma process_options_simple ss r b (g : boption -> list boption) :
  (forall o, In o (b_options b) -> sel_option (or_sel r) b o = true -> run_action ss (or_action r) b o = Ok (g o)) ->
  process_options ss r b = Ok (flat_map (fun o => if sel_option (or_sel r) b o then g o else [o]) (b_options b)).
Proof.
  intros H. unfold process_options.
  rewrite (mapM_ok_map _ (fun o => if sel_option (or_sel r) b o then g o else [o])).
  - simpl. rewrite flat_map_concat_map. reflexivity.
  - intros o Ho. unfold option_step. destruct (sel_option (or_sel r) b o) eqn:Es; [apply H; assumption|reflexivity].
Qed.

Lemma flat_map_filter_neg {A} (sel : A -> bool) l : flat_map (fun o => if sel o then [] else [o]) l = filter (fun o => negb (sel o)) l.
Proof. induction l as [|x r IH]; simpl; [reflexivity|]. rewrite IH. destruct (sel x); reflexivity. Qed.
Lemma flat_map_map_if {A} (sel : A -> bool) (f : A -> A) l : flat_map (fun o => if sel o then [f o] else [o]) l = map (fun o => if sel o then f o else o) l.
Proof. induction l as [|x r IH]; simpl; [reflexivity|]. rewrite IH. destruct (sel x); reflexivity. Qed.

(* omit removes exactly the selected options *)
Lemma omit_option_spec ss s b :
  process_options ss (mkORule s AOmit) b = Ok (filter (fun o => negb (sel_option s b o)) (b_options b)).
Proof. rewrite (process_options_simple _ _ _ (fun _ => [])); [simpl; rewrite flat_map_filter_neg; reflexivity|reflexivity]. Qed.

(* rename changes the name of the selected options and nothing else *)
Lemma rename_option_spec ss s n b :
  process_options ss (mkORule s (ARename n)) b = Ok (map (fun o => if sel_option s b o then set_oname o n else o) (b_options b)).
Proof. rewrite (process_options_simple _ _ _ (fun o => [set_oname o n])); [simpl; rewrite flat_map_map_if; reflexivity|reflexivity]. Qed.

Lemma add_comments_option_spec ss s cs b :
  process_options ss (mkORule s (AAddComments cs)) b
  = Ok (map (fun o => if sel_option s b o then set_ocomments o (op_comments o ++ cs) else o) (b_options b)).
Proof. rewrite (process_options_simple _ _ _ (fun o => [set_ocomments o (op_comments o ++ cs)])); [simpl; rewrite flat_map_map_if; reflexivity|reflexivity]. Qed.

(* duplicate (option): the option followed by a copy equal to it in everything but the name *)
Lemma duplicate_option_spec ss s n b :
  process_options ss (mkORule s (ADuplicate n)) b
  = Ok (flat_map (fun o => if sel_option s b o then [o; set_oname o n] else [o]) (b_options b)).
Proof. rewrite (process_options_simple _ _ _ (fun o => [o; set_oname o n])); reflexivity. Qed.

(* array_to_append: either nothing happens, or the option keeps its name and assigns the same
   paths, the first one now by appending one element of the array's value type *)
Lemma array_to_append_spec o os :
  array_to_append_action o = Ok os ->
  os = [o] \/
  exists a al v first rest first',
    op_args o = [a] /\ a_type a = TArray al v /\ op_assignments o = first :: rest /\
    os = [mkOption (op_name o) (op_comments o) [mkArg (singularize (a_name a)) v] (first' :: rest) (op_default o)] /\
    as_path first' = as_path first /\ as_method first' = "append" /\
    as_constraints first' = as_constraints first /\ as_const first' = as_const first /\ as_env first' = as_env first /\
    as_arg first' = match as_arg first with Some _ => Some (mkArg (singularize (a_name a)) v) | None => None end.
Proof.
  unfold array_to_append_action. destruct (op_args o) as [|a [|a2 r2]] eqn:Ea; try (intros H; inversion H; left; reflexivity).
  destruct (a_type a) eqn:Et; try (intros H; inversion H; left; reflexivity).
  destruct (op_assignments o) as [|first rest] eqn:Eas; [discriminate|].
  intros H. inversion H; subst; clear H. right.
  exists a. do 2 eexists. exists first, rest. eexists.
  split; [reflexivity|]. split; [exact Et|]. split; [reflexivity|]. split; [reflexivity|].
  destruct first as [p [arg c env] m cs ncs]. destruct arg; repeat split.
Qed.

(* map_to_index: the first assignment goes one level below the original path, at the index
   given by the new argument `key`; the value argument is one element of the map *)
Lemma map_to_index_spec o os :
  map_to_index_action o = Ok os ->
  os = [o] \/
  exists a al it vt first rest first',
    op_args o = [a] /\ a_type a = TMap al it vt /\ op_assignments o = first :: rest /\
    os = [mkOption (op_name o) (op_comments o) [mkArg "key" it; mkArg (singularize (a_name a)) vt] (first' :: rest) (op_default o)] /\
    as_path first' = as_path first ++ [index_item (mkArg "key" it) vt] /\ as_method first' = "index" /\
    as_constraints first' = as_constraints first /\ as_const first' = as_const first /\ as_env first' = as_env first /\
    as_arg first' = match as_arg first with Some _ => Some (mkArg (singularize (a_name a)) vt) | None => None end.
Proof.
  unfold map_to_index_action. destruct (op_args o) as [|a [|a2 r2]] eqn:Ea; try (intros H; inversion H; left; reflexivity).
  destruct (a_type a) eqn:Et; try (intros H; inversion H; left; reflexivity).
  destruct (op_assignments o) as [|first rest] eqn:Eas; [discriminate|].
  intros H. inversion H; subst; clear H. right.
  exists a. do 3 eexists. exists first, rest. eexists.
  split; [reflexivity|]. split; [exact Et|]. split; [reflexivity|]. split; [reflexivity|].
  destruct first as [p [arg c env] m cs ncs]. destruct arg; repeat split.
Qed.

(* unfold_boolean: either nothing happens, or two argument-less options assign true and false
   to the very path the option assigned first *)
Lemma unfold_boolean_spec tn fn o os :
  unfold_boolean_action tn fn o = Ok os ->
  os = [o] \/
  exists first rest d1 d2,
    op_assignments o = first :: rest /\
    os = [mkOption tn (op_comments o) [] [constant_asg (as_path first) (DBool true)] d1;
          mkOption fn (op_comments o) [] [constant_asg (as_path first) (DBool false)] d2].
Proof.
  unfold unfold_boolean_action. destruct (op_assignments o) as [|first rest]; [discriminate|].
  destruct (last_item (as_path first)) as [it|]; [|discriminate].
  destruct (is_bool_scalar (pi_type it)); [|intros H; inversion H; left; reflexivity].
  destruct (match op_default o with
            | None => Ok (None, None) | Some [] => Panic "index out of range [0] with length 0"
            | Some (DBool true :: _) => Ok (Some [], None) | Some (_ :: _) => Ok (None, Some []) end) as [[d1 d2]| | |];
    simpl; try discriminate.
  intros H. inversion H; subst. right. do 4 eexists. split; reflexivity.
Qed.

(* struct_fields_as_options: every produced option has one argument (the field) and one direct
   assignment, to the field below the path the option assigned first *)
Lemma sfa_options_spec ss explicit o os :
  struct_fields_as_options_action ss explicit o = Ok os ->
  os = [o] \/
  exists first rest, op_assignments o = first :: rest /\
    forall o', In o' os ->
      exists f cs, op_name o' = f_name f /\ op_comments o' = f_comments f /\ op_args o' = [mkArg (f_name f) (f_type f)] /\
        op_assignments o' = [mkAssignment (as_path first ++ path_from_struct_field f) (AValue (Some (mkArg (f_name f) (f_type f))) DNil None)
                                          "direct" cs []].
Proof.
  unfold struct_fields_as_options_action. destruct (op_args o) as [|a0 others]; [intros H; inversion H; left; reflexivity|].
  destruct (first_arg_struct ss (a_type a0)) as [ | | | |sa dh fs| | | | | | ]; try (intros H; inversion H; left; reflexivity).
  destruct (op_assignments o) as [|first rest]; [discriminate|].
  intros Em. right. exists first, rest. split; [reflexivity|].
  intros o' Ho'. apply mapM_ok_forall2 in Em. destruct (forall2_in_r _ _ _ _ Em Ho') as (f & _ & E). unfold field_option in E.
  destruct (with_type_constraints _ _) as [cs| | |]; simpl in E; try discriminate. inversion E; subst.
  exists f, cs. repeat split.
Qed.

(* struct_fields_as_arguments: every assignment of the result goes to the path the option assigned
   first (appending an envelope), to one field below it, or is one of the untouched other assignments *)
Lemma foldM_invariant {A B} (f : A -> B -> res A) (P : A -> Prop) l : forall a a',
  (forall a x a', P a -> f a x = Ok a' -> P a') -> foldM f l a = Ok a' -> P a -> P a'.
Proof.
  induction l as [|x r IH]; intros a a' Hstep H Hp; simpl in H.
  - inversion H; subst. exact Hp.
  - destruct (f a x) as [a1| | |] eqn:E; simpl in H; try discriminate. apply (IH _ _ Hstep H). apply (Hstep _ _ _ Hp E).
Qed.

Lemma sfa_arguments_spec ss explicit o os :
  struct_fields_as_arguments_action ss explicit o = Ok os ->
  os = [o] \/
  exists first rest o', op_assignments o = first :: rest /\ os = [o'] /\ op_name o' = op_name o /\ op_comments o' = op_comments o /\
    forall a', In a' (op_assignments o') ->
      In a' rest \/ as_path a' = as_path first \/ exists it, as_path a' = as_path first ++ [it] /\ pi_index it = None.
Proof.
  unfold struct_fields_as_arguments_action. destruct (op_args o) as [|a0 others]; [intros H; inversion H; left; reflexivity|].
  destruct (first_arg_struct ss (a_type a0)) as [ | | | |sa dh fs| | | | | | ]; try (intros H; inversion H; left; reflexivity).
  destruct (op_assignments o) as [|first rest]; [discriminate|].
  destruct (last_item (as_path first)) as [lastit|]; [|discriminate].
  destruct (foldM _ _ _) as [acc| | |] eqn:Ef; simpl; try discriminate.
  intros H. inversion H; subst; clear H. right. do 3 eexists. repeat split.
  assert (Hinv : Forall (fun a' => exists it, as_path a' = as_path first ++ [it] /\ pi_index it = None) (sa_asgs acc)).
  { eapply (foldM_invariant _ (fun acc => Forall (fun a' => exists it, as_path a' = as_path first ++ [it] /\ pi_index it = None) (sa_asgs acc)));
      [|exact Ef|constructor].
    intros a f a' Hp E. unfold sfa_field in E.
    destruct (is_array (pi_type lastit)); [inversion E; subst; exact Hp|].
    destruct (is_concrete_scalar _).
    - inversion E; subst. simpl. apply Forall_app. split; [exact Hp|]. constructor; [|constructor]. eexists. split; reflexivity.
    - destruct (with_type_constraints _ _) as [cs| | |]; simpl in E; try discriminate. inversion E; subst. simpl.
      apply Forall_app. split; [exact Hp|]. constructor; [|constructor]. eexists. split; reflexivity. }
  intros a' Ha'. simpl in Ha'.
  assert (Hcore : In a' (if is_array (pi_type lastit)
                         then [mkAssignment (as_path first) (AValue None DNil (Some (match pi_type lastit with TArray _ v => v | t => t end, sa_env acc))) "append" [] []]
                         else sa_asgs acc) -> as_path a' = as_path first \/ exists it, as_path a' = as_path first ++ [it] /\ pi_index it = None).
  { destruct (is_array (pi_type lastit)).
    - intros [<-|[]]. left. reflexivity.
    - intros Hin. right. rewrite Forall_forall in Hinv. apply Hinv. exact Hin. }
  destruct others as [|o2 oo].
  - right. apply Hcore. exact Ha'.
  - apply in_app_or in Ha'. destruct Ha' as [Ha'|Ha']; [right; apply Hcore; exact Ha'|left; exact Ha'].
Qed.

(* disjunction_as_options: every produced option assigns exactly the paths the option assigned,
   with the same methods *)
Lemma replace_first_using_paths n mk l :
  (forall a, as_path (mk a) = as_path a /\ as_method (mk a) = as_method a) ->
  map as_path (replace_first_using n mk l) = map as_path l /\ map as_method (replace_first_using n mk l) = map as_method l.
Proof.
  intros Hmk. induction l as [|a r [IH1 IH2]]; simpl; [split; reflexivity|].
  destruct (as_arg a) as [x|]; [destruct (seqb (a_name x) n)|]; simpl; rewrite ?IH1, ?IH2;
    try (destruct (Hmk a) as [-> ->]); split; reflexivity.
Qed.

Lemma disjunction_as_options_spec ss idx o os :
  disjunction_as_options_action ss idx o = Ok os ->
  forall o', In o' os ->
    map as_path (op_assignments o') = map as_path (op_assignments o) /\
    map as_method (op_assignments o') = map as_method (op_assignments o).
Proof.
  unfold disjunction_as_options_action.
  assert (Hsame : forall os, Ok [o] = Ok os -> forall o', In o' os ->
            map as_path (op_assignments o') = map as_path (op_assignments o) /\ map as_method (op_assignments o') = map as_method (op_assignments o)).
  { intros os0 H. inversion H; subst. intros o' [<-|[]]. split; reflexivity. }
  destruct (op_args o) as [|a0 others] eqn:Ea; [apply Hsame|].
  destruct (idx <? 0)%Z; [discriminate|].
  destruct (nth_error (a0 :: others) (Z.to_nat idx)) as [target|]; [|discriminate].
  destruct (a_type target) as [da d| | | | |ra rp rn| | | | | ] eqn:Et; try apply Hsame.
  - intros H. inversion H; subst. intros o' Ho'. apply in_map_iff in Ho'. destruct Ho' as (br & <- & _).
    unfold disjunction_branch_option, option_deep_copy. simpl. apply replace_first_using_paths. intros a. split; reflexivity.
  - destruct (is_struct_generated_from_disjunction _); [|apply Hsame].
    intros H. inversion H; subst. intros o' Ho'. apply in_map_iff in Ho'. destruct Ho' as (f & <- & _).
    unfold disjunction_branch_option, option_deep_copy. simpl. apply replace_first_using_paths. intros a. split; reflexivity.
Qed.

(* ---------------------------------------------------------------- paths: Path.Append, MakePath *)
(* Path.Append keeps both operands: for a prefix of k items (k arbitrary) the result has the prefix
   as its first k items, the suffix after them, and ends where the suffix ends *)
Lemma path_append_keeps : forall k (under p : path), List.length under = k ->
  firstn k (path_append under p) = under /\ skipn k (path_append under p) = p /\
  List.length (path_append under p) = k + List.length p /\
  (p <> [] -> last_item (path_append under p) = last_item p).
Proof.
  induction k as [|k IH]; intros under p Hlen.
  - destruct under; [|discriminate]. simpl. repeat split.
  - destruct under as [|it r]; [discriminate|]. simpl in Hlen. inversion Hlen as [Hl].
    destruct (IH r p Hl) as (H1 & H2 & H3 & H4). unfold path_append in *. simpl. repeat split.
    + rewrite Hl, H1. reflexivity.
    + rewrite Hl. exact H2.
    + rewrite Hl, H3. reflexivity.
    + intros Hp. specialize (H4 Hp). unfold last_item in *. simpl.
      destruct (map Some (r ++ p)) eqn:Em; [|exact H4].
      destruct r; destruct p; simpl in Em; try discriminate. contradiction.
Qed.

Lemma path_args_app p q : path_args (p ++ q) = path_args p ++ path_args q.
Proof. unfold path_args. apply flat_map_app. Qed.

Lemma last_item_cons it it2 r : last_item (it :: it2 :: r) = last_item (it2 :: r).
Proof. reflexivity. Qed.

Lemma end_type_cons cur it r : end_type cur (it :: r) = end_type (next_type it) r.
Proof.
  unfold end_type. destruct r as [|it2 r]; [reflexivity|]. rewrite last_item_cons.
  destruct (last_item (it2 :: r)) eqn:E; [reflexivity|]. exfalso. clear -E. unfold last_item in E.
  revert it2 E. induction r as [|x r IH]; intros it2 E; [discriminate|]. apply (IH x). exact E.
Qed.

(* a chain followed by a chain that starts where the first one ends is a chain *)
Lemma path_ok_go_app ss q : forall p cur,
  path_ok_go ss cur (p ++ q) = path_ok_go ss cur p && path_ok_go ss (end_type cur p) q.
Proof.
  induction p as [|it r IH]; intros cur; [reflexivity|].
  rewrite end_type_cons. cbn [app path_ok_go]. fold (next_type it).
  destruct (negb (pi_root it)); [|reflexivity]. cbn [andb].
  destruct (match pi_typehint it with None => true | Some _ => is_any (pi_type it) end); [|reflexivity]. cbn [andb].
  destruct (pi_index it).
  - destruct (resolve_total ss cur); try reflexivity; rewrite IH, andb_assoc; reflexivity.
  - destruct (resolve_total ss cur); try reflexivity. destruct (field_by_name fs (pi_id it)); [|reflexivity].
    rewrite IH, andb_assoc. reflexivity.
Qed.

(* the first item is looked up in what the current type resolves to *)
Lemma path_ok_go_resolved ss c1 c2 p : resolve_total ss c1 = resolve_total ss c2 -> path_ok_go ss c1 p = path_ok_go ss c2 p.
Proof. intros H. destruct p as [|it r]; [reflexivity|]. cbn [path_ok_go]. rewrite H. reflexivity. Qed.

Lemma resolve_to_type_nonref fuel ss t : is_ref t = false -> resolve_to_type fuel ss t = Ok t.
Proof. destruct fuel; destruct t; simpl; intros H; try reflexivity; discriminate. Qed.
Lemma resolve_total_nonref ss t : is_ref t = false -> resolve_total ss t = t.
Proof. intros H. unfold resolve_total. rewrite resolve_to_type_nonref by exact H. reflexivity. Qed.
Lemma resolve_total_ref ss a p n ob :
  locate_object ss p n = Some ob -> is_ref (o_type ob) = false -> resolve_total ss (TRef a p n) = o_type ob.
Proof. intros Hl Hn. unfold resolve_total, res_fuel. simpl. rewrite Hl. rewrite resolve_to_type_nonref by exact Hn. reflexivity. Qed.

Lemma ty_eqb_nd_refl t : ty_eqb_nd t t = true.
Proof. unfold ty_eqb_nd. apply ty_eqb_refl. Qed.

Lemma locate_by_object_some bs p n rb :
  locate_by_object bs p n = Some rb -> In rb bs /\ o_selfpkg (b_for rb) = p /\ o_selfname (b_for rb) = n.
Proof.
  unfold locate_by_object. intros H. apply find_some in H. destruct H as [Hin Hb]. apply andb_true_iff in Hb.
  destruct Hb as [H1 H2]. apply String.eqb_eq in H1. apply String.eqb_eq in H2. auto.
Qed.

Lemma field_by_name_name fs n f : field_by_name fs n = Some f -> f_name f = n.
Proof. unfold field_by_name. intros H. apply find_some in H. destruct H as [_ H]. apply String.eqb_eq in H. exact H. Qed.

(* Builder.MakePath returns a chain of existing fields with the recorded types, one item per
   dotted segment, without index, type hint or argument *)
Lemma make_path_go_ok ss bs : consistent_with ss bs -> forall parts cur acc p,
  make_path_go bs cur parts acc = Ok p ->
  exists suffix, p = acc ++ suffix /\ path_ok_go ss cur suffix = true /\ path_args suffix = [] /\
                 List.length suffix = List.length parts /\ Forall (fun it => pi_typehint it = None /\ pi_index it = None) suffix.
Proof.
  intros Hc. induction parts as [|part rest IH]; intros cur acc p H; simpl in H.
  - inversion H; subst. exists []. rewrite app_nil_r. repeat split. constructor.
  - destruct (match cur with
              | TRef _ p0 n => match locate_by_object bs p0 n with Some rb => Ok (o_type (b_for rb)) | None => Err "reference could not be resolved" end
              | _ => Ok cur end) as [cur1| | |] eqn:E1; simpl in H; try discriminate.
    destruct cur1 as [ | | | |sa dh fs| | | | | | ]; try discriminate.
    destruct (field_by_name fs part) as [f|] eqn:Ef; [|discriminate].
    destruct (IH _ _ _ H) as (suffix & Hp & Hok & Hargs & Hlen & Hplain).
    exists (mkPathItem part None (f_type f) None false :: suffix).
    split; [rewrite Hp, <- app_assoc; reflexivity|]. split; [|split; [exact Hargs|split; [simpl; rewrite Hlen; reflexivity|constructor; [split; reflexivity|exact Hplain]]]].
    assert (Hres : resolve_total ss cur = TStruct sa dh fs).
    { destruct cur; try (inversion E1; subst; apply resolve_total_nonref; reflexivity).
      destruct (locate_by_object bs pkg name) as [rb|] eqn:El; [|discriminate].
      assert (E1' : o_type (b_for rb) = TStruct sa dh fs) by congruence.
      destruct (locate_by_object_some _ _ _ _ El) as (Hin & <- & <-).
      rewrite (resolve_total_ref ss a _ _ (b_for rb) (Hc rb Hin)); [exact E1'|rewrite E1'; reflexivity]. }
    simpl. rewrite Hres, Ef, ty_eqb_nd_refl. exact Hok.
Qed.

Lemma split_dots_acc_nonempty s cur : split_dots_acc s cur <> [].
Proof. revert cur. induction s as [|c r IH]; intros cur; simpl; [discriminate|]. destruct (Ascii.eqb c "."%char); [discriminate|apply IH]. Qed.

Lemma make_path_ok ss bs b s p : consistent_with ss bs -> make_path bs b s = Ok p ->
  path_ok ss (o_type (b_for b)) p = true /\ path_args p = [] /\ List.length p = List.length (split_dots s) /\ p <> [] /\
  Forall (fun it => pi_typehint it = None /\ pi_index it = None) p.
Proof.
  intros Hc. unfold make_path. destruct (seqb s ""); [discriminate|]. intros H.
  destruct (make_path_go_ok ss bs Hc _ _ _ _ H) as (suffix & Hp & Hok & Hargs & Hlen & Hplain). simpl in Hp. subst p.
  assert (Hne : suffix <> []).
  { intros ->. simpl in Hlen. unfold split_dots in Hlen. pose proof (split_dots_acc_nonempty s EmptyString) as Hne.
    destruct (split_dots_acc s EmptyString); [apply Hne; reflexivity|discriminate]. }
  repeat split; try assumption. unfold path_ok. destruct suffix; [contradiction|exact Hok].
Qed.

(* ---------------------------------------------------------------- WT is kept by the rules that cannot break it *)
Definition bWT (ss : schemas) (b : builder) : Prop := WT ss b = true.
Definition opt_ok (ss : schemas) (root : ty) (o : boption) : bool := forallb (assignment_ok ss root (op_args o)) (op_assignments o).

Lemma WT_unfold ss b :
  WT ss b = forallb (assignment_ok ss (o_type (b_for b)) (ct_args (b_ctor b))) (ct_assignments (b_ctor b)) &&
            forallb (opt_ok ss (o_type (b_for b))) (b_options b).
Proof. reflexivity. Qed.

Lemma bWT_ext ss b b' : b_for b' = b_for b -> b_ctor b' = b_ctor b -> b_options b' = b_options b -> bWT ss b -> bWT ss b'.
Proof. unfold bWT. rewrite !WT_unfold. intros -> -> ->. auto. Qed.

Lemma bWT_options ss b os : bWT ss b -> forallb (opt_ok ss (o_type (b_for b))) os = true -> bWT ss (set_options b os).
Proof. unfold bWT. rewrite !WT_unfold. simpl. intros H Ho. apply andb_true_iff in H. destruct H as [H1 _]. rewrite H1, Ho. reflexivity. Qed.

Lemma bWT_options_ok ss b : bWT ss b -> forallb (opt_ok ss (o_type (b_for b))) (b_options b) = true.
Proof. unfold bWT. rewrite WT_unfold. intros H. apply andb_true_iff in H. apply H. Qed.

Lemma bWT_ctor_ok ss b : bWT ss b -> forallb (assignment_ok ss (o_type (b_for b)) (ct_args (b_ctor b))) (ct_assignments (b_ctor b)) = true.
Proof. unfold bWT. rewrite WT_unfold. intros H. apply andb_true_iff in H. apply H. Qed.

(* initialize *)
Lemma initialize_builder_wt ss bs set b b' :
  consistent_with ss bs -> initialize_builder bs set b = Ok b' -> bWT ss b -> bWT ss b' /\ b_for b' = b_for b.
Proof.
  intros Hc H Hw. unfold initialize_builder in H. destruct (mapM _ set) as [asgs| | |] eqn:Em; simpl in H; try discriminate.
  inversion H; subst. split; [|reflexivity]. unfold bWT in *. rewrite WT_unfold in *. simpl.
  apply andb_true_iff in Hw. destruct Hw as [H1 H2]. rewrite H2, andb_true_r. rewrite forallb_app, H1. simpl.
  apply mapM_ok_forall2 in Em. apply forallb_forall. intros a Ha.
  destruct (forall2_in_r _ _ _ _ Em Ha) as ([ps v] & _ & E). simpl in E.
  destruct (make_path bs b ps) as [p| | |] eqn:Ep; simpl in E; try discriminate. inversion E; subst.
  destruct (make_path_ok _ _ _ _ _ Hc Ep) as (Hok & Hargs & _).
  unfold assignment_ok, constant_asg, assignment_args. simpl. rewrite Hok, Hargs. reflexivity.
Qed.

Lemma forall_mapM_if {A} (P : A -> Prop) (sel : A -> bool) (f : A -> res A) l l' :
  mapM (fun x => if sel x then f x else Ok x) l = Ok l' -> Forall P l ->
  (forall x y, In x l -> P x -> f x = Ok y -> P y) -> Forall P l'.
Proof.
  intros H Hp Hf. apply mapM_ok_forall2 in H. apply Forall_forall. intros y Hy.
  destruct (forall2_in_r _ _ _ _ H Hy) as (x & Hx & E). rewrite Forall_forall in Hp.
  destruct (sel x); [apply (Hf x y Hx (Hp x Hx) E)|inversion E; subst; apply Hp; exact Hx].
Qed.

(* veneers.AssignmentValue.AsIR: the envelope paths it builds exist, and it uses no other argument than the rule's *)
Section VValueInd.
  Variable P : vvalue -> Prop.
  Hypothesis HV : forall arg c env, Forall (fun kv => P (snd kv)) (match env with Some vals => vals | None => [] end) -> P (VValue arg c env).
  Fixpoint vvalue_ind' (v : vvalue) : P v :=
    match v with
    | VValue arg c env =>
        HV arg c env
           (match env as e return Forall (fun kv => P (snd kv)) (match e with Some vals => vals | None => [] end) with
            | Some vals =>
                (fix go (l : list (string * vvalue)) : Forall (fun kv => P (snd kv)) l :=
                   match l with [] => Forall_nil _ | (k, x) :: r => Forall_cons (k, x) (vvalue_ind' x) (go r) end) vals
            | None => Forall_nil _
            end)
    end.
End VValueInd.

Lemma vvalue_as_ir_ok ss : forall v p av, vvalue_as_ir ss p v = Ok av ->
  avalue_paths_ok ss av = true /\ incl (avalue_args av) (vvalue_args v).
Proof.
  induction v as [arg c env IH] using vvalue_ind'. intros p av H.
  destruct arg as [a|].
  - simpl in H. inversion H; subst. split; [reflexivity|]. simpl. intros x [<-|[]]. left. reflexivity.
  - cbn [vvalue_as_ir] in H. destruct (negb (dyn_is_nil c)).
    + inversion H; subst. split; [reflexivity|]. intros x [].
    + destruct env as [vals|]; [|discriminate].
      destruct (last_item p) as [it|]; [|discriminate].
      set (et := envelope_type_of (pi_type it)) in *.
      match type of H with (do vs <- ?G vals ; _) = _ => set (go := G) in * end.
      assert (Hgo : forall l vs, Forall (fun kv => forall p av, vvalue_as_ir ss p (snd kv) = Ok av ->
                                           avalue_paths_ok ss av = true /\ incl (avalue_args av) (vvalue_args (snd kv))) l ->
                 go l = Ok vs ->
                 (fix ok (l : list (path * avalue)) : bool :=
                    match l with [] => true | (p, x) :: r => path_ok ss et p && avalue_paths_ok ss x && ok r end) vs = true /\
                 incl ((fix ga (l : list (path * avalue)) : list argument :=
                          match l with [] => [] | (p, x) :: r => path_args p ++ avalue_args x ++ ga r end) vs)
                      ((fix gv (l : list (string * vvalue)) : list argument :=
                          match l with [] => [] | (_, x) :: r => vvalue_args x ++ gv r end) l)).
      { induction l as [|[fname fv] r IHl]; intros vs Hall Hg; simpl in Hg.
        - inversion Hg; subst. split; [reflexivity|]. intros x [].
        - destruct (resolve_total ss et) as [ | | | |sa dh fs| | | | | | ] eqn:Er; try discriminate.
          destruct (field_by_name fs fname) as [f|] eqn:Ef; [|discriminate].
          destruct (vvalue_as_ir ss (path_from_struct_field f) fv) as [x| | |] eqn:Ex; simpl in Hg; try discriminate.
          destruct (go r) as [xs| | |] eqn:Exs; simpl in Hg; try discriminate. inversion Hg; subst.
          inversion Hall as [|? ? Hfv Hr]; subst. destruct (Hfv _ _ Ex) as [Hx1 Hx2]. destruct (IHl _ Hr eq_refl) as [Hr1 Hr2].
          split.
          + rewrite Hx1, Hr1. unfold path_ok, path_from_struct_field. cbn [path_ok_go pi_root pi_typehint pi_index pi_type pi_id negb andb].
            rewrite Er. rewrite (field_by_name_name _ _ _ Ef), Ef, ty_eqb_nd_refl. reflexivity.
          + simpl. intros y Hy. apply in_app_or in Hy. destruct Hy as [Hy|Hy]; apply in_or_app; [left; apply Hx2; exact Hy|right; apply Hr2; exact Hy]. }
      destruct (go vals) as [vs| | |] eqn:Eg; simpl in H; try discriminate. inversion H; subst.
      destruct (Hgo vals vs IH Eg) as [H1 H2]. split; [exact H1|]. simpl. exact H2.
Qed.

Lemma incl_forallb {A} (p : A -> bool) l l' : incl l l' -> forallb p l' = true -> forallb p l = true.
Proof. intros Hi H. rewrite forallb_forall in *. intros x Hx. apply H. apply Hi. exact Hx. Qed.

Lemma vassignment_as_ir_ok ss bs root args a asg :
  consistent_with ss bs -> vassignment_as_ir ss bs root a = Ok asg ->
  forallb (arg_declared args) (vvalue_args (va_value a)) = true ->
  assignment_ok ss (o_type (b_for root)) args asg = true.
Proof.
  intros Hc H Hd. unfold vassignment_as_ir in H.
  destruct (make_path bs root (va_path a)) as [p| | |] eqn:Ep; simpl in H; try discriminate.
  destruct (vvalue_as_ir ss p (va_value a)) as [v| | |] eqn:Ev; simpl in H; try discriminate. inversion H; subst.
  destruct (make_path_ok _ _ _ _ _ Hc Ep) as (Hok & Hargs & _). destruct (vvalue_as_ir_ok _ _ _ _ Ev) as [Hv1 Hv2].
  unfold assignment_ok, assignment_args. simpl. rewrite Hok, Hv1, Hargs. simpl. rewrite app_nil_r. apply (incl_forallb _ _ _ Hv2 Hd).
Qed.

(* every builder rule of the safe group keeps: each builder well-typed, and each builder's object the schemas' *)
Lemma wt_safe_brule_preserves ss r bs bs' :
  wt_safe_brule r = true -> apply_builder_rule ss r bs = Ok bs' ->
  consistent_with ss bs -> Forall (bWT ss) bs -> consistent_with ss bs' /\ Forall (bWT ss) bs'.
Proof.
  intros Hsafe H Hc Hw.
  set (Q := fun b => bWT ss b /\ locate_object ss (o_selfpkg (b_for b)) (o_selfname (b_for b)) = Some (b_for b)).
  assert (Hboth : Forall Q bs).
  { apply Forall_forall. intros b Hb. rewrite Forall_forall in Hw. split; [apply Hw; exact Hb|apply Hc; exact Hb]. }
  cut (Forall Q bs').
  { intros Hf. rewrite Forall_forall in Hf. split; [intros b Hb; apply Hf; exact Hb|apply Forall_forall; intros b Hb; apply Hf; exact Hb]. }
  destruct r as [s|s n|s src under excl ren|s c|s ps|s n excl|s set|s names|s o|s f]; try discriminate; cbn [apply_builder_rule] in H.
  - inversion H; subst. unfold omit_rule. rewrite Forall_forall in *. intros b Hb. apply filter_In in Hb. apply Hboth. apply Hb.
  - inversion H; subst. unfold rename_rule. rewrite Forall_forall in *. intros b' Hb'. apply in_map_iff in Hb'.
    destruct Hb' as (b & <- & Hb). destruct (Hboth b Hb) as [H1 H2]. destruct (sel_builder ss s b); [|split; assumption].
    split; [apply (bWT_ext ss b); try reflexivity; exact H1|exact H2].
  - inversion H; subst. unfold properties_rule. rewrite Forall_forall in *. intros b' Hb'. apply in_map_iff in Hb'.
    destruct Hb' as (b & <- & Hb). destruct (Hboth b Hb) as [H1 H2]. destruct (sel_builder ss s b); [|split; assumption].
    split; [apply (bWT_ext ss b); try reflexivity; exact H1|exact H2].
  - inversion H; subst. unfold duplicate_rule. apply Forall_app. split; [exact Hboth|].
    rewrite Forall_forall in *. intros d Hd. apply in_map_iff in Hd. destruct Hd as (b & <- & Hb). apply filter_In in Hb.
    destruct (Hboth b (proj1 Hb)) as [H1 H2]. unfold duplicate_builder, builder_deep_copy.
    assert (Hcopy : bWT ss (set_name b n)) by (apply (bWT_ext ss b); try reflexivity; exact H1).
    destruct excl as [|e ee]; [split; [exact Hcopy|exact H2]|]. split; [|exact H2].
    apply bWT_options; [exact Hcopy|]. apply forallb_filter_sub. apply (bWT_options_ok _ _ Hcopy).
  - unfold initialize_rule in H. apply (forall_mapM_if _ _ _ _ _ H Hboth). intros b b' Hb [H1 H2] E.
    destruct (initialize_builder_wt _ _ _ _ _ Hc E H1) as [Hw' Hfor]. split; [exact Hw'|rewrite Hfor; exact H2].
  - (* add_option *)
    unfold add_option_rule in H. apply (forall_mapM_if _ _ _ _ _ H Hboth). intros b b' Hb [H1 H2] E.
    unfold voption_as_ir in E. destruct (mapM _ (vo_assignments o)) as [asgs| | |] eqn:Em; simpl in E; try discriminate.
    inversion E; subst. split; [|exact H2].
    unfold bWT in *. rewrite WT_unfold in *. simpl. apply andb_true_iff in H1. destruct H1 as [Hc1 Ho1]. rewrite Hc1, forallb_app, Ho1. simpl.
    rewrite andb_true_r. unfold opt_ok. simpl. apply mapM_ok_forall2 in Em. apply forallb_forall. intros a Ha.
    destruct (forall2_in_r _ _ _ _ Em Ha) as (va & Hva & Ea).
    apply (vassignment_as_ir_ok _ _ _ _ _ _ Hc Ea). simpl in Hsafe. unfold voption_wf in Hsafe. rewrite forallb_forall in Hsafe. apply Hsafe. exact Hva.
  - unfold add_factory_rule in H. apply (forall_mapM_if _ _ _ _ _ H Hboth). intros b b' Hb [H1 H2] E.
    destruct (ct_args (b_ctor b)); [|discriminate]. inversion E; subst. split; [apply (bWT_ext ss b); try reflexivity; exact H1|exact H2].
Qed.

(* safe option actions return well-typed options *)
Lemma opt_ok_ext ss root o o' : op_args o' = op_args o -> op_assignments o' = op_assignments o -> opt_ok ss root o' = opt_ok ss root o.
Proof. unfold opt_ok. intros -> ->. reflexivity. Qed.

Lemma wt_safe_action_result ss act b o os :
  wt_safe_action act = true -> consistent_with ss [b] -> opt_ok ss (o_type (b_for b)) o = true ->
  run_action ss act b o = Ok os -> forallb (opt_ok ss (o_type (b_for b))) os = true.
Proof.
  intros Hs Hc Ho H. destruct act; try discriminate; simpl in H.
  - inversion H. reflexivity.
  - inversion H. simpl. rewrite andb_true_r. rewrite <- Ho. apply opt_ok_ext; reflexivity.
  - inversion H. simpl. rewrite Ho. simpl. rewrite andb_true_r. rewrite <- Ho. apply opt_ok_ext; reflexivity.
  - unfold add_assignment_action in H. destruct (vassignment_as_ir ss [b] b a) as [ir| | |] eqn:E; try discriminate.
    + inversion H. simpl. rewrite andb_true_r. unfold opt_ok in *. simpl. rewrite forallb_app, Ho. simpl. rewrite andb_true_r.
      apply (vassignment_as_ir_ok _ _ _ _ _ _ Hc E). simpl in Hs. destruct (vvalue_args (va_value a)); [reflexivity|discriminate].
    + inversion H. simpl. rewrite Ho. reflexivity.
  - inversion H. simpl. rewrite andb_true_r. rewrite <- Ho. apply opt_ok_ext; reflexivity.
Qed.

Lemma process_options_safe_wt ss r b os' :
  wt_safe_action (or_action r) = true -> consistent_with ss [b] -> process_options ss r b = Ok os' ->
  forallb (opt_ok ss (o_type (b_for b))) (b_options b) = true -> forallb (opt_ok ss (o_type (b_for b))) os' = true.
Proof.
  intros Hs Hc H Ho. unfold process_options in H.
  destruct (mapM _ _) as [outs| | |] eqn:Em; simpl in H; try discriminate. inversion H; subst. clear H.
  apply mapM_ok_forall2 in Em. apply forallb_forall. intros o' Ho'. apply in_concat in Ho'. destruct Ho' as (out & Hout & Hin).
  destruct (forall2_in_r _ _ _ _ Em Hout) as (o & Hoin & E). unfold option_step in E.
  assert (Hok : opt_ok ss (o_type (b_for b)) o = true) by (rewrite forallb_forall in Ho; apply Ho; exact Hoin).
  destruct (sel_option (or_sel r) b o).
  - pose proof (wt_safe_action_result ss _ b o out Hs Hc Hok E) as Hos. rewrite forallb_forall in Hos. apply Hos. exact Hin.
  - inversion E; subst. destruct Hin as [<-|[]]. exact Hok.
Qed.

Lemma apply_option_rule_safe ss r bs bs' :
  wt_safe_action (or_action r) = true -> apply_option_rule ss r bs = Ok bs' ->
  consistent_with ss bs -> Forall (bWT ss) bs -> consistent_with ss bs' /\ Forall (bWT ss) bs'.
Proof.
  intros Hs H Hc Hw. split.
  - pose proof (apply_option_rule_headers _ _ _ _ H) as Hh. intros b' Hb'.
    destruct (forall2_in_r _ _ _ _ Hh Hb') as (b & Hb & (Hf & _)). rewrite <- Hf. apply Hc. exact Hb.
  - unfold apply_option_rule in H. apply mapM_ok_forall2 in H. apply Forall_forall. intros b' Hb'.
    destruct (forall2_in_r _ _ _ _ H Hb') as (b & Hb & E).
    destruct (process_options ss r b) as [os'| | |] eqn:Ep; simpl in E; try discriminate. inversion E; subst.
    rewrite Forall_forall in Hw. apply bWT_options; [apply Hw; exact Hb|].
    apply (process_options_safe_wt _ _ _ _ Hs); [intros x [<-|[]]; apply Hc; exact Hb|exact Ep|]. apply bWT_options_ok. apply Hw. exact Hb.
Qed.

(* sequences of safe rules, as the rewriter applies them *)
Lemma wt_safe_builder_rules ss : forall rs bs bs',
  forallb wt_safe_brule rs = true -> apply_builder_rules ss rs bs = Ok bs' ->
  consistent_with ss bs -> Forall (bWT ss) bs -> consistent_with ss bs' /\ Forall (bWT ss) bs'.
Proof.
  induction rs as [|r rest IH]; intros bs bs' Hs H Hc Hw; simpl in H.
  - inversion H; subst. split; assumption.
  - simpl in Hs. apply andb_true_iff in Hs. destruct Hs as [Hs1 Hs2].
    destruct (apply_builder_rule ss r bs) as [bs1| | |] eqn:E; simpl in H; try discriminate.
    destruct (wt_safe_brule_preserves _ _ _ _ Hs1 E Hc Hw) as [Hc1 Hw1]. apply (IH _ _ Hs2 H Hc1 Hw1).
Qed.

Lemma wt_safe_option_rules_go ss : forall rs bs bs',
  forallb (fun r => wt_safe_action (or_action r)) rs = true -> apply_option_rules_go ss rs bs = Ok bs' ->
  consistent_with ss bs -> Forall (bWT ss) bs -> consistent_with ss bs' /\ Forall (bWT ss) bs'.
Proof.
  induction rs as [|r rest IH]; intros bs bs' Hs H Hc Hw; simpl in H.
  - inversion H; subst. split; assumption.
  - simpl in Hs. apply andb_true_iff in Hs. destruct Hs as [Hs1 Hs2].
    destruct (apply_option_rule ss r bs) as [bs1| | |] eqn:E; simpl in H; try discriminate.
    destruct (apply_option_rule_safe _ _ _ _ Hs1 E Hc Hw) as [Hc1 Hw1]. apply (IH _ _ Hs2 H Hc1 Hw1).
Qed.

Lemma forallb_flat_map_sub {A B} (p : B -> bool) (q : A -> bool) (f : A -> list B) l :
  (forall x, In x l -> forallb p (f x) = true) -> forallb p (flat_map (fun x => if q x then f x else []) l) = true.
Proof.
  intros H. apply forallb_forall. intros y Hy. apply in_flat_map in Hy. destruct Hy as (x & Hx & Hy).
  destruct (q x); [|contradiction]. specialize (H x Hx). rewrite forallb_forall in H. apply H. exact Hy.
Qed.

Lemma wt_safe_rules_for lrs l : wt_safe_rules lrs = true ->
  forallb wt_safe_brule (builder_rules_for l lrs) = true /\ forallb (fun r => wt_safe_action (or_action r)) (option_rules_for l lrs) = true.
Proof.
  unfold wt_safe_rules, builder_rules_for, option_rules_for. intros H. rewrite forallb_forall in H. split.
  - apply forallb_flat_map_sub. intros lr Hlr. specialize (H lr Hlr). apply andb_true_iff in H. apply H.
  - apply forallb_flat_map_sub. intros lr Hlr. specialize (H lr Hlr). apply andb_true_iff in H. apply H.
Qed.

Lemma wt_safe_language ss lrs l bs bs' :
  wt_safe_rules lrs = true -> apply_language ss lrs l bs = Ok bs' ->
  consistent_with ss bs -> Forall (bWT ss) bs -> consistent_with ss bs' /\ Forall (bWT ss) bs'.
Proof.
  intros Hs H Hc Hw. destruct (wt_safe_rules_for lrs l Hs) as [Hsb Hso]. unfold apply_language, apply_option_rules in H.
  destruct (apply_builder_rules ss (builder_rules_for l lrs) bs) as [bs1| | |] eqn:E1; simpl in H; try discriminate.
  destruct (wt_safe_builder_rules _ _ _ _ Hsb E1 Hc Hw) as [Hc1 Hw1].
  destruct (apply_option_rules_go ss _ bs1) as [bs2| | |] eqn:E2; simpl in H; try discriminate.
  destruct (wt_safe_option_rules_go _ _ _ _ Hso E2 Hc1 Hw1) as (Hc2 & Hw2). inversion H; subst. split.
  - intros b Hb. apply filter_In in Hb. apply Hc2. apply Hb.
  - rewrite Forall_forall in *. intros b Hb. apply filter_In in Hb. apply Hw2. apply Hb.
Qed.

Lemma bWT_all ss bs : WTs ss bs = true <-> Forall (bWT ss) bs.
Proof. unfold WTs, bWT. rewrite forallb_forall, Forall_forall. reflexivity. Qed.

Theorem rules_preserve_WT_partial_proof ss files lang bs lrs bs' :
  rewriter_from files = Ok lrs -> wt_safe_rules lrs = true ->
  consistent_with ss bs -> WTs ss bs = true ->
  apply_to ss files lang bs = Ok bs' -> WTs ss bs' = true.
Proof.
  intros Hl Hs Hc Hw H. unfold apply_to in H. destruct (negb (aliases_acyclic ss)); [discriminate|]. rewrite Hl in H. simpl in H.
  unfold apply_to_rules in H. destruct (apply_language ss lrs all_languages bs) as [bs1| | |] eqn:E1; simpl in H; try discriminate.
  apply bWT_all in Hw. destruct (wt_safe_language _ _ _ _ _ Hs E1 Hc Hw) as (Hc1 & Hw1).
  destruct (wt_safe_language _ _ _ _ _ Hs H Hc1 Hw1) as (_ & Hw2). apply bWT_all. exact Hw2.
Qed.

(* ---------------------------------------------------------------- merge_into: where the merged assignments land *)
Lemma flat_map_if_filter {A B} (ex : A -> bool) (f : A -> B) l :
  flat_map (fun o => if ex o then [] else [f o]) l = map f (filter (fun o => negb (ex o)) l).
Proof. induction l as [|x r IH]; simpl; [reflexivity|]. rewrite IH. destruct (ex x); reflexivity. Qed.

Lemma merge_builder_into_options from into under excl ren :
  b_options (merge_builder_into from into under excl ren)
  = b_options into ++ map (merged_option under ren) (filter (fun o => negb (item_in_list (op_name o) excl)) (b_options from)).
Proof. unfold merge_builder_into. simpl. rewrite (flat_map_if_filter (fun o => item_in_list (op_name o) excl) (merged_option under ren)). reflexivity. Qed.

(* merge_into under a path of k dotted segments, for EVERY k: the options of the source land after the
   destination's own, each assignment under a k-item prefix (the same for all: Path.Append copies), after
   which its own path follows unchanged — it ends at its own field *)
Theorem merge_into_paths_proof ss src under excl ren cur dest dest' source :
  consistent_with ss cur ->
  merge_into_builder src under excl ren cur dest = Ok dest' ->
  locate_by_name cur (o_selfpkg (b_for dest)) src = Some source ->
  exists root k,
    make_path cur dest under = Ok root /\ k = List.length (split_dots under) /\ List.length root = k /\
    b_options dest' = b_options dest ++ map (merged_option root ren) (filter (fun o => negb (item_in_list (op_name o) excl)) (b_options source)) /\
    forall a, as_path (prefix_path root a) = root ++ as_path a /\
              firstn k (as_path (prefix_path root a)) = root /\ skipn k (as_path (prefix_path root a)) = as_path a /\
              (as_path a <> [] -> last_item (as_path (prefix_path root a)) = last_item (as_path a)).
Proof.
  intros Hc H Hl. unfold merge_into_builder in H. rewrite Hl in H.
  destruct (make_path cur dest under) as [root| | |] eqn:Ep; simpl in H; try discriminate. inversion H; subst.
  destruct (make_path_ok _ _ _ _ _ Hc Ep) as (_ & _ & Hlen & _).
  exists root, (List.length (split_dots under)). split; [reflexivity|]. split; [reflexivity|]. split; [exact Hlen|].
  split; [apply merge_builder_into_options|].
  intros a. destruct (path_append_keeps _ root (as_path a) Hlen) as (H1 & H2 & _ & H4). repeat split; assumption.
Qed.

(* ... and when the path leads to the object the source builds (what MergeInto does not check), the
   merged builder is well-typed *)
Lemma path_ok_nonempty ss root p : p <> [] -> path_ok ss root p = path_ok_go ss root p.
Proof. destruct p; [contradiction|reflexivity]. Qed.

Lemma prefix_assignment_ok ss root_into root_from under args a it :
  path_ok ss root_into under = true -> path_args under = [] -> last_item under = Some it ->
  resolve_total ss (next_type it) = resolve_total ss root_from ->
  assignment_ok ss root_from args a = true -> assignment_ok ss root_into args (prefix_path under a) = true.
Proof.
  intros Hu Hua Hl Hr Ha. unfold assignment_ok in *. unfold prefix_path, set_as_path, path_append, assignment_args in *.
  cbn [as_path as_value as_constraints].
  apply andb_true_iff in Ha. destruct Ha as [Ha Hargs]. apply andb_true_iff in Ha. destruct Ha as [Hp Hv].
  rewrite Hv, path_args_app, Hua. cbn [app]. rewrite Hargs, !andb_true_r.
  assert (Hune : under <> []) by (intros ->; discriminate).
  assert (Hpne : as_path a <> []) by (intros E; rewrite E in Hp; discriminate).
  rewrite path_ok_nonempty by (intros E; apply app_eq_nil in E; apply Hune; apply E).
  rewrite path_ok_nonempty in Hu by exact Hune. rewrite path_ok_nonempty in Hp by exact Hpne.
  rewrite path_ok_go_app, Hu. cbn [andb]. unfold end_type. rewrite Hl. rewrite (path_ok_go_resolved ss _ root_from _ Hr). exact Hp.
Qed.

Theorem merge_into_builder_wt_proof ss src under excl ren cur dest dest' :
  consistent_with ss cur -> Forall (bWT ss) cur -> bWT ss dest ->
  merge_target_checked ss cur dest src under ->
  merge_into_builder src under excl ren cur dest = Ok dest' -> bWT ss dest' /\ b_for dest' = b_for dest.
Proof.
  intros Hc Hw Hd Hchk H. unfold merge_into_builder in H.
  destruct (locate_by_name cur (o_selfpkg (b_for dest)) src) as [source|] eqn:El; [|inversion H; subst; split; [exact Hd|reflexivity]].
  destruct (make_path cur dest under) as [root| | |] eqn:Ep; simpl in H; try discriminate. inversion H; subst. split; [|reflexivity].
  destruct (make_path_ok _ _ _ _ _ Hc Ep) as (Hok & Hargs & _ & Hne & Hplain).
  assert (Hsw : bWT ss source).
  { rewrite Forall_forall in Hw. apply Hw. unfold locate_by_name in El. apply find_some in El. apply El. }
  destruct (last_item root) as [it|] eqn:Elast.
  2:{ exfalso. destruct root as [|x r]; [contradiction|]. clear - Elast. unfold last_item in Elast. revert x Elast.
      induction r as [|y r IH]; intros x E; [discriminate|apply (IH y E)]. }
  destruct (Hchk source root it El Ep Elast) as [Hres Hconst].
  assert (Hnext : resolve_total ss (next_type it) = resolve_total ss (o_type (b_for source))).
  { unfold next_type. assert (Hh : pi_typehint it = None).
    { rewrite Forall_forall in Hplain. apply Hplain. clear - Elast. unfold last_item in Elast.
      induction root as [|x r IH]; [discriminate|]. destruct r as [|y r]; [simpl in Elast; inversion Elast; left; reflexivity|right; apply IH; exact Elast]. }
    rewrite Hh. exact Hres. }
  unfold bWT in *. rewrite WT_unfold in *. unfold merge_builder_into. simpl.
  apply andb_true_iff in Hd. destruct Hd as [Hd1 Hd2]. apply andb_true_iff in Hsw. destruct Hsw as [Hs1 Hs2].
  rewrite !forallb_app, Hd1, Hd2. simpl. apply andb_true_iff. split.
  - (* constructor constants of the source, under the path *)
    rewrite forallb_map'. apply forallb_forall. intros a Ha. apply filter_In in Ha. destruct Ha as [Ha Hnil].
    assert (Hnoarg : assignment_args a = []).
    { apply Hconst; [exact Ha|]. destruct (dyn_is_nil (as_const a)); [discriminate|reflexivity]. }
    rewrite forallb_forall in Hs1. specialize (Hs1 a Ha).
    pose proof (prefix_assignment_ok ss (o_type (b_for dest)) (o_type (b_for source)) root (ct_args (b_ctor source)) a it Hok Hargs Elast Hnext Hs1) as Hpa.
    unfold assignment_ok in *. apply andb_true_iff in Hpa. destruct Hpa as [Hpa _]. rewrite Hpa. simpl.
    unfold assignment_args in *. unfold prefix_path, set_as_path, path_append. simpl. rewrite path_args_app, Hargs. simpl.
    rewrite Hnoarg. reflexivity.
  - (* the options of the source, under the path *)
    rewrite (flat_map_if_filter (fun o => item_in_list (op_name o) excl) (merged_option root ren)).
    rewrite forallb_map'. apply forallb_forall. intros o Ho. apply filter_In in Ho. destruct Ho as [Ho _].
    rewrite forallb_forall in Hs2. specialize (Hs2 o Ho). unfold opt_ok in *. unfold merged_option. simpl.
    rewrite forallb_map'. apply forallb_forall. intros a Ha. rewrite forallb_forall in Hs2.
    apply (prefix_assignment_ok ss _ (o_type (b_for source)) root _ a it Hok Hargs Elast Hnext (Hs2 a Ha)).
Qed.

Lemma in_set_nth {A} i (x : A) l y : In y (set_nth i x l) -> y = x \/ In y l.
Proof.
  revert i. induction l as [|z r IH]; intros i H; [destruct i; contradiction|].
  destruct i as [|j]; simpl in H.
  - destruct H as [<-|H]; [left; reflexivity|right; right; exact H].
  - destruct H as [<-|H]; [right; left; reflexivity|]. destruct (IH _ H) as [->|Hin]; [left; reflexivity|right; right; exact Hin].
Qed.

(* the whole rule: every destination the selector picks, in order, each seeing the earlier merges *)
Theorem merge_into_rule_wt_proof ss s src under excl ren bs bs' :
  (forall cur dest, consistent_with ss cur -> Forall (bWT ss) cur -> In dest cur -> sel_builder ss s dest = true ->
                    merge_target_checked ss cur dest src under) ->
  consistent_with ss bs -> Forall (bWT ss) bs ->
  apply_builder_rule ss (BRMergeInto s src under excl ren) bs = Ok bs' ->
  consistent_with ss bs' /\ Forall (bWT ss) bs'.
Proof.
  intros Hchk Hc Hw H. cbn [apply_builder_rule] in H. unfold merge_into_rule, map_to_selected in H.
  revert H. generalize 0 as i. generalize (List.length bs) as todo. revert bs Hc Hw.
  intros bs Hc Hw todo. revert bs Hc Hw. induction todo as [|t IH]; intros bs Hc Hw i H; simpl in H.
  - inversion H; subst. split; assumption.
  - destruct (nth_error bs i) as [b|] eqn:En; [|inversion H; subst; split; assumption].
    destruct (sel_builder ss s b) eqn:Es; [|apply (IH _ Hc Hw (S i) H)].
    destruct (merge_into_builder src under excl ren bs b) as [nb| | |] eqn:Em; simpl in H; try discriminate.
    assert (Hin : In b bs) by (apply nth_error_In in En; exact En).
    assert (Hbw : bWT ss b) by (rewrite Forall_forall in Hw; apply Hw; exact Hin).
    destruct (merge_into_builder_wt_proof _ _ _ _ _ _ _ _ Hc Hw Hbw (Hchk bs b Hc Hw Hin Es) Em) as [Hnw Hnf].
    apply (IH (set_nth i nb bs)) with (i := S i); [| |exact H].
    + intros y Hy. destruct (in_set_nth _ _ _ _ Hy) as [->|Hy']; [rewrite Hnf; apply Hc; exact Hin|apply Hc; exact Hy'].
    + apply Forall_forall. intros y Hy. destruct (in_set_nth _ _ _ _ Hy) as [->|Hy']; [exact Hnw|rewrite Forall_forall in Hw; apply Hw; exact Hy'].
Qed.

(* ---------------------------------------------------------------- option actions on options of the shape FromAST derives *)
Lemma arg_declared_head a r : arg_declared (a :: r) a = true.
Proof. unfold arg_declared. simpl. unfold ty_eqb_nn. rewrite seqb_refl', ty_eqb_refl. reflexivity. Qed.

Lemma path_ok_go_snoc ss x p cur it :
  path_ok_go ss cur p = true -> last_item p = Some it -> path_ok_go ss (next_type it) [x] = true -> path_ok_go ss cur (p ++ [x]) = true.
Proof. intros Hp Hl Hx. rewrite path_ok_go_app, Hp. unfold end_type. rewrite Hl. exact Hx. Qed.

Ltac shape_intro H :=
  destruct H as (Ha & Has & Harg & He & Hcs & Hpa & (it & Hlast & Hty & Hhint)).

Lemma derived_first_ok ss root o a first : derived_shape o a first -> opt_wt ss root o = true ->
  path_ok ss root (as_path first) = true.
Proof.
  intros Hs Hw. shape_intro Hs. unfold opt_wt in Hw. rewrite Has in Hw. simpl in Hw. rewrite andb_true_r in Hw.
  unfold assignment_ok in Hw. apply andb_true_iff in Hw. destruct Hw as [Hw _]. apply andb_true_iff in Hw. apply Hw.
Qed.

Lemma array_to_append_derived_wt ss root o a first os :
  derived_shape o a first -> as_constraints first = [] -> opt_wt ss root o = true -> array_to_append_action o = Ok os ->
  forallb (opt_wt ss root) os = true.
Proof.
  intros Hs Hnc Hw H. pose proof (derived_first_ok _ _ _ _ _ Hs Hw) as Hp. shape_intro Hs.
  unfold array_to_append_action in H. rewrite Ha, Has in H.
  destruct (a_type a) eqn:Et; try (inversion H; subst; simpl; rewrite Hw; reflexivity).
  inversion H; subst; clear H. destruct first as [p [arg c env] m cs ncs]. unfold as_arg, as_env, as_const in *. simpl in *. subst arg env cs.
  unfold opt_wt, assignment_ok, assignment_args. simpl. rewrite Hp, Hpa. cbn [app forallb andb]. rewrite arg_declared_head. reflexivity.
Qed.

Lemma map_to_index_derived_wt ss root o a first os :
  derived_shape o a first -> as_constraints first = [] -> opt_wt ss root o = true -> map_to_index_action o = Ok os ->
  forallb (opt_wt ss root) os = true.
Proof.
  intros Hs Hnc Hw H. pose proof (derived_first_ok _ _ _ _ _ Hs Hw) as Hp. shape_intro Hs.
  unfold map_to_index_action in H. rewrite Ha, Has in H.
  destruct (a_type a) as [ | | |ma mi mv| | | | | | | ] eqn:Et; try (inversion H; subst; simpl; rewrite Hw; reflexivity).
  inversion H; subst; clear H. destruct first as [p [arg c env] m cs ncs]. unfold as_arg, as_env, as_const in *. simpl in *. subst arg env cs.
  unfold opt_wt, assignment_ok, assignment_args, path_append. simpl.
  assert (Hpne : p <> []) by (intros ->; discriminate).
  rewrite path_ok_nonempty by (intros E; apply app_eq_nil in E; apply Hpne; apply E).
  rewrite path_ok_nonempty in Hp by exact Hpne.
  rewrite (path_ok_go_snoc ss _ p root it Hp Hlast).
  - rewrite path_args_app, Hpa. simpl. unfold arg_declared. simpl. unfold ty_eqb_nn. rewrite !seqb_refl', !ty_eqb_refl. simpl.
    rewrite orb_true_r. reflexivity.
  - unfold next_type. rewrite Hhint, Hty. cbn [path_ok_go index_item pi_root pi_typehint pi_index pi_type negb andb].
    rewrite resolve_total_nonref by reflexivity. rewrite ty_eqb_nd_refl. reflexivity.
Qed.

Lemma unfold_boolean_derived_wt ss root o a first tn fn os :
  derived_shape o a first -> opt_wt ss root o = true -> unfold_boolean_action tn fn o = Ok os ->
  forallb (opt_wt ss root) os = true.
Proof.
  intros Hs Hw H. pose proof (derived_first_ok _ _ _ _ _ Hs Hw) as Hp. shape_intro Hs.
  destruct (unfold_boolean_spec _ _ _ _ H) as [->|(f0 & r0 & d1 & d2 & E & ->)]; [simpl; rewrite Hw; reflexivity|].
  rewrite Has in E. inversion E; subst. unfold opt_wt, assignment_ok, assignment_args, constant_asg. simpl. rewrite Hp, Hpa. reflexivity.
Qed.

(* rename_arguments: only when the assignment carries no constraint (the constraints keep the old name) *)
Lemma rename_arguments_derived_wt ss root o a first names :
  derived_shape o a first -> as_constraints first = [] -> opt_wt ss root o = true ->
  forallb (opt_wt ss root) (rename_arguments_action names o) = true.
Proof.
  intros Hs Hnc Hw. pose proof (derived_first_ok _ _ _ _ _ Hs Hw) as Hp. shape_intro Hs.
  unfold rename_arguments_action. rewrite Ha, Has. destruct names as [|n [|n2 nr]]; try (simpl; rewrite Hw; reflexivity).
  simpl. destruct first as [p [arg c env] m cs ncs]. unfold as_arg, as_env, as_const in *. simpl in *. subst arg env cs.
  unfold rename_value_arg, as_arg. simpl. rewrite seqb_refl'. unfold opt_wt, assignment_ok, assignment_args. simpl.
  rewrite Hp, Hpa. cbn [app forallb andb]. rewrite arg_declared_head. reflexivity.
Qed.

(* disjunction_as_options on an argument that is a disjunction *)
Lemma disjunction_as_options_derived_wt ss root o a first da d os :
  derived_shape o a first -> a_type a = TDisj da d -> opt_wt ss root o = true -> disjunction_as_options_action ss 0 o = Ok os ->
  forallb (opt_wt ss root) os = true.
Proof.
  intros Hs Hd Hw H. pose proof (derived_first_ok _ _ _ _ _ Hs Hw) as Hp. shape_intro Hs.
  unfold disjunction_as_options_action in H. rewrite Ha in H. simpl in H. rewrite Hd in H. inversion H; subst; clear H.
  apply forallb_forall. intros o' Ho'. apply in_map_iff in Ho'. destruct Ho' as (br & <- & _).
  unfold disjunction_branch_option, option_deep_copy. rewrite Ha, Has. simpl. rewrite Harg. rewrite seqb_refl'.
  unfold opt_wt, assignment_ok, assignment_args. simpl. rewrite Hp, Hpa. cbn [app forallb andb]. rewrite arg_declared_head. reflexivity.
Qed.

(* the options FromAST derives have that shape *)
Lemma derived_shape_of_from_ast f o : struct_field_to_option f = Ok o ->
  exists a first, derived_shape o a first /\ a = mkArg (f_name f) (f_type f) /\ as_path first = path_from_struct_field f.
Proof.
  unfold struct_field_to_option, field_assignment.
  destruct (mapM _ (scalar_constraints (f_type f))) as [cs| | |] eqn:E; simpl; try discriminate.
  intros H. inversion H; subst; clear H.
  exists (mkArg (f_name f) (f_type f)),
         (mkAssignment [mkPathItem (f_name f) None (f_type f) None false] (AValue (Some (mkArg (f_name f) (f_type f))) DNil None) "direct" cs []).
  split; [|split; reflexivity].
  unfold derived_shape. simpl. repeat split.
  - intros c Hc. apply mapM_ok_forall2 in E. destruct (forall2_in_r _ _ _ _ E Hc) as (tc & _ & Ec).
    destruct (c_args tc); [discriminate|]. inversion Ec. reflexivity.
  - eexists. repeat split.
Qed.

(* ---------------------------------------------------------------- the unrestricted WT statement fails: witnesses
   (the same rule files are fixed cases of the correspondence: they replay on cog on every run) *)
Definition w_str : ty := TScalar A0 KString DNil [].
Definition w_meta : smeta := {| m_kind := "" ; m_variant := "" ; m_identifier := "" |}.
(* alpha.Foo { tags []string ; name string(minLength 1) ; labels map[string]bool }   alpha.Bar { foo Foo ; id string } *)
Definition w_schemas : schemas :=
  [mkSchema "alpha" w_meta "" ty_zero
     [("Foo", mkObject "Foo" [] (TStruct A0 [] [mkField "tags" [] (TArray A0 w_str) true;
                                                 mkField "name" [] (TScalar A0 KString DNil [{| c_op := "minLength" ; c_args := [DInt "int64" 1] |}]) true;
                                                 mkField "labels" [] (TMap A0 w_str (TScalar A0 KBool DNil [])) false])
                       "alpha" "Foo");
      ("Bar", mkObject "Bar" [] (TStruct A0 [] [mkField "foo" [] (TRef A0 "alpha" "Foo") true; mkField "id" [] w_str true]) "alpha" "Bar")]].
Definition w_osel (by_builder : string) : yosel := mkYOSel None (Some by_builder) None.
(* rename the argument of Foo.name, an option whose assignment carries a constraint *)
Definition w_files_constraint : list vfile :=
  [mkVFile "all" "alpha" [] [[YORenameArguments (w_osel "Foo.name") ["title"]]]].
(* merge Foo into Bar under `id`, a string *)
Definition w_files_target : list vfile :=
  [mkVFile "all" "alpha" [[YBMergeInto "Bar" "Foo" "id" [] []]] []].
(* index Foo.labels by key, then unfold the boolean: the options assign labels[key] without declaring key *)
Definition w_files_shape : list vfile :=
  [mkVFile "all" "alpha" [] [[YOMapToIndex (w_osel "Foo.labels")]; [YOUnfoldBoolean (w_osel "Foo.labels") "on" "off"]]].
(* the same merge under `foo`, which IS a Foo, followed by array_to_append on the merged copy: fine since a8e18fa *)
Definition w_files_merge_ok : list vfile :=
  [mkVFile "all" "alpha" [[YBMergeInto "Bar" "Foo" "foo" [] []]] [[YOArrayToAppend (w_osel "Bar.tags")]]].

Definition w_before : list builder := match from_ast w_schemas with Ok bs => bs | _ => [] end.

Definition wt_witness (files : list vfile) : bool :=
  consistent w_schemas w_before && WTs w_schemas w_before && files_wf files &&
  match apply_to w_schemas files "go" w_before with Ok bs' => negb (WTs w_schemas bs') | _ => false end.

Lemma wt_witness_constraint : wt_witness w_files_constraint = true.
Proof. vm_compute. reflexivity. Qed.
Lemma wt_witness_target : wt_witness w_files_target = true.
Proof. vm_compute. reflexivity. Qed.
Lemma wt_witness_shape : wt_witness w_files_shape = true.
Proof. vm_compute. reflexivity. Qed.
(* no longer a witness: the source builder Foo is untouched and everything is well-typed *)
Lemma merge_then_append_is_fine :
  match apply_to w_schemas w_files_merge_ok "go" w_before with
  | Ok bs' => WTs w_schemas bs' && existsb (fun b' => existsb (builder_eqb b') w_before && seqb (b_name b') "Foo") bs'
  | _ => false
  end = true.
Proof. vm_compute. reflexivity. Qed.

Theorem rules_preserve_WT_refuted_proof :
  ~ (forall ss files lang bs bs',
       consistent ss bs = true -> WTs ss bs = true -> files_wf files = true ->
       apply_to ss files lang bs = Ok bs' -> WTs ss bs' = true).
Proof.
  intros H. pose proof wt_witness_constraint as Hw. unfold wt_witness in Hw.
  destruct (apply_to w_schemas w_files_constraint "go" w_before) as [bs'| | |] eqn:E;
    repeat (apply andb_true_iff in Hw; destruct Hw as [Hw ?]); try discriminate.
  specialize (H w_schemas w_files_constraint "go" w_before bs').
  rewrite H in *; try assumption; discriminate.
Qed.

(* ================================================================ every rule, under the condition it does not check *)
Lemma arg_declared_app_l l l' a : arg_declared l a = true -> arg_declared (l ++ l') a = true.
Proof. unfold arg_declared. rewrite existsb_app. intros ->. reflexivity. Qed.
Lemma arg_declared_app_r l l' a : arg_declared l' a = true -> arg_declared (l ++ l') a = true.
Proof. unfold arg_declared. rewrite existsb_app. intros ->. apply orb_true_r. Qed.

Lemma assignment_ok_app_l ss root l l' a : assignment_ok ss root l a = true -> assignment_ok ss root (l ++ l') a = true.
Proof.
  unfold assignment_ok. intros H. apply andb_true_iff in H. destruct H as [H1 H2]. rewrite H1. simpl.
  rewrite forallb_forall in *. intros x Hx. apply arg_declared_app_l. apply H2. exact Hx.
Qed.
Lemma assignment_ok_app_r ss root l l' a : assignment_ok ss root l' a = true -> assignment_ok ss root (l ++ l') a = true.
Proof.
  unfold assignment_ok. intros H. apply andb_true_iff in H. destruct H as [H1 H2]. rewrite H1. simpl.
  rewrite forallb_forall in *. intros x Hx. apply arg_declared_app_r. apply H2. exact Hx.
Qed.

Lemma set_nullable_idem t b : set_nullable (set_nullable t b) b = set_nullable t b.
Proof. destruct t; reflexivity. Qed.

(* the constructor copy of an argument (never nullable) declares what the argument declares *)
Lemma arg_declared_nonnull a x : arg_declared [mkArg (a_name a) (set_nullable (a_type a) false)] x = arg_declared [a] x.
Proof. unfold arg_declared, ty_eqb_nn. simpl. rewrite set_nullable_idem. reflexivity. Qed.

(* promote_options_to_constructor *)
Lemma promote_options_wt ss root b : forallb (opt_ok ss root) (b_options b) = true -> forall names c c',
  promote_checked b names = true -> promote_options b names c = Ok c' ->
  forallb (assignment_ok ss root (ct_args c)) (ct_assignments c) = true ->
  forallb (assignment_ok ss root (ct_args c')) (ct_assignments c') = true.
Proof.
  intros Hopts. induction names as [|n rest IH]; intros c c' Hchk H Hc; simpl in H.
  - inversion H; subst. exact Hc.
  - simpl in Hchk. apply andb_true_iff in Hchk. destruct Hchk as [Hn Hrest].
    destruct (option_by_name b n) as [o|] eqn:Eo; [|apply (IH _ _ Hrest H Hc)].
    destruct (op_args o) as [|a ar] eqn:Ea; [discriminate|]. destruct (op_assignments o) as [|asg asr] eqn:Eas; [discriminate|].
    apply (IH _ _ Hrest H). simpl. rewrite forallb_app. apply andb_true_iff. split.
    + apply forallb_forall. intros x Hx. apply assignment_ok_app_l. rewrite forallb_forall in Hc. apply Hc. exact Hx.
    + simpl. rewrite andb_true_r. apply assignment_ok_app_r.
      assert (Hoin : In o (b_options b)) by (unfold option_by_name in Eo; apply find_some in Eo; apply Eo).
      rewrite forallb_forall in Hopts. specialize (Hopts o Hoin). unfold opt_ok in Hopts. rewrite Eas in Hopts. simpl in Hopts.
      apply andb_true_iff in Hopts. destruct Hopts as [Hasg _]. unfold assignment_ok in *. apply andb_true_iff in Hasg. destruct Hasg as [Hp _].
      rewrite Hp. simpl. rewrite (forallb_ext' _ (arg_declared [a])); [exact Hn|]. intros x. apply arg_declared_nonnull.
Qed.

Lemma promote_rule_wt ss s names bs bs' :
  (forall b, In b bs -> sel_builder ss s b = true -> promote_checked b names = true) ->
  consistent_with ss bs -> Forall (bWT ss) bs ->
  apply_builder_rule ss (BRPromote s names) bs = Ok bs' -> consistent_with ss bs' /\ Forall (bWT ss) bs'.
Proof.
  intros Hchk Hc Hw H. cbn [apply_builder_rule] in H. unfold promote_rule in H.
  set (Q := fun b => bWT ss b /\ locate_object ss (o_selfpkg (b_for b)) (o_selfname (b_for b)) = Some (b_for b)).
  assert (Hboth : Forall Q bs).
  { apply Forall_forall. intros b Hb. rewrite Forall_forall in Hw. split; [apply Hw; exact Hb|apply Hc; exact Hb]. }
  cut (Forall Q bs').
  { intros Hf. rewrite Forall_forall in Hf. split; [intros b Hb; apply Hf; exact Hb|apply Forall_forall; intros b Hb; apply Hf; exact Hb]. }
  apply mapM_ok_forall2 in H. apply Forall_forall. intros b' Hb'. destruct (forall2_in_r _ _ _ _ H Hb') as (b & Hb & E).
  rewrite Forall_forall in Hboth. destruct (Hboth b Hb) as [H1 H2].
  destruct (sel_builder ss s b) eqn:Es; [|inversion E; subst; split; assumption].
  destruct (b_factories b); [|discriminate]. destruct (promote_options b names (b_ctor b)) as [c'| | |] eqn:Ep; simpl in E; try discriminate.
  inversion E; subst. split; [|exact H2]. unfold bWT in *. rewrite WT_unfold in *. simpl.
  apply andb_true_iff in H1. destruct H1 as [Hc1 Ho1]. rewrite Ho1, andb_true_r.
  apply (promote_options_wt ss _ b Ho1 names (b_ctor b) c' (Hchk b Hb Es) Ep Hc1).
Qed.

(* struct_fields_as_options / struct_fields_as_arguments *)
Lemma with_type_constraints_args arg cs l : with_type_constraints arg cs = Ok l -> forall c, In c l -> ac_arg c = arg.
Proof.
  unfold with_type_constraints. intros H c Hc. apply mapM_ok_forall2 in H. destruct (forall2_in_r _ _ _ _ H Hc) as (tc & _ & E).
  destruct (c_args tc); [discriminate|]. inversion E. reflexivity.
Qed.

Lemma set_default_nd t d : ty_eqb_nd t (set_default t d) = true.
Proof. unfold ty_eqb_nd. assert (E : set_default (set_default t d) DNil = set_default t DNil) by (destruct t; reflexivity). rewrite E. apply ty_eqb_refl. Qed.

Lemma field_item_ok ss cur sa dh fs f ft :
  resolve_total ss cur = TStruct sa dh fs -> field_by_name fs (f_name f) = Some f -> ty_eqb_nd (f_type f) ft = true ->
  path_ok_go ss cur [mkPathItem (f_name f) None ft None false] = true.
Proof. intros Hr Hf Ht. cbn [path_ok_go pi_root pi_typehint pi_index pi_type pi_id negb andb]. rewrite Hr, Hf, Ht. reflexivity. Qed.

Lemma path_below_ok ss root prefix it x :
  path_ok ss root prefix = true -> last_item prefix = Some it -> path_ok_go ss (next_type it) [x] = true ->
  path_ok ss root (prefix ++ [x]) = true.
Proof.
  intros Hp Hl Hx. assert (Hne : prefix <> []) by (intros ->; discriminate).
  rewrite path_ok_nonempty by (intros E; apply app_eq_nil in E; apply Hne; apply E).
  rewrite path_ok_nonempty in Hp by exact Hne. apply (path_ok_go_snoc ss x prefix root it Hp Hl Hx).
Qed.

Lemma first_assignment_ok ss root o first others : opt_ok ss root o = true -> op_assignments o = first :: others ->
  path_ok ss root (as_path first) = true /\ forallb (assignment_ok ss root (op_args o)) others = true.
Proof.
  unfold opt_ok. intros H E. rewrite E in H. simpl in H. apply andb_true_iff in H. destruct H as [H1 H2]. split; [|exact H2].
  unfold assignment_ok in H1. apply andb_true_iff in H1. destruct H1 as [H1 _]. apply andb_true_iff in H1. apply H1.
Qed.

Lemma sfa_options_wt ss root explicit o os :
  sfa_checked ss o -> opt_ok ss root o = true -> struct_fields_as_options_action ss explicit o = Ok os ->
  forallb (opt_ok ss root) os = true.
Proof.
  intros Hchk Hw H. unfold struct_fields_as_options_action in H.
  destruct (op_args o) as [|a0 rest] eqn:Ea; [inversion H; simpl; rewrite Hw; reflexivity|].
  destruct (first_arg_struct ss (a_type a0)) as [ | | | |sa dh fs| | | | | | ] eqn:Ef; try (inversion H; simpl; rewrite Hw; reflexivity).
  destruct (op_assignments o) as [|first others] eqn:Eas; [discriminate|].
  destruct (first_assignment_ok _ _ _ _ _ Hw Eas) as [Hp _].
  destruct (last_item (as_path first)) as [it|] eqn:El.
  2:{ exfalso. unfold path_ok in Hp. destruct (as_path first) as [|x r]; [discriminate|]. clear - El. unfold last_item in El. revert x El.
      induction r as [|y r IH]; intros x E; [discriminate|apply (IH y E)]. }
  destruct (Hchk _ _ _ _ _ _ _ _ Ea Ef Eas El) as (Hres & _ & Hpa & Huniq & _).
  apply mapM_ok_forall2 in H. apply forallb_forall. intros o' Ho'. destruct (forall2_in_r _ _ _ _ H Ho') as (f & Hf & E).
  apply filter_In in Hf. destruct Hf as [Hf _]. unfold field_option in E.
  destruct (with_type_constraints _ _) as [cs| | |] eqn:Ec; simpl in E; try discriminate. inversion E; subst.
  unfold opt_ok, assignment_ok, assignment_args, path_append, path_from_struct_field. simpl.
  rewrite (path_below_ok ss root (as_path first) it _ Hp El (field_item_ok ss _ sa dh fs f (f_type f) Hres (Huniq f Hf) (ty_eqb_nd_refl _))).
  rewrite path_args_app, Hpa. cbn [path_args flat_map pi_index app forallb andb]. rewrite arg_declared_head. cbn [andb].
  rewrite andb_true_r. apply forallb_forall. intros x Hx. apply in_map_iff in Hx. destruct Hx as (c & <- & Hc).
  rewrite (with_type_constraints_args _ _ _ Ec c Hc). apply arg_declared_head.
Qed.

Lemma foldM_invariant_in {A B} (f : A -> B -> res A) (P : A -> Prop) l : forall a a',
  (forall a x a', In x l -> P a -> f a x = Ok a' -> P a') -> foldM f l a = Ok a' -> P a -> P a'.
Proof.
  induction l as [|x r IH]; intros a a' Hstep H Hp; simpl in H.
  - inversion H; subst. exact Hp.
  - destruct (f a x) as [a1| | |] eqn:E; simpl in H; try discriminate.
    apply (IH a1 a'); [intros b y b' Hy; apply Hstep; right; exact Hy|exact H|apply (Hstep _ _ _ (or_introl eq_refl) Hp E)].
Qed.

Lemma sfa_arguments_wt ss root explicit o os :
  sfa_checked ss o -> opt_ok ss root o = true -> struct_fields_as_arguments_action ss explicit o = Ok os ->
  forallb (opt_ok ss root) os = true.
Proof.
  intros Hchk Hw H. unfold struct_fields_as_arguments_action in H.
  destruct (op_args o) as [|a0 rest] eqn:Ea; [inversion H; simpl; rewrite Hw; reflexivity|].
  destruct (first_arg_struct ss (a_type a0)) as [ | | | |sa dh fs| | | | | | ] eqn:Ef; try (inversion H; simpl; rewrite Hw; reflexivity).
  destruct (op_assignments o) as [|first others] eqn:Eas; [discriminate|].
  destruct (first_assignment_ok _ _ _ _ _ Hw Eas) as [Hp Hothers].
  destruct (last_item (as_path first)) as [it|] eqn:El; [|discriminate].
  destruct (Hchk _ _ _ _ _ _ _ _ Ea Ef Eas El) as (Hres & Hnarr & Hpa & Huniq & Hrest).
  rewrite Hnarr in H.
  destruct (foldM _ _ _) as [acc| | |] eqn:Efold; simpl in H; try discriminate. inversion H; subst; clear H.
  (* invariant of the fold: every assignment built so far is fine with the arguments built so far *)
  assert (Hinv : forallb (assignment_ok ss root (sa_args acc)) (sa_asgs acc) = true).
  { eapply (foldM_invariant_in _ (fun acc => forallb (assignment_ok ss root (sa_args acc)) (sa_asgs acc) = true)); [|exact Efold|reflexivity].
    intros a f a' Hfin Hpre E. apply filter_In in Hfin. destruct Hfin as [Hfin _]. unfold sfa_field in E.
    set (ft := match alist_find (dmap_entries (op_default o)) (f_name f) with Some d => set_default (f_type f) d | None => f_type f end) in *.
    assert (Hft : ty_eqb_nd (f_type f) ft = true) by (unfold ft; destruct (alist_find _ _); [apply set_default_nd|apply ty_eqb_nd_refl]).
    assert (Hpath : path_ok ss root (path_append (as_path first) [mkPathItem (f_name f) None ft None false]) = true)
      by (apply (path_below_ok ss root (as_path first) it _ Hp El (field_item_ok ss _ sa dh fs f ft Hres (Huniq f Hfin) Hft))).
    destruct (is_concrete_scalar ft).
    - inversion E; subst. simpl. rewrite forallb_app, Hpre. simpl. rewrite andb_true_r.
      unfold assignment_ok, assignment_args, constant_asg. simpl. rewrite Hpath. unfold path_append. rewrite path_args_app, Hpa. reflexivity.
    - destruct (with_type_constraints _ _) as [cs| | |] eqn:Ec; simpl in E; try discriminate. inversion E; subst. simpl.
      rewrite forallb_app. apply andb_true_iff. split.
      + apply forallb_forall. intros x Hx. apply assignment_ok_app_l. rewrite forallb_forall in Hpre. apply Hpre. exact Hx.
      + simpl. rewrite andb_true_r. apply assignment_ok_app_r.
        unfold assignment_ok, assignment_args. simpl. rewrite Hpath. unfold path_append. rewrite path_args_app, Hpa.
        cbn [path_args flat_map pi_index app forallb andb]. rewrite arg_declared_head. cbn [andb].
        apply forallb_forall. intros x Hx. apply in_map_iff in Hx. destruct Hx as (c & <- & Hc).
        rewrite (with_type_constraints_args _ _ _ Ec c Hc). apply arg_declared_head. }
  simpl. rewrite andb_true_r. unfold opt_ok. simpl. destruct rest as [|r1 rr].
  - exact Hinv.
  - rewrite forallb_app. apply andb_true_iff. split.
    + apply forallb_forall. intros x Hx. apply assignment_ok_app_l. rewrite forallb_forall in Hinv. apply Hinv. exact Hx.
    + apply forallb_forall. intros x Hx. apply assignment_ok_app_r.
      rewrite forallb_forall in Hothers. specialize (Hothers x Hx). unfold assignment_ok in *.
      apply andb_true_iff in Hothers. destruct Hothers as [H1 _]. rewrite H1. simpl. apply (Hrest ltac:(discriminate) x Hx).
Qed.

(* every option action, on an option where its condition holds *)
Lemma action_cond_wt ss act b o os :
  action_cond ss act b o -> consistent_with ss [b] -> opt_ok ss (o_type (b_for b)) o = true ->
  run_action ss act b o = Ok os -> forallb (opt_ok ss (o_type (b_for b))) os = true.
Proof.
  intros Hc Hcons Ho H.
  assert (Hnoop : run_action ss act b o = Ok [o] -> forallb (opt_ok ss (o_type (b_for b))) os = true).
  { intros E. rewrite E in H. inversion H; subst. simpl. rewrite Ho. reflexivity. }
  destruct act; simpl in Hc;
    try (match type of H with run_action _ ?a _ _ = _ => apply (wt_safe_action_result ss a b o os) end; [reflexivity|exact Hcons|exact Ho|exact H]).
  - (* rename_arguments *) destruct Hc as [E|(a & first & Hs & Hnc)]; [apply Hnoop; exact E|].
    simpl in H. inversion H; subst. apply (rename_arguments_derived_wt ss _ o a first names Hs Hnc Ho).
  - (* unfold_boolean *) destruct Hc as [E|(a & first & Hs)]; [apply Hnoop; exact E|].
    simpl in H. apply (unfold_boolean_derived_wt ss _ o a first _ _ os Hs Ho H).
  - (* struct_fields_as_arguments *) destruct Hc as [E|Hs]; [apply Hnoop; exact E|]. simpl in H. apply (sfa_arguments_wt ss _ _ o os Hs Ho H).
  - (* struct_fields_as_options *) destruct Hc as [E|Hs]; [apply Hnoop; exact E|]. simpl in H. apply (sfa_options_wt ss _ _ o os Hs Ho H).
  - (* array_to_append *) destruct Hc as [E|(a & first & Hs & Hnc)]; [apply Hnoop; exact E|].
    simpl in H. apply (array_to_append_derived_wt ss _ o a first os Hs Hnc Ho H).
  - (* map_to_index *) destruct Hc as [E|(a & first & Hs & Hnc)]; [apply Hnoop; exact E|].
    simpl in H. apply (map_to_index_derived_wt ss _ o a first os Hs Hnc Ho H).
  - (* disjunction_as_options *) destruct Hc as [E|(-> & a & first & da & d & Hs & Hd)]; [apply Hnoop; exact E|].
    simpl in H. apply (disjunction_as_options_derived_wt ss _ o a first da d os Hs Hd Ho H).
  - (* add_assignment *) apply (wt_safe_action_result ss (AAddAssignment a) b o os); [simpl; rewrite Hc; reflexivity|exact Hcons|exact Ho|exact H].
Qed.

Lemma orule_cond_wt ss r bs bs' :
  orule_cond ss r bs -> apply_option_rule ss r bs = Ok bs' ->
  consistent_with ss bs -> Forall (bWT ss) bs -> consistent_with ss bs' /\ Forall (bWT ss) bs'.
Proof.
  intros Hcond H Hc Hw. split.
  - pose proof (apply_option_rule_headers _ _ _ _ H) as Hh. intros b' Hb'.
    destruct (forall2_in_r _ _ _ _ Hh Hb') as (b & Hb & (Hf & _)). rewrite <- Hf. apply Hc. exact Hb.
  - unfold apply_option_rule in H. apply mapM_ok_forall2 in H. apply Forall_forall. intros b' Hb'.
    destruct (forall2_in_r _ _ _ _ H Hb') as (b & Hb & E).
    destruct (process_options ss r b) as [os'| | |] eqn:Ep; simpl in E; try discriminate. inversion E; subst.
    rewrite Forall_forall in Hw. pose proof (Hw b Hb) as Hbw. apply bWT_options; [exact Hbw|].
    unfold process_options in Ep. destruct (mapM _ _) as [outs| | |] eqn:Em; simpl in Ep; try discriminate. inversion Ep; subst.
    apply mapM_ok_forall2 in Em. apply forallb_forall. intros o' Ho'. apply in_concat in Ho'. destruct Ho' as (out & Hout & Hin).
    destruct (forall2_in_r _ _ _ _ Em Hout) as (o & Hoin & Eo). unfold option_step in Eo.
    assert (Hok : opt_ok ss (o_type (b_for b)) o = true) by (pose proof (bWT_options_ok _ _ Hbw) as Hall; rewrite forallb_forall in Hall; apply Hall; exact Hoin).
    destruct (sel_option (or_sel r) b o) eqn:Es.
    + assert (Hcb : consistent_with ss [b]) by (intros x [<-|[]]; apply Hc; exact Hb).
      pose proof (action_cond_wt ss _ b o out (Hcond b o Hb Hoin Es) Hcb Hok Eo) as Hos. rewrite forallb_forall in Hos. apply Hos. exact Hin.
    + inversion Eo; subst. destruct Hin as [<-|[]]. exact Hok.
Qed.

(* ---------------------------------------------------------------- compose *)
Lemma merge_builder_into_wt ss from into under excl ren it :
  bWT ss into -> bWT ss from ->
  path_ok ss (o_type (b_for into)) under = true -> path_args under = [] -> last_item under = Some it ->
  resolve_total ss (next_type it) = resolve_total ss (o_type (b_for from)) ->
  (forall a, In a (ct_assignments (b_ctor from)) -> dyn_is_nil (as_const a) = false -> assignment_args a = []) ->
  bWT ss (merge_builder_into from into under excl ren).
Proof.
  intros Hd Hsw Hok Hargs Elast Hnext Hconst.
  unfold bWT in *. rewrite WT_unfold in *. unfold merge_builder_into. simpl.
  apply andb_true_iff in Hd. destruct Hd as [Hd1 Hd2]. apply andb_true_iff in Hsw. destruct Hsw as [Hs1 Hs2].
  rewrite !forallb_app, Hd1, Hd2. simpl. apply andb_true_iff. split.
  - rewrite forallb_map'. apply forallb_forall. intros a Ha. apply filter_In in Ha. destruct Ha as [Ha Hnil].
    assert (Hnoarg : assignment_args a = []).
    { apply Hconst; [exact Ha|]. destruct (dyn_is_nil (as_const a)); [discriminate|reflexivity]. }
    rewrite forallb_forall in Hs1. specialize (Hs1 a Ha).
    pose proof (prefix_assignment_ok ss (o_type (b_for into)) (o_type (b_for from)) under (ct_args (b_ctor from)) a it Hok Hargs Elast Hnext Hs1) as Hpa.
    unfold assignment_ok in *. apply andb_true_iff in Hpa. destruct Hpa as [Hpa _]. rewrite Hpa. simpl.
    unfold assignment_args in *. unfold prefix_path, set_as_path, path_append. simpl. rewrite path_args_app, Hargs. simpl.
    rewrite Hnoarg. reflexivity.
  - rewrite (flat_map_if_filter (fun o => item_in_list (op_name o) excl) (merged_option under ren)).
    rewrite forallb_map'. apply forallb_forall. intros o Ho. apply filter_In in Ho. destruct Ho as [Ho _].
    rewrite forallb_forall in Hs2. specialize (Hs2 o Ho). unfold opt_ok in *. unfold merged_option. simpl.
    rewrite forallb_map'. apply forallb_forall. intros a Ha. rewrite forallb_forall in Hs2.
    apply (prefix_assignment_ok ss _ (o_type (b_for from)) under _ a it Hok Hargs Elast Hnext (Hs2 a Ha)).
Qed.

Definition with_hint (it : pathitem) (h : ty) : pathitem := mkPathItem (pi_id it) (pi_index it) (pi_type it) (Some h) (pi_root it).

Lemma last_item_snoc q x : last_item (q ++ [x]) = Some x.
Proof. unfold last_item. rewrite map_app. simpl. apply last_last. Qed.

Lemma last_item_split p it : last_item p = Some it -> exists q, p = q ++ [it].
Proof.
  intros H. destruct (exists_last (l := p)) as (q & x & E); [intros ->; discriminate|]. subst p.
  rewrite last_item_snoc in H. inversion H; subst. exists q. reflexivity.
Qed.

Lemma set_last_typehint_snoc q it h : set_last_typehint (q ++ [it]) h = q ++ [with_hint it h].
Proof. unfold set_last_typehint. rewrite rev_app_distr. simpl. rewrite rev_involutive. reflexivity. Qed.

Lemma hinted_item_ok ss cur it h : path_ok_go ss cur [it] = true -> is_any (pi_type it) = true -> path_ok_go ss cur [with_hint it h] = true.
Proof.
  cbn [path_ok_go with_hint pi_root pi_typehint pi_index pi_type pi_id]. intros H Ha. rewrite Ha.
  destruct (negb (pi_root it)); [|discriminate]. cbn [andb] in *.
  destruct (match pi_typehint it with None => true | Some _ => is_any (pi_type it) end); [|discriminate]. cbn [andb] in *.
  destruct (pi_index it); destruct (resolve_total ss cur); try discriminate; try (rewrite andb_true_r in *; exact H).
  destruct (field_by_name fs (pi_id it)); [|discriminate]. rewrite andb_true_r in *. exact H.
Qed.

Lemma hinted_path ss root p it h :
  path_ok ss root p = true -> path_args p = [] -> last_item p = Some it -> is_any (pi_type it) = true ->
  path_ok ss root (set_last_typehint p h) = true /\ path_args (set_last_typehint p h) = [] /\
  last_item (set_last_typehint p h) = Some (with_hint it h).
Proof.
  intros Hp Hpa Hl Ha. destruct (last_item_split _ _ Hl) as (q & ->). rewrite set_last_typehint_snoc.
  split; [|split; [|apply last_item_snoc]].
  - rewrite path_ok_nonempty in * by (intros E; apply app_eq_nil in E; destruct E; discriminate).
    rewrite path_ok_go_app in *. apply andb_true_iff in Hp. destruct Hp as [H1 H2]. rewrite H1. cbn [andb].
    apply (hinted_item_ok ss _ it h H2 Ha).
  - rewrite path_args_app in *. apply app_eq_nil in Hpa. destruct Hpa as [-> H2]. simpl. unfold path_args in *. simpl in *. exact H2.
Qed.

Lemma compose_merge_wt ss all c : consistent_with ss all -> Forall (bWT ss) all ->
  (forall nb cb under root it, In cb all -> alist_find (yc_map c) (o_name (b_for cb)) = Some under -> make_path all nb under = Ok root -> last_item root = Some it ->
     is_any (pi_type it) = true /\ is_ref (o_type (b_for cb)) = false /\
     forall a, In a (ct_assignments (b_ctor cb)) -> dyn_is_nil (as_const a) = false -> assignment_args a = []) ->
  forall composables nb kept nb' kept',
    (forall cb, In cb composables -> In cb all) -> (forall k, In k kept -> In k all) ->
    bWT ss nb -> compose_merge all c nb composables kept = Ok (nb', kept') ->
    bWT ss nb' /\ b_for nb' = b_for nb /\ (forall k, In k kept' -> In k all).
Proof.
  intros Hc Hw Hchk. induction composables as [|cb rest IH]; intros nb kept nb' kept' Hin Hk Hnb H; simpl in H.
  - inversion H; subst. repeat split; assumption.
  - assert (Hcb : In cb all) by (apply Hin; left; reflexivity).
    assert (Hrest : forall x, In x rest -> In x all) by (intros x Hx; apply Hin; right; exact Hx).
    destruct (alist_find (yc_map c) (o_name (b_for cb))) as [under|] eqn:Em.
    2:{ apply (IH _ _ _ _ Hrest) in H; [exact H| |exact Hnb]. intros k Hk'. apply in_app_or in Hk'. destruct Hk' as [Hk'|[<-|[]]]; [apply Hk; exact Hk'|exact Hcb]. }
    destruct (make_path all nb under) as [root| | |] eqn:Ep; simpl in H; try discriminate.
    destruct (make_path_ok _ _ _ _ _ Hc Ep) as (Hok & Hargs & _ & Hne & _).
    destruct (last_item root) as [it|] eqn:El.
    2:{ exfalso. destruct root as [|x r]; [contradiction|]. clear - El. unfold last_item in El. revert x El.
        induction r as [|y r IHr]; intros x E; [discriminate|apply (IHr y E)]. }
    destruct (Hchk nb cb under root it Hcb Em Ep El) as (Hany & Hnref & Hconst).
    set (h := TRef A0 (o_selfpkg (b_for cb)) (o_selfname (b_for cb))) in *.
    destruct (hinted_path ss _ root it h Hok Hargs El Hany) as (Hok' & Hargs' & El').
    assert (Hcbw : bWT ss cb) by (rewrite Forall_forall in Hw; apply Hw; exact Hcb).
    assert (Hnext : resolve_total ss (next_type (with_hint it h)) = resolve_total ss (o_type (b_for cb))).
    { unfold next_type, with_hint, h. simpl. rewrite (resolve_total_ref ss A0 _ _ (b_for cb) (Hc cb Hcb) Hnref).
      rewrite resolve_total_nonref by exact Hnref. reflexivity. }
    pose proof (merge_builder_into_wt ss cb nb (set_last_typehint root h) [] [] _ Hnb Hcbw Hok' Hargs' El' Hnext Hconst) as Hm.
    apply (IH _ _ _ _ Hrest) in H; [|destruct (yc_preserve c); [intros k Hk'; apply in_app_or in Hk'; destruct Hk' as [Hk'|[<-|[]]]; [apply Hk; exact Hk'|exact Hcb]|exact Hk]|exact Hm].
    destruct H as (H1 & H2 & H3). repeat split; [exact H1|rewrite H2; reflexivity|exact H3].
Qed.

Lemma group_add_members k b g x l : In (x, l) (group_add k b g) -> forall y, In y l -> y = b \/ exists l0, In (x, l0) g /\ In y l0.
Proof.
  induction g as [|[k' l'] r IH]; simpl.
  - intros [E|[]] y Hy. inversion E; subst. destruct Hy as [<-|[]]. left. reflexivity.
  - destruct (String.compare k k').
    + intros [E|Hin] y Hy.
      * inversion E; subst. apply in_app_or in Hy. destruct Hy as [Hy|[<-|[]]]; [right; exists l'; split; [left; reflexivity|exact Hy]|left; reflexivity].
      * right. exists l. split; [right; exact Hin|exact Hy].
    + intros [E|[E|Hin]] y Hy.
      * inversion E; subst. destruct Hy as [<-|[]]. left. reflexivity.
      * inversion E; subst. right. exists l. split; [left; reflexivity|exact Hy].
      * right. exists l. split; [right; exact Hin|exact Hy].
    + intros [E|Hin] y Hy.
      * inversion E; subst. right. exists l. split; [left; reflexivity|exact Hy].
      * destruct (IH Hin y Hy) as [->|(l0 & Hl0 & Hy0)]; [left; reflexivity|right; exists l0; split; [right; exact Hl0|exact Hy0]].
Qed.

Lemma groups_members ss s : forall bs g0 x l,
  In (x, l) (fold_left (fun g b => if sel_builder ss s b then match locate ss (o_selfpkg (b_for b)) with None => g | Some sch => group_add (m_identifier (s_meta sch)) b g end else g) bs g0) ->
  forall y, In y l -> In y bs \/ exists l0, In (x, l0) g0 /\ In y l0.
Proof.
  induction bs as [|b r IH]; intros g0 x l H y Hy; simpl in H.
  - right. exists l. split; assumption.
  - destruct (IH _ _ _ H y Hy) as [Hin|(l0 & Hl0 & Hy0)]; [left; right; exact Hin|].
    destruct (sel_builder ss s b); [|right; exists l0; split; assumption].
    destruct (locate ss (o_selfpkg (b_for b))); [|right; exists l0; split; assumption].
    destruct (group_add_members _ _ _ _ _ Hl0 y Hy0) as [->|(l1 & Hl1 & Hy1)]; [left; left; reflexivity|right; exists l1; split; assumption].
Qed.

Lemma constant_field_ok ss sa dh fs n tf args v : field_by_name fs n = Some tf ->
  assignment_ok ss (TStruct sa dh fs) args (constant_asg (path_from_struct_field tf) v) = true.
Proof.
  intros Hf. unfold assignment_ok, constant_asg, assignment_args, path_from_struct_field, path_ok. cbn [as_path as_value as_constraints].
  rewrite (field_item_ok ss (TStruct sa dh fs) sa dh fs tf (f_type tf)); [reflexivity|apply resolve_total_nonref; reflexivity| |apply ty_eqb_nd_refl].
  rewrite (field_by_name_name _ _ _ Hf). exact Hf.
Qed.

Lemma compose_rule_wt ss s c bs bs' :
  compose_checked ss c bs -> consistent_with ss bs -> Forall (bWT ss) bs ->
  apply_builder_rule ss (BRCompose s c) bs = Ok bs' -> consistent_with ss bs' /\ Forall (bWT ss) bs'.
Proof.
  intros [Hep Hchk] Hc Hw H. cbn [apply_builder_rule] in H. unfold compose_rule in H.
  destruct (cut_dot (yc_source c)) as [[spkg sname]|]; [|discriminate].
  destruct (locate_by_object bs spkg sname) as [source|] eqn:Es; [|inversion H; subst; split; assumption].
  destruct (mapM _ _) as [composed| | |] eqn:Em; simpl in H; try discriminate. inversion H; subst; clear H.
  destruct (locate_by_object_some _ _ _ _ Es) as (Hsin & _ & _).
  set (Q := fun b => bWT ss b /\ locate_object ss (o_selfpkg (b_for b)) (o_selfname (b_for b)) = Some (b_for b)).
  assert (Hboth : forall b, In b bs -> Q b) by (intros b Hb; rewrite Forall_forall in Hw; split; [apply Hw; exact Hb|apply Hc; exact Hb]).
  cut (Forall Q (filter (fun b => negb (sel_builder ss s b)) bs ++ List.concat composed)).
  { intros Hf. rewrite Forall_forall in Hf. split; [intros b Hb; apply Hf; exact Hb|apply Forall_forall; intros b Hb; apply Hf; exact Hb]. }
  apply Forall_app. split; [apply Forall_forall; intros b Hb; apply filter_In in Hb; apply Hboth; apply Hb|].
  apply Forall_forall. intros b Hb. apply in_concat in Hb. destruct Hb as (grp & Hgrp & Hbin).
  apply mapM_ok_forall2 in Em. destruct (forall2_in_r _ _ _ _ Em Hgrp) as ([disc members] & Hg & E). simpl in E.
  assert (Hmem : forall y, In y members -> In y bs).
  { intros y Hy. destruct (groups_members ss s bs [] disc members Hg y Hy) as [Hin|(l0 & [] & _)]. exact Hin. }
  unfold compose_builder_for_type in E. destruct members as [|c0 mrest]; [discriminate|].
  destruct (o_type (b_for source)) as [ | | | |sa dh fs| | | | | | ] eqn:Et; try discriminate.
  destruct (field_by_name fs (yc_disc_field c)) as [tf|] eqn:Etf; [|discriminate].
  match type of E with (do mk <- compose_merge bs c ?NB0 _ _ ; _) = _ => set (nb0 := NB0) in * end.
  destruct (compose_merge bs c nb0 (c0 :: mrest) []) as [[nb1 kept]| | |] eqn:Ecm; simpl in E; try discriminate.
  destruct (Hboth source Hsin) as [Hsw Hsc].
  assert (Hnb0 : bWT ss nb0).
  { unfold bWT in *. rewrite WT_unfold in *. unfold nb0. simpl. apply andb_true_iff in Hsw. destruct Hsw as [H1 H2].
    rewrite forallb_app, H1. cbn [forallb andb]. rewrite (forallb_filter_sub _ _ _ H2), !andb_true_r.
    rewrite Et. apply (constant_field_ok ss sa dh fs (yc_disc_field c) tf _ _ Etf). }
  destruct (compose_merge_wt ss bs c Hc Hw Hchk (c0 :: mrest) nb0 [] nb1 kept Hmem (fun k (F : In k []) => match F with end) Hnb0 Ecm) as (Hnb1 & Hfor & Hkept).
  assert (Hq1 : Q nb1) by (split; [exact Hnb1|rewrite Hfor; exact Hsc]).
  assert (Hres : E = E) by reflexivity. clear Hres.
  assert (Hout : grp = kept ++ [nb1]).
  { destruct (alist_find (yc_map c) "__schema_entrypoint") as [ep|]; [subst ep; simpl in E|]; inversion E; reflexivity. }
  subst grp. apply in_app_or in Hbin. destruct Hbin as [Hb|[<-|[]]]; [apply Hboth; apply Hkept; exact Hb|exact Hq1].
Qed.

(* ---------------------------------------------------------------- all 22 rules, each applied where its condition holds *)
Lemma brule_cond_wt ss r bs bs' :
  brule_cond ss r bs -> apply_builder_rule ss r bs = Ok bs' ->
  consistent_with ss bs -> Forall (bWT ss) bs -> consistent_with ss bs' /\ Forall (bWT ss) bs'.
Proof.
  intros Hcond H Hc Hw. destruct r.
  - apply (wt_safe_brule_preserves ss (BROmit s) bs bs' eq_refl H Hc Hw).
  - apply (wt_safe_brule_preserves ss (BRRename s n) bs bs' eq_refl H Hc Hw).
  - apply (merge_into_rule_wt_proof ss _ _ _ _ _ bs bs' Hcond Hc Hw H).
  - apply (compose_rule_wt ss _ _ bs bs' Hcond Hc Hw H).
  - apply (wt_safe_brule_preserves ss (BRProperties s ps) bs bs' eq_refl H Hc Hw).
  - apply (wt_safe_brule_preserves ss (BRDuplicate s n excl) bs bs' eq_refl H Hc Hw).
  - apply (wt_safe_brule_preserves ss (BRInitialize s set) bs bs' eq_refl H Hc Hw).
  - apply (promote_rule_wt ss _ _ bs bs' Hcond Hc Hw H).
  - apply (wt_safe_brule_preserves ss (BRAddOption s o) bs bs' Hcond H Hc Hw).
  - apply (wt_safe_brule_preserves ss (BRAddFactory s f) bs bs' eq_refl H Hc Hw).
Qed.

Lemma builder_rules_checked_wt ss : forall rs bs bs',
  builder_rules_checked ss rs bs -> apply_builder_rules ss rs bs = Ok bs' ->
  consistent_with ss bs -> Forall (bWT ss) bs -> consistent_with ss bs' /\ Forall (bWT ss) bs'.
Proof.
  induction rs as [|r rest IH]; intros bs bs' Hchk H Hc Hw; simpl in H.
  - inversion H; subst. split; assumption.
  - destruct Hchk as [Hr Hrest]. destruct (apply_builder_rule ss r bs) as [bs1| | |] eqn:E; simpl in H; try discriminate.
    destruct (brule_cond_wt _ _ _ _ Hr E Hc Hw) as [Hc1 Hw1]. apply (IH _ _ (Hrest bs1 eq_refl) H Hc1 Hw1).
Qed.

Lemma option_rules_checked_wt ss : forall rs bs bs',
  option_rules_checked ss rs bs -> apply_option_rules_go ss rs bs = Ok bs' ->
  consistent_with ss bs -> Forall (bWT ss) bs -> consistent_with ss bs' /\ Forall (bWT ss) bs'.
Proof.
  induction rs as [|r rest IH]; intros bs bs' Hchk H Hc Hw; simpl in H.
  - inversion H; subst. split; assumption.
  - destruct Hchk as [Hr Hrest]. destruct (apply_option_rule ss r bs) as [bs1| | |] eqn:E; simpl in H; try discriminate.
    destruct (orule_cond_wt _ _ _ _ Hr E Hc Hw) as [Hc1 Hw1]. apply (IH _ _ (Hrest bs1 eq_refl) H Hc1 Hw1).
Qed.

Lemma language_checked_wt ss lrs l bs bs' :
  language_checked ss lrs l bs -> apply_language ss lrs l bs = Ok bs' ->
  consistent_with ss bs -> Forall (bWT ss) bs -> consistent_with ss bs' /\ Forall (bWT ss) bs'.
Proof.
  intros [Hb Ho] H Hc Hw. unfold apply_language, apply_option_rules in H.
  destruct (apply_builder_rules ss (builder_rules_for l lrs) bs) as [bs1| | |] eqn:E1; simpl in H; try discriminate.
  destruct (builder_rules_checked_wt _ _ _ _ Hb E1 Hc Hw) as [Hc1 Hw1].
  destruct (apply_option_rules_go ss _ bs1) as [bs2| | |] eqn:E2; simpl in H; try discriminate.
  destruct (option_rules_checked_wt _ _ _ _ (Ho bs1 eq_refl) E2 Hc1 Hw1) as (Hc2 & Hw2). inversion H; subst. split.
  - intros b Hb'. apply filter_In in Hb'. apply Hc2. apply Hb'.
  - rewrite Forall_forall in *. intros b Hb'. apply filter_In in Hb'. apply Hw2. apply Hb'.
Qed.

Theorem rules_preserve_WT_where_checked_proof ss files lang bs lrs bs' :
  rewriter_from files = Ok lrs -> run_checked ss lrs lang bs ->
  consistent_with ss bs -> WTs ss bs = true ->
  apply_to ss files lang bs = Ok bs' -> WTs ss bs' = true.
Proof.
  intros Hl [H1 H2] Hc Hw H. unfold apply_to in H. destruct (negb (aliases_acyclic ss)); [discriminate|]. rewrite Hl in H. simpl in H.
  unfold apply_to_rules in H. destruct (apply_language ss lrs all_languages bs) as [bs1| | |] eqn:E1; simpl in H; try discriminate.
  apply bWT_all in Hw. destruct (language_checked_wt _ _ _ _ _ H1 E1 Hc Hw) as (Hc1 & Hw1).
  destruct (language_checked_wt _ _ _ _ _ (H2 bs1 eq_refl) H Hc1 Hw1) as (_ & Hw2). apply bWT_all. exact Hw2.
Qed.

(* the safe group needs no condition: wt_safe_rules implies run_checked *)
Lemma wt_safe_brule_cond ss r bs : wt_safe_brule r = true -> brule_cond ss r bs.
Proof. destruct r; simpl; try discriminate; auto. Qed.
Lemma wt_safe_action_cond ss act b o : wt_safe_action act = true -> action_cond ss act b o.
Proof. destruct act; simpl; try discriminate; auto. destruct (vvalue_args (va_value a)); [reflexivity|discriminate]. Qed.

(* witnesses: each condition dropped *)
Definition w_files_promote : list vfile :=
  [mkVFile "all" "alpha" [] [[YOMapToIndex (w_osel "Foo.labels")]];
   mkVFile "go" "alpha" [[YBPromote (mkYBSel (Some "Foo") None None None) ["labels"]]] []].
Lemma wt_witness_promote : wt_witness w_files_promote = true.
Proof. vm_compute. reflexivity. Qed.

(* struct_fields_as_options / _as_arguments on an option that disjunction_as_options produced: the argument is a
   Bar, the path still ends in the disjunction *)
Definition w_schemas_sub : schemas :=
  [mkSchema "alpha" w_meta "" ty_zero
     [("Foo", mkObject "Foo" [] (TStruct A0 [] [mkField "sub" [] (TDisj A0 (mkDisj [TRef A0 "alpha" "Bar"; w_str] "" [])) false]) "alpha" "Foo");
      ("Bar", mkObject "Bar" [] (TStruct A0 [] [mkField "id" [] w_str true]) "alpha" "Bar")]].
Definition w_before_sub : list builder := match from_ast w_schemas_sub with Ok bs => bs | _ => [] end.
Definition w_files_sfa (as_options : bool) : list vfile :=
  [mkVFile "all" "alpha" []
     [[YODisjunctionAsOptions (mkYOSel (Some "Foo.sub") None None) 0];
      [if as_options then YOStructFieldsAsOptions (mkYOSel (Some "Foo.bar") None None) None
       else YOStructFieldsAsArguments (mkYOSel (Some "Foo.bar") None None) None]]].
(* compose into a field that is not an `any` *)
Definition w_schemas_compose : schemas :=
  [mkSchema "dash" w_meta "" ty_zero
     [("Panel", mkObject "Panel" [] (TStruct A0 [] [mkField "type" [] w_str true; mkField "title" [] w_str true]) "dash" "Panel")];
   mkSchema "ts" {| m_kind := "composable" ; m_variant := "panelcfg" ; m_identifier := "timeseries" |} "" ty_zero
     [("Options", mkObject "Options" [] (TStruct A0 [] [mkField "legend" [] (TScalar A0 KBool DNil []) true]) "ts" "Options")]].
Definition w_before_compose : list builder := match from_ast w_schemas_compose with Ok bs => bs | _ => [] end.
Definition w_files_compose : list vfile :=
  [mkVFile "all" "dash" [[YBCompose (mkYCompose (mkYBSel None None (Some "panelcfg") None) "dash.Panel" "type" [] [("Options", "title")] "" true)]] []].

Definition wt_witness_on (ss : schemas) (before : list builder) (files : list vfile) : bool :=
  consistent ss before && WTs ss before && files_wf files &&
  match apply_to ss files "go" before with Ok bs' => negb (WTs ss bs') | _ => false end.
Lemma wt_witness_sfa_options : wt_witness_on w_schemas_sub w_before_sub (w_files_sfa true) = true.
Proof. vm_compute. reflexivity. Qed.
Lemma wt_witness_sfa_arguments : wt_witness_on w_schemas_sub w_before_sub (w_files_sfa false) = true.
Proof. vm_compute. reflexivity. Qed.
Lemma wt_witness_compose : wt_witness_on w_schemas_compose w_before_compose w_files_compose = true.
Proof. vm_compute. reflexivity. Qed.
