(* C06 over the language-chain pass models, continued: the PHP chain (SanitizeEnumMemberNames,
   InlineObjectsWithTypes) and the last pass of the Java chain (RemoveIntersections).
   WHAT IS HERE
   - senm_pres[_below]; php_core_invariants, php_chain_core_nf (PHP chain without its last pass);
   - InlineObjectsWithTypes when it has nothing to inline: iowt_ref, iowt_ty_id, iowt_noop, tame_php, php_chain_nf
     (the case where it inlines is in ChainPhpInlineNF.v);
   - RemoveIntersections as two named loops (ri_loop1, ri_finish, ri_schema_eq, ri_go, remove_intersections_eq),
     the states of the whole pass (ri_states), ri_safe, the invariant of the first loop (ri_good: an original object,
     or an original alias rebuilt over the hints and fields of an original struct), remove_intersections_srel,
     remove_intersections_keeps_nf, tame_java_full, java_chain_nf;
   - non-vacuity and failing cases: java_chain_nf_nonvacuous, php_chain_nf_nonvacuous. *)
From Coq Require Import List String Bool Ascii Lia.
From Cog Require Import Model.IR Model.Names Model.Passes Model.PassesChain Model.Process Model.NF
     Proofs.TyInd Proofs.ChainLemmas Proofs.ChainNFProofs Proofs.ChainPresProofs Proofs.C06Proofs Gen.Chains_gen.
Import ListNotations.
Local Open Scope list_scope.

(* =====================================================================================
   SanitizeEnumMemberNames only renames enum members: an srel rewrite
   ===================================================================================== *)
Lemma senm_srel : forall t t', senm_ty t = Ok t' -> srel t t' /\ keeps_null t t'.
Proof.
  induction t as [a d IH|a v IH|a vs IH|a i v IHi IHv|a dh fs IHd IHf|a pk n|a pk n v|a k v cs|a bs IH|a v|a k]
    using ty_ind'; intros t' H;
    [rewrite senm_disj_eq in H|simpl in H|simpl in H|simpl in H|rewrite senm_struct_eq in H
     |simpl in H|simpl in H|simpl in H|rewrite senm_inter_eq in H|simpl in H|simpl in H];
    try (inversion H; subst; split; [apply SR_same|intros X; exact X]).
  - assert (forall l l', Forall (fun b => forall t', senm_ty b = Ok t' -> srel b t' /\ keeps_null b t') l ->
              senm_list l = Ok l' -> srel_list l l') as G.
    { induction l as [|b r IHl]; intros l' HF Hl; simpl in Hl.
      - inversion Hl; subst. constructor.
      - inversion HF as [|? ? Hb Hr]; subst.
        destruct (senm_ty b) as [b1| | |] eqn:E1; simpl in Hl; try discriminate.
        destruct (senm_list r) as [r1| | |] eqn:E2; simpl in Hl; try discriminate.
        inversion Hl; subst. constructor; [exact (proj1 (Hb b1 eq_refl))|apply IHl; [assumption|reflexivity]]. }
    destruct (senm_list (d_branches d)) as [bs1| | |] eqn:E; simpl in H; try discriminate.
    inversion H; subst. split; [apply SR_disj; simpl; exact (G _ _ IH E)|intros X; exact X].
  - destruct (senm_ty v) as [v1| | |] eqn:E; simpl in H; try discriminate. inversion H; subst.
    split; [apply SR_array; exact (proj1 (IH v1 eq_refl))|intros X; exact X].
  - destruct (mapM senm_member vs) as [vs1| | |] eqn:E; simpl in H; try discriminate. inversion H; subst.
    split; [apply SR_enum|intros X; exact X].
  - destruct (senm_ty i) as [i1| | |] eqn:Ei; simpl in H; try discriminate.
    destruct (senm_ty v) as [v1| | |] eqn:Ev; simpl in H; try discriminate. inversion H; subst.
    split; [apply SR_map; [exact (proj1 (IHi i1 eq_refl))|exact (proj1 (IHv v1 eq_refl))]|intros X; exact X].
  - assert (forall l l', Forall (fun f => forall t', senm_ty (f_type f) = Ok t' -> srel (f_type f) t' /\ keeps_null (f_type f) t') l ->
              senm_fields l = Ok l' -> srel_fields l l') as G.
    { induction l as [|f r IHl]; intros l' HF Hl; simpl in Hl.
      - inversion Hl; subst. constructor.
      - inversion HF as [|? ? Hf Hr]; subst.
        destruct (senm_ty (f_type f)) as [t1| | |] eqn:E1; simpl in Hl; try discriminate.
        destruct (senm_fields r) as [r1| | |] eqn:E2; simpl in Hl; try discriminate.
        inversion Hl; subst. destruct (Hf t1 eq_refl) as [S1 S2].
        constructor; simpl; try assumption; [reflexivity|apply IHl; [assumption|reflexivity]]. }
    destruct (senm_fields fs) as [fs1| | |] eqn:E; simpl in H; try discriminate.
    inversion H; subst. split; [apply SR_struct; exact (G _ _ IHf E)|intros X; exact X].
  - assert (forall l l', Forall (fun b => forall t', senm_ty b = Ok t' -> srel b t' /\ keeps_null b t') l ->
              senm_list l = Ok l' -> srel_list l l') as G.
    { induction l as [|b r IHl]; intros l' HF Hl; simpl in Hl.
      - inversion Hl; subst. constructor.
      - inversion HF as [|? ? Hb Hr]; subst.
        destruct (senm_ty b) as [b1| | |] eqn:E1; simpl in Hl; try discriminate.
        destruct (senm_list r) as [r1| | |] eqn:E2; simpl in Hl; try discriminate.
        inversion Hl; subst. constructor; [exact (proj1 (Hb b1 eq_refl))|apply IHl; [assumption|reflexivity]]. }
    destruct (senm_list bs) as [bs1| | |] eqn:E; simpl in H; try discriminate.
    inversion H; subst. split; [apply SR_inter; exact (G _ _ IH E)|intros X; exact X].
Qed.

Lemma senm_objects ss out o' : sanitize_enum_member_names ss = Ok out -> In o' (objects_of out) ->
  exists o, In o (objects_of ss) /\ srel (o_type o) (o_type o').
Proof.
  intros H Ho'. unfold sanitize_enum_member_names in H.
  destruct (in_objects_of_mapM _ _ _ _ H Ho') as [s [s' [k [Hs [HF Hko]]]]].
  destruct (visit_schema_objects _ _ _ _ _ _ HF Hko) as [[k0 o] [Hin Hfo]]. simpl in Hfo.
  destruct (senm_ty (o_type o)) as [t'| | |] eqn:E; simpl in Hfo; try discriminate. inversion Hfo; subst.
  exists o. split; [apply in_objects_of; exists s, k0; split; assumption|]. simpl. exact (proj1 (senm_srel _ _ E)).
Qed.
Theorem senm_pres (p : bool -> ty -> bool) ss out :
  (forall t t' inter, srel t t' -> any_sub p inter t = false -> any_sub p inter t' = false) ->
  all_clean p ss -> sanitize_enum_member_names ss = Ok out -> all_clean p out.
Proof. intros Hs Hc H o' Ho'. destruct (senm_objects _ _ _ H Ho') as [o [Ho Hr]]. eapply Hs; [exact Hr|apply Hc; assumption]. Qed.
Theorem senm_pres_below (p : bool -> ty -> bool) ss out :
  (forall t t', srel t t' -> any_below p t = false -> any_below p t' = false) ->
  all_clean_below p ss -> sanitize_enum_member_names ss = Ok out -> all_clean_below p out.
Proof. intros Hs Hc H o' Ho'. destruct (senm_objects _ _ _ H Ho') as [o [Ho Hr]]. eapply Hs; [exact Hr|apply Hc; assumption]. Qed.

(* ---------- "no union has a null branch" through srel rewrites and UndiscriminatedDisjunctionToAny ---------- *)
Lemma srel_hasnull t t' inter : srel t t' -> any_sub p_hasnull inter t = false -> any_sub p_hasnull inter t' = false.
Proof.
  apply (srel_pres p_hasnull null_back); srel_side.
  - exact srel_null_back.
  - intros i a a' d d' HF2 Hp. simpl in *. apply existsb_false_iff. intros b' Hb'.
    destruct (Forall2_in_r _ _ _ HF2 b' Hb') as [b [Hb Hnb]].
    destruct (is_null b') eqn:E; [|reflexivity]. pose proof (Hnb E) as Hx.
    rewrite (proj1 (existsb_false_iff _ _) Hp b Hb) in Hx. discriminate.
Qed.
Definition srel_hasnull' := fun t t' inter (H : srel t t') => srel_hasnull t t' inter H.
Definition srel_enum_below' := fun t t' (H : srel t t') => srel_enum_below t t' H.

Theorem hasnull_udta ss out : all_clean p_hasnull ss -> undiscriminated_disjunction_to_any ss = Ok out -> all_clean p_hasnull out.
Proof.
  intros Hc H. unfold undiscriminated_disjunction_to_any in H.
  refine (v0_pres p_hasnull (fun _ _ => True) (fun _ _ _ => I) _ _ _ _ _ ss out _ Hc H); hn_side.
  intros s a d t1 i _ _ Hd Hcd. split; [|exact I]. destruct (udta_disj_shape _ _ _ _ Hd) as [->|[-> _]]; [assumption|reflexivity].
Qed.

(* ---------- the member-name predicate of PHP through the later stateless passes ---------- *)
Ltac php_side := try (intros; unfold p_php in *; simpl in *; (reflexivity || assumption)); try (intros ? x ?; destruct x; reflexivity).
Theorem php_fd ss out : all_clean p_nui ss -> all_clean p_php ss -> flatten_disjunctions ss = Ok out -> all_clean p_php out.
Proof. intros Hn Hc H. eapply proj2. eapply (fd_sub_nui p_php); try eassumption; php_side. Qed.
Theorem php_dim ss out : all_clean p_nui ss -> all_clean p_php ss -> disjunction_infer_mapping ss = Ok out -> all_clean p_php out.
Proof. intros Hn Hc H. eapply proj2. eapply (dim_sub_nui p_php); try eassumption; php_side. Qed.
Theorem php_udta ss out : all_clean p_php ss -> undiscriminated_disjunction_to_any ss = Ok out -> all_clean p_php out.
Proof.
  intros Hc H. unfold undiscriminated_disjunction_to_any in H.
  refine (v0_pres p_php (fun _ _ => True) (fun _ _ _ => I) _ _ _ _ _ ss out _ Hc H); php_side.
  intros s a d t1 i _ _ Hd Hcd. split; [|exact I]. destruct (udta_disj_shape _ _ _ _ Hd) as [->|[-> _]]; [assumption|reflexivity].
Qed.

(* =====================================================================================
   THE PHP CHAIN up to (not including) its last pass InlineObjectsWithTypes
   ===================================================================================== *)
Definition tame_php_core (ss : schemas) : bool :=
  negb (nested_union ss) && negb (union_in_inter ss) && negb (null_in_wide_union ss) &&
  match process (firstn 8 chain_php) ss with Ok mid => udta_safe mid | _ => true end.

Lemma php_core_invariants ss out :
  tame_php_core ss = true -> process (removelast chain_php) ss = Ok out ->
  all_clean p_nui out /\ all_clean_below p_struct out /\ all_clean p_optnn out /\ all_clean_below p_enum out /\
  all_clean p_hasnull out /\ all_clean p_php out.
Proof.
  intros Ht H. unfold tame_php_core in Ht.
  apply andb_true_iff in Ht. destruct Ht as [Ht Hsafe]. apply andb_true_iff in Ht. destruct Ht as [Ht H3].
  apply andb_true_iff in Ht. destruct Ht as [Hn Hu]. apply negb_true_iff in Hn, Hu, H3.
  pose proof (proj1 (all_clean_iff _ _) Hn) as N0. pose proof (proj1 (all_clean_iff _ _) Hu) as U0.
  pose proof (proj1 (all_clean_iff _ _) H3) as T0. unfold chain_php in H. cbn [removelast] in H.
  step_total H. pose proof (nuf_astn _ N0) as N1. pose proof (nui_astn _ U0) as U1. pose proof (astn_pres p_null3 _ srel_null3' T0) as T1.
  pose proof (proj1 (all_clean_below_iff _ _) (astn_establishes_no_anonymous_struct ss)) as S1.
  step_total H. pose proof (nuf_nrfn _ N1) as N2. pose proof (nui_nrfn _ U1) as U2. pose proof (nrfn_pres p_null3 _ srel_null3' T1) as T2.
  pose proof (nrfn_pres_below p_struct _ srel_struct_below' S1) as S2.
  pose proof (proj1 (all_clean_iff p_optnn _) (not_required_establishes_optional_nullable_proof (anonymous_structs_to_named ss))) as O2.
  step_res H s3 P3. pose proof (nui_dwnto _ _ U2 P3) as U3. pose proof (i1_dwnto _ _ U2 S2 P3) as S3. pose proof (i2_dwnto _ _ U2 O2 P3) as O3.
  pose proof (dwnto_establishes_no_null_branch _ _ N2 T2 P3) as L3.
  step_res H s4 P4. pose proof (nui_docte _ _ U3 P4) as U4. pose proof (i1_docte _ _ U3 S3 P4) as S4. pose proof (i2_docte _ _ U3 O3 P4) as O4.
  pose proof (hasnull_docte _ _ L3 P4) as L4.
  step_total H. pose proof (nui_aete _ U4) as U5. pose proof (aete_pres_below p_struct _ srel_struct_below' S4) as S5.
  pose proof (aete_pres p_optnn _ srel_optnn' (fun _ _ => eq_refl) O4) as O5.
  pose proof (aete_pres p_hasnull _ srel_hasnull' (fun _ _ => eq_refl) L4) as L5.
  pose proof (proj1 (all_clean_below_iff _ _) (aete_establishes_no_anonymous_enum s4)) as A5.
  step_res H s6 P6. pose proof (senm_pres p_nui _ _ srel_nui' U5 P6) as U6.
  pose proof (senm_pres_below p_struct _ _ srel_struct_below' S5 P6) as S6. pose proof (senm_pres p_optnn _ _ srel_optnn' O5 P6) as O6.
  pose proof (senm_pres p_hasnull _ _ srel_hasnull' L5 P6) as L6. pose proof (senm_pres_below p_enum _ _ srel_enum_below' A5 P6) as A6.
  pose proof (proj1 (all_clean_iff p_php _) (sanitize_establishes _ _ P6)) as G6.
  step_res H s7 P7. pose proof (nui_fd _ _ U6 P7) as U7. pose proof (i1_fd _ _ U6 S6 P7) as S7. pose proof (i2_fd _ _ U6 O6 P7) as O7.
  pose proof (hasnull_fd _ _ L6 P7) as L7. pose proof (i5_fd _ _ U6 A6 P7) as A7. pose proof (php_fd _ _ U6 G6 P7) as G7.
  step_res H s8 P8. pose proof (nui_dim _ _ U7 P8) as U8. pose proof (i1_dim _ _ U7 S7 P8) as S8. pose proof (i2_dim _ _ U7 O7 P8) as O8.
  pose proof (hasnull_dim _ _ L7 P8) as L8. pose proof (i5_dim _ _ U7 A7 P8) as A8. pose proof (php_dim _ _ U7 G7 P8) as G8.
  assert (process (firstn 8 chain_php) ss = Ok s8) as Hmid.
  { unfold chain_php. cbn [firstn process run_pass bind]. rewrite P3. cbn [bind]. rewrite P4. cbn [bind]. rewrite P6. cbn [bind].
    rewrite P7. cbn [bind]. rewrite P8. reflexivity. }
  rewrite Hmid in Hsafe.
  step_res H s9 P9. simpl in H. inversion H; subst.
  pose proof (nui_udta _ _ U8 P9) as U9. pose proof (i1_udta _ _ U8 S8 P9) as S9. pose proof (optnn_udta _ _ Hsafe O8 P9) as O9.
  pose proof (hasnull_udta _ _ L8 P9) as L9. pose proof (i5_udta _ _ U8 A8 P9) as A9. pose proof (php_udta _ _ G8 P9) as G9.
  repeat split; assumption.
Qed.

Lemma nf_php_of_invariants out :
  all_clean_below p_struct out -> all_clean p_optnn out -> all_clean_below p_enum out -> all_clean p_hasnull out -> all_clean p_php out ->
  nf_violations "php" out = [].
Proof.
  intros S O A L G. unfold nf_violations. simpl.
  rewrite (proj2 (all_clean_below_iff p_enum out) A : has_anonymous_enum out = false).
  rewrite (proj2 (all_clean_below_iff p_struct out) S : has_anonymous_struct out = false).
  rewrite (proj2 (all_clean_iff p_optnn out) O : has_optional_not_nullable out = false).
  rewrite (hasnull_tnull _ L).
  rewrite (proj2 (all_clean_iff p_php out) G : php_unsanitised_member out = false). reflexivity.
Qed.

Theorem php_chain_core_nf ss out :
  tame_php_core ss = true -> process (removelast chain_php) ss = Ok out -> nf_violations "php" out = [].
Proof.
  intros Ht H. destruct (php_core_invariants _ _ Ht H) as [_ [S [O [A [L G]]]]]. apply nf_php_of_invariants; assumption.
Qed.

(* =====================================================================================
   InlineObjectsWithTypes
   ===================================================================================== *)
(* what the pass does to a reference: the reference - with ITS nullability, default and hints -
   is replaced by the (current view of the) type of the object it designates *)
Lemma iowt_ref lookup ctx a p n :
  iowt_ty lookup ctx (TRef a p n) = match lookup (ref_str p n) (ctx (TRef a p n)) with Some r => r | None => TRef a p n end.
Proof. reflexivity. Qed.

(* with nothing to inline, types are left alone *)
Lemma iowt_ty_id lookup : (forall k v, lookup k v = None) -> forall t ctx, iowt_ty lookup ctx t = t.
Proof.
  intros Hl. induction t as [a d IH|a v IH|a vs IH|a i v IHi IHv|a dh fs IHd IHf|a pk n|a pk n v|a k v cs|a bs IH|a v|a k]
    using ty_ind'; intros ctx; try reflexivity.
  - simpl.
    match goal with |- TDisj a (mkDisj (?g [] (d_branches d)) _ _) = _ =>
      assert (forall l done, Forall (fun b => forall ctx, iowt_ty lookup ctx b = b) l -> g done l = l) as G end.
    { induction l as [|b r IHl]; intros done HF; [reflexivity|]. inversion HF as [|? ? Hb Hr]; subst.
      cbn beta iota. rewrite Hb. f_equal. apply IHl. assumption. }
    rewrite (G _ [] IH). destruct d; reflexivity.
  - simpl. rewrite IH. reflexivity.
  - simpl. rewrite IHi, IHv. reflexivity.
  - simpl.
    match goal with |- TStruct a dh (?g [] fs) = _ =>
      assert (forall l done, Forall (fun f => forall ctx, iowt_ty lookup ctx (f_type f) = f_type f) l -> g done l = l) as G end.
    { induction l as [|f r IHl]; intros done HF; [reflexivity|]. inversion HF as [|? ? Hf Hr]; subst.
      cbn beta iota zeta. rewrite Hf. f_equal; [destruct f; reflexivity|]. apply IHl. assumption. }
    rewrite (G _ [] IHf). reflexivity.
  - simpl. rewrite Hl. reflexivity.
  - simpl.
    match goal with |- TInter a (?g [] bs) = _ =>
      assert (forall l done, Forall (fun b => forall ctx, iowt_ty lookup ctx b = b) l -> g done l = l) as G end.
    { induction l as [|b r IHl]; intros done HF; [reflexivity|]. inversion HF as [|? ? Hb Hr]; subst.
      cbn beta iota. rewrite Hb. f_equal. apply IHl. assumption. }
    rewrite (G _ [] IH). reflexivity.
Qed.

Lemma iowt_lookup_nil cur self k v : iowt_lookup [] cur self k v = None.
Proof. reflexivity. Qed.

Lemma iowt_visit_nil_objects ss o' : In o' (objects_of (iowt_visit [] ss)) -> In o' (objects_of ss).
Proof.
  unfold iowt_visit.
  match goal with |- context [fold_left ?F ss ([], (ss, 0))] =>
    assert (forall l (acc : schemas * (schemas * nat)),
              (forall o, In o (objects_of (fst acc)) -> In o (objects_of ss)) -> (forall s, In s l -> In s ss) ->
              forall o, In o (objects_of (fst (fold_left F l acc))) -> In o (objects_of ss)) as G end.
  { induction l as [|s r IH]; intros [out [cur i]] Hacc Hl o Ho; [apply Hacc; exact Ho|].
    simpl in Ho. revert Ho.
    match goal with |- context [fold_left ?F (s_objects s) ([], cur)] =>
      assert ((fun st : list (string * object) * schemas => forall k0 o0, In (k0, o0) (fst st) -> In o0 (objects_of ss))
                (fold_left F (s_objects s) ([], cur))) as Hin end.
    { apply fold_left_inv; [|intros k0 o0 []].
      intros [objs c0] [k1 o1] Hko Hst k0 o0 Hx. simpl in Hx. unfold add_object in Hx. apply objs_set_in_inv in Hx.
      destruct Hx as [Hx|Hx]; [eapply Hst; exact Hx|]. subst o0.
      rewrite (iowt_ty_id _ (iowt_lookup_nil c0 (Some (i, k1)))). rewrite set_otype_same.
      apply in_objects_of. exists s, k1. split; [apply Hl; left; reflexivity|assumption]. }
    destruct (fold_left _ (s_objects s) ([], cur)) as [objs cur']. simpl in Hin. intros Ho.
    eapply IH; [| |exact Ho].
    - simpl. intros o2 Ho2. unfold objects_of in Ho2. rewrite flat_map_app in Ho2. apply in_app_or in Ho2.
      destruct Ho2 as [Ho2|Ho2]; [apply Hacc; exact Ho2|]. simpl in Ho2. rewrite app_nil_r in Ho2.
      apply in_map_iff in Ho2. destruct Ho2 as [[k2 o3] [E Hx]]. simpl in E. subst o3. eapply Hin. exact Hx.
    - intros s0 Hs0. apply Hl. right. assumption. }
  pose proof (G ss ([], (ss, 0)) (fun o Ho => match Ho with end) (fun s Hs => Hs) o') as Hg.
  match goal with |- context [fold_left ?F ss ([], (ss, 0))] => destruct (fold_left F ss ([], (ss, 0))) as [out rest] end.
  exact Hg.
Qed.

Definition iowt_nothing (kinds : list string) (ss : schemas) : bool :=
  match iowt_collect kinds ss with Ok [] => true | _ => false end.

Theorem iowt_noop kinds ss out :
  iowt_nothing kinds ss = true -> inline_objects_with_types kinds ss = Ok out ->
  forall o', In o' (objects_of out) -> In o' (objects_of ss).
Proof.
  unfold iowt_nothing, inline_objects_with_types. destruct (iowt_collect kinds ss) as [[|x r]| | |]; try discriminate.
  intros _ H o' Ho'. simpl in H. inversion H; subst. apply iowt_visit_nil_objects.
  apply in_objects_of in Ho'. destruct Ho' as [s' [k [Hs' Hko]]]. apply in_map_iff in Hs'. destruct Hs' as [s [<- Hs]].
  simpl in Hko. apply filter_In in Hko. destruct Hko as [Hko _]. apply in_objects_of. exists s, k. split; assumption.
Qed.

(* =====================================================================================
   THE PHP CHAIN, when nothing is left to inline at its last pass
   ===================================================================================== *)
Definition php_inline_kinds : list string := ["scalar"; "array"; "map"; "disjunction"]%string.
Definition tame_php (ss : schemas) : bool :=
  tame_php_core ss &&
  match process (removelast chain_php) ss with Ok mid => iowt_nothing php_inline_kinds mid | _ => true end.

Theorem php_chain_nf ss out :
  tame_php ss = true -> process chain_php ss = Ok out -> nf_violations "php" out = [].
Proof.
  intros Ht H. unfold tame_php in Ht. apply andb_true_iff in Ht. destruct Ht as [Hcore Hnoop].
  assert (chain_php = removelast chain_php ++ [PInlineObjectsWithTypes php_inline_kinds]) as Esplit by reflexivity.
  assert (forall a b ss0, process (a ++ b) ss0 = do m <- process a ss0 ; process b m) as Happ.
  { induction a as [|p r IH]; intros b ss0; [reflexivity|]. simpl. destruct (run_pass p ss0); try reflexivity. simpl. apply IH. }
  rewrite Esplit, Happ in H.
  destruct (process (removelast chain_php) ss) as [mid| | |] eqn:Emid; simpl in H; try discriminate.
  destruct (php_core_invariants _ _ Hcore Emid) as [_ [S [O [A [L G]]]]].
  destruct (inline_objects_with_types php_inline_kinds mid) as [out'| | |] eqn:Ei; simpl in H; try discriminate.
  inversion H; subst.
  pose proof (iowt_noop _ _ _ Hnoop Ei) as Sub.
  apply nf_php_of_invariants; [eapply subset_clean_below|eapply subset_clean|eapply subset_clean_below|eapply subset_clean|eapply subset_clean]; eassumption.
Qed.

(* =====================================================================================
   RemoveIntersections (last pass of the Java chain)
   ===================================================================================== *)
(* its first loop, named *)
Definition ri_loop1 : list string -> list ri_entry -> ri_state -> res (list ri_entry * ri_state) :=
  fix go (keys : list string) (objs : list ri_entry) (st : ri_state) : res (list ri_entry * ri_state) :=
    match keys with
    | [] => Ok (objs, st)
    | k :: rest =>
        match ri_get objs k with
        | Some (o, _) =>
            match o_type o with
            | TRef ra _ n =>
                match ri_get objs n with
                | Some (lo, lid) =>
                    match o_type lo with
                    | TStruct la ldh lfs =>
                        do h0 <- (match alist_find (hints ra) "implements_variant" with
                                  | None => Ok []
                                  | Some (DStr v) => Ok [("implements_variant"%string, DStr v)]
                                  | Some _ => Panic "interface conversion: interface {} is not string"
                                  end) ;
                        let h := fold_left (fun acc kv => alist_set acc (fst kv) (snd kv)) (hints la) h0 in
                        go rest (ri_set objs k (set_otype o (TStruct (mk_attrs false DNil h) ldh lfs), lid))
                           (str_alist_set (fst st) (o_name lo) o, snd st)
                    | TArray _ _ =>
                        go rest objs (str_alist_set (fst st) (o_name o) o, str_alist_set (snd st) (o_name o) lo)
                    | _ => go rest objs st
                    end
                | None => go rest objs st
                end
            | _ => go rest objs st
            end
        | None => go rest objs st
        end
    end.

Definition ri_finish (s : schema) (r1 : list ri_entry * ri_state) : res (schema * ri_state) :=
  let '(objs1, st1) := r1 in
  let heap0 : list (nat * list field) :=
      fold_left (fun h e => match o_type (fst (snd e)) with
                            | TStruct _ _ fs => if existsb (fun x => Nat.eqb (fst x) (snd (snd e))) h then h
                                                else h ++ [(snd (snd e), fs)]
                            | _ => h end) objs1 [] in
  let heap :=
      fold_left (fun h e => match o_type (fst (snd e)) with
                            | TStruct _ _ _ =>
                                map (fun x => if Nat.eqb (fst x) (snd (snd e)) then (fst x, ri_fields st1 (snd x)) else x) h
                            | _ => h end) objs1 heap0 in
  let objs2 :=
      map (fun e => let o := fst (snd e) in
                    match o_type o with
                    | TStruct a dh fs =>
                        let fs' := match find (fun x => Nat.eqb (fst x) (snd (snd e))) heap with
                                   | Some x => snd x | None => fs end in
                        (fst e, set_otype o (TStruct a dh fs'))
                    | _ => (fst e, o)
                    end) objs1 in
  Ok (set_objects s (filter (fun ko => negb (alist_has (fst st1) (fst ko))) objs2), st1).

Lemma ri_schema_eq st s :
  ri_schema st s = do r1 <- ri_loop1 (map fst (s_objects s)) (ri_number (s_objects s) 0) st ; ri_finish s r1.
Proof. reflexivity. Qed.

(* the states after the first loop of every schema *)
Fixpoint ri_states (l : list schema) (st : ri_state) : res ri_state :=
  match l with
  | [] => Ok st
  | s :: r => do x <- ri_loop1 (map fst (s_objects s)) (ri_number (s_objects s) 0) st ; ri_states r (snd x)
  end.

(* ri_safe: no field of a struct object refers to an object the pass collapses (objectsToRemove)
   or to an alias of an array (arraysToFix) *)
Definition field_avoids (st : ri_state) (f : field) : bool :=
  match f_type f with TRef _ _ n => negb (alist_has (fst st) n) && negb (alist_has (snd st) n) | _ => true end.
Definition fields_avoid (st : ri_state) (fs : list field) : bool := forallb (field_avoids st) fs.
Definition ri_safe (ss : schemas) : bool :=
  match ri_states ss ([], []) with
  | Ok st => forallb (fun o => match o_type o with TStruct _ _ fs => fields_avoid st fs | _ => true end) (objects_of ss)
  | _ => true
  end.

(* ---- hints-only rewriting of fields ---- *)
Definition hrel_ty (t t' : ty) : Prop := exists hs, t' = fold_left set_hints hs t.
Definition hrel_fields (fs fs' : list field) : Prop :=
  Forall2 (fun f f' => f_required f' = f_required f /\ hrel_ty (f_type f) (f_type f')) fs fs'.

Lemma hrel_ty_refl t : hrel_ty t t.
Proof. exists []. reflexivity. Qed.
Lemma hrel_ty_trans t1 t2 t3 : hrel_ty t1 t2 -> hrel_ty t2 t3 -> hrel_ty t1 t3.
Proof. intros [h1 E1] [h2 E2]. exists (h1 ++ h2). rewrite fold_left_app. subst. reflexivity. Qed.
Lemma hrel_fields_refl fs : hrel_fields fs fs.
Proof. induction fs; constructor; [split; [reflexivity|apply hrel_ty_refl]|assumption]. Qed.
Lemma hrel_fields_trans : forall f1 f2 f3, hrel_fields f1 f2 -> hrel_fields f2 f3 -> hrel_fields f1 f3.
Proof.
  induction f1 as [|x r IH]; intros f2 f3 H12 H23.
  - inversion H12; subst. inversion H23; subst. constructor.
  - inversion H12 as [|? y ? r2 [Q1 T1] R1]; subst. inversion H23 as [|? z ? r3 [Q2 T2] R2]; subst.
    constructor; [split; [congruence|eapply hrel_ty_trans; eassumption]|eapply IH; eassumption].
Qed.
Lemma set_hints_nullable t h : nullable (ty_attrs (set_hints t h)) = nullable (ty_attrs t).
Proof. destruct t; reflexivity. Qed.
Lemma hrel_ty_srel t t' : hrel_ty t t' -> srel t t' /\ keeps_null t t'.
Proof.
  intros [hs E]. subst t'.
  assert (forall hs t0 t1, srel t0 t1 -> srel t0 (fold_left set_hints hs t1)) as G1.
  { induction hs0 as [|h r IH]; intros t0 t1 H; [exact H|]. simpl. apply IH. unfold set_hints. apply SR_setattrs. exact H. }
  assert (forall hs t1, nullable (ty_attrs (fold_left set_hints hs t1)) = nullable (ty_attrs t1)) as G2.
  { induction hs0 as [|h r IH]; intros t1; [reflexivity|]. simpl. rewrite IH. apply set_hints_nullable. }
  split; [apply G1; apply SR_same|]. intros X. rewrite G2. exact X.
Qed.
Lemma hrel_fields_srel fs fs' : hrel_fields fs fs' -> srel_fields fs fs'.
Proof.
  induction 1 as [|f f' r r' [Q T] _ IH]; [constructor|]. destruct (hrel_ty_srel _ _ T) as [S1 S2].
  constructor; assumption.
Qed.

Lemma ri_fields_safe st fs : fields_avoid st fs = true ->
  hrel_fields fs (ri_fields st fs) /\ fields_avoid st (ri_fields st fs) = true.
Proof.
  unfold fields_avoid, ri_fields. induction fs as [|f r IH]; intros H; [split; [constructor|reflexivity]|].
  simpl in H. apply andb_true_iff in H. destruct H as [Hf Hr]. destruct (IH Hr) as [I1 I2]. simpl.
  unfold field_avoids in Hf.
  destruct (f_type f) as [a d|a v|a vs|a i v|a dh fs0|a pk n|a pk n v|a k v cs|a bs|a v|a k] eqn:E;
    try (split; [constructor; [split; [reflexivity|apply hrel_ty_refl]|assumption]|
                 simpl; unfold field_avoids at 1; rewrite E; simpl; assumption]).
  apply andb_true_iff in Hf. destruct Hf as [H1 H2]. apply negb_true_iff in H1, H2.
  unfold alist_has in H1, H2.
  destruct (alist_find (fst st) n) eqn:F1; [discriminate|]. destruct (alist_find (snd st) n) eqn:F2; [discriminate|].
  split.
  - constructor; [|assumption]. simpl. split; [reflexivity|]. rewrite E. eexists [_]. reflexivity.
  - simpl. apply andb_true_iff. split; [|assumption]. unfold field_avoids. simpl. rewrite E. simpl.
    unfold alist_has. rewrite F1, F2. reflexivity.
Qed.

Lemma ri_fields_iter st : forall n fs, fields_avoid st fs = true ->
  hrel_fields fs (Nat.iter n (ri_fields st) fs) /\ fields_avoid st (Nat.iter n (ri_fields st) fs) = true.
Proof.
  induction n as [|n IH]; intros fs H; [split; [apply hrel_fields_refl|assumption]|].
  destruct (IH fs H) as [S1 S2]. simpl. destruct (ri_fields_safe st _ S2) as [T1 T2].
  split; [eapply hrel_fields_trans; eassumption|assumption].
Qed.

(* ---- the first loop keeps every entry "good": an original object, or an original alias retyped as a
   struct over the field list of an original struct ---- *)
Definition ri_origs (s : schema) : list object := map snd (s_objects s).
Definition ri_F0 (s : schema) (fs : list field) : Prop := exists o a dh, In o (ri_origs s) /\ o_type o = TStruct a dh fs.
Definition ri_S0 (s : schema) (dh : list (string * disj_ ty)) (fs : list field) : Prop :=
  exists o a, In o (ri_origs s) /\ o_type o = TStruct a dh fs.
Definition ri_good (s : schema) (o : object) : Prop :=
  In o (ri_origs s) \/ exists o0 a dh fs, In o0 (ri_origs s) /\ o = set_otype o0 (TStruct a dh fs) /\ ri_S0 s dh fs.

Lemma ri_get_in objs k v : ri_get objs k = Some v -> exists k', In (k', v) objs.
Proof.
  induction objs as [|[k' v'] r IH]; simpl; intros H; [discriminate|].
  destruct (seqb k' k); [inversion H; subst; exists k'; left; reflexivity|].
  destruct (IH H) as [k2 Hin]. exists k2. right. assumption.
Qed.
Lemma ri_set_in_inv l k v k1 v1 : In (k1, v1) (ri_set l k v) -> In (k1, v1) l \/ v1 = v.
Proof.
  induction l as [|[k' v'] r IH]; simpl; intros H.
  - destruct H as [H|[]]. inversion H. right; reflexivity.
  - destruct (seqb k' k); simpl in H.
    + destruct H as [H|H]; [inversion H; right; reflexivity|left; right; assumption].
    + destruct H as [H|H]; [left; left; assumption|]. destruct (IH H) as [H'|H']; [left; right; assumption|right; assumption].
Qed.
Lemma ri_number_in l : forall j k o i, In (k, (o, i)) (ri_number l j) -> In (k, o) l.
Proof.
  induction l as [|[k0 o0] r IH]; intros j k o i H; [contradiction|]. simpl in H.
  destruct H as [H|H]; [inversion H; subst; left; reflexivity|right; eapply IH; eassumption].
Qed.
Lemma ri_good_struct s o a dh fs : ri_good s o -> o_type o = TStruct a dh fs -> ri_S0 s dh fs.
Proof.
  intros [Hin|[o0 [a0 [dh0 [fs0 [Hin [E HF]]]]]]] Ht.
  - exists o, a. split; assumption.
  - subst o. simpl in Ht. inversion Ht; subst. assumption.
Qed.
Lemma ri_good_fields s o a dh fs : ri_good s o -> o_type o = TStruct a dh fs -> ri_F0 s fs.
Proof. intros Hg Ht. destruct (ri_good_struct _ _ _ _ _ Hg Ht) as [o2 [a2 [H1 H2]]]. exists o2, a2, dh. split; assumption. Qed.
Lemma str_alist_set_has {V} (l : list (string * V)) k v n : alist_has l n = true -> alist_has (str_alist_set l k v) n = true.
Proof.
  unfold alist_has. induction l as [|[k' v'] r IH]; simpl; intros H; [discriminate|].
  destruct (seqb k' k) eqn:Ek; simpl.
  - destruct (seqb k' n); [reflexivity|assumption].
  - destruct (seqb k' n); [reflexivity|apply IH; assumption].
Qed.

Definition st_le (st st1 : ri_state) : Prop :=
  (forall n, alist_has (fst st) n = true -> alist_has (fst st1) n = true) /\
  (forall n, alist_has (snd st) n = true -> alist_has (snd st1) n = true).
Lemma st_le_refl st : st_le st st. Proof. split; auto. Qed.
Lemma st_le_trans a b c : st_le a b -> st_le b c -> st_le a c.
Proof. intros [A1 A2] [B1 B2]. split; auto. Qed.

Lemma ri_loop1_inv s : forall keys objs st objs1 st1,
  (forall k o id, In (k, (o, id)) objs -> ri_good s o) -> ri_loop1 keys objs st = Ok (objs1, st1) ->
  (forall k o id, In (k, (o, id)) objs1 -> ri_good s o) /\ st_le st st1.
Proof.
  induction keys as [|k rest IH]; intros objs st objs1 st1 Hg H; simpl in H.
  - inversion H; subst. split; [assumption|apply st_le_refl].
  - destruct (ri_get objs k) as [[o oid]|] eqn:Eg; [|eapply IH; eassumption].
    destruct (o_type o) as [a d|a v|a vs|a i v|a dh fs|ra pk n|a pk n v|a kk v cs|a bs|a v|a kk] eqn:Et;
      try (eapply IH; eassumption).
    destruct (ri_get objs n) as [[lo lid]|] eqn:El; [|eapply IH; eassumption].
    destruct (ri_get_in _ _ _ Eg) as [k1 Hino]. destruct (ri_get_in _ _ _ El) as [k2 Hinl].
    pose proof (Hg _ _ _ Hino) as Go. pose proof (Hg _ _ _ Hinl) as Gl.
    destruct (o_type lo) as [a d|a v|a vs|a i v|la ldh lfs|a pk0 n0|a pk0 n0 v|a kk v cs|a bs|a v|a kk] eqn:Elt;
      try (eapply IH; eassumption).
    + (* alias of an array *)
      destruct (IH _ _ _ _ Hg H) as [A B]. split; [assumption|]. eapply st_le_trans; [|exact B].
      split; simpl; intros m Hm; apply str_alist_set_has; assumption.
    + (* alias of a struct *)
      match type of H with (do _ <- ?X ; _) = _ => destruct X as [h0| | |] end; simpl in H; try discriminate.
      refine ((fun R => conj (proj1 R) (st_le_trans _ _ _ _ (proj2 R))) (IH _ _ _ _ _ H)).
      * split; simpl; intros m Hm; [apply str_alist_set_has|]; assumption.
      * intros k3 o3 id3 Hin3. apply ri_set_in_inv in Hin3. destruct Hin3 as [Hin3|Heq]; [eapply Hg; eassumption|].
        inversion Heq; subst. right.
        assert (In o (ri_origs s)) as Horig.
        { destruct Go as [Hx|[o0 [a0 [dh0 [fs0 [_ [E0 _]]]]]]]; [assumption|]. subst o. simpl in Et. discriminate. }
        exists o. eexists. eexists. eexists. split; [assumption|split; [reflexivity|]].
        eapply ri_good_struct; eassumption.
Qed.

Lemma ri_number_good s : forall k o id, In (k, (o, id)) (ri_number (s_objects s) 0) -> ri_good s o.
Proof. intros k o id H. left. apply ri_number_in in H. unfold ri_origs. apply in_map_iff. exists (k, o). split; [reflexivity|assumption]. Qed.

(* ---- the second loop: every struct of the result carries some iterate of ri_fields over the
   field list of some struct entry ---- *)
Lemma ri_finish_objects s objs1 st1 s' st' k o' :
  ri_finish s (objs1, st1) = Ok (s', st') -> In (k, o') (s_objects s') ->
  st' = st1 /\
  exists k0 o id, In (k0, (o, id)) objs1 /\
    ((is_struct (o_type o) = false /\ o' = o) \/
     exists a dh fs n k1 o1 id1 a1 dh1 fs0,
       o_type o = TStruct a dh fs /\ In (k1, (o1, id1)) objs1 /\ o_type o1 = TStruct a1 dh1 fs0 /\
       o' = set_otype o (TStruct a dh (Nat.iter n (ri_fields st1) fs0))).
Proof.
  unfold ri_finish. intros H Hin. injection H as Hs' Hst. subst s'. split; [symmetry; exact Hst|]. clear Hst. simpl in Hin.
  apply filter_In in Hin. destruct Hin as [Hin _]. apply in_map_iff in Hin. destruct Hin as [[k0 [o id]] [E He]]. simpl in E.
  set (HI := fun h : list (nat * list field) =>
               forall i fl, In (i, fl) h -> exists n k1 o1 id1 a1 dh1 fs0,
                 In (k1, (o1, id1)) objs1 /\ o_type o1 = TStruct a1 dh1 fs0 /\ fl = Nat.iter n (ri_fields st1) fs0).
  match type of E with context [find _ ?heap] => assert (HI heap) as Hheap end.
  { apply fold_left_inv.
    - intros h [k1 [o1 id1]] Hb Hh. simpl. destruct (o_type o1) eqn:Et; try assumption.
      intros i fl Hx. apply in_map_iff in Hx. destruct Hx as [[i0 fl0] [Ex Hx0]].
      destruct (Nat.eqb (fst (i0, fl0)) id1); [|inversion Ex; subst; eapply Hh; eassumption].
      simpl in Ex. inversion Ex; subst. destruct (Hh _ _ Hx0) as [n [k2 [o2 [id2 [a2 [dh2 [fs2 [A [B C]]]]]]]]].
      exists (S n), k2, o2, id2, a2, dh2, fs2. repeat split; try assumption. simpl. rewrite C. reflexivity.
    - apply fold_left_inv; [|intros i fl []].
      intros h [k1 [o1 id1]] Hb Hh. simpl. destruct (o_type o1) eqn:Et; try assumption.
      destruct (existsb _ h); [assumption|]. intros i fl Hx. apply in_app_or in Hx. destruct Hx as [Hx|[Hx|[]]]; [eapply Hh; eassumption|].
      injection Hx as Ei Efl. subst fl. exists 0, k1, o1, id1. eexists. eexists. eexists. repeat split; [exact Hb|exact Et]. }
  exists k0, o, id. split; [assumption|].
  destruct (o_type o) as [a d|a v|a vs|a i v|a dh fs|a pk n|a pk n v|a kk v cs|a bs|a v|a kk] eqn:Et;
    try (left; split; [reflexivity|inversion E; reflexivity]).
  right. simpl in E.
  match type of E with context [find ?f ?heap] => destruct (find f heap) as [[i fl]|] eqn:Ef end.
  - apply find_some in Ef. destruct Ef as [Ef _]. destruct (Hheap _ _ Ef) as [n [k2 [o2 [id2 [a2 [dh2 [fs2 [A [B C]]]]]]]]].
    exists a, dh, fs, n, k2, o2, id2, a2, dh2, fs2. repeat split; try assumption. inversion E; subst. reflexivity.
  - exists a, dh, fs, 0, k0, o, id, a, dh, fs. repeat split; try assumption. inversion E; subst. reflexivity.
Qed.

(* ---- one schema ---- *)
Lemma fields_avoid_le st st1 fs : st_le st st1 -> fields_avoid st1 fs = true -> fields_avoid st fs = true.
Proof.
  intros [L1 L2]. unfold fields_avoid. rewrite !forallb_forall. intros H f Hf. specialize (H f Hf).
  unfold field_avoids in *. destruct (f_type f); try reflexivity.
  apply andb_true_iff in H. destruct H as [H1 H2]. apply negb_true_iff in H1, H2. apply andb_true_iff. split; apply negb_true_iff.
  - destruct (alist_has (fst st) name) eqn:E; [|reflexivity]. rewrite (L1 _ E) in H1. discriminate.
  - destruct (alist_has (snd st) name) eqn:E; [|reflexivity]. rewrite (L2 _ E) in H2. discriminate.
Qed.

Lemma ri_schema_objects st s s' st1 :
  ri_schema st s = Ok (s', st1) ->
  (forall fs, ri_F0 s fs -> fields_avoid st1 fs = true) ->
  st_le st st1 /\
  forall k o', In (k, o') (s_objects s') -> exists o, In o (ri_origs s) /\ srel (o_type o) (o_type o').
Proof.
  rewrite ri_schema_eq. destruct (ri_loop1 _ _ st) as [[objs1 st0]| | |] eqn:E1; simpl; try discriminate.
  intros Hf Hsafe. destruct (ri_loop1_inv s _ _ _ _ _ (ri_number_good s) E1) as [Hgood Hle].
  assert (st1 = st0) as ->.
  { unfold ri_finish in Hf. injection Hf as _ Hx. symmetry; exact Hx. }
  split; [assumption|].
  intros k o' Hin. destruct (ri_finish_objects _ _ _ _ _ _ _ Hf Hin) as [_ [k0 [o [id [Hino Hcase]]]]].
  pose proof (Hgood _ _ _ Hino) as Go.
  destruct Hcase as [[Hns ->]|[a [dh [fs [n [k1 [o1 [id1 [a1 [dh1 [fs0 [Et [Hin1 [Et1 ->]]]]]]]]]]]]]].
  - destruct Go as [Hx|[o0 [a0 [dh0 [fs1 [_ [E0 _]]]]]]]; [exists o; split; [assumption|apply SR_same]|].
    subst o. simpl in Hns. discriminate.
  - pose proof (ri_good_fields _ _ _ _ _ (Hgood _ _ _ Hin1) Et1) as HF0.
    destruct HF0 as [o2 [a2 [dh2 [Ho2 Et2]]]]. exists o2. split; [assumption|]. rewrite Et2. simpl.
    apply SR_struct. apply hrel_fields_srel.
    exact (proj1 (ri_fields_iter st0 n fs0 (Hsafe fs0 (ex_intro _ o2 (ex_intro _ a2 (ex_intro _ dh2 (conj Ho2 Et2))))))).
Qed.

(* ---- all schemas ---- *)
Definition ri_go : list schema -> ri_state -> res (list schema) :=
  fix go (l : list schema) (st : ri_state) : res (list schema) :=
    match l with
    | [] => Ok []
    | s :: rest => do x <- ri_schema st s ; do rest' <- go rest (snd x) ; Ok (fst x :: rest')
    end.
Lemma remove_intersections_eq ss : remove_intersections ss = do r <- ri_go ss ([], []) ; Ok r.
Proof. reflexivity. Qed.

Lemma ri_states_le : forall l st final, ri_states l st = Ok final -> st_le st final.
Proof.
  induction l as [|s r IH]; intros st final H; simpl in H; [inversion H; subst; apply st_le_refl|].
  destruct (ri_loop1 _ _ st) as [[objs1 st1]| | |] eqn:E1; simpl in H; try discriminate.
  eapply st_le_trans; [exact (proj2 (ri_loop1_inv s _ _ _ _ _ (ri_number_good s) E1))|eapply IH; exact H].
Qed.

Lemma ri_go_objects : forall l st out final,
  ri_go l st = Ok out -> ri_states l st = Ok final ->
  (forall s fs, In s l -> ri_F0 s fs -> fields_avoid final fs = true) ->
  forall o', In o' (objects_of out) -> exists o, In o (objects_of l) /\ srel (o_type o) (o_type o').
Proof.
  induction l as [|s r IH]; intros st out final Hg Hs Hsafe o' Ho'; simpl in Hg.
  - inversion Hg; subst. contradiction.
  - destruct (ri_schema st s) as [[s' st1]| | |] eqn:Esch; simpl in Hg; try discriminate.
    destruct (ri_go r st1) as [rest'| | |] eqn:Er; simpl in Hg; try discriminate. inversion Hg; subst. clear Hg.
    simpl in Hs. pose proof Esch as Esch2. rewrite ri_schema_eq in Esch2.
    destruct (ri_loop1 _ _ st) as [[objs1 st0]| | |] eqn:E1; simpl in Esch2, Hs; try discriminate.
    assert (st1 = st0) as Est by (unfold ri_finish in Esch2; injection Esch2 as _ Hx; symmetry; exact Hx). subst st0.
    pose proof (ri_states_le _ _ _ Hs) as Hle.
    apply in_objects_of in Ho'. destruct Ho' as [s0 [k [[<-|Hs0] Hko]]].
    + destruct (ri_schema_objects _ _ _ _ Esch) as [_ Hobj].
      { intros fs HF. eapply fields_avoid_le; [exact Hle|]. eapply Hsafe; [left; reflexivity|exact HF]. }
      destruct (Hobj k o' Hko) as [o [Ho Hr]]. exists o. split; [|assumption].
      unfold ri_origs in Ho. apply in_map_iff in Ho. destruct Ho as [[k0 o0] [E Hin]]. simpl in E. subst o0.
      apply in_objects_of. exists s, k0. split; [left; reflexivity|assumption].
    + destruct (IH st1 rest' final Er Hs (fun s1 fs H1 => Hsafe s1 fs (or_intror H1)) o') as [o [Ho Hr]].
      { apply in_objects_of. exists s0, k. split; assumption. }
      exists o. split; [|assumption]. apply in_objects_of in Ho. destruct Ho as [s1 [k1 [Hs1 Hk1]]].
      apply in_objects_of. exists s1, k1. split; [right; assumption|assumption].
Qed.

Theorem remove_intersections_srel ss out :
  ri_safe ss = true -> remove_intersections ss = Ok out ->
  forall o', In o' (objects_of out) -> exists o, In o (objects_of ss) /\ srel (o_type o) (o_type o').
Proof.
  intros Hsafe H. rewrite remove_intersections_eq in H. destruct (ri_go ss ([], [])) as [r| | |] eqn:Eg; simpl in H; try discriminate.
  inversion H; subst. clear H. unfold ri_safe in Hsafe.
  destruct (ri_states ss ([], [])) as [final| | |] eqn:Es.
  - eapply ri_go_objects; [exact Eg|exact Es|].
    intros s fs Hs [o [a [dh [Ho Et]]]]. rewrite forallb_forall in Hsafe.
    unfold ri_origs in Ho. apply in_map_iff in Ho. destruct Ho as [[k0 o0] [E Hin]]. simpl in E. subst o0.
    assert (In o (objects_of ss)) as Hx by (apply in_objects_of; exists s, k0; split; assumption).
    specialize (Hsafe o Hx). rewrite Et in Hsafe. exact Hsafe.
  - (* the states are those of the pass itself: it cannot succeed where they fail *)
    exfalso. clear Hsafe. revert Eg Es. generalize (@nil (string * object), @nil (string * object)) as st. generalize out as out0.
    induction ss as [|s rest IH]; intros out0 st Eg Es; simpl in *; [discriminate|].
    destruct (ri_schema st s) as [[s' st1]| | |] eqn:Esch; simpl in Eg; try discriminate.
    rewrite ri_schema_eq in Esch. destruct (ri_loop1 _ _ st) as [[objs1 st0]| | |]; simpl in Esch, Es; try discriminate.
    assert (st1 = st0) as Est by (unfold ri_finish in Esch; injection Esch as _ Hx; symmetry; exact Hx). subst st0.
    destruct (ri_go rest st1) as [rest'| | |] eqn:Er; simpl in Eg; try discriminate. eapply IH; eassumption.
  - exfalso. clear Hsafe. revert Eg Es. generalize (@nil (string * object), @nil (string * object)) as st. generalize out as out0.
    induction ss as [|s rest IH]; intros out0 st Eg Es; simpl in *; [discriminate|].
    destruct (ri_schema st s) as [[s' st1]| | |] eqn:Esch; simpl in Eg; try discriminate.
    rewrite ri_schema_eq in Esch. destruct (ri_loop1 _ _ st) as [[objs1 st0]| | |]; simpl in Esch, Es; try discriminate.
    assert (st1 = st0) as Est by (unfold ri_finish in Esch; injection Esch as _ Hx; symmetry; exact Hx). subst st0.
    destruct (ri_go rest st1) as [rest'| | |] eqn:Er; simpl in Eg; try discriminate. eapply IH; eassumption.
  - exfalso. clear Hsafe. revert Eg Es. generalize (@nil (string * object), @nil (string * object)) as st. generalize out as out0.
    induction ss as [|s rest IH]; intros out0 st Eg Es; simpl in *; [discriminate|].
    destruct (ri_schema st s) as [[s' st1]| | |] eqn:Esch; simpl in Eg; try discriminate.
    rewrite ri_schema_eq in Esch. destruct (ri_loop1 _ _ st) as [[objs1 st0]| | |]; simpl in Esch, Es; try discriminate.
    assert (st1 = st0) as Est by (unfold ri_finish in Esch; injection Esch as _ Hx; symmetry; exact Hx). subst st0.
    destruct (ri_go rest st1) as [rest'| | |] eqn:Er; simpl in Eg; try discriminate. eapply IH; eassumption.
Qed.

(* every NF predicate of the Java context survives RemoveIntersections under ri_safe *)
Lemma nf_java_nil ss :
  nf_violations "java" ss = [] <->
  has_union ss = false /\ has_anonymous_enum ss = false /\ has_anonymous_struct ss = false /\
  has_optional_not_nullable ss = false /\ has_t_or_null ss = false.
Proof.
  unfold nf_violations. simpl.
  destruct (has_union ss), (has_anonymous_enum ss), (has_anonymous_struct ss), (has_optional_not_nullable ss), (has_t_or_null ss);
    simpl; split; intros H; try discriminate; try reflexivity; try (repeat split; reflexivity);
    try (destruct H as [H1 [H2 [H3 [H4 H5]]]]; discriminate).
Qed.

Theorem remove_intersections_keeps_nf ss out :
  ri_safe ss = true -> remove_intersections ss = Ok out -> nf_violations "java" ss = [] -> nf_violations "java" out = [].
Proof.
  intros Hsafe H Hnf. apply nf_java_nil in Hnf. destruct Hnf as [HU [HE [HS [HO _]]]].
  pose proof (remove_intersections_srel _ _ Hsafe H) as Hrel.
  assert (has_union out = false) as HU'.
  { rewrite has_union_eq. apply existsb_false_iff. intros o' Ho'. destruct (Hrel o' Ho') as [o [Ho Hr]].
    eapply srel_union; [exact Hr|]. rewrite has_union_eq in HU. exact (proj1 (existsb_false_iff _ _) HU o Ho). }
  apply nf_java_nil. split; [exact HU'|split; [|split; [|split; [|apply no_union_no_tnull; exact HU']]]].
  - rewrite has_anonymous_enum_eq in *. apply existsb_false_iff. intros o' Ho'. destruct (Hrel o' Ho') as [o [Ho Hr]].
    eapply srel_enum_below; [exact Hr|]. exact (proj1 (existsb_false_iff _ _) HE o Ho).
  - rewrite has_anonymous_struct_eq in *. apply existsb_false_iff. intros o' Ho'. destruct (Hrel o' Ho') as [o [Ho Hr]].
    eapply srel_struct_below; [exact Hr|]. exact (proj1 (existsb_false_iff _ _) HS o Ho).
  - rewrite has_optional_not_nullable_eq in *. apply existsb_false_iff. intros o' Ho'. destruct (Hrel o' Ho') as [o [Ho Hr]].
    eapply srel_optnn; [exact Hr|]. exact (proj1 (existsb_false_iff _ _) HO o Ho).
Qed.

(* =====================================================================================
   THE JAVA CHAIN, complete
   ===================================================================================== *)
Definition tame_java_full (ss : schemas) : bool :=
  tame_java ss && match process (removelast chain_java) ss with Ok mid => ri_safe mid | _ => true end.

Lemma process_app : forall a b ss0, process (a ++ b) ss0 = do m <- process a ss0 ; process b m.
Proof. induction a as [|p r IH]; intros b ss0; [reflexivity|]. simpl. destruct (run_pass p ss0); try reflexivity. simpl. apply IH. Qed.

Theorem java_chain_nf ss out :
  tame_java_full ss = true -> process chain_java ss = Ok out -> nf_violations "java" out = [].
Proof.
  intros Ht H. unfold tame_java_full in Ht. apply andb_true_iff in Ht. destruct Ht as [Hcore Hri].
  assert (chain_java = removelast chain_java ++ [PRemoveIntersections]) as Esplit by reflexivity.
  rewrite Esplit, process_app in H.
  destruct (process (removelast chain_java) ss) as [mid| | |] eqn:Emid; simpl in H; try discriminate.
  destruct (remove_intersections mid) as [out'| | |] eqn:Er; simpl in H; try discriminate. inversion H; subst.
  eapply remove_intersections_keeps_nf; [exact Hri|exact Er|]. eapply java_chain_core_nf; eassumption.
Qed.

(* ---------- non-vacuity and failing cases ---------- *)
Local Open Scope string_scope.
(* an alias of a struct that an optional field refers to: RemoveIntersections rebuilds the field *)
Definition w_alias_referred : schemas :=
  [mkSchema "p" wm0 "" ty_zero
    [("S", mkObject "S" [] (TStruct A0 [] [mkField "x" [] (xSc KString) true]) "p" "S");
     ("Alias", mkObject "Alias" [] (TRef A0 "p" "S") "p" "Alias");
     ("Obj", mkObject "Obj" [] (TStruct A0 [] [mkField "f" [] (TRef A0 "p" "S") false]) "p" "Obj")]].
(* the same alias, only referred to below an array: the pass collapses it without touching a field *)
Definition w_alias_unreferred : schemas :=
  [mkSchema "p" wm0 "" ty_zero
    [("S", mkObject "S" [] (TStruct A0 [] [mkField "x" [] (xSc KString) false]) "p" "S");
     ("Alias", mkObject "Alias" [] (TRef A0 "p" "S") "p" "Alias");
     ("Obj", mkObject "Obj" [] (TStruct A0 [] [mkField "f" [] (TArray A0 (TRef A0 "p" "Alias")) false;
                                               mkField "u" [] (xU [xSc KString; xSc KInt64]) false]) "p" "Obj")]].
Example java_chain_nf_nonvacuous :
  (tame_java_full w_tame = true /\ exists out, process chain_java w_tame = Ok out /\ List.length (objects_of out) = 11 /\ nf_violations "java" out = []) /\
  (tame_java_full w_alias_unreferred = true /\ exists out, process chain_java w_alias_unreferred = Ok out /\
     map o_name (objects_of out) = ["Alias"; "Obj"; "StringOrInt64"] /\ nf_violations "java" out = []) /\
  (tame_java w_alias_referred = true /\ tame_java_full w_alias_referred = false /\
   exists out, process chain_java w_alias_referred = Ok out /\ In "optional-field-not-nullable" (nf_violations "java" out)).
Proof.
  split; [split; [vm_compute; reflexivity|eexists; split; [vm_compute; reflexivity|split; vm_compute; reflexivity]]|].
  split; [split; [vm_compute; reflexivity|eexists; split; [vm_compute; reflexivity|split; vm_compute; reflexivity]]|].
  split; [vm_compute; reflexivity|]. split; [vm_compute; reflexivity|]. eexists. split; [vm_compute; reflexivity|vm_compute; tauto].
Qed.

(* an optional field referring to an alias of a scalar: the inlined copy is not nullable *)
Definition w_inlined_reference : schemas :=
  [mkSchema "p" wm0 "" ty_zero
    [("Alias", mkObject "Alias" [] (xSc KString) "p" "Alias");
     ("Obj", mkObject "Obj" [] (TStruct A0 [] [mkField "f" [] (TRef A0 "p" "Alias") false]) "p" "Obj")]].
Example php_chain_nf_nonvacuous :
  (tame_php w_tame = true /\ nf_violations "php" w_tame = ["anonymous-enum"; "anonymous-struct"; "optional-field-not-nullable"; "T-or-null-union"] /\
   exists out, process chain_php w_tame = Ok out /\ nf_violations "php" out = []) /\
  (tame_php_core w_inlined_reference = true /\ tame_php w_inlined_reference = false /\
   exists out, process chain_php w_inlined_reference = Ok out /\ In "optional-field-not-nullable" (nf_violations "php" out)).
Proof.
  split; [split; [vm_compute; reflexivity|split; [vm_compute; reflexivity|eexists; split; vm_compute; reflexivity]]|].
  split; [vm_compute; reflexivity|]. split; [vm_compute; reflexivity|]. eexists. split; [vm_compute; reflexivity|vm_compute; tauto].
Qed.
