(* C08 — proofs about the model of the generated UnmarshalJSONStrict (coq/Model/GoSemStrict.v)
   against the specification `strict_ok` (coq/Model/GoSemSpec08.v). *)
From Coq Require Import List String ZArith Bool Ascii Arith Lia.
From Cog Require Import Model.GoSem Model.GoSemSpec08 Model.GoSemSpec08F Model.GoSemSpec01 Proofs.GoSemEqualsProofs
  Proofs.GoSemC08Val Proofs.GoSemC08Unf.
Import ListNotations.
Local Open Scope list_scope.
Local Open Scope string_scope.

(* ====================================================================== *)
(* Numbers                                                                *)
(* ====================================================================== *)
Lemma strip_zeros_spec : forall fuel m e a b,
  strip_zeros fuel m e = (a, b) -> (e <= b)%Z /\ (a * 10 ^ (b - e) = m)%Z.
Proof.
  induction fuel as [|f IH]; intros m e a b H; cbn [strip_zeros] in H.
  - inversion H; subst. split; [lia|]. rewrite Z.sub_diag. rewrite Z.pow_0_r. lia.
  - destruct ((m mod 10 =? 0)%Z && negb (m =? 0)%Z)%bool eqn:C.
    + apply andb_true_iff in C. destruct C as [C _]. apply Z.eqb_eq in C.
      destruct (IH _ _ _ _ H) as [L E]. split; [lia|].
      replace (b - e)%Z with (Z.succ (b - (e + 1)))%Z by lia.
      rewrite Z.pow_succ_r by lia.
      pose proof (Z.div_mod m 10 ltac:(lia)) as D. rewrite C in D.
      transitivity (10 * (a * 10 ^ (b - (e + 1))))%Z; [ring|]. rewrite E. lia.
    + inversion H; subst. split; [lia|]. rewrite Z.sub_diag. rewrite Z.pow_0_r. lia.
Qed.

Lemma num_norm_spec m a b : num_norm m 0 = (a, b) -> (0 <= b)%Z /\ (a * 10 ^ b = m)%Z.
Proof.
  unfold num_norm. destruct (m =? 0)%Z eqn:Z0; intros H.
  - inversion H; subst. apply Z.eqb_eq in Z0. subst. split; [lia|reflexivity].
  - apply strip_zeros_spec in H. rewrite Z.sub_0_r in H. exact H.
Qed.

(* ====================================================================== *)
(* Scalars                                                                *)
(* ====================================================================== *)
Definition dec_ok (r : dres) : bool := match r with DSet _ | DKeep => true | _ => false end.

Lemma fits_int t k lo hi m : int_range k = Some (lo, hi) -> (lo <= m)%Z -> (m <= hi)%Z ->
  json_fits_scalar t k (JNum m 0) = true.
Proof.
  intros R L H.
  assert (X : json_fits_scalar t k (JNum m 0) =
              let '(a, b) := num_norm m 0 in ((0 <=? b) && (lo <=? a * 10 ^ b) && (a * 10 ^ b <=? hi))%Z%bool).
  { destruct k; try discriminate R; unfold json_fits_scalar; rewrite R; reflexivity. }
  rewrite X. destruct (num_norm m 0) as [a b] eqn:NN. apply num_norm_spec in NN. destruct NN as [B E].
  rewrite E. apply andb_true_iff; split; [apply andb_true_iff; split|]; apply Z.leb_le; assumption.
Qed.

Lemma decode_int t k lo hi m e : int_range k = Some (lo, hi) ->
  decode_scalar t k (JNum m e) =
  if (num_is_int_literal m e && Z.leb lo m && Z.leb m hi)%bool then DSet (GInt m) else DErr.
Proof. intros R. destruct k; try discriminate R; unfold decode_scalar; rewrite R; reflexivity. Qed.

Lemma int_kind_nonnum t k lo hi j : int_range k = Some (lo, hi) -> (forall m e, j <> JNum m e) ->
  decode_scalar t k j = DErr /\ json_fits_scalar t k j = false.
Proof.
  intros R N. destruct k; try discriminate R; destruct j; try (split; reflexivity); exfalso; eapply N; reflexivity.
Qed.

Lemma fits_of_decode t k j v : decode_scalar t k j = DSet v -> json_fits_scalar t k j = true.
Proof.
  intros H. destruct (int_range k) as [[lo hi]|] eqn:R.
  - destruct j as [| |m e| | |].
    1,2,4,5,6: (match type of H with decode_scalar _ _ ?j = _ =>
       destruct (int_kind_nonnum t k lo hi j R) as [X _]; [intros ? ?; discriminate|rewrite X in H; discriminate H] end).
    rewrite (decode_int t k lo hi m e R) in H.
    destruct (num_is_int_literal m e && Z.leb lo m && Z.leb m hi)%bool eqn:C; [|discriminate H].
    apply andb_true_iff in C. destruct C as [C C3]. apply andb_true_iff in C. destruct C as [C1 C2].
    apply Z.eqb_eq in C1. subst e. apply Z.leb_le in C2, C3. eapply fits_int; eauto.
  - destruct k; try discriminate R; destruct j; simpl in H; try discriminate H; reflexivity.
Qed.

Lemma decode_of_fits t k j : json_fits_scalar t k j = true -> scalar_safe t k j = true ->
  exists v, decode_scalar t k j = DSet v.
Proof.
  intros F S. destruct (int_range k) as [[lo hi]|] eqn:R.
  - destruct j as [| |m e| | |].
    1,2,4,5,6: (match type of F with json_fits_scalar _ _ ?j = _ =>
       destruct (int_kind_nonnum t k lo hi j R) as [_ X]; [intros ? ?; discriminate|rewrite X in F; discriminate F] end).
    assert (E0 : e = 0%Z).
    { destruct k; try discriminate R; simpl in S; apply Z.eqb_eq in S; exact S. }
    subst e. rewrite (decode_int t k lo hi m 0 R).
    assert (X : json_fits_scalar t k (JNum m 0) =
              let '(a, b) := num_norm m 0 in ((0 <=? b) && (lo <=? a * 10 ^ b) && (a * 10 ^ b <=? hi))%Z%bool).
    { destruct k; try discriminate R; unfold json_fits_scalar; rewrite R; reflexivity. }
    rewrite X in F. destruct (num_norm m 0) as [a b] eqn:NN. apply num_norm_spec in NN. destruct NN as [B E].
    rewrite E in F. apply andb_true_iff in F. destruct F as [F F3]. apply andb_true_iff in F. destruct F as [_ F2].
    unfold num_is_int_literal. rewrite Z.eqb_refl, F2, F3. simpl. eauto.
  - destruct k; try discriminate R; destruct j; simpl in F; try discriminate F; simpl in S; simpl;
      repeat match goal with
      | |- exists v, (if is_datetime ?t then _ else _) = _ => destruct (is_datetime t)
      | |- exists v, match parse_time ?s with _ => _ end = _ => destruct (parse_time s); try discriminate S
      | S : (let '(a, _) := num_norm ?m ?e in _) = true |- _ => destruct (num_norm m e); rewrite S
      | |- exists v, DSet _ = DSet v => eexists; reflexivity
      end.
Qed.

Lemma decode_scalar_nokeep t k j : decode_scalar t k j <> DKeep.
Proof.
  destruct (int_range k) as [[lo hi]|] eqn:R.
  - destruct j as [| |m e| | |].
    1,2,4,5,6: (match goal with |- decode_scalar _ _ ?j <> _ =>
       destruct (int_kind_nonnum t k lo hi j R) as [X _]; [intros ? ?; discriminate|rewrite X; discriminate] end).
    rewrite (decode_int t k lo hi m e R). destruct (_ && _ && _)%bool; discriminate.
  - destruct k; try discriminate R; destruct j; simpl; try discriminate.
    + destruct (is_datetime t); [|discriminate]. destruct (parse_time s); discriminate.
    + destruct (num_norm m e). destruct (_ <? _)%Z; discriminate.
    + destruct (num_norm m e). destruct (_ <? _)%Z; discriminate.
Qed.

(* ====================================================================== *)
(* first_bad / seq_results                                                *)
(* ====================================================================== *)
Lemma first_bad_some rs b : first_bad rs = Some b -> dec_ok b = false.
Proof.
  revert b. induction rs as [|r rs IH]; simpl; intros b H; [discriminate|].
  destruct r; auto.
  - destruct (first_bad rs) as [[| | |w]|]; inversion H; reflexivity.
  - inversion H; reflexivity.
Qed.
Lemma first_bad_none rs : first_bad rs = None -> Forall (fun r => dec_ok r = true) rs.
Proof.
  induction rs as [|r rs IH]; simpl; intros H; [constructor|].
  destruct r; try discriminate H; try (constructor; [reflexivity|auto]).
  destruct (first_bad rs) as [[| | |w]|]; discriminate H.
Qed.
Lemma first_bad_noerr rs : (forall r, In r rs -> r <> DErr) -> first_bad rs <> Some DErr.
Proof.
  induction rs as [|r rs IH]; simpl; intros H; [discriminate|].
  destruct r; try (apply IH; intros r' Hr; apply H; right; exact Hr).
  - exfalso. apply (H DErr); auto.
  - discriminate.
Qed.

Definition is_sok (r : sres) : bool := match r with SOk _ => true | _ => false end.
Definition is_sunm (r : sres) : bool := match r with SUnm _ => true | _ => false end.
Definition sok_or_unm (r : sres) : Prop := (exists v, r = SOk v) \/ (exists w, r = SUnm w).

Lemma seq_results_ok : forall rs acc err vals,
  seq_results rs acc err = inr (vals, false) -> err = false /\ Forall (fun r => is_sok r = true) rs.
Proof.
  induction rs as [|r rs IH]; simpl; intros acc err vals H.
  - inversion H; auto.
  - destruct r; try discriminate H.
    + destruct (IH _ _ _ H) as [E F]. split; auto.
    + destruct (IH _ _ _ H) as [E F]. discriminate E.
Qed.
Lemma seq_results_inl : forall rs acc err s, seq_results rs acc err = inl s -> is_sok s = false.
Proof.
  induction rs as [|r rs IH]; simpl; intros acc err s H; [discriminate|].
  destruct r; try (inversion H; reflexivity); eapply IH; eauto.
Qed.
Lemma seq_results_total : forall rs acc err, Forall sok_or_unm rs ->
  (exists vals, seq_results rs acc err = inr (vals, err)) \/ (exists w, seq_results rs acc err = inl (SUnm w)).
Proof.
  induction rs as [|r rs IH]; simpl; intros acc err H.
  - left; eauto.
  - inversion H as [|? ? [[v ->]|[w ->]] Hr]; subst.
    + apply IH; assumption.
    + right; eauto.
Qed.

(* ====================================================================== *)
(* strict_members                                                         *)
(* ====================================================================== *)
Section Members.
  Variable sv : json -> ty -> sres.
  Variable zr : ty -> gval.
  Variable fs : list field.

  Definition sm_entry (kv : string * json) : option (option sres) :=
    match find (fun f => seqb (f_name f) (fst kv)) fs with
    | Some f => Some (match snd kv with JNull => None | _ => Some (sv (snd kv) (f_type f)) end)
    | None => None
    end.
  Definition sm_rs (ms : list (string * json)) := map (fun kv => (fst kv, sm_entry kv)) ms.
  Definition sm_last (rs : list (string * option (option sres))) (n : string) :=
    fold_left (fun acc r => if seqb (fst r) n then Some (snd r) else acc) rs None.
  Definition sm_field (ms : list (string * json)) (f : field) : sres :=
    let t := f_type f in
    match sm_last (sm_rs ms) (f_name f) with
    | Some (Some (Some r)) => r
    | Some (Some None) => if (f_required f && negb (t_nullable t))%bool then SErrAcc (zr t) else SOk (zr t)
    | _ => if (f_required f && negb (has_default t))%bool then SErrAcc (zr t) else SOk (zr t)
    end.
  Definition sm_unknown (ms : list (string * json)) : bool :=
    existsb (fun r : string * option (option sres) => match snd r with None => true | Some _ => false end) (sm_rs ms).

  Lemma strict_members_unfold ms : strict_members sv zr fs ms =
    match seq_results (map (sm_field ms) fs) [] false with
    | inl stop => stop
    | inr (vals, err) =>
        if (err || sm_unknown ms)%bool then SAbort
        else SOk (GStruct (combine (map (fun f => f_name f) fs) vals))
    end.
  Proof. reflexivity. Qed.

  Lemma fold_last_absent {V} (rs : list (string * V)) n init :
    str_in n (map fst rs) = false ->
    fold_left (fun acc r => if seqb (fst r) n then Some (snd r) else acc) rs init = init.
  Proof.
    revert init. induction rs as [|r rs IH]; simpl; intros init H; [reflexivity|].
    apply orb_false_iff in H. destruct H as [H1 H2]. unfold seqb. rewrite H1. apply IH. exact H2.
  Qed.
  Lemma fold_last_nodup {V} (rs : list (string * V)) n x init :
    str_nodup (map fst rs) = true -> In (n, x) rs ->
    fold_left (fun acc r => if seqb (fst r) n then Some (snd r) else acc) rs init = Some x.
  Proof.
    revert init. induction rs as [|r rs IH]; simpl; intros init N H; [contradiction|].
    apply andb_true_iff in N. destruct N as [N1 N2]. apply negb_true_iff in N1. destruct H as [H|H].
    - subst r. simpl. rewrite seqb_refl. apply fold_last_absent. exact N1.
    - apply IH; assumption.
  Qed.

  Lemma sm_rs_keys ms : map fst (sm_rs ms) = map fst ms.
  Proof. unfold sm_rs. rewrite map_map. reflexivity. Qed.

  Lemma sm_last_present ms kv : str_nodup (map fst ms) = true -> In kv ms ->
    sm_last (sm_rs ms) (fst kv) = Some (sm_entry kv).
  Proof.
    intros N H. unfold sm_last. apply fold_last_nodup.
    - rewrite sm_rs_keys. exact N.
    - unfold sm_rs. apply (in_map (fun kv => (fst kv, sm_entry kv))). exact H.
  Qed.
  Lemma sm_last_absent ms n : str_in n (map fst ms) = false -> sm_last (sm_rs ms) n = None.
  Proof. intros H. unfold sm_last. apply fold_last_absent. rewrite sm_rs_keys. exact H. Qed.

  Lemma str_in_witness (n : string) (ms : list (string * json)) :
    str_in n (map fst ms) = true -> exists kv, In kv ms /\ fst kv = n.
  Proof.
    induction ms as [|kv ms IH]; simpl; intros H; [discriminate|].
    apply orb_true_iff in H. destruct H as [H|H].
    - apply String.eqb_eq in H. exists kv; auto.
    - destruct (IH H) as [kv' [I E]]. exists kv'; auto.
  Qed.

  Lemma sm_unknown_false ms : sm_unknown ms = false ->
    forall kv, In kv ms -> exists f, find (fun f => seqb (f_name f) (fst kv)) fs = Some f.
  Proof.
    unfold sm_unknown, sm_rs. intros H kv I.
    destruct (find (fun f => seqb (f_name f) (fst kv)) fs) as [f|] eqn:F; [eauto|].
    exfalso. assert (X : existsb (fun r : string * option (option sres) => match snd r with None => true | Some _ => false end)
                                  (map (fun kv => (fst kv, sm_entry kv)) ms) = true).
    { apply existsb_exists. exists (fst kv, sm_entry kv). split.
      - apply (in_map (fun kv => (fst kv, sm_entry kv))). exact I.
      - simpl. unfold sm_entry. rewrite F. reflexivity. }
    rewrite X in H. discriminate.
  Qed.
  Lemma sm_unknown_intro ms :
    (forall kv, In kv ms -> exists f, find (fun f => seqb (f_name f) (fst kv)) fs = Some f) -> sm_unknown ms = false.
  Proof.
    intros H. unfold sm_unknown, sm_rs.
    destruct (existsb _ _) eqn:X; [|reflexivity]. exfalso.
    apply existsb_exists in X. destruct X as [r [I R]]. apply in_map_iff in I. destruct I as [kv [<- I]].
    destruct (H kv I) as [f F]. simpl in R. unfold sm_entry in R. rewrite F in R. discriminate.
  Qed.

  (* soundness direction *)
  Lemma strict_members_ok ms v :
    strict_members sv zr fs ms = SOk v -> str_nodup (map fst ms) = true ->
    (forall kv, In kv ms -> is_jnull (snd kv) = false) ->
    (forall kv, In kv ms -> exists f, find (fun f => seqb (f_name f) (fst kv)) fs = Some f /\
                                      is_sok (sv (snd kv) (f_type f)) = true) /\
    forallb (so_field ms) fs = true.
  Proof.
    rewrite strict_members_unfold. intros H N NN.
    destruct (seq_results (map (sm_field ms) fs) [] false) as [stop|[vals err]] eqn:SR.
    { subst stop. apply seq_results_inl in SR. discriminate SR. }
    destruct err; [discriminate H|]. simpl in H.
    destruct (sm_unknown ms) eqn:U; [discriminate H|].
    destruct (seq_results_ok _ _ _ _ SR) as [_ F]. rewrite Forall_forall in F.
    split.
    - intros kv I. destruct (sm_unknown_false _ U kv I) as [f Ff]. exists f. split; [exact Ff|].
      pose proof (find_some _ _ Ff) as [If En]. apply seqb_eq in En.
      specialize (F (sm_field ms f) (in_map _ _ _ If)). unfold sm_field in F.
      rewrite En, (sm_last_present _ _ N I) in F. unfold sm_entry in F. rewrite Ff in F.
      specialize (NN kv I). destruct (snd kv); try discriminate NN; exact F.
    - apply forallb_forall. intros f If. unfold so_field.
      destruct (str_in (f_name f) (map fst ms)) eqn:SI; [apply orb_true_r|]. rewrite orb_false_r.
      specialize (F (sm_field ms f) (in_map _ _ _ If)). unfold sm_field in F.
      rewrite (sm_last_absent _ _ SI) in F.
      destruct (f_required f); [|reflexivity]. simpl in *.
      destruct (has_default (f_type f)); [reflexivity|]. discriminate F.
  Qed.

  (* completeness direction *)
  Lemma strict_members_total ms :
    str_nodup (map fst ms) = true ->
    (forall kv, In kv ms -> is_jnull (snd kv) = false) ->
    (forall kv, In kv ms -> exists f, find (fun f => seqb (f_name f) (fst kv)) fs = Some f /\
                                      sok_or_unm (sv (snd kv) (f_type f))) ->
    forallb (so_field ms) fs = true ->
    sok_or_unm (strict_members sv zr fs ms).
  Proof.
    intros N NN M Ffs. rewrite strict_members_unfold.
    assert (U : sm_unknown ms = false).
    { apply sm_unknown_intro. intros kv I. destruct (M kv I) as [f [Ff _]]. eauto. }
    assert (PF : Forall sok_or_unm (map (sm_field ms) fs)).
    { apply Forall_forall. intros r Ir. apply in_map_iff in Ir. destruct Ir as [f [<- If]].
      unfold sm_field. destruct (str_in (f_name f) (map fst ms)) eqn:SI.
      - destruct (str_in_witness _ _ SI) as [kv [I E]]. rewrite <- E, (sm_last_present _ _ N I).
        destruct (M kv I) as [f1 [Ff1 R]]. unfold sm_entry. rewrite Ff1.
        specialize (NN kv I). destruct (snd kv); try discriminate NN; exact R.
      - rewrite (sm_last_absent _ _ SI). rewrite forallb_forall in Ffs. specialize (Ffs f If).
        unfold so_field in Ffs. rewrite SI, orb_false_r in Ffs.
        assert (X : (f_required f && negb (has_default (f_type f)))%bool = false).
        { destruct (f_required f); [|reflexivity]. simpl in *. rewrite Ffs. reflexivity. }
        rewrite X. left; eauto. }
    destruct (seq_results_total _ [] false PF) as [[vals E]|[w E]]; rewrite E.
    - rewrite U. simpl. left; eauto.
    - right; eauto.
  Qed.
End Members.

(* ====================================================================== *)
(* Struct-free positions (arrays / maps of scalars): the lenient decoder  *)
(* ====================================================================== *)
Fixpoint jsfree (ctx : schemas) (j : json) (t : ty) {struct j} : bool :=
  match payload_type ctx t with
  | PTy (TScalar _ _ _ _) | PTy (TEnum _ _) => true
  | PTy (TArray _ et) => match j with JArr l => forallb (fun x => jsfree ctx x et) l | _ => true end
  | PTy (TMap _ _ vt) => match j with JObj ms => forallb (fun kv => jsfree ctx (snd kv) vt) ms | _ => true end
  | _ => false
  end.
Lemma jsfree_unfold ctx j t : jsfree ctx j t =
  match payload_type ctx t with
  | PTy (TScalar _ _ _ _) | PTy (TEnum _ _) => true
  | PTy (TArray _ et) => match j with JArr l => forallb (fun x => jsfree ctx x et) l | _ => true end
  | PTy (TMap _ _ vt) => match j with JObj ms => forallb (fun kv => jsfree ctx (snd kv) vt) ms | _ => true end
  | _ => false
  end.
Proof. destruct j; reflexivity. Qed.

Lemma payload_not_ref ctx t pt : payload_type ctx t = PTy pt -> is_ref pt = false.
Proof.
  intros P. destruct (is_reflike t) eqn:R.
  - destruct (payload_ref_obj _ _ _ R P) as [o [_ [_ [Z _]]]]. exact Z.
  - rewrite (payload_self _ _ R) in P. inversion P; subst. destruct pt; try reflexivity; discriminate.
Qed.

Lemma resolve_payload ctx t rt : ty_supported ctx t = true -> resolve ctx t = Some rt ->
  (is_scalar rt || is_enum rt || is_array rt || is_map rt)%bool = true -> payload_type ctx t = PTy rt.
Proof.
  intros S R K. destruct t;
    try (unfold resolve in R; cbn [resolve_fuel] in R; inversion R; subst; try discriminate K; reflexivity).
  revert S R. unfold ty_supported, payload_type, resolve. cbn [resolve_fuel].
  destruct (locate_object ctx pkg name) as [o|].
  - intros S R. rewrite R in *. destruct rt; try discriminate K;
      (destruct (t_nullable _); [discriminate S|]; destruct (is_concrete_scalar _); [discriminate S|]; reflexivity).
  - intros _ R. inversion R; subst. discriminate K.
Qed.

Section Flat.
  Variable ctx : schemas.
  Hypothesis Hc : ctx_supported ctx = true.

  Lemma aos_jsfree : forall f t pt, ty_supported ctx t = true -> payload_type ctx t = PTy pt ->
    array_of_scalars ctx f pt = true -> forall j, jsfree ctx j t = true.
  Proof.
    induction f as [|f IH]; intros t pt S P A j; [discriminate A|].
    cbn [array_of_scalars] in A.
    unfold resolve at 1 in A. rewrite (resolve_fuel_nonref _ _ _ (payload_not_ref _ _ _ P)) in A.
    destruct pt as [| a et | | | | | | | | |]; try discriminate A.
    pose proof (payload_supported _ _ _ Hc S P) as Se. simpl in Se. apply andb_true_iff in Se. destruct Se as [_ Se].
    rewrite jsfree_unfold, P. destruct j; try reflexivity.
    apply forallb_forall. intros x _.
    destruct (resolve ctx et) as [rt|] eqn:R; [|discriminate A].
    destruct rt; try discriminate A.
    - eapply IH; eauto. eapply resolve_payload; eauto.
    - rewrite jsfree_unfold, (resolve_payload _ _ _ Se R eq_refl). reflexivity.
    - rewrite jsfree_unfold, (resolve_payload _ _ _ Se R eq_refl). reflexivity.
  Qed.

  Lemma mos_jsfree : forall f t pt, ty_supported ctx t = true -> payload_type ctx t = PTy pt ->
    map_of_scalars ctx f pt = true -> forall j, jsfree ctx j t = true.
  Proof.
    induction f as [|f IH]; intros t pt S P A j; [discriminate A|].
    cbn [map_of_scalars] in A.
    unfold resolve at 1 in A. rewrite (resolve_fuel_nonref _ _ _ (payload_not_ref _ _ _ P)) in A.
    destruct pt as [| | | a it vt | | | | | | |]; try discriminate A.
    pose proof (payload_supported _ _ _ Hc S P) as Se. simpl in Se. apply andb_true_iff in Se. destruct Se as [_ Se].
    rewrite jsfree_unfold, P. destruct j; try reflexivity.
    apply forallb_forall. intros x _.
    destruct (resolve ctx vt) as [rt|] eqn:R; [|discriminate A].
    destruct rt; try discriminate A.
    - rewrite jsfree_unfold, (resolve_payload _ _ _ Se R eq_refl). reflexivity.
    - eapply IH; eauto. eapply resolve_payload; eauto.
    - rewrite jsfree_unfold, (resolve_payload _ _ _ Se R eq_refl). reflexivity.
  Qed.

  Lemma dec_ok_wrapd t r : dec_ok (wrapd t r) = dec_ok r.
  Proof. unfold wrapd. destruct (is_ptr t); [|reflexivity]. destruct r; reflexivity. Qed.

  Lemma leaf_ok_fits j pt : (is_scalar pt || is_enum pt)%bool = true ->
    dec_ok (dec_simple ctx j pt) = true -> so_simple ctx j pt = true.
  Proof.
    intros K D. destruct pt; try discriminate K; unfold dec_simple in D; unfold so_simple.
    - destruct (enum_base vs); try discriminate D.
      destruct (decode_scalar _ k j) eqn:E; try discriminate D.
      + eapply fits_of_decode; eauto.
      + exfalso. eapply decode_scalar_nokeep; eauto.
    - destruct (decode_scalar _ k j) eqn:E; try discriminate D.
      + eapply fits_of_decode; eauto.
      + exfalso. eapply decode_scalar_nokeep; eauto.
  Qed.

  Lemma jnull_free_not_null j : json_null_free j = true -> is_jnull j = false.
  Proof. destruct j; try reflexivity; discriminate. Qed.

  Definition d5 (j : json) : Prop :=
    forall t, json_null_free j = true -> jsfree ctx j t = true -> dec_ok (decode ctx j t) = true ->
      strict_ok ctx j t = true.

  Lemma d5_step j :
    match j with
    | JArr l => Forall d5 l
    | JObj ms => Forall (fun kv => d5 (snd kv)) ms
    | _ => True
    end -> d5 j.
  Proof.
    intros IH t NF F D.
    pose proof (jnull_free_not_null _ NF) as N.
    rewrite jsfree_unfold in F. rewrite strict_ok_unfold, N.
    destruct (payload_type ctx t) as [pt|] eqn:P; [|discriminate F].
    assert (Z : is_struct pt = false) by (destruct pt; try discriminate F; reflexivity).
    rewrite (decode_eq_simple _ _ _ _ N P Z), dec_ok_wrapd in D.
    destruct pt; try discriminate F.
    - (* array *)
      unfold dec_simple in D. unfold so_simple. destruct j; try discriminate D.
      destruct (first_bad (map (fun x => decode ctx x pt) l)) as [b|] eqn:FB.
      { rewrite (first_bad_some _ _ FB) in D. discriminate D. }
      apply first_bad_none in FB. rewrite Forall_forall in FB.
      simpl in NF. rewrite forallb_forall in NF, F. rewrite Forall_forall in IH.
      apply forallb_forall. intros x Ix. apply IH; auto. apply FB. apply (in_map (fun x => decode ctx x pt)). exact Ix.
    - apply leaf_ok_fits; [reflexivity|exact D].
    - (* map *)
      unfold dec_simple in D. unfold so_simple. destruct j; try discriminate D.
      rewrite map_map in D. cbn [snd] in D.
      destruct (first_bad (map (fun kv => decode ctx (snd kv) pt2) ms)) as [b|] eqn:FB.
      { rewrite (first_bad_some _ _ FB) in D. discriminate D. }
      apply first_bad_none in FB. rewrite Forall_forall in FB.
      simpl in NF. rewrite forallb_forall in NF, F. rewrite Forall_forall in IH.
      apply forallb_forall. intros kv Ix. apply IH; auto.
      apply FB. apply (in_map (fun kv => decode ctx (snd kv) pt2)). exact Ix.
    - apply leaf_ok_fits; [reflexivity|exact D].
  Qed.

  Lemma d5_all : forall j, d5 j.
  Proof. induction j using json_ind'; apply d5_step; auto. Qed.
End Flat.

(* ====================================================================== *)
(* Lemma 5: what the strict decoder accepts is strict_ok                  *)
(* ====================================================================== *)
Lemma is_ref_reflike t : is_ref t = true -> is_reflike t = true.
Proof. destruct t; try discriminate; reflexivity. Qed.

Lemma strict_ok_simple ctx j bt : is_jnull j = false -> is_reflike bt = false -> is_struct bt = false ->
  strict_ok ctx j bt = so_simple ctx j bt.
Proof.
  intros N R Z. rewrite strict_ok_unfold, N, (payload_self _ _ R). destruct bt; try discriminate Z; reflexivity.
Qed.

Lemma supported_fields ctx a dh fs f : ty_supported ctx (TStruct a dh fs) = true -> In f fs ->
  ty_supported ctx (f_type f) = true.
Proof. simpl. intros S I. rewrite forallb_forall in S. exact (S f I). Qed.

Section Sound.
  Variable ctx : schemas.
  Hypothesis Hc : ctx_supported ctx = true.
  Hypothesis Hu : ctx_unions_flat ctx = true.

  Definition s5 (j : json) : Prop :=
    forall src t v, ty_supported ctx t = true -> json_wf j = true -> json_null_free j = true ->
      strict_val ctx src j t = SOk v -> strict_ok ctx j t = true.

  Lemma std_ok j t v : std_res ctx j t = SOk v -> dec_ok (decode ctx j t) = true.
  Proof. unfold std_res. destruct (decode ctx j t); try discriminate; reflexivity. Qed.

  Lemma sv_union_inv j fs : forall bs v, sv_union ctx j fs bs = SOk v ->
    exists f, In f bs /\ dec_ok (decode ctx j (non_null (f_type f))) = true.
  Proof.
    induction bs as [|f bs IH]; simpl; intros v H; [discriminate|].
    destruct (decode ctx j (non_null (f_type f))) eqn:D; try discriminate H.
    - exists f. rewrite D. auto.
    - exists f. rewrite D. auto.
    - destruct (IH _ H) as [f' [I D']]. exists f'. auto.
  Qed.

  Lemma s5_members ms fs v : Forall (fun kv => s5 (snd kv)) ms ->
    forallb (fun f => ty_supported ctx (f_type f)) fs = true ->
    str_nodup (map fst ms) = true ->
    forallb (fun kv => json_wf (snd kv)) ms = true ->
    forallb (fun kv => json_null_free (snd kv)) ms = true ->
    strict_members (strict_val ctx RField) (zero ctx) fs ms = SOk v -> so_struct ctx fs ms = true.
  Proof.
    intros IH S N WF NF H. rewrite Forall_forall in IH. rewrite forallb_forall in S, WF, NF.
    assert (NN : forall kv, In kv ms -> is_jnull (snd kv) = false)
      by (intros kv I; apply jnull_free_not_null; auto).
    destruct (strict_members_ok _ _ _ _ _ H N NN) as [M Ffs].
    unfold so_struct, members_nodup. rewrite N, Ffs, andb_true_r. simpl.
    apply forallb_forall. intros kv I. destruct (M kv I) as [f [Ff K]].
    unfold so_member. rewrite Ff.
    pose proof (find_some _ _ Ff) as [If _].
    destruct (strict_val ctx RField (snd kv) (f_type f)) as [v'| | | |] eqn:E; try discriminate K.
    pose proof (IH kv I RField (f_type f) v' (S f If) (WF kv I) (NF kv I) E) as X.
    specialize (NN kv I). destruct (snd kv); try discriminate NN; exact X.
  Qed.

  (* a branch of a scalar union of an object of the context *)
  Lemma union_branch_flat o a dh fs f j : obj_in ctx o -> o_type o = TStruct a dh fs ->
    union_scalars (TStruct a dh fs) <> None -> In f fs -> json_null_free j = true ->
    dec_ok (decode ctx j (non_null (f_type f))) = true ->
    so_simple ctx j (non_null (f_type f)) = true.
  Proof.
    intros Ho T US If NF D.
    pose proof (jnull_free_not_null _ NF) as N.
    pose proof (ctx_supported_obj _ _ Hc Ho) as OS. unfold object_supported in OS. rewrite T in OS.
    apply andb_true_iff in OS. destruct OS as [OS UO]. apply andb_true_iff in OS. destruct OS as [_ S].
    pose proof (ctx_forall_obj (union_flat ctx) ctx o Hu Ho) as UF. rewrite T in UF.
    unfold union_ok in UO. unfold union_flat in UF.
    destruct (union_scalars (TStruct a dh fs)) as [d|]; [|contradiction US; reflexivity].
    destruct (union_refs (TStruct a dh fs)); [discriminate UO|].
    rewrite forallb_forall in UO, UF. specialize (UO f If). specialize (UF f If).
    pose proof (supported_fields _ _ _ _ _ S If) as Sf.
    assert (J : jsfree ctx j (non_null (f_type f)) = true /\ is_reflike (non_null (f_type f)) = false /\
                is_struct (non_null (f_type f)) = false).
    { destruct (f_type f) as [| a0 ev | | a0 ei ev | | | | a0 k0 val0 cs0 | | |] eqn:FT; try discriminate UO.
      - pose proof (aos_jsfree ctx Hc 8 (TArray a0 ev) (TArray a0 ev) Sf eq_refl UF j) as X.
        rewrite jsfree_unfold in X. rewrite jsfree_unfold. auto.
      - pose proof (mos_jsfree ctx Hc 8 (TMap a0 ei ev) (TMap a0 ei ev) Sf eq_refl UF j) as X.
        rewrite jsfree_unfold in X. rewrite jsfree_unfold. auto.
      - rewrite jsfree_unfold. auto. }
    destruct J as [J [R Z]].
    rewrite <- (strict_ok_simple _ _ _ N R Z). apply (d5_all ctx j); assumption.
  Qed.

  Lemma s5_step j :
    match j with
    | JArr l => Forall s5 l
    | JObj ms => Forall (fun kv => s5 (snd kv)) ms
    | _ => True
    end -> s5 j.
  Proof.
    intros IH src t v S WF NF H.
    pose proof (jnull_free_not_null _ NF) as N.
    destruct (payload_type ctx t) as [pt|w] eqn:P; [|rewrite (sv_eq_unm _ _ _ _ _ P) in H; discriminate H].
    pose proof (payload_supported _ _ _ Hc S P) as Sp.
    destruct pt.
    - rewrite (sv_eq_other _ _ _ _ _ P eq_refl) in H. discriminate H.
    - (* array *)
      rewrite (sv_eq_arr _ _ _ _ _ _ P) in H.
      destruct (array_of_scalars ctx 8 (TArray a pt)) eqn:A.
      + apply (d5_all ctx j); auto.
        * eapply aos_jsfree; eauto.
        * eapply std_ok; eauto.
      + rewrite strict_ok_unfold, N, P. unfold so_simple.
        assert (H' : sv_arr ctx t pt j = SOk v) by (destruct src; try discriminate H; exact H).
        clear H. unfold sv_arr in H'. destruct j; try discriminate H'; try discriminate NF.
        simpl in WF, NF. rewrite forallb_forall in WF, NF. rewrite Forall_forall in IH. simpl in Sp.
        apply andb_true_iff in Sp. destruct Sp as [_ Sp].
        destruct (is_ref t && t_nullable t)%bool.
        * destruct l; [reflexivity|]. simpl in H'. destruct (strict_val ctx RElem j pt); discriminate H'.
        * destruct (seq_results (map (fun x => strict_val ctx RElem x pt) l) [] false) as [stop|[vals err]] eqn:SR.
          { subst stop. apply seq_results_inl in SR. discriminate SR. }
          destruct err; [discriminate H'|].
          destruct (seq_results_ok _ _ _ _ SR) as [_ F]. rewrite Forall_forall in F.
          apply forallb_forall. intros x Ix.
          specialize (F _ (in_map (fun x => strict_val ctx RElem x pt) _ _ Ix)).
          destruct (strict_val ctx RElem x pt) as [v'| | | |] eqn:E; try discriminate F.
          eapply IH; eauto.
    - rewrite (sv_eq_leaf _ _ _ _ _ P eq_refl) in H.
      apply (d5_all ctx j); auto.
      + rewrite jsfree_unfold, P. reflexivity.
      + eapply std_ok; eauto.
    - (* map *)
      rewrite (sv_eq_map _ _ _ _ _ _ _ P) in H.
      destruct (map_of_scalars ctx 8 (TMap a pt1 pt2)) eqn:A.
      + apply (d5_all ctx j); auto.
        * eapply mos_jsfree; eauto.
        * eapply std_ok; eauto.
      + rewrite strict_ok_unfold, N, P. unfold so_simple.
        assert (H' : sv_map ctx t pt2 j = SOk v) by (destruct src; try discriminate H; exact H).
        clear H. unfold sv_map in H'. destruct j; try discriminate H'; try discriminate NF.
        simpl in WF, NF. apply andb_true_iff in WF. destruct WF as [_ WF].
        rewrite forallb_forall in WF, NF. rewrite Forall_forall in IH.
        simpl in Sp. apply andb_true_iff in Sp. destruct Sp as [_ Sp].
        destruct (seq_results (map (fun kv => strict_val ctx RVal (snd kv) pt2) ms) [] false) as [stop|[vals err]] eqn:SR.
        { subst stop. apply seq_results_inl in SR. discriminate SR. }
        destruct err; [discriminate H'|].
        destruct (seq_results_ok _ _ _ _ SR) as [_ F]. rewrite Forall_forall in F.
        apply forallb_forall. intros kv Ix.
        specialize (F _ (in_map (fun kv => strict_val ctx RVal (snd kv) pt2) _ _ Ix)).
        destruct (strict_val ctx RVal (snd kv) pt2) as [v'| | | |] eqn:E; try discriminate F.
        eapply (IH kv Ix); eauto.
    - (* struct *)
      rewrite (sv_eq_struct _ _ _ _ _ _ _ P) in H.
      destruct (is_ref t) eqn:IR; [|discriminate H]. simpl in H.
      destruct (sv_body ctx j (TStruct a dh fs) fs) as [v0| | | |] eqn:B; try discriminate H. clear H.
      rewrite strict_ok_unfold, N, P. unfold so_body. unfold sv_body in B.
      destruct (payload_ref_obj _ _ _ (is_ref_reflike _ IR) P) as [o [Ho [T _]]]. symmetry in T.
      destruct (union_scalars (TStruct a dh fs)) as [d|] eqn:US.
      + destruct (sv_union_inv _ _ _ _ B) as [f [If D]].
        apply existsb_exists. exists f. split; [exact If|].
        eapply union_branch_flat; eauto. rewrite US. discriminate.
      + destruct (union_refs (TStruct a dh fs)) as [d|] eqn:UR.
        * destruct j; try discriminate B.
          destruct (select_branch d (last_member (d_disc d) ms)) as [n|]; [|discriminate B].
          destruct (field_by_ref_name fs n) as [f|] eqn:FB; [|discriminate B].
          destruct (payload_type ctx (f_type f)) as [bpt|] eqn:BP; [|discriminate B].
          destruct bpt; try discriminate B. destruct dh0; [|discriminate B].
          destruct (strict_members (strict_val ctx RField) (zero ctx) fs0 ms) as [v1| | | |] eqn:SM; try discriminate B.
          simpl in WF, NF. apply andb_true_iff in WF. destruct WF as [WF1 WF2].
          pose proof (find_some _ _ FB) as [If _].
          pose proof (payload_supported _ _ _ Hc (supported_fields _ _ _ _ _ Sp If) BP) as Sb.
          eapply s5_members; eauto.
        * destruct j; try discriminate B; try discriminate NF.
          simpl in WF, NF. apply andb_true_iff in WF. destruct WF as [WF1 WF2].
          eapply s5_members; eauto.
    - rewrite (sv_eq_other _ _ _ _ _ P eq_refl) in H. discriminate H.
    - rewrite (sv_eq_other _ _ _ _ _ P eq_refl) in H. discriminate H.
    - rewrite (sv_eq_leaf _ _ _ _ _ P eq_refl) in H.
      apply (d5_all ctx j); auto.
      + rewrite jsfree_unfold, P. reflexivity.
      + eapply std_ok; eauto.
    - rewrite (sv_eq_other _ _ _ _ _ P eq_refl) in H. discriminate H.
    - rewrite (sv_eq_other _ _ _ _ _ P eq_refl) in H. discriminate H.
    - rewrite (sv_eq_other _ _ _ _ _ P eq_refl) in H. discriminate H.
  Qed.

  Lemma s5_all : forall j, s5 j.
  Proof. induction j using json_ind'; apply s5_step; auto. Qed.
End Sound.

Lemma strict_accepts_only_ok_partial_weak : forall ctx p n d v,
  ctx_supported ctx = true -> struct_object ctx p n = true ->
  json_wf d = true -> json_null_free d = true -> ctx_unions_flat ctx = true ->
  strict_object ctx p n d = GOk v -> strict_ok_object ctx p n d = true.
Proof.
  intros ctx p n d v Hc Hs WF NF Hu H. unfold strict_object in H. unfold strict_ok_object.
  destruct (strict_val ctx RField d (TRef attrs0 p n)) as [v'| | | |] eqn:E; try discriminate H.
  assert (S : ty_supported ctx (TRef attrs0 p n) = true).
  { simpl. change (match payload_type ctx (TRef attrs0 p n) with PTy _ => true | PUnm _ => false end = true).
    destruct (payload_type ctx (TRef attrs0 p n)) eqn:P; [reflexivity|].
    rewrite (sv_eq_unm _ _ _ _ _ P) in E. discriminate E. }
  pose proof (s5_all ctx Hc Hu d RField _ _ S WF NF E) as X.
  destruct d; exact X.
Qed.

(* ====================================================================== *)
(* Lemma 6: a strict_ok, roundtrip_safe document is accepted              *)
(* ====================================================================== *)
Lemma wrapd_err t r : wrapd t r = DErr -> r = DErr.
Proof. unfold wrapd. destruct (is_ptr t); [|auto]. destruct r; auto; discriminate. Qed.

Section Complete.
  Variable ctx : schemas.
  Hypothesis Hc : ctx_supported ctx = true.

  Definition s6 (j : json) : Prop :=
    forall src t, ty_supported ctx t = true -> json_null_free j = true ->
      rts ctx src j t = true -> strict_ok ctx j t = true ->
      decode ctx j t <> DErr /\ sok_or_unm (strict_val ctx src j t).

  Definition kids6 (j : json) : Prop :=
    match j with
    | JArr l => Forall s6 l
    | JObj ms => Forall (fun kv => s6 (snd kv)) ms
    | _ => True
    end.

  Lemma std_res_total j t : decode ctx j t <> DErr -> sok_or_unm (std_res ctx j t).
  Proof.
    unfold std_res. destruct (decode ctx j t); intros H; try (left; eauto; fail); try (right; eauto; fail).
    contradiction H; reflexivity.
  Qed.

  Lemma leaf6 j t0 src pt : (is_scalar pt || is_enum pt)%bool = true ->
    so_simple ctx j pt = true -> rs_simple ctx t0 j src pt = true -> exists v, dec_simple ctx j pt = DSet v.
  Proof.
    intros K F S. destruct pt; try discriminate K; unfold so_simple in F; unfold rs_simple in S; unfold dec_simple.
    - destruct (enum_base vs); try discriminate F. apply decode_of_fits; assumption.
    - apply decode_of_fits; assumption.
  Qed.

  Lemma dec_simple_nokeep j pt : dec_simple ctx j pt <> DKeep.
  Proof.
    destruct pt; unfold dec_simple; try discriminate.
    - destruct j; try discriminate.
      destruct (first_bad _) as [b|] eqn:FB; [|discriminate].
      apply first_bad_some in FB. intros ->. discriminate FB.
    - destruct (enum_base vs); try discriminate. apply decode_scalar_nokeep.
    - destruct j; try discriminate.
      destruct (first_bad _) as [b|] eqn:FB; [|discriminate].
      apply first_bad_some in FB. intros ->. discriminate FB.
    - apply decode_scalar_nokeep.
  Qed.

  Lemma simple6 j t0 src bt : kids6 j -> ty_supported ctx bt = true -> json_null_free j = true ->
    so_simple ctx j bt = true -> rs_simple ctx t0 j src bt = true -> dec_simple ctx j bt <> DErr.
  Proof.
    intros IH S NF F R.
    destruct bt; try discriminate F.
    - (* array *)
      unfold so_simple in F. unfold rs_simple in R. unfold dec_simple.
      destruct j; try discriminate F. simpl in IH, NF, S.
      apply andb_true_iff in S. destruct S as [_ S].
      apply andb_true_iff in R. destruct R as [R _].
      rewrite forallb_forall in F, R, NF. rewrite Forall_forall in IH.
      destruct (first_bad _) as [b|] eqn:FB; [|discriminate].
      intros ->. revert FB. apply first_bad_noerr. intros r Ir.
      apply in_map_iff in Ir. destruct Ir as [x [<- Ix]].
      apply (IH x Ix RElem bt); auto.
    - destruct (leaf6 j t0 src (TEnum a vs) eq_refl F R) as [v ->]. discriminate.
    - (* map *)
      unfold so_simple in F. unfold rs_simple in R. unfold dec_simple.
      destruct j; try discriminate F. simpl in IH, NF, S.
      apply andb_true_iff in S. destruct S as [_ S].
      apply andb_true_iff in R. destruct R as [R _].
      rewrite forallb_forall in F, R, NF. rewrite Forall_forall in IH.
      cbv zeta. rewrite map_map. cbn [snd].
      destruct (first_bad _) as [b|] eqn:FB; [|discriminate].
      intros ->. revert FB. apply first_bad_noerr. intros r Ir.
      apply in_map_iff in Ir. destruct Ir as [kv [<- Ix]].
      apply (IH kv Ix RVal bt2); auto.
    - destruct (leaf6 j t0 src (TScalar a k value cs) eq_refl F R) as [v ->]. discriminate.
  Qed.

  Lemma so_simple_kind j bt : so_simple ctx j bt = true -> is_reflike bt = false /\ is_struct bt = false.
  Proof. destruct bt; try discriminate; auto. Qed.

  Lemma dm6 fs ms :
    (forall kv, In kv ms -> exists f, find (fun f => seqb (f_name f) (fst kv)) fs = Some f /\
                                      decode ctx (snd kv) (f_type f) <> DErr) ->
    decode_members (decode ctx) (zero ctx) fs ms <> DErr.
  Proof.
    intros H. unfold decode_members.
    destruct (first_bad _) as [b|] eqn:FB; [|discriminate].
    intros ->. revert FB. apply first_bad_noerr. intros r Ir.
    apply in_map_iff in Ir. destruct Ir as [r' [<- Ir']].
    apply in_map_iff in Ir'. destruct Ir' as [kv [<- Ikv]].
    destruct (H kv Ikv) as [f [Ff D]]. unfold field_for_key. rewrite Ff. exact D.
  Qed.

  Lemma members6 fs ms : Forall (fun kv => s6 (snd kv)) ms ->
    forallb (fun f => ty_supported ctx (f_type f)) fs = true ->
    forallb (fun kv => json_null_free (snd kv)) ms = true ->
    so_struct ctx fs ms = true -> rs_struct ctx fs ms = true ->
    decode_members (decode ctx) (zero ctx) fs ms <> DErr /\
    sok_or_unm (strict_members (strict_val ctx RField) (zero ctx) fs ms).
  Proof.
    intros IH S NF K R. unfold so_struct in K. unfold rs_struct in R.
    apply andb_true_iff in K. destruct K as [K K3]. apply andb_true_iff in K. destruct K as [K1 K2].
    apply andb_true_iff in R. destruct R as [R _].
    rewrite Forall_forall in IH. rewrite forallb_forall in S, NF, K2, R.
    assert (NN : forall kv, In kv ms -> is_jnull (snd kv) = false)
      by (intros kv I; apply jnull_free_not_null; auto).
    assert (M : forall kv, In kv ms -> exists f, find (fun f => seqb (f_name f) (fst kv)) fs = Some f /\
                  decode ctx (snd kv) (f_type f) <> DErr /\ sok_or_unm (strict_val ctx RField (snd kv) (f_type f))).
    { intros kv I. specialize (K2 kv I). specialize (R kv I). unfold so_member in K2. unfold rs_member in R.
      destruct (find (fun f => seqb (f_name f) (fst kv)) fs) as [f|] eqn:Ff; [|discriminate K2].
      exists f. split; [reflexivity|].
      pose proof (find_some _ _ Ff) as [If _].
      apply andb_true_iff in R. destruct R as [R _].
      assert (K' : strict_ok ctx (snd kv) (f_type f) = true).
      { specialize (NN kv I). destruct (snd kv); try discriminate NN; exact K2. }
      apply (IH kv I RField (f_type f)); auto. }
    split.
    - apply dm6. intros kv I. destruct (M kv I) as [f [Ff [D _]]]. eauto.
    - apply strict_members_total; auto.
      intros kv I. destruct (M kv I) as [f [Ff [_ T]]]. eauto.
  Qed.

  Lemma dec_union_noerr j fs : forall bs,
    (exists f, In f bs /\ dec_simple ctx j (non_null (f_type f)) <> DErr) -> dec_union ctx j fs bs <> DErr.
  Proof.
    induction bs as [|f0 bs IH]; intros [f [I D]]; [destruct I|]. simpl.
    destruct (dec_simple ctx j (non_null (f_type f0))) eqn:E; try discriminate.
    - exfalso. exact (dec_simple_nokeep _ _ E).
    - destruct I as [<-|I]; [contradiction D; exact E|]. apply IH. eauto.
  Qed.

  Lemma sv_union_total j fs : forall bs,
    (exists f, In f bs /\ decode ctx j (non_null (f_type f)) <> DErr) -> sok_or_unm (sv_union ctx j fs bs).
  Proof.
    induction bs as [|f0 bs IH]; intros [f [I D]]; [destruct I|]. simpl.
    destruct (decode ctx j (non_null (f_type f0))) eqn:E; try (left; eauto; fail); try (right; eauto; fail).
    destruct I as [<-|I]; [contradiction D; exact E|]. apply IH. eauto.
  Qed.

  Lemma s6_step j : kids6 j -> s6 j.
  Proof.
    intros IH src t S NF R K.
    pose proof (jnull_free_not_null _ NF) as N.
    rewrite rts_unfold, N in R. rewrite strict_ok_unfold, N in K.
    destruct (payload_type ctx t) as [pt|w] eqn:P; [|discriminate K].
    pose proof (payload_supported _ _ _ Hc S P) as Sp.
    destruct (is_struct pt) eqn:Z.
    - (* struct *)
      destruct pt as [| | | |a dh fs| | | | | |]; try discriminate Z.
      rewrite (decode_eq_struct _ _ _ _ _ _ N P), (sv_eq_struct _ _ _ _ _ _ _ P).
      assert (B : dec_struct ctx j (TStruct a dh fs) fs <> DErr /\ sok_or_unm (sv_body ctx j (TStruct a dh fs) fs)).
      { unfold so_body in K. unfold rs_body in R. unfold dec_struct, sv_body.
        destruct (union_scalars (TStruct a dh fs)) as [d|].
        - apply existsb_exists in K. destruct K as [f [If Kf]].
          rewrite forallb_forall in R. specialize (R f If).
          pose proof (supported_non_null _ _ (supported_fields _ _ _ _ _ Sp If)) as Sb.
          pose proof (simple6 _ _ _ _ IH Sb NF Kf R) as D.
          destruct (so_simple_kind _ _ Kf) as [Rf Zf].
          split.
          + apply dec_union_noerr. eauto.
          + apply sv_union_total. exists f. split; [exact If|].
            rewrite (decode_eq_simple _ _ _ _ N (payload_self _ _ Rf) Zf). intros E. apply wrapd_err in E. auto.
        - destruct (union_refs (TStruct a dh fs)) as [d|].
          + destruct j; try discriminate K.
            destruct (select_branch d (last_member (d_disc d) ms)) as [n|]; [|discriminate K].
            destruct (field_by_ref_name fs n) as [f|] eqn:FB; [|discriminate K].
            destruct (payload_type ctx (f_type f)) as [bpt|] eqn:BP; [|discriminate K].
            destruct bpt as [| | | |a' dh' bfs| | | | | |]; try discriminate K.
            pose proof (find_some _ _ FB) as [If _].
            pose proof (payload_supported _ _ _ Hc (supported_fields _ _ _ _ _ Sp If) BP) as Sb.
            destruct dh' as [|x dh'].
            * destruct (members6 bfs ms IH Sb NF K R) as [D T]. split.
              { destruct (decode_members (decode ctx) (zero ctx) bfs ms); try discriminate; exact D. }
              { destruct T as [[v E]|[w E]]; rewrite E; [left|right]; eauto. }
            * split; [discriminate|right; eauto].
          + destruct j; try discriminate K.
            exact (members6 fs ms IH Sp NF K R). }
      destruct B as [B1 B2]. split.
      + intros E. apply wrapd_err in E. auto.
      + destruct (negb (is_ref t)); [right; eauto|].
        destruct B2 as [[v E]|[w E]]; rewrite E; [left|right]; eauto.
    - (* arrays, maps, scalars, enums *)
      assert (K' : so_simple ctx j pt = true) by (destruct pt; try discriminate Z; exact K).
      assert (R' : rs_simple ctx t j src pt = true) by (destruct pt; try discriminate Z; exact R).
      clear K R.
      assert (D : decode ctx j t <> DErr).
      { rewrite (decode_eq_simple _ _ _ _ N P Z). intros E. apply wrapd_err in E.
        exact (simple6 _ _ _ _ IH Sp NF K' R' E). }
      split; [exact D|].
      destruct pt; try discriminate K'.
      + (* array *)
        rewrite (sv_eq_arr _ _ _ _ _ _ P).
        destruct (array_of_scalars ctx 8 (TArray a pt)) eqn:A; [apply std_res_total; exact D|].
        unfold so_simple in K'. unfold rs_simple in R'. destruct j; try discriminate K'.
        rewrite A in R'. simpl orb in R'.
        apply andb_true_iff in R'. destruct R' as [R1 R2]. apply andb_true_iff in R2. destruct R2 as [R2 R3].
        assert (G : sok_or_unm (sv_arr ctx t pt (JArr l))).
        { unfold sv_arr. simpl in IH, NF, Sp. apply andb_true_iff in Sp. destruct Sp as [_ Sp].
          rewrite forallb_forall in K', R1, NF. rewrite Forall_forall in IH.
          destruct (is_ref t && t_nullable t)%bool.
          - simpl in R3. destruct l; [left; exists GNil; reflexivity|discriminate R3].
          - assert (F : Forall sok_or_unm (map (fun x => strict_val ctx RElem x pt) l)).
            { apply Forall_forall. intros r Ir. apply in_map_iff in Ir. destruct Ir as [x [<- Ix]].
              apply (IH x Ix RElem pt); auto. }
            destruct (seq_results_total _ [] false F) as [[vals E]|[w E]]; rewrite E; [left|right]; eauto. }
        destruct src; try discriminate R2; exact G.
      + rewrite (sv_eq_leaf _ _ _ _ _ P eq_refl). apply std_res_total; exact D.
      + (* map *)
        rewrite (sv_eq_map _ _ _ _ _ _ _ P).
        destruct (map_of_scalars ctx 8 (TMap a pt1 pt2)) eqn:A; [apply std_res_total; exact D|].
        unfold so_simple in K'. unfold rs_simple in R'. destruct j; try discriminate K'.
        rewrite A in R'. simpl orb in R'.
        apply andb_true_iff in R'. destruct R' as [R1 R2].
        assert (G : sok_or_unm (sv_map ctx t pt2 (JObj ms))).
        { unfold sv_map. simpl in IH, NF, Sp. apply andb_true_iff in Sp. destruct Sp as [_ Sp].
          rewrite forallb_forall in K', R1, NF. rewrite Forall_forall in IH.
          assert (F : Forall sok_or_unm (map (fun kv => strict_val ctx RVal (snd kv) pt2) ms)).
          { apply Forall_forall. intros r Ir. apply in_map_iff in Ir. destruct Ir as [kv [<- Ix]].
            apply (IH kv Ix RVal pt2); auto. }
          destruct (seq_results_total _ [] false F) as [[vals E]|[w E]]; rewrite E; [left|right]; eauto. }
        destruct src; try discriminate R2; exact G.
      + rewrite (sv_eq_leaf _ _ _ _ _ P eq_refl). apply std_res_total; exact D.
  Qed.

  Lemma s6_all : forall j, s6 j.
  Proof. induction j using json_ind'; apply s6_step; simpl; auto. Qed.
End Complete.

Lemma strict_rejects_only_bad_partial_weak : forall ctx p n d,
  ctx_supported ctx = true -> struct_object ctx p n = true ->
  json_wf d = true -> json_null_free d = true -> roundtrip_safe ctx p n d = true ->
  strict_ok_object ctx p n d = true ->
  is_unmodelled (strict_object ctx p n d) = false ->
  exists v, strict_object ctx p n d = GOk v.
Proof.
  intros ctx p n d Hc Hs WF NF R K U. unfold strict_object in *. unfold roundtrip_safe in R.
  assert (K' : strict_ok ctx d (TRef attrs0 p n) = true).
  { unfold strict_ok_object in K. destruct d; try exact K; discriminate K. }
  assert (S : ty_supported ctx (TRef attrs0 p n) = true).
  { simpl. change (match payload_type ctx (TRef attrs0 p n) with PTy _ => true | PUnm _ => false end = true).
    rewrite strict_ok_unfold, (jnull_free_not_null _ NF) in K'.
    destruct (payload_type ctx (TRef attrs0 p n)); [reflexivity|discriminate K']. }
  destruct (s6_all ctx Hc d RField _ S NF R K') as [_ [[v E]|[w E]]]; rewrite E in *.
  - eauto.
  - discriminate U.
Qed.
