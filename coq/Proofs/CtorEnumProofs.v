(* C10: the constructors also hold the default of a field that REFERS TO AN ENUMERATION (what the Go chain makes of
   an anonymous enumeration, now that AnonymousEnumToExplicitType keeps the default), and a witness through the real
   pass chains. *)
From Coq Require Import List String ZArith Bool Ascii Lia.
From Cog Require Import Model.IR Model.Json Model.GoSemBase Model.GoSemDecode Model.Ctor Model.PySem Model.CtorSpec
  Model.CtorChecks Model.Passes Model.PassesChain Model.Process Gen.Chains_gen Proofs.CtorProofs.
From Cog Require Proofs.PySemProofs.
Import ListNotations.
Local Open Scope list_scope.
Local Open Scope string_scope.

(* a field whose type is a reference to an enumeration object, with a default that IS one of the members (same
   dynamic Go type and value), the members being plain scalars that fit the enumeration's base kind *)
Definition enumref_field (ctx : schemas) (fld : field) : bool :=
  match f_type fld with
  | TRef a p n =>
      match locate_object ctx p n with
      | Some o =>
          match o_type o with
          | TEnum _ vs =>
              match find (fun ev => dyn_eqb (ev_value ev) (dflt a)) vs, enum_base vs with
              | Some ev, TScalar ba k bv bcs =>
                  (negb (dyn_is_nil (dflt a)) && dyn_plain (ev_value ev) &&
                   negb (is_datetime (TScalar ba k bv bcs)) && (f_required fld || nullable a) &&
                   match k with KAny | KNull | KBytes | KOther _ => false | _ => true end &&
                   match dyn_json (ev_value ev) with Some j => fits_scalar k j | None => false end)%bool
              | _, _ => false
              end
          | _ => false
          end
      | None => false
      end
  | _ => false
  end.

Definition held_field (ctx : schemas) (fld : field) : bool := (simple_field fld || enumref_field ctx fld)%bool.

(* the value such a field must hold: the member the default selects *)
Definition held_expected (ctx : schemas) (fld : field) : option json :=
  if simple_field fld then dyn_json (declared_dyn (f_type fld))
  else match f_type fld with
       | TRef a p n =>
           match locate_object ctx p n with
           | Some o => match o_type o with
                       | TEnum _ vs => match find (fun ev => dyn_eqb (ev_value ev) (dflt a)) vs with
                                       | Some ev => dyn_json (ev_value ev)
                                       | None => None end
                       | _ => None end
           | None => None
           end
       | _ => None
       end.

Definition held_fields_hold (ctx : schemas) (fs : list field) (j : json) : bool :=
  forallb (fun fld => (negb (held_field ctx fld) ||
                       match held_expected ctx fld with
                       | Some exp => holds_member j (f_name fld) exp
                       | None => false end)%bool) fs.

Lemma resolve_enum : forall ctx a p n o ae vs, locate_object ctx p n = Some o -> o_type o = TEnum ae vs ->
  GoSemBase.resolve ctx (TRef a p n) = Some (TEnum ae vs).
Proof.
  intros ctx a p n o ae vs L T. unfold GoSemBase.resolve. cbn [GoSemBase.resolve_fuel]. rewrite L, T.
  destruct (GoSemBase.count_objects ctx); reflexivity.
Qed.

Lemma go_enumref_field : forall ctx dfs fld,
  simple_field fld = false -> enumref_field ctx fld = true ->
  exists x j, go_field_value ctx dfs [] fld = COk x /\ held_expected ctx fld = Some j /\
              json_eq (encode ctx (f_type fld) x) j = true /\ (f_required fld = false -> is_empty_value x = false).
Proof.
  intros ctx dfs fld SF E. unfold held_expected. rewrite SF. unfold enumref_field in E.
  destruct (f_type fld) as [| | | | | a p n | | | | |] eqn:FT; try discriminate.
  destruct (locate_object ctx p n) as [o|] eqn:L; [|discriminate].
  destruct (o_type o) as [| | ae vs | | | | | | | |] eqn:OT; try discriminate.
  destruct (find (fun ev => dyn_eqb (ev_value ev) (dflt a)) vs) as [ev|] eqn:FD; [|discriminate].
  destruct (enum_base vs) as [| | | | | | | ba k bv bcs | | |] eqn:EB; try discriminate.
  apply andb_true_iff in E. destruct E as [E FJ]. apply andb_true_iff in E. destruct E as [E KK].
  apply andb_true_iff in E. destruct E as [E RN]. apply andb_true_iff in E. destruct E as [E DT].
  apply andb_true_iff in E. destruct E as [DN PL]. apply negb_true_iff in DN. apply negb_true_iff in DT.
  destruct (dyn_json (ev_value ev)) as [j|] eqn:DJ; [|discriminate].
  destruct (assign_scalar_fits (TScalar ba k bv bcs) k (ev_value ev) j PL DJ FJ DT) as [val [AV [GH FK]]].
  assert (VV : match val with GBool _ | GInt _ | GFloat _ _ | GStr _ => True | _ => False end).
  { destruct val; simpl in GH; try discriminate; exact I. }
  assert (JE : json_eq (scalar_json val) j = true).
  { apply gscalar_holds_json; [exact GH|]. destruct j; try exact I.
    destruct k; simpl in FJ; try discriminate;
      try (right; destruct (FK eq_refl) as [fa [fb FE]]; rewrite FE; exact I).
    all: left; apply andb_true_iff in FJ; destruct FJ as [FJ _]; apply andb_true_iff in FJ; destruct FJ as [FJ _];
         apply andb_true_iff in FJ; destruct FJ as [FJ _]; exact FJ. }
  unfold go_field_value, needs_explicit_default. rewrite !FT.
  rewrite (resolve_enum ctx a p n o ae vs L OT). cbn [ty_attrs alist_find is_ref is_struct is_array is_map is_enum
    is_concrete_scalar is_constref is_scalar t_nullable]. rewrite DN. simpl.
  rewrite FD. unfold dyn_of_enum_member. rewrite EB. rewrite AV. simpl.
  eexists. exists j. split; [reflexivity|]. split; [reflexivity|]. split.
  - unfold as_pointer. destruct (negb (t_nullable (TRef a p n))); simpl; rewrite encode_scalar by exact VV; exact JE.
  - intro R. rewrite R in RN. simpl in RN. unfold as_pointer, t_nullable. simpl. rewrite RN. reflexivity.
Qed.

Lemma go_held_field : forall ctx dfs fld, held_field ctx fld = true ->
  exists x j, go_field_value ctx dfs [] fld = COk x /\ held_expected ctx fld = Some j /\
              json_eq (encode ctx (f_type fld) x) j = true /\ (f_required fld = false -> is_empty_value x = false).
Proof.
  intros ctx dfs fld H. unfold held_field in H. destruct (simple_field fld) eqn:SF.
  - destruct (go_simple_field ctx dfs fld SF) as [x [j [A [B [C D]]]]]. exists x, j.
    split; [exact A|]. split; [unfold held_expected; rewrite SF; exact B|]. split; assumption.
  - simpl in H. apply go_enumref_field; assumption.
Qed.

(* C10, Go: simple fields AND enumeration references with a default *)
Theorem ctor_defaults_go_partial_enum : forall ctx p n fs j,
  plain_struct_object ctx p n = Some fs -> go_ctor ctx p n = COk j -> held_fields_hold ctx fs j = true.
Proof.
  intros ctx p n fs j PS H. destruct (plain_struct_facts ctx p n fs PS) as [CF [_ Hnd]].
  unfold go_ctor, go_ctor_value in H. rewrite CF in H. unfold ctor_fuel in H. rewrite defaults_for_struct_S in H.
  remember (defaults_for_struct ctx (S (GoSemBase.count_objects ctx))) as dfs eqn:Hdfs.
  destruct (call (map (go_field_value ctx dfs []) fs)) as [vs|w|w] eqn:CL; try discriminate.
  assert (Hj : j = encode ctx (TRef attrs0 p n) (GStruct (combine (map (@f_name ty) fs) vs))).
  { unfold cbind in H. inversion H. reflexivity. }
  clear H. rewrite Hj. clear Hj.
  apply call_ok in CL.
  assert (F2 : Forall2 (fun fld v => go_field_value ctx dfs [] fld = COk v) fs vs).
  { clear -CL. revert vs CL. induction fs as [|f r IH]; intros vs CL; inversion CL; subst; constructor; [assumption | apply IH; assumption]. }
  destruct (Forall2_combine_In _ _ _ F2) as [Hlen HIn].
  rewrite (encode_plain_struct ctx p n fs _ PS).
  unfold held_fields_hold. apply forallb_forall. intros fld Hfld.
  destruct (held_field ctx fld) eqn:HF; [|reflexivity]. simpl.
  destruct (go_held_field ctx dfs fld HF) as [x [je [GV [DJ [JE NE]]]]].
  rewrite DJ. unfold holds_member.
  destruct (In_combine_of_In fs vs fld Hlen Hfld) as [x' Hx'].
  pose proof (HIn fld x' Hx') as GV'. rewrite GV in GV'. inversion GV'; subst x'.
  rewrite (find_member_enc ctx fs vs (f_name fld) Hnd Hlen fld x Hx' eq_refl).
  destruct (f_required fld) eqn:R; simpl.
  - exact JE.
  - rewrite (NE eq_refl). exact JE.
Qed.

(* ---------- through the REAL chain_go ---------- *)
(* the pass itself: the reference that replaces an anonymous enumeration carries the enumeration's default *)
Theorem aete_keeps_default : forall spkg pkg cur sug a vs,
  fst (aete_type spkg pkg cur sug (TEnum a vs)) = TRef (mk_attrs (nullable a) (dflt a) []) spkg (upper_camel_case sug).
Proof. reflexivity. Qed.

(* witness (CtorProofs.wit_pre: `en: *"h" | "v"`, `un: string | bool | *"x"`): after the whole chain_go the field `en`
   is an enumref_field of the post-chain context and NewRoot() holds "h"; the union default is still lost *)
Theorem ctor_defaults_go_chain_enum_witness :
  process chain_go wit_pre = Ok wit_gpost /\
  (exists fs, plain_struct_object wit_gpost "w" "Root" = Some fs /\
              existsb (fun fld => (seqb (f_name fld) "en" && enumref_field wit_gpost fld)%bool) fs = true) /\
  go_ctor wit_gpost "w" "Root" = COk wit_go_json /\
  holds_member wit_go_json "en" (JStr "h") = true /\
  holds_member wit_go_json "un" (JStr "x") = false.
Proof.
  split; [vm_compute; reflexivity|]. split.
  - eexists. split; [vm_compute; reflexivity|]. vm_compute. reflexivity.
  - split; [vm_compute; reflexivity|]. split; vm_compute; reflexivity.
Qed.

(* ---------- Python ---------- *)
Lemma py_enumref_field : forall pctx f fld,
  simple_field fld = false -> enumref_field pctx fld = true ->
  exists j, held_expected pctx fld = Some j /\ j <> JNull /\
            py_field_value pctx (py_default pctx (S f)) [] fld = POk (praw j).
Proof.
  intros pctx f fld SF E. unfold held_expected. rewrite SF. unfold enumref_field in E.
  destruct (f_type fld) as [| | | | | a p n | | | | |] eqn:FT; try discriminate.
  destruct (locate_object pctx p n) as [o|] eqn:L; [|discriminate].
  destruct (o_type o) as [| | ae vs | | | | | | | |] eqn:OT; try discriminate.
  destruct (find (fun ev => dyn_eqb (ev_value ev) (dflt a)) vs) as [ev|] eqn:FD; [|discriminate].
  destruct (enum_base vs) as [| | | | | | | ba k bv bcs | | |] eqn:EB; try discriminate.
  apply andb_true_iff in E. destruct E as [E FJ]. apply andb_true_iff in E. destruct E as [E KK].
  apply andb_true_iff in E. destruct E as [E RN]. apply andb_true_iff in E. destruct E as [E DT].
  apply andb_true_iff in E. destruct E as [DN PL]. apply negb_true_iff in DN.
  destruct (dyn_json (ev_value ev)) as [j|] eqn:DJ; [|discriminate].
  assert (NN : dyn_is_nil (ev_value ev) = false).
  { destruct (ev_value ev); simpl in PL |- *; try reflexivity; discriminate. }
  exists j. split; [reflexivity|]. split; [apply (plain_not_null _ _ PL NN DJ)|].
  pose proof (py_lit_json_plain _ _ PL DJ) as PLJ.
  unfold py_field_value. rewrite FT. cbn [ty_attrs is_concrete_scalar is_complex_kind alist_find]. rewrite DN.
  rewrite orb_true_r. cbn [negb]. cbv beta iota.
  cbn [py_default]. cbn [is_ref ty_attrs]. simpl negb. cbv beta iota. rewrite L, OT, FD.
  unfold py_lit. rewrite PLJ. reflexivity.
Qed.

Lemma py_held_field : forall pctx f fld, held_field pctx fld = true ->
  exists j, held_expected pctx fld = Some j /\ j <> JNull /\
            py_field_value pctx (py_default pctx (S f)) [] fld = POk (praw j).
Proof.
  intros pctx f fld H. unfold held_field in H. destruct (simple_field fld) eqn:SF.
  - destruct (py_simple_field pctx f fld SF) as [j [A [B C]]]. exists j.
    split; [unfold held_expected; rewrite SF; exact A|]. split; assumption.
  - simpl in H. apply py_enumref_field; assumption.
Qed.

Theorem ctor_defaults_py_partial_enum : forall pctx p n fs j,
  plain_struct_object pctx p n = Some fs -> py_ctor pctx p n = POk j -> held_fields_hold pctx fs j = true.
Proof.
  intros pctx p n fs j PS H. destruct (plain_struct_facts pctx p n fs PS) as [_ [SF Hnd]].
  unfold py_ctor, py_ctor_value in H. rewrite SF in H. unfold py_fuel in H. rewrite PySemProofs.py_init_S in H.
  destruct (pall (map (py_field_value pctx (py_default pctx (S (2 * GoSemBase.count_objects pctx))) []) fs)) as [vs|w|w|w] eqn:PA;
    try discriminate.
  assert (Hj : j = py_encode (mk_obj p n fs vs)) by (unfold pbind in H; inversion H; reflexivity).
  clear H. rewrite Hj. clear Hj.
  apply pall_ok_inv in PA.
  assert (F2 : Forall2 (fun fld v => py_field_value pctx (py_default pctx (S (2 * GoSemBase.count_objects pctx))) [] fld = POk v) fs vs).
  { clear -PA. revert vs PA. induction fs as [|f r IH]; intros vs PA; inversion PA; subst; constructor; [assumption | apply IH; assumption]. }
  destruct (Forall2_combine_In _ _ _ F2) as [Hlen HIn].
  unfold mk_obj. rewrite PySemProofs.py_encode_obj.
  unfold held_fields_hold. apply forallb_forall. intros fld Hfld.
  destruct (held_field pctx fld) eqn:HF; [|reflexivity]. simpl.
  destruct (py_held_field pctx (2 * GoSemBase.count_objects pctx) fld HF) as [je [DJ [NN FV]]].
  rewrite DJ. unfold holds_member.
  destruct (In_combine_of_In fs vs fld Hlen Hfld) as [x Hx].
  pose proof (HIn fld x Hx) as FV'. rewrite FV in FV'. inversion FV'; subst x.
  rewrite PySemProofs.find_member_obj by (rewrite (combine3_names fs vs Hlen); exact Hnd).
  rewrite (emitted_combine fs vs fld (praw je) Hnd Hlen Hx).
  assert (NP : PySemProofs.is_pnone (praw je) = false).
  { destruct je; try reflexivity. exfalso. apply NN. reflexivity. }
  rewrite NP. rewrite PySemProofs.py_encode_praw. destruct (f_required fld); apply json_eq_refl.
Qed.
