(* C09 — further lemmas: options that take a nested builder; veneered options writing at depth 2 behind a
   nil check.  (New file; Model files untouched.) *)
From Coq Require Import List String ZArith Bool Ascii Lia.
From Cog Require Import Model.IR Model.Json Model.Builders Model.BuildersEq Model.Spec16 Model.GoSem
  Model.BuilderEval Model.PyBuilderEval Model.BuilderSpec Proofs.BuilderEvalProofs.
Import ListNotations.
Local Open Scope list_scope.
Local Open Scope string_scope.

(* ---------- options that take a nested builder ---------- *)
Lemma builder_arg_value e n a p nm av :
  type_has_builder e (TRef a p nm) = true ->
  arg_value e [(n, av)] (mkArg n (TRef a p nm)) = GOk (unfold_aval av).
Proof.
  intros H. unfold arg_value. simpl. rewrite (proj2 (seqb_eq n n) eq_refl). rewrite H. reflexivity.
Qed.

(* the nested builder built: the field holds its result (behind a pointer when the field is nullable) *)
Theorem go_nested_builder_success_proof e f o st fs old a p nm w :
  struct_field_to_option f = Ok o -> f_name f <> "" ->
  f_type f = TRef a p nm -> type_has_builder e (f_type f) = true ->
  bs_obj st = GStruct fs -> gmap_find fs (f_name f) = Some old ->
  exists fs', go_option e o st [AVal w] = GOk (mkBState (GStruct fs') (bs_errors st)) /\
              gmap_find fs' (f_name f) = Some (maybe_ptr (f_type f) w) /\
              (forall g, g <> f_name f -> gmap_find fs' g = gmap_find fs g) /\
              map fst fs' = map fst fs.
Proof.
  intros D N T B S F. eapply go_derived_option_sets_proof; eauto.
  rewrite T in *. rewrite builder_arg_value; auto.
Qed.

(* the nested builder's Build() failed: the object is unchanged, builder.errors gets the field's path, and
   Build() answers as if the option had not been called *)
Theorem go_nested_builder_failure_proof e b f o st a p nm :
  struct_field_to_option f = Ok o ->
  f_type f = TRef a p nm -> type_has_builder e (f_type f) = true ->
  go_option e o st [AErr] = GOk (mkBState (bs_obj st) (bs_errors st ++ [f_name f])) /\
  go_build e b (mkBState (bs_obj st) (bs_errors st ++ [f_name f])) = go_build e b st.
Proof.
  intros D T B. split; [|reflexivity]. eapply go_nested_failure_dropped_proof; eauto.
  rewrite T in *. rewrite builder_arg_value; auto.
Qed.

(* what a nested program evaluates to: the result of its Build(), or AErr *)
Theorem go_arg_of_nested_program_proof f' e t p n ctor calls b cargs st0 st :
  locate_builder (be_builders e) p n = Some b ->
  List.length ctor = List.length (ct_args (b_ctor b)) ->
  omapM (fun ta => go_arg f' e (a_type (fst ta)) (snd ta)) (combine (ct_args (b_ctor b)) ctor) = GOk cargs ->
  go_new_builder e b cargs = GOk st0 ->
  go_run f' e b st0 calls = GOk st ->
  go_arg (S f') e t (BBuild p n ctor calls) =
    GOk (match go_build e b (last_state (st0 :: st)) with BROk v => AVal v | BRErr _ => AErr end).
Proof.
  intros L LEN C N R. cbn [go_arg]. rewrite L, C. cbn [obind]. rewrite LEN, Nat.eqb_refl. cbn [negb].
  rewrite N. cbn [obind].
  assert (X : forall calls st0 st,
    go_run f' e b st0 calls = GOk st ->
    (fix run (calls : bcalls) (st : bstate) : outcome bstate :=
       match calls with
       | [] => GOk st
       | (on, args) :: r =>
           match option_by_name b on with
           | None => GUnmodelled "unknown option"
           | Some o =>
               if negb (Nat.eqb (List.length args) (List.length (op_args o))) then GUnmodelled "argument count" else
               dob avs <- omapM (fun ta => go_arg f' e (a_type (fst ta)) (snd ta)) (combine (op_args o) args) ;
               dob st' <- go_option e o st avs ;
               run r st'
           end
       end) calls st0 = GOk (last_state (st0 :: st))).
  { clear. induction calls as [|[on args] r IH]; intros st0 st H; simpl in H.
    - inversion H. reflexivity.
    - destruct (option_by_name b on) as [o|]; try discriminate.
      apply obind_ok in H. destruct H as [avs [H1 H]]. apply obind_ok in H. destruct H as [st' [H2 H]].
      apply obind_ok in H. destruct H as [rest [H3 H]]. inversion H; subst. clear H.
      unfold go_args in H1.
      destruct (negb (Nat.eqb (List.length args) (List.length (op_args o)))) eqn:EL; try discriminate.
      rewrite H1. cbn [obind]. rewrite H2. cbn [obind]. rewrite (IH _ _ H3).
      unfold last_state. destruct rest; reflexivity. }
  rewrite (X _ _ _ R). reflexivity.
Qed.

(* ---------- veneered options: a path of length 2 behind a nil check ---------- *)
Definition plain_item (it : pathitem) : Prop :=
  pi_index it = None /\ pi_typehint it = None /\ pi_root it = false /\ pi_id it <> "".

Lemma plain_item_upd env it v f : plain_item it ->
  item_upd env it v f =
  match v with
  | GStruct fs => dob fs' <- fields_upd fs (pi_id it) f ; GOk (GStruct fs')
  | GPtr (GStruct fs) => dob fs' <- fields_upd fs (pi_id it) f ; GOk (GPtr (GStruct fs'))
  | GNil => GPanic
  | _ => GUnmodelled "path through a value that is not a struct"
  end.
Proof.
  intros [I [T [R N]]]. unfold item_upd. rewrite I, T, R. simpl.
  destruct (seqb (pi_id it) "") eqn:E; [apply seqb_eq in E; contradiction|]. reflexivity.
Qed.

Lemma plain_item_get env it fs x : plain_item it -> gmap_find fs (pi_id it) = Some x ->
  path_get env [it] (GStruct fs) = Some x.
Proof.
  intros [I [T [R N]]] F. simpl. unfold item_get. rewrite I.
  destruct (seqb (pi_id it) "") eqn:E; [apply seqb_eq in E; contradiction|]. rewrite F. reflexivity.
Qed.

(* the nil check of a one-item prefix: afterwards the prefix holds `mid` = what was there, or the empty
   value when nothing was there; every other field is untouched *)
Lemma go_nil_check_prefix e env fs it nct x1 mid :
  plain_item it -> gmap_find fs (pi_id it) = Some x1 ->
  (if is_nil x1 then go_empty_value e (non_null nct) = GOk mid else mid = x1) ->
  exists fs1, go_nil_check e env (GStruct fs) (mkNilCheck [it] nct) = GOk (GStruct fs1) /\
              gmap_find fs1 (pi_id it) = Some mid /\
              (forall g, g <> pi_id it -> gmap_find fs1 g = gmap_find fs g) /\ map fst fs1 = map fst fs.
Proof.
  intros P F M. unfold go_nil_check. cbn [nc_path nc_empty]. rewrite (plain_item_get env it fs x1 P F).
  destruct x1; simpl in M; try (subst mid; exists fs; repeat split; auto; fail).
  rewrite M. cbn [obind]. cbn [path_upd]. rewrite (plain_item_upd _ _ _ _ P).
  destruct (fields_upd_set fs (pi_id it) (fun _ => GOk mid) GNil mid F eq_refl) as [fs1 [U [A [B C]]]].
  rewrite U. simpl. exists fs1. auto.
Qed.

Theorem go_depth2_assignment_proof e env st fs it1 it2 arg cs nct v x1 mid inner0 old :
  plain_item it1 -> plain_item it2 ->
  bs_obj st = GStruct fs -> gmap_find fs (pi_id it1) = Some x1 ->
  arg_value e env arg = GOk (Some v) ->
  (if is_nil x1 then go_empty_value e (non_null nct) = GOk mid else mid = x1) ->
  (mid = GPtr (GStruct inner0) \/ mid = GStruct inner0) ->
  gmap_find inner0 (pi_id it2) = Some old ->
  exists fs' inner',
    go_assignment e env st (mkAssignment [it1; it2] (AValue (Some arg) DNil None) "direct" cs [mkNilCheck [it1] nct])
      = GOk (mkBState (GStruct fs') (bs_errors st), true) /\
    gmap_find fs' (pi_id it1) = Some (match mid with GPtr _ => GPtr (GStruct inner') | _ => GStruct inner' end) /\
    gmap_find inner' (pi_id it2) = Some (maybe_ptr (pi_type it2) v) /\
    (forall g, g <> pi_id it2 -> gmap_find inner' g = gmap_find inner0 g) /\
    (forall g, g <> pi_id it1 -> gmap_find fs' g = gmap_find fs g).
Proof.
  intros P1 P2 S F A M SH FI.
  destruct (go_nil_check_prefix e env fs it1 nct x1 mid P1 F M) as [fs1 [NC [F1 [O1 K1]]]].
  destruct (fields_upd_set inner0 (pi_id it2) (fun _ => GOk (maybe_ptr (pi_type it2) v)) old _ FI eq_refl)
    as [inner' [U2 [G2 [O2 _]]]].
  set (newmid := match mid with GPtr _ => GPtr (GStruct inner') | _ => GStruct inner' end).
  assert (INNER : item_upd env it2 mid (assign_method "direct" (maybe_ptr (pi_type it2) v)) = GOk newmid).
  { rewrite (plain_item_upd _ _ _ _ P2). unfold newmid. destruct SH as [-> | ->];
      unfold assign_method; simpl; rewrite U2; reflexivity. }
  destruct (fields_upd_set fs1 (pi_id it1)
              (fun x => item_upd env it2 x (assign_method "direct" (maybe_ptr (pi_type it2) v))) mid newmid F1 INNER)
    as [fs' [U1 [G1 [O1' _]]]].
  exists fs', inner'. split; [|repeat split; auto].
  - unfold go_assignment. cbn [as_nilchecks as_path as_value as_method]. rewrite S, NC. cbn [obind].
    unfold go_value. cbn [as_value as_path]. unfold go_simple_value. rewrite A. cbn [obind].
    unfold path_last_type. cbn [List.last].
    cbn [path_upd]. rewrite (plain_item_upd _ _ _ _ P1).
    change (fun x : gval => item_upd env it2 x (fun x0 : gval => assign_method "direct" (maybe_ptr (pi_type it2) v) x0))
      with (fun x : gval => item_upd env it2 x (assign_method "direct" (maybe_ptr (pi_type it2) v))).
    rewrite U1. reflexivity.
  - intros g Hg. rewrite O1' by exact Hg. apply O1. exact Hg.
Qed.

Lemma py_nil_check_prefix e env fs it nct x1 mid :
  plain_item it -> gmap_find fs (pi_id it) = Some x1 ->
  (if is_nil x1 then py_empty_value e nct = GOk mid else mid = x1) ->
  exists fs1, py_nil_check e env (GStruct fs) (mkNilCheck [it] nct) = GOk (GStruct fs1) /\
              gmap_find fs1 (pi_id it) = Some mid /\
              (forall g, g <> pi_id it -> gmap_find fs1 g = gmap_find fs g) /\ map fst fs1 = map fst fs.
Proof.
  intros P F M. unfold py_nil_check. cbn [nc_path nc_empty]. rewrite (plain_item_get env it fs x1 P F).
  destruct x1; simpl in M; try (subst mid; exists fs; repeat split; auto; fail).
  rewrite M. cbn [obind]. cbn [path_upd]. rewrite (plain_item_upd _ _ _ _ P).
  destruct (fields_upd_set fs (pi_id it) (fun _ => GOk mid) GNil mid F eq_refl) as [fs1 [U [A [B C]]]].
  rewrite U. simpl. exists fs1. auto.
Qed.

Theorem py_depth2_assignment_proof e env fs it1 it2 arg nct v x1 inner0 old :
  plain_item it1 -> plain_item it2 ->
  gmap_find fs (pi_id it1) = Some x1 ->
  py_arg_value env arg = GOk v ->
  (if is_nil x1 then py_empty_value e nct = GOk (GStruct inner0) else GStruct inner0 = x1) ->
  gmap_find inner0 (pi_id it2) = Some old ->
  exists fs' inner',
    py_assignment e env (GStruct fs) (mkAssignment [it1; it2] (AValue (Some arg) DNil None) "direct" [] [mkNilCheck [it1] nct])
      = GOk (GStruct fs') /\
    gmap_find fs' (pi_id it1) = Some (GStruct inner') /\
    gmap_find inner' (pi_id it2) = Some v /\
    (forall g, g <> pi_id it2 -> gmap_find inner' g = gmap_find inner0 g) /\
    (forall g, g <> pi_id it1 -> gmap_find fs' g = gmap_find fs g).
Proof.
  intros P1 P2 F A M FI.
  destruct (py_nil_check_prefix e env fs it1 nct x1 (GStruct inner0) P1 F M) as [fs1 [NC [F1 [O1 K1]]]].
  destruct (fields_upd_set inner0 (pi_id it2) (fun _ => GOk v) old _ FI eq_refl) as [inner' [U2 [G2 [O2 _]]]].
  assert (INNER : item_upd env it2 (GStruct inner0) (py_assign_method "direct" v) = GOk (GStruct inner')).
  { rewrite (plain_item_upd _ _ _ _ P2). unfold py_assign_method. simpl. rewrite U2. reflexivity. }
  destruct (fields_upd_set fs1 (pi_id it1) (fun x => item_upd env it2 x (py_assign_method "direct" v)) _ _ F1 INNER)
    as [fs' [U1 [G1 [O1' _]]]].
  exists fs', inner'. split; [|repeat split; auto].
  - unfold py_assignment. cbn [as_constraints as_nilchecks as_path as_value as_method omapM forallb negb obind].
    rewrite NC. cbn [obind]. unfold py_value. cbn [as_value]. unfold py_simple_value. rewrite A. cbn [obind].
    cbn [path_upd]. rewrite (plain_item_upd _ _ _ _ P1).
    change (fun x : gval => item_upd env it2 x (fun x0 : gval => py_assign_method "direct" v x0))
      with (fun x : gval => item_upd env it2 x (py_assign_method "direct" v)).
    rewrite U1. reflexivity.
  - intros g Hg. rewrite O1' by exact Hg. apply O1. exact Hg.
Qed.
