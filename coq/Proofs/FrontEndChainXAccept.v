(* Acceptance before and after chain_go on the plain fragment of the IR with every integer / float width and a
   possibly-zero entry type (Model/FrontEndChainSpecX.v ctx_plain_x), forward direction:
     ir_accepts on ctx (pre-chain meaning) implies strict_ok on nrfn_only ctx (post-chain meaning),
   and the two variants of the pre-chain meaning used by the OpenAPI and CUE front-end theorems imply ir_accepts:
     ir_accepts_n (nullability as an attribute, Model/FrontEndSpecOA.v) on the fragment (nothing is nullable there),
     ir_accepts_c (CUE number forms, Model/FrontEndSpecCue.v) on every IR.
   Adapted from Proofs/FrontEndChainAccept.v (lemmas that do not mention ctx_plain are reused as they are). *)
From Coq Require Import List String ZArith Bool Ascii Lia.
From Cog Require Import Model.IR Model.Json Model.GoSemBase Model.GoSemDecode Model.GoSemValidate Model.GoSemStrict
  Model.GoSemSpec08 Model.GoSemSpec01 Model.Src Model.FrontEnd Model.FrontEndSpec Model.FrontEndSpecOA
  Model.FrontEndCue Model.FrontEndSpecCue Model.Passes Model.FrontEndChainSpec Model.FrontEndChainSpecX.
From Cog Require Import Proofs.FrontEndChainAccept.
Import ListNotations.
Local Open Scope string_scope.
Local Open Scope list_scope.

(* ---------- the context ---------- *)
Definition fields_plain_x (fs : list field) : bool := forallb (fun f => ty_plain_x (f_type f)) fs.

Lemma fx_plain_object ctx p n o : ctx_plain_x ctx = true -> locate_object ctx p n = Some o ->
  exists a fs, o_type o = TStruct a [] fs /\ attrs_plain a = true /\ fields_plain_x fs = true.
Proof.
  intros H L. destruct (fc_locate_in _ _ _ _ L) as [s [Hs Ho]].
  unfold ctx_plain_x in H. rewrite forallb_forall in H. specialize (H s Hs).
  unfold schema_plain_x in H. apply andb_true_iff in H. destruct H as [H _].
  apply andb_true_iff in H. destruct H as [_ H]. rewrite forallb_forall in H. specialize (H _ Ho).
  unfold obj_plain_x in H. simpl in H. apply andb_true_iff in H. destruct H as [_ H].
  destruct (o_type o); try discriminate.
  apply andb_true_iff in H. destruct H as [H H3]. apply andb_true_iff in H. destruct H as [H1 H2].
  destruct dh; [|discriminate]. exists a, fs. repeat split; assumption.
Qed.

(* ---------- alternatives on the fragment ---------- *)
Lemma fx_alts_plain ctx t : ctx_plain_x ctx = true -> ty_plain_x t = true ->
  alternatives ctx (alt_fuel ctx) t =
  match t with
  | TRef _ p n => match locate_object ctx p n with Some o => [o_type o] | None => [] end
  | _ => [t]
  end.
Proof.
  intros H Ht. destruct (fc_alt_fuel ctx) as [f ->].
  destruct t; try discriminate; try reflexivity.
  cbn [alternatives]. destruct (locate_object ctx pkg name) as [o|] eqn:L; [|reflexivity].
  destruct (fx_plain_object _ _ _ _ H L) as [a' [fs [E _]]]. rewrite E. reflexivity.
Qed.

(* ---------- null is rejected before the chain ---------- *)
Lemma fx_null_rejected ctx t : ctx_plain_x ctx = true -> ty_plain_x t = true -> ir_accepts ctx JNull t = false.
Proof.
  intros H Ht. rewrite fc_ir_accepts_unfold, (fx_alts_plain _ _ H Ht).
  destruct t; try discriminate; try reflexivity.
  - destruct (locate_object ctx pkg name) as [o|] eqn:L; [|reflexivity].
    destruct (fx_plain_object _ _ _ _ H L) as [a' [fs [E _]]]. rewrite E. reflexivity.
  - simpl in Ht. apply andb_true_iff in Ht. destruct Ht as [Ht Hv]. apply andb_true_iff in Ht. destruct Ht as [_ Hk].
    destruct value; try discriminate. destruct k; try discriminate; reflexivity.
Qed.

Lemma fx_payload_ref ctx a p n o sa fs : ctx_plain_x ctx = true ->
  locate_object ctx p n = Some o -> o_type o = TStruct sa [] fs -> attrs_plain sa = true ->
  payload_type (nrfn_only ctx) (TRef a p n) = PTy (TStruct sa [] (map nrfn_field fs)).
Proof.
  intros H L E A. unfold payload_type, resolve. cbn [resolve_fuel].
  rewrite fc_locate_nrfn, L. cbn [option_map]. unfold nrfn_only_obj. rewrite E. cbn [set_otype o_type resolve_fuel].
  unfold attrs_plain in A. apply andb_true_iff in A. destruct A as [A1 _]. apply negb_true_iff in A1.
  destruct (count_objects (nrfn_only ctx)); cbn [resolve_fuel]; unfold t_nullable; cbn [ty_attrs]; rewrite A1; reflexivity.
Qed.

(* ---------- scalars: the same integer range on both sides, for every width ---------- *)
Lemma fx_scalar_fwd a k v cs j : kind_plain_x k = true -> dyn_is_nil v = true -> fc_nonnull j = true ->
  scalar_accepts (TScalar a k v cs) a k v cs j = true -> json_fits_scalar (TScalar a k v cs) k j = true.
Proof.
  intros Hk Hv Hj. destruct v; try discriminate. unfold scalar_accepts, json_fits_scalar.
  destruct k; try discriminate; destruct j; try discriminate;
    cbn [dyn_is_nil negb int_range andb]; intro H; try reflexivity; try discriminate.
  all: apply andb_true_iff in H; destruct H as [H _];
       unfold is_integral, int_value in H; destruct (num_norm m e) as [x y]; exact H.
Qed.

(* ---------- forward: what the pre-chain IR accepts, the post-chain IR accepts ---------- *)
Section FwdX.
  Variable ctx : schemas.
  Hypothesis Hctx : ctx_plain_x ctx = true.
  Let out := nrfn_only ctx.

  Lemma fx_struct_fwd fs ms :
    fields_plain_x fs = true ->
    Forall (fun kv => forall t, ty_plain_x t = true -> ir_accepts ctx (snd kv) t = true -> strict_ok out (snd kv) t = true) ms ->
    fc_alt_check ctx (JObj ms) (TStruct attrs0 [] fs) = true ->
    fc_struct_ok out (map nrfn_field fs) ms = true.
  Proof.
    intros F IH H. cbn [fc_alt_check] in H. apply andb_true_iff in H. destruct H as [H H3].
    apply andb_true_iff in H. destruct H as [H1 H2].
    unfold fc_struct_ok, members_nodup. rewrite H1. cbn [andb]. apply andb_true_iff. split.
    - rewrite Forall_forall in IH. apply forallb_forall. intros kv Hkv.
      rewrite forallb_forall in H2. specialize (H2 kv Hkv). rewrite fc_find_nrfn.
      destruct (find (fun f => seqb (f_name f) (fst kv)) fs) as [f|] eqn:Ef; [|discriminate]. cbn [option_map].
      assert (ty_plain_x (f_type f) = true) as Pf.
      { apply find_some in Ef. exact (proj1 (forallb_forall _ _) F f (proj1 Ef)). }
      destruct (fc_nonnull (snd kv)) eqn:Nn.
      + pose proof (IH kv Hkv _ Pf H2) as S1. rewrite <- (fc_strict_nrfn_field out _ f Nn) in S1.
        destruct (snd kv); try discriminate; exact S1.
      + destruct (snd kv); try discriminate. rewrite (fx_null_rejected _ _ Hctx Pf) in H2. discriminate.
    - rewrite fc_forallb_map. revert H3. apply fc_forallb_impl. intros f Hf Hr. unfold nrfn_field at 1 3. cbn [f_required f_name].
      apply orb_true_iff in Hr. destruct Hr as [Hr|Hr]; rewrite Hr; [reflexivity|]. rewrite !orb_true_r. reflexivity.
  Qed.

  Lemma fx_accepts_scalar j a k v cs : ty_plain_x (TScalar a k v cs) = true ->
    ir_accepts ctx j (TScalar a k v cs) = scalar_accepts (TScalar a k v cs) a k v cs j.
  Proof. intro Ht. rewrite fc_ir_accepts_unfold, (fx_alts_plain _ _ Hctx Ht). cbn [existsb fc_alt_check]. apply orb_false_r. Qed.
  Lemma fx_accepts_array j a et : ty_plain_x (TArray a et) = true ->
    ir_accepts ctx j (TArray a et) = match j with JArr l => forallb (fun x => ir_accepts ctx x et) l | _ => false end.
  Proof. intro Ht. rewrite fc_ir_accepts_unfold, (fx_alts_plain _ _ Hctx Ht). cbn [existsb fc_alt_check]. apply orb_false_r. Qed.
  Lemma fx_accepts_map j a i vt : ty_plain_x (TMap a i vt) = true ->
    ir_accepts ctx j (TMap a i vt) = match j with JObj ms => forallb (fun kv => ir_accepts ctx (snd kv) vt) ms | _ => false end.
  Proof. intro Ht. rewrite fc_ir_accepts_unfold, (fx_alts_plain _ _ Hctx Ht). cbn [existsb fc_alt_check]. apply orb_false_r. Qed.
  Lemma fx_accepts_ref j a p n : ty_plain_x (TRef a p n) = true ->
    ir_accepts ctx j (TRef a p n) =
    match locate_object ctx p n with Some o => fc_alt_check ctx j (o_type o) | None => false end.
  Proof.
    intro Ht. rewrite fc_ir_accepts_unfold, (fx_alts_plain _ _ Hctx Ht).
    destruct (locate_object ctx p n); [|reflexivity]. cbn [existsb]. apply orb_false_r.
  Qed.

  Lemma fx_plain_scalar_inv a k v cs : ty_plain_x (TScalar a k v cs) = true -> kind_plain_x k = true /\ dyn_is_nil v = true.
  Proof.
    simpl. intro H. apply andb_true_iff in H. destruct H as [H Hv]. apply andb_true_iff in H. destruct H as [_ Hk]. split; assumption.
  Qed.

  Lemma fx_accepts_fwd : forall j t, ty_plain_x t = true -> ir_accepts ctx j t = true -> strict_ok out j t = true.
  Proof.
    induction j using fc_json_ind; intros t Ht Ha;
      try (rewrite (fx_null_rejected _ _ Hctx Ht) in Ha; discriminate).
    all: destruct t; try discriminate.
    (* arrays *)
    all: try (rewrite (fx_accepts_array _ _ _ Ht) in Ha; rewrite fc_strict_array by reflexivity; try discriminate).
    (* maps *)
    all: try (rewrite (fx_accepts_map _ _ _ _ Ht) in Ha; rewrite fc_strict_map by reflexivity; try discriminate).
    (* scalars *)
    all: try (rewrite (fx_accepts_scalar _ _ _ _ _ Ht) in Ha; rewrite fc_strict_scalar by reflexivity;
              destruct (fx_plain_scalar_inv _ _ _ _ Ht) as [Hk Hv];
              apply (fx_scalar_fwd a k value cs _ Hk Hv); [reflexivity|exact Ha]).
    (* references *)
    all: try (rewrite (fx_accepts_ref _ _ _ _ Ht) in Ha;
              destruct (locate_object ctx pkg name) as [o|] eqn:L; [|discriminate];
              destruct (fx_plain_object _ _ _ _ Hctx L) as [sa [fs [E [A F]]]];
              (erewrite fc_strict_ref_struct; [ | reflexivity | exact (fx_payload_ref _ a _ _ _ _ _ Hctx L E A)]);
              rewrite E in Ha; try discriminate).
    - (* array *)
      simpl in Ht. apply andb_true_iff in Ht. destruct Ht as [_ Ht].
      apply forallb_forall. intros x Hx. rewrite Forall_forall in H. apply (H x Hx _ Ht).
      exact (proj1 (forallb_forall _ _) Ha x Hx).
    - (* map *)
      simpl in Ht. apply andb_true_iff in Ht. destruct Ht as [_ Ht].
      apply forallb_forall. intros x Hx. rewrite Forall_forall in H. apply (H x Hx _ Ht).
      exact (proj1 (forallb_forall _ _) Ha x Hx).
    - (* struct behind a reference *)
      apply (fx_struct_fwd fs l F H). exact Ha.
  Qed.

  Theorem fx_accepts_doc_fwd p n d :
    ir_accepts_doc ctx p n d = true -> ir_valid_object out p n d = true.
  Proof.
    unfold ir_accepts_doc, ir_valid_object, strict_ok_object. intro H.
    destruct d; try discriminate; apply fx_accepts_fwd; try reflexivity; exact H.
  Qed.

  Lemma fx_struct_object_out p n d : ir_accepts_doc ctx p n d = true -> struct_object out p n = true.
  Proof.
    intro H. assert (ir_accepts ctx d (TRef attrs0 p n) = true) as Ha by (destruct d; try discriminate; exact H).
    rewrite fc_ir_accepts_unfold, (fx_alts_plain _ (TRef attrs0 p n) Hctx eq_refl) in Ha.
    unfold struct_object. unfold out. rewrite fc_locate_nrfn.
    destruct (locate_object ctx p n) as [o|] eqn:L; [|discriminate].
    destruct (fx_plain_object _ _ _ _ Hctx L) as [sa [fs [E _]]]. cbn [option_map]. unfold nrfn_only_obj. rewrite E. reflexivity.
  Qed.
End FwdX.

(* ---------- induction on a document through its children ---------- *)
Definition fx_children (j : json) : list json :=
  match j with JArr l => l | JObj ms => map snd ms | _ => [] end.

Lemma fx_json_children_ind (P : json -> Prop) :
  (forall j, (forall x, In x (fx_children j) -> P x) -> P j) -> forall j, P j.
Proof.
  intro H. induction j using fc_json_ind; apply H; cbn [fx_children]; try (intros x []).
  - rewrite Forall_forall in H0. exact H0.
  - intros x Hx. apply in_map_iff in Hx. destruct Hx as [kv [<- Hkv]].
    rewrite Forall_forall in H0. exact (H0 kv Hkv).
Qed.

(* ---------- ir_accepts_c (CUE number forms) implies ir_accepts, on every IR ---------- *)
Definition fx_alt_body_c (ctx : schemas) (j : json) (alt : ty) : bool :=
  match alt with
  | TScalar a k v cs => (scalar_accepts alt a k v cs j && (negb (dyn_is_nil v) || cue_number_form k j))%bool
  | TEnum _ vs => existsb (fun ev => const_matches (ev_value ev) j) vs
  | TArray _ et => match j with JArr l => forallb (fun x => ir_accepts_c ctx x et) l | _ => false end
  | TMap _ _ vt => match j with JObj ms => forallb (fun kv => ir_accepts_c ctx (snd kv) vt) ms | _ => false end
  | TStruct _ _ fs =>
      match j with
      | JObj ms =>
          (str_nodup (map fst ms) &&
           forallb (fun kv => match find (fun f => seqb (f_name f) (fst kv)) fs with
                              | Some f => ir_accepts_c ctx (snd kv) (f_type f)
                              | None => false
                              end) ms &&
           forallb (fun f => (negb (f_required f) || str_in (f_name f) (map fst ms))%bool) fs)%bool
      | _ => false
      end
  | _ => false
  end.
Lemma fx_c_unfold ctx j t : ir_accepts_c ctx j t = existsb (fx_alt_body_c ctx j) (alternatives ctx (alt_fuel ctx) t).
Proof. destruct j; reflexivity. Qed.

Lemma fx_existsb_impl {A} (p q : A -> bool) l : (forall x, In x l -> p x = true -> q x = true) ->
  existsb p l = true -> existsb q l = true.
Proof.
  intros H Hp. apply existsb_exists in Hp. destruct Hp as [x [Hx Px]]. apply existsb_exists. exists x.
  split; [exact Hx|apply H; assumption].
Qed.

Lemma fx_alt_c_imp ctx j alt :
  (forall x, In x (fx_children j) -> forall t, ir_accepts_c ctx x t = true -> ir_accepts ctx x t = true) ->
  fx_alt_body_c ctx j alt = true -> fc_alt_check ctx j alt = true.
Proof.
  intros IH H. destruct alt; cbn [fx_alt_body_c fc_alt_check] in *; try exact H.
  - (* array *) destruct j; try exact H. revert H. apply fc_forallb_impl. intros x Hx. apply IH. exact Hx.
  - (* map *) destruct j; try exact H. revert H. apply fc_forallb_impl. intros kv Hkv. apply IH.
    cbn [fx_children]. apply in_map. exact Hkv.
  - (* struct *) destruct j; try exact H. apply andb_true_iff in H. destruct H as [H H3].
    apply andb_true_iff in H. destruct H as [H1 H2]. rewrite H1, H3, andb_true_r. cbn [andb].
    revert H2. apply fc_forallb_impl. intros kv Hkv.
    destruct (find (fun f => seqb (f_name f) (fst kv)) fs) as [f|]; [|auto]. apply IH.
    cbn [fx_children]. apply in_map. exact Hkv.
  - (* scalar *) apply andb_true_iff in H. exact (proj1 H).
Qed.

Theorem fx_c_to_ir ctx : forall j t, ir_accepts_c ctx j t = true -> ir_accepts ctx j t = true.
Proof.
  induction j as [j IH] using fx_json_children_ind. intros t Ha.
  rewrite fx_c_unfold in Ha. rewrite fc_ir_accepts_unfold. revert Ha. apply fx_existsb_impl.
  intros alt _. apply fx_alt_c_imp. exact IH.
Qed.

Lemma fx_c_doc_to_ir ctx p n d : ir_accepts_c_doc ctx p n d = true -> ir_accepts_doc ctx p n d = true.
Proof. unfold ir_accepts_c_doc, ir_accepts_doc. destruct d; try discriminate; apply fx_c_to_ir. Qed.

(* ---------- ir_accepts_n (nullability as an attribute) implies ir_accepts, on the fragment ---------- *)
Definition fx_alt_body_n (ctx : schemas) (j : json) (alt : ty) : bool :=
  match alt with
  | TScalar a k v cs => scalar_accepts alt a k v cs j
  | TEnum _ vs => existsb (fun ev => const_matches (ev_value ev) j) vs
  | TArray _ et => match j with JArr l => forallb (fun x => ir_accepts_n ctx x et) l | _ => false end
  | TMap _ _ vt => match j with JObj ms => forallb (fun kv => ir_accepts_n ctx (snd kv) vt) ms | _ => false end
  | TStruct _ _ fs =>
      match j with
      | JObj ms =>
          (str_nodup (map fst ms) &&
           forallb (fun kv => match find (fun f => seqb (f_name f) (fst kv)) fs with
                              | Some f => ir_accepts_n ctx (snd kv) (f_type f)
                              | None => false
                              end) ms &&
           forallb (fun f => (negb (f_required f) || str_in (f_name f) (map fst ms))%bool) fs)%bool
      | _ => false
      end
  | _ => false
  end.
Lemma fx_n_unfold ctx j t :
  ir_accepts_n ctx j t =
  ((is_jnull j && nullable (ty_attrs t)) ||
   existsb (fun alt => ((is_jnull j && nullable (ty_attrs alt)) || fx_alt_body_n ctx j alt)%bool)
           (alternatives ctx (alt_fuel ctx) t))%bool.
Proof. destruct j; reflexivity. Qed.

Lemma fx_attrs_plain_nonnull a : attrs_plain a = true -> nullable a = false.
Proof. unfold attrs_plain. intro H. apply andb_true_iff in H. apply negb_true_iff. exact (proj1 H). Qed.
Lemma fx_ty_plain_attrs t : ty_plain_x t = true -> attrs_plain (ty_attrs t) = true.
Proof.
  destruct t; simpl; intro H; try discriminate;
    repeat match goal with X : (_ && _)%bool = true |- _ => apply andb_true_iff in X; destruct X end; assumption.
Qed.

Section NtoIr.
  Variable ctx : schemas.
  Hypothesis Hctx : ctx_plain_x ctx = true.

  (* the alternatives of a type of the fragment: the type itself, or the struct behind a reference *)
  Definition fx_alt_ok (alt : ty) : bool :=
    (ty_plain_x alt || match alt with TStruct a [] fs => (attrs_plain a && fields_plain_x fs)%bool | _ => false end)%bool.

  Lemma fx_alt_ok_nonnull alt : fx_alt_ok alt = true -> nullable (ty_attrs alt) = false.
  Proof.
    unfold fx_alt_ok. intro H. apply orb_true_iff in H. destruct H as [H|H].
    - apply fx_attrs_plain_nonnull, fx_ty_plain_attrs. exact H.
    - destruct alt; try discriminate. destruct dh; [|discriminate]. apply andb_true_iff in H.
      cbn [ty_attrs]. apply fx_attrs_plain_nonnull. exact (proj1 H).
  Qed.

  Lemma fx_alts_ok t alt : ty_plain_x t = true -> In alt (alternatives ctx (alt_fuel ctx) t) -> fx_alt_ok alt = true.
  Proof.
    intros Ht Hin. rewrite (fx_alts_plain _ _ Hctx Ht) in Hin.
    assert (forall u, ty_plain_x u = true -> In alt [u] -> fx_alt_ok alt = true) as G.
    { intros u Hu [<-|[]]. unfold fx_alt_ok. rewrite Hu. reflexivity. }
    destruct t; try discriminate; try (exact (G _ Ht Hin)).
    destruct (locate_object ctx pkg name) as [o|] eqn:L; [|destruct Hin].
    destruct (fx_plain_object _ _ _ _ Hctx L) as [sa [fs [E [A F]]]]. destruct Hin as [<-|[]].
    rewrite E. unfold fx_alt_ok. cbn [ty_plain_x orb]. rewrite A, F. reflexivity.
  Qed.

  Lemma fx_alt_n_imp j alt :
    (forall x, In x (fx_children j) -> forall t, ty_plain_x t = true -> ir_accepts_n ctx x t = true -> ir_accepts ctx x t = true) ->
    fx_alt_ok alt = true ->
    fx_alt_body_n ctx j alt = true -> fc_alt_check ctx j alt = true.
  Proof.
    intros IH OK H. unfold fx_alt_ok in OK. destruct alt; cbn [fx_alt_body_n fc_alt_check ty_plain_x orb] in *; try exact H.
    - (* array *) rewrite orb_false_r in OK. apply andb_true_iff in OK. destruct OK as [_ OK].
      destruct j; try exact H. revert H. apply fc_forallb_impl. intros x Hx. apply IH; assumption.
    - (* map *) rewrite orb_false_r in OK. apply andb_true_iff in OK. destruct OK as [_ OK].
      destruct j; try exact H. revert H. apply fc_forallb_impl. intros kv Hkv. apply IH; [|exact OK].
      cbn [fx_children]. apply in_map. exact Hkv.
    - (* struct *) destruct dh; [|discriminate]. apply andb_true_iff in OK. destruct OK as [_ F].
      destruct j; try exact H. apply andb_true_iff in H. destruct H as [H H3].
      apply andb_true_iff in H. destruct H as [H1 H2]. rewrite H1, H3, andb_true_r. cbn [andb].
      revert H2. apply fc_forallb_impl. intros kv Hkv.
      destruct (find (fun f => seqb (f_name f) (fst kv)) fs) as [f|] eqn:Ef; [|auto]. apply IH.
      + cbn [fx_children]. apply in_map. exact Hkv.
      + apply find_some in Ef. exact (proj1 (forallb_forall _ _) F f (proj1 Ef)).
  Qed.

  Theorem fx_n_to_ir : forall j t, ty_plain_x t = true -> ir_accepts_n ctx j t = true -> ir_accepts ctx j t = true.
  Proof.
    induction j as [j IH] using fx_json_children_ind. intros t Ht Ha.
    rewrite fx_n_unfold in Ha. rewrite fc_ir_accepts_unfold.
    rewrite (fx_attrs_plain_nonnull _ (fx_ty_plain_attrs _ Ht)), andb_false_r in Ha. cbn [orb] in Ha.
    revert Ha. apply fx_existsb_impl. intros alt Hin Hb.
    pose proof (fx_alts_ok t alt Ht Hin) as OK.
    rewrite (fx_alt_ok_nonnull alt OK), andb_false_r in Hb. cbn [orb] in Hb.
    apply fx_alt_n_imp; assumption.
  Qed.

  Lemma fx_n_doc_to_ir p n d : ir_accepts_n_doc ctx p n d = true -> ir_accepts_doc ctx p n d = true.
  Proof. unfold ir_accepts_n_doc, ir_accepts_doc. destruct d; try discriminate; apply fx_n_to_ir; reflexivity. Qed.
End NtoIr.
